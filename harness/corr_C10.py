"""C10 correspondence: the Coq world model of linear-mapped parametric circuits (model/ParamHistory.v, executed
by vm_compute with integer coefficients in units of 1/4) vs the real LinearMappedParametricQuantumCircuit /
UnboundParametricQuantumCircuit objects on the same random construction histories (new / add_parameters /
add_gate / add_Parametric*_gate with alias, dict and CONST angles / extend / += / + / get_mutable_copy /
freeze / the parametric transpilers RX2RZH, RY2RZH, ParametricTranspiler wrapper, sequential composition).

After every history each live circuit is compared on: qubit count, the in-parameter list (identity and
order), the gate list with the affine function each parametric gate resolves to through param_mapping, the
gates and angles of bind_parameters at integer values (the model's concrete `bind`), parameter_count, and
that every parametric gate has its own gate parameter.  Raising operations must raise on both sides."""
import math
import os
import random
import sys
from fractions import Fraction

sys.path.insert(0, os.path.dirname(os.path.dirname(os.path.abspath(__file__))))
from harness import oracle as O  # noqa: E402
from harness import coqeval  # noqa: E402

from quri_parts.circuit import (  # noqa: E402
    CONST, LinearMappedUnboundParametricQuantumCircuit, QuantumCircuit, UnboundParametricQuantumCircuit, gates)
from quri_parts.circuit.gate import QuantumGate  # noqa: E402
import quri_parts.circuit.transpile as T  # noqa: E402

IMPORTS = ("From Coq Require Import ZArith QArith List.\nFrom QP Require Import Gates.\n"
           "From QPM Require Import Transpile Parametric ParamHistory ParamSem.\nFrom QPG Require Import ptemplates.\n"
           "Open Scope Z_scope.")  # Q literals are written with # and %Q explicitly
FIXED = [("H", "KH", 1, 0), ("X", "KX", 1, 0), ("S", "KS", 1, 0), ("T", "KT", 1, 0), ("RZ", "KRZ", 1, 1), ("RX", "KRX", 1, 1),
         ("CNOT", "KCNOT", 2, 0), ("CZ", "KCZ", 2, 0)]
KCODE = {coq: i for i, (_, coq, _, _) in enumerate(FIXED)}
DEFS = """
Definition tau (l : list gate) : list gate := rev l.
Definition tr (t : nat) (l : list (rgate gate Q)) : list (rgate gate Q) :=
  match t with
  | 0%nat => tr_rw Q ptmpls_ParametricRX2RZHTranspiler l
  | 1%nat => tr_rw Q ptmpls_ParametricRY2RZHTranspiler l
  | 2%nat => tr_pt Q tau l
  | _ => tr_rw Q ptmpls_ParametricRY2RZHTranspiler (tr_rw Q ptmpls_ParametricRX2RZHTranspiler l)
  end.
Definition oNew := ONew gate Q.
Definition oAddParams := OAddParams gate Q.
Definition oAddFixed := OAddFixed gate Q.
Definition oAddPG := OAddPG gate Q.
Definition oAddUPG := OAddUnboundPG gate Q.
Definition oExtend := OExtend gate Q.
Definition oCombine := OCombine gate Q.
Definition oCopy := OCopy gate Q.
Definition oTranspile := OTranspile gate Q.
Definition al (p : nat) : afun Q := Alias Q p.
Definition ln (ts : list (option nat * Z)) : afun Q := Lin Q (map (fun t => (fst t, snd t # 4)) ts).
Definition nz (n : nat) : Z := Z.of_nat n.
Definition enc_k (k : gkind) : Z :=
  match k with KH => 0 | KX => 1 | KS => 2 | KT => 3 | KRZ => 4 | KRX => 5 | KCNOT => 6 | KCZ => 7 | _ => 99 end.
Definition enc_list (l : list Z) : list Z := nz (length l) :: l.
Definition enc_fixed (g : gate) : list Z :=
  [0; enc_k (gk g)] ++ enc_list (map nz (gqs g)) ++ enc_list (map api4 (gas g)).
Definition enc_pk (k : pkind) : list Z :=
  match k with PRX => [0; 0] | PRY => [1; 0] | PRZ => [2; 0] | PPR ids => 3 :: enc_list (map nz ids) end.
Definition enc_f (f : afun Q) : list Z :=
  match f with
  | Alias _ p => [0; nz p]
  | Lin _ ts => 1 :: nz (length ts) :: flat_map (fun t => [match fst t with Some p => nz p + 1 | None => 0 end;
                                                             Qnum (Qred (snd t)); Zpos (Qden (Qred (snd t)))]) ts
  end.
Definition enc_rg (g : rgate gate Q) : list Z :=
  match g with
  | RFixed g => enc_fixed g
  | RRot k qs f => 1 :: enc_pk k ++ enc_list (map nz qs) ++ enc_f f
  end.
Definition enc_bg (g : bgate gate Q) : list Z :=
  match g with
  | BFixed g => enc_fixed g
  | BRot k qs a => 1 :: enc_pk k ++ enc_list (map nz qs) ++ [Qnum (Qred a); Zpos (Qden (Qred a))]
  end.
Definition vals_for (c : lmc gate Q) : list Q := map (fun i => (3 * nz i + 1) # 1) (seq 0 (length (ins gate Q c))).
Definition enc_circ (c : lmc gate Q) : list Z :=
  let a := abs gate Q c in
  [nz (snq gate Q a)] ++ enc_list (map nz (sins gate Q a))
  ++ nz (length (sgates gate Q a)) :: flat_map enc_rg (sgates gate Q a)
  ++ nz (length (body gate Q c)) :: flat_map enc_bg (bind gate Q Qplus Qmult 0%Q 1%Q c (vals_for c)).
Definition run (ops : list (op gate Q)) : list Z :=
  let w := fold_left (step gate Q tr) ops (w0 gate Q) in
  nz (wnext gate Q w) :: nz (length (wcs gate Q w)) :: flat_map enc_circ (wcs gate Q w).
"""
PK = {"ParametricRX": "PRX", "ParametricRY": "PRY", "ParametricRZ": "PRZ"}
PKCODE = {"ParametricRX": 0, "ParametricRY": 1, "ParametricRZ": 2, "ParametricPauliRotation": 3}


class FakeTau:
    """a deterministic stand-in for `any circuit transpiler`: reverses the gate order of a segment"""

    def __call__(self, circuit):
        return QuantumCircuit(circuit.qubit_count, gates=list(reversed(list(circuit.gates))))


def transpiler(t):
    if t == 0:
        return T.ParametricRX2RZHTranspiler()
    if t == 1:
        return T.ParametricRY2RZHTranspiler()
    if t == 2:
        return T.ParametricTranspiler(FakeTau())
    return T.ParametricSequentialTranspiler([T.ParametricRX2RZHTranspiler(), T.ParametricRY2RZHTranspiler()])


def mk_fixed(spec):
    name, qs, k = spec
    if name in ("RZ", "RX"):
        return getattr(gates, name)(qs[0], k * math.pi / 4)
    return getattr(gates, name)(*qs)


def coq_fixed(spec):
    name, qs, k = spec
    coq = [c for n, c, _, _ in FIXED if n == name][0]
    angs = f"[ang_pi4 ({k})]" if name in ("RZ", "RX") else "[]"
    return f"(mkG {coq} {coqeval.natlist(qs)} {angs})"


class Live:
    def __init__(self, obj, kind, frozen=False):
        self.obj, self.kind, self.frozen = obj, kind, frozen  # kind in LM / U


class World:
    def __init__(self):
        self.next = 0
        self.cs = []
        self.param = {}   # pid -> Parameter (in-parameters only)
        self.pid = {}     # Parameter -> pid

    def reg(self, p):
        self.param[self.next] = p
        self.pid[p] = self.next
        self.next += 1


def n_param_gates(obj):
    return sum(1 for _, p in obj.primitive_circuit().gates_and_params if p is not None)


def rand_angle_fn(rng, w, c, allow_foreign):
    """returns (python angle, coq text) ; pids may be foreign (not in the circuit) to exercise the check"""
    ins = [w.pid[p] for p in c.obj.param_mapping.in_params]
    pool = list(ins)
    if allow_foreign and w.param and rng.random() < 0.15:
        pool = list(w.param)
    if not pool:
        pool = []
    r = rng.random()
    if pool and r < 0.25:
        p = rng.choice(pool)
        return w.param[p], f"(al {p})"
    ks = rng.sample(pool, rng.randint(0, min(3, len(pool)))) if pool else []
    items = [(k, rng.choice([4, -4, 2, -2, 8, 1, 0, 6])) for k in ks]
    const = rng.choice([None, None, 0, 4, -6, 3])
    pos = rng.randint(0, len(items)) if const is not None else None
    seq = list(items)
    if const is not None:
        seq.insert(pos, ("C", const))
    d = {}
    for k, v in seq:
        d[CONST if k == "C" else w.param[k]] = v / 4.0
    txt = "(ln [" + "; ".join(f"({'None' if k == 'C' else f'Some {k}%nat'}, ({v})%Z)" for k, v in seq) + "])"
    return d, txt


def gen_history(rng, steps):
    """executes on the real objects while generating; returns (world, coq ops, readable log)"""
    w = World()
    ops, log = [], []
    for _ in range(steps):
        lm_mut = [i for i, c in enumerate(w.cs) if c.kind == "LM" and not c.frozen]
        u_mut = [i for i, c in enumerate(w.cs) if c.kind == "U" and not c.frozen]
        choices = ["new"] * (3 if len(w.cs) < 2 else 1)
        if len(w.cs) >= 4:
            choices = []
        if lm_mut:
            choices += ["params", "fixed", "pg", "pg", "pg", "extend", "extend"]
        if u_mut:
            choices += ["ufixed", "upg"]
        if w.cs:
            choices += ["copy", "transpile"]
            if any(c.kind == "LM" for c in w.cs) and len(w.cs) < 5:
                choices += ["combine", "combine"]
        if not choices:
            break
        a = rng.choice(choices)
        if a == "new":
            n = rng.choice([1, 2, 2, 3])
            kind = "LM" if rng.random() < 0.8 else "U"
            obj = LinearMappedUnboundParametricQuantumCircuit(n) if kind == "LM" else UnboundParametricQuantumCircuit(n)
            w.cs.append(Live(obj, kind))
            ops.append(f"oNew {n}%nat")
            log.append(f"c{len(w.cs) - 1} = {kind}({n})")
        elif a == "params":
            i, k = rng.choice(lm_mut), rng.randint(1, 3)
            ps = w.cs[i].obj.add_parameters(*[f"p{w.next + j}" for j in range(k)])
            for p in ps:
                w.reg(p)
            ops.append(f"oAddParams {i}%nat {k}%nat")
            log.append(f"c{i}.add_parameters(x{k})")
        elif a in ("fixed", "ufixed"):
            i = rng.choice(lm_mut if a == "fixed" else u_mut)
            n = w.cs[i].obj.qubit_count
            name, _, ar, npar = rng.choice([f for f in FIXED if f[2] <= n])
            spec = (name, rng.sample(range(n), ar), rng.randint(-4, 4))
            w.cs[i].obj.add_gate(mk_fixed(spec))
            ops.append(f"oAddFixed {i}%nat {coq_fixed(spec)}")
            log.append(f"c{i}.add_gate({spec})")
        elif a == "pg":
            i = rng.choice(lm_mut)
            c = w.cs[i]
            n = c.obj.qubit_count
            ang, txt = rand_angle_fn(rng, w, c, True)
            pk = rng.choice(["ParametricRX", "ParametricRY", "ParametricRZ", "ParametricPauliRotation"])
            if pk == "ParametricPauliRotation":
                qs = rng.sample(range(n), rng.randint(1, n))
                ids = [rng.randint(1, 3) for _ in qs]
                call = lambda: c.obj.add_ParametricPauliRotation_gate(qs, ids, ang)  # noqa: E731
                ktxt = f"(PPR {coqeval.natlist(ids)})"
            else:
                qs = [rng.randrange(n)]
                call = lambda: getattr(c.obj, f"add_{pk}_gate")(qs[0], ang)  # noqa: E731
                ktxt = PK[pk]
            try:
                call()
                w.next += 1
                log.append(f"c{i}.add_{pk}_gate({qs}, {txt})")
                if isinstance(ang, dict):  # the caller's dict is the caller's: later changes must not reach the circuit
                    for k_ in list(ang):
                        ang[k_] = 12.5
                    ang[CONST] = -7.25
            except ValueError:
                log.append(f"c{i}.add_{pk}_gate({qs}, {txt}) -> ValueError")
            ops.append(f"oAddPG {i}%nat {ktxt} {coqeval.natlist(qs)} {txt}")
        elif a == "upg":
            i = rng.choice(u_mut)
            c = w.cs[i]
            n = c.obj.qubit_count
            pk = rng.choice(["ParametricRX", "ParametricRY", "ParametricRZ", "ParametricPauliRotation"])
            if pk == "ParametricPauliRotation":
                qs = rng.sample(range(n), rng.randint(1, n))
                ids = [rng.randint(1, 3) for _ in qs]
                p = c.obj.add_ParametricPauliRotation_gate(qs, ids)
                ktxt = f"(PPR {coqeval.natlist(ids)})"
            else:
                qs = [rng.randrange(n)]
                p = getattr(c.obj, f"add_{pk}_gate")(qs[0])
                ktxt = PK[pk]
            w.reg(p)
            ops.append(f"oAddUPG {i}%nat {ktxt} {coqeval.natlist(qs)}")
            log.append(f"c{i}.add_{pk}_gate({qs}) [unbound]")
        elif a == "extend":
            i, j = rng.choice(lm_mut), rng.randrange(len(w.cs))
            cnt = n_param_gates(w.cs[j].obj)
            other = w.cs[j].obj
            how = rng.choice(["extend", "iadd"])
            try:
                if how == "extend":
                    w.cs[i].obj.extend(other)
                else:
                    tmp = w.cs[i].obj
                    tmp += other
                    w.cs[i].obj = tmp
                w.next += cnt
                log.append(f"c{i}.{how}(c{j})")
            except (ValueError, TypeError):
                log.append(f"c{i}.{how}(c{j}) -> error")
            ops.append(f"oExtend {i}%nat {j}%nat")
        elif a == "combine":
            i = rng.choice([k for k, c in enumerate(w.cs) if c.kind == "LM"])
            j = rng.randrange(len(w.cs))
            ci, cj = n_param_gates(w.cs[i].obj), n_param_gates(w.cs[j].obj)
            try:
                new = w.cs[i].obj + w.cs[j].obj
                w.cs.append(Live(new, "LM"))
                w.next += ci + cj
                log.append(f"c{len(w.cs) - 1} = c{i} + c{j}")
            except (ValueError, TypeError):
                log.append(f"c{i} + c{j} -> error")
            ops.append(f"oCombine {i}%nat {j}%nat")
        elif a == "copy":
            i = rng.randrange(len(w.cs))
            c = w.cs[i]
            if rng.random() < 0.5:
                w.cs.append(Live(c.obj.get_mutable_copy(), c.kind))
                log.append(f"c{len(w.cs) - 1} = c{i}.get_mutable_copy()")
            else:
                w.cs.append(Live(c.obj.freeze(), c.kind, frozen=True))
                log.append(f"c{len(w.cs) - 1} = c{i}.freeze()")
            ops.append(f"oCopy {i}%nat")
        elif a == "transpile":
            i, t = rng.randrange(len(w.cs)), rng.randint(0, 3)
            new = transpiler(t)(w.cs[i].obj)
            w.cs.append(Live(new, "LM"))
            w.next += n_param_gates(new)
            ops.append(f"oTranspile {i}%nat {t}%nat")
            log.append(f"c{len(w.cs) - 1} = transpiler{t}(c{i})")
    return w, ops, log


def enc_list(l):
    return [len(l)] + list(l)


def enc_fixed_real(g):
    name = g.name
    coq = [c for n, c, _, _ in FIXED if n == name]
    code = KCODE[coq[0]] if coq else 99
    qs = list(g.control_indices) + list(g.target_indices)
    angs = [int(round(p / (math.pi / 4))) for p in g.params]
    return [0, code] + enc_list(qs) + enc_list(angs)


def enc_pk_real(g):
    code = PKCODE[g.name.replace("Parametric", "Parametric")] if g.name in PKCODE else None
    if code is None:
        code = {"RX": 0, "RY": 1, "RZ": 2, "PauliRotation": 3}[g.name]
    if code == 3:
        return [3] + enc_list(list(g.pauli_ids))
    return [code, 0]


def enc_f_real(w, f):
    if not isinstance(f, dict) and not hasattr(f, "items"):
        return [0, w.pid[f]]
    out = [1, len(f)]
    for k, v in f.items():
        fr = Fraction(v)
        out += [0 if k is CONST else w.pid[k] + 1, fr.numerator, fr.denominator]
    return out


def enc_circ_real(w, c):
    obj = c.obj
    pm = obj.param_mapping
    ins = [w.pid[p] for p in pm.in_params]
    out = [obj.qubit_count] + enc_list(ins)
    gp = list(obj.primitive_circuit().gates_and_params)
    out.append(len(gp))
    for g, p in gp:
        if p is None:
            out += enc_fixed_real(g)
        else:
            out += [1] + enc_pk_real(g) + enc_list(list(g.target_indices)) + enc_f_real(w, pm.mapping[p])
    vals = [3 * i + 1 for i in range(len(ins))]
    bound = obj.bind_parameters([float(v) for v in vals])
    bg = list(bound.gates)
    out.append(len(bg))
    for (g0, p), g in zip(gp, bg):
        if p is None:
            out += enc_fixed_real(g)
        else:
            fr = Fraction(g.params[0])
            out += [1] + enc_pk_real(g) + enc_list(list(g.target_indices)) + [fr.numerator, fr.denominator]
    return out


def main():
    a = O.std_args().parse_args()
    rng = random.Random(a.seed * 31 + 1010)
    res = O.Result("random construction histories (5..22 operations over up to 5 live linear-mapped / unbound circuits "
                   "sharing parameters through copies, extend and +; alias / dict / CONST / foreign-parameter angles; four "
                   "parametric transpilers); distinct = history")
    n_hist = 120 if a.tier == "quick" else 1500
    terms, reals, infos = [], [], []
    opcount = {}
    for h in range(n_hist):
        w, ops, log = gen_history(rng, rng.randint(5, 22))
        for o in ops:
            opcount[o.split()[0]] = opcount.get(o.split()[0], 0) + 1
        info = {"history": log, "coq_ops": ops}
        try:
            enc = [w.next, len(w.cs)]
            for c in w.cs:
                enc += enc_circ_real(w, c)
            # every parametric gate has its own gate parameter; parameter_count is the number of in-parameters
            for i, c in enumerate(w.cs):
                outs = list(c.obj.param_mapping.out_params)
                if c.kind == "LM" and len(set(outs)) != len(outs):
                    res.fail("corr:out_params_repeated", f"circuit c{i}: a gate parameter occurs twice in out_params", info)
                if c.obj.parameter_count != len(c.obj.param_mapping.in_params):
                    res.fail("corr:parameter_count", f"circuit c{i}: parameter_count != number of in-parameters", info)
        except Exception as e:  # noqa: BLE001
            res.fail("corr:history:crash", f"{type(e).__name__}: {e}", info)
            continue
        terms.append("run [" + "; ".join(ops) + "]")
        reals.append(enc)
        infos.append(info)
    try:
        model = coqeval.eval_cases(a.work, "c10", IMPORTS, DEFS, terms, chunk=60)
        for info, r, m in zip(infos, reals, model):
            res.count(str(info["coq_ops"]), nontrivial=len(r) > 2, bucket="history")
            if r != m:
                # locate the first difference for the report
                k = next((i for i, (x, y) in enumerate(zip(r, m)) if x != y), min(len(r), len(m)))
                res.fail("corr:history", f"model and implementation differ at position {k} of the encoded world "
                         f"(impl ...{r[max(0, k - 6):k + 6]} vs model ...{m[max(0, k - 6):k + 6]})", info)
    except Exception as e:  # noqa: BLE001
        res.broken.append({"what": "correspondence C10: model evaluation failed", "detail": str(e)[-1500:]})
    res.sample({"operation_counts": opcount})
    if infos:
        res.sample(infos[0])
    res.emit()


if __name__ == "__main__":
    main()
