"""Failing-input search for C01: every transpiler class / preset / constructor configuration of
quri_parts.circuit.transpile run on random circuits over the full vocabulary; the dense unitary of
the output (numpy oracle from the documented matrices) must equal the input's up to a global phase
within the transpiler's documented tolerance, or the call must raise."""
import cmath
import math
import os
import random
import sys

import numpy as np

sys.path.insert(0, os.path.dirname(os.path.dirname(os.path.abspath(__file__))))
from harness import oracle as O  # noqa: E402

from quri_parts.circuit import QuantumCircuit, gate_names, gates  # noqa: E402
import quri_parts.circuit.transpile as T  # noqa: E402

ONEQ = ["Identity", "X", "Y", "Z", "H", "S", "Sdag", "SqrtX", "SqrtXdag", "SqrtY", "SqrtYdag", "T", "Tdag"]
VOCAB = ONEQ + ["RX", "RY", "RZ", "U1", "U2", "U3", "CNOT", "CZ", "SWAP", "TOFFOLI", "Pauli", "PauliRotation",
                "UM1", "UM2"]


def near_threshold_unitary(rng):
    """e^{i phi} RZ(a) RY(t) RZ(b) with t within 1e-14 .. 1e-3 of 0 or pi: nearly diagonal / anti-diagonal matrices WITH a global
    phase - the region where a decomposer switches between its branches and where the entries of a stored matrix (exact to
    about 1e-7) have meaningless phases"""
    t = 10.0 ** rng.uniform(-14, -3)
    if rng.random() < 0.4:
        t = math.pi - t
    a, b, ph = O.rand_angle(rng), O.rand_angle(rng), rng.choice([0.0, 0.3, 1.0, -2.0, O.rand_angle(rng)])
    rz = lambda x: np.diag([cmath.exp(-1j * x / 2), cmath.exp(1j * x / 2)])  # noqa: E731
    ry = np.array([[math.cos(t / 2), -math.sin(t / 2)], [math.sin(t / 2), math.cos(t / 2)]])
    return cmath.exp(1j * ph) * rz(a) @ ry @ rz(b)


def rand_gate(rng, npr, n, kinds, id0=True):
    for _ in range(50):
        k = rng.choice(kinds)
        need = {"CNOT": 2, "CZ": 2, "SWAP": 2, "UM2": 2, "TOFFOLI": 3}.get(k, 1)
        if need <= n:
            break
    else:
        k, need = "H", 1
    if k in ("Pauli", "PauliRotation"):
        m = rng.randint(1, min(n, 3))
        qs = rng.sample(range(n), m)
        ids = [rng.randint(1, 3) for _ in qs]
        if id0 and rng.random() < 0.12:
            # an identity factor (id 0) is accepted by the gate factories: a transpiler must treat it as the identity or raise
            ids[rng.randrange(len(ids))] = 0
        return gates.Pauli(qs, ids) if k == "Pauli" else gates.PauliRotation(qs, ids, O.rand_angle(rng))
    qs = rng.sample(range(n), need)
    if k in ("RX", "RY", "RZ", "U1"):
        # now and then an angle many periods away from the cycle range (normalisation / fusing wrap several hundred times)
        return getattr(gates, k)(qs[0], rng.uniform(-2000.0, 2000.0) if rng.random() < 0.08 else O.rand_angle(rng))
    if k == "U2":
        return gates.U2(qs[0], O.rand_angle(rng), O.rand_angle(rng))
    if k == "U3":
        return gates.U3(qs[0], O.rand_angle(rng), O.rand_angle(rng), O.rand_angle(rng))
    if k == "UM1":
        r = rng.random()
        if r < 0.4:
            m = O.CONST[rng.choice(ONEQ)]
        elif r < 0.6:
            m = near_threshold_unitary(rng)
        else:
            m = O.random_unitary(npr, 2)
        return gates.UnitaryMatrix([qs[0]], m.tolist())
    if k == "UM2":
        r = rng.random()
        if r < 0.25:
            m = O.local_matrix(rng.choice(["CNOT", "CZ", "SWAP"]))
        elif r < 0.4:
            m = np.kron(O.random_unitary(npr, 2), O.random_unitary(npr, 2))
        else:
            m = O.random_unitary(npr, 4)
        return gates.UnitaryMatrix(qs, m.tolist())
    if k in ("CNOT", "CZ", "SWAP"):
        return getattr(gates, k)(qs[0], qs[1])
    if k == "TOFFOLI":
        return gates.TOFFOLI(*qs)
    return getattr(gates, k)(qs[0])


ALLNAMES = [getattr(gate_names, k) for k in
            ["Identity", "X", "Y", "Z", "H", "S", "Sdag", "SqrtX", "SqrtXdag", "SqrtY", "SqrtYdag", "T", "Tdag",
             "RX", "RY", "RZ", "U1", "U2", "U3", "CNOT", "CZ", "SWAP", "TOFFOLI"]]
CLIFF1 = ["X", "Y", "Z", "H", "S", "Sdag", "SqrtX", "SqrtXdag", "SqrtY", "SqrtYdag"]


def configs(rng):
    """(label, constructor, vocabulary, eps) ; eps = documented tolerance per snapped gate"""
    out = []
    simple = [n for n in T.__all__ if n.endswith("Transpiler") and n not in (
        "ParametricTranspiler", "ParametricSequentialTranspiler", "ParametricRX2RZHTranspiler",
        "ParametricRY2RZHTranspiler", "ParametricPauliRotationDecomposeTranspiler", "QubitRemappingTranspiler",
        "SequentialTranspiler", "GateSetConversionTranspiler", "RotationConversionTranspiler",
        "CliffordConversionTranspiler", "CliffordApproximationTranspiler", "CircuitTranspiler",
        "ParametricCircuitTranspiler", "IdentityInsertionTranspiler")]
    for n in sorted(set(simple)):
        cls = getattr(T, n)
        out.append((n, cls, VOCAB, 1e-9))
    for eps in (1e-9, 1e-6, 1e-3):
        out.append((f"CliffordRZSetTranspiler({eps})", lambda e=eps: T.CliffordRZSetTranspiler(e), VOCAB, eps))
        for cls in ("RX2NamedTranspiler", "RY2NamedTranspiler", "RZ2NamedTranspiler", "Rotation2NamedTranspiler",
                    "ZeroRotationEliminationTranspiler"):
            out.append((f"{cls}({eps})", lambda c=cls, e=eps: getattr(T, c)(e), VOCAB, eps))
        out.append((f"RZ2NamedTranspiler({eps},False)", lambda e=eps: T.RZ2NamedTranspiler(e, False), VOCAB, eps))
    for lo in (-math.pi, 0.0, math.pi, -2 * math.pi, 1.0):
        out.append((f"NormalizeRotationTranspiler(({lo},+2pi))",
                    lambda l=lo: T.NormalizeRotationTranspiler((l, l + 2 * math.pi)), VOCAB, 1e-9))
    # cycle ranges whose width is 2 pi only up to the accepted epsilon (decimal literals, relaxed epsilon): the reduction
    # is still modulo exactly 2 pi, so the action is preserved to rounding error
    for lo, hi, e in ((0.0, 6.2832, 1e-4), (-3.1416, 3.1416, 1e-4), (-3.1415926536, 3.1415926536, 1e-9), (1.0, 7.28, 1e-2)):
        out.append((f"NormalizeRotationTranspiler(({lo},{hi}),{e})",
                    lambda l=lo, h=hi, e_=e: T.NormalizeRotationTranspiler((l, h), e_), VOCAB, 1e-9))
    for rot in (["RX", "RY", "RZ"], ["RX", "RY"], ["RY", "RZ"], ["RX", "RZ"], ["RZ"]):
        for fav in ((), ("H",), ("SqrtX",), ("H", "SqrtX")):
            out.append((f"RotationConversionTranspiler({rot},{fav})",
                        lambda r=rot, f=fav: T.RotationConversionTranspiler(r, f), VOCAB, 1e-9))
    for _ in range(12):
        ts = rng.sample(CLIFF1, rng.randint(1, 5))
        out.append((f"CliffordConversionTranspiler({sorted(ts)})", lambda t=ts: T.CliffordConversionTranspiler(t),
                    VOCAB, 1e-9))
    fixed_sets = [["RX", "RY", "RZ", "CNOT"], ["H", "RZ", "CNOT"], ["X", "SqrtX", "RZ", "CNOT"],
                  ["H", "S", "RZ", "CNOT"], ["RX", "RZ", "CZ"], ["RY", "RZ", "CZ"], ["H", "T", "Tdag", "S", "RZ", "CZ"],
                  ["RX", "RY", "CNOT"], ["H", "X", "Y", "Z", "SqrtX", "SqrtXdag", "SqrtY", "SqrtYdag", "S", "Sdag",
                                          "RZ", "CZ", "CNOT"]]
    for ts in fixed_sets:
        out.append((f"GateSetConversionTranspiler({ts})", lambda t=ts: T.GateSetConversionTranspiler(t), VOCAB, 1e-9))
    for _ in range(14):
        ts = rng.sample(ALLNAMES, rng.randint(3, 10))
        if not (set(ts) & {"CNOT", "CZ"}):
            ts.append(rng.choice(["CNOT", "CZ"]))
        eps = rng.choice([1e-9, 1e-6])
        out.append((f"GateSetConversionTranspiler({sorted(ts)},{eps})",
                    lambda t=ts, e=eps: T.GateSetConversionTranspiler(t, e), VOCAB, eps))
    out.append(("IdentityInsertionTranspiler", T.IdentityInsertionTranspiler, VOCAB, 1e-9))
    out.append(("RZSetTranspiler", T.RZSetTranspiler, VOCAB, 1e-9))
    out.append(("RotationSetTranspiler", T.RotationSetTranspiler, VOCAB, 1e-9))
    out.append(("STARSetTranspiler", T.STARSetTranspiler, VOCAB, 1e-9))
    return out


def describe(c):
    return [(g.name, list(g.control_indices) + list(g.target_indices), list(g.params), list(g.pauli_ids),
             [list(map(complex, r)) for r in g.unitary_matrix] if g.name == "UnitaryMatrix" else None) for g in c.gates]


def clifford_approx_check(res, rng, npr, reps):
    """the weaker, documented relation: T->S, Tdag->Sdag, rotation angles rounded to the nearest
    multiple of pi/2 (after U1/U2/U3/PauliRotation are decomposed); Clifford gates untouched."""
    tr = T.CliffordApproximationTranspiler()
    for _ in range(reps):
        n = rng.randint(1, 3)
        c = QuantumCircuit(n)
        for _ in range(rng.randint(1, 6)):
            c.add_gate(rand_gate(rng, npr, n, ONEQ + ["RX", "RY", "RZ", "U1", "U2", "U3", "CNOT", "CZ", "SWAP",
                                                       "PauliRotation"], id0=False))
        ref = QuantumCircuit(n)
        for g in c.gates:
            if g.name == "T":
                ref.add_gate(gates.S(g.target_indices[0]))
            elif g.name == "Tdag":
                ref.add_gate(gates.Sdag(g.target_indices[0]))
            elif g.name in ("RX", "RY", "RZ", "U1", "U2", "U3", "PauliRotation"):
                if g.name in ("RX", "RY", "RZ"):
                    seq = [g]
                elif g.name == "U1":
                    seq = [gates.RZ(g.target_indices[0], g.params[0])]
                elif g.name == "U2":
                    seq = T.U2ToRZSqrtXTranspiler().decompose(g)
                elif g.name == "U3":
                    seq = T.U3ToRZSqrtXTranspiler().decompose(g)
                else:
                    seq = T.PauliRotationDecomposeTranspiler().decompose(g)
                for s in seq:
                    if s.name in ("RX", "RY", "RZ"):
                        k = int(np.round(2 * s.params[0] / np.pi)) % 4
                        ref.add_gate(getattr(gates, s.name)(s.target_indices[0], k * math.pi / 2))
                    else:
                        ref.add_gate(s)
            else:
                ref.add_gate(g)
        try:
            out = tr(c)
        except Exception as e:  # noqa: BLE001
            res.count(("cliffapprox-raise", str(type(e))), nontrivial=False)
            continue
        ok = all(g.name in gate_names.CLIFFORD_GATE_NAMES for g in out.gates)
        d = O.phase_dist(O.circuit_unitary(out.gates, n), O.circuit_unitary(ref.gates, n))
        res.count(("cliffapprox", tuple(map(str, describe(c)))), bucket="CliffordApproximationTranspiler")
        if not ok or d > 1e-7:
            res.fail("sweep:CliffordApproximationTranspiler",
                     f"output is not the documented nearest-Clifford circuit (dist {d:.2e}, all-clifford={ok})",
                     {"circuit": describe(c), "out": describe(out)})


def check_equal(res, key, label, c, out, tol=2e-7):
    n = c.qubit_count
    d = O.phase_dist(O.circuit_unitary(out.gates, out.qubit_count), O.circuit_unitary(c.gates, n)) \
        if out.qubit_count == n else 9.0
    if d > tol:
        res.fail(key, f"unitary differs beyond phase: dist {d:.3e}", {"config": label, "n": n, "circuit": describe(c),
                                                                     "out": describe(out)})


def focused_checks(res, rng, npr, tier):
    """inputs that random circuits rarely produce"""
    import itertools
    # (1) every placement of a CNOT-H-CNOT window on 3 qubits (plus a random prefix/suffix) through every fuser
    fusers = [("CNOTHCNOTFusingTranspiler", T.CNOTHCNOTFusingTranspiler()), ("FuseRotationTranspiler", T.FuseRotationTranspiler())]
    cn = [(a, b) for a in range(3) for b in range(3) if a != b]
    for (c1, t1), h, (c2, t2) in itertools.product(cn, range(3), cn):
        c = QuantumCircuit(3)
        if rng.random() < 0.5:
            c.add_gate(rand_gate(rng, npr, 3, ["H", "S", "RX", "CZ"]))
        c.add_gate(gates.CNOT(c1, t1))
        c.add_gate(gates.H(h))
        c.add_gate(gates.CNOT(c2, t2))
        if rng.random() < 0.5:
            c.add_gate(rand_gate(rng, npr, 3, ["H", "T", "RZ", "CNOT"]))
        for name, tr in fusers[:1]:
            res.count(("window", name, c1, t1, h, c2, t2), bucket="focused:" + name)
            check_equal(res, f"sweep:{name}", name + " (window placement)", c, tr(c))
    # rotation pairs: same/different kinds, same/different qubits, wrap-around angles
    for _ in range(60 if tier == "quick" else 600):
        c = QuantumCircuit(2)
        for _ in range(rng.randint(2, 4)):
            c.add_gate(getattr(gates, rng.choice(["RX", "RY", "RZ"]))(rng.randrange(2), O.rand_angle(rng)))
        res.count(("rotpair", tuple(map(str, describe(c)))), bucket="focused:FuseRotationTranspiler")
        check_equal(res, "sweep:FuseRotationTranspiler", "FuseRotationTranspiler (rotation runs)", c, T.FuseRotationTranspiler()(c))
    # (2) CliffordConversionTranspiler: make every candidate of its table the selected one
    try:
        from quri_parts.circuit.transpile.gateset import _equiv_clifford_table as TAB
    except Exception:  # noqa: BLE001
        TAB = {}
    for key, cands in TAB.items():
        for j, cand in enumerate(cands):
            ts = set(cand)
            if key in ts or any(set(c0) <= ts for c0 in cands[:j]):
                continue
            c = QuantumCircuit(2)
            c.add_gate(getattr(gates, key)(1))
            c.add_gate(gates.CNOT(1, 0))
            c.add_gate(getattr(gates, key)(0))
            tr = T.CliffordConversionTranspiler(sorted(ts))
            res.count(("cliffcand", key, j), bucket="focused:CliffordConversionTranspiler")
            out = tr(c)
            if {g.name for g in out.gates} - ts - {"CNOT"}:
                continue
            check_equal(res, "sweep:CliffordConversionTranspiler", f"CliffordConversionTranspiler({sorted(ts)}) key {key} cand {j}", c, out)
            # the same through GateSetConversionTranspiler (rotations named first)
            try:
                g2 = T.GateSetConversionTranspiler(sorted(ts | {"RZ", "CNOT"}))
                check_equal(res, "sweep:GateSetConversionTranspiler", f"GateSetConversionTranspiler({sorted(ts | {'RZ', 'CNOT'})})", c, g2(c), tol=1e-6)
            except ValueError:
                pass
    # (2b) single-qubit matrices next to the branch thresholds of the ZYZ decomposer, alone and through the presets that start
    # with it
    su2 = T.SingleQubitUnitaryMatrix2RYRZTranspiler()
    for i in range(150 if tier == "quick" else 3000):
        m = near_threshold_unitary(rng)
        c = QuantumCircuit(rng.randint(1, 2))
        c.add_gate(gates.UnitaryMatrix([rng.randrange(c.qubit_count)], m.tolist()))
        res.count(("su2", i), bucket="focused:SU2_near_threshold")
        for label, tr in (("SingleQubitUnitaryMatrix2RYRZTranspiler", su2), ("RZSetTranspiler", T.RZSetTranspiler())):
            try:
                out = tr(c)
            except ValueError:
                continue
            check_equal(res, f"sweep:{label}:near_threshold_matrix", f"{label} on a nearly (anti-)diagonal matrix with a global phase", c, out,
                        tol=1e-6)
    # (3) two-qubit unitaries with structure (local equivalents of CNOT / iSWAP / SWAP, degenerate spectra)
    kak = T.TwoQubitUnitaryMatrixKAKTranspiler()
    base = {"CNOT": O.local_matrix("CNOT"), "CZ": O.local_matrix("CZ"), "SWAP": O.local_matrix("SWAP"),
            "iSWAP": np.array([[1, 0, 0, 0], [0, 0, 1j, 0], [0, 1j, 0, 0], [0, 0, 0, 1]], dtype=complex),
            "sqrtSWAP": np.array([[1, 0, 0, 0], [0, (1 + 1j) / 2, (1 - 1j) / 2, 0], [0, (1 - 1j) / 2, (1 + 1j) / 2, 0], [0, 0, 0, 1]])}
    for _ in range(200 if tier == "quick" else 3000):
        bn = rng.choice(sorted(base))
        r = rng.random()
        if r < 0.7:
            m = np.kron(O.random_unitary(npr, 2), O.random_unitary(npr, 2)) @ base[bn] @ np.kron(O.random_unitary(npr, 2), O.random_unitary(npr, 2))
        elif r < 0.85:
            t = rng.uniform(0, 1)
            ph = np.diag(np.exp(1j * np.array([0, t, t, 2 * t])))
            m = base[bn] @ ph
        elif r < 0.93:
            m = np.kron(O.random_unitary(npr, 2), np.eye(2)) @ base[bn]
        else:
            # a small local rotation (1e-7 .. 1e-3 rad) away from a matrix with a degenerate spectrum: the decomposition must
            # reproduce the rotation or raise, not return the nearby degenerate gate
            e1, e2 = (10.0 ** rng.uniform(-7, -3) for _ in range(2))
            zz = np.diag(np.exp(-0.5j * e1 * np.array([1, -1, -1, 1])))
            ry = np.array([[math.cos(e2 / 2), -math.sin(e2 / 2)], [math.sin(e2 / 2), math.cos(e2 / 2)]])
            m = base[bn] @ zz @ np.kron(np.eye(2), ry)
        c = QuantumCircuit(2)
        c.add_gate(gates.UnitaryMatrix(rng.sample(range(2), 2), m.tolist()))
        res.count(("kak", bn, _), bucket="focused:KAK")
        try:
            out = kak(c)
        except ValueError:
            continue
        check_equal(res, f"sweep:TwoQubitUnitaryMatrixKAKTranspiler:local_equivalent_of_{bn}", f"KAK on a local equivalent of {bn}", c, out, tol=1e-6)
    # exact products of named gates (entries 0, +-1, +-i, +-1/sqrt2 ...: exactly repeated eigenvalues, diagonal M^T M)
    named = ["H", "S", "Sdag", "T", "X", "Y", "Z", "SqrtX", "SqrtY"]
    for _ in range(150 if tier == "quick" else 3000):
        m = np.eye(4, dtype=complex)
        word = []
        for _j in range(rng.randint(1, 5)):
            r = rng.random()
            if r < 0.45:
                g = rng.choice(["CNOT", "CZ", "SWAP"])
                qs = rng.sample(range(2), 2)
                m = O.apply_local(m, O.local_matrix(g), qs, 2)
                word.append((g, qs))
            else:
                g = rng.choice(named)
                q = rng.randrange(2)
                m = O.apply_local(m, O.CONST[g], [q], 2)
                word.append((g, [q]))
        c = QuantumCircuit(2)
        c.add_gate(gates.UnitaryMatrix([0, 1], m.tolist()))
        res.count(("kak-word", str(word)), bucket="focused:KAK")
        try:
            out = kak(c)
        except ValueError:
            continue
        check_equal(res, "sweep:TwoQubitUnitaryMatrixKAKTranspiler:product_of_named_gates", f"KAK on the matrix of {word}", c, out, tol=1e-6)
    # canonical gate exp(i(a XX + b YY + c ZZ)) followed by a small local rotation on one qubit
    import scipy.linalg as sl
    for _ in range(30 if tier == "quick" else 400):
        ca, cb, cc = (rng.uniform(0.1, 1.4) for _ in range(3))
        Hm = ca * np.kron(O.PX, O.PX) + cb * np.kron(O.PY, O.PY) + cc * np.kron(O.PZ, O.PZ)
        d = rng.choice([1e-1, 3e-2, 1e-2, 1e-3, 1e-4])
        loc = np.kron(O.I2, O.rx(d)) if rng.random() < 0.5 else np.kron(O.ry(d), O.I2)
        m = sl.expm(1j * Hm) @ loc
        c = QuantumCircuit(2)
        c.add_gate(gates.UnitaryMatrix([0, 1], m.tolist()))
        res.count(("kak-canon", ca, cb, cc, d), bucket="focused:KAK")
        try:
            out = kak(c)
        except ValueError:
            continue
        check_equal(res, "sweep:TwoQubitUnitaryMatrixKAKTranspiler:canonical_times_small_local_rotation",
                    "KAK on exp(i(aXX+bYY+cZZ)) (I x RX(delta))", c, out, tol=1e-6)


def backend_wrappers(res, rng, npr, tier):
    """QiskitTranspiler (quri_parts.qiskit.circuit.transpile): a CircuitTranspiler that round-trips through Qiskit's
    transpiler.  Its documentation promises no weaker relation, so the output must have the action of the input.
    (TketTranspiler raises for every configuration under the installed pytket: nothing to compare.)"""
    try:
        from quri_parts.qiskit.circuit.transpile import QiskitTranspiler
    except Exception as e:  # noqa: BLE001 - third-party package missing
        res.count(("QiskitTranspiler", "unavailable", type(e).__name__), nontrivial=False, bucket="QiskitTranspiler:unavailable")
        return
    vocab = [k for k in VOCAB if k not in ("UM1", "UM2", "Pauli", "PauliRotation", "PauliRotation1", "PauliRotationN")]
    cfgs = [("default", {}), ("level0", {"optimization_level": 0}), ("level1", {"optimization_level": 1}),
            ("level2", {"optimization_level": 2}), ("level3", {"optimization_level": 3}),
            ("basis_rz_sx_x_cx", {"basis_gates": ["RZ", "SqrtX", "X", "CNOT"]})]
    for label, kw in cfgs:
        try:
            tr = QiskitTranspiler(**kw)
        except Exception as e:  # noqa: BLE001
            res.fail("ctor:QiskitTranspiler", f"{type(e).__name__}: {e}", {"config": label})
            continue
        for rep in range(6 if tier == "quick" else 60):
            n = rng.randint(2, 4)
            c = QuantumCircuit(n)
            for _ in range(rng.randint(1, 8)):
                c.add_gate(rand_gate(rng, npr, n, vocab if rng.random() < 0.7 else ["SWAP", "CNOT", "H", "T"]))
            if rep == 0:   # corpus: a permutation the optimising levels elide
                n, c = 3, QuantumCircuit(3)
                for g in (gates.H(0), gates.T(0), gates.SWAP(0, 2), gates.CNOT(0, 1), gates.RY(2, 0.3)):
                    c.add_gate(g)
            try:
                out = tr(c)
            except Exception as e:  # noqa: BLE001 - a rejection is allowed
                res.count(("QiskitTranspiler", label, "raise", type(e).__name__), nontrivial=False, bucket="QiskitTranspiler:raises")
                continue
            res.count(("QiskitTranspiler", label, tuple(map(str, describe(c)))), bucket="QiskitTranspiler")
            d = O.phase_dist(O.circuit_unitary(out.gates, out.qubit_count), O.circuit_unitary(c.gates, n)) \
                if out.qubit_count == n else 9.0
            if d > 1e-6:
                res.fail("sweep:QiskitTranspiler", f"unitary differs beyond phase: dist {d:.3e}",
                         {"config": label, "n": n, "circuit": describe(c), "out": describe(out)})


def main():
    a = O.std_args().parse_args()
    rng = random.Random(a.seed * 104729 + 1)
    npr = np.random.default_rng(a.seed + 5)
    res = O.Result("every transpiler class/preset/config x random circuits (1-4 qubits, <=10 gates, full vocabulary, "
                   "angles at/near k*pi/4 and random); distinct = (config, circuit)")
    reps = 30 if a.tier == "quick" else 300
    for label, ctor, vocab, eps in configs(rng):
        try:
            tr = ctor()
        except Exception as e:  # noqa: BLE001
            res.fail(f"ctor:{label}", f"constructor raised {type(e).__name__}: {e}", {"config": label})
            continue
        focus = None
        if hasattr(tr, "target_gate_names"):
            focus = [t for t in tr.target_gate_names if t in VOCAB] or None
        for rep in range(reps):
            n = rng.randint(1, 4)
            c = QuantumCircuit(n)
            ng = rng.randint(1, 10)
            for _ in range(ng):
                v = focus if (focus and rng.random() < 0.5) else vocab
                c.add_gate(rand_gate(rng, npr, n, v))
            try:
                out = tr(c)
            except (ValueError, NotImplementedError) as e:
                res.count((label, "raise"), nontrivial=False, bucket=label.split("(")[0])
                continue
            except Exception as e:  # noqa: BLE001
                res.fail(f"crash:{label.split('(')[0]}", f"unexpected {type(e).__name__}: {e}",
                         {"config": label, "circuit": describe(c)})
                continue
            U, V = O.circuit_unitary(c.gates, n), O.circuit_unitary(out.gates, out.qubit_count)
            nrot = sum(1 for g in out.gates) + ng * 30
            tol = 2e-7 + nrot * eps
            d = O.phase_dist(V, U) if out.qubit_count == n else 9.0
            res.count((label, tuple(map(str, describe(c)))), bucket=label.split("(")[0])
            if d > tol:
                res.fail(f"sweep:{label.split('(')[0]}", f"unitary differs beyond phase: dist {d:.3e} > tol {tol:.1e}",
                         {"config": label, "n": n, "circuit": describe(c), "out": describe(out)})
        res.sample({"config": label, "example_circuit": describe(c)[:3]}, limit=3)
    clifford_approx_check(res, rng, npr, reps * 6)
    focused_checks(res, rng, npr, a.tier)
    backend_wrappers(res, rng, npr, a.tier)
    res.emit()


if __name__ == "__main__":
    main()
