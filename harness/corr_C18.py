"""C18: (1) correspondence: Coq reverse_map_bits / reverse_map_counts (vm_compute) vs
BackendQubitMapping.unmap_sampling_counts on random injective maps into registers up to 70 bits and count
dictionaries with junk bits; (2) search: exact ideal distributions (numpy) of the original circuit vs
the remapped circuit un-mapped through BackendQubitMapping; total counts conserved; remapped circuit has
register size max(target)+1 and acts as the original on relabelled qubits and as identity elsewhere;
duplicate targets / unmapped used qubits are rejected."""
import json
import collections
import collections.abc
import os
import random
import types
import sys

import numpy as np

sys.path.insert(0, os.path.dirname(os.path.dirname(os.path.abspath(__file__))))
from harness import oracle as O  # noqa: E402
from harness import coqeval  # noqa: E402
from harness.sweep_C01 import rand_gate, describe  # noqa: E402

from quri_parts.backend.qubit_mapping import BackendQubitMapping  # noqa: E402
from quri_parts.circuit import QuantumCircuit  # noqa: E402
from quri_parts.circuit.transpile import QubitRemappingTranspiler  # noqa: E402

IMPORTS = "From Coq Require Import ZArith NArith List.\nFrom QPM Require Import Remap.\nOpen Scope Z_scope."
DEFS = """
Definition encc (d : counts) : list Z := flat_map (fun bc => [Z.of_N (fst bc); snd bc]) d.
"""


class ReadOnlyMapping(collections.abc.Mapping):
    """a Mapping that is not a dict"""

    def __init__(self, d):
        self._d = dict(d)

    def __getitem__(self, k):
        return self._d[k]

    def __iter__(self):
        return iter(self._d)

    def __len__(self):
        return len(self._d)


def as_mapping(mp, i):
    """the qubit mapping is documented as a Mapping[int, int]: hand it over in the forms that type allows"""
    return [dict, collections.OrderedDict, types.MappingProxyType, ReadOnlyMapping][i % 4](mp)


def main():
    a = O.std_args().parse_args()
    rng = random.Random(a.seed * 65537 + 9)
    npr = np.random.default_rng(a.seed + 8)
    res = O.Result("random injective maps (1..8 circuit qubits into registers up to 70) x count dicts with junk bits "
                   "(model correspondence); random circuits (<=4 qubits) x random injective maps (register <=7) for "
                   "the distribution/unitary checks")
    n_corr = 600 if a.tier == "quick" else 3000
    terms, reals, keyinfo = [], [], []
    for _ in range(n_corr):
        k = rng.randint(1, 8)
        reg = rng.choice([k, k + 2, 16, 70])
        vals = rng.sample(range(reg), k)
        mp = dict(zip(range(k), vals))
        items = list(mp.items())
        rng.shuffle(items)
        mp = dict(items)
        cs = {}
        for _ in range(rng.randint(0, 6)):
            cs[rng.getrandbits(reg)] = rng.randint(1, 50)
        bm = BackendQubitMapping(as_mapping(mp, len(terms)))
        real = bm.unmap_sampling_counts(cs)
        mcoq = "[" + "; ".join(f"({kk}%nat, {vv}%nat)" for kk, vv in mp.items()) + "]"
        ccoq = "[" + "; ".join(f"({b}%N, {c})" for b, c in cs.items()) + "]"
        terms.append(f"encc (reverse_map_counts {mcoq} {ccoq})")
        reals.append([x for b, c in real.items() for x in (b, c)])
        keyinfo.append((tuple(mp.items()), tuple(cs.items())))
        if sum(real.values()) != sum(cs.values()):
            res.fail("sweep:unmap:total", "total counts not conserved", {"mapping": mp, "counts": cs})
        # oracle for each key
        exp = {}
        for b, c in cs.items():
            r = 0
            for kk, vv in mp.items():
                if (b >> vv) & 1:
                    r |= 1 << kk
            exp[r] = exp.get(r, 0) + c
        if exp != dict(real):
            res.fail("sweep:unmap:bits", "un-mapped counts differ from the bitwise reference", {"mapping": mp, "counts": cs})
    try:
        model = coqeval.eval_cases(a.work, "c18", IMPORTS, DEFS, terms)
        for ki, r, m in zip(keyinfo, reals, model):
            res.count(ki, nontrivial=len(ki[1]) > 0, bucket="corr")
            if r != m:
                res.fail("corr:unmap_counts", f"model {m} != implementation {r}", {"mapping": ki[0], "counts": ki[1]})
    except Exception as e:  # noqa: BLE001
        res.broken.append({"what": "correspondence C18: model evaluation failed", "detail": str(e)[-1200:]})
    res.sample({"mapping": keyinfo[0][0], "counts": keyinfo[0][1], "impl": reals[0]})
    # distributions
    for _ in range(150 if a.tier == "quick" else 800):
        n = rng.randint(1, 4)
        c = QuantumCircuit(n)
        for _ in range(rng.randint(1, 8)):
            c.add_gate(rand_gate(rng, npr, n, ["H", "X", "RX", "RY", "RZ", "CNOT", "CZ", "SWAP", "T", "U3", "TOFFOLI", "UM1", "UM2",
                                               "Pauli", "PauliRotation"], id0=False))
        reg = rng.randint(n, 7)
        vals = rng.sample(range(reg), n)
        mp = dict(zip(range(n), vals))
        bm = BackendQubitMapping(as_mapping(mp, _))
        m = max(vals) + 1
        res.count(("dist", tuple(mp.items()), tuple(map(str, describe(c)))), bucket="distribution")
        try:
            rc = bm.circuit_transpiler(c)
            ok_meta = rc.qubit_count == m
            if not ok_meta:
                res.fail("sweep:remap:qubit_count", f"register size {rc.qubit_count} != max target + 1 = {m}", {"mapping": mp})
                continue
            # gate by gate: everything but the indices is carried over, the indices are relabelled
            for g, h in zip(c.gates, rc.gates):
                if (h.name, tuple(h.params), tuple(h.pauli_ids), tuple(map(tuple, h.unitary_matrix))) != (
                        g.name, tuple(g.params), tuple(g.pauli_ids), tuple(map(tuple, g.unitary_matrix))) or (
                        tuple(h.control_indices) != tuple(mp[q] for q in g.control_indices)) or (
                        tuple(h.target_indices) != tuple(mp[q] for q in g.target_indices)):
                    res.fail("sweep:remap:gate", f"gate {g} was remapped to {h}", {"mapping": mp, "circuit": describe(c)})
                    ok_meta = False
                    break
            if len(rc.gates) != len(c.gates):
                res.fail("sweep:remap:gate_count", f"{len(c.gates)} gates became {len(rc.gates)}", {"mapping": mp, "circuit": describe(c)})
                ok_meta = False
            if not ok_meta:
                continue
            U = O.circuit_unitary(c.gates, n)
            V = O.circuit_unitary(rc.gates, m)
        except Exception as e:  # noqa: BLE001
            res.fail("crash:remap", f"{type(e).__name__}: {str(e)[:160]}", {"mapping": mp, "circuit": describe(c)})
            continue
        # V must equal U on relabelled qubits (x) identity elsewhere, exactly
        ok = True
        for col in rng.sample(range(2 ** m), min(6, 2 ** m)):
            # split col into mapped part (original index) and rest
            orig = sum(((col >> mp[q]) & 1) << q for q in range(n))
            rest = col & ~sum(1 << v for v in vals)
            expect = np.zeros(2 ** m, dtype=complex)
            for row_o in range(2 ** n):
                amp = U[row_o, orig]
                if amp != 0:
                    row = rest | sum(((row_o >> q) & 1) << mp[q] for q in range(n))
                    expect[row] = amp
            if np.max(np.abs(V[:, col] - expect)) > 1e-9:
                ok = False
        if not ok:
            res.fail("sweep:remap:action", "remapped circuit does not act as the original on relabelled qubits",
                     {"mapping": mp, "circuit": describe(c)})
        p_orig = np.abs(U[:, 0]) ** 2
        p_back = np.abs(V[:, 0]) ** 2
        scale = 10 ** 6
        counts = {b: float(p_back[b]) * scale for b in range(2 ** m) if p_back[b] > 1e-14}
        un = bm.unmap_sampling_counts(counts)
        for b in range(2 ** n):
            if abs(un.get(b, 0.0) / scale - p_orig[b]) > 1e-9:
                res.fail("sweep:unmap:distribution", "un-mapped distribution differs from the original distribution",
                         {"mapping": mp, "circuit": describe(c), "bitstring": b})
                break
    # executable model of QubitRemappingTranspiler (RemapExec.v): constructor check, dictionary lookups, the
    # KeyError -> ValueError path, register size, indices of every gate - on mappings with and without duplicate
    # targets / missing qubits / no entries at all
    IMP2 = ("From Coq Require Import ZArith NArith List Bool.\nFrom QPM Require Import Remap RemapExec.\n"
            "Import ListNotations.\nOpen Scope Z_scope.")
    DEFS2 = """
Definition encq (l : list nat) : list Z := map Z.of_nat l.
Definition encr (m : qmap) (gs : list (nat * list nat)) : list Z :=
  (if ctor_ok m then 1 else 0) ::
  match remap_circuit m gs with
  | None => [-1]
  | Some gs' => Z.of_nat (out_qubit_count m) ::
                flat_map (fun g => Z.of_nat (fst g) :: Z.of_nat (length (snd g)) :: encq (snd g)) gs'
  end.
"""
    terms2, reals2, info2 = [], [], []
    for _ in range(300 if a.tier == "quick" else 2000):
        n = rng.randint(1, 5)
        r = rng.random()
        keys = list(range(n))
        if r < 0.35:
            keys = rng.sample(range(n), rng.randint(0 if r < 0.04 else 1, n))  # some used qubits may have no entry
        reg = rng.randint(max(1, len(keys)), 9)
        vals = rng.sample(range(reg), len(keys))
        if vals and rng.random() < 0.15:
            vals[rng.randrange(len(vals))] = rng.choice(vals)               # (possibly) duplicated target
        items = list(zip(keys, vals))
        rng.shuffle(items)
        mp = dict(items)
        c = QuantumCircuit(n)
        for _ in range(rng.randint(0, 5)):
            c.add_gate(rand_gate(rng, npr, n, ["H", "RX", "CNOT", "CZ", "SWAP", "TOFFOLI", "UM1", "UM2", "Pauli", "PauliRotation"],
                                 id0=False))
        gl = [(i, list(g.control_indices) + list(g.target_indices)) for i, g in enumerate(c.gates)]
        mcoq = "[" + "; ".join(f"({k}%nat, {v}%nat)" for k, v in mp.items()) + "]"
        gcoq = "[" + "; ".join(f"({i}%nat, [" + "; ".join(f"{q}%nat" for q in qs) + "])" for i, qs in gl) + "]"
        terms2.append(f"encr {mcoq} {gcoq}")
        inp = {"mapping": {str(k): v for k, v in mp.items()}, "circuit": describe(c)}
        try:
            t = QubitRemappingTranspiler(mp)
            real = [1]
        except ValueError:
            t, real = None, [0]
        except Exception as e:  # noqa: BLE001
            res.fail("corr:remap_exec:ctor_error", f"{type(e).__name__}: {str(e)[:120]}", inp)
            t, real = None, None
        if t is not None:
            try:
                out = t(c)
                real.append(out.qubit_count)
                for i, h in enumerate(out.gates):
                    qs = list(h.control_indices) + list(h.target_indices)
                    real += [i, len(qs)] + qs
            except ValueError:
                real.append(-1)
            except Exception as e:  # noqa: BLE001
                res.fail("corr:remap_exec:call_error", f"{type(e).__name__}: {str(e)[:120]}", inp)
                real = None
        reals2.append(real)
        info2.append(inp)
    try:
        model2 = coqeval.eval_cases(a.work, "c18exec", IMP2, DEFS2, terms2)
        for inp, r, m_ in zip(info2, reals2, model2):
            if r is None:
                continue
            kind = "ctor_rejects" if r[0] == 0 else ("call_rejects" if r[1] == -1 else "remapped")
            res.count(("exec", json.dumps(inp, sort_keys=True, default=str)), nontrivial=kind == "remapped" and len(r) > 2,
                      bucket="corr:remap_exec:" + kind)
            if r[0] == 0:
                if m_[0] != 0:
                    res.fail("corr:remap_exec:ctor", "the constructor raised, the model accepts the mapping", inp)
            elif r != m_:
                res.fail("corr:remap_exec", f"model {m_} != implementation {r} "
                         "([ctor ok, register size or -1 = ValueError, (gate, #indices, indices...)...])", inp)
    except Exception as e:  # noqa: BLE001
        res.broken.append({"what": "correspondence C18 (executable transpiler model): model evaluation failed", "detail": str(e)[-1200:]})
    # rejections
    try:
        QubitRemappingTranspiler({0: 1, 1: 1})
        res.fail("sweep:remap:duplicate_targets_accepted", "duplicate targets accepted", {})
    except ValueError:
        pass
    try:
        c = QuantumCircuit(3)
        c.add_X_gate(2)
        QubitRemappingTranspiler({0: 1, 1: 0})(c)
        res.fail("sweep:remap:unmapped_qubit_accepted", "circuit using an unmapped qubit accepted", {})
    except ValueError:
        pass
    # a mapping that leaves out ONE qubit the circuit uses - below, between or above the mapped sources - is rejected
    # (ValueError), whatever the other entries are; the same mapping is accepted for the circuit without that qubit
    for _ in range(60 if a.tier == "quick" else 600):
        n = rng.randint(2, 6)
        missing = rng.randrange(n)
        srcs = [q for q in range(n) if q != missing]
        mp = dict(zip(srcs, rng.sample(range(n + 2), len(srcs))))
        c = QuantumCircuit(n)
        others = [q for q in range(n) if q != missing]
        kind = rng.choice(["1q", "ctrl", "tgt", "pauli"])
        if kind == "1q":
            c.add_H_gate(missing)
        elif kind == "ctrl":
            c.add_CNOT_gate(missing, rng.choice(others))
        elif kind == "tgt":
            c.add_CNOT_gate(rng.choice(others), missing)
        else:
            c.add_Pauli_gate([rng.choice(others), missing], [1, 3])
        inp = {"mapping": {str(k): v for k, v in mp.items()}, "circuit": describe(c)}
        res.count(("missing", tuple(mp.items()), kind, missing), nontrivial=False, bucket="rejection:missing_qubit")
        try:
            out = QubitRemappingTranspiler(mp)(c)
            res.fail("sweep:remap:unmapped_qubit_accepted", f"qubit {missing} is used but has no entry in the mapping; returned "
                     f"{[str(g) for g in out.gates][:2]}", inp)
        except ValueError:
            pass
        except Exception as e:  # noqa: BLE001
            res.fail("sweep:remap:unmapped_qubit_error", f"{type(e).__name__} instead of the documented ValueError: {str(e)[:120]}", inp)
    res.count("rejections", nontrivial=False)
    res.emit()


if __name__ == "__main__":
    main()
