"""C03 correspondence for the Qiskit adapter (forward direction):
 (1) the symbolic evaluation of convert_gate (translate/qiskit_adapter.py) against the real convert_gate / convert_circuit
     on random gates: Qiskit gate class, argument values, the qubits the instruction is appended on (in order);
 (2) validation of the CONTRACT: `to_matrix()` of every Qiskit gate class used equals the documented library matrix of the
     contract's library kind (little-endian in the gate's own qubit list: the first qarg is the least significant bit);
 (3) the gate really built has the documented matrix of the converted library gate."""
import json
import math
import os
import random
import sys

import numpy as np

sys.path.insert(0, os.path.dirname(os.path.dirname(os.path.abspath(__file__))))
from harness import oracle as O  # noqa: E402

import qiskit.circuit.library as qgate  # noqa: E402
from quri_parts.circuit import QuantumCircuit, gates  # noqa: E402
from quri_parts.qiskit.circuit import convert_circuit, convert_gate  # noqa: E402

ARITY = {"CNOT": 2, "CZ": 2, "SWAP": 2, "TOFFOLI": 3}
NPAR = {"RX": 1, "RY": 1, "RZ": 1, "U1": 1, "U2": 2, "U3": 3}


def main():
    a = O.std_args().parse_args()
    rng = random.Random(a.seed * 4447 + 9)
    res = O.Result("Qiskit adapter: every modelled gate kind x random distinct qubits x random/threshold angles; contract "
                   "classes x random angles; distinct = (kind, qubits, angles)")
    js = json.load(open(os.path.join(a.work, "qiskitconv.json")))
    conv, contract = js["convert_gate"], js["contract"]
    reps = 8 if a.tier == "quick" else 100
    for name, c in sorted(conv.items()):
        ar, npar = ARITY.get(name, 1), NPAR.get(name, 0)
        for _ in range(reps):
            n = rng.randint(ar, 6)
            qs = rng.sample(range(n), ar)
            ps = [O.rand_angle(rng) for _ in range(npar)]
            g = getattr(gates, name)(*qs, *ps)
            res.count((name, tuple(qs), tuple(ps)), bucket="convert_gate:" + name)
            inp = {"gate": name, "qubits": qs, "params": ps}
            qg = convert_gate(g)
            circ = QuantumCircuit(n)
            circ.add_gate(g)
            qc = convert_circuit(circ)
            ins = qc.data[0]
            got_q = [qc.find_bit(q).index for q in ins.qubits]
            lib_qs = list(g.control_indices) + list(g.target_indices)
            if got_q != lib_qs:
                res.fail(f"corr:qiskit:convert_circuit:{name}:qubits", f"appended on {got_q}, model {lib_qs}", inp)
                continue
            if "unitary" in c:
                ok = isinstance(qg, qgate.UnitaryGate)
            else:
                want_args = [(p[1] * math.pi / 4 if isinstance(p, list) else ps[p]) for p in c["params"]]
                ok = isinstance(qg, getattr(qgate, c["cls"])) and len(qg.params) == len(want_args) and all(
                    abs(float(x) - y) < 1e-12 for x, y in zip(qg.params, want_args))
            if not ok:
                res.fail(f"corr:qiskit:convert_gate:{name}:gate", f"built {qg!r}, model {c}", inp)
            U = np.asarray(qg.to_matrix())
            ref = O.local_matrix(name, tuple(ps))
            if O.phase_dist(U, ref) > 1e-9:
                res.fail(f"corr:qiskit:convert_gate:{name}:matrix", "to_matrix() of the converted gate differs from the documented "
                         f"matrix by {O.phase_dist(U, ref):.2e}", inp)
    for cls, lib in sorted(contract.items()):
        npar = NPAR.get(lib, 0)
        for _ in range(reps):
            ps = [O.rand_angle(rng) for _ in range(npar)]
            qg = getattr(qgate, cls)(*ps)
            res.count(("contract", cls, tuple(ps)), bucket="contract")
            U = np.asarray(qg.to_matrix())
            ref = O.local_matrix(lib, tuple(ps))
            if O.phase_dist(U, ref) > 1e-9:
                res.fail(f"corr:qiskit:contract:{lib}", f"qgate.{cls} is not the library's {lib} (dist {O.phase_dist(U, ref):.2e})",
                         {"class": cls, "params": ps})
    res.emit()


if __name__ == "__main__":
    main()
