"""C03 correspondence for the Braket adapter (reverse direction, gate_from_braket):
 (1) the rows extracted by translate/braket_reverse.py against the real gate_from_braket: for every row a Braket
     instruction with the row's fixed angles (exactly the float the source compares with) and random other angles, on
     random distinct qubits; the library gate returned must have the row's factory, qubit order and parameters.  Among the
     rows of one Braket gate the first whose fixed angles are all met is the expected one (the order of the `if`s);
 (2) generic angles (no fixed value met) must take the last, unconditional row;
 (3) the gate returned has, as a matrix, the `to_matrix()` of the Braket gate it came from (big-endian -> little-endian),
     which is what the Coq rows claim through the contract (the contract itself is validated by corr_C03_braket.py)."""
import json
import math
import os
import random
import sys

import numpy as np

sys.path.insert(0, os.path.dirname(os.path.dirname(os.path.abspath(__file__))))
from harness import oracle as O  # noqa: E402

from braket.circuits import Gate, Instruction  # noqa: E402
from quri_parts.braket.circuit.braket_circuit_converter import gate_from_braket  # noqa: E402
from quri_parts.circuit.gate_names import is_parametric_gate_name  # noqa: E402,F401

ARITY = {"CNot": 2, "CZ": 2, "Swap": 2, "CCNot": 3}
NPAR = {"Rx": 1, "Ry": 1, "Rz": 1, "PhaseShift": 1, "U": 3}


def big_to_little(m, k):
    dim = 2 ** k
    perm = [int(format(i, f"0{k}b")[::-1], 2) for i in range(dim)] if k > 1 else list(range(dim))
    return np.asarray(m)[np.ix_(perm, perm)]


def main():
    a = O.std_args().parse_args()
    rng = random.Random(a.seed * 9341 + 11)
    res = O.Result("Braket reverse adapter: every extracted row x random distinct qubits x (fixed angles of the row, random "
                   "others); generic angles; distinct = (braket gate, qubits, angles)")
    js = json.load(open(os.path.join(a.work, "braketrev.json")))
    rows = js["rows"]
    reps = 8 if a.tier == "quick" else 100
    by_name = {}
    for r in rows:
        r["fixed"] = {int(k): v for k, v in r["fixed"].items()}
        by_name.setdefault(r["braket"], []).append(r)
    for name, rs in sorted(by_name.items()):
        ar, npar = ARITY.get(name, 1), NPAR.get(name, 0)
        variants = [r["fixed"] for r in rs]
        if all(v for v in variants):
            res.fail(f"corr:braket_rev:{name}:no_generic_row", "no unconditional row extracted", {"gate": name})
        # every row with its fixed angles met exactly, and the same angles MISSED by a little (1e-5 ... 3e-9): the code
        # compares floats with ==, so a near miss must take the row of the generic branch, exactly
        cases = [(fixed, 0.0) for fixed in variants for _ in range(reps)]
        cases += [(fixed, d) for fixed in variants if fixed for d in (1e-5, -1e-5, 1e-7, -3e-9)]
        for fixed, miss in cases:
            for _ in range(1):
                n = rng.randint(ar, 6)
                qs = rng.sample(range(n), ar)
                ps = [O.rand_angle(rng) for _ in range(npar)]
                for i, k in fixed.items():
                    ps[i] = (k * math.pi / 4 if k else 0.0) + miss
                # a random angle could meet a fixed value of another row only by coincidence; the expected row is decided
                # on the actual values
                exp = next(r for r in rs if all(ps[i] == (k * math.pi / 4 if k else 0.0) for i, k in r["fixed"].items()))
                ins = Instruction(getattr(Gate, name)(*ps), qs)
                inp = {"gate": name, "qubits": qs, "params": ps}
                res.count((name, tuple(qs), tuple(ps)), bucket="gate_from_braket:" + name + (":fixed" if fixed else "") + (":near_miss" if miss else ""))
                try:
                    g = gate_from_braket(ins)
                except Exception as e:  # noqa: BLE001
                    res.fail(f"corr:braket_rev:{name}:raised", f"{type(e).__name__}: {str(e)[:160]}", inp)
                    continue
                roles = list(range(ar)) if exp["roles"] == ["*"] else exp["roles"]
                want_q = [qs[r] for r in roles]
                got_q = list(g.control_indices) + list(g.target_indices)
                want_p = [ps[p[1]] for p in exp["params"]]
                if g.name != exp["factory"] or got_q != want_q or len(g.params) != len(want_p) or any(
                        abs(x - y) > 1e-12 for x, y in zip(g.params, want_p)):
                    res.fail(f"corr:braket_rev:{name}:gate", f"returned {g}, model row {exp}", inp)
                    continue
                U = big_to_little(ins.operator.to_matrix(), ar)
                ref = O.local_matrix(g.name, tuple(g.params))
                if O.phase_dist(U, ref) > 1e-9:
                    res.fail(f"sweep:braket:reverse:{name}", "the library gate returned differs from to_matrix() of the Braket gate "
                             f"by {O.phase_dist(U, ref):.2e}", inp)
    res.emit()


if __name__ == "__main__":
    main()
