#!/bin/bash
# Build the hand-written Coq library and models (full .vo build, no -vos).
set -e
cd "$(dirname "$0")/coq"
( echo "-Q lib QP"; echo "-Q model QPM"; ls lib/*.v model/*.v 2>/dev/null ) > _CoqProject
coq_makefile -f _CoqProject -o Makefile.coq > /dev/null
timeout 1800 make -f Makefile.coq -j16 2>&1 | tail -5
