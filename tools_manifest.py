#!/usr/bin/env python3
"""Regenerate MANIFEST.json from the table below (keeps it valid at all times)."""
import json
import os

HERE = os.path.dirname(os.path.abspath(__file__))
PROPS = [json.loads(l) for l in open(os.path.join(HERE, "properties.jsonl"))]

CLAIMED = {
    "C01": dict(
        category="proof",
        text="Coq theorems (templates_all_ok, every_template_pass_sound, parallel_decomposer_sound, fused_window_sound, "
             "clifford_candidate_sound, rotation_normalisation_preserves_action; native: native_templates_all_ok, "
             "native_parallel_decomposer_sound, u1q_normalize_branch_sound, cnotrz2rzz_pass_sound, "
             "ionq_native_equals_output_then_frame, ionq_native_preserves_measurement_statistics, "
             "pauli_rotation_decomposition_is_the_rotation (Pauli strings of any length), snapped_rotation_is_the_named_gates): every "
             "GateKindDecomposer template regenerated from /repo - including the Quantinuum/IonQ native ones over the "
             "documented U1q/ZZ/RZZ/XX/GPi/GPi2/MS matrices - implements its target gate up to a global phase for "
             "all real angles, all placements on distinct qubits and circuits of any length; the CNOTRZ2RZZ sliding "
             "window preserves every circuit; IonQNativeTranspiler, whenever it returns, yields the input up to one RZ "
             "per qubit (virtual-Z frame invariant) and hence the same computational-basis statistics, and rejects "
             "gates it has no branch for. The generic-theta branch of U1qNormalizeWithRZTranspiler is a recorded "
             "finding, refuted as a theorem (it implements U1q(-theta, phi)); QiskitTranspiler (outside the anchored files) is a "
             "recorded finding too: from optimization level 2 on, the final layout of Qiskit's transpiled circuit is ignored. "
             "All data are re-extracted from the source "
             "on every run and validated against the real decompose()/__call__; a numpy-oracle sweep over every "
             "transpiler class/preset/pipeline stage/configuration searches for failing inputs and covers the "
             "passes whose bodies are numeric (KAK, eig). Three defects found by this check were repaired (fix: 8e85f3f KAK "
             "self-validation, 9b14097 IonQ unconvertible gates, 835fc47 ZYZ decomposition of nearly diagonal matrices).",
        design_ref="DESIGN.md section 4 (C01), 9.2, 9.3",
        note="Trusted: Coq kernel+vm_compute; Reals axioms + functional_extensionality_dep; translate/templates.py, "
             "translate/native.py; documented matrices of gates.py and of the native gate docstrings as spec (IonQ phases "
             "in turns, MS phi0 on its first target); numpy oracle. Partial: KAK/SU2 numeric bodies (self-validating "
             "since fix 8e85f3f) are decided by the sweep only; snapping tests |theta-K|<eps are idealised to theta=K.",
        technique="Coq proof over regenerated templates/branches/rows (vm_compute reflection into an n-qubit operator "
                  "semantics; frame invariant by induction over the circuit) + correspondence + numpy differential sweep"),
    "C06": dict(
        category="proof",
        text="Coq theorems (conj_tables_ok, clifford_conjugation_sound, clifford_conjugation_coefficient_is_a_sign, "
             "non_clifford_rejected): for the conjugation "
             "tables, Pauli product table and CLIFFORD_GATE_NAMES regenerated from /repo, the model of "
             "clifford_gate_conjugation returns (P', c) with U P = c P' U for every supported Clifford kind, every "
             "placement on distinct qubits of a register of any size and every Pauli string of any length and "
             "enumeration order; non-Clifford kinds are rejected. The hand model of the loop is tied to the code by "
             "running it (vm_compute) and the implementation on the same generated cases, plus an AST fingerprint; a "
             "numpy oracle checks U P U^dagger = c P' and c in {+1,-1} on the same cases.",
        design_ref="DESIGN.md section 4 (C06)",
        note="Trusted: Coq kernel+vm_compute; Reals axioms + functional_extensionality_dep; translate/tables.py; "
             "correspondence harness; documented matrices. Partial: rejection of the multi-qubit "
             "Pauli gate is decided by the sweep, not by a theorem.",
        technique="Coq proof by induction over the Pauli string on generated tables (vm_compute table obligations "
                  "lifted through an n-qubit operator semantics) + model/implementation correspondence + numpy sweep"),
    "C12": dict(
        category="proof",
        text="Coq theorems (inverse_rows_ok, inverse_circuit_undoes, folding_preserves_action, folding_gate_count): "
             "the per-kind inverse table obtained by symbolic evaluation of inverse_gate in /repo satisfies "
             "[g; inverse_gate g] = identity up to phase for all real angles and placements; hence c + "
             "inverse_circuit(c) is the identity and gate folding with any number of full folds and any set of "
             "additionally folded gates preserves the action, for circuits of any length; documented gate count of "
             "uniform folding. The rows of U2 and U3 (listed known findings that really fail the exact check) are REFUTED "
             "as theorems about the regenerated table in an optional file (regenerated_u2/u3_row_is_not_an_inverse); "
             "once repaired in /repo they are covered by inverse_circuit_undoes again without an alarm. The "
             "folding model is tied to scaling_circuit_folding by vm_compute correspondence; a numpy sweep covers "
             "PauliRotation, UnitaryMatrix, the residual-count arithmetic and noiseless ZNE with every extrapolation method "
             "(defects found there were repaired: the sign of the exponential term in the log fit, fix: bd235b5, and the "
             "underdetermined polynomial fit with fewer (distinct) scale factors than coefficients, fix: 481918f, 2b16e10; and curve_fit rejecting a fit converged to machine precision, fix: d3b9a3c). "
             "noiseless_polynomial_extrapolation_returns_the_exact_value (PolyFit.v): with the same value E at every scale factor, order + 1 "
             "distinct scale factors (the guard of polynomial_fitting) and numpy's fit taken by its contract (<= order + 1 coefficients, least-"
             "squares minimiser; validated against polynomial_fitting by corr_C12_fit.py), the fitted polynomial is the constant E and "
             "parameters[0] = E, for any number / order / repetition of scale factors and any polynomial order; "
             "noiseless_exponential_extrapolation_returns_the_exact_value: an exponential fit a + b exp(p(x)) that reproduces the noiseless data "
             "exactly (hypothesis, checked on the real curve_fit results) is the constant E everywhere.",
        design_ref="DESIGN.md section 4 (C12)",
        note="Trusted: Coq kernel+vm_compute; Reals axioms + funext; translate/inverse.py; documented matrices. "
             "PauliRotation and UnitaryMatrix gates have pauli_rotation_inverse_undoes / unitary_matrix_inverse_undoes over the "
             "branch data regenerated from inverse_gate (angle scale, conjugate-transpose flags). numpy's Polynomial.fit enters the ZNE theorem as a contract "
             "(least-squares minimiser), validated by correspondence. Partial: float arithmetic of "
             "the residual gate count, the exponential extrapolations (scipy curve_fit) and qsub Inverse (C19) are decided by the sweep.",
        technique="Coq proof over a table regenerated by symbolic evaluation of inverse_gate + induction over "
                  "circuits; vm_compute correspondence of the folding model; numpy sweep"),
    "C02": dict(
        category="proof",
        text="Coq theorems (rzset_names_all_circuits, clifford_rz_names_all_circuits, gsc_returns_only_requested, "
             "decompose_stays_on_gate_qubits, star_and_rotation_targets): abstract interpretation over gate names of "
             "the preset pipelines regenerated from /repo (every stage's possible output names are read off the pass "
             "sources) shows, for circuits of any length over the full vocabulary, that RZSet/CliffordRZSet outputs "
             "contain only the documented names (plus UnitaryMatrix on >=3 qubits / Measurement); the validating "
             "__call__ of GateSetConversionTranspiler returns only requested names or raises; templates never touch "
             "a qubit outside the replaced gate. Stage summaries are validated against the real passes; a sweep with "
             "random target sets searches for failing inputs.",
        design_ref="DESIGN.md section 4 (C02)",
        note="Trusted: Coq kernel+vm_compute (theorems closed under the global context); translate/pipelines.py "
             "summaries (validated by correspondence); AST fingerprints of __call__/_validate. Partial: the "
             "name-level run relation of each pass is validated, not derived from the pass body.",
        technique="Coq abstract interpretation (vm_compute over the finite vocabulary, lifted by induction over the "
                  "pipeline) on regenerated pipelines + correspondence + sweep"),
    "C16": dict(
        category="proof",
        text="Coq theorems (single_pauli_bookkeeping_exact, pauli_sequence_bookkeeping_exact, "
             "out_of_range_index_rejected): the (n, bits, phase) bookkeeping of X/Y/Z and multi-qubit Pauli gates "
             "describes exactly the vector obtained by applying the gates to the basis vector, for every qubit count, "
             "bit pattern and gate sequence (exact N/Z model, n-qubit operator semantics). The hand model is tied to "
             "the code by vm_compute correspondence and AST fingerprints; the superposition builder and mixed "
             "Pauli/non-Pauli chains are decided by a dense numpy sweep. The superposition builder: superposition_builder_prepares_the_superposition (any register size, all x <> y, theta, phi), "
             "its decisions tied by vm_compute correspondence. preparation_circuit_prepares_the_basis_vector: the X gates of "
             "ComputationalBasisState.circuit (model run against the real property up to 130 qubits) prepare |bits> for every "
             "register and bit pattern; mixed_chain_state_is_the_gates_applied_to_the_tracked_vector: the general state over "
             "circuit + gates returned for a chain with a non-Pauli gate is, times the tracked phase, the gates applied to the "
             "vector of the basis state it was derived from; superposition_builder_from_the_zero_state composes the preparation circuit with "
             "the builder's rotation and RZ.",
        design_ref="DESIGN.md section 4 (C16), 9.2",
        note="Trusted: Coq kernel+vm_compute; Reals axioms + funext; correspondence harness. Partial: "
             "the matrices of the non-Pauli gates in a mixed chain are operators of the theorem (C01 territory); derivation histories by the sweep.",
        technique="Coq proof (induction over the gate sequence, bitwise lemmas on N) + vm_compute correspondence + "
                  "dense numpy sweep"),
    "C04": dict(
        category="proof",
        text="Coq theorems (batch_N_operators_one_state, batch_one_operator_N_states, batch_N_to_N_is_pairwise_in_order, "
             "batch_errors_exactly_as_documented, parametric_estimate_is_bound_estimate, operator_cache_sound): the batch "
             "dispatch of the concurrent estimators returns, for every batch shape and any single estimator, exactly the "
             "documented pairing or error; estimating a parametric state equals estimating the bound state, also through "
             "lifted estimators; the content-keyed operator cache returns the requested content after any history. The "
             "model is tied to the core and Qulacs dispatchers by exhaustive vm_compute correspondence over shapes and "
             "to convert_operator over histories; the simulator is a Section variable whose contract <psi|O|psi> is "
             "validated by a numpy sweep over every estimator variant (vector, density matrix, Stim, sparse, general).",
        design_ref="DESIGN.md section 4 (C04)",
        note="Trusted: Coq kernel (closed under the global context); correspondence harness; AST fingerprints. Partial: "
             "the numeric values produced by Qulacs/Stim are decided by the sweep relative to the numpy oracle, not by a "
             "theorem.",
        technique="Coq proof (case analysis over batch shapes, list induction for the cache) + exhaustive vm_compute "
                  "correspondence + numpy differential sweep"),
    "C09": dict(
        category="proof",
        text="Coq theorems over the reals (parameter_shift_equals_analytic_derivative, gradient_entry_is_derivative, "
             "hessian_entry_is_derivative_of_gradient_entry, hessian_is_symmetric, shift_set_algebra_preserves_value, "
             "parameter_shift_rule_one_angle/second_order): for every expectation function of sinusoidal form in any "
             "number of raw angles, every affine mapping column (shared parameters, coefficients, offsets), every point "
             "and every shift object, the object built by the model of ShiftedParameters._get_derivative evaluates to the "
             "derivative (Coq derivable_pt_lim) of the value of the original object - hence gradient, Hessian and all "
             "higher orders; merging, zero-shift deletion and zero-coefficient skipping preserve the value; the Hessian "
             "is symmetric. The model (generic in the coefficient type) is run on exact rationals by vm_compute against "
             "the real get_derivatives (first and second order), LinearParameterMapping.get_derivatives and the shifted "
             "raw vectors; a numpy sweep compares the real gradient/Hessian/numerical-gradient estimators with "
             "generator-insertion derivatives. circuit_expectation_is_a_trigonometric_tree / "
             "circuit_expectation_parameter_shift_exact: the expectation value of any circuit of fixed linear gates and "
             "rotations about Pauli strings (RX, RY, RZ, PauliRotation), any state, any linear observable, any register, "
             "IS of that form in the raw gate angles, so the parameter-shift derivative of circuit expectation values is exact.",
        design_ref="DESIGN.md section 4 (C09), 9.2",
        note="Trusted: Coq kernel; Reals axioms + functional_extensionality_dep; correspondence harness; AST fingerprints. "
             "Modelled, not verified: the exact estimator (that it returns the expectation value of the bound circuit), float "
             "rounding.",
        technique="Coq real-analysis proof (derivable_pt_lim, induction over trigonometric-polynomial trees and shift "
                  "objects) + exact rational vm_compute correspondence + numpy differential sweep"),
    "C10": dict(
        category="proof",
        text="Coq theorems (every_history_refines_the_abstract_circuits, bind_evaluates_the_gate_functions, "
             "parameters_distinct_and_positional, extend_binds_like_its_parts, transpile_preserves_parameter_list, "
             "rx2rzh/ry2rzh_then_bind_acts_as_bind, wrapped_transpiler_then_bind_acts_as_bind, "
             "sequential_transpilers_then_bind_act_as_bind, transpile_then_bind_equals_bind_then_transpile): for every "
             "history of new / add_parameters / add_gate / add_Parametric*_gate / extend / + / copy / parametric-transpiler "
             "operations over any number of live circuits sharing parameters, the concrete representation (gate parameters "
             "+ merged mappings) refines the abstract circuit in which each parametric gate carries its affine function; "
             "bind evaluates exactly those functions; in-parameters are distinct and positional; every gate has its own "
             "gate parameter; extend identifies shared parameters; the parametric rewrites regenerated from /repo, the "
             "wrapper of any sound circuit transpiler and sequential composition preserve the bound action (up to a global "
             "phase) for all circuits, mappings and values, keep the parameter list, and equal bind-then-transpile. The world "
             "model is run by vm_compute (exact rationals) against the real classes on random histories; a reference-model "
             "sweep covers the Rust unbound circuits and the Pauli-rotation decomposer. A defect found here and by C09 "
             "(shared gate parameters after c + c) was repaired (fix: a0fa0f5).",
        design_ref="DESIGN.md section 4 (C10)",
        note="Trusted: Coq kernel+vm_compute; Reals axioms + functional_extensionality_dep for the bound-action theorems "
             "(refinement theorems closed under the global context); translate/parametric.py; correspondence harness; AST "
             "fingerprints. ParametricPauliRotationDecomposeTranspiler has parametric_pauli_rotation_transpile_then_bind "
             "(C10_pauli.v: Pauli strings of any length). Partial: the Rust UnboundParametricQuantumCircuit combination is "
             "decided by the sweep only (one Rust-side known finding).",
        technique="Coq refinement proof (invariant by induction over operation histories) + template reflection for the "
                  "bound action + vm_compute correspondence on histories + reference-model/numpy sweep"),
    "C13": dict(
        category="proof",
        text="Coq theorems (gf2_inverse_is_two_sided_inverse, inverse_state_mapper_undoes_state_mapper, "
             "state_mapper_undoes_inverse_state_mapper, mapped_number_operators_read_back_the_occupation, "
             "jw_filter_accepts_exactly_the_sector, positions_are_the_set_bits, inverse_mapper_filters_accept_exactly_images, "
             "scbk_parity_factor_counts_spin_up, gf2_inverse_succeeds_on_every_invertible_matrix, "
             "mappers_round_trip_for_every_invertible_number_operator_matrix): for every size and every GF(2) matrix, whenever "
             "the model of the Gauss-Jordan inverse() ends with the identity, its result is a two-sided inverse, and it does "
             "end with the identity - a pivot in every column, no row added to itself - on every square matrix with trivial "
             "kernel (completeness); hence for every number of "
             "spin orbitals, every number-operator matrix and sign vector of a mapping that keeps all qubits (JW, BK), the "
             "inverse state mapper undoes the state mapper and vice versa, and the mapped number operators read back the "
             "occupation on the mapped state; the JW filter accepts exactly the requested (n_e, sz) sector for bit strings "
             "of any width; the BK/SCBK filters accept exactly the images of that sector when the mappers are mutually "
             "inverse; the SCBK parity factor counts the spin-up electrons in every sector. The models (incl. the stale-pivot "
             "behaviour of inverse() on singular matrices that SCBK relies on) are run by vm_compute against the real code on "
             "random matrices, on every JW/BK/SCBK instance (matrix and signs read from the real objects) and on the real "
             "filters; a Fock-space sweep checks matrix elements of mapped operators. mappers_round_trip_at_every_size: a unit "
             "lower-triangular number-operator matrix (the shape of JW and BK at every size; read from the real objects up to 100 "
             "spin orbitals) has trivial kernel, so the round trips hold whatever the number of spin orbitals.",
        design_ref="DESIGN.md section 4 (C13), 9.2",
        note="Trusted: Coq kernel+vm_compute (theorems closed under the global context); OpenFermion transforms are "
             "parameters (contract validated per instance); correspondence harness; AST fingerprints. Partial: "
             "that OpenFermion's JW/BK number operators give a unit lower-triangular matrix is read from the real objects (n <= 100), not proved; SCBK "
             "round trips and operator matrix elements are decided by sweep/correspondence only.",
        technique="Coq proof (row-operation invariants on bit vectors, list/positive induction) + vm_compute "
                  "correspondence incl. theorem-hypothesis evaluation + Fock-space numpy sweep"),
    "C14": dict(
        category="proof",
        text="Coq theorems over the reals (active_space_reduction_preserves_determinant_energies, "
             "frozen_core_and_active_space_are_disjoint, ao_to_mo_keeps_the_physicist_ordering): for all one-electron arrays, "
             "all two-electron arrays with the electron-exchange symmetry, all core lists, all explicit active index lists "
             "(any order, gaps) and all occupations of the active spin orbitals, the Slater-Condon energy of the "
             "determinant (core doubly occupied + active occupation) under the full spin-orbital Hamiltonian equals its "
             "energy under the reduced Hamiltonian built from the model of get_effective_active_space_core_energy / "
             "_1e_integrals / _2e_integrals and the alternating-spin expansion; the selected frozen core never overlaps the "
             "active list; the transpose/tensordot chain of to_spatial_mo2int is the physicist-ordered transformation for "
             "every coefficient matrix. The model (arrays as index functions, generic number type) is run on Z by vm_compute "
             "against the real numpy functions on integer arrays, exactly; a Fock-space / Slater-Condon / PySCF sweep covers "
             "spectra, orbital rotations, complex coefficients and the qubit Hamiltonian. A defect found by this check "
             "(off-by-one in get_core_and_active_orbital_indices) was repaired (fix: c222218).",
        design_ref="DESIGN.md section 4 (C14)",
        note="Trusted: Coq kernel; Reals axioms + functional_extensionality_dep; the Slater-Condon rule as specification; "
             "correspondence harness; AST fingerprints. Partial: orbital-rotation invariance of spectra, complex MO "
             "coefficients, the PySCF path and the OpenFermion Hamiltonian assembly are decided by the sweep only.",
        technique="Coq proof (finite-sum algebra over index functions, sum reindexing) + exact vm_compute "
                  "correspondence on integer arrays + numpy Fock-space sweep"),
    "C15": dict(
        category="proof",
        text="Coq theorems (every_block_conserves_particle_number, every_spin_adapted_placement_conserves_sz, "
             "ansatz_circuits_conserve_particle_number, spin_adapted_circuits_conserve_sz, ansatz_circuits_conserve_parity): "
             "the block templates regenerated from /repo (A gate, SO(4) entangler, single/double excitation, orbital rotation, "
             "U1/U2 exchange gates, gate-fabric Q gates, parametric RZ) have product matrices that vanish between local "
             "basis states of different particle number (and, on the spin patterns that occur in GateFabric and "
             "AllSinglesDoubles, of different S_z) for ALL real values of their angles - decided on Laurent-polynomial "
             "matrices by vm_compute; hence every circuit that is a sequence of such blocks - any number of layers, any "
             "entangler map / excitation list, any angles, registers of any size - maps every particle-number (S_z, parity) "
             "sector into itself. Every real ansatz circuit (SymmetryPreserving/Real, ParticleConservingU1/U2, GateFabric, "
             "AllSinglesDoubles, Z2SymmetryPreservingReal) over random configurations is checked to be such a sequence of the "
             "regenerated blocks. z2_ansatz_circuits_conserve_parity: the Z2 block (its Rxx rotations replaced by the C01-proved "
             "decomposition) conserves the parity; real_variant_circuits_map_real_states_to_real_states / "
             "so4_circuits_map_real_states_to_real_states: the blocks of the real-amplitude variants have product matrices "
             "that are real up to one phase for all angles (exactly real for the SO(4) entangler), so their circuits map real "
             "states to real states. jw_ucc_circuits_conserve_particle_number (UCCJW.v): the excitation groups of TrotterUCCSD and KUpCCGSD under the Jordan-Wigner mapping - 2 or 8 rotations about Pauli strings with X / Y on the endpoint qubits and one common string of Z factors - conserve the particle number for every string length, every placement and every angle: the regenerated endpoint templates are decided through the C01-proved decomposition, and a fibre argument (a Z string is a sign that is constant on the fibres of the endpoint qubits) lifts them to any Z string; jw_ucc_circuits_conserve_sz does the same for total S_z on the regenerated spin patterns of the endpoints. A dense numpy sweep covers the other mappings of those classes.",
        design_ref="DESIGN.md section 4 (C15), 9.2",
        note="Trusted: Coq kernel+vm_compute; Reals axioms + functional_extensionality_dep; template extraction by executing "
             "the repository's gadget functions (translate/gadgets.py, harness/blocks_C15.py); documented gate matrices. "
             "translate/ucc.py (templates by executing TrotterUCCSD / KUpCCGSD). Partial: those classes under the (symmetry-"
             "conserving) Bravyi-Kitaev mappings and total-spin claims by the sweep only.",
        technique="Coq proof (charge-sector semantics over registers of any size + reflection of block product matrices "
                  "into Laurent polynomials, vm_compute) + segmentation correspondence + dense numpy sweep"),
    "C19": dict(
        category="proof",
        text="Coq theorems (auxiliary_qubits_never_alias_live_qubits, a_call_is_an_instance_of_the_callee_circuit, "
             "gate_count_evaluator_is_exact, aux_qubit_count_evaluator_is_exact, every_program_is_rejected_or_evaluated_completely, "
             "a_completed_evaluation_is_the_hierarchical_evaluation, recursive_programs_are_rejected): for every well-formed linked program (any "
             "number of sub-routines, any acyclic call graph, any argument permutation at call sites, repeated and shared "
             "callees) the auxiliary qubits given to a sub-routine by the stack allocator are never live in an enclosing "
             "frame; the hierarchical evaluation of a call is the callee's own circuit with arguments substituted and "
             "auxiliaries shifted above the allocator index; the memoising gate-count evaluator (all gates or a selected "
             "kind) returns exactly the number of gates of the generated circuit and the memoising auxiliary-qubit evaluator "
             "the peak of the allocator above the entry arguments, for every call order. The model is run by vm_compute "
             "against compile/link + Evaluator with the three real hooks and against full_expand on random programs; a "
             "reference-interpreter / numpy sweep covers the front end, registers, recursion rejection and the Inverse / "
             "Controlled constructions. The Inverse construction has theorems over data regenerated from lib/std/inverse.py: "
             "qsub_constant_inverse_pairs_exact (S/Sdag, T/Tdag, SqrtX/SqrtXdag, SqrtY/SqrtYdag and the self-inverse ops compose to the "
             "identity EXACTLY, powers of 1/sqrt2 included), qsub_inverse_sub_is_an_exact_inverse (reverse order, replaced operations, "
             "negated phase: the induction step of the recursive resolver, for any operations), "
             "qsub_inverse_of_a_primitive_sub_undoes_it (its base: constant gates and rotations with any angle), "
             "qsub_controlled_exact_inverse_undoes / qsub_phase_slip_is_visible_under_control (why the phase is part of the meaning). "
             "Two defects found by this check were repaired (fix: 569a510, de5d55d); five "
             "controlled-gate resolvers pinned by the repository's own tests are known findings.",
        design_ref="DESIGN.md section 4 (C19), 9.2",
        note="Trusted: Coq kernel+vm_compute (machine-level theorems closed under the global context; the Inverse theorems use the "
             "Reals axioms + funext); hand model of the machine level; translate/qsub_inverse.py; correspondence harnesses; AST "
             "fingerprints. Partial: front end (builder, transpilers), registers, aux order of expanded subs and the "
             "decompositions behind Controlled/MultiControlled by sweep only.",
        technique="Coq proof (induction over evaluation fuel with well-formedness, cache invariants for the memoising "
                  "evaluators) + vm_compute correspondence on random programs + reference-interpreter/numpy sweep"),
    "C20": dict(
        category="proof",
        text="Coq theorems (every_history_keeps_the_ownership_invariant, derived_objects_are_independent_values, "
             "real_code_independent_on_safe_histories, flagged_mutable_copy_refutes_independence, "
             "immutable_constructor_refutes_independence, content_keyed_cache_returns_requested_content): in a model of names, "
             "objects and shared gate storage (Rust is_immutable flag + Python linear-mapped wrappers) every history of new / "
             "add / add-parametric / freeze / copy / constructor / primitive_circuit / + keeps the ownership invariant (a "
             "mutable object's storage is shared with no other object and it has one name), hence no operation changes what "
             "any name other than its receiver shows (gates, parameter mapping); the faithful transcription of the code "
             "coincides with this on every history that never copies or adds from a flagged plain circuit nor uses "
             "ImmutableQuantumCircuit(mutable), and is REFUTED outside (two theorems with witnesses = the recorded Rust-side "
             "findings); content-keyed caches return the requested content after any history. The faithful model is run by "
             "vm_compute against the real objects on random histories including the unsafe ones, which it predicts exactly; "
             "a history sweep covers bound circuits, states, operators and the real caches.",
        design_ref="DESIGN.md section 4 (C20)",
        note="Trusted: Coq kernel+vm_compute (closed under the global context); hand transcription of circuit.rs flag logic "
             "(the binary cannot be rebuilt) and of circuit_linear_mapped.py; correspondence harness; AST fingerprints of the "
             "Python side. Partial: bound circuits, UnboundParametricQuantumCircuit, states, operator caches on the real "
             "objects by the sweep only. Two Rust-side defects are known findings.",
        technique="Coq proof (ownership invariant by induction over operation histories, refutation witnesses by "
                  "vm_compute) + vm_compute correspondence on random histories + history sweep"),
    "C18": dict(
        category="proof",
        text="Coq theorems (unmap_after_map_is_identity, unmap_conserves_total_counts, unmap_aggregates_preimages, "
             "remapped_circuit_acts_as_original): for every injective mapping into a register of any size, reverse "
             "mapping of the forward-mapped outcome (with arbitrary junk on unmapped backend qubits) is the original "
             "bit string; totals are conserved and counts aggregate over pre-images; the relabelled circuit acts on "
             "the relabelled register as the original. Exact N/Z model tied to the code by vm_compute correspondence "
             "and fingerprints; numpy sweep on ideal distributions and rejections. The transpiler itself has an executable model "
             "(RemapExec.v, run against the real class): constructor_accepts_exactly_the_injective_mappings, "
             "remapping_rejects_exactly_the_circuits_with_an_unmapped_qubit (wherever the index lies, as control or target), "
             "returned_circuit_is_the_relabelled_circuit (payload untouched, all indices inside the register of max target + 1 "
             "qubits), executable_remapping_acts_as_original.",
        design_ref="DESIGN.md section 4 (C18), 9.2",
        note="Trusted: Coq kernel+vm_compute; funext (+Reals axioms for the circuit theorem); correspondence harness. "
             "Partial: the qiskit/braket wrappers (wrap_C18.py: braket "
             "LocalSimulator with split shots, qiskit utils loaded from its file with a fake job) by sweep.",
        technique="Coq proof (bit-extensionality on N, induction over gate lists) + vm_compute correspondence + sweep"),
    "C08": dict(
        category="proof",
        text="Coq theorems (each_group_uses_its_own_counts, one_sampling_request_per_funded_group, "
             "proportional/equipartition/weighted_random_allocator_within_budget, calc_ratios_sum_to_one): for every "
             "number of groups and every allocation the estimate pairs each funded Pauli group with the counts of its "
             "own circuit and unfunded groups contribute nothing; every allocator returns one non-negative multiple of "
             "the shot unit per group with sum <= total_shots, for all totals, units and weights (over R). The pairing "
             "model is tied to sampling_estimate by vm_compute correspondence with a scripted allocator and recording "
             "sampler; a numpy ideal-sampler sweep checks values and budgets on the real code. The zero-shot "
             "misalignment defect found by this check was repaired (fix: commit a459cb3).",
        design_ref="DESIGN.md section 4 (C08)",
        note="Trusted: Coq kernel; Reals axioms; sampler/multinomial contracts as Section variables; AST fingerprints. "
             "Partial: binary64 rounding of total*ratio; the standard-error estimate is outside the property and not modelled.",
        technique="Coq proof (list induction for pairing, real-arithmetic floor bounds for budgets) + vm_compute "
                  "correspondence + ideal-sampler numpy sweep"),
    "C11": dict(
        category="proof",
        text="Coq theorems (chunk_sizes_sum_to_batch_size, chunks_partition_the_batch, concurrent_equals_sequential, "
             "commuting_tasks_are_serializable): the floor-division chunk sizes sum to the batch size and the "
             "prefix-sum slices concatenate to the input for every batch size and concurrency, hence with an "
             "order-preserving executor the concurrent path equals the sequential path for every element-wise batch "
             "function; any interleaving of tasks whose steps commute is serializable. The model is tied to "
             "execute_concurrently exhaustively (n<=40, c<=12) by vm_compute correspondence; every concurrent entry "
             "point is compared with its sequential path under thread pools, a deterministic line-granular scheduler "
             "and switch-interval stress.",
        design_ref="DESIGN.md section 4 (C11)",
        note="Trusted: Coq kernel (closed under the global context); Executor.map ordering contract; the commuting-"
             "steps hypothesis (workers copy what they mutate) is explored by the scheduler harness, not proved; OS "
             "scheduling, CPython and Qulacs internals are outside the model.",
        technique="Coq proof (arithmetic + list induction + interleaving induction) + exhaustive vm_compute "
                  "correspondence + schedule exploration"),
    "C17": dict(
        category="proof",
        text="Coq theorems over the reals: reset/phase-damping/amplitude-damping/phase-amplitude-damping Kraus sets "
             "regenerated from /repo are complete (sum K^T K = I) for every accepted parameter value incl. boundaries; "
             "the regenerated acceptance predicates of eight factories are exactly the documented ranges (both "
             "directions); every complete real Kraus set preserves the trace and positive semidefiniteness; flip / "
             "depolarizing weights form a probability vector; the thermal-relaxation Choi matrix is trace preserving and "
             "positive whenever t2 <= 2 t1. Extracted definitions are validated against the real factories on a grid; a "
             "density-matrix sweep through Qulacs covers filters, the Rust side and user-supplied noise. Seven defects "
             "found by this check were repaired (fix: 22728ea, 00b2722, a07e57a, f39fc20) and one more found through the argument-reuse "
             "/ complex-matrix cases of the correspondence (fix: b99742c); four Rust-side ones are listed as known findings.",
        design_ref="DESIGN.md section 4 (C17)",
        note="Trusted: Coq kernel; Reals axioms; translate/kraus.py; thermal Choi matrix transcribed by hand + AST "
             "fingerprint. Partial: eigh square root, Rust GateNoiseInstruction/filters and Qulacs conversion by sweep.",
        technique="Coq real-arithmetic proofs (nsatz/nra, exp monotonicity) over Kraus families regenerated by an ast "
                  "translator + grid correspondence + density-matrix sweep"),
    "C05": dict(
        category="proof",
        text="Coq theorems: pauli_product (with the product table regenerated from /repo) is the operator product "
             "[[p1]][[p2]] = phase [[label]] for labels of any length, overlaps and enumeration order; equal labels "
             "denote the same operator; on operators as finite maps label -> coefficient, add_term adds exactly one "
             "term, += is the matrix sum, scalar multiple the matrix multiple, op*op the matrix product, for any "
             "number of terms on registers of any size; after add_term/+=/* no stored coefficient is zero. The hand "
             "models are tied to the code by vm_compute correspondence on Gaussian-integer coefficients and AST "
             "fingerprints; a dense numpy sweep covers bsv / transition amplitudes, Trotter-Suzuki, "
             "label interning and string round trip. Differences, quotients by a scalar and commutators are covered by operator_difference_is_matrix_difference, "
             "operator_quotient_is_matrix_quotient, operator_commutator_is_matrix_commutator; Hermitian conjugates by "
             "hermitian_conjugate_is_the_adjoint (<O^dagger f, g> = <f, O g> for all states over any register containing the "
             "labels' qubits); the matrix export by matrix_export_is_the_denotation (entry (i, j) of get_sparse_matrix's "
             "Kronecker construction is the matrix element <i|O|j>, every register size, all indices). Two defects found by "
             "this check were repaired (fix: a812a32, 77bd0ed). transition_amplitude_is_the_matrix_element (TransAmp.v): with the bsv masks and "
             "phase (-i)^#Y of pauli_label_to_bsv, the sum transition_amp_comp_basis forms over the terms filed under x = m xor n is "
             "<m|O|n>, every register size, all indices; run exactly against the real functions on registers up to 70 qubits. "
             "string_form_round_trips / string_form_separates_labels / parser_accepts_only_labels_on_distinct_qubits (LabelString.v): a "
             "character-level model of PauliLabel.__str__ and _parse_pauli_label_str (re.sub dropping white space after X/Y/Z, split(), the "
             "'I' form, ([XYZ])([0-9]+), int(), the duplicate test) - the string form of every label with one factor per qubit, any number "
             "of factors, indices of any size, parses back to exactly that label, so the intern key separates labels; run by vm_compute "
             "against str(label) and the real parser on printed strings, structured mutations and random strings (corr_C05_str.py). "
             "interning_by_string_form_returns_the_requested_label (Intern.v): the weak intern table of PauliLabel.__new__, keyed by the string "
             "form, over every history of constructions and vanishing entries hands out exactly the content asked for; with a colliding key it "
             "would not (interning_by_a_colliding_key_conflates_labels); run against the real constructors on random histories "
             "(corr_C05_intern.py) and on labels with colliding frozenset hashes. string_form_ignores_the_order_of_construction (LabelSort.v): "
             "the sorted string form is the same for every order in which the pairs were given.",
        design_ref="DESIGN.md section 4 (C05), 9.2",
        note="Trusted: Coq kernel+vm_compute; Reals axioms + funext; translate/tables.py; correspondence harnesses; scipy's kron "
             "index rule as modelled. Partial: Trotter-Suzuki has no theorem (sweep); the WeakValueDictionary intern table is modelled as a table with entries vanishing at any "
             "time (tied by correspondence on CPython's immediate reclamation); label strings are modelled on the ASCII range (Python re / split / int contracts as modelled); binary64 rounding not modelled.",
        technique="Coq proof (induction over labels and term lists on an n-qubit operator semantics, table obligations "
                  "by vm_compute) + vm_compute correspondence + dense numpy sweep"),
    "C03": dict(
        category="proof",
        text="Coq theorems (qulacs_/cirq_/braket_/qiskit_convert_gate_sound, tket_convert_circuit_gate_sound, "
             "qasm_and_stim_exported_gate_sound with their *_rows_ok and totality lemmas; reverse_converted_gate_sound, "
             "qulacs_rotation_angle_recovered): the backend gate that each forward converter (Qulacs, Cirq, Braket, Qiskit, "
             "tket, the OpenQASM 3 exporter, the named gates of the Stim converter) builds for every modelled gate kind - "
             "obtained by fail-closed symbolic evaluation of the adapter source on every run; backend gates read through "
             "contract tables, matrices defined by the converters themselves (Cirq U1/U2/U3 classes, literal SqrtY matrices) "
             "translated entry by entry, tket's half-turn scalings kept symbolically - acts as the library gate up to a global "
             "phase for all real angles and all placements (qubit orders, sign and argument conventions); in the reverse "
             "direction the library gate returned by gate_from_braket (incl. its U1/U2/U3 choice), circuit_from_qiskit, "
             "circuit_from_cirq, circuit_from_tket and the named branches of circuit_from_qulacs acts as the backend gate it "
             "came from, and the rotation angles circuit_from_qulacs recovers from gate matrices with cmath.phase give the "
             "same rotation for every angle and every branch of the phase. The symbolic evaluations are validated against "
             "the real converters and the contracts against the installed backends' own matrices on every run; all seven "
             "adapters in both directions are swept against each backend's simulator. Four defects found by this check were "
             "repaired (fix: commits), two tket ones are known findings.",
        design_ref="DESIGN.md section 4 (C03), 9.2",
        note="Trusted: Coq kernel+vm_compute; Reals axioms + funext; translate/adapters.py, cirq_adapter.py, braket_adapter.py, "
             "qiskit_adapter.py, tket_adapter.py, qasm_adapter.py, stim_adapter.py, braket_reverse.py, reverse_adapters.py, "
             "qulacs_reverse.py; the contract tables (validated each run, not assumed); cmath.phase through "
             "AngleRecovery.phase_contract (hypothesis, shown satisfiable). Partial: Rust convert_circuit, parametric/compiled "
             "circuits, matrix and Pauli gates, the matrix fallbacks of the reverse converters, qubit numbering of "
             "multi-register backend circuits and Clifford-angle rotations on their way to Stim have no theorem "
             "(backend-simulator sweep only).",
        technique="Coq proof over conversion tables regenerated by symbolic evaluation of the adapters in both directions + "
                  "real-analysis lemma for angle recovery + validated backend contracts + backend-simulator sweep"),
    "C07": dict(
        category="proof",
        text="Coq theorems: the rotation gates of the measurement circuit (regenerated from /repo) satisfy V P = "
             "Z_{supp P} V for every member P of a qubit-wise commuting set of any size on any qubit indices "
             "(measurement_circuit_maps_members_to_Z); the bit trick (x1&z2)^(z1&x2)==0 decides qubit-wise commutation "
             "(exact N model); greedy insertion partitions any list of labels and the members of every group commute "
             "qubit-wise because the accumulated mask decides commutation with all members. Models are tied to the "
             "code by vm_compute correspondence and fingerprints; a dense sweep checks <b|V P V^dagger|b> against the "
             "reconstructor for all b, all grouping strategies and the cached factory. bitwise_pauli_grouping with its special groups and individual grouping: bitwise_grouping_partitions_the_labels, "
             "bitwise_grouping_members_commute. exact_outcome_distribution_gives_the_expectation_value: the measurement circuit is "
             "an isometry (its gates are unitary, checked in Z[w]) and the mean of the reconstructed eigenvalue under the exact "
             "outcome distribution of the measured state is <psi|P|psi> for every state on a register of any size. A defect found by the "
             "wide-register sweep with numpy integer indices (fixed-width shift in pauli_label_to_bsv) was repaired (fix: 1c8fa84).",
        design_ref="DESIGN.md section 4 (C07), 9.2",
        note="Trusted: Coq kernel+vm_compute; Reals axioms + funext (measurement theorem); translate/tables.py; "
             "correspondence harness. The cached factory has cached_measurement_factory_returns_the_factory_result (content-keyed "
             "cache model, tied by an AST fingerprint and the cache sweep).",
        technique="Coq proof (induction over the Pauli map with commutation lemmas from vm_compute obligations; "
                  "bit-extensionality on N; invariant of the greedy insertion) + vm_compute correspondence + dense sweep"),
}

NOT_YET = "check not built yet in this revision (see DESIGN.md build order); not claimed"


def main():
    checks = []
    for p in PROPS:
        pid = p["id"]
        if pid not in CLAIMED:
            continue
        c = CLAIMED[pid]
        checks.append({
            "property_id": pid,
            "quick_cmd": f"./check {pid} --tier quick",
            "thorough_cmd": f"./check {pid} --tier thorough",
            "evidence_file": f"/verif/evidence/{pid}.json",
            "replay_cmd_template": f"./check {pid} --replay {{path}}",
            "engine": "coq+harness",
            "level_claimed": {"category": c["category"], "text": c["text"], "design_ref": c["design_ref"]},
            "level_note": c["note"],
            "technique": c["technique"],
        })
    na = [{"property_id": p["id"], "reason": NOT_YET} for p in PROPS if p["id"] not in CLAIMED]
    man = {
        "version": 1,
        "setup_cmd": "./setup.sh",
        "hooks": {
            "guard": "QURI_PARTS_VERIF",
            "enable": "no source hooks are needed: checks import /repo/packages/* through PYTHONPATH (set by vlib/common.py) and set QURI_PARTS_VERIF=1",
            "baseline_off_cmd": "cd /repo && /venv/bin/python -m pytest -ra -q -p no:cacheprovider --timeout=900 --continue-on-collection-errors",
            "source_commits": [],
            "add_only": True,
        },
        "engines": [{"name": "coq+harness", "path": "/verif/check",
                     "serves_properties": [c["property_id"] for c in checks],
                     "kind_free_text": "Coq 8.16 proofs over models regenerated/tied to /repo + Python correspondence and numpy sweeps"}],
        "checks": checks,
        "not_applicable": na,
        "notes": "See DESIGN.md, section 9 'As built' (file map, theorems per check, triage of every alarm, seeded changes, trusted base). All 20 properties are claimed at the proof level and not_applicable is empty. Genuine defects: 27 were repaired in /repo (fix: commits, 'fixed:' lines of KNOWN_FINDINGS.txt); the 'finding:' lines of that file are printed as KNOWN-FINDING by the checks. 300 seeded changes with their demos are kept under seeded/.",
    }
    json.dump(man, open(os.path.join(HERE, "MANIFEST.json"), "w"), indent=1)


if __name__ == "__main__":
    main()
