#!/usr/bin/env python3
"""Regenerate MANIFEST.json from the table below (keeps it valid at all times)."""
import json
import os

HERE = os.path.dirname(os.path.abspath(__file__))
PROPS = [json.loads(l) for l in open(os.path.join(HERE, "properties.jsonl"))]

CLAIMED = {
    "C01": dict(
        category="proof",
        text="Coq theorems (templates_all_ok, every_template_pass_sound, parallel_decomposer_sound): every "
             "GateKindDecomposer template regenerated from /repo implements its target gate up to a global phase for "
             "all real angles, all placements on distinct qubits and circuits of any length; the template data are "
             "re-extracted from the source on every run and validated against the real decompose(); a numpy-oracle "
             "sweep over every transpiler class/preset/configuration searches for failing inputs and covers the "
             "passes whose bodies are numeric (KAK, eig) or not yet modelled.",
        design_ref="DESIGN.md section 4 (C01)",
        note="Trusted: Coq kernel+vm_compute; Reals axioms + functional_extensionality_dep; translate/templates.py; "
             "documented matrices of gates.py as spec; numpy oracle. Partial: KAK/SU2 numeric bodies, Pauli-string "
             "decomposers, fusers, epsilon-snapping passes and Quantinuum/IonQ native passes are decided by the sweep only.",
        technique="Coq proof over regenerated templates (vm_compute reflection into an n-qubit operator semantics) + "
                  "correspondence + numpy differential sweep"),
    "C06": dict(
        category="proof",
        text="Coq theorems (conj_tables_ok, clifford_conjugation_sound, non_clifford_rejected): for the conjugation "
             "tables, Pauli product table and CLIFFORD_GATE_NAMES regenerated from /repo, the model of "
             "clifford_gate_conjugation returns (P', c) with U P = c P' U for every supported Clifford kind, every "
             "placement on distinct qubits of a register of any size and every Pauli string of any length and "
             "enumeration order; non-Clifford kinds are rejected. The hand model of the loop is tied to the code by "
             "running it (vm_compute) and the implementation on the same generated cases, plus an AST fingerprint; a "
             "numpy oracle checks U P U^dagger = c P' and c in {+1,-1} on the same cases.",
        design_ref="DESIGN.md section 4 (C06)",
        note="Trusted: Coq kernel+vm_compute; Reals axioms + functional_extensionality_dep; translate/tables.py; "
             "correspondence harness; documented matrices. Partial: c real (+-1) and rejection of the multi-qubit "
             "Pauli gate are decided by the sweep, not by a theorem.",
        technique="Coq proof by induction over the Pauli string on generated tables (vm_compute table obligations "
                  "lifted through an n-qubit operator semantics) + model/implementation correspondence + numpy sweep"),
}

NOT_YET = "check not built yet in this revision (see DESIGN.md build order); not claimed"


def main():
    checks = []
    for p in PROPS:
        pid = p["id"]
        if pid not in CLAIMED:
            continue
        c = CLAIMED[pid]
        checks.append({
            "property_id": pid,
            "quick_cmd": f"./check {pid} --tier quick",
            "thorough_cmd": f"./check {pid} --tier thorough",
            "evidence_file": f"/verif/evidence/{pid}.json",
            "replay_cmd_template": f"./check {pid} --replay {{path}}",
            "engine": "coq+harness",
            "level_claimed": {"category": c["category"], "text": c["text"], "design_ref": c["design_ref"]},
            "level_note": c["note"],
            "technique": c["technique"],
        })
    na = [{"property_id": p["id"], "reason": NOT_YET} for p in PROPS if p["id"] not in CLAIMED]
    man = {
        "version": 1,
        "setup_cmd": "./setup.sh",
        "hooks": {
            "guard": "QURI_PARTS_VERIF",
            "enable": "no source hooks are needed: checks import /repo/packages/* through PYTHONPATH (set by vlib/common.py) and set QURI_PARTS_VERIF=1",
            "baseline_off_cmd": "cd /repo && /venv/bin/python -m pytest -ra -q -p no:cacheprovider --timeout=900 --continue-on-collection-errors",
            "source_commits": [],
            "add_only": True,
        },
        "engines": [{"name": "coq+harness", "path": "/verif/check",
                     "serves_properties": [c["property_id"] for c in checks],
                     "kind_free_text": "Coq 8.16 proofs over models regenerated/tied to /repo + Python correspondence and numpy sweeps"}],
        "checks": checks,
        "not_applicable": na,
        "notes": "See DESIGN.md. Properties listed under not_applicable with the reason 'check not built yet' are in progress.",
    }
    json.dump(man, open(os.path.join(HERE, "MANIFEST.json"), "w"), indent=1)


if __name__ == "__main__":
    main()
