(* C03 - Backend circuit conversion preserves circuit semantics (Qulacs adapter, Python path).
   qulacs_conv comes from QPG.qulacsconv: the result of symbolically evaluating convert_gate for
   every modelled gate kind, read through the documented Qulacs conventions (contract validated
   numerically against the installed Qulacs on every run). *)
From Coq Require Import ZArith List Bool Reals.
From QP Require Import Cx Apply Gates Rsem.
From QPM Require Import Transpile.
From QPG Require Import qulacsconv.
Import ListNotations.

Definition conv_ok (e : gkind * gate) : bool :=
  let '(k, g) := e in
  tmpl_check (seq 0 (arity k)) [g] (canon k) && gate_ok g && gate_ok (canon k).

Theorem qulacs_conv_rows_ok : forallb conv_ok qulacs_conv = true.
Proof. vm_compute. reflexivity. Qed.

Theorem qulacs_conv_total :
  forallb (fun k => existsb (fun e => gkind_eqb k (fst e)) qulacs_conv) all_kinds = true.
Proof. vm_compute. reflexivity. Qed.

(* the gate built for Qulacs acts as the library gate up to a global phase: all real angles
   (sign conventions of RX/RY/RZ included), all placements (control/target order included) *)
Theorem qulacs_convert_gate_sound :
  forall k g, In (k, g) qulacs_conv ->
  forall theta pi, (forall a b : nat, pi a = pi b -> a = b) ->
  lsem (rsem (inst theta pi g)) ≃ lsem (rsem (inst theta pi (canon k))).
Proof.
  intros k g Hin theta pi Hpi.
  pose proof qulacs_conv_rows_ok as H. rewrite forallb_forall in H. specialize (H _ Hin). simpl in H.
  apply andb_true_iff in H as [H H3]. apply andb_true_iff in H as [H1 H2].
  pose proof (tmpl_sound theta pi Hpi (seq 0 (arity k)) [g] (canon k) H1) as T.
  simpl in T. rewrite H2 in T. specialize (T eq_refl H3). exact T.
Qed.
Print Assumptions qulacs_convert_gate_sound.
