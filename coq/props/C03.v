(* C03 - Backend circuit conversion preserves circuit semantics (Qulacs adapter, Python path).
   qulacs_conv comes from QPG.qulacsconv: the result of symbolically evaluating convert_gate for
   every modelled gate kind, read through the documented Qulacs conventions (contract validated
   numerically against the installed Qulacs on every run). *)
From Coq Require Import ZArith List Bool Reals.
From QP Require Import Cx Apply Gates Rsem.
From QPM Require Import Transpile.
From QPG Require Import qulacsconv cirqconv braketconv qiskitconv qasmconv stimconv.
From QP Require Import Local.
Import ListNotations.

Definition conv_ok (e : gkind * gate) : bool :=
  let '(k, g) := e in
  tmpl_check (seq 0 (arity k)) [g] (canon k) && gate_ok g && gate_ok (canon k).

Theorem qulacs_conv_rows_ok : forallb conv_ok qulacs_conv = true.
Proof. vm_compute. reflexivity. Qed.

Theorem qulacs_conv_total :
  forallb (fun k => existsb (fun e => gkind_eqb k (fst e)) qulacs_conv) all_kinds = true.
Proof. vm_compute. reflexivity. Qed.

(* the gate built for Qulacs acts as the library gate up to a global phase: all real angles
   (sign conventions of RX/RY/RZ included), all placements (control/target order included) *)
Theorem qulacs_convert_gate_sound :
  forall k g, In (k, g) qulacs_conv ->
  forall theta pi, (forall a b : nat, pi a = pi b -> a = b) ->
  lsem (rsem (inst theta pi g)) ≃ lsem (rsem (inst theta pi (canon k))).
Proof.
  intros k g Hin theta pi Hpi.
  pose proof qulacs_conv_rows_ok as H. rewrite forallb_forall in H. specialize (H _ Hin). simpl in H.
  apply andb_true_iff in H as [H H3]. apply andb_true_iff in H as [H1 H2].
  pose proof (tmpl_sound theta pi Hpi (seq 0 (arity k)) [g] (canon k) H1) as T.
  simpl in T. rewrite H2 in T. specialize (T eq_refl H3). exact T.
Qed.
Print Assumptions qulacs_convert_gate_sound.


(* ------------------------------------------------------------------ Cirq adapter (forward direction) *)
(* cirq_conv comes from QPG.cirqconv: convert_gate evaluated symbolically for every modelled kind; Cirq's own gates are read
   through the contract (validated against the installed Cirq on every run), the converter's own gate classes U1/U2/U3
   through the matrix their _unitary_ method returns, translated entry by entry *)
Definition cirq_row_ok (e : gkind * cirq_gate) : bool :=
  let '(k, g) := e in
  match g with
  | CLib g' => tmpl_check (seq 0 (arity k)) [g'] (canon k) && gate_ok g' && gate_ok (canon k)
  | CCustom m => check_equiv (seq 0 (arity k)) [m] (eg (canon k)) && gate_ok (canon k)
  end.

Theorem cirq_conv_rows_ok : forallb cirq_row_ok cirq_conv = true.
Proof. vm_compute. reflexivity. Qed.

Theorem cirq_conv_total :
  forallb (fun k => existsb (fun e => gkind_eqb k (fst e)) cirq_conv) all_kinds = true.
Proof. vm_compute. reflexivity. Qed.

Theorem cirq_convert_gate_sound :
  forall k g, In (k, g) cirq_conv ->
  forall theta pi, (forall a b : nat, pi a = pi b -> a = b) ->
  match g with
  | CLib g' => lsem (rsem (inst theta pi g'))
  | CCustom m => lsem (sgate (rho_of theta) pi m)
  end ≃ lsem (rsem (inst theta pi (canon k))).
Proof.
  intros k g Hin theta pi Hpi.
  pose proof cirq_conv_rows_ok as H. rewrite forallb_forall in H. specialize (H _ Hin). cbn in H.
  destruct g as [g'|m].
  - apply andb_true_iff in H as [H H3]. apply andb_true_iff in H as [H1 H2].
    pose proof (tmpl_sound theta pi Hpi (seq 0 (arity k)) [g'] (canon k) H1) as T.
    cbn in T. rewrite H2 in T. exact (T eq_refl H3).
  - apply andb_true_iff in H as [H1 H3].
    pose proof (local_sound (rho_of theta) (rho_of_unit theta) pi Hpi (seq 0 (arity k)) [m] (eg (canon k)) H1) as L.
    eapply opequiv_trans; [exact L|]. apply opequiv_sym, rsem_unit; assumption.
Qed.
Print Assumptions cirq_convert_gate_sound.


(* ------------------------------------------------------------------ Braket adapter (forward direction) *)
(* braket_conv comes from QPG.braketconv: convert_gate evaluated symbolically for every modelled kind; Braket's gates are
   read through the contract (validated against the installed Braket on every run), the literal SqrtY / SqrtYdag matrices
   of the converter are translated entry by entry, U2 is built as Gate.U(pi/2, phi, lambda) *)
Definition braket_row_ok (e : gkind * braket_gate) : bool :=
  let '(k, g) := e in
  match g with
  | BLib g' => tmpl_check (seq 0 (arity k)) [g'] (canon k) && gate_ok g' && gate_ok (canon k)
  | BMatrix m => check_equiv (seq 0 (arity k)) [m] (eg (canon k)) && gate_ok (canon k)
  end.

Theorem braket_conv_rows_ok : forallb braket_row_ok braket_conv = true.
Proof. vm_compute. reflexivity. Qed.

Theorem braket_conv_total :
  forallb (fun k => existsb (fun e => gkind_eqb k (fst e)) braket_conv) all_kinds = true.
Proof. vm_compute. reflexivity. Qed.

Theorem braket_convert_gate_sound :
  forall k g, In (k, g) braket_conv ->
  forall theta pi, (forall a b : nat, pi a = pi b -> a = b) ->
  match g with
  | BLib g' => lsem (rsem (inst theta pi g'))
  | BMatrix m => lsem (sgate (rho_of theta) pi m)
  end ≃ lsem (rsem (inst theta pi (canon k))).
Proof.
  intros k g Hin theta pi Hpi.
  pose proof braket_conv_rows_ok as H. rewrite forallb_forall in H. specialize (H _ Hin). cbn in H.
  destruct g as [g'|m].
  - apply andb_true_iff in H as [H H3]. apply andb_true_iff in H as [H1 H2].
    pose proof (tmpl_sound theta pi Hpi (seq 0 (arity k)) [g'] (canon k) H1) as T.
    cbn in T. rewrite H2 in T. exact (T eq_refl H3).
  - apply andb_true_iff in H as [H1 H3].
    pose proof (local_sound (rho_of theta) (rho_of_unit theta) pi Hpi (seq 0 (arity k)) [m] (eg (canon k)) H1) as L.
    eapply opequiv_trans; [exact L|]. apply opequiv_sym, rsem_unit; assumption.
Qed.
Print Assumptions braket_convert_gate_sound.


(* ------------------------------------------------------------------ Qiskit adapter (forward direction) *)
(* qiskit_conv comes from QPG.qiskitconv: convert_gate evaluated symbolically for every modelled kind (convert_circuit
   appends on the controls followed by the targets, checked on the source); Qiskit's gate classes are read through the contract (validated
   against the installed Qiskit on every run), the literal SqrtY / SqrtYdag matrices entry by entry *)
Definition qiskit_row_ok (e : gkind * qiskit_gate) : bool :=
  let '(k, g) := e in
  match g with
  | QLib g' => tmpl_check (seq 0 (arity k)) [g'] (canon k) && gate_ok g' && gate_ok (canon k)
  | QMatrix m => check_equiv (seq 0 (arity k)) [m] (eg (canon k)) && gate_ok (canon k)
  end.

Theorem qiskit_conv_rows_ok : forallb qiskit_row_ok qiskit_conv = true.
Proof. vm_compute. reflexivity. Qed.

Theorem qiskit_conv_total :
  forallb (fun k => existsb (fun e => gkind_eqb k (fst e)) qiskit_conv) all_kinds = true.
Proof. vm_compute. reflexivity. Qed.

Theorem qiskit_convert_gate_sound :
  forall k g, In (k, g) qiskit_conv ->
  forall theta pi, (forall a b : nat, pi a = pi b -> a = b) ->
  match g with
  | QLib g' => lsem (rsem (inst theta pi g'))
  | QMatrix m => lsem (sgate (rho_of theta) pi m)
  end ≃ lsem (rsem (inst theta pi (canon k))).
Proof.
  intros k g Hin theta pi Hpi.
  pose proof qiskit_conv_rows_ok as H. rewrite forallb_forall in H. specialize (H _ Hin). cbn in H.
  destruct g as [g'|m].
  - apply andb_true_iff in H as [H H3]. apply andb_true_iff in H as [H1 H2].
    pose proof (tmpl_sound theta pi Hpi (seq 0 (arity k)) [g'] (canon k) H1) as T.
    cbn in T. rewrite H2 in T. exact (T eq_refl H3).
  - apply andb_true_iff in H as [H1 H3].
    pose proof (local_sound (rho_of theta) (rho_of_unit theta) pi Hpi (seq 0 (arity k)) [m] (eg (canon k)) H1) as L.
    eapply opequiv_trans; [exact L|]. apply opequiv_sym, rsem_unit; assumption.
Qed.
Print Assumptions qiskit_convert_gate_sound.

(* ------------------------------------------------------------------ OpenQASM 3 exporter and Stim converter (named gates) *)
(* qasm_conv / stim_conv: the stdgates.inc mnemonic (resp. Stim gate name) written for every modelled kind, with its
   parameter and operand order, obtained by symbolic evaluation of the exporters; the mnemonics / names are read through
   contracts validated on every run (qiskit.qasm3 parser, stim.Tableau.from_named_gate) *)
Theorem qasm_conv_rows_ok : forallb conv_ok qasm_conv = true.
Proof. vm_compute. reflexivity. Qed.

(* every modelled kind is either exported or rejected with an error (SqrtXdag, SqrtY, SqrtYdag) *)
Theorem qasm_conv_total_or_rejected :
  forallb (fun k => existsb (fun e => gkind_eqb k (fst e)) qasm_conv || existsb (gkind_eqb k) qasm_rejected) all_kinds = true.
Proof. vm_compute. reflexivity. Qed.

Theorem stim_conv_rows_ok : forallb conv_ok stim_conv = true.
Proof. vm_compute. reflexivity. Qed.

Theorem qasm_and_stim_exported_gate_sound :
  forall k g, In (k, g) (qasm_conv ++ stim_conv) ->
  forall theta pi, (forall a b : nat, pi a = pi b -> a = b) ->
  lsem (rsem (inst theta pi g)) ≃ lsem (rsem (inst theta pi (canon k))).
Proof.
  intros k g Hin theta pi Hpi.
  assert (H : conv_ok (k, g) = true).
  { apply in_app_or in Hin. destruct Hin as [Hin|Hin].
    - pose proof qasm_conv_rows_ok as H. rewrite forallb_forall in H. apply H, Hin.
    - pose proof stim_conv_rows_ok as H. rewrite forallb_forall in H. apply H, Hin. }
  cbn in H. apply andb_true_iff in H as [H H3]. apply andb_true_iff in H as [H1 H2].
  pose proof (tmpl_sound theta pi Hpi (seq 0 (arity k)) [g] (canon k) H1) as T.
  simpl in T. rewrite H2 in T. specialize (T eq_refl H3). exact T.
Qed.
Print Assumptions qasm_and_stim_exported_gate_sound.
