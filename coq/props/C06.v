(* C06 - Clifford conjugation of Pauli strings is exact.
   Tables (conjugation rows, Pauli products, CLIFFORD_GATE_NAMES) come from QPG.conjtab,
   regenerated from /repo on every run. *)
From Coq Require Import ZArith List Bool.
From QP Require Import Cx Zw Apply Gates.
From QPM Require Import Transpile Pauli Conj.
From QPG Require Import conjtab.
Import ListNotations.

Definition conj_repo := conj pauli_products_map conj1_tab conj2_tab clifford_names.

(* every row of both generated tables satisfies U sigma = c sigma' U as matrices over Z[w],
   spectator qubits commute, and the Pauli product table is right *)
Theorem conj_tables_ok :
  conj_tabs_ok pauli_products_map conj1_tab conj2_tab clifford_names = true.
Proof. vm_compute. reflexivity. Qed.
Print Assumptions conj_tables_ok.

(* U P = c P' U (i.e. U P U^dagger = c P') for every supported Clifford gate kind, every
   placement on distinct qubits of a register of any size, every Pauli string of any length
   in any enumeration order *)
Theorem clifford_conjugation_sound :
  forall g l l' c, gate_wfb g = true -> gas g = [] -> NoDup (keys l) ->
  conj_repo g l = Some (l', c) ->
  forall psi b, lsem (ksem g) (lsemL l psi) b = Cmul (zw_eval c) (lsemL l' (lsem (ksem g) psi) b).
Proof. intros. eapply conj_sound; eauto. apply conj_tables_ok. Qed.
Print Assumptions clifford_conjugation_sound.

(* ... with c = +1 or c = -1 (as a complex number): P and P' are involutions, so U = c^2 U; every kind of the
   regenerated CLIFFORD_GATE_NAMES has an exact inverse kind (checked by computation), hence c^2 = 1 *)
Theorem clifford_names_have_inverses : forallb has_inverse clifford_names = true.
Proof. vm_compute. reflexivity. Qed.

Theorem clifford_conjugation_coefficient_is_a_sign :
  forall g l l' c, gate_wfb g = true -> gas g = [] -> NoDup (keys l) ->
  conj_repo g l = Some (l', c) -> zw_eval c = C1 \/ zw_eval c = Copp C1.
Proof.
  intros g l l' c Hwf Has Hnd Hc.
  apply (conj_sign pauli_products_map conj1_tab conj2_tab clifford_names conj_tables_ok g l l' c Hwf Has Hnd); [|exact Hc].
  unfold conj_repo, conj in Hc.
  destruct (existsb (gkind_eqb (gk g)) clifford_names) eqn:En; [|discriminate].
  apply existsb_exists in En as [k [Hk Ek]]. apply Transpile.gkind_eqb_eq in Ek. subst k.
  pose proof clifford_names_have_inverses as H. rewrite forallb_forall in H. apply H, Hk.
Qed.
Print Assumptions clifford_conjugation_coefficient_is_a_sign.

(* gate kinds outside CLIFFORD_GATE_NAMES are rejected *)
Theorem non_clifford_rejected :
  forall g l, existsb (gkind_eqb (gk g)) clifford_names = false -> conj_repo g l = None.
Proof. intros. apply conj_rejects. assumption. Qed.
Print Assumptions non_clifford_rejected.

Theorem t_rx_toffoli_not_clifford :
  forallb (fun k => negb (existsb (gkind_eqb k) clifford_names)) [KT; KTdag; KRX; KRY; KRZ; KU1; KU2; KU3; KTOFFOLI] = true.
Proof. vm_compute. reflexivity. Qed.

(* non-vacuity: CNOT(0->1) conjugating Y0 Y1 gives - X0 Z1 *)
Example c06_example :
  conj_repo (mkG KCNOT [0; 1]%nat []) [(0%nat, PY); (1%nat, PY)]
  = Some ([(0%nat, PX); (1%nat, PZ)], zw_opp zw1).
Proof. vm_compute. reflexivity. Qed.
