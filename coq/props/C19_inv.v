(* C19 - the Inverse construction of qsub (lib/std/inverse.py).  qsub_* data come from QPG.qsubinv, regenerated from /repo:
   structure of inverse_sub_resolver (traversal order, phase factor), the table of constant primitives with the op their
   Inverse resolves to (self-inverse ops map to themselves), the angle factor of the rotation resolver. *)
From Coq Require Import ZArith List Bool Reals.
From QP Require Import Cx Apply Gates.
From QPM Require Import Pauli QsubInverse QsubPrim.
From QPG Require Import qsubinv.
Import ListNotations.

(* every constant primitive followed by the op its Inverse resolves to is EXACTLY the identity (no residual phase):
   decided on the exact matrices over Z[w] with their powers of 1/sqrt2 *)
Theorem qsub_constant_inverse_pairs_exact : forallb pair_exact qsub_pairs = true.
Proof. vm_compute. reflexivity. Qed.
Print Assumptions qsub_constant_inverse_pairs_exact.

(* the induction step of the recursive resolver, for ANY kind of operation: if each operation's replacement is an exact
   inverse, the sub-routine built from the replacements in reverse order with the negated phase is an exact inverse of the
   sub-routine, global phase included *)
Theorem qsub_inverse_sub_is_an_exact_inverse :
  forall (op : Type) (sem : op -> Op) (inv : op -> op) (s : sub op),
  (forall o, In o (snd s) -> scal_lin (sem (inv o))) ->
  (forall o, In o (snd s) -> forall psi, sem (inv o) (sem o psi) = psi) ->
  forall psi b, sub_sem op sem (inverse_sub_gen op inv qsub_inv_reversed (IZR qsub_inv_phase_scale) s) (sub_sem op sem s psi) b = psi b.
Proof. intros op sem inv s. exact (inverse_sub_undoes op sem inv s). Qed.
Print Assumptions qsub_inverse_sub_is_an_exact_inverse.

(* the base of that induction: sub-routines made of primitives (constant gates on distinct qubits, rotations about one
   Pauli with any angle), any length, any phase *)
Theorem qsub_inverse_of_a_primitive_sub_undoes_it :
  forall s : sub prim, (forall o, In o (snd s) -> prim_ok qsub_pairs o) ->
  forall psi b,
  sub_sem prim prim_sem (inverse_sub_gen prim (prim_inv qsub_pairs qsub_rot_scale) qsub_inv_reversed (IZR qsub_inv_phase_scale) s)
          (sub_sem prim prim_sem s psi) b = psi b.
Proof.
  intros s Hok. exact (primitive_sub_inverse_undoes qsub_pairs qsub_rot_scale s qsub_constant_inverse_pairs_exact eq_refl Hok).
Qed.
Print Assumptions qsub_inverse_of_a_primitive_sub_undoes_it.

(* Inverse(Controlled(F)) resolves to Controlled(Inverse(F)): an exact inverse stays an inverse under a control qubit ... *)
Theorem qsub_controlled_inverse_structure : qsub_controlled_inverse_is_controlled_of_inverse = true.
Proof. reflexivity. Qed.
Theorem qsub_controlled_exact_inverse_undoes :
  forall c (U V : Op), off c U -> (forall psi, V (U psi) = psi) ->
  forall psi b, ctrl c V (ctrl c U psi) b = psi b.
Proof. exact controlled_inverse_undoes. Qed.
(* ... whereas an inverse that is only right up to a phase a is NOT one under control: the branch with the control set
   keeps the factor a (why the phase of a sub-routine is part of its meaning) *)
Theorem qsub_phase_slip_is_visible_under_control :
  forall c (U V : Op) (a : C), off c U -> (forall psi x, V (U psi) x = Cmul a (psi x)) ->
  forall psi b, ctrl c V (ctrl c U psi) b = if b c then Cmul a (psi b) else psi b.
Proof. exact controlled_phase_slip_is_visible. Qed.

(* non-vacuity: S then Sdag, SqrtX then SqrtXdag, H twice are rows of the regenerated table *)
Example qsub_pairs_example :
  klookup qsub_pairs KS = Some KSdag /\ klookup qsub_pairs KSqrtX = Some KSqrtXdag /\ klookup qsub_pairs KH = Some KH.
Proof. vm_compute. repeat split; reflexivity. Qed.
