(* C19 - Structured (qsub) compilation preserves meaning and resource counts.  Model: coq/model/Qsub.v. *)
From Coq Require Import List Arith Bool.
From QPM Require Import Qsub QsubRec.
Import ListNotations.

(* the auxiliary qubits a sub-routine receives are never qubits that are live in an enclosing call: for every
   well-formed program (any call graph depth, any argument permutation at call sites, repeated calls) *)
Theorem auxiliary_qubits_never_alias_live_qubits : forall P, wf_prog P -> forall f i s acts idx live,
  nth_error P i = Some s -> length acts = nargs s ->
  Forall (fun q => q < idx) live -> Forall (fun q => q < idx) acts ->
  forall ev, In ev (calls f P i acts idx live) -> forall q, In q (snd ev) -> ~ In q (fst ev).
Proof. exact aux_never_alias_live_qubits. Qed.

(* hierarchical evaluation of a call produces the callee's own circuit, with its arguments replaced by the
   actual qubits and its auxiliary qubits moved above the allocator index: meaning is preserved by the
   qubit-map stack / by substitution on expansion *)
Theorem a_call_is_an_instance_of_the_callee_circuit : forall P, wf_prog P -> forall f i s acts idx,
  nth_error P i = Some s -> length acts = nargs s ->
  heval f P i acts idx = map (rn (sigma (nargs s) acts idx)) (heval f P i (seq 0 (nargs s)) (nargs s)).
Proof. exact call_is_instance_of_callee. Qed.

(* the memoising evaluators are exact: gate counts (all gates or a selected kind) of the generated circuit,
   peak of the allocator above the arguments of the entry sub *)
Theorem gate_count_evaluator_is_exact : forall sel P, wf_prog P ->
  snd (gcount sel (length P) P 0 []) = length (filter (fun g : gate => sel (fst g)) (run P)).
Proof. exact gate_count_evaluator_exact. Qed.
Theorem aux_qubit_count_evaluator_is_exact : forall P s P', P = s :: P' -> wf_prog P ->
  snd (acount (length P) P 0 []) = hmax (length P) P 0 (nargs s) - nargs s.
Proof. exact aux_count_evaluator_exact. Qed.
Print Assumptions auxiliary_qubits_never_alias_live_qubits.
Print Assumptions a_call_is_an_instance_of_the_callee_circuit.
Print Assumptions gate_count_evaluator_is_exact.
Print Assumptions aux_qubit_count_evaluator_is_exact.

(* recursion detection (call targets are arbitrary table indices here, so cyclic programs are expressible): with
   fuel above the number of subs the evaluation never runs out - every program is either rejected or evaluated
   completely - and a completed evaluation is the unchecked hierarchical evaluation; self and mutual recursion are
   rejected *)
Theorem every_program_is_rejected_or_evaluated_completely : forall P f i acts idx stack,
  NoDup stack -> (forall j, In j stack -> j < length P) -> length P - length stack < f ->
  hchk f P i acts idx stack <> Fuel.
Proof. exact evaluation_never_runs_out_of_fuel. Qed.
Theorem a_completed_evaluation_is_the_hierarchical_evaluation : forall P f i acts idx stack gs,
  hchk f P i acts idx stack = Ok gs -> heval f P i acts idx = gs.
Proof. exact completed_evaluation_is_heval. Qed.
Theorem recursive_programs_are_rejected :
  hchk 5 [mkSub 1 0 [IP 0 [0]; IC 0 [0]]] 0 [0] 1 [] = Rec /\
  hchk 5 [mkSub 1 0 [IC 1 [0]]; mkSub 1 0 [IP 0 [0]; IC 0 [0]]] 0 [0] 1 [] = Rec.
Proof. split; reflexivity. Qed.

(* non-vacuity: entry sub with one aux qubit calls W (one aux) twice, the second time through V (one aux):
   the diamond of the aux-count evaluator *)
Example c19_example :
  let W := mkSub 1 1 [IP 4 [0; 1]] in
  let V := mkSub 1 1 [IC 2 [1]] in
  let E := mkSub 1 1 [IC 2 [0]; IC 1 [1]; IP 0 [1]] in
  let P := [E; V; W] in
  run P = [(4, [0; 2]); (4, [2; 3]); (0, [1])] /\ snd (acount 3 P 0 []) = 3 /\ snd (gcount (fun _ => true) 3 P 0 []) = 3.
Proof. vm_compute. repeat split. Qed.
