(* C18 - Qubit remapping and count un-mapping are mutually inverse. *)
From Coq Require Import ZArith NArith List Bool.
From QP Require Import Cx Asum Apply.
From QPM Require Import Remap RemapExec.
Import ListNotations.

(* translating the backend's outcome back yields the original outcome bit for bit, for every
   injective mapping into a register of any size and every junk on unmapped backend qubits *)
Theorem unmap_after_map_is_identity :
  forall (m : qmap) (b junk : N),
  NoDup (mkeys m) -> NoDup (mvals m) ->
  (forall j, N.testbit b (N.of_nat j) = true -> In j (mkeys m)) ->
  (forall j, N.testbit junk (N.of_nat j) = true -> ~ In j (mvals m)) ->
  reverse_map_bits m (N.lor (forward_map_bits m b) junk) = b.
Proof. exact unmap_map_id. Qed.
Print Assumptions unmap_after_map_is_identity.

Theorem unmap_conserves_total_counts :
  forall m cs, total (reverse_map_counts m cs) = total cs.
Proof. exact unmap_counts_total. Qed.
Print Assumptions unmap_conserves_total_counts.

Theorem unmap_aggregates_preimages :
  forall m cs k0, cget (reverse_map_counts m cs) k0
  = fold_right (fun bc a => ((if N.eqb k0 (reverse_map_bits m (fst bc)) then snd bc else 0) + a)%Z) 0%Z cs.
Proof. exact unmap_counts_distribution. Qed.

(* the remapped circuit acts on the relabelled register exactly as the original circuit acts
   on the original one: gates keep their matrices, only qubit labels move through pi *)
Theorem remapped_circuit_acts_as_original :
  forall (pi : nat -> nat) (gs : list lgate), (forall a c, pi a = pi c -> a = c) ->
  forall psi b',
  csem (map (fun g => (fst g, map pi (snd g))) gs) (fun c' => psi (fun n => c' (pi n))) b'
  = csem gs psi (fun n => b' (pi n)).
Proof. exact remap_circuit_sem. Qed.
Print Assumptions remapped_circuit_acts_as_original.

(* the executable model of QubitRemappingTranspiler (constructor check, dictionary lookups with the
   KeyError -> ValueError path, register size) - run against the real class by corr_C18.py *)

(* the constructor accepts exactly the non-empty mappings with pairwise distinct targets *)
Theorem constructor_accepts_exactly_the_injective_mappings :
  forall m : qmap, ctor_ok m = true <-> NoDup (mvals m) /\ m <> [].
Proof. exact ctor_ok_spec. Qed.
Print Assumptions constructor_accepts_exactly_the_injective_mappings.

(* __call__ raises (None) exactly when some gate of the circuit uses a qubit that has no entry in the
   mapping - wherever that index lies relative to the keys, as control or as target *)
Theorem remapping_rejects_exactly_the_circuits_with_an_unmapped_qubit :
  forall (A : Type) (m : qmap) (gs : list (A * list nat)),
  remap_circuit m gs = None <-> exists q, uses gs q /\ ~ In q (mkeys m).
Proof. intros A. exact remap_circuit_none. Qed.
Print Assumptions remapping_rejects_exactly_the_circuits_with_an_unmapped_qubit.

(* otherwise it returns the same gates (payload - name, parameters, Pauli ids, matrix - untouched) with every
   index sent through the dictionary, all inside the register of max(target) + 1 qubits *)
Theorem returned_circuit_is_the_relabelled_circuit :
  forall (A : Type) (m : qmap) (gs gs' : list (A * list nat)),
  remap_circuit m gs = Some gs' ->
  gs' = map (fun g => (fst g, map (pi_of m) (snd g))) gs /\ (forall q, uses gs' q -> q < out_qubit_count m).
Proof. intros A m gs gs' H. split; [exact (remap_circuit_some m gs gs' H)|exact (remap_circuit_in_register m gs gs' H)]. Qed.
Print Assumptions returned_circuit_is_the_relabelled_circuit.

(* and that circuit acts on the relabelled register as the original acts on the original one *)
Theorem executable_remapping_acts_as_original :
  forall (m : qmap) (gs gs' : list lgate),
  ctor_ok m = true -> remap_circuit m gs = Some gs' ->
  forall psi b', csem gs' (fun c' => psi (fun n => c' (pi_of m n))) b' = csem gs psi (fun n => b' (pi_of m n)).
Proof. exact remap_exec_sem. Qed.
Print Assumptions executable_remapping_acts_as_original.

Example c18_example :
  let m := [(0, 4); (1, 2); (2, 5); (3, 0)]%nat in
  forward_map_bits m 11%N = 21%N /\ reverse_map_bits m (N.lor 21 8)%N = 11%N.
Proof. vm_compute. split; reflexivity. Qed.
