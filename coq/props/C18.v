(* C18 - Qubit remapping and count un-mapping are mutually inverse. *)
From Coq Require Import ZArith NArith List Bool.
From QP Require Import Cx Asum Apply.
From QPM Require Import Remap.
Import ListNotations.

(* translating the backend's outcome back yields the original outcome bit for bit, for every
   injective mapping into a register of any size and every junk on unmapped backend qubits *)
Theorem unmap_after_map_is_identity :
  forall (m : qmap) (b junk : N),
  NoDup (mkeys m) -> NoDup (mvals m) ->
  (forall j, N.testbit b (N.of_nat j) = true -> In j (mkeys m)) ->
  (forall j, N.testbit junk (N.of_nat j) = true -> ~ In j (mvals m)) ->
  reverse_map_bits m (N.lor (forward_map_bits m b) junk) = b.
Proof. exact unmap_map_id. Qed.
Print Assumptions unmap_after_map_is_identity.

Theorem unmap_conserves_total_counts :
  forall m cs, total (reverse_map_counts m cs) = total cs.
Proof. exact unmap_counts_total. Qed.
Print Assumptions unmap_conserves_total_counts.

Theorem unmap_aggregates_preimages :
  forall m cs k0, cget (reverse_map_counts m cs) k0
  = fold_right (fun bc a => ((if N.eqb k0 (reverse_map_bits m (fst bc)) then snd bc else 0) + a)%Z) 0%Z cs.
Proof. exact unmap_counts_distribution. Qed.

(* the remapped circuit acts on the relabelled register exactly as the original circuit acts
   on the original one: gates keep their matrices, only qubit labels move through pi *)
Theorem remapped_circuit_acts_as_original :
  forall (pi : nat -> nat) (gs : list lgate), (forall a c, pi a = pi c -> a = c) ->
  forall psi b',
  csem (map (fun g => (fst g, map pi (snd g))) gs) (fun c' => psi (fun n => c' (pi n))) b'
  = csem gs psi (fun n => b' (pi n)).
Proof. exact remap_circuit_sem. Qed.
Print Assumptions remapped_circuit_acts_as_original.

Example c18_example :
  let m := [(0, 4); (1, 2); (2, 5); (3, 0)]%nat in
  forward_map_bits m 11%N = 21%N /\ reverse_map_bits m (N.lor 21 8)%N = 11%N.
Proof. vm_compute. split; reflexivity. Qed.
