(* C13 - Fermion-to-qubit mappings treat operators and states consistently.
   Models: coq/model/GF2.v (BinaryArray / BinaryMatrix products, Gauss-Jordan inverse()),
   coq/model/Mapper.v (state_mapper, inv_state_mapper, number-operator read-back, post-selection filters,
   SCBK parity factors).  The matrix M of the mapped number operators and their signs come from OpenFermion
   and are parameters. *)
From Coq Require Import ZArith NArith List Bool Arith.
From QPM Require Import Remap Reconstruct GF2 GF2Complete GF2Tri Mapper.
Import ListNotations.

(* inverse() returns a two-sided inverse (as maps on bit vectors) whenever the elimination ends with the
   identity on the left - for every size and every matrix *)
Theorem gf2_inverse_is_two_sided_inverse : forall M B, gj_ok M B ->
  forall y, fits (length M) y -> mulv B (mulv M y) = y /\ mulv M (mulv B y) = y.
Proof. exact gj_ok_inverse. Qed.
Print Assumptions gf2_inverse_is_two_sided_inverse.

(* mappings that keep all qubits (Jordan-Wigner, Bravyi-Kitaev): for every number of spin orbitals, every
   number-operator matrix M with an inverse computed by inverse(), every sign vector and occupation set *)
Theorem inverse_state_mapper_undoes_state_mapper : forall n nq M B smask,
  length M = n -> nq = n -> gj_ok M B -> fits n smask ->
  forall occ, fits n occ -> inv_state_mapper n nq M smask (state_mapper nq B smask occ) = occ.
Proof. exact inv_of_state. Qed.

Theorem state_mapper_undoes_inverse_state_mapper : forall n nq M B smask,
  length M = n -> nq = n -> gj_ok M B -> fits n smask ->
  forall bits, fits n bits -> state_mapper nq B smask (inv_state_mapper n nq M smask bits) = bits.
Proof. exact state_of_inv. Qed.

Theorem mapped_number_operators_read_back_the_occupation : forall n nq M B smask,
  length M = n -> nq = n -> gj_ok M B -> fits n smask ->
  forall occ i, fits n occ -> i < n ->
  number_readback M smask i (state_mapper nq B smask occ) = N.testbit occ (N.of_nat i).
Proof. exact number_operators_read_back. Qed.
Print Assumptions mapped_number_operators_read_back_the_occupation.

(* filters: the Jordan-Wigner filter accepts exactly the bit strings with n_e set bits and, when a spin is
   requested, (# even set positions) - (# odd set positions) = 2 sz; a bit string IS the occupation set under
   Jordan-Wigner; for every width (Python ints are unbounded) *)
Theorem jw_filter_accepts_exactly_the_sector : forall n_e sz2_req bits,
  jw_filter n_e sz2_req bits = true <->
  length (positions bits) = n_e /\
  match sz2_req with
  | Some k => (Z.of_nat (length (filter Nat.even (positions bits))) - Z.of_nat (length (filter Nat.odd (positions bits))) = k)%Z
  | None => True
  end.
Proof. exact jw_filter_spec. Qed.
Theorem positions_are_the_set_bits : forall b k, In k (positions b) <-> N.testbit b (N.of_nat k) = true.
Proof. exact positions_spec. Qed.

(* the inverse-mapper based filters (BK, SCBK) accept exactly the images of the occupation sets the
   Jordan-Wigner criterion accepts, whenever the two mappers are mutually inverse *)
Theorem inverse_mapper_filters_accept_exactly_images : forall n (st inv : N -> N) n_e sz2_req,
  (forall occ, fits n occ -> inv (st occ) = occ) -> (forall b, fits n b -> st (inv b) = b) ->
  (forall b, fits n b -> fits n (inv b)) ->
  forall bits, fits n bits ->
  (inv_filter inv n_e sz2_req bits = true <->
   exists occ, fits n occ /\ st occ = bits /\ jw_filter n_e sz2_req occ = true).
Proof. exact inv_filter_accepts_exactly_images. Qed.

(* SCBK parity factors: the truncated half sum is the number of spin-up electrons in every sector *)
Theorem scbk_parity_factor_counts_spin_up : forall up down : nat,
  scbk_n_up (Z.of_nat (up + down)) (Z.of_nat up - Z.of_nat down) = Z.of_nat up.
Proof. exact scbk_parity_counts_spin_up. Qed.
Print Assumptions inverse_mapper_filters_accept_exactly_images.

(* completeness of the Gauss-Jordan elimination as inverse() performs it (pivot search from the diagonal down, swap,
   forward sweep; backward sweep with the pivot searched from the bottom): on every square matrix with trivial kernel
   - any size - a pivot is found in every column, no row is ever added to itself, the elimination ends with the identity
   on the left, and the result is the two-sided inverse.  With gf2_inverse_is_two_sided_inverse: inverse() returns an
   inverse exactly on the invertible matrices. *)
Theorem gf2_inverse_succeeds_on_every_invertible_matrix : forall M,
  (forall r, In r M -> fits (length M) r) ->
  (forall y, fits (length M) y -> mulv M y = 0%N -> y = 0%N) ->
  exists B, inverse M = Some B /\ gj_check M = Some B
    /\ forall y, fits (length M) y -> mulv B (mulv M y) = y /\ mulv M (mulv B y) = y.
Proof. exact inverse_total. Qed.
Print Assumptions gf2_inverse_succeeds_on_every_invertible_matrix.

Theorem gf2_inverse_succeeds_whenever_a_left_inverse_exists : forall M L,
  (forall r, In r M -> fits (length M) r) ->
  (forall y, fits (length M) y -> mulv L (mulv M y) = y) ->
  exists B, inverse M = Some B
    /\ forall y, fits (length M) y -> mulv B (mulv M y) = y /\ mulv M (mulv B y) = y.
Proof. exact inverse_total_of_left_inverse. Qed.

(* hence the mapper round trips need no run of the elimination: every invertible square number-operator matrix will do *)
Theorem mappers_round_trip_for_every_invertible_number_operator_matrix : forall n M smask,
  length M = n -> (forall r, In r M -> fits n r) -> (forall y, fits n y -> mulv M y = 0%N -> y = 0%N) -> fits n smask ->
  exists B, inverse M = Some B
    /\ (forall occ, fits n occ -> inv_state_mapper n n M smask (state_mapper n B smask occ) = occ)
    /\ (forall bits, fits n bits -> state_mapper n B smask (inv_state_mapper n n M smask bits) = bits)
    /\ (forall occ i, fits n occ -> i < n -> number_readback M smask i (state_mapper n B smask occ) = N.testbit occ (N.of_nat i)).
Proof.
  intros n M smask Hn Hsq Hker Hs. subst n.
  destruct (gj_complete M Hsq Hker) as [B HB]. exists B.
  split. { destruct HB as [s [Hg [_ [_ Hb]]]]. unfold inverse. rewrite Hg, Hb. reflexivity. }
  split; [|split].
  - intros occ Ho. apply (inv_of_state (length M) (length M) M B smask); auto.
  - intros bits Hb. apply (state_of_inv (length M) (length M) M B smask); auto.
  - intros occ i Ho Hi. apply (number_operators_read_back (length M) (length M) M B smask); auto.
Qed.
Print Assumptions mappers_round_trip_for_every_invertible_number_operator_matrix.

(* non-vacuity: the 4-orbital Bravyi-Kitaev number-operator matrix (rows Z0, Z0Z1, Z2, Z1Z2Z3) *)
Example c13_example :
  let M := [1; 3; 4; 14]%N in
  gj_check M = Some [1; 3; 4; 15]%N /\ gj_ok M [1; 3; 4; 15]%N
  /\ state_mapper 4 [1; 3; 4; 15]%N 0 3 = 1%N /\ inv_state_mapper 4 4 M 0 1 = 3%N.
Proof. split; [vm_compute; reflexivity|]. split; [apply gj_check_ok; vm_compute; reflexivity|]. vm_compute. split; reflexivity. Qed.

(* Size-independent form: a unit lower-triangular matrix (row i has bit i and no bit above i - the number-operator
   matrices of Jordan-Wigner (identity) and of Bravyi-Kitaev (parity sets of qubits <= i) at every size; checked on the
   matrices read from the real objects up to 100 spin orbitals by corr_C13.py) has trivial kernel, so inverse()
   succeeds and the mappers round-trip whatever the number of spin orbitals. *)
Theorem gf2_inverse_succeeds_on_every_unit_lower_triangular_matrix : forall M,
  unit_lowerb M = true ->
  exists B, inverse M = Some B /\ gj_check M = Some B
    /\ forall y, fits (length M) y -> mulv B (mulv M y) = y /\ mulv M (mulv B y) = y.
Proof. intros M H. apply inverse_total_unit_lower. apply unit_lowerb_sound. exact H. Qed.
Print Assumptions gf2_inverse_succeeds_on_every_unit_lower_triangular_matrix.

Theorem mappers_round_trip_at_every_size : forall n M smask,
  length M = n -> unit_lowerb M = true -> fits n smask ->
  exists B, inverse M = Some B
    /\ (forall occ, fits n occ -> inv_state_mapper n n M smask (state_mapper n B smask occ) = occ)
    /\ (forall bits, fits n bits -> state_mapper n B smask (inv_state_mapper n n M smask bits) = bits)
    /\ (forall occ i, fits n occ -> i < n -> number_readback M smask i (state_mapper n B smask occ) = N.testbit occ (N.of_nat i)).
Proof.
  intros n M smask Hn HU Hs. apply unit_lowerb_sound in HU.
  apply mappers_round_trip_for_every_invertible_number_operator_matrix; auto.
  - rewrite <- Hn. apply unit_lower_square. exact HU.
  - rewrite <- Hn. apply unit_lower_kernel. exact HU.
Qed.
Print Assumptions mappers_round_trip_at_every_size.

Example c13_unit_lower_example : unit_lowerb [1; 3; 4; 14; 16; 48; 64; 232]%N = true.
Proof. vm_compute. reflexivity. Qed.
