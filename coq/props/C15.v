(* C15 - Symmetry-preserving ansatz circuits conserve what they promise.
   Blocks (A gate, SO(4) entangler, single / double excitation, orbital rotation, U1 / U2 exchange gates,
   gate-fabric Q gates, parametric RZ) are regenerated from /repo (QPG.blocks); lib/Conserve.v and
   model/Ansatz.v give the semantics. *)
From Coq Require Import List Bool Arith ZArith Reals.
From QP Require Import Cx Asum FMat Apply Local Gates Rsem Conserve.
From QPM Require Import Transpile Ansatz Realness RealPhase.
From QPG Require Import blocks.
Import ListNotations.

(* obligations on the regenerated blocks, decided on their Laurent-polynomial product matrices for all
   values of the angle variables at once *)
Theorem every_block_conserves_particle_number :
  forallb (fun kb => check_conserve Z.eqb (repeat 1%Z (fst kb)) (seq 0 (fst kb)) (map eg (snd kb))
                     && forallb gate_ok (snd kb)) blocks_all = true.
Proof. vm_compute. reflexivity. Qed.

Theorem every_spin_adapted_placement_conserves_sz :
  forallb (fun o => check_conserve Z.eqb (fst o) (seq 0 (fst (snd o))) (map eg (snd (snd o)))) sz_obligations = true.
Proof. vm_compute. reflexivity. Qed.

Lemma map_c_num l : map c_num l = repeat 1%Z (length l).
Proof. induction l as [|a l IH]; [reflexivity|]. cbn [map length repeat]. rewrite IH. reflexivity. Qed.

(* every circuit that is a sequence of these blocks - any number of blocks and layers, any placement of
   each block on distinct qubits (any entangler map), any real angles, registers of any size - maps every
   particle-number sector into itself *)
Theorem ansatz_circuits_conserve_particle_number : forall Q (blocks : list binst), NoDup Q ->
  Forall (fun bi => In (bk bi, bt bi) blocks_all /\ NoDup (bqs bi) /\ length (bqs bi) = bk bi /\ incl (bqs bi) Q) blocks ->
  keeps c_num Z.eqb Q (csem (concat (map binst_sem blocks))).
Proof.
  intros Q blocks HQ H. apply (circuit_of_blocks_keeps_sectors c_num Z.eqb eqb_trans eqb_shift Q blocks HQ).
  rewrite Forall_forall in *. intros bi Hbi. destruct (H bi Hbi) as [Hin [Hnd [Hlen Hincl]]].
  pose proof every_block_conserves_particle_number as Hall. rewrite forallb_forall in Hall.
  specialize (Hall _ Hin). cbn [fst snd] in Hall. apply andb_true_iff in Hall as [Hc Hok].
  repeat split; auto. rewrite map_c_num, Hlen. exact Hc.
Qed.
Print Assumptions ansatz_circuits_conserve_particle_number.

(* ... and every S_z sector when each block sits on qubits whose spin pattern is one of the verified ones
   (the patterns that occur in GateFabric and AllSinglesDoubles) *)
Theorem spin_adapted_circuits_conserve_sz : forall Q (blocks : list binst), NoDup Q ->
  Forall (fun bi => In (map c_sz (bqs bi), (bk bi, bt bi)) sz_obligations /\ forallb gate_ok (bt bi) = true /\
                    NoDup (bqs bi) /\ length (bqs bi) = bk bi /\ incl (bqs bi) Q) blocks ->
  keeps c_sz Z.eqb Q (csem (concat (map binst_sem blocks))).
Proof.
  intros Q blocks HQ H. apply (circuit_of_blocks_keeps_sectors c_sz Z.eqb eqb_trans eqb_shift Q blocks HQ).
  rewrite Forall_forall in *. intros bi Hbi. destruct (H bi Hbi) as [Hin [Hok [Hnd [Hlen Hincl]]]].
  pose proof every_spin_adapted_placement_conserves_sz as Hall. rewrite forallb_forall in Hall.
  specialize (Hall _ Hin). cbn [fst snd] in Hall. repeat split; auto.
Qed.

(* a conserved charge is conserved modulo 2: parity sectors of the particle number *)
Theorem ansatz_circuits_conserve_parity : forall Q (blocks : list binst), NoDup Q ->
  Forall (fun bi => In (bk bi, bt bi) blocks_all /\ NoDup (bqs bi) /\ length (bqs bi) = bk bi /\ incl (bqs bi) Q) blocks ->
  forall v psi, supp c_num Z.eqb Q v psi -> supp c_num same_par Q v (csem (concat (map binst_sem blocks)) psi).
Proof.
  intros Q blocks HQ H v psi Hs b Hb.
  destruct (Z.eqb (charge c_num Q b) v) eqn:E.
  - apply Z.eqb_eq in E. rewrite E in Hb. rewrite par_refl in Hb. discriminate.
  - exact (ansatz_circuits_conserve_particle_number Q blocks HQ H v psi Hs b E).
Qed.

Example c15_example : In (2%nat, blk_a_gate) blocks_all /\ In ([1; 1]%Z, (2%nat, blk_single_excitation)) sz_obligations.
Proof. split; vm_compute; tauto. Qed.

(* ------------------------------------------------------------------ Z2 variant: parity *)
(* every regenerated block - including the Rxx / RZ / Rxx block of Z2SymmetryPreservingReal, whose Pauli rotations are
   replaced by the gates PauliRotationDecomposeTranspiler makes of them (that decomposition is proved in C01) - vanishes
   between local configurations of different parity *)
Theorem every_block_conserves_parity :
  forallb (fun kb => check_conserve same_par (repeat 1%Z (fst kb)) (seq 0 (fst kb)) (map eg (snd kb))
                     && forallb gate_ok (snd kb)) parity_blocks_all = true.
Proof. vm_compute. reflexivity. Qed.

Theorem z2_ansatz_circuits_conserve_parity : forall Q (blocks : list binst), NoDup Q ->
  Forall (fun bi => In (bk bi, bt bi) parity_blocks_all /\ NoDup (bqs bi) /\ length (bqs bi) = bk bi /\ incl (bqs bi) Q) blocks ->
  keeps c_num same_par Q (csem (concat (map binst_sem blocks))).
Proof.
  intros Q blocks HQ H. apply (circuit_of_blocks_keeps_sectors c_num same_par par_trans par_shift Q blocks HQ).
  rewrite Forall_forall in *. intros bi Hbi. destruct (H bi Hbi) as [Hin [Hnd [Hlen Hincl]]].
  pose proof every_block_conserves_parity as Hall. rewrite forallb_forall in Hall.
  specialize (Hall _ Hin). cbn [fst snd] in Hall. apply andb_true_iff in Hall as [Hc Hok].
  repeat split; auto. rewrite map_c_num, Hlen. exact Hc.
Qed.
Print Assumptions z2_ansatz_circuits_conserve_parity.

(* ------------------------------------------------------------------ real-amplitude variants *)
(* the blocks of SymmetryPreservingReal (SO(4) entangler) and Z2SymmetryPreservingReal have product matrices that are real
   up to one phase, for all angles at once (decided on the Laurent-polynomial products: P[x][y] * conj P[x'][y'] is real) *)
Theorem real_variant_blocks_are_real :
  forallb (fun kb => check_real (seq 0 (fst kb)) (map eg (snd kb)) && forallb gate_ok (snd kb)) real_blocks_all = true.
Proof. vm_compute. reflexivity. Qed.

(* hence every circuit that is a sequence of these blocks - any number of layers, any entangler map, any angles, registers of
   any size - maps real states to real states, up to one global phase factor *)
Theorem real_variant_circuits_map_real_states_to_real_states : forall blocks : list binst,
  Forall (fun bi => In (bk bi, bt bi) real_blocks_all /\ NoDup (bqs bi)) blocks ->
  exists z, Cunit z /\ forall psi, real_state psi -> real_state (fun b => Cmul z (csem (concat (map binst_sem blocks)) psi b)).
Proof.
  intros blocks H. apply circuit_of_real_blocks_is_real_up_to_phase.
  rewrite Forall_forall in *. intros bi Hbi. destruct (H bi Hbi) as [Hin Hnd].
  pose proof real_variant_blocks_are_real as Hall. rewrite forallb_forall in Hall.
  specialize (Hall _ Hin). cbn [fst snd] in Hall. apply andb_true_iff in Hall as [Hc Hok].
  repeat split; auto.
Qed.
Print Assumptions real_variant_circuits_map_real_states_to_real_states.

(* the SO(4) entangler consists of CNOT and RY gates only: for SymmetryPreservingReal the statement holds exactly (z = 1) *)
Theorem so4_circuits_map_real_states_to_real_states : forall blocks : list binst,
  Forall (fun bi => real_gatesb (bt bi) = true) blocks ->
  forall psi, real_state psi -> real_state (csem (concat (map binst_sem blocks)) psi).
Proof.
  induction 1 as [|bi blocks Hbi _ IH]; intros psi Hp; [exact Hp|].
  cbn [map concat]. rewrite csem_app. apply IH. unfold binst_sem.
  apply real_gates_keep_states_real; assumption.
Qed.
Theorem so4_block_has_real_gates : real_gatesb blk_so4 = true.
Proof. reflexivity. Qed.
