(* C15 - Symmetry-preserving ansatz circuits conserve what they promise.
   Blocks (A gate, SO(4) entangler, single / double excitation, orbital rotation, U1 / U2 exchange gates,
   gate-fabric Q gates, parametric RZ) are regenerated from /repo (QPG.blocks); lib/Conserve.v and
   model/Ansatz.v give the semantics. *)
From Coq Require Import List Bool Arith ZArith Reals.
From QP Require Import Cx Asum FMat Apply Local Gates Rsem Conserve.
From QPM Require Import Transpile Ansatz.
From QPG Require Import blocks.
Import ListNotations.

(* obligations on the regenerated blocks, decided on their Laurent-polynomial product matrices for all
   values of the angle variables at once *)
Theorem every_block_conserves_particle_number :
  forallb (fun kb => check_conserve Z.eqb (repeat 1%Z (fst kb)) (seq 0 (fst kb)) (map eg (snd kb))
                     && forallb gate_ok (snd kb)) blocks_all = true.
Proof. vm_compute. reflexivity. Qed.

Theorem every_spin_adapted_placement_conserves_sz :
  forallb (fun o => check_conserve Z.eqb (fst o) (seq 0 (fst (snd o))) (map eg (snd (snd o)))) sz_obligations = true.
Proof. vm_compute. reflexivity. Qed.

Lemma map_c_num l : map c_num l = repeat 1%Z (length l).
Proof. induction l as [|a l IH]; [reflexivity|]. cbn [map length repeat]. rewrite IH. reflexivity. Qed.

(* every circuit that is a sequence of these blocks - any number of blocks and layers, any placement of
   each block on distinct qubits (any entangler map), any real angles, registers of any size - maps every
   particle-number sector into itself *)
Theorem ansatz_circuits_conserve_particle_number : forall Q (blocks : list binst), NoDup Q ->
  Forall (fun bi => In (bk bi, bt bi) blocks_all /\ NoDup (bqs bi) /\ length (bqs bi) = bk bi /\ incl (bqs bi) Q) blocks ->
  keeps c_num Z.eqb Q (csem (concat (map binst_sem blocks))).
Proof.
  intros Q blocks HQ H. apply (circuit_of_blocks_keeps_sectors c_num Z.eqb eqb_trans eqb_shift Q blocks HQ).
  rewrite Forall_forall in *. intros bi Hbi. destruct (H bi Hbi) as [Hin [Hnd [Hlen Hincl]]].
  pose proof every_block_conserves_particle_number as Hall. rewrite forallb_forall in Hall.
  specialize (Hall _ Hin). cbn [fst snd] in Hall. apply andb_true_iff in Hall as [Hc Hok].
  repeat split; auto. rewrite map_c_num, Hlen. exact Hc.
Qed.
Print Assumptions ansatz_circuits_conserve_particle_number.

(* ... and every S_z sector when each block sits on qubits whose spin pattern is one of the verified ones
   (the patterns that occur in GateFabric and AllSinglesDoubles) *)
Theorem spin_adapted_circuits_conserve_sz : forall Q (blocks : list binst), NoDup Q ->
  Forall (fun bi => In (map c_sz (bqs bi), (bk bi, bt bi)) sz_obligations /\ forallb gate_ok (bt bi) = true /\
                    NoDup (bqs bi) /\ length (bqs bi) = bk bi /\ incl (bqs bi) Q) blocks ->
  keeps c_sz Z.eqb Q (csem (concat (map binst_sem blocks))).
Proof.
  intros Q blocks HQ H. apply (circuit_of_blocks_keeps_sectors c_sz Z.eqb eqb_trans eqb_shift Q blocks HQ).
  rewrite Forall_forall in *. intros bi Hbi. destruct (H bi Hbi) as [Hin [Hok [Hnd [Hlen Hincl]]]].
  pose proof every_spin_adapted_placement_conserves_sz as Hall. rewrite forallb_forall in Hall.
  specialize (Hall _ Hin). cbn [fst snd] in Hall. repeat split; auto.
Qed.

(* a conserved charge is conserved modulo 2: parity sectors of the particle number *)
Theorem ansatz_circuits_conserve_parity : forall Q (blocks : list binst), NoDup Q ->
  Forall (fun bi => In (bk bi, bt bi) blocks_all /\ NoDup (bqs bi) /\ length (bqs bi) = bk bi /\ incl (bqs bi) Q) blocks ->
  forall v psi, supp c_num Z.eqb Q v psi -> supp c_num same_par Q v (csem (concat (map binst_sem blocks)) psi).
Proof.
  intros Q blocks HQ H v psi Hs b Hb.
  destruct (Z.eqb (charge c_num Q b) v) eqn:E.
  - apply Z.eqb_eq in E. rewrite E in Hb. rewrite par_refl in Hb. discriminate.
  - exact (ansatz_circuits_conserve_particle_number Q blocks HQ H v psi Hs b E).
Qed.

Example c15_example : In (2%nat, blk_a_gate) blocks_all /\ In ([1; 1]%Z, (2%nat, blk_single_excitation)) sz_obligations.
Proof. split; vm_compute; tauto. Qed.
