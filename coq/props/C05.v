(* C05 - Operator arithmetic is a faithful image of matrix arithmetic.
   pauli_products_map comes from QPG.conjtab (regenerated from /repo). *)
From Coq Require Import ZArith NArith List Bool.
From QP Require Import Cx Zw Apply Local Gates.
From QPM Require Import Pauli CompBasis Grouping GF2 Operator OperatorExt Expect OperatorAdj SparseExport TransAmp LabelString LabelSort LabelSpaced.
From QPM Require Intern.
From QPG Require Import conjtab.
Import ListNotations.

Theorem pauli_products_map_ok : ptab_ok pauli_products_map = true.
Proof. vm_compute. reflexivity. Qed.

(* pauli_product(p1, p2) = (label, phase) with [[p1]] [[p2]] = phase [[label]]: labels of any
   length on any qubit indices, arbitrary overlaps, any enumeration order *)
Theorem pauli_product_is_operator_product :
  forall l1 l2, NoDup (keys l1) -> NoDup (keys l2) ->
  let '(l, ph) := pprod pauli_products_map l1 l2 in
  NoDup (keys l) /\ forall psi b, lsemL l1 (lsemL l2 psi) b = Cmul (zw_eval ph) (lsemL l psi b).
Proof. intros l1 l2 H1 H2. apply (pprod_sound pauli_products_map pauli_products_map_ok l1 l2 H1 H2). Qed.
Print Assumptions pauli_product_is_operator_product.

(* equal Pauli strings (as finite maps, however they were listed) denote the same operator *)
Theorem equal_labels_same_operator :
  forall l l', label_eqb l l' = true -> NoDup (keys l) -> NoDup (keys l') -> lsemL l = lsemL l'.
Proof. exact label_eqb_sem. Qed.

(* Operators with complex coefficients *)
Definition Cop := op C.
Definition c_add_term := add_term C C0 Cadd Ceq_dec.
Definition c_iadd := iadd C C0 Cadd Ceq_dec.
Definition c_scale := oscale C Cmul.
Definition c_mul := omul C C0 Cadd Cmul Ceq_dec pauli_products_map zw_eval.
Definition c_sem := osem C (fun c => c).

Theorem add_term_adds_one_term :
  forall (o : Cop) l c psi b, wf_op C o -> NoDup (keys l) ->
  c_sem (c_add_term o l c) psi b = Cadd (c_sem o psi b) (Cmul c (lsemL l psi b)).
Proof. intros. apply (add_term_sem C C0 Cadd Ceq_dec (fun c => c)); auto. Qed.
Print Assumptions add_term_adds_one_term.

Theorem operator_sum_is_matrix_sum :
  forall (o o' : Cop) psi b, wf_op C o -> wf_op C o' ->
  c_sem (c_iadd o o') psi b = Cadd (c_sem o psi b) (c_sem o' psi b).
Proof. intros. apply (iadd_sem C C0 Cadd Ceq_dec (fun c => c)); auto. Qed.

Theorem scalar_multiple_is_matrix_multiple :
  forall s (o : Cop) psi b, c_sem (c_scale s o) psi b = Cmul s (c_sem o psi b).
Proof. intros. apply (oscale_sem C Cmul (fun c => c)); auto. Qed.

Theorem operator_product_is_matrix_product :
  forall (a b : Cop) psi x, wf_op C a -> wf_op C b ->
  c_sem (c_mul a b) psi x = c_sem a (c_sem b psi) x.
Proof.
  intros. apply (omul_sem C C0 Cadd Cmul Ceq_dec (fun c => c)); auto; try apply pauli_products_map_ok.
Qed.
Print Assumptions operator_product_is_matrix_product.

(* terms whose coefficients cancel exactly disappear: after +=, add_term and * no stored
   coefficient is zero (the constructor and item assignment are the documented exceptions) *)
Theorem cancelling_terms_disappear :
  (forall (o : Cop) l c, nozero C C0 o -> nozero C C0 (c_add_term o l c)) /\
  (forall (o o' : Cop), nozero C C0 o -> nozero C C0 (c_iadd o o')) /\
  (forall (a b : Cop), nozero C C0 (c_mul a b)).
Proof.
  split; [|split]; intros.
  - apply add_term_nozero; auto. intros; apply Cadd_0_l.
  - apply iadd_nozero; auto. intros; apply Cadd_0_l.
  - apply omul_nozero. intros; apply Cadd_0_l.
Qed.

(* differences, quotients by a scalar and commutators *)
Definition cm1 : C := Copp C1.
Definition c_isub := isub C C0 Cadd Cmul Ceq_dec cm1.
Definition c_idiv := idiv C Cmul.
Definition c_comm := commutator C C0 Cadd Cmul Ceq_dec cm1 pauli_products_map zw_eval.

Theorem operator_difference_is_matrix_difference :
  forall (o o' : Cop) psi b, wf_op C o -> wf_op C o' ->
  c_sem (c_isub o o') psi b = Csub (c_sem o psi b) (c_sem o' psi b).
Proof.
  intros. apply (isub_sem C C0 Cadd Cmul Ceq_dec (fun c => c)); auto; try reflexivity; intros; reflexivity.
Qed.
Theorem operator_quotient_is_matrix_quotient :
  forall (s sinv : C) (o : Cop) psi b, Cmul s sinv = C1 ->
  Cmul s (c_sem (c_idiv sinv o) psi b) = c_sem o psi b.
Proof. intros s sinv o psi b H. apply (idiv_sem C Cmul (fun c => c)); auto. Qed.
Theorem operator_commutator_is_matrix_commutator :
  forall (a b : Cop) psi x, wf_op C a -> wf_op C b ->
  c_sem (c_comm a b) psi x = Csub (c_sem a (c_sem b psi) x) (c_sem b (c_sem a psi) x).
Proof.
  intros. apply (commutator_sem C C0 Cadd Cmul Ceq_dec (fun c => c)); auto; try reflexivity;
    try apply pauli_products_map_ok; intros; reflexivity.
Qed.
Theorem cancelling_terms_disappear_in_differences_and_commutators :
  (forall (o o' : Cop), nozero C C0 o -> nozero C C0 (c_isub o o')) /\ (forall (a b : Cop), nozero C C0 (c_comm a b)).
Proof.
  split; intros.
  - apply isub_nozero; auto. intros; apply Cadd_0_l.
  - apply commutator_nozero. intros; apply Cadd_0_l.
Qed.
Print Assumptions operator_commutator_is_matrix_commutator.

Example c05_example :
  pprod pauli_products_map [(0%nat, PX); (2%nat, PZ)] [(2%nat, PX); (0%nat, PY); (5%nat, PY)]
  = ([(0%nat, PZ); (2%nat, PY); (5%nat, PY)], zw_opp zw1).
Proof. vm_compute. reflexivity. Qed.

(* Hermitian conjugate: the operator with conjugated coefficients is the adjoint - <O^dagger f, g> = <f, O g> for all states,
   with the inner product of any register Q (distinct qubits) containing the qubits of every label *)
Theorem hermitian_conjugate_is_the_adjoint :
  forall (K : Type) (phi : K -> C) (kconj : K -> K), (forall x, phi (kconj x) = Cconj (phi x)) ->
  forall Q (o : op K), NoDup Q -> wf_op K o -> Forall (fun lc => incl (keys (fst lc)) Q) o ->
  forall f g b0, ip Q (osem K phi (odag K kconj o) f) g b0 = ip Q f (osem K phi o g) b0.
Proof. exact odag_is_the_adjoint. Qed.
Print Assumptions hermitian_conjugate_is_the_adjoint.

(* non-vacuity: coefficients in Z[w] with its conjugation; a two-term operator on the register [0; 1; 2] *)
Example hermitian_conjugate_example :
  (forall x, zw_eval (zw_conj x) = Cconj (zw_eval x))
  /\ odag Zw zw_conj [([(0%nat, PX); (2%nat, PY)], zwi); ([(1%nat, PZ)], zw1)]
     = [([(0%nat, PX); (2%nat, PY)], zw_opp zwi); ([(1%nat, PZ)], zw1)].
Proof. split; [exact zw_eval_conj|vm_compute; reflexivity]. Qed.

(* matrix export (get_sparse_matrix): the list of one-qubit matrices with the Pauli of qubit `bit` at position n - bit - 1,
   reduced with scipy's kron, and the coefficient-weighted sum over the terms.  Entry (i, j) is the matrix element of the
   denoted operator between the basis states i and j (qubit q = bit q of the index) - every register size n >= 1, every
   operator whose labels act on distinct qubits < n, all indices; over any coefficient ring with an image in C *)
Theorem matrix_export_is_the_denotation :
  forall (K : Type) (k0 k1 ki : K) (kopp : K -> K) (kadd kmul : K -> K -> K) (phi : K -> C),
  phi k0 = C0 -> phi k1 = C1 -> phi ki = Ci -> (forall x, phi (kopp x) = Copp (phi x)) ->
  (forall x y, phi (kadd x y) = Cadd (phi x) (phi y)) -> (forall x y, phi (kmul x y) = Cmul (phi x) (phi y)) ->
  forall n (o : op K), 1 <= n -> wf_op K o -> Forall (fun lc => forall q, In q (keys (fst lc)) -> q < n) o ->
  exists A, export_op K k0 k1 ki kopp kadd kmul n o = Some A
    /\ forall i j, phi (A i j) = osem K phi o (ket n j) (fun q => bitN i q).
Proof. exact export_operator_is_matrix_element. Qed.
Print Assumptions matrix_export_is_the_denotation.

Theorem label_export_is_the_denotation :
  forall (K : Type) (k0 k1 ki : K) (kopp : K -> K) (kmul : K -> K -> K) (phi : K -> C),
  phi k0 = C0 -> phi k1 = C1 -> phi ki = Ci -> (forall x, phi (kopp x) = Copp (phi x)) ->
  (forall x y, phi (kmul x y) = Cmul (phi x) (phi y)) ->
  forall n l, 1 <= n -> NoDup (keys l) -> (forall q, In q (keys l) -> q < n) ->
  exists A, export_label K k0 k1 ki kopp kmul n l = Some A
    /\ forall i j, phi (A i j) = lsemL l (ket n j) (fun q => bitN i q).
Proof. exact export_label_is_matrix_element. Qed.

(* non-vacuity: Y on qubit 1 of a two-qubit register, entry (row 2, column 0) is i *)
Example export_example :
  match export_label Zw zw0 zw1 zwi zw_opp zw_mul 2 [(1%nat, PY)] with
  | Some A => A 2%N 0%N = zwi /\ A 0%N 2%N = zw_opp zwi /\ A 1%N 0%N = zw0
  | None => False
  end.
Proof. vm_compute. repeat split. Qed.

(* transition amplitudes (representation/__init__.py): with pauli_label_to_bsv's masks x, z and phase (-i)^#Y, the sum that
   transition_amp_comp_basis forms over the terms filed under x = m xor n - parity sign of z & m times coefficient times
   phase - is the matrix element <m| O |n> of the denoted operator: every register size, every operator whose labels act
   on distinct qubits of the register, all basis indices; over any coefficient ring with an image in C *)
Theorem transition_amplitude_is_the_matrix_element :
  forall (K : Type) (k0 k1 kmi : K) (kopp : K -> K) (kadd kmul : K -> K -> K) (phi : K -> C),
  phi k0 = C0 -> phi k1 = C1 -> phi kmi = Copp Ci -> (forall x, phi (kopp x) = Copp (phi x)) ->
  (forall x y, phi (kadd x y) = Cadd (phi x) (phi y)) -> (forall x y, phi (kmul x y) = Cmul (phi x) (phi y)) ->
  forall n (o : list (label * K)) (m k : N),
  Forall (fun lc => in_reg n (fst lc)) o -> fits n m -> fits n k ->
  osem K phi o (ket n k) (bitN m) = phi (tamp K k0 k1 kmi kopp kadd kmul o m k).
Proof. intros K k0 k1 kmi kopp kadd kmul phi H0 H1 Hmi Ho Ha Hm. apply operator_transition_amp; assumption. Qed.
Print Assumptions transition_amplitude_is_the_matrix_element.

(* non-vacuity: <10| (2 Y1 + Z0 Z1) |00> = 2i and <11| Z0 Z1 |11> = 1 *)
Example transition_amp_example :
  let o := [([(1%nat, PY)], mkZw 2 0 0 0); ([(0%nat, PZ); (1%nat, PZ)], zw1)] in
  tamp Zw zw0 zw1 (zw_opp zwi) zw_opp zw_add zw_mul o 2%N 0%N = mkZw 0 0 2 0
  /\ tamp Zw zw0 zw1 (zw_opp zwi) zw_opp zw_add zw_mul o 3%N 3%N = zw1.
Proof. vm_compute. split; reflexivity. Qed.

(* string form (pauli.py: PauliLabel.__str__ and _parse_pauli_label_str, model LabelString.v at character level: the re.sub
   dropping white space after X / Y / Z, split(), the "I" form, ([XYZ])([0-9]+), int(), the duplicate test): the string form
   of every label - any number of factors on distinct qubits, indices of any size, in any listing order - parses back to
   exactly that label *)
Theorem string_form_round_trips :
  forall l : list (N * sp), NoDup (map fst l) -> LabelString.parse (LabelString.show l) = Some l.
Proof. exact parse_show. Qed.
Print Assumptions string_form_round_trips.

(* the intern table of PauliLabel.__new__ is keyed by the string form: two labels with the same key are the same label *)
Theorem string_form_separates_labels :
  forall l1 l2 : list (N * sp), NoDup (map fst l1) -> NoDup (map fst l2) ->
  LabelString.show l1 = LabelString.show l2 -> l1 = l2.
Proof. exact show_injective. Qed.
Print Assumptions string_form_separates_labels.

(* whatever the parser accepts is a label with one factor per qubit *)
Theorem parser_accepts_only_labels_on_distinct_qubits :
  forall s r, LabelString.parse s = Some r -> NoDup (map fst r).
Proof. exact parse_nodup. Qed.
Print Assumptions parser_accepts_only_labels_on_distinct_qubits.

(* non-vacuity: LabelString.string_form_examples (documented accepted / rejected forms, evaluated by vm_compute) *)

(* interning (PauliLabel.__new__, model Intern.v): the weak table is keyed by the string form; over every history of constructions
   and of entries vanishing from the weak table, every construction hands out a label with exactly the requested content *)
Theorem interning_by_string_form_returns_the_requested_label :
  forall (ops : list (Intern.op (list (N * sp)) String.string)) (t : Intern.table (list (N * sp)) String.string),
  Forall (Intern.op_ok _ _ (fun l => NoDup (map fst l))) ops ->
  Intern.keyed _ _ LabelString.show (fun l => NoDup (map fst l)) t ->
  Forall (fun lg => snd lg = fst lg) (fst (Intern.run _ _ LabelString.show String.eqb t ops)).
Proof.
  intros ops t Hops Ht.
  apply (Intern.injective_key_returns_the_requested_label _ _ LabelString.show String.eqb String.eqb_eq
           (fun l => NoDup (map fst l)) show_injective ops t Hops Ht).
Qed.
Print Assumptions interning_by_string_form_returns_the_requested_label.

(* whereas ANY key under which two labels collide (a hash, say) makes the second construction return the first label *)
Theorem interning_by_a_colliding_key_conflates_labels :
  forall (L K : Type) (key : L -> K) (keqb : K -> K -> bool), (forall a b, keqb a b = true <-> a = b) ->
  forall l1 l2, key l1 = key l2 ->
  fst (Intern.run L K key keqb [] [Intern.Construct L K l1; Intern.Construct L K l2]) = [(l1, l1); (l2, l1)].
Proof. exact Intern.colliding_key_conflates. Qed.
Print Assumptions interning_by_a_colliding_key_conflates_labels.

(* non-vacuity: X0 Y1, again X0 Y1, the entry vanishes, Z5: each construction returns what was asked for *)
Example interning_example :
  fst (Intern.run _ _ LabelString.show String.eqb []
         [Intern.Construct _ _ [(0%N, SX); (1%N, SY)]; Intern.Construct _ _ [(0%N, SX); (1%N, SY)];
          Intern.Vanish _ _ (LabelString.show [(0%N, SX); (1%N, SY)]); Intern.Construct _ _ [(5%N, SZ)]])
  = [([(0%N, SX); (1%N, SY)], [(0%N, SX); (1%N, SY)]); ([(0%N, SX); (1%N, SY)], [(0%N, SX); (1%N, SY)]);
     ([(5%N, SZ)], [(5%N, SZ)])].
Proof. vm_compute. reflexivity. Qed.

(* PauliLabel.__str__ sorts the factors by qubit index (model LabelSort.v: str_of = show after an insertion sort by index): the
   string form - the intern key - is the same for every order in which a constructor received the pairs, and it parses back to the
   same set of pairs *)
Theorem string_form_ignores_the_order_of_construction :
  forall l1 l2 : list (N * sp), Permutation.Permutation l1 l2 -> NoDup (map fst l1) -> str_of l1 = str_of l2.
Proof. exact string_form_ignores_listing_order. Qed.
Print Assumptions string_form_ignores_the_order_of_construction.

Theorem sorted_string_form_round_trips :
  forall l : list (N * sp), NoDup (map fst l) ->
  exists r, LabelString.parse (str_of l) = Some r /\ Permutation.Permutation r l.
Proof. exact string_form_parses_to_the_same_pairs. Qed.
Print Assumptions sorted_string_form_round_trips.

(* the second documented input form, "X 0 Y 1 Z 2" (white space between a letter and its index), parses to the same label *)
Theorem spaced_string_form_parses_to_the_label :
  forall l : list (N * sp), NoDup (map fst l) -> LabelString.parse (show_spaced l) = Some l.
Proof. exact parse_show_spaced. Qed.
Print Assumptions spaced_string_form_parses_to_the_label.
