(* C12, refutation theorems of the LISTED known findings (KNOWN_FINDINGS.txt): compiled as an optional file - when the
   defect is repaired in /repo these statements stop holding, which is not a violation. *)
From Coq Require Import ZArith List Bool Reals Lia Lra.
From QP Require Import Cx Apply Gates Rsem.
From QPM Require Import Transpile Inverse InvRefute.
From QPG Require Import invtab.
Import ListNotations.

(* the two rows listed as known findings are REFUTED, as theorems about the regenerated table: negating the
   angles of U2 / U3 in place is not the inverse (witnesses U2(0,0) and U3(pi, pi/2, 0)) *)
Theorem regenerated_u2_row_is_not_an_inverse : forall q,
  ~ (csem [rsem (mkC KU2 [q] [0%R; 0%R]); rsem (inverse_gate inverse_table (mkC KU2 [q] [0%R; 0%R]))] ≃ csem []).
Proof.
  intros q. destruct (inv_lookup inverse_table KU2) as [ig|] eqn:E; [|vm_compute in E; discriminate].
  apply (negating_u2_angles_is_not_the_inverse inverse_table q ig E).
  vm_compute in E. injection E as <-. unfold inst, theta_of, ang_eval. cbn. f_equal. f_equal; [|f_equal]; lra.
Qed.
Theorem regenerated_u3_row_is_not_an_inverse : forall q,
  ~ (csem [rsem (mkC KU3 [q] [PI; (PI / 2)%R; 0%R]); rsem (inverse_gate inverse_table (mkC KU3 [q] [PI; (PI / 2)%R; 0%R]))] ≃ csem []).
Proof.
  intros q. destruct (inv_lookup inverse_table KU3) as [ig|] eqn:E; [|vm_compute in E; discriminate].
  apply (negating_u3_angles_is_not_the_inverse inverse_table q ig E).
  vm_compute in E. injection E as <-. unfold inst, theta_of, ang_eval. cbn. f_equal. f_equal; [|f_equal; [|f_equal]]; lra.
Qed.
Print Assumptions regenerated_u3_row_is_not_an_inverse.

