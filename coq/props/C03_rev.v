(* C03 (continued): the tket adapter in both directions and the reverse converters of Braket, Qiskit and Cirq, for the
   named (non-matrix) gates.  Generated tables: QPG.tketconv, tketrev, braketrev, qiskitrev, cirqrev. *)
From Coq Require Import ZArith List Bool Reals.
From QP Require Import Cx Apply Local Gates Rsem.
From QPM Require Import Transpile.
From QPM Require Import AngleRecovery.
From QPG Require Import tketconv tketrev braketrev qiskitrev cirqrev qulacsrev.
Import ListNotations.

(* ------------------------------------------------------------------ tket adapter (forward direction) *)
(* tket_conv: convert_circuit / convert_gate evaluated symbolically for every modelled kind; tket's OpTypes are read through
   the contract (half-turn angles: the converter's `/ pi` and the contract's `* pi` must cancel, which the translator
   checks symbolically), the literal SqrtY / SqrtYdag matrices entry by entry *)
Definition tket_row_ok (e : gkind * tket_gate) : bool :=
  let '(k, g) := e in
  match g with
  | TLib g' => tmpl_check (seq 0 (arity k)) [g'] (canon k) && gate_ok g' && gate_ok (canon k)
  | TMatrix m => check_equiv (seq 0 (arity k)) [m] (eg (canon k)) && gate_ok (canon k)
  end.

Theorem tket_conv_rows_ok : forallb tket_row_ok tket_conv = true.
Proof. vm_compute. reflexivity. Qed.

Theorem tket_conv_total_or_rejected :
  forallb (fun k => existsb (fun e => gkind_eqb k (fst e)) tket_conv || existsb (gkind_eqb k) tket_rejected) all_kinds = true.
Proof. vm_compute. reflexivity. Qed.

Theorem tket_convert_circuit_gate_sound :
  forall k g, In (k, g) tket_conv ->
  forall theta pi, (forall a b : nat, pi a = pi b -> a = b) ->
  match g with
  | TLib g' => lsem (rsem (inst theta pi g'))
  | TMatrix m => lsem (sgate (rho_of theta) pi m)
  end ≃ lsem (rsem (inst theta pi (canon k))).
Proof.
  intros k g Hin theta pi Hpi.
  pose proof tket_conv_rows_ok as H. rewrite forallb_forall in H. specialize (H _ Hin). cbn in H.
  destruct g as [g'|m].
  - apply andb_true_iff in H as [H H3]. apply andb_true_iff in H as [H1 H2].
    pose proof (tmpl_sound theta pi Hpi (seq 0 (arity k)) [g'] (canon k) H1) as T.
    cbn in T. rewrite H2 in T. exact (T eq_refl H3).
  - apply andb_true_iff in H as [H1 H3].
    pose proof (local_sound (rho_of theta) (rho_of_unit theta) pi Hpi (seq 0 (arity k)) [m] (eg (canon k)) H1) as L.
    eapply opequiv_trans; [exact L|]. apply opequiv_sym, rsem_unit; assumption.
Qed.
Print Assumptions tket_convert_circuit_gate_sound.


(* ------------------------------------------------------------------ reverse converters (backend gate -> library gate) *)
(* every row is (the backend gate read through the contract, with the angles a branch of the converter fixes; the library
   gate the converter returns in that branch).  gate_from_braket's U branches: theta = 0 and phi = 0 -> U1(lambda),
   theta = pi/2 -> U2(phi, lambda); circuit_from_tket hands over pi x the half-turn parameters. *)
Definition rev_ok (e : gate * gate) : bool :=
  let '(src, dst) := e in
  tmpl_check (seq 0 (arity (gk src))) [dst] src && gate_ok dst && gate_ok src.

Theorem braket_rev_rows_ok : forallb rev_ok braket_rev = true.
Proof. vm_compute. reflexivity. Qed.
Theorem qiskit_rev_rows_ok : forallb rev_ok qiskit_rev = true.
Proof. vm_compute. reflexivity. Qed.
Theorem cirq_rev_rows_ok : forallb rev_ok cirq_rev = true.
Proof. vm_compute. reflexivity. Qed.
Theorem tket_rev_rows_ok : forallb rev_ok tket_rev = true.
Proof. vm_compute. reflexivity. Qed.
Theorem qulacs_rev_rows_ok : forallb rev_ok qulacs_rev = true.
Proof. vm_compute. reflexivity. Qed.

(* the library gate returned acts as the backend gate it came from, up to a global phase: all real angles meeting the
   branch condition, all placements *)
Theorem reverse_converted_gate_sound :
  forall src dst, In (src, dst) (braket_rev ++ qiskit_rev ++ cirq_rev ++ tket_rev ++ qulacs_rev) ->
  forall theta pi, (forall a b : nat, pi a = pi b -> a = b) ->
  lsem (rsem (inst theta pi dst)) ≃ lsem (rsem (inst theta pi src)).
Proof.
  intros src dst Hin theta pi Hpi.
  assert (H : rev_ok (src, dst) = true).
  { pose proof braket_rev_rows_ok as Hb. pose proof qiskit_rev_rows_ok as Hq. pose proof cirq_rev_rows_ok as Hc.
    pose proof tket_rev_rows_ok as Ht. pose proof qulacs_rev_rows_ok as Hu.
    rewrite forallb_forall in Hb, Hq, Hc, Ht, Hu.
    apply in_app_or in Hin. destruct Hin as [Hin|Hin]; [apply Hb, Hin|].
    apply in_app_or in Hin. destruct Hin as [Hin|Hin]; [apply Hq, Hin|].
    apply in_app_or in Hin. destruct Hin as [Hin|Hin]; [apply Hc, Hin|].
    apply in_app_or in Hin. destruct Hin as [Hin|Hin]; [apply Ht, Hin|apply Hu, Hin]. }
  cbn in H. apply andb_true_iff in H as [H H3]. apply andb_true_iff in H as [H1 H2].
  pose proof (tmpl_sound theta pi Hpi (seq 0 (arity (gk src))) [dst] src H1) as T.
  simpl in T. rewrite H2 in T. exact (T eq_refl H3).
Qed.
Print Assumptions reverse_converted_gate_sound.


(* ------------------------------------------------------------------ circuit_from_qulacs: rotation angles recovered from matrices *)
(* qulacs_rec: for each Qulacs rotation gate the angle expression of the converter (entries of gate.get_matrix(), complex
   arithmetic, cmath.phase) translated from /repo.  For every function `phase` meeting the documented contract of cmath.phase
   (AngleRecovery.phase_contract; satisfiable: arg_meets_the_contract) and every real angle t: the rotation built from the
   angle recovered from the matrix of the rotation by t acts as that rotation (exactly for X and Y, up to the sign -1 for Z
   when phase answers on the other branch). *)
Ltac rec_expr := unfold ent, rmat, m2C, Cexp, Csub, Cadd, Cmul, Copp, RtoC; apply C_eq; simpl; try ring; try field.
Ltac solve_rec Hp :=
  first [ apply rot_equal_action; apply rx_recovered; [exact Hp | rec_expr]
        | apply rot_equal_action; apply ry_recovered; [exact Hp | rec_expr]
        | match goal with |- lsem (rsem (mkC _ _ [?ph ?z])) ≃ lsem (rsem (mkC _ _ [?t])) =>
            let H := fresh in
            destruct (rz_recovered ph Hp z t) as [s [Hs H]];
            [ unfold ent, rmat, m2C; simpl; rewrite Cdiv_exp; f_equal; field
            | exact (rot_signed_action _ _ _ _ s Hs H) ] end ].

Theorem qulacs_rotation_angle_recovered :
  forall ks kd f, In (ks, kd, f) qulacs_rec ->
  forall phase, phase_contract phase -> forall t q,
  lsem (rsem (mkC kd [q] [f phase (rmat ks [t])])) ≃ lsem (rsem (mkC ks [q] [t])).
Proof.
  intros ks kd f Hin phase Hp t q. unfold qulacs_rec in Hin.
  repeat (destruct Hin as [E|Hin]; [inversion E; subst; clear E; solve_rec Hp|]).
  destruct Hin.
Qed.
Print Assumptions qulacs_rotation_angle_recovered.

(* all three rotations are handled *)
Theorem qulacs_rec_covers_the_rotations :
  forallb (fun k => existsb (fun e => gkind_eqb k (fst (fst e))) qulacs_rec) [KRX; KRY; KRZ] = true.
Proof. vm_compute. reflexivity. Qed.
