(* C16 - Computational-basis state calculus matches the state vector. *)
From Coq Require Import ZArith NArith List Bool.
From QP Require Import Cx Apply.
From QPM Require Import Pauli CompBasis.
Import ListNotations.

(* one Pauli gate: i^phase' |bits'> = sigma_index (i^phase |bits>), every qubit count, every
   bit pattern, every accumulated phase *)
Theorem single_pauli_bookkeeping_exact :
  forall s p i s', add_single_pauli s p i = Some s' ->
  forall b, lsem (psem (i, p)) (vec s) b = vec s' b.
Proof. exact add_single_pauli_sound. Qed.
Print Assumptions single_pauli_bookkeeping_exact.

(* any sequence of X/Y/Z gates and (expanded) multi-qubit Pauli gates *)
Theorem pauli_sequence_bookkeeping_exact :
  forall ps s s', add_paulis s ps = Some s' ->
  forall b, csem (map psem ps) (vec s) b = vec s' b.
Proof. exact add_paulis_sound. Qed.
Print Assumptions pauli_sequence_bookkeeping_exact.

Theorem out_of_range_index_rejected :
  forall n bits ph p i, (n <= i)%nat -> add_single_pauli (n, bits, ph) p i = None.
Proof. exact add_single_pauli_rejects. Qed.

(* deriving a state never changes the original: the model is a pure function on tuples *)
Example c16_example :
  add_paulis (3%nat, 5%N, 0%Z) [(0%nat, PY); (1%nat, PX); (2%nat, PZ); (0%nat, PY)]
  = Some (3%nat, 7%N, 2%Z).
Proof. vm_compute. reflexivity. Qed.
