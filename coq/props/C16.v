(* C16 - Computational-basis state calculus matches the state vector. *)
From Coq Require Import ZArith NArith List Bool Reals.
From QP Require Import Cx Apply.
From QPM Require Import Pauli CompBasis SuperPos PrepCircuit SuperPosFull.
Import ListNotations.

(* one Pauli gate: i^phase' |bits'> = sigma_index (i^phase |bits>), every qubit count, every
   bit pattern, every accumulated phase *)
Theorem single_pauli_bookkeeping_exact :
  forall s p i s', add_single_pauli s p i = Some s' ->
  forall b, lsem (psem (i, p)) (vec s) b = vec s' b.
Proof. exact add_single_pauli_sound. Qed.
Print Assumptions single_pauli_bookkeeping_exact.

(* any sequence of X/Y/Z gates and (expanded) multi-qubit Pauli gates *)
Theorem pauli_sequence_bookkeeping_exact :
  forall ps s s', add_paulis s ps = Some s' ->
  forall b, csem (map psem ps) (vec s) b = vec s' b.
Proof. exact add_paulis_sound. Qed.
Print Assumptions pauli_sequence_bookkeeping_exact.

Theorem out_of_range_index_rejected :
  forall n bits ph p i, (n <= i)%nat -> add_single_pauli (n, bits, ph) p i = None.
Proof. exact add_single_pauli_rejects. Qed.

(* deriving a state never changes the original: the model is a pure function on tuples *)
(* comp_basis_superposition: after the X gates that prepare |x>, the X..X rotation on the differing qubits and the RZ
   on the lowest differing qubit prepare cos(theta)|x> + e^{i phi} sin(theta)|y> up to a global phase - registers of any
   size, all x <> y, all theta and phi; the lowest set bit of x xor y is a differing qubit *)
Theorem superposition_builder_prepares_the_superposition : forall n (x m : Asum.Basis) d theta phi,
  (d < n)%nat -> m d = true ->
  let y := flip m x in
  let sign := if y d then 1%R else (-1)%R in
  let alpha := (2 * sign * (phi / 2 - PI / 4))%R in
  exists c, Cunit c /\ forall b,
    rzq d alpha (xrot m theta (ket n x)) b
    = Cmul c (Cadd (Cmul (RtoC (cos theta)) (ket n x b)) (Cmul (Cmul (Cexp phi) (RtoC (sin theta))) (ket n y b))).
Proof. exact superposition_circuit_prepares_the_superposition. Qed.
Theorem lowest_differing_bit_differs : forall x y d, lowbit (N.lxor x y) = Some d ->
  N.testbit x (N.of_nat d) <> N.testbit y (N.of_nat d).
Proof. exact lowbit_is_a_differing_bit. Qed.
Print Assumptions superposition_builder_prepares_the_superposition.

(* ComputationalBasisState.circuit - an X gate on every set bit below n_qubits (prep_idx, run against the real
   property by corr_C16.py) - prepares the basis vector: every register size, every bit pattern *)
Theorem preparation_circuit_prepares_the_basis_vector :
  forall n bits b, csem (prep n bits) (CompBasis.ket n 0%N) b = CompBasis.ket n bits b.
Proof. exact prep_prepares. Qed.
Print Assumptions preparation_circuit_prepares_the_basis_vector.

(* chains mixing Pauli and non-Pauli gates: the general state over circuit + gates that with_gates_applied returns is,
   times the tracked phase, the gates applied to the vector i^phase |bits> of the basis state it was derived from -
   any gates, any register, any bits and phase (so Pauli prefixes absorbed by the bookkeeping compose with it through
   pauli_sequence_bookkeeping_exact) *)
Theorem mixed_chain_state_is_the_gates_applied_to_the_tracked_vector :
  forall n bits ph (gs : list lgate) b,
  Cmul (CompBasis.ipow ph) (csem (prep n bits ++ gs) (CompBasis.ket n 0%N) b) = csem gs (CompBasis.vec (n, bits, ph)) b.
Proof. exact mixed_chain_state. Qed.
Print Assumptions mixed_chain_state_is_the_gates_applied_to_the_tracked_vector.

(* the whole circuit of comp_basis_superposition, from |0...0>: the preparation circuit of state a, the X..X rotation on the
   qubits where the bit patterns differ, the RZ on the lowest differing qubit - bit patterns as the integers the code uses,
   every register size, all x <> y whose lowest differing qubit lies in the register, all theta and phi *)
Theorem superposition_builder_from_the_zero_state : forall n (x y : N) d theta phi,
  (d < n)%nat -> lowbit (N.lxor x y) = Some d ->
  let m := basis_of (N.lxor x y) in
  let sign := if N.testbit y (N.of_nat d) then 1%R else (-1)%R in
  let alpha := (2 * sign * (phi / 2 - PI / 4))%R in
  exists c, Cunit c /\ forall b,
    rzq d alpha (xrot m theta (csem (prep n x) (CompBasis.ket n 0%N))) b
    = Cmul c (Cadd (Cmul (RtoC (cos theta)) (CompBasis.ket n x b)) (Cmul (Cmul (Cexp phi) (RtoC (sin theta))) (CompBasis.ket n y b))).
Proof. exact superposition_from_the_zero_state. Qed.
Print Assumptions superposition_builder_from_the_zero_state.

Example c16_example :
  add_paulis (3%nat, 5%N, 0%Z) [(0%nat, PY); (1%nat, PX); (2%nat, PZ); (0%nat, PY)]
  = Some (3%nat, 7%N, 2%Z).
Proof. vm_compute. reflexivity. Qed.
