(* C20 - Frozen, bound and derived objects are unaffected by later mutation.
   Model: coq/model/Alias.v (names -> objects -> shared gate storage; Rust is_immutable flag and the Python
   linear-mapped wrappers), coq/model/Estimate.v (content-keyed caches). *)
From Coq Require Import List Arith Bool.
From QPM Require Import Alias Estimate.
Import ListNotations.

(* the ownership invariant holds after every history of the repaired semantics *)
Theorem every_history_keeps_the_ownership_invariant : forall h, Inv (run false h).
Proof. exact reachable_repaired_inv. Qed.

(* independence: no operation changes what any name other than its receiver shows (gates - hence depth,
   equality and hash - and parameter mapping): frozen circuits, mutable copies, combined circuits, primitive
   circuits and states derived from a circuit are independent values, after any history *)
Theorem derived_objects_are_independent_values : forall h o k,
  k < length (names (run false h)) -> receiver o <> Some k ->
  obs (step false (run false h) o) k = obs (run false h) k.
Proof. intros h o k Hk Hr. apply step_only_affects_receiver; auto. apply reachable_repaired_inv. Qed.

(* the code (faithful semantics) behaves like that on every history that never takes get_mutable_copy or + of a
   flagged plain circuit and never calls ImmutableQuantumCircuit(.) on a mutable circuit *)
Theorem real_code_independent_on_safe_histories : forall h o k,
  safe_from s0 (h ++ [o]) = true -> k < length (names (run true h)) -> receiver o <> Some k ->
  obs (run true (h ++ [o])) k = obs (run true h) k.
Proof. exact safe_history_only_affects_receiver. Qed.

(* ... and does violate the property outside: the two recorded Rust-side findings, as theorems about the
   faithful model (the witnesses are replayed on the implementation by the correspondence check) *)
Theorem flagged_mutable_copy_refutes_independence :
  let h := [New false; Freeze 0; Copy 1; Freeze 2] in
  obs (run true (h ++ [Add 2 7])) 3 <> obs (run true h) 3.
Proof. exact faithful_semantics_refuted_by_flagged_copy. Qed.
Theorem immutable_constructor_refutes_independence :
  let h := [New false; Ctor 0] in
  obs (run true (h ++ [Add 0 7])) 1 <> obs (run true h) 1.
Proof. exact faithful_semantics_refuted_by_constructor. Qed.

(* content-keyed caches return the result for the content that was asked for, after any history of lookups
   (the key is a snapshot of the content, so later mutation of the key object cannot reach the cache) *)
Theorem content_keyed_cache_returns_requested_content :
  forall (K B : Type) (keqb : K -> K -> bool), (forall a b, keqb a b = true <-> a = b) ->
  forall (build : K -> B) (history : list K) (k : K),
  fst (convert K B keqb build (fold_left (fun c k' => snd (convert K B keqb build c k')) history []) k) = build k.
Proof. intros. apply cache_returns_requested_content; auto. Qed.
Print Assumptions derived_objects_are_independent_values.
Print Assumptions real_code_independent_on_safe_histories.
Print Assumptions content_keyed_cache_returns_requested_content.

(* non-vacuity: a linear-mapped circuit, its frozen copy and its primitive circuit; mutating the source *)
Example c20_example :
  let h := [New true; AddP 0 3; Freeze 0; Prim 0] in
  safe_from s0 (h ++ [AddP 0 5]) = true /\
  obs (run true (h ++ [AddP 0 5])) 0 = ([100; 100], [3; 5]) /\
  obs (run true (h ++ [AddP 0 5])) 1 = ([100], [3]) /\ obs (run true (h ++ [AddP 0 5])) 2 = ([100], []).
Proof. vm_compute. repeat split. Qed.
