(* C01 - Transpilation preserves the action of the circuit.
   The template definitions come from QPG.templates, regenerated from /repo on every run. *)
From Coq Require Import List Bool Reals Lia.
From QP Require Import Cx Apply Gates Rsem.
From QPM Require Import Transpile.
From QPG Require Import templates.
Import ListNotations.

(* every decomposition template found in the repository passes the exact matrix check *)
Theorem templates_all_ok : forallb tmpl_ok templates_all = true.
Proof. vm_compute. reflexivity. Qed.
Print Assumptions templates_all_ok.

(* hence every GateKindDecomposer pass preserves the unitary of every circuit up to a
   global phase: all circuit lengths, all real angles, all qubit placements *)
Theorem every_template_pass_sound :
  forall t, In t templates_all ->
  forall circ, Forall cgate_ok circ ->
  csem (map rsem (gkd_pass t circ)) ≃ csem (map rsem circ).
Proof.
  intros t Ht. apply gkd_pass_sound.
  pose proof templates_all_ok as H. rewrite forallb_forall in H. apply H, Ht.
Qed.
Print Assumptions every_template_pass_sound.

(* and so does every ParallelDecomposer assembled from them *)
Theorem parallel_decomposer_sound :
  forall ts, incl ts templates_all ->
  forall circ, Forall cgate_ok circ ->
  csem (map rsem (par_pass ts circ)) ≃ csem (map rsem circ).
Proof.
  intros ts Hts. apply par_pass_sound. apply forallb_forall. intros t Ht.
  pose proof templates_all_ok as H. rewrite forallb_forall in H. apply H, Hts, Ht.
Qed.
Print Assumptions parallel_decomposer_sound.

(* non-vacuity: the theorem's hypotheses are met by a concrete circuit *)
Example c01_nonvacuous :
  Forall cgate_ok [mkC KCNOT [3; 1]%nat []; mkC KRX [2]%nat [1%R]; mkC KTOFFOLI [0; 4; 2]%nat []].
Proof. repeat constructor; simpl; intuition (try discriminate; try lia). Qed.
