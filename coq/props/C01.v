(* C01 - Transpilation preserves the action of the circuit.
   The template definitions come from QPG.templates, regenerated from /repo on every run. *)
From Coq Require Import List Bool Reals Lia String ZArith.
From QP Require Import Cx Apply Gates Rsem.
From QPM Require Import Transpile Period Native Pauli PauliRot ZYZRebuild.
From QPG Require Import templates fusers native nativegen snaps.
From QP Require Import Local.
Import ListNotations.

(* every decomposition template found in the repository passes the exact matrix check *)
Theorem templates_all_ok : forallb tmpl_ok templates_all = true.
Proof. vm_compute. reflexivity. Qed.
Print Assumptions templates_all_ok.

(* hence every GateKindDecomposer pass preserves the unitary of every circuit up to a
   global phase: all circuit lengths, all real angles, all qubit placements *)
Theorem every_template_pass_sound :
  forall t, In t templates_all ->
  forall circ, Forall cgate_ok circ ->
  csem (map rsem (gkd_pass t circ)) ≃ csem (map rsem circ).
Proof.
  intros t Ht. apply gkd_pass_sound.
  pose proof templates_all_ok as H. rewrite forallb_forall in H. apply H, Ht.
Qed.
Print Assumptions every_template_pass_sound.

(* and so does every ParallelDecomposer assembled from them *)
Theorem parallel_decomposer_sound :
  forall ts, incl ts templates_all ->
  forall circ, Forall cgate_ok circ ->
  csem (map rsem (par_pass ts circ)) ≃ csem (map rsem circ).
Proof.
  intros ts Hts. apply par_pass_sound. apply forallb_forall. intros t Ht.
  pose proof templates_all_ok as H. rewrite forallb_forall in H. apply H, Hts, Ht.
Qed.
Print Assumptions parallel_decomposer_sound.

(* adjacent-gate fusers: the most general window accepted by is_target_sequence (regenerated from
   the source: gate names + index equalities) is equivalent to the gate list fuse() returns *)
Definition fuser_ok (f : nat * list gate * list gate) : bool :=
  let '(n, window, body) := f in
  check_equiv2 (seq 0 n) (map eg body) (map eg window) && forallb gate_ok body && forallb gate_ok window.

Theorem fusers_all_ok : forallb fuser_ok fusers_all = true.
Proof. vm_compute. reflexivity. Qed.

Theorem fused_window_sound :
  forall n window body, In (n, window, body) fusers_all ->
  forall theta pi, (forall a b : nat, pi a = pi b -> a = b) ->
  forall pre post,
  csem (pre ++ map (fun g => rsem (inst theta pi g)) body ++ post)
  ≃ csem (pre ++ map (fun g => rsem (inst theta pi g)) window ++ post).
Proof.
  intros n window body Hin theta pi Hpi pre post.
  pose proof fusers_all_ok as H. rewrite forallb_forall in H. specialize (H _ Hin). simpl in H.
  apply andb_true_iff in H as [H Hw]. apply andb_true_iff in H as [Hc Hb].
  apply csem_app_equiv; [apply opequiv_refl|].
  apply csem_app_equiv; [|apply opequiv_refl].
  apply (tmpl_sound2 theta pi Hpi (seq 0 n)); auto.
Qed.
Print Assumptions fused_window_sound.

(* CliffordConversionTranspiler: every candidate sequence of _equiv_clifford_table implements its key *)
Definition cliff_row_ok (row : gkind * list (list gkind)) : bool :=
  let '(key, cands) := row in
  forallb (fun cand => tmpl_check [0%nat] (map (fun k => mkG k [0%nat] []) cand) (mkG key [0%nat] [])
                       && forallb gate_ok (map (fun k => mkG k [0%nat] []) cand) && gate_ok (mkG key [0%nat] [])) cands.

Theorem clifford_table_ok : forallb cliff_row_ok clifford_table = true.
Proof. vm_compute. reflexivity. Qed.

Theorem clifford_candidate_sound :
  forall key cands cand, In (key, cands) clifford_table -> In cand cands ->
  forall q : nat,
  csem (map (fun k => rsem (mkC k [q] [])) cand) ≃ lsem (rsem (mkC key [q] [])).
Proof.
  intros key cands cand Hrow Hc q.
  pose proof clifford_table_ok as H. rewrite forallb_forall in H. specialize (H _ Hrow). simpl in H.
  rewrite forallb_forall in H. specialize (H _ Hc).
  apply andb_true_iff in H as [H H3]. apply andb_true_iff in H as [H1 H2].
  pose proof (tmpl_sound (fun _ => 0%R) (fun i => (q + i)%nat) ltac:(intros a b E; cbv beta in E; lia) [0%nat] _ _ H1 H2 H3) as T.
  rewrite map_map in T.
  assert (E1 : inst (fun _ : nat => 0%R) (fun i : nat => (q + i)%nat) (mkG key [0%nat] []) = mkC key [q] []).
  { unfold inst. simpl. rewrite Nat.add_0_r. reflexivity. }
  rewrite E1 in T.
  rewrite (map_ext _ (fun k => rsem (mkC k [q] []))) in T; [exact T|].
  intros k. unfold inst. simpl. rewrite Nat.add_0_r. reflexivity.
Qed.
Print Assumptions clifford_candidate_sound.


(* ------------------------------------------------------------------ native transpilers (Quantinuum, IonQ) *)
(* templates of quantinuum_native_transpiler.py and ionq_native_transpiler.py (RX2U1q, RY2U1q, H2U1qRZ, CNOT2U1qZZRZ,
   CZ2RZZZ, CNOT2RXRYXX), over the vocabulary extended by the documented native gates *)
Theorem native_templates_all_ok : forallb tmpl_ok native_all = true.
Proof. vm_compute. reflexivity. Qed.

Theorem every_native_template_pass_sound :
  forall t, In t native_all ->
  forall circ, Forall cgate_ok circ ->
  csem (map rsem (gkd_pass t circ)) ≃ csem (map rsem circ).
Proof.
  intros t Ht. apply gkd_pass_sound.
  pose proof native_templates_all_ok as H. rewrite forallb_forall in H. apply H, Ht.
Qed.

(* ParallelDecomposer over any mixture of core and native templates (the one inside QuantinuumSetTranspiler) *)
Theorem native_parallel_decomposer_sound :
  forall ts, incl ts (templates_all ++ native_all) ->
  forall circ, Forall cgate_ok circ ->
  csem (map rsem (par_pass ts circ)) ≃ csem (map rsem circ).
Proof.
  intros ts Hts. apply par_pass_sound. apply forallb_forall. intros t Ht.
  apply Hts, in_app_or in Ht. destruct Ht as [Ht|Ht].
  - pose proof templates_all_ok as H. rewrite forallb_forall in H. apply H, Ht.
  - pose proof native_templates_all_ok as H. rewrite forallb_forall in H. apply H, Ht.
Qed.
Print Assumptions native_parallel_decomposer_sound.

(* U1qNormalizeWithRZTranspiler: every branch of decompose implements U1q(theta, phi) under its branch condition.
   A branch is set aside only when it is listed as a known finding AND really fails the exact check. *)
Definition u1q_listed_bad (b : u1q_branch) : bool :=
  existsb (String.eqb (ub_name b)) u1q_known_bad && negb (ub_check 1 b).

Theorem u1q_branches_ok : forallb (fun b => u1q_listed_bad b || ub_check 1 b) u1q_branches = true.
Proof. vm_compute. reflexivity. Qed.

Theorem u1q_normalize_branch_sound :
  forall b, In b u1q_branches -> u1q_listed_bad b = false ->
  forall theta pi, (forall x y : nat, pi x = pi y -> x = y) ->
  match ub_snap b with Some k => theta 0%nat = (IZR k * (PI / 4))%R | None => True end ->
  csem (map (fun g => rsem (inst theta pi g)) (ub_body b)) ≃ lsem (rsem (inst theta pi (canon KU1q))).
Proof.
  intros b Hb Hl. apply u1q_branch_sound.
  pose proof u1q_branches_ok as H. rewrite forallb_forall in H. specialize (H b Hb). rewrite Hl in H. exact H.
Qed.
Print Assumptions u1q_normalize_branch_sound.

(* CNOTRZ2RZZTranspiler: the regenerated window and replacement are the ones the hand-modelled loop uses, the window
   identity holds exactly, hence the pass preserves every circuit *)
Theorem cnotrz2rzz_data :
  cnotrz2rzz_window = [mkG KCNOT [0; 1]%nat []; mkG KRZ [1%nat] [ang_var 0]; mkG KCNOT [0; 1]%nat []]
  /\ cnotrz2rzz_body = [mkG KRZZ [0; 1]%nat [ang_var 0]].
Proof. split; reflexivity. Qed.
Theorem cnotrz2rzz_window_ok : rzz_window_ok cnotrz2rzz_window cnotrz2rzz_body = true.
Proof. vm_compute. reflexivity. Qed.
Theorem cnotrz2rzz_pass_sound :
  forall xs : list (pg R), Forall (fun g => cgate_ok (to_c g)) xs ->
  csem (map (fun g => rsem (to_c g)) (rzz_pass xs)) ≃ csem (map (fun g => rsem (to_c g)) xs).
Proof.
  intros xs H. apply (rzz_pass_sound _ _ cnotrz2rzz_data cnotrz2rzz_window_ok (List.length xs) xs (le_n _) H).
Qed.
Print Assumptions cnotrz2rzz_pass_sound.

(* IonQNativeTranspiler: every branch of the loop satisfies  [frame; gate] = [emitted gates; updated frame]  exactly;
   gates without a branch are rejected; hence, whenever the transpiler returns, the input circuit equals the output
   followed by one RZ per qubit (the documented per-qubit phases) and the computational-basis statistics agree *)
Theorem ionq_rows_ok : forallb row_ok ionq_rows = true.
Proof. vm_compute. reflexivity. Qed.
Theorem ionq_unconvertible_gates_are_rejected : ionq_rejects_other_gates = true.
Proof. reflexivity. Qed.
Theorem ionq_native_equals_output_then_frame :
  forall dom, NoDup dom ->
  forall circ ph out ph', ionq_pass ionq_rows ph circ = Some (out, ph') -> Forall (c_ok dom) circ ->
  csem (floc ph dom ++ map rsem circ) ≃ csem (map rsem out ++ floc ph' dom).
Proof. intros dom Hd. exact (ionq_pass_sound ionq_rows ionq_rows_ok dom Hd). Qed.
Theorem ionq_native_preserves_measurement_statistics :
  forall dom, NoDup dom ->
  forall circ out ph', ionq_pass ionq_rows (fun _ => 0%R) circ = Some (out, ph') -> Forall (c_ok dom) circ ->
  forall psi b, Cnorm2 (csem (map rsem circ) psi b) = Cnorm2 (csem (map rsem out) psi b).
Proof. intros dom Hd. exact (ionq_measurement_preserved ionq_rows ionq_rows_ok dom Hd). Qed.
Print Assumptions ionq_native_preserves_measurement_statistics.

(* non-vacuity: a CNOT-like input of the IonQ pass is accepted by the regenerated rows *)
Example ionq_accepts_some :
  exists out ph', ionq_pass ionq_rows (fun _ => 0%R) [mkC KRZ [1%nat] [1%R]; mkC KI [0%nat] []] = Some (out, ph').
Proof. cbn. unfold ionq_step. cbn. eexists. eexists. reflexivity. Qed.


(* ------------------------------------------------------------------ Pauli-string decomposers (multi_pauli_decomposer.py) *)
(* PauliRotationDecomposeTranspiler.decompose (hand model PauliRot.prot_decompose, run against the code by vm_compute): for a
   Pauli string P of ANY length on distinct qubits and every angle, the returned H / RX(+-pi/2) / CNOT-ladder / RZ gates
   implement exp(-i theta/2 P) up to a global phase *)
Theorem pauli_rotation_decomposition_is_the_rotation :
  forall l theta, l <> [] -> NoDup (keys l) -> csem (map rsem (prot_decompose l theta)) ≃ prot theta l.
Proof. exact pauli_rotation_decomposition_sound. Qed.
Print Assumptions pauli_rotation_decomposition_is_the_rotation.

(* PauliDecomposeTranspiler.decompose: a Pauli gate is the list of its one-qubit factors *)
Theorem pauli_gate_decomposition_is_the_pauli_string :
  forall l, csem (map rsem (map to_c (pauli_decompose_g (P := R) l))) ≃ lsemL l.
Proof. exact pauli_gate_decomposition_sound. Qed.

(* ------------------------------------------------------------------ rotation snapping (RX/RY/RZ2NamedTranspiler, ZeroRotationElimination) *)
(* every branch `theta mod 2 pi close to K` of the regenerated if-chains returns named gates that implement the rotation at
   every angle congruent to K (the test |theta - K| < epsilon idealised to theta = K) *)
Definition snap_row_ok (r : string * gkind * Z * list gate) : bool :=
  let '(_, k, p, body) := r in
  is_rot k && tmpl_check [0%nat] body (mkG k [0%nat] [ang_pi4 p]) && forallb gate_ok body && gate_ok (mkG k [0%nat] [ang_pi4 p]).

Theorem snap_rows_ok : forallb snap_row_ok snap_rows = true.
Proof. vm_compute. reflexivity. Qed.

Theorem snapped_rotation_is_the_named_gates :
  forall c k p body, In (c, k, p, body) snap_rows ->
  forall (q : nat) (n : Z),
  csem (map (fun g => rsem (inst (fun _ => 0%R) (fun i => (q + i)%nat) g)) body)
  ≃ lsem (rsem (mkC k [q] [(IZR p * (PI / 4) + 2 * PI * IZR n)%R])).
Proof.
  intros c k p body Hin q n.
  pose proof snap_rows_ok as H. rewrite forallb_forall in H. specialize (H _ Hin). cbn in H.
  apply andb_true_iff in H as [H H3]. apply andb_true_iff in H as [H H2]. apply andb_true_iff in H as [Hk H1].
  eapply opequiv_trans; [|apply opequiv_sym, (rotation_angle_period k q _ n Hk)].
  pose proof (tmpl_sound (fun _ => 0%R) (fun i => (q + i)%nat) ltac:(intros a b E; cbv beta in E; lia) [0%nat] _ _ H1 H2 H3) as T.
  replace (inst (fun _ : nat => 0%R) (fun i : nat => (q + i)%nat) (mkG k [0%nat] [ang_pi4 p])) with (mkC k [q] [(IZR p * (PI / 4))%R]) in T; [exact T|].
  unfold inst. cbn. rewrite Nat.add_0_r. f_equal. f_equal. unfold ang_eval, ang_pi4. cbn. ring.
Qed.
Print Assumptions snapped_rotation_is_the_named_gates.

(* non-vacuity: the theorem's hypotheses are met by a concrete circuit *)
(* NormalizeRotationTranspiler: shifting the angle of RX / RY / RZ by any integer multiple of 2 pi - in particular
   reducing it into any cycle range [lower, lower + 2 pi) - changes the gate by a global sign only *)
Theorem rotation_normalisation_preserves_action : forall k q lower theta, is_rot k = true ->
  lsem (rsem (mkC k [q] [normalize lower theta])) ≃ lsem (rsem (mkC k [q] [theta])).
Proof. exact normalize_rotation_preserves_action. Qed.
Theorem rotation_normalisation_lands_in_the_cycle_range : forall lower theta,
  (lower <= normalize lower theta < lower + 2 * PI)%R.
Proof. exact normalized_angle_in_range. Qed.
Print Assumptions rotation_normalisation_preserves_action.

(* SingleQubitUnitaryMatrix2RYRZTranspiler (fix 835fc47) hands su2_decompose the stored first row (a, b) and the second row
   rebuilt from it and the unit determinant factor D: whatever the (possibly meaningless) phases of small entries are, that
   matrix is unitary with determinant D - its entries are consistent, which the angle formulas need. (The formulas themselves -
   acos / log on floats - stay with the sweep, which includes matrices next to their branch thresholds.) *)
Theorem rebuilt_second_row_gives_a_consistent_unitary : forall a b D : C,
  (Cnorm2 a + Cnorm2 b = 1)%R -> Cnorm2 D = 1%R ->
  let '(c, d) := rebuilt_row a b D in
  Cadd (Cmul a (Cconj a)) (Cmul b (Cconj b)) = C1 /\ Cadd (Cmul c (Cconj c)) (Cmul d (Cconj d)) = C1 /\
  Cadd (Cmul a (Cconj c)) (Cmul b (Cconj d)) = C0 /\ Csub (Cmul a d) (Cmul b c) = D.
Proof. exact rebuilt_matrix_is_unitary. Qed.

Example c01_nonvacuous :
  Forall cgate_ok [mkC KCNOT [3; 1]%nat []; mkC KRX [2]%nat [1%R]; mkC KTOFFOLI [0; 4; 2]%nat []].
Proof. repeat constructor; simpl; intuition (try discriminate; try lia). Qed.
