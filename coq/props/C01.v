(* C01 - Transpilation preserves the action of the circuit.
   The template definitions come from QPG.templates, regenerated from /repo on every run. *)
From Coq Require Import List Bool Reals Lia.
From QP Require Import Cx Apply Gates Rsem.
From QPM Require Import Transpile Period.
From QPG Require Import templates fusers.
From QP Require Import Local.
Import ListNotations.

(* every decomposition template found in the repository passes the exact matrix check *)
Theorem templates_all_ok : forallb tmpl_ok templates_all = true.
Proof. vm_compute. reflexivity. Qed.
Print Assumptions templates_all_ok.

(* hence every GateKindDecomposer pass preserves the unitary of every circuit up to a
   global phase: all circuit lengths, all real angles, all qubit placements *)
Theorem every_template_pass_sound :
  forall t, In t templates_all ->
  forall circ, Forall cgate_ok circ ->
  csem (map rsem (gkd_pass t circ)) ≃ csem (map rsem circ).
Proof.
  intros t Ht. apply gkd_pass_sound.
  pose proof templates_all_ok as H. rewrite forallb_forall in H. apply H, Ht.
Qed.
Print Assumptions every_template_pass_sound.

(* and so does every ParallelDecomposer assembled from them *)
Theorem parallel_decomposer_sound :
  forall ts, incl ts templates_all ->
  forall circ, Forall cgate_ok circ ->
  csem (map rsem (par_pass ts circ)) ≃ csem (map rsem circ).
Proof.
  intros ts Hts. apply par_pass_sound. apply forallb_forall. intros t Ht.
  pose proof templates_all_ok as H. rewrite forallb_forall in H. apply H, Hts, Ht.
Qed.
Print Assumptions parallel_decomposer_sound.

(* adjacent-gate fusers: the most general window accepted by is_target_sequence (regenerated from
   the source: gate names + index equalities) is equivalent to the gate list fuse() returns *)
Definition fuser_ok (f : nat * list gate * list gate) : bool :=
  let '(n, window, body) := f in
  check_equiv2 (seq 0 n) (map eg body) (map eg window) && forallb gate_ok body && forallb gate_ok window.

Theorem fusers_all_ok : forallb fuser_ok fusers_all = true.
Proof. vm_compute. reflexivity. Qed.

Theorem fused_window_sound :
  forall n window body, In (n, window, body) fusers_all ->
  forall theta pi, (forall a b : nat, pi a = pi b -> a = b) ->
  forall pre post,
  csem (pre ++ map (fun g => rsem (inst theta pi g)) body ++ post)
  ≃ csem (pre ++ map (fun g => rsem (inst theta pi g)) window ++ post).
Proof.
  intros n window body Hin theta pi Hpi pre post.
  pose proof fusers_all_ok as H. rewrite forallb_forall in H. specialize (H _ Hin). simpl in H.
  apply andb_true_iff in H as [H Hw]. apply andb_true_iff in H as [Hc Hb].
  apply csem_app_equiv; [apply opequiv_refl|].
  apply csem_app_equiv; [|apply opequiv_refl].
  apply (tmpl_sound2 theta pi Hpi (seq 0 n)); auto.
Qed.
Print Assumptions fused_window_sound.

(* CliffordConversionTranspiler: every candidate sequence of _equiv_clifford_table implements its key *)
Definition cliff_row_ok (row : gkind * list (list gkind)) : bool :=
  let '(key, cands) := row in
  forallb (fun cand => tmpl_check [0%nat] (map (fun k => mkG k [0%nat] []) cand) (mkG key [0%nat] [])
                       && forallb gate_ok (map (fun k => mkG k [0%nat] []) cand) && gate_ok (mkG key [0%nat] [])) cands.

Theorem clifford_table_ok : forallb cliff_row_ok clifford_table = true.
Proof. vm_compute. reflexivity. Qed.

Theorem clifford_candidate_sound :
  forall key cands cand, In (key, cands) clifford_table -> In cand cands ->
  forall q : nat,
  csem (map (fun k => rsem (mkC k [q] [])) cand) ≃ lsem (rsem (mkC key [q] [])).
Proof.
  intros key cands cand Hrow Hc q.
  pose proof clifford_table_ok as H. rewrite forallb_forall in H. specialize (H _ Hrow). simpl in H.
  rewrite forallb_forall in H. specialize (H _ Hc).
  apply andb_true_iff in H as [H H3]. apply andb_true_iff in H as [H1 H2].
  pose proof (tmpl_sound (fun _ => 0%R) (fun i => (q + i)%nat) ltac:(intros a b E; cbv beta in E; lia) [0%nat] _ _ H1 H2 H3) as T.
  rewrite map_map in T.
  assert (E1 : inst (fun _ : nat => 0%R) (fun i : nat => (q + i)%nat) (mkG key [0%nat] []) = mkC key [q] []).
  { unfold inst. simpl. rewrite Nat.add_0_r. reflexivity. }
  rewrite E1 in T.
  rewrite (map_ext _ (fun k => rsem (mkC k [q] []))) in T; [exact T|].
  intros k. unfold inst. simpl. rewrite Nat.add_0_r. reflexivity.
Qed.
Print Assumptions clifford_candidate_sound.

(* non-vacuity: the theorem's hypotheses are met by a concrete circuit *)
(* NormalizeRotationTranspiler: shifting the angle of RX / RY / RZ by any integer multiple of 2 pi - in particular
   reducing it into any cycle range [lower, lower + 2 pi) - changes the gate by a global sign only *)
Theorem rotation_normalisation_preserves_action : forall k q lower theta, is_rot k = true ->
  lsem (rsem (mkC k [q] [normalize lower theta])) ≃ lsem (rsem (mkC k [q] [theta])).
Proof. exact normalize_rotation_preserves_action. Qed.
Theorem rotation_normalisation_lands_in_the_cycle_range : forall lower theta,
  (lower <= normalize lower theta < lower + 2 * PI)%R.
Proof. exact normalized_angle_in_range. Qed.
Print Assumptions rotation_normalisation_preserves_action.

Example c01_nonvacuous :
  Forall cgate_ok [mkC KCNOT [3; 1]%nat []; mkC KRX [2]%nat [1%R]; mkC KTOFFOLI [0; 4; 2]%nat []].
Proof. repeat constructor; simpl; intuition (try discriminate; try lia). Qed.
