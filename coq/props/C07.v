(* C07 - Pauli grouping and its measurement scheme are sound.
   meas_rot (the rotation gates per Pauli) comes from QPG.measrot, regenerated from /repo. *)
From Coq Require Import ZArith NArith List Bool Permutation Reals.
From QP Require Import Cx Apply Gates.
From QP Require Import Asum.
From QPM Require Import Pauli CompBasis Measure Grouping Reconstruct BitwiseGrouping Expect Estimate.
From QPG Require Import measrot.
Import ListNotations.

(* every rotation maps its Pauli to Z (V sigma = Z V) and commutes with Paulis on other qubits *)
Theorem measurement_rotations_ok : rot_ok meas_rot = true.
Proof. vm_compute. reflexivity. Qed.

(* for every qubit-wise commuting set with Pauli map m (any size, any qubit indices) and every
   member P: V P = Z_{supp P} V, i.e. V P V^dagger = Z on the support of P *)
Theorem measurement_circuit_maps_members_to_Z :
  forall m, NoDup (keys m) -> forall P, NoDup (keys P) -> sub_label P m ->
  csem (map psem P ++ V meas_rot m) = csem (V meas_rot m ++ map psem (zstring P)).
Proof. intros m Hm P HP Hs. exact (measurement_circuit_diagonalises meas_rot measurement_rotations_ok m Hm P HP Hs). Qed.
Print Assumptions measurement_circuit_maps_members_to_Z.

(* the bit trick (x1 & z2) ^ (z1 & x2) == 0 decides qubit-wise commutation, for labels on any
   qubit indices *)
Theorem bitwise_commute_test_is_qubitwise_commutation :
  forall l1 l2, NoDup (keys l1) -> NoDup (keys l2) ->
  (bsv_commute (bsv_x l1) (bsv_z l1) (bsv_x l2) (bsv_z l2) = true <-> qw_commute l1 l2).
Proof. exact bsv_commute_iff. Qed.
Print Assumptions bitwise_commute_test_is_qubitwise_commutation.

(* greedy insertion (sorted-injection grouping and the greedy part of bitwise grouping), for any
   number of labels in any order: the groups partition the input ... *)
Theorem groups_partition_the_labels :
  forall ls, Permutation (all_members (grouping ls)) ls.
Proof. exact grouping_partitions. Qed.

(* ... and the members of every group commute qubit-wise (the accumulated mask of a group decides
   commutation with all its members) *)
Theorem group_members_commute_qubitwise :
  forall ls, Forall (fun l => NoDup (keys l)) ls ->
  Forall (fun g => forall m1 m2, In m1 (members g) -> In m2 (members g) -> qw_commute m1 m2) (grouping ls).
Proof.
  intros ls H. pose proof (grouping_members_commute ls H) as G.
  rewrite Forall_forall in *. intros g Hg. destruct (G g Hg) as [_ [Hp _]]. exact Hp.
Qed.
Print Assumptions group_members_commute_qubitwise.

(* Z strings act diagonally on basis vectors with the parity sign the reconstructor returns *)
Theorem z_string_eigenvalue :
  forall i psi b, lsem (psem (i, PZ)) psi b = Cmul (if b i then Copp C1 else C1) (psi b).
Proof. exact Z_act. Qed.

(* ... and the reconstructor (parity of the outcome word on the support mask, for words and qubit
   indices of any size) is exactly the product of those per-qubit eigenvalues *)
Theorem reconstructor_is_product_of_z_eigenvalues :
  forall l bits, NoDup (keys l) ->
  reconstruct l bits
  = fold_right (fun ip a => ((if N.testbit bits (N.of_nat (fst ip)) then (-1) else 1) * a)%Z) 1%Z l.
Proof. exact reconstruct_is_eigenvalue_product. Qed.
Print Assumptions reconstructor_is_product_of_z_eigenvalues.

(* bitwise_pauli_grouping (identity / all-X / all-Y / all-Z special groups + greedy insertion of the rest) and
   individual_pauli_grouping: the groups partition the input and the members of each group commute qubit-wise *)
Theorem bitwise_grouping_partitions_the_labels : forall ls, Permutation (concat (bitwise_grouping ls)) ls.
Proof. exact bitwise_grouping_partitions. Qed.
Theorem bitwise_grouping_members_commute : forall ls, Forall (fun l => NoDup (keys l)) ls ->
  forall g, In g (bitwise_grouping ls) -> forall m1 m2, In m1 g -> In m2 g -> qw_commute m1 m2.
Proof. exact bitwise_groups_commute. Qed.
Theorem individual_grouping_partitions_the_labels : forall ls, concat (individual_grouping ls) = ls.
Proof. exact individual_grouping_partitions. Qed.
Print Assumptions bitwise_grouping_members_commute.

Example c07_example :
  map members (grouping [[(0%nat, PX); (1%nat, PY)]; [(0%nat, PZ)]; [(1%nat, PY); (2%nat, PZ)]; [(0%nat, PZ); (2%nat, PX)]])
  = [[[(0%nat, PX); (1%nat, PY)]; [(1%nat, PY); (2%nat, PZ)]]; [[(0%nat, PZ)]; [(0%nat, PZ); (2%nat, PX)]]].
Proof. vm_compute. reflexivity. Qed.

(* ------------------------------------------------------------------ from outcome statistics to expectation values *)
(* every rotation gate of the regenerated table is unitary (checked entry-wise in Z[w]) *)
Theorem measurement_rotations_are_unitary : forallb (fun p => forallb unitb (meas_rot p)) all_pauli = true.
Proof. vm_compute. reflexivity. Qed.

(* under the exact outcome distribution |<b|V psi>|^2 of the measured state, the mean of the eigenvalue
   (-1)^(number of set outcome bits on the support of P) - what the reconstructor returns - is <psi|P|psi>: for every member
   P of a qubit-wise commuting set, every state psi, registers Q of any size (ip Q is the inner product over the register) *)
Theorem exact_outcome_distribution_gives_the_expectation_value :
  forall m P Q psi b0, NoDup (keys m) -> NoDup (keys P) -> sub_label P m -> NoDup Q -> incl (keys m) Q ->
  asum Q (fun b => Cmul (zsign P b) (RtoC (Cnorm2 (csem (V meas_rot m) psi b)))) b0 = ip Q psi (lsemL P psi) b0.
Proof.
  intros. apply (exact_distribution_mean_is_expectation meas_rot measurement_rotations_ok measurement_rotations_are_unitary); assumption.
Qed.
Print Assumptions exact_outcome_distribution_gives_the_expectation_value.

(* the measurement circuit is an isometry: the outcome distribution of a normalised state sums to 1 *)
Theorem measured_state_keeps_its_norm :
  forall m Q psi b0, NoDup Q -> incl (keys m) Q ->
  ip Q (csem (V meas_rot m) psi) (csem (V meas_rot m) psi) b0 = ip Q psi psi b0.
Proof.
  intros m Q psi b0 HQ Hin. apply ip_iso; [exact HQ|].
  apply (V_iso meas_rot measurement_rotations_are_unitary Q m Hin).
Qed.

(* ... and that eigenvalue sign is exactly the value of the reconstructor on the outcome word *)
Theorem eigenvalue_sign_is_the_reconstructor_value :
  forall l bits, NoDup (keys l) -> zsign l (fun i => N.testbit bits (N.of_nat i)) = RtoC (IZR (reconstruct l bits)).
Proof. exact zsign_is_the_reconstructor_value. Qed.

(* CachedMeasurementFactory: the cache is keyed by the CONTENT of the operator (frozenset of (label, coefficient) pairs; a
   collection of labels is first made an operator with coefficients 1); a hit returns the stored groups, a miss calls the
   wrapped factory, stores and returns.  After any history of earlier calls the result for content k is factory(k) - the
   grouping and measurement theorems above therefore hold for the cached wrapper as well. *)
Theorem cached_measurement_factory_returns_the_factory_result :
  forall (K B : Type) (keqb : K -> K -> bool), (forall a b, keqb a b = true <-> a = b) ->
  forall (factory : K -> B) (history : list K) (k : K),
  fst (convert K B keqb factory (fold_left (fun c k' => snd (convert K B keqb factory c k')) history []) k) = factory k.
Proof. intros. apply cache_returns_requested_content; auto. Qed.
