(* C17 - Noise instructions describe physical channels.
   kraus_<F> and valid_<F> come from QPG.krausgen, regenerated from /repo. *)
From Coq Require Import Reals List Lra Nsatz.
From QPM Require Import Noise.
From QPG Require Import krausgen.
Import ListNotations.
Local Open Scope R_scope.

(* name every sqrt argument, record sqrt x * sqrt x = x (from 0 <= x), then ideal membership *)
Ltac sq_facts :=
  repeat match goal with
  | |- context [sqrt ?x] =>
      let s := fresh "s" in let Hs := fresh "Hs" in
      assert (Hs : sqrt x * sqrt x = x) by (apply sqrt_sqrt; lra);
      set (s := sqrt x) in *; clearbody s
  end.
Ltac kraus_tac :=
  unfold complete; simpl ktk;
  repeat rewrite Rmax_right by lra;
  sq_facts;
  repeat (apply f_equal2; try reflexivity); try nsatz.

Theorem reset_noise_complete : forall p0 p1, valid_ResetNoise p0 p1 -> complete (kraus_ResetNoise p0 p1).
Proof. unfold valid_ResetNoise, kraus_ResetNoise. intros p0 p1 H. kraus_tac. Qed.
Print Assumptions reset_noise_complete.

Theorem phase_damping_complete : forall r, valid_PhaseDampingNoise r -> complete (kraus_PhaseDampingNoise r).
Proof. unfold valid_PhaseDampingNoise, kraus_PhaseDampingNoise. intros r H. kraus_tac. Qed.

Theorem amplitude_damping_complete :
  forall r e, valid_AmplitudeDampingNoise r e -> complete (kraus_AmplitudeDampingNoise r e).
Proof. unfold valid_AmplitudeDampingNoise, kraus_AmplitudeDampingNoise. intros r e H. kraus_tac. Qed.

Theorem phase_amplitude_damping_complete :
  forall pr ar e, valid_PhaseAmplitudeDampingNoise pr ar e -> complete (kraus_PhaseAmplitudeDampingNoise pr ar e).
Proof. unfold valid_PhaseAmplitudeDampingNoise, kraus_PhaseAmplitudeDampingNoise. intros pr ar e H. kraus_tac. Qed.
Print Assumptions phase_amplitude_damping_complete.

(* the generated acceptance predicates are exactly the documented ranges (both directions, so an
   off-by-one or a dropped check changes the statement) *)
Theorem valid_ranges_as_documented :
  (forall p0 p1, valid_ResetNoise p0 p1 <-> (0 <= p0 <= 1 /\ 0 <= p1 <= 1 /\ p0 + p1 <= 1)) /\
  (forall r, valid_PhaseDampingNoise r <-> 0 <= r <= 1) /\
  (forall r e, valid_AmplitudeDampingNoise r e <-> (0 <= r <= 1 /\ 0 <= e <= 1)) /\
  (forall pr ar e, valid_PhaseAmplitudeDampingNoise pr ar e <->
                   (0 <= pr <= 1 /\ 0 <= ar <= 1 /\ pr + ar <= 1 /\ 0 <= e <= 1)) /\
  (forall p, valid_BitFlipNoise p <-> 0 <= p <= 1) /\
  (forall p, valid_PhaseFlipNoise p <-> 0 <= p <= 1) /\
  (forall p, valid_BitPhaseFlipNoise p <-> 0 <= p <= 1) /\
  (forall p, valid_DepolarizingNoise p <-> 0 <= p <= 1).
Proof.
  unfold valid_ResetNoise, valid_PhaseDampingNoise, valid_AmplitudeDampingNoise,
    valid_PhaseAmplitudeDampingNoise, valid_BitFlipNoise, valid_PhaseFlipNoise,
    valid_BitPhaseFlipNoise, valid_DepolarizingNoise.
  repeat split; intros; try lra; tauto.
Qed.

(* any complete Kraus set is trace preserving and keeps positive semidefinite matrices positive *)
Theorem complete_kraus_sets_are_cptp :
  forall l r, complete l -> tr (act l r) = tr r /\ (psd r -> psd (act l r)).
Proof. intros l r H. split; [apply complete_preserves_trace; auto | apply channel_preserves_psd]. Qed.
Print Assumptions complete_kraus_sets_are_cptp.

(* probabilistic mixtures: weights of the accepted parameters are non-negative and sum to one *)
Theorem flip_and_depolarizing_weights :
  forall p, valid_BitFlipNoise p -> mixture_ok [1 - p; p] /\ mixture_ok [1 - p; p / 3; p / 3; p / 3].
Proof. unfold valid_BitFlipNoise. intros p H. split; [apply flip_mixture | apply depolarizing_mixture]; auto. Qed.

(* thermal relaxation: the Choi matrix built by the factory is trace preserving and positive for
   every accepted (t1, t2, gate_time, excited_state_population) *)
Theorem thermal_relaxation_choi_physical :
  forall t1 t2 t esp, 0 < t1 -> 0 < t2 -> 0 <= t -> t2 <= 2 * t1 -> 0 <= esp <= 1 ->
  ((1 - p1 esp * p_reset t1 t) + p1 esp * p_reset t1 t = 1 /\ p0 esp * p_reset t1 t + (1 - p0 esp * p_reset t1 t) = 1) /\
  (0 <= p1 esp * p_reset t1 t /\ 0 <= p0 esp * p_reset t1 t /\ 0 <= 1 - p1 esp * p_reset t1 t /\
   0 <= 1 - p0 esp * p_reset t1 t /\
   exp_t2 t2 t * exp_t2 t2 t <= (1 - p1 esp * p_reset t1 t) * (1 - p0 esp * p_reset t1 t)).
Proof. intros. split; [apply thermal_choi_trace_preserving | apply thermal_choi_positive; auto]. Qed.

Example c17_nonvacuous : valid_ResetNoise (1/2) (1/2) /\ valid_PhaseAmplitudeDampingNoise (1/5) (4/5) 0.
Proof. unfold valid_ResetNoise, valid_PhaseAmplitudeDampingNoise. lra. Qed.
