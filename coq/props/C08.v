(* C08 - Sampling estimation is exact under ideal sampling and stays within budget. *)
From Coq Require Import List ZArith Reals.
From QPM Require Import Sampling SamplingMean.
Import ListNotations.

(* each group that received shots is evaluated from the counts of ITS OWN measurement circuit;
   zero-shot groups contribute nothing; for every number of groups and every allocation *)
Theorem each_group_uses_its_own_counts :
  forall (G Cnt Circ : Type) (shots : G -> Z) (circuit_of : G -> Circ) (sample : Circ * Z -> Cnt)
         (est : G -> Cnt -> R) (const : R) (ms : list G),
  sampling_estimate G Cnt Circ shots circuit_of sample est const ms
  = spec G Cnt Circ shots circuit_of sample est const ms.
Proof. exact sampling_estimate_pairs_each_group_with_its_own_counts. Qed.
Print Assumptions each_group_uses_its_own_counts.

Theorem one_sampling_request_per_funded_group :
  forall (G Circ : Type) (shots : G -> Z) (circuit_of : G -> Circ) (ms : list G),
  length (prep G Circ shots circuit_of ms) = length (filter (positive G shots) ms) /\
  Forall (fun p => (0 < snd p)%Z) (prep G Circ shots circuit_of ms).
Proof. exact one_request_per_positive_group. Qed.

(* budgets: never more than total_shots, never negative, always whole multiples of shot_unit,
   one allocation per group - for all totals, units, ratios *)
Theorem proportional_allocator_within_budget :
  forall u total ratios, (0 < u)%Z -> (0 <= total)%R -> Forall (fun r => (0 <= r)%R) ratios ->
  (rsum ratios <= 1)%R ->
  (IZR (zsum (proportional u total ratios)) <= total)%R /\
  Forall (fun n => (0 <= n)%Z /\ exists k, n = (u * k)%Z) (proportional u total ratios) /\
  length (proportional u total ratios) = length ratios.
Proof. exact proportional_budget. Qed.
Print Assumptions proportional_allocator_within_budget.

Theorem calc_ratios_sum_to_one :
  forall ws, (0 < rsum ws)%R -> rsum (map (fun w => (w / rsum ws)%R) ws) = 1%R.
Proof. exact ratios_sum. Qed.

Theorem equipartition_allocator_within_budget :
  forall u total n, (0 < u)%Z -> (0 <= total)%R -> (0 < n)%nat ->
  (IZR (zsum (equipartition u total n)) <= total)%R /\
  Forall (fun k => (0 <= k)%Z) (equipartition u total n) /\ length (equipartition u total n) = n.
Proof. exact equipartition_budget. Qed.

Theorem weighted_random_allocator_within_budget :
  forall (u total : Z) (draws : list Z),
  (0 < u)%Z -> (0 <= total)%Z -> Forall (fun d => (0 <= d)%Z) draws -> zsum draws = (total / u)%Z ->
  (zsum (map (Z.mul u) draws) <= total)%Z /\ Forall (fun n => (0 <= n)%Z) (map (Z.mul u) draws).
Proof. exact weighted_random_budget. Qed.

(* non-vacuity: three groups, the middle one unfunded; the estimate uses groups 0 and 2 with
   their own circuits' counts *)
Example c08_example :
  prep nat nat (fun g => if Nat.eqb g 1 then 0%Z else 7%Z) (fun g => (g + 100)%nat) [0%nat; 1%nat; 2%nat]
  = [(100%nat, 7%Z); (102%nat, 7%Z)].
Proof. reflexivity. Qed.


(* "exact under ideal sampling": when the counts of a group are exact outcome frequencies (count_b = N * p_b with
   sum p_b = 1, any N <> 0), general_pauli_sum_expectation_estimator returns the coefficient-weighted sum of the exact
   means  sum_b p_b * eigenvalue_P(b)  of the labels present in both the group and the coefficient map (1 for the
   identity label) - for any number of outcomes, labels and any coefficients *)
Theorem exact_frequencies_give_the_exact_group_expectation :
  forall (B L : Type) (recon : L -> B -> R) (is_id : L -> bool) (N : R) (pr : list (B * R)) (ps : list L)
         (coef : L -> option R),
  N <> 0%R -> ctotal R B 0%R Rplus pr = 1%R ->
  pauli_sum_expectation R B L 0%R 1%R Rplus Rmult Rdiv recon is_id (scale B N pr) ps coef
  = fold_right (fun p a => match coef p with Some c => exact_mean B L recon is_id pr p * c + a | None => a end)%R 0%R ps.
Proof. exact exact_frequencies_give_exact_group_expectation. Qed.
Print Assumptions exact_frequencies_give_the_exact_group_expectation.

(* a single-label estimate never leaves [-1, 1] (eigenvalues +-1, non-negative counts, at least one shot) *)
Theorem single_label_estimate_is_in_the_unit_interval :
  forall (B L : Type) (recon : L -> B -> R) (is_id : L -> bool) (cs : list (B * R)) (p : L),
  (forall b, -1 <= recon p b <= 1)%R -> Forall (fun bc => 0 <= snd bc)%R cs -> (0 < ctotal R B 0%R Rplus cs)%R ->
  (-1 <= pauli_expectation R B L 0%R 1%R Rplus Rmult Rdiv recon is_id cs p <= 1)%R.
Proof. exact estimate_within_unit_interval. Qed.

Example exact_frequencies_nonvacuous :
  ctotal R bool 0%R Rplus [(true, (1 / 4)%R); (false, (3 / 4)%R)] = 1%R /\ (1000 <> 0)%R.
Proof. split; [cbn; field|apply not_eq_sym, Rlt_not_eq; apply IZR_lt; reflexivity]. Qed.
