(* C08 - Sampling estimation is exact under ideal sampling and stays within budget. *)
From Coq Require Import List ZArith Reals.
From QPM Require Import Sampling.
Import ListNotations.

(* each group that received shots is evaluated from the counts of ITS OWN measurement circuit;
   zero-shot groups contribute nothing; for every number of groups and every allocation *)
Theorem each_group_uses_its_own_counts :
  forall (G Cnt Circ : Type) (shots : G -> Z) (circuit_of : G -> Circ) (sample : Circ * Z -> Cnt)
         (est : G -> Cnt -> R) (const : R) (ms : list G),
  sampling_estimate G Cnt Circ shots circuit_of sample est const ms
  = spec G Cnt Circ shots circuit_of sample est const ms.
Proof. exact sampling_estimate_pairs_each_group_with_its_own_counts. Qed.
Print Assumptions each_group_uses_its_own_counts.

Theorem one_sampling_request_per_funded_group :
  forall (G Circ : Type) (shots : G -> Z) (circuit_of : G -> Circ) (ms : list G),
  length (prep G Circ shots circuit_of ms) = length (filter (positive G shots) ms) /\
  Forall (fun p => (0 < snd p)%Z) (prep G Circ shots circuit_of ms).
Proof. exact one_request_per_positive_group. Qed.

(* budgets: never more than total_shots, never negative, always whole multiples of shot_unit,
   one allocation per group - for all totals, units, ratios *)
Theorem proportional_allocator_within_budget :
  forall u total ratios, (0 < u)%Z -> (0 <= total)%R -> Forall (fun r => (0 <= r)%R) ratios ->
  (rsum ratios <= 1)%R ->
  (IZR (zsum (proportional u total ratios)) <= total)%R /\
  Forall (fun n => (0 <= n)%Z /\ exists k, n = (u * k)%Z) (proportional u total ratios) /\
  length (proportional u total ratios) = length ratios.
Proof. exact proportional_budget. Qed.
Print Assumptions proportional_allocator_within_budget.

Theorem calc_ratios_sum_to_one :
  forall ws, (0 < rsum ws)%R -> rsum (map (fun w => (w / rsum ws)%R) ws) = 1%R.
Proof. exact ratios_sum. Qed.

Theorem equipartition_allocator_within_budget :
  forall u total n, (0 < u)%Z -> (0 <= total)%R -> (0 < n)%nat ->
  (IZR (zsum (equipartition u total n)) <= total)%R /\
  Forall (fun k => (0 <= k)%Z) (equipartition u total n) /\ length (equipartition u total n) = n.
Proof. exact equipartition_budget. Qed.

Theorem weighted_random_allocator_within_budget :
  forall (u total : Z) (draws : list Z),
  (0 < u)%Z -> (0 <= total)%Z -> Forall (fun d => (0 <= d)%Z) draws -> zsum draws = (total / u)%Z ->
  (zsum (map (Z.mul u) draws) <= total)%Z /\ Forall (fun n => (0 <= n)%Z) (map (Z.mul u) draws).
Proof. exact weighted_random_budget. Qed.

(* non-vacuity: three groups, the middle one unfunded; the estimate uses groups 0 and 2 with
   their own circuits' counts *)
Example c08_example :
  prep nat nat (fun g => if Nat.eqb g 1 then 0%Z else 7%Z) (fun g => (g + 100)%nat) [0%nat; 1%nat; 2%nat]
  = [(100%nat, 7%Z); (102%nat, 7%Z)].
Proof. reflexivity. Qed.
