(* C10 - Binding, mapping and transpiling parametric circuits commute.
   Models: coq/model/Parametric.v (one circuit), ParamHistory.v (histories over several live circuits),
   ParamSem.v (parametric transpilers and the action after binding); per-kind rewrite templates of the
   parametric transpilers are regenerated from /repo (QPG.ptemplates). *)
From Coq Require Import List Arith Bool Reals ZArith.
From QP Require Import Cx Asum FMat Apply Gates Rsem.
From QPM Require Import Transpile Parametric ParamHistory ParamSem.
From QPG Require Import ptemplates.
Import ListNotations.

(* obligations on the regenerated templates, by computation *)
Theorem parametric_rewrite_templates_ok :
  forallb ptmpl_ok ptmpls_ParametricRX2RZHTranspiler = true /\ forallb ptmpl_ok ptmpls_ParametricRY2RZHTranspiler = true.
Proof. split; vm_compute; reflexivity. Qed.

Section Histories.
Variable G K : Type.
Variables (kadd kmul : K -> K -> K) (k0 k1 : K).
Variable tr : nat -> list (rgate G K) -> list (rgate G K).
Hypothesis tr_closed : forall t ps items, closed G K ps items -> closed G K ps (tr t items).
Notation run ops := (fold_left (step G K tr) ops (w0 G K)).

(* every construction history (new, add_parameters, add_gate, add_Parametric*_gate, extend / +=, +,
   copies, parametric transpilers) refines the abstract level: the indirection through gate parameters and
   merged mappings never changes which affine function a gate carries *)
Theorem every_history_refines_the_abstract_circuits : forall ops,
  abs_w G K (run ops) = fold_left (sstep G K tr) ops (abs_w G K (w0 G K)).
Proof. intros ops. exact (proj1 (history_refines G K tr tr_closed ops)). Qed.

(* binding a reachable circuit at values p gives each parametric gate the value of its function at p *)
Theorem bind_evaluates_the_gate_functions : forall ops c vals, In c (wcs G K (run ops)) ->
  bind G K kadd kmul k0 k1 c vals
  = s_bind G K kadd kmul k0 k1 (env_of K k0 (ins G K c) vals) (abs G K c).
Proof.
  intros ops c vals Hin. apply bind_is_evaluation.
  exact (proj1 (proj2 (history_refines G K tr tr_closed ops) c Hin)).
Qed.

(* parameters are identities: the in-parameters of a reachable circuit are pairwise distinct, the i-th
   value is what the i-th parameter evaluates to, and every parametric gate has its own gate parameter *)
Theorem parameters_distinct_and_positional : forall ops c, In c (wcs G K (run ops)) ->
  NoDup (ins G K c) /\ NoDup (outs G K c) /\
  forall vals i, i < length (ins G K c) -> length vals = length (ins G K c) ->
    env_of K k0 (ins G K c) vals (nth i (ins G K c) 0) = nth i vals k0.
Proof.
  intros ops c Hin. destruct (proj2 (history_refines G K tr tr_closed ops) c Hin) as [Hc _].
  split; [exact (ci_ins G K c Hc)|]. split; [exact (ci_nodup G K c Hc)|].
  intros vals i Hi Hl. apply env_of_nth; auto. exact (ci_ins G K c Hc).
Qed.
End Histories.

(* combination identifies shared parameters and keeps distinct ones distinct: the combined circuit binds
   like its two parts under one assignment of the deduplicated parameter list *)
Theorem extend_binds_like_its_parts : forall (G K : Type) kadd kmul k0 k1 (c d e : sc G K) env,
  s_extend G K c d = Some e ->
  sins G K e = dedup (sins G K c ++ sins G K d) /\
  s_bind G K kadd kmul k0 k1 env e = s_bind G K kadd kmul k0 k1 env c ++ s_bind G K kadd kmul k0 k1 env d.
Proof.
  intros G K kadd kmul k0 k1 c d e env. unfold s_extend. destruct (Nat.eqb _ _); [|discriminate].
  intros [= <-]. split; [reflexivity|]. unfold s_bind. simpl. apply map_app.
Qed.

(* a parametric transpiler keeps the parameter list and order *)
Theorem transpile_preserves_parameter_list : forall (G K : Type) tr i t (w : sworld G K) c,
  nth_error (swcs G K w) i = Some c ->
  exists c', swcs G K (sstep G K tr w (OTranspile G K i t)) = swcs G K w ++ [c'] /\ sins G K c' = sins G K c
             /\ sgates G K c' = tr t (sgates G K c).
Proof. intros G K tr i t w c H. simpl. rewrite H. eexists. repeat split. Qed.

Section Bound.
Variable ppr_sem : list nat -> list nat -> R -> lgate.

(* transpile-then-bind acts as bind: RX -> H RZ H and RY -> RZ H RZ H RZ rewrites, for all circuits,
   mappings and parameter values *)
Theorem rx2rzh_then_bind_acts_as_bind : forall env items, Forall item_wf items ->
  bsem ppr_sem env (tr_rw R ptmpls_ParametricRX2RZHTranspiler items) ≃ bsem ppr_sem env items.
Proof. intros env items H. apply tr_rw_sound; [exact (proj1 parametric_rewrite_templates_ok)|exact H]. Qed.
Theorem ry2rzh_then_bind_acts_as_bind : forall env items, Forall item_wf items ->
  bsem ppr_sem env (tr_rw R ptmpls_ParametricRY2RZHTranspiler items) ≃ bsem ppr_sem env items.
Proof. intros env items H. apply tr_rw_sound; [exact (proj2 parametric_rewrite_templates_ok)|exact H]. Qed.
Print Assumptions ry2rzh_then_bind_acts_as_bind.

(* the wrapper of any circuit transpiler that preserves the action of gate lists (property C01) *)
Theorem wrapped_transpiler_then_bind_acts_as_bind : forall tau,
  (forall seg, csem (map fixed_sem (tau seg)) ≃ csem (map fixed_sem seg)) ->
  forall env items, bsem ppr_sem env (tr_pt R tau items) ≃ bsem ppr_sem env items.
Proof. intros tau H env items. apply tr_pt_sound. exact H. Qed.

Theorem sequential_transpilers_then_bind_act_as_bind : forall t1 t2 env items,
  (forall l, bsem ppr_sem env (t1 l) ≃ bsem ppr_sem env l) -> (forall l, bsem ppr_sem env (t2 l) ≃ bsem ppr_sem env l) ->
  bsem ppr_sem env (t2 (t1 items)) ≃ bsem ppr_sem env items.
Proof. intros. apply tr_seq_sound; auto. Qed.

(* ... and therefore equals binding first and applying the non-parametric counterpart (any sound template pass) *)
Theorem transpile_then_bind_equals_bind_then_transpile : forall ts t env items cg,
  forallb ptmpl_ok ts = true -> tmpl_ok t = true -> Forall item_wf items -> Forall cgate_ok cg ->
  map (bg_sem ppr_sem) (map (bind_gate gate R Rplus Rmult 0%R 1%R env) items) = map rsem cg ->
  bsem ppr_sem env (tr_rw R ts items) ≃ csem (map rsem (gkd_pass t cg)).
Proof.
  intros ts t env items cg Hts Ht Hwf Hcg E.
  eapply opequiv_trans; [apply tr_rw_sound; auto|]. unfold bsem. rewrite E.
  apply opequiv_sym. apply gkd_pass_sound; auto.
Qed.
End Bound.
Print Assumptions every_history_refines_the_abstract_circuits.
Print Assumptions transpile_then_bind_equals_bind_then_transpile.

(* non-vacuity: c = LM(1) with parameter a, RX(2a+1) ; d = c + c shares a, has two gate parameters *)
Example c10_example :
  let ops := [ONew nat nat 1; OAddParams nat nat 0 1; OAddPG nat nat 0 PRX [0] (Lin nat [(Some 0, 2); (None, 1)]); OCombine nat nat 0 0] in
  let w := fold_left (step nat nat (fun _ l => l)) ops (w0 nat nat) in
  map (ins nat nat) (wcs nat nat w) = [[0]; [0]] /\ map (outs nat nat) (wcs nat nat w) = [[1]; [1; 3]] /\
  map (fun c => bind nat nat Nat.add Nat.mul 0 1 c [5]) (wcs nat nat w)
  = [[BRot PRX [0] 11]; [BRot PRX [0] 11; BRot PRX [0] 11]].
Proof. vm_compute. repeat split. Qed.
