(* C01, refutation theorem of the LISTED known finding sweep:U1qNormalizeWithRZTranspiler:generic_theta (optional file:
   when the defect is repaired in /repo these statements stop holding, which is not a violation).
   The generic-theta branch of U1qNormalizeWithRZTranspiler.decompose returns
   [U1q(pi/2, phi + pi/2); RZ(theta); U1q(pi/2, phi - pi/2)] in circuit order, which is U1q(-theta, phi). *)
From Coq Require Import List Bool Reals Lia String ZArith.
From QP Require Import Cx Apply Gates Rsem Local.
From QPM Require Import Transpile Native.
From QPG Require Import nativegen.
Import ListNotations.
Open Scope string_scope.

Definition generic_branch : option u1q_branch := find (fun b => String.eqb (ub_name b) "generic_theta") u1q_branches.

Theorem u1q_generic_branch_implements_the_opposite_rotation :
  exists b, generic_branch = Some b /\ ub_snap b = None /\ ub_check (-1) b = true /\ ub_check 1 b = false.
Proof. destruct generic_branch as [b|] eqn:E; [|vm_compute in E; discriminate]. exists b. vm_compute in E. injection E as <-. vm_compute. auto. Qed.

Theorem u1q_generic_branch_refuted :
  exists b, In b u1q_branches /\
  forall theta pi, (forall x y : nat, pi x = pi y -> x = y) -> sin (theta 0%nat) <> 0%R ->
  ~ (csem (map (fun g => rsem (inst theta pi g)) (ub_body b)) ≃ lsem (rsem (inst theta pi (canon KU1q)))).
Proof.
  destruct u1q_generic_branch_implements_the_opposite_rotation as [b [Eb [Hs [Hm _]]]].
  exists b. split.
  - unfold generic_branch in Eb. apply find_some in Eb. tauto.
  - intros theta pi Hpi Hsin Heq.
    pose proof (u1q_branch_flipped b Hs Hm theta pi Hpi) as F.
    apply (u1q_flip_not_equiv (pi 0%nat) (theta 0%nat) (theta 1%nat) Hsin).
    eapply opequiv_trans; [apply opequiv_sym, F|].
    replace (mkC KU1q [pi 0%nat] [theta 0%nat; theta 1%nat]) with (inst theta pi (canon KU1q)); [exact Heq|].
    unfold inst, canon. cbn. rewrite !ang_eval_var. reflexivity.
Qed.
Print Assumptions u1q_generic_branch_refuted.
