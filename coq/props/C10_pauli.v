(* C10, Pauli-rotation part: transpiling a ParametricPauliRotation gate and then binding acts as the bound gate. *)
From Coq Require Import List Arith Bool Reals ZArith.
From QP Require Import Cx Asum FMat Apply Gates Rsem.
From QPM Require Import Transpile Pauli Native PauliRot.
Import ListNotations.

(* ParametricPauliRotationDecomposeTranspiler.add_decomposed_gates: the decomposition with the RZ angle left symbolic; binding
   a value v gives the gate list of the non-parametric decomposer at v, which implements exp(-i v/2 P) - i.e. transpiling
   then binding acts as the bound PauliRotation gate, for Pauli strings of any length *)
Theorem parametric_pauli_rotation_transpile_then_bind :
  forall l v, l <> [] -> NoDup (keys l) ->
  csem (map rsem (map to_c (map (map_pg (bind_pang v))
         (prot_decompose_g (PConst (PI / 2)) (PConst (- (PI / 2))) l PVar)))) ≃ prot v l.
Proof. exact parametric_pauli_rotation_decomposition_then_bind. Qed.
Print Assumptions parametric_pauli_rotation_transpile_then_bind.
