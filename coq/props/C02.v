(* C02 - Gate-set conversion delivers only the requested gates.
   Stage summaries and preset pipelines come from QPG.pipes (regenerated from /repo);
   template qubit discipline from QPG.templates. *)
From Coq Require Import String List Bool Arith Lia.
From QP Require Import Gates Local Rsem.
From QPM Require Import Transpile Names.
From QPG Require Import pipes templates.
Import ListNotations.
Open Scope string_scope.

Definition vocabulary : list string :=
  ["Identity"; "X"; "Y"; "Z"; "H"; "S"; "Sdag"; "SqrtX"; "SqrtXdag"; "SqrtY"; "SqrtYdag"; "T"; "Tdag";
   "RX"; "RY"; "RZ"; "U1"; "U2"; "U3"; "CNOT"; "CZ"; "SWAP"; "TOFFOLI"; "Pauli"; "PauliRotation";
   "UnitaryMatrix1"; "UnitaryMatrix2"; "UnitaryMatrix3"; "Measurement"].
Definition exceptions : list string := ["UnitaryMatrix3"; "Measurement"].
Definition rzset_target : list string := ["X"; "SqrtX"; "CNOT"; "RZ"].
Definition clifford_rz_target : list string :=
  ["H"; "X"; "Y"; "Z"; "SqrtX"; "SqrtXdag"; "SqrtY"; "SqrtYdag"; "S"; "Sdag"; "RZ"; "CZ"; "CNOT"].

(* RZSetTranspiler: whatever the input circuit (over the full vocabulary), every gate of the
   output is X, SqrtX, CNOT or RZ, apart from UnitaryMatrix on >= 3 qubits and Measurement *)
Theorem rzset_names :
  subsetb (pipe_set pipe_RZSetTranspiler vocabulary) (rzset_target ++ exceptions) = true.
Proof. vm_compute. reflexivity. Qed.

Theorem rzset_names_all_circuits :
  forall inp out, (forall n, In n inp -> In n vocabulary) -> pipe_run pipe_RZSetTranspiler inp out ->
  forall o, In o out -> In o (rzset_target ++ exceptions).
Proof.
  intros inp out Hin Hrun o Ho. apply (subsetb_In _ _ rzset_names).
  eapply pipe_set_sound; eauto.
Qed.
Print Assumptions rzset_names_all_circuits.

(* CliffordRZSetTranspiler: only the 13 documented names (same exception) *)
Theorem clifford_rz_names :
  subsetb (pipe_set pipe_CliffordRZSetTranspiler vocabulary) (clifford_rz_target ++ exceptions) = true.
Proof. vm_compute. reflexivity. Qed.

Theorem clifford_rz_names_all_circuits :
  forall inp out, (forall n, In n inp -> In n vocabulary) -> pipe_run pipe_CliffordRZSetTranspiler inp out ->
  forall o, In o out -> In o (clifford_rz_target ++ exceptions).
Proof.
  intros inp out Hin Hrun o Ho. apply (subsetb_In _ _ clifford_rz_names).
  eapply pipe_set_sound; eauto.
Qed.
Print Assumptions clifford_rz_names_all_circuits.

(* presets built on GateSetConversionTranspiler are constructed with the documented target set *)
Theorem star_and_rotation_targets :
  star_gsc_target = ["H"; "S"; "RZ"; "CNOT"] /\ rotationset_gsc_target = ["RX"; "RY"; "RZ"; "CNOT"].
Proof. split; reflexivity. Qed.

(* an explicit target list (validation on): the returned circuit only has requested names, else raise *)
Theorem gsc_returns_only_requested :
  forall decomp target circ out, gsc_call decomp target true circ = Some out ->
  forall n, In n out -> In n target.
Proof. exact gsc_validated. Qed.
Print Assumptions gsc_returns_only_requested.

(* no template touches a qubit outside the gate it replaces: roles of every template body are
   roles of the target gate (so qubit_count is unchanged and no new qubit is used) *)
Definition roles_ok (t : template) : bool :=
  forallb (fun k => forallb (fun g => forallb (fun r => Nat.ltb r (arity k)) (gqs g)) (t_body t)) (t_targets t).
Theorem templates_use_only_their_roles : forallb roles_ok templates_all = true.
Proof. vm_compute. reflexivity. Qed.

Theorem decompose_stays_on_gate_qubits :
  forall t c, In t templates_all -> is_target t c = true -> cgate_ok c ->
  forall g, In g (decompose t c) -> incl (cqs g) (cqs c).
Proof.
  intros t c Ht Htar [Ha [Hnd Hp]] g Hg q Hq.
  pose proof templates_use_only_their_roles as H. rewrite forallb_forall in H. specialize (H t Ht).
  unfold roles_ok in H. rewrite forallb_forall in H.
  unfold is_target in Htar. apply existsb_exists in Htar as [k [Hk Ek]].
  apply gkind_eqb_eq in Ek. subst k. specialize (H _ Hk). rewrite forallb_forall in H.
  unfold decompose in Hg. apply in_map_iff in Hg as [tg [<- Htg]]. specialize (H _ Htg).
  rewrite forallb_forall in H. simpl in Hq. apply in_map_iff in Hq as [r [<- Hr]].
  specialize (H r Hr). apply Nat.ltb_lt in H. unfold pi_of.
  rewrite <- Ha in H. apply Nat.ltb_lt in H. rewrite H. apply nth_In. apply Nat.ltb_lt; auto.
Qed.
Print Assumptions decompose_stays_on_gate_qubits.
