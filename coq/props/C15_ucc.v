(* C15 (continued): Trotterised UCC ansatz classes under the Jordan-Wigner mapping (TrotterUCCSD, KUpCCGSD). *)
From Coq Require Import ZArith List Bool Reals Permutation Lia.
From QP Require Import Cx Apply Conserve.
From QPM Require Import Pauli Ansatz UCCJW.
From QPG Require Import ucctmpl.
Import ListNotations.

(* every regenerated endpoint template - the X / Y parts of the Pauli rotations of one excitation, each rotation replaced by
   the C01-proved decomposition - has a product matrix that vanishes between basis states of different particle number,
   for all real values of the common angle *)
Theorem every_jw_excitation_template_conserves_particle_number :
  forallb (fun ku => ut_check (fst ku) (snd ku)) ucc_templates = true.
Proof. vm_compute. reflexivity. Qed.

(* every circuit that is a sequence of excitation groups - a regenerated template placed on any distinct endpoint qubits,
   with ANY string of Z factors on other qubits, any angle, the factors of each label in any order - maps every
   particle-number sector of a register of any size into itself *)
Theorem jw_ucc_circuits_conserve_particle_number : forall Q (blocks : list ublock) (circ : list (R * label)),
  NoDup Q ->
  Forall (fun bl => In (uk bl, ut bl) ucc_templates /\ NoDup (uE bl) /\ length (uE bl) = uk bl /\ incl (uE bl) Q /\
                    (forall z, In z (uzs bl) -> ~ In z (uE bl)) /\ NoDup (uzs bl)) blocks ->
  Forall2 same_rot (concat (map ublock_rots blocks)) circ ->
  keeps c_num Z.eqb Q (rots circ).
Proof.
  intros Q blocks circ HQ H Hs.
  apply (ucc_circuit_any_factor_order c_num (fun bl => repeat 1%Z (uk bl)) Q blocks circ HQ); [|exact Hs].
  rewrite Forall_forall in *. intros bl Hbl. destruct (H bl Hbl) as [Hin [HE [Hlen [Hinc [Hd Hz]]]]].
  pose proof every_jw_excitation_template_conserves_particle_number as Hall. rewrite forallb_forall in Hall.
  specialize (Hall _ Hin). cbn [fst snd] in Hall. repeat split; try assumption.
  intros i Hi. rewrite nth_repeat_1 by exact Hi. reflexivity.
Qed.
Print Assumptions jw_ucc_circuits_conserve_particle_number.

(* total S_z: the groups met in configurations with delta_sz = 0, on the spin patterns of their endpoints (even spin orbital =
   spin up); again with any Z string *)
Theorem every_jw_excitation_template_conserves_sz_on_its_spin_patterns :
  forallb (fun o => ut_check_c (fst o) (fst (snd o)) (snd (snd o))) ucc_sz_obligations = true.
Proof. vm_compute. reflexivity. Qed.

Theorem jw_ucc_circuits_conserve_sz : forall Q (blocks : list ublock) (circ : list (R * label)),
  NoDup Q ->
  Forall (fun bl => In (map c_sz (uE bl), (uk bl, ut bl)) ucc_sz_obligations /\ NoDup (uE bl) /\ length (uE bl) = uk bl /\
                    incl (uE bl) Q /\ (forall z, In z (uzs bl) -> ~ In z (uE bl)) /\ NoDup (uzs bl)) blocks ->
  Forall2 same_rot (concat (map ublock_rots blocks)) circ ->
  keeps c_sz Z.eqb Q (rots circ).
Proof.
  intros Q blocks circ HQ H Hs.
  apply (ucc_circuit_any_factor_order c_sz (fun bl => map c_sz (uE bl)) Q blocks circ HQ); [|exact Hs].
  rewrite Forall_forall in *. intros bl Hbl. destruct (H bl Hbl) as [Hin [HE [Hlen [Hinc [Hd Hz]]]]].
  pose proof every_jw_excitation_template_conserves_sz_on_its_spin_patterns as Hall. rewrite forallb_forall in Hall.
  specialize (Hall _ Hin). cbn [fst snd] in Hall. repeat split; try assumption.
  intros i Hi. rewrite (nth_indep _ 0%Z (c_sz 0%nat)) by (rewrite map_length; lia). rewrite map_nth. reflexivity.
Qed.

(* non-vacuity: the single-excitation template with a Z string on qubit 1 between the endpoints 0 and 2 *)
Example jw_single_excitation_block :
  exists u, In (2%nat, u) ucc_templates /\
  ublock_ok_c c_num (fun bl => repeat 1%Z (uk bl)) [0; 1; 2]%nat (mkU 2 u [0; 2]%nat [1%nat] 0.3%R).
Proof.
  eexists. split; [left; reflexivity|].
  split; [vm_compute; reflexivity|]. repeat split.
  - repeat constructor; cbn; intuition discriminate.
  - intros x [<-|[<-|[]]]; cbn; auto.
  - intros i Hi. cbn in Hi. destruct i as [|[|i]]; [reflexivity|reflexivity|lia].
  - intros z [<-|[]] [H|[H|[]]]; discriminate.
  - repeat constructor; cbn; intuition.
Qed.
