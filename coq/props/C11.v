(* C11 - Concurrent execution is equivalent to sequential execution. *)
From Coq Require Import List Arith.
From QPM Require Import Concurrent.
Import ListNotations.

(* the chunk sizes (len + i) // concurrency, i < concurrency, add up to the batch size *)
Theorem chunk_sizes_sum_to_batch_size :
  forall c, 1 <= c -> forall n, list_sum (input_counts n c) = n.
Proof. exact chunk_counts_sum. Qed.
Print Assumptions chunk_sizes_sum_to_batch_size.

(* the prefix-sum slices concatenate to the input: nothing dropped, duplicated or reordered, for
   every batch size (0, 1, < c, not divisible by c) and every concurrency *)
Theorem chunks_partition_the_batch :
  forall (A : Type) (l : list A) c, 1 <= c -> concat (input_list l c) = l /\ length (input_list l c) = c.
Proof. intros. split; [apply chunks_concat; auto | apply chunks_count]. Qed.
Print Assumptions chunks_partition_the_batch.

(* with an executor whose map returns results in submission order, the concurrent path returns
   exactly what the sequential path returns, for every element-wise batch function *)
Theorem concurrent_equals_sequential :
  forall (A B C : Type) (fn : C -> list A -> list B) common l ex c,
  list_hom fn -> 1 <= c -> execute_concurrently fn common l ex c = fn common l.
Proof. intros. apply execute_concurrently_spec; auto. Qed.
Print Assumptions concurrent_equals_sequential.

(* element-wise batch functions are list homomorphisms *)
Theorem map_is_list_hom : forall (A B C : Type) (f : C -> A -> B), list_hom (fun c l => map (f c) l).
Proof. intros A B C f common a b. apply map_app. Qed.

(* every interleaving of worker tasks whose atomic steps commute with the other tasks' steps
   (task-private writes, shared locations only read) ends in the sequential result *)
Theorem commuting_tasks_are_serializable :
  forall (store : Type) (t1 t2 l : list (step store)), interleave store t1 t2 l ->
  Forall (fun g => Forall (fun f => commute store f g) t1) t2 ->
  forall s, run store l s = run store t2 (run store t1 s).
Proof. exact interleave_serializable. Qed.
Print Assumptions commuting_tasks_are_serializable.

Example c11_example : input_list [1; 2; 3; 4; 5; 6; 7] 3 = [[1; 2]; [3; 4]; [5; 6; 7]].
Proof. reflexivity. Qed.
