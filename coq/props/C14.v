(* C14 - Electron-integral transformations preserve energies.  Model: coq/model/Integrals.v. *)
From Coq Require Import List Arith Bool Reals.
From QPM Require Import Integrals.
Import ListNotations.
Local Open Scope R_scope.

(* every determinant compatible with the active space has the same energy under the reduced Hamiltonian
   (effective core energy, effective one-electron integrals, restricted two-electron integrals, spin
   expansion) as under the full spin-orbital Hamiltonian: for all one-electron arrays h, all two-electron
   arrays g with the exchange symmetry g[p,q,r,s] = g[q,p,s,r], all core lists, all active index lists
   (any order, any gaps) and all occupations A of the active spin orbitals *)
Theorem active_space_reduction_preserves_determinant_energies :
  forall c0 h g, (forall p q r s, g p q r s = g q p s r) ->
  forall core act A,
  E2 R Rplus Rminus 0 c0 (spin1 R 0 h) (spin2 R 0 g) (core_spin core ++ map (lift act) A)
  = E2 R Rplus Rminus 0 (eff_core R Rplus Rminus 0 c0 h g core)
       (spin1 R 0 (sub1 R (eff_h1 R Rplus Rminus 0 h g core) act))
       (spin2 R 0 (sub2 R g act)) A.
Proof. intros c0 h g Hs core act A. exact (active_space_identity c0 h g Hs core act A). Qed.
Print Assumptions active_space_reduction_preserves_determinant_energies.

(* the frozen core and the active space never overlap, whatever the order of the explicit active list *)
Theorem frozen_core_and_active_space_are_disjoint :
  forall n_ae n_ao n_e act core active,
  core_active n_ae n_ao n_e act = Some (core, active) -> forall i, In i core -> ~ In i active.
Proof. exact core_active_disjoint. Qed.

(* AO -> MO: the transpose / tensordot chain of to_spatial_mo2int is the transformation of a physicist-ordered
   tensor, for every coefficient matrix and every tensor with the pair-exchange symmetry *)
Theorem ao_to_mo_keeps_the_physicist_ordering :
  forall (C : nat -> nat -> R) g L p q r s, (forall a b c d, g a b c d = g c d a b) ->
  mo2_code R Rplus Rmult 0 C g L p q r s = mo2_spec R Rplus Rmult 0 C g L p q r s.
Proof. exact mo2_code_is_the_physicist_transformation. Qed.
Print Assumptions ao_to_mo_keeps_the_physicist_ordering.

(* non-vacuity: one core orbital, active list [2; 1], one electron in active spin orbital 1 *)
Example c14_example :
  core_active 2 2 4 [2; 1]%nat = Some ([0]%nat, [2; 1]%nat) /\
  core_spin [0]%nat ++ map (lift [2; 1]%nat) [1]%nat = [0; 1; 5]%nat.
Proof. split; reflexivity. Qed.
