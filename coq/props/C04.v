(* C04 - Exact estimators return the true expectation value: the part of the property that is logic
   in this repository (batch dispatch, lifting constructors, operator cache); the simulator is a
   parameter whose contract is validated by the numpy sweep. *)
From Coq Require Import List Arith Bool.
From QPM Require Import Estimate.
Import ListNotations.

Theorem batch_N_operators_one_state :
  forall (O S V : Type) (est : O -> S -> V) ops s, ops <> [] ->
  concurrent_estimate O S V est ops [s] = Some (map (fun o => est o s) ops).
Proof. intros. apply dispatch_many_ops_one_state; auto. Qed.

Theorem batch_one_operator_N_states :
  forall (O S V : Type) (est : O -> S -> V) o states, states <> [] ->
  concurrent_estimate O S V est [o] states = Some (map (fun s => est o s) states).
Proof. intros. apply dispatch_one_op_many_states; auto. Qed.

Theorem batch_N_to_N_is_pairwise_in_order :
  forall (O S V : Type) (est : O -> S -> V) ops states, length ops = length states -> 2 <= length ops ->
  concurrent_estimate O S V est ops states = Some (map (fun os => est (fst os) (snd os)) (combine ops states)).
Proof. intros. apply dispatch_pairwise; auto. Qed.

Theorem batch_errors_exactly_as_documented :
  forall (O S V : Type) (est : O -> S -> V) ops states,
  concurrent_estimate O S V est ops states = None <->
  (ops = [] \/ states = [] \/ (2 <= length ops /\ 2 <= length states /\ length ops <> length states)).
Proof. intros. apply dispatch_errors. Qed.
Print Assumptions batch_errors_exactly_as_documented.

(* estimating a parametric state at p gives the value of the state bound to p, also in batches and
   through the estimators lifted from concurrent estimators *)
Theorem parametric_estimate_is_bound_estimate :
  forall (O S PS P V : Type) (bind : PS -> P -> S) (est : O -> S -> V) o ps params,
  concurrent_parametric_estimator O S PS P V bind est o ps params = map (fun p => est o (bind ps p)) params /\
  (params <> [] -> concurrent_estimate O S V est [o] (map (bind ps) params)
                   = Some (concurrent_parametric_estimator O S PS P V bind est o ps params)).
Proof. intros. split; [reflexivity | apply lifted_from_concurrent]. Qed.

(* the content-keyed operator cache returns the operator of the content that was asked for, after
   any history of earlier conversions *)
Theorem operator_cache_sound :
  forall (K B : Type) (keqb : K -> K -> bool), (forall a b, keqb a b = true <-> a = b) ->
  forall (build : K -> B) (history : list K) (k : K),
  fst (convert K B keqb build (fold_left (fun c k' => snd (convert K B keqb build c k')) history []) k) = build k.
Proof. intros. apply cache_returns_requested_content; auto. Qed.
Print Assumptions operator_cache_sound.

Example c04_example :
  concurrent_estimate nat nat nat (fun o s => 10 * o + s) [1; 2; 3] [7] = Some [17; 27; 37] /\
  concurrent_estimate nat nat nat (fun o s => 10 * o + s) [1; 2] [7; 8; 9] = None.
Proof. split; reflexivity. Qed.
