(* C09 - Parameter-shift gradients and Hessians equal the analytic derivatives.
   Model: coq/model/ParamShift.v (ShiftedParameters._get_derivative bookkeeping, evaluation of a shift
   object, expectation functions of sinusoidal form). *)
From Coq Require Import ZArith List Reals.
From Coq Require Import Lia.
From QP Require Import Cx Asum Apply.
From QPM Require Import ParamShift NumGrad Pauli PauliRot Expect Sinus.
Import ListNotations.
Local Open Scope R_scope.

(* the one-angle rule and its iterate *)
Theorem parameter_shift_rule_one_angle : forall a b c phi,
  derivable_pt_lim (sinusoid a b c) phi ((sinusoid a b c (phi + PI / 2) - sinusoid a b c (phi - PI / 2)) / 2).
Proof. exact shift_rule_sinusoid. Qed.

Theorem parameter_shift_rule_second_order : forall a b c phi,
  derivable_pt_lim (fun t => (sinusoid a b c (t + PI / 2) - sinusoid a b c (t - PI / 2)) / 2) phi
    ((sinusoid a b c (phi + PI) - 2 * sinusoid a b c phi + sinusoid a b c (phi - PI)) / 4).
Proof. exact second_shift_rule_sinusoid. Qed.

(* shift-set algebra: merging of equal shift sets, deletion of cancelled shifts and skipping of zero
   coefficients never change the value of the derivative object; E is any function of the raw angles *)
Theorem shift_set_algebra_preserves_value :
  forall (E : (nat -> R) -> R), (forall f g, (forall p, f p = g p) -> E f = E g) ->
  forall base out_params cs (S : sdict),
  deval E base (get_derivative out_params cs S)
  = fold_right (fun sc a => grad_term E base cs out_params (snd sc) (fst sc) + a) 0 S.
Proof. intros E HE base out cs S. exact (get_derivative_algebra E HE base out cs S). Qed.
Print Assumptions shift_set_algebra_preserves_value.

(* gradient, Hessian and every higher order: for every expectation function T of sinusoidal form in
   P raw angles, every point x and mapping column d (raw angles move along x + t d when one input
   parameter moves by t; shared parameters, coefficients and offsets are all in x and d), and every
   shift object S, the derivative object evaluates to the derivative of the value of S. *)
Theorem parameter_shift_equals_analytic_derivative :
  forall T P x d (S : sdict) t0, (depth T <= P)%nat ->
  derivable_pt_lim (fun t => deval (teval T 0) (line x d t) S) t0
                   (deval (teval T 0) (line x d t0) (get_derivative (seq 0 P) d S)).
Proof. exact shift_derivative_exact. Qed.
Print Assumptions parameter_shift_equals_analytic_derivative.

(* instance: the gradient entry itself (S = NO_SHIFT, value of S = the expectation value) *)
Corollary gradient_entry_is_derivative :
  forall T P x d t0, (depth T <= P)%nat ->
  derivable_pt_lim (fun t => teval T 0 (line x d t)) t0
                   (deval (teval T 0) (line x d t0) (get_derivative (seq 0 P) d [([], 1)])).
Proof.
  intros T P x d t0 HP.
  eapply derivable_pt_lim_ext; [|apply (shift_derivative_exact T P x d [([], 1)] t0 HP)].
  intros t. unfold deval. cbn [fold_right fst snd].
  rewrite (teval_ext T 0 (shifted (line x d t) []) (line x d t)); [ring|].
  intros p. unfold shifted. cbn [sget]. ring.
Qed.

(* instance: Hessian entry (i, j) is the derivative along input j of gradient entry i *)
Corollary hessian_entry_is_derivative_of_gradient_entry :
  forall T P x di dj t0, (depth T <= P)%nat ->
  derivable_pt_lim (fun t => deval (teval T 0) (line x dj t) (get_derivative (seq 0 P) di [([], 1)])) t0
    (deval (teval T 0) (line x dj t0) (get_derivative (seq 0 P) dj (get_derivative (seq 0 P) di [([], 1)]))).
Proof. intros. apply shift_derivative_exact; auto. Qed.

Theorem hessian_is_symmetric :
  forall (E : (nat -> R) -> R), (forall f g, (forall p, f p = g p) -> E f = E g) ->
  forall base out ci cj (S : sdict),
  deval E base (get_derivative out cj (get_derivative out ci S))
  = deval E base (get_derivative out ci (get_derivative out cj S)).
Proof. intros E HE base out ci cj S. exact (hessian_symmetric E base out ci cj S HE). Qed.
Print Assumptions hessian_is_symmetric.

(* the numerical gradient (E(x + delta/2 e_i) - E(x - delta/2 e_i)) / delta converges, as delta -> 0, to the derivative,
   i.e. to the value of the parameter-shift derivative object *)
Theorem numerical_gradient_converges : forall T P x d, (depth T <= P)%nat ->
  forall eps, 0 < eps -> exists dl, 0 < dl /\ forall delta, delta <> 0 -> Rabs delta < dl ->
  Rabs (central_difference (fun t => teval T 0 (line x d t)) 0 delta
        - deval (teval T 0) (line x d 0) (get_derivative (seq 0 P) d [([], 1)])) < eps.
Proof. exact numerical_gradient_converges_to_parameter_shift. Qed.
Print Assumptions numerical_gradient_converges.

(* non-vacuity: a two-angle expectation function cos(f0) sin(f1) + 2 with a shared input parameter *)
Example c09_example :
  let T := Node (Node (Leaf 0) (Leaf 1) (Leaf 0)) (Leaf 0) (Leaf 2) in
  (depth T <= 2)%nat /\ teval T 0 (fun _ => 0) = 2.
Proof. cbn. split; [auto|]. rewrite cos_0, sin_0. ring. Qed.

(* ------------------------------------------------------------------ circuits really are trigonometric trees *)
(* The expectation value <psi_f| Obs |psi_f> of ANY circuit made of fixed linear gates and rotations exp(-i f_k/2 P_k) about
   Pauli strings (RX, RY, RZ, PauliRotation; the k-th rotation has the raw gate angle f k) is a trigonometric tree in the
   angles - the hypothesis of the parameter-shift theorems above - for circuits of any length on registers of any size,
   any input state and any linear observable *)
Theorem circuit_expectation_is_a_trigonometric_tree :
  forall (Q : list nat) (b0 : Asum.Basis) (Obs : Apply.Op), linear Obs ->
  forall items, Forall item_ok items ->
  forall k phi chi, exists T : ctree, (cdepth T <= nrot items)%nat /\ forall f, form Q b0 Obs items k f phi chi = ceval T k f.
Proof. exact expectation_is_a_trigonometric_tree. Qed.
Print Assumptions circuit_expectation_is_a_trigonometric_tree.

(* hence the parameter-shift derivative (any direction d in raw-angle space, i.e. any linear parameter mapping; any shift
   dictionary S) of the expectation value of such a circuit is exact *)
Theorem circuit_expectation_parameter_shift_exact :
  forall (Q : list nat) (b0 : Asum.Basis) (Obs : Apply.Op), linear Obs ->
  forall items, Forall item_ok items -> forall (psi : Apply.St) (P : nat), (nrot items <= P)%nat ->
  forall x d (S : sdict) t0,
  let E := fun f : nat -> R => fst (form Q b0 Obs items 0 f psi psi) in
  derivable_pt_lim (fun t => deval E (line x d t) S) t0 (deval E (line x d t0) (get_derivative (seq 0 P) d S)).
Proof.
  intros Q b0 Obs HO items Hok psi P HP x d S t0 E.
  destruct (expectation_is_a_trigonometric_tree Q b0 Obs HO items Hok 0%nat psi psi) as [T [Hd HT]].
  assert (EE : E = teval (fst T) 0).
  { apply FunctionalExtensionality.functional_extensionality; intros f. unfold E. rewrite HT. reflexivity. }
  rewrite EE. apply shift_derivative_exact. unfold cdepth in Hd. lia.
Qed.
Print Assumptions circuit_expectation_parameter_shift_exact.
