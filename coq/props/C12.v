(* C12 - Inverse circuits undo the circuit and folding leaves it unchanged.
   inverse_table is regenerated from /repo by symbolic evaluation of inverse_gate. *)
From Coq Require Import ZArith List Bool Reals Lia Lra.
From QP Require Import Cx Apply Gates Rsem.
From QPM Require Import Transpile Inverse Pauli PauliRot PauliRotInv.
From QPM Require Import UMInverse PolyFit.
From QPG Require Import invtab.
Import ListNotations.

(* a kind is set aside only when it is listed as a known finding AND its regenerated row really fails the exact check:
   once the defect is repaired in /repo the row is covered by the theorems below again *)
Definition row_fails (k : gkind) : bool :=
  match inv_lookup inverse_table k with Some ig => negb (inv_ok (k, ig)) | None => true end.
Definition is_known_bad (k : gkind) : bool := existsb (gkind_eqb k) inverse_known_bad && row_fails k.
Definition good_rows := filter (fun e : gkind * gate => negb (is_known_bad (fst e))) inverse_table.

(* every row of the regenerated inverse table (outside the listed known findings) satisfies
   [g ; inverse_gate g] = identity up to phase, as an exact matrix identity *)
Theorem inverse_rows_ok : forallb inv_ok good_rows = true.
Proof. vm_compute. reflexivity. Qed.
Print Assumptions inverse_rows_ok.

(* the table has a row for every modelled kind *)
Theorem inverse_table_total :
  forallb (fun k => match inv_lookup inverse_table k with Some _ => true | None => false end) all_kinds = true.
Proof. vm_compute. reflexivity. Qed.

Lemma lookup_row tab k ig : inv_lookup tab k = Some ig -> In (k, ig) tab.
Proof. induction tab as [|[k' g] tab IH]; simpl; [discriminate|].
  destruct (gkind_eqb k k') eqn:E.
  - intros H; inversion H; subst. apply Transpile.gkind_eqb_eq in E; subst. auto.
  - auto. Qed.

(* the gate vocabulary of quri_parts.circuit.gates (the native gates of the Quantinuum / IonQ packages, which
   inverse_gate does not know, are outside) *)
Definition core_kind (k : gkind) : Prop := In k all_kinds.

Lemma covered_of_good c : cgate_ok c -> core_kind (ck c) -> is_known_bad (ck c) = false -> covered inverse_table c.
Proof.
  intros Hc Hin Hk. split; auto.
  pose proof inverse_table_total as T. rewrite forallb_forall in T.
  specialize (T _ Hin). destruct (inv_lookup inverse_table (ck c)) as [ig|] eqn:E; [|discriminate].
  exists ig; split; auto.
  pose proof inverse_rows_ok as R. rewrite forallb_forall in R. apply R.
  unfold good_rows. apply filter_In. split; [apply lookup_row; auto|]. simpl. rewrite Hk. reflexivity.
Qed.

(* c + inverse_circuit(c) is the identity up to a global phase: circuits of any length, all real
   angles, all placements, over every modelled kind not listed as a known finding *)
Theorem inverse_circuit_undoes :
  forall circ, Forall cgate_ok circ -> Forall (fun c => core_kind (ck c)) circ ->
  Forall (fun c => is_known_bad (ck c) = false) circ ->
  csem (map rsem (circ ++ inverse_circuit inverse_table circ)) ≃ csem [].
Proof.
  intros circ H1 H0 H2. apply inverse_circuit_sound.
  rewrite Forall_forall in *. intros c Hc. apply covered_of_good; auto.
Qed.
Print Assumptions inverse_circuit_undoes.

(* gate folding (any number of full folds m, any set idx of additionally folded gates - hence
   every scale factor >= 1 and every folding method) does not change the action *)
Theorem folding_preserves_action :
  forall m idx circ, Forall cgate_ok circ -> Forall (fun c => core_kind (ck c)) circ ->
  Forall (fun c => is_known_bad (ck c) = false) circ ->
  csem (map rsem (fold_with (inverse_gate inverse_table) m idx circ)) ≃ csem (map rsem circ).
Proof.
  intros m idx circ H1 H0 H2. apply folding_sound.
  rewrite Forall_forall in *. intros c Hc. apply covered_of_good; auto.
Qed.
Print Assumptions folding_preserves_action.

Theorem folding_gate_count :
  forall (A : Type) (inv : A -> A) m (circ : list A),
  length (fold_with inv m [] circ) = (length circ * (1 + 2 * m))%nat.
Proof. intros. apply folding_length_uniform. Qed.

(* inverse_gate(PauliRotation(targets, ids, angle)) = PauliRotation(targets, ids, -angle): the rotation about a Pauli string
   of any length by the opposite angle undoes it exactly *)
Theorem pauli_rotation_inverse_undoes :
  forall theta l psi, NoDup (keys l) -> prot (- theta) l (prot theta l psi) = psi.
Proof. intros. apply prot_inverse. assumption. Qed.
Print Assumptions pauli_rotation_inverse_undoes.

(* the two branches of inverse_gate outside the per-kind table, as regenerated from /repo: PauliRotation keeps targets and
   Pauli ids and multiplies the angle by prot_inverse_scale; UnitaryMatrix keeps the targets and applies um_inverse_flags
   (conjugated?, transposed?) to the matrix *)
Theorem pauli_rotation_branch_negates_the_angle : prot_inverse_scale = (-1)%Z.
Proof. vm_compute. reflexivity. Qed.

Definition um_apply (f : bool * bool) (A : CM) : CM :=
  fun x y => let a := if snd f then A y x else A x y in if fst f then Cconj a else a.

Theorem unitary_matrix_branch_is_the_adjoint : forall A, um_apply um_inverse_flags A = adjM A.
Proof. intros A. vm_compute. reflexivity. Qed.

(* a UnitaryMatrix gate followed by inverse_gate of it is the identity, exactly: every number of target qubits, every
   placement on distinct qubits of a register of any size, every unitary matrix *)
Theorem unitary_matrix_inverse_undoes :
  forall (A : CM) (qs : list nat), NoDup qs -> unitary_on qs A ->
  forall psi, csem [(A, qs); (um_apply um_inverse_flags A, qs)] psi = psi.
Proof.
  intros A qs Hnd HU psi. rewrite unitary_matrix_branch_is_the_adjoint.
  apply matrix_gate_then_adjoint_is_identity; assumption.
Qed.
Print Assumptions unitary_matrix_inverse_undoes.

Example c12_nonvacuous :
  Forall cgate_ok [mkC KRX [2]%nat [1%R]; mkC KCNOT [0; 1]%nat []; mkC KT [1]%nat []] /\
  forallb (fun k => negb (is_known_bad k)) [KRX; KCNOT; KT; KU1; KS; KSqrtY] = true.
Proof. split; [repeat constructor; simpl; intuition (try discriminate; try lia) | vm_compute; reflexivity]. Qed.

(* zero-noise extrapolation on a noiseless estimator, polynomial / Richardson extrapolation (zne.py: zne,
   create_polynomial_extrapolate, richardson_extrapolation; utils/fitting.py: polynomial_fitting). By folding_preserves_action
   every folded circuit has the action of the original, so an exact estimator returns the same value E at every scale factor: the
   data are (scale factor, E). polynomial_fitting refuses the call unless there are order + 1 distinct scale factors (the guard
   `order > len(set(x_data)) - 1`, hypothesis ds) and returns the coefficients of numpy's least-squares fit, low to high, of which
   the extrapolation takes parameters[0]. numpy enters through its contract only (p has at most order + 1 coefficients and
   minimises the residual sum of squares over all such lists; validated against the real function by corr_C12_fit.py): then the
   fitted polynomial is the constant E everywhere and the value returned is exactly E - any number of scale factors in any order
   with repetitions, any order of the polynomial. *)
Theorem noiseless_polynomial_extrapolation_returns_the_exact_value :
  forall (p : list R) (E : R) (order : nat) (data : list (R * R)) (ds : list R),
  (forall xy, In xy data -> snd xy = E) ->
  NoDup ds -> length ds = S order -> incl ds (map fst data) ->
  (length p <= S order)%nat ->
  (forall q, (length q <= S order)%nat -> rss p data <= rss q data) ->
  (forall x, peval p x = E) /\ nth 0 p 0%R = E.
Proof. exact constant_data_fit. Qed.
Print Assumptions noiseless_polynomial_extrapolation_returns_the_exact_value.
(* non-vacuity: PolyFit.constant_data_fit_example *)

(* exponential extrapolations f(x) = a + b exp(p(x)) (create_exp_extrapolate: a fitted; create_exp_extrapolate_with_const: a
   given): scipy's curve_fit is a local optimiser and is not modelled; whenever the fit it returns reproduces the noiseless data
   exactly (checked on the real fits by corr_C12_fit.py) at order + 1 distinct scale factors, the fitted function is the constant E
   everywhere, so the value read at 0 is E *)
Theorem noiseless_exponential_extrapolation_returns_the_exact_value :
  forall (a b : R) (p : list R) (E : R) (order : nat) (data : list (R * R)) (ds : list R),
  (forall xy, In xy data -> snd xy = E) ->
  NoDup ds -> length ds = S order -> incl ds (map fst data) ->
  (length p <= S order)%nat ->
  (forall xy, In xy data -> a + b * exp (peval p (fst xy)) = snd xy) ->
  forall x, a + b * exp (peval p x) = E.
Proof. exact constant_data_exact_exp_fit. Qed.
Print Assumptions noiseless_exponential_extrapolation_returns_the_exact_value.
