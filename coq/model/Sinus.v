(* The expectation value of any circuit made of fixed linear gates and rotations exp(-i theta_k/2 P_k) about Pauli strings
   (RX, RY, RZ, PauliRotation) is a trigonometric tree in the rotation angles: for every angle, with the others fixed,
   a cos(theta_k) + b sin(theta_k) + c.  This is the hypothesis the parameter-shift theorems of model/ParamShift.v need;
   here it is proved for circuits of any length on registers of any size, any input state and any linear observable. *)
From Coq Require Import ZArith List Bool Arith Lia Reals Lra Nsatz FunctionalExtensionality.
From QP Require Import Cx Asum FMat Apply.
From QPM Require Import Pauli ParamShift.
From QPM Require Import PauliRot Expect.
Import ListNotations.
Local Open Scope C_scope.

(* ------------------------------------------------------------------ trees: sums and real multiples *)
Fixpoint tscale (r : R) (t : tp) : tp :=
  match t with Leaf x => Leaf (r * x)%R | Node a b c => Node (tscale r a) (tscale r b) (tscale r c) end.
Fixpoint taddl (x : R) (t : tp) : tp :=
  match t with Leaf y => Leaf (x + y)%R | Node a b c => Node a b (taddl x c) end.
Fixpoint tadd (s t : tp) : tp :=
  match s with
  | Leaf x => taddl x t
  | Node a b c => match t with
                  | Leaf y => Node a b (tadd c (Leaf y))
                  | Node a' b' c' => Node (tadd a a') (tadd b b') (tadd c c')
                  end
  end.

Lemma teval_taddl x t : forall k f, teval (taddl x t) k f = (x + teval t k f)%R.
Proof. induction t as [y|a _ b _ c IHc]; intros k f; cbn [taddl teval]; [reflexivity|]. rewrite IHc. ring. Qed.
Lemma depth_taddl x t : depth (taddl x t) = depth t.
Proof. induction t as [y|a _ b _ c IHc]; cbn [taddl depth]; [reflexivity|]. rewrite IHc. reflexivity. Qed.
Lemma teval_tscale r t : forall k f, teval (tscale r t) k f = (r * teval t k f)%R.
Proof. induction t as [x|a IHa b IHb c IHc]; intros k f; cbn [tscale teval]; [reflexivity|]. rewrite IHa, IHb, IHc. ring. Qed.
Lemma teval_tadd s : forall t k f, teval (tadd s t) k f = (teval s k f + teval t k f)%R.
Proof.
  induction s as [x|a IHa b IHb c IHc]; intros t k f.
  - cbn [tadd teval]. apply teval_taddl.
  - destruct t as [y|a' b' c']; cbn [tadd teval].
    + rewrite IHc. cbn [teval]. ring.
    + rewrite IHa, IHb, IHc. ring.
Qed.
Lemma depth_tscale r t : depth (tscale r t) = depth t.
Proof. induction t as [x|a IHa b IHb c IHc]; cbn [tscale depth]; [reflexivity|]. rewrite IHa, IHb, IHc. reflexivity. Qed.
Lemma depth_tadd s : forall t, (depth (tadd s t) <= Nat.max (depth s) (depth t))%nat.
Proof.
  induction s as [x|a IHa b IHb c IHc]; intros t.
  - cbn [tadd depth]. rewrite depth_taddl. lia.
  - destruct t as [y|a' b' c']; cbn [tadd depth].
    + specialize (IHc (Leaf y)). cbn [depth] in IHc. lia.
    + specialize (IHa a'). specialize (IHb b'). specialize (IHc c'). lia.
Qed.

(* complex-valued trees *)
Definition ctree : Type := (tp * tp)%type.
Definition ceval (t : ctree) (k : nat) (f : nat -> R) : C := (teval (fst t) k f, teval (snd t) k f).
Definition cdepth (t : ctree) : nat := Nat.max (depth (fst t)) (depth (snd t)).
Definition cleaf (z : C) : ctree := (Leaf (fst z), Leaf (snd z)).
Definition cadd (s t : ctree) : ctree := (tadd (fst s) (fst t), tadd (snd s) (snd t)).
Definition cscale (z : C) (t : ctree) : ctree :=
  (tadd (tscale (fst z) (fst t)) (tscale (- snd z) (snd t)), tadd (tscale (fst z) (snd t)) (tscale (snd z) (fst t))).
Definition cnode (a b c : ctree) : ctree := (Node (fst a) (fst b) (fst c), Node (snd a) (snd b) (snd c)).

Lemma ceval_cleaf z k f : ceval (cleaf z) k f = z.
Proof. destruct z. reflexivity. Qed.
Lemma ceval_cadd s t k f : ceval (cadd s t) k f = ceval s k f + ceval t k f.
Proof. unfold ceval, cadd, Cadd. cbn [fst snd]. rewrite !teval_tadd. reflexivity. Qed.
Lemma ceval_cscale z t k f : ceval (cscale z t) k f = z * ceval t k f.
Proof. unfold ceval, cscale, Cmul. cbn [fst snd]. rewrite !teval_tadd, !teval_tscale. f_equal; ring. Qed.
Lemma ceval_cnode a b c k f :
  ceval (cnode a b c) k f = RtoC (cos (f k)) * ceval a (S k) f + RtoC (sin (f k)) * ceval b (S k) f + ceval c (S k) f.
Proof. unfold ceval, cnode, Cmul, Cadd, RtoC. cbn [fst snd teval]. f_equal; ring. Qed.
Lemma cdepth_cadd s t : (cdepth (cadd s t) <= Nat.max (cdepth s) (cdepth t))%nat.
Proof. unfold cdepth, cadd. cbn [fst snd]. pose proof (depth_tadd (fst s) (fst t)). pose proof (depth_tadd (snd s) (snd t)). lia. Qed.
Lemma cdepth_cscale z t : (cdepth (cscale z t) <= cdepth t)%nat.
Proof.
  unfold cdepth, cscale. cbn [fst snd].
  pose proof (depth_tadd (tscale (fst z) (fst t)) (tscale (- snd z) (snd t))).
  pose proof (depth_tadd (tscale (fst z) (snd t)) (tscale (snd z) (fst t))).
  rewrite !depth_tscale in *. lia.
Qed.
Lemma cdepth_cnode a b c : cdepth (cnode a b c) = S (Nat.max (cdepth a) (Nat.max (cdepth b) (cdepth c))).
Proof. unfold cdepth, cnode. cbn [fst snd depth]. lia. Qed.
Lemma cdepth_cleaf z : cdepth (cleaf z) = 0%nat.
Proof. reflexivity. Qed.

(* ------------------------------------------------------------------ circuits *)
Definition linear (U : Op) : Prop :=
  forall a d (phi chi : St), U (fun x => a * phi x + d * chi x) = fun b => a * U phi b + d * U chi b.

Inductive citem := CFix (U : Op) | CRot (l : label).
Definition item_ok (it : citem) : Prop := match it with CFix U => linear U | CRot _ => True end.

(* run the circuit; the k-th rotation (counted from k0) uses the angle f k *)
Fixpoint crun (items : list citem) (k : nat) (f : nat -> R) (psi : St) : St :=
  match items with
  | [] => psi
  | CFix U :: r => crun r k f (U psi)
  | CRot l :: r => crun r (S k) f (prot (f k) l psi)
  end.
Fixpoint nrot (items : list citem) : nat :=
  match items with [] => 0 | CFix _ :: r => nrot r | CRot _ :: r => S (nrot r) end.

Lemma lsemL_linear l : linear (lsemL l).
Proof. intros a d phi chi. unfold lsemL. apply csem_lin2. Qed.

Lemma prot_split theta l psi :
  prot theta l psi = fun b => RtoC (cos (theta / 2)) * psi b + (- (Ci * RtoC (sin (theta / 2)))) * lsemL l psi b.
Proof. reflexivity. Qed.

Lemma prot_linear theta l : linear (prot theta l).
Proof.
  intros a d phi chi. apply functional_extensionality; intros b. unfold prot.
  rewrite (lsemL_linear l a d phi chi). ring.
Qed.

Lemma crun_linear items : Forall item_ok items -> forall k f, linear (crun items k f).
Proof.
  induction 1 as [|it items Hit _ IH]; intros k f a d phi chi; [reflexivity|].
  destruct it as [U|l]; cbn [crun].
  - rewrite (Hit a d phi chi). apply IH.
  - rewrite (prot_linear (f k) l a d phi chi). apply IH.
Qed.

(* sesquilinearity of the inner product *)
Lemma ip_lin_r Q phi a d chi1 chi2 b0 :
  ip Q phi (fun x => a * chi1 x + d * chi2 x) b0 = a * ip Q phi chi1 b0 + d * ip Q phi chi2 b0.
Proof.
  unfold ip. rewrite <- !asum_scale, <- asum_add. apply asum_ext; intros b. ring.
Qed.
Lemma ip_lin_l Q a d phi1 phi2 chi b0 :
  ip Q (fun x => a * phi1 x + d * phi2 x) chi b0 = Cconj a * ip Q phi1 chi b0 + Cconj d * ip Q phi2 chi b0.
Proof.
  unfold ip. rewrite <- !asum_scale, <- asum_add. apply asum_ext; intros b. rewrite Cconj_add, !Cconj_mul. ring.
Qed.

Lemma half_angle_cos t : (cos (t / 2) * cos (t / 2) = (1 + cos t) / 2)%R.
Proof. replace t with (2 * (t / 2))%R at 3 by field. rewrite cos_2a_cos. field. Qed.
Lemma half_angle_sin t : (sin (t / 2) * sin (t / 2) = (1 - cos t) / 2)%R.
Proof. replace t with (2 * (t / 2))%R at 3 by field. rewrite cos_2a_sin. field. Qed.
Lemma half_angle_mix t : (cos (t / 2) * sin (t / 2) = sin t / 2)%R.
Proof. replace t with (2 * (t / 2))%R at 3 by field. rewrite sin_2a. field. Qed.

Section Expectation.
Variable Q : list nat.
Variable b0 : Basis.
Variable Obs : Op.
Hypothesis Obs_linear : linear Obs.

Definition form (items : list citem) (k : nat) (f : nat -> R) (phi chi : St) : C :=
  ip Q (crun items k f phi) (Obs (crun items k f chi)) b0.

(* one rotation in front of a circuit whose form is already known for the four pairs of states *)
Lemma rot_step theta (E1 E2 E3 E4 : C) (A A' D D' : St) :
  E1 = ip Q A (Obs D) b0 -> E2 = ip Q A (Obs D') b0 -> E3 = ip Q A' (Obs D) b0 -> E4 = ip Q A' (Obs D') b0 ->
  let c := RtoC (cos (theta / 2)) in let s := - (Ci * RtoC (sin (theta / 2))) in
  ip Q (fun x => c * A x + s * A' x) (Obs (fun x => c * D x + s * D' x)) b0
  = RtoC (cos theta) * ((E1 - E4) * RtoC (1 / 2)) + RtoC (sin theta) * (Ci * (E3 - E2) * RtoC (1 / 2)) + (E1 + E4) * RtoC (1 / 2).
Proof.
  intros -> -> -> -> c s. rewrite (Obs_linear c s D D'). rewrite ip_lin_r, !ip_lin_l.
  set (e1 := ip Q A (Obs D) b0). set (e2 := ip Q A (Obs D') b0). set (e3 := ip Q A' (Obs D) b0). set (e4 := ip Q A' (Obs D') b0).
  assert (Hc : (2 * (cos (theta / 2) * cos (theta / 2)) = 1 + cos theta)%R) by (rewrite half_angle_cos; field).
  assert (Hs : (2 * (sin (theta / 2) * sin (theta / 2)) = 1 - cos theta)%R) by (rewrite half_angle_sin; field).
  assert (Hm : (2 * (cos (theta / 2) * sin (theta / 2)) = sin theta)%R) by (rewrite half_angle_mix; field).
  assert (Hh : (2 * (1 / 2) = 1)%R) by field.
  unfold c, s. set (cc := cos (theta / 2)) in *. set (ss := sin (theta / 2)) in *. set (hh := (1 / 2)%R) in *.
  set (ct := cos theta) in *. set (st := sin theta) in *.
  destruct e1 as [x1 y1], e2 as [x2 y2], e3 as [x3 y3], e4 as [x4 y4].
  unfold Csub. unfold Cconj, Copp, Ci, RtoC, Cmul, Cadd. cbn [fst snd]. apply C_eq; cbn [fst snd]; nsatz.
Qed.

Theorem expectation_is_a_trigonometric_tree : forall items, Forall item_ok items ->
  forall k phi chi, exists T : ctree, (cdepth T <= nrot items)%nat /\ forall f, form items k f phi chi = ceval T k f.
Proof.
  induction 1 as [|it items Hit Hok IH]; intros k phi chi.
  - exists (cleaf (ip Q phi (Obs chi) b0)). split; [rewrite cdepth_cleaf; cbn; lia|].
    intros f. rewrite ceval_cleaf. reflexivity.
  - destruct it as [U|l].
    + destruct (IH k (U phi) (U chi)) as [T [Hd HT]]. exists T. split; [exact Hd|]. intros f. apply HT.
    + set (G := lsemL l).
      destruct (IH (S k) phi chi) as [T1 [Hd1 H1]]. destruct (IH (S k) phi (G chi)) as [T2 [Hd2 H2]].
      destruct (IH (S k) (G phi) chi) as [T3 [Hd3 H3]]. destruct (IH (S k) (G phi) (G chi)) as [T4 [Hd4 H4]].
      set (half := RtoC (1 / 2)).
      exists (cnode (cscale half (cadd T1 (cscale (- C1) T4)))
                    (cscale (Ci * half) (cadd T3 (cscale (- C1) T2)))
                    (cscale half (cadd T1 T4))).
      split.
      * rewrite cdepth_cnode. cbn [nrot].
        pose proof (cdepth_cscale half (cadd T1 (cscale (- C1) T4))). pose proof (cdepth_cadd T1 (cscale (- C1) T4)).
        pose proof (cdepth_cscale (- C1) T4). pose proof (cdepth_cscale (Ci * half) (cadd T3 (cscale (- C1) T2))).
        pose proof (cdepth_cadd T3 (cscale (- C1) T2)). pose proof (cdepth_cscale (- C1) T2).
        pose proof (cdepth_cscale half (cadd T1 T4)). pose proof (cdepth_cadd T1 T4). lia.
      * intros f. unfold form. cbn [crun].
        pose proof (crun_linear items Hok (S k) f) as L.
        rewrite !prot_split. fold G. rewrite !L.
        rewrite (rot_step (f k) _ _ _ _ _ _ _ _ (eq_sym (H1 f)) (eq_sym (H2 f)) (eq_sym (H3 f)) (eq_sym (H4 f))).
        rewrite ceval_cnode, !ceval_cscale, !ceval_cadd, !ceval_cscale. unfold half. ring.
Qed.
End Expectation.
Print Assumptions expectation_is_a_trigonometric_tree.
