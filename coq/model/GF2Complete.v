(* Completeness of the Gauss-Jordan model of binary_field.inverse(): on every square matrix with trivial kernel the
   elimination finds a pivot in every column, never adds a row to itself, and ends with the identity on the left - so
   inverse() returns the two-sided inverse exactly on the invertible matrices (GF2.gj_ok_inverse gives soundness). *)
From Coq Require Import ZArith NArith List Bool Arith Lia.
From QPM Require Import Remap Reconstruct GF2.
Import ListNotations.

Lemma dot_comm a x : dot a x = dot x a.
Proof. unfold dot. rewrite N.land_comm. reflexivity. Qed.
Lemma dot_pow2_r a k : dot a (pow2 k) = N.testbit a (N.of_nat k).
Proof. rewrite dot_comm. apply dot_pow2. Qed.
Lemma dot_0_r a : dot a 0 = false.
Proof. rewrite dot_comm. apply dot_0_l. Qed.
Lemma bitof_rxor a b c : bitof (rxor a b) c = xorb (bitof a c) (bitof b c).
Proof. unfold bitof, rxor; cbn [fst]. apply N.lxor_spec. Qed.

Lemma find_up_spec j m : forall k i0,
  match find_up j k i0 m with
  | Some i => i0 <= i < i0 + k /\ bitof (getr m i) j = true
  | None => forall i, i0 <= i < i0 + k -> bitof (getr m i) j = false
  end.
Proof.
  induction k as [|k IH]; intros i0; cbn [find_up]; [intros i Hi; lia|].
  destruct (bitof (getr m i0) j) eqn:E; [split; [lia|exact E]|].
  specialize (IH (S i0)). destruct (find_up j k (S i0) m) as [i|].
  - destruct IH as [H1 H2]. split; [lia|exact H2].
  - intros i Hi. destruct (Nat.eq_dec i i0) as [->|Hne]; [exact E|apply IH; lia].
Qed.

Lemma find_down_first j m : forall k i0, bitof (getr m i0) j = true -> find_down j (S k) i0 m = Some i0.
Proof. intros k i0 H. cbn [find_down]. rewrite H. reflexivity. Qed.
Lemma find_down_skip j m : forall k i0, bitof (getr m i0) j = false -> find_down j (S k) i0 m = find_down j k (pred i0) m.
Proof. intros k i0 H. cbn [find_down]. rewrite H. reflexivity. Qed.

(* ------------------------------------------------------------------ the effect of one elimination sweep *)
Definition inb (k : nat) (l : list nat) : bool := existsb (Nat.eqb k) l.

Lemma sweep_spec (n j p : nat) : forall (l : list nat) (s : st),
  piv s = Some p -> length (rows s) = n -> p < n -> NoDup l -> ~ In p l -> (forall i, In i l -> i < n) ->
  trace_valid n (trace s) = true ->
  exists s', fold_left (fun acc i => add_if j false acc i) l (Some s) = Some s'
    /\ piv s' = Some p /\ length (rows s') = n /\ trace_valid n (trace s') = true
    /\ forall k, getr (rows s') k = if inb k l && bitof (getr (rows s) k) j
                                   then rxor (getr (rows s) k) (getr (rows s) p) else getr (rows s) k.
Proof.
  induction l as [|i l IH]; intros s Hp Hl Hpn Hnd Hpl Hln Hv.
  - exists s. cbn [fold_left inb existsb andb]. repeat split; auto.
  - apply NoDup_cons_iff in Hnd as [Hil Hnd'].
    assert (Hi : i < n) by (apply Hln; left; reflexivity).
    assert (Hip : i <> p) by (intros ->; apply Hpl; left; reflexivity).
    cbn [fold_left add_if].
    destruct (bitof (getr (rows s) i) j) eqn:Eb; cbn [Bool.eqb].
    + rewrite Hp. set (s1 := do_op (Add i p) s).
      assert (Hl1 : length (rows s1) = n) by (unfold s1; cbn [do_op rows]; rewrite apply_op_length; exact Hl).
      assert (Hv1 : trace_valid n (trace s1) = true).
      { unfold s1; cbn [do_op trace trace_valid forallb op_valid]. fold (trace_valid n (trace s)). rewrite Hv, andb_true_r.
        apply andb_true_iff; split; [apply andb_true_iff; split|]; [apply negb_true_iff, Nat.eqb_neq; exact Hip
          |apply Nat.ltb_lt; exact Hi|apply Nat.ltb_lt; exact Hpn]. }
      destruct (IH s1) as [s' [Hf [Hp' [Hl' [Hv' Hr']]]]]; auto.
      { intros H; apply Hpl; right; exact H. } { intros x Hx; apply Hln; right; exact Hx. }
      exists s'. repeat split; auto. intros k. rewrite Hr'.
      assert (G : forall x, getr (rows s1) x = if Nat.eqb x i then rxor (getr (rows s) i) (getr (rows s) p) else getr (rows s) x).
      { intros x. unfold s1; cbn [do_op rows apply_op]. rewrite getr_upd.
        replace (i <? length (rows s)) with true by (symmetry; apply Nat.ltb_lt; lia). rewrite andb_true_r. reflexivity. }
      rewrite !G. destruct (Nat.eqb_spec p i) as [E|_]; [exfalso; apply Hip; symmetry; exact E|].
      cbn [inb existsb]. destruct (Nat.eqb_spec k i) as [->|Hki].
      * assert (Hni : inb i l = false).
        { apply not_true_is_false. intros H. apply existsb_exists in H as [x [Hx E]].
          apply Nat.eqb_eq in E. subst x. contradiction. }
        rewrite Hni. cbn [orb andb]. rewrite Eb. reflexivity.
      * cbn [orb]. fold (inb k l). reflexivity.
    + destruct (IH s) as [s' [Hf [Hp' [Hl' [Hv' Hr']]]]]; auto.
      { intros H; apply Hpl; right; exact H. } { intros x Hx; apply Hln; right; exact Hx. }
      exists s'. repeat split; auto. intros k. rewrite Hr'. cbn [inb existsb].
      destruct (Nat.eqb_spec k i) as [->|Hki]; cbn [orb]; [|fold (inb k l); reflexivity].
      rewrite Eb, andb_false_r. destruct (inb i l); reflexivity.
Qed.

Lemma inb_seq k a len : inb k (seq a len) = (a <=? k) && (k <? a + len).
Proof.
  unfold inb. destruct ((a <=? k) && (k <? a + len)) eqn:E.
  - apply andb_true_iff in E as [E1 E2]. apply Nat.leb_le in E1. apply Nat.ltb_lt in E2.
    apply existsb_exists. exists k. split; [apply in_seq; lia|apply Nat.eqb_refl].
  - apply not_true_is_false. intros H. apply existsb_exists in H as [x [Hx Ex]]. apply Nat.eqb_eq in Ex. subst x.
    apply in_seq in Hx. apply andb_false_iff in E as [E|E]; [apply Nat.leb_gt in E|apply Nat.ltb_ge in E]; lia.
Qed.
Lemma inb_rev k l : inb k (rev l) = inb k l.
Proof.
  unfold inb. destruct (existsb (Nat.eqb k) l) eqn:E.
  - apply existsb_exists in E as [x [Hx Ex]]. apply existsb_exists. exists x. split; [apply in_rev in Hx; exact Hx|exact Ex].
  - apply not_true_is_false. intros H. apply existsb_exists in H as [x [Hx Ex]]. apply in_rev in Hx.
    assert (T : existsb (Nat.eqb k) l = true) by (apply existsb_exists; exists x; auto). congruence.
Qed.

Section Complete.
Variable M : list N.
Notation n := (length M).
(* square: no row has a bit beyond the width; trivial kernel on vectors of that width *)
Hypothesis Msq : forall r, In r M -> fits n r.
Hypothesis Mker : forall y, fits n y -> mulv M y = 0%N -> y = 0%N.

(* columns k < j are done: unit diagonal, zeros below *)
Definition tri (j : nat) (m : list row) : Prop :=
  forall k i, k < j -> k <= i < n -> bitof (getr m i) k = Nat.eqb i k.

(* back substitution: a vector y with (left part) y = 0 and y_j = 1 *)
Fixpoint kerv (m : list row) (k : nat) (y : N) : N :=
  match k with
  | 0 => y
  | S k' => kerv m k' (if dot (fst (getr m k')) y then N.lxor y (pow2 k') else y)
  end.

Lemma kerv_spec m j : tri j m -> forall k, k <= j -> j <= n -> forall y,
  (forall i, k <= i < n -> dot (fst (getr m i)) y = false) ->
  (forall i, i < n -> dot (fst (getr m i)) (kerv m k y) = false)
  /\ (forall c, k <= c -> N.testbit (kerv m k y) (N.of_nat c) = N.testbit y (N.of_nat c)).
Proof.
  intros Ht. induction k as [|k IH]; intros Hk Hj y Hy; cbn [kerv].
  - split; [intros i Hi; apply Hy; lia|reflexivity].
  - set (y' := if dot (fst (getr m k)) y then N.lxor y (pow2 k) else y).
    assert (Hy' : forall i, k <= i < n -> dot (fst (getr m i)) y' = false).
    { intros i Hi. unfold y'. destruct (dot (fst (getr m k)) y) eqn:E.
      - rewrite dot_lxor_r, dot_pow2_r. fold (bitof (getr m i) k). rewrite (Ht k i) by lia.
        destruct (Nat.eqb_spec i k) as [->|Hne]; [rewrite E; reflexivity|]. rewrite Hy by lia. reflexivity.
      - destruct (Nat.eq_dec i k) as [->|Hne]; [exact E|apply Hy; lia]. }
    destruct (IH ltac:(lia) Hj y' Hy') as [H1 H2]. split; [exact H1|].
    intros c Hc. rewrite H2 by lia. unfold y'. destruct (dot (fst (getr m k)) y); [|reflexivity].
    rewrite N.lxor_spec, pow2_testbit. destruct (Nat.eqb_spec c k); [lia|]. apply xorb_false_r.
Qed.

(* a column without pivot contradicts the trivial kernel *)
Lemma pivot_exists m j : length m = n -> inv1 M m -> inv2 M m -> tri j m -> j < n ->
  (forall i, j <= i < n -> bitof (getr m i) j = false) -> False.
Proof.
  intros Hl I1 I2 Ht Hj Hcol.
  assert (Hy0 : forall i, j <= i < n -> dot (fst (getr m i)) (pow2 j) = false).
  { intros i Hi. rewrite dot_pow2_r. apply Hcol. exact Hi. }
  destruct (kerv_spec m j Ht j (le_n j) ltac:(lia) (pow2 j) Hy0) as [K1 K2].
  set (y := kerv m j (pow2 j)) in *.
  assert (Fy : fits n y).
  { intros c Hc. rewrite K2 by lia. rewrite pow2_testbit. apply Nat.eqb_neq. lia. }
  assert (Z : mulv M y = 0%N).
  { apply I2; [apply mulv_fits|]. intros k Hk. rewrite <- I1. apply K1. lia. }
  apply Mker in Z; [|exact Fy].
  assert (B : N.testbit y (N.of_nat j) = true) by (rewrite K2 by lia; rewrite pow2_testbit; apply Nat.eqb_refl).
  rewrite Z, N.bits_0 in B. discriminate.
Qed.

(* state invariant carried through both passes *)
Definition good (s : st) : Prop :=
  length (rows s) = n /\ trace_valid n (trace s) = true /\ inv1 M (rows s) /\ inv2 M (rows s).

Lemma good_of_sinv s : sinv M s -> trace_valid n (trace s) = true -> good s.
Proof. intros [Hl H] Hv. destruct (H Hv) as [I1 I2]. repeat split; auto. Qed.

Lemma fwd_step s j : good s -> tri j (rows s) -> j < n -> sinv M s ->
  exists s', fwd n (Some s) j = Some s' /\ good s' /\ tri (S j) (rows s') /\ sinv M s'.
Proof.
  intros [Hl [Hv [I1 I2]]] Ht Hj Hs. cbn [fwd].
  pose proof (find_up_spec j (rows s) (n - j) j) as F.
  destruct (find_up j (n - j) j (rows s)) as [i|].
  2:{ exfalso. apply (pivot_exists (rows s) j Hl I1 I2 Ht Hj). intros i Hi. apply F. lia. }
  destruct F as [Hi Hb].
  (* the state after the swap *)
  set (s0 := if Nat.eqb i j then s else do_op (Swap i j) s).
  assert (G0 : forall x, getr (rows s0) x = if Nat.eqb x j then getr (rows s) i else if Nat.eqb x i then getr (rows s) j else getr (rows s) x).
  { intros x. unfold s0. destruct (Nat.eqb_spec i j) as [->|Hne].
    - destruct (Nat.eqb_spec x j) as [->|_]; reflexivity.
    - cbn [do_op rows apply_op]. rewrite !getr_upd, upd_length.
      replace (i <? length (rows s)) with true by (symmetry; apply Nat.ltb_lt; lia).
      replace (j <? length (rows s)) with true by (symmetry; apply Nat.ltb_lt; lia). rewrite !andb_true_r.
      destruct (Nat.eqb_spec x i) as [->|Hxi].
      + destruct (Nat.eqb_spec i j); [contradiction|reflexivity].
      + reflexivity. }
  assert (S0 : sinv M s0) by (unfold s0; destruct (Nat.eqb i j); [exact Hs|apply do_op_sinv; exact Hs]).
  assert (V0 : trace_valid n (trace s0) = true).
  { unfold s0. destruct (Nat.eqb i j); [exact Hv|]. cbn [do_op trace trace_valid forallb op_valid].
    fold (trace_valid n (trace s)). rewrite Hv, andb_true_r. apply andb_true_iff; split; apply Nat.ltb_lt; lia. }
  set (s1 := mkSt (rows s0) (Some j) (trace s0)).
  assert (L1 : length (rows s1) = n) by (cbn [s1 rows]; destruct S0 as [L _]; exact L).
  (* the sweep over rows j .. n-1: row j itself is left alone *)
  replace (n - j) with (S (n - S j)) by lia. cbn [seq fold_left add_if].
  assert (Bjj : bitof (getr (rows s1) j) j = true).
  { cbn [s1 rows]. rewrite G0, Nat.eqb_refl. exact Hb. }
  rewrite Bjj, Nat.eqb_refl. cbn [Bool.eqb].
  assert (Ext : forall l acc, (forall x, In x l -> x <> j) ->
            fold_left (fun acc i => add_if j (Nat.eqb i j) acc i) l acc = fold_left (fun acc i => add_if j false acc i) l acc).
  { induction l as [|x l IHl]; intros acc Hx; [reflexivity|]. cbn [fold_left].
    replace (Nat.eqb x j) with false by (symmetry; apply Nat.eqb_neq; apply Hx; left; reflexivity).
    apply IHl. intros y Hy; apply Hx; right; exact Hy. }
  rewrite Ext by (intros x Hx; apply in_seq in Hx; lia).
  destruct (sweep_spec n j j (seq (S j) (n - S j)) s1) as [s' [Hf [Hp' [Hl' [Hv' Hr']]]]]; auto.
  { apply seq_NoDup. } { intros H; apply in_seq in H; lia. } { intros x Hx; apply in_seq in Hx; lia. }
  exists s'. split; [exact Hf|].
  assert (S' : sinv M s').
  { pose proof (fold_add_if_oinv M j (fun _ => false) (seq (S j) (n - S j)) (Some s1)) as O.
    cbn [oinv] in O. rewrite Hf in O. apply O. exact S0. }
  split; [apply good_of_sinv; assumption|]. split; [|exact S'].
  (* the triangular shape *)
  assert (R1 : forall x, getr (rows s1) x = getr (rows s0) x) by reflexivity.
  intros k x Hk Hx. rewrite Hr', inb_seq, !R1, !G0, Nat.eqb_refl.
  assert (Tlow : forall r c, c < j -> j <= r < n -> bitof (getr (rows s) r) c = false).
  { intros r c Hc Hr. rewrite (Ht c r) by lia. apply Nat.eqb_neq. lia. }
  destruct (Nat.eq_dec k j) as [->|Hkj].
  - (* the new column *)
    destruct (Nat.eqb_spec x j) as [->|Hxj].
    + replace (S j <=? j) with false by (symmetry; apply Nat.leb_gt; lia). cbn [andb]. exact Hb.
    + assert (Hxgt : S j <= x) by lia.
      replace (S j <=? x) with true by (symmetry; apply Nat.leb_le; exact Hxgt).
      replace (x <? S j + (n - S j)) with true by (symmetry; apply Nat.ltb_lt; lia). cbn [andb].
      destruct (bitof (if Nat.eqb x i then getr (rows s) j else getr (rows s) x) j) eqn:E.
      * rewrite bitof_rxor, E, Hb. reflexivity.
      * exact E.
  - (* the columns done before *)
    assert (Hkl : k < j) by lia.
    destruct (Nat.eqb_spec x j) as [->|Hxj].
    + replace (S j <=? j) with false by (symmetry; apply Nat.leb_gt; lia). cbn [andb].
      rewrite Tlow by lia. symmetry; apply Nat.eqb_neq; lia.
    + destruct (Nat.le_gt_cases (S j) x) as [Hge|Hlt].
      * assert (Bx : bitof (if Nat.eqb x i then getr (rows s) j else getr (rows s) x) k = false).
        { destruct (Nat.eqb x i); apply Tlow; lia. }
        assert (E : (x =? k) = false) by (apply Nat.eqb_neq; lia). rewrite E.
        destruct (_ && _); [rewrite bitof_rxor, Bx, Tlow by lia; reflexivity|exact Bx].
      * replace (S j <=? x) with false by (symmetry; apply Nat.leb_gt; lia). cbn [andb].
        destruct (Nat.eqb_spec x i) as [->|Hxi]; [lia|]. apply Ht; lia.
Qed.

Lemma fwd_all : forall len a s, a + len = n -> good s -> tri a (rows s) -> sinv M s ->
  exists s', fold_left (fwd n) (seq a len) (Some s) = Some s' /\ good s' /\ tri n (rows s') /\ sinv M s'.
Proof.
  induction len as [|len IH]; intros a s Ha Hg Ht Hs; cbn [seq fold_left].
  - exists s. replace n with a by lia. auto.
  - destruct (fwd_step s a Hg Ht ltac:(lia) Hs) as [s1 [E [Hg1 [Ht1 Hs1]]]]. rewrite E.
    apply IH; auto. lia.
Qed.

(* columns c >= j are done in every row *)
Definition diag (j : nat) (m : list row) : Prop :=
  forall c i, j <= c < n -> i < n -> bitof (getr m i) c = Nat.eqb i c.

Lemma find_down_tri j m : forall d,
  (forall i, j < i <= j + d -> bitof (getr m i) j = false) -> bitof (getr m j) j = true ->
  find_down j (S d) (j + d) m = Some j.
Proof.
  induction d as [|d IH]; intros Hz Hj.
  - rewrite Nat.add_0_r. apply find_down_first. exact Hj.
  - rewrite find_down_skip by (apply Hz; lia). replace (pred (j + S d)) with (j + d) by lia.
    apply IH; [intros i Hi; apply Hz; lia|exact Hj].
Qed.

Lemma bwd_step s j : good s -> tri n (rows s) -> diag (S j) (rows s) -> j < n -> sinv M s ->
  exists s', bwd n (Some s) j = Some s' /\ good s' /\ tri n (rows s') /\ diag j (rows s') /\ sinv M s'.
Proof.
  intros [Hl [Hv [I1 I2]]] Ht Hd Hj Hs. cbn [bwd].
  assert (Bjj : bitof (getr (rows s) j) j = true) by (rewrite (Ht j j) by lia; apply Nat.eqb_refl).
  assert (F : find_down j (n - j) (n - 1) (rows s) = Some j).
  { replace (n - j) with (S (n - 1 - j)) by lia. replace (n - 1) with (j + (n - 1 - j)) at 2 by lia.
    apply find_down_tri; [|exact Bjj]. intros i Hi. rewrite (Ht j i) by lia. apply Nat.eqb_neq. lia. }
  rewrite F. set (s1 := mkSt (rows s) (Some j) (trace s)).
  destruct (sweep_spec n j j (rev (seq 0 j)) s1) as [s' [Hf [Hp' [Hl' [Hv' Hr']]]]]; auto.
  { apply NoDup_rev, seq_NoDup. } { intros H; apply in_rev, in_seq in H; lia. }
  { intros x Hx; apply in_rev, in_seq in Hx; lia. }
  exists s'. split; [exact Hf|].
  assert (S' : sinv M s').
  { pose proof (fold_add_if_oinv M j (fun _ => false) (rev (seq 0 j)) (Some s1)) as O.
    cbn [oinv] in O. rewrite Hf in O. apply O. exact Hs. }
  split; [apply good_of_sinv; assumption|].
  assert (Rj : forall c, c < n -> bitof (getr (rows s) j) c = Nat.eqb j c).
  { intros c Hc. destruct (Nat.lt_trichotomy c j) as [H|[->|H]].
    - apply Ht; lia. - rewrite Nat.eqb_refl; exact Bjj. - apply Hd; lia. }
  assert (New : forall i c, i < n -> c < n ->
            bitof (getr (rows s') i) c = if (i <? j) && bitof (getr (rows s) i) j
                                        then xorb (bitof (getr (rows s) i) c) (Nat.eqb j c) else bitof (getr (rows s) i) c).
  { intros i c Hi Hc. rewrite Hr', inb_rev, inb_seq. cbn [s1 rows]. cbn [Nat.leb andb Nat.add].
    destruct ((i <? j) && bitof (getr (rows s) i) j); [rewrite bitof_rxor, Rj by exact Hc|]; reflexivity. }
  split; [|split; [|exact S']].
  - intros k i Hk Hi. rewrite New by lia.
    destruct (Nat.ltb_spec i j) as [Hij|Hij]; cbn [andb]; [|apply Ht; lia].
    destruct (bitof (getr (rows s) i) j); [|apply Ht; lia].
    replace (j =? k) with false by (symmetry; apply Nat.eqb_neq; lia). rewrite xorb_false_r. apply Ht; lia.
  - intros c i Hc Hi. rewrite New by lia.
    destruct (Nat.eq_dec c j) as [->|Hcj].
    + destruct (Nat.ltb_spec i j) as [Hij|Hij]; cbn [andb].
      * destruct (bitof (getr (rows s) i) j) eqn:E.
        -- rewrite Nat.eqb_refl. cbn [xorb]. symmetry; apply Nat.eqb_neq; lia.
        -- symmetry; apply Nat.eqb_neq; lia.
      * apply Ht; lia.
    + assert (Hd' : bitof (getr (rows s) i) c = Nat.eqb i c) by (apply Hd; lia).
      destruct (_ && _); [|exact Hd'].
      replace (j =? c) with false by (symmetry; apply Nat.eqb_neq; lia). rewrite xorb_false_r. exact Hd'.
Qed.

Lemma bwd_all : forall k s, k <= n -> good s -> tri n (rows s) -> diag k (rows s) -> sinv M s ->
  exists s', fold_left (bwd n) (rev (seq 0 k)) (Some s) = Some s' /\ good s' /\ diag 0 (rows s').
Proof.
  induction k as [|k IH]; intros s Hk Hg Ht Hd Hs.
  - exists s. cbn [seq rev fold_left]. auto.
  - rewrite seq_S, rev_unit. cbn [Nat.add fold_left].
    destruct (bwd_step s k Hg Ht Hd ltac:(lia) Hs) as [s1 [E [Hg1 [Ht1 [Hd1 Hs1]]]]]. rewrite E.
    apply IH; auto. lia.
Qed.

Lemma mulv_beyond c : n <= c -> mulv M (pow2 c) = 0%N.
Proof.
  intros Hc. apply (fits_zero M); [apply mulv_fits|]. intros k Hk. rewrite mulv_testbit.
  replace (k <? n) with true by (symmetry; apply Nat.ltb_lt; exact Hk).
  rewrite dot_pow2_r. apply Msq; [apply nth_In; exact Hk|exact Hc].
Qed.

(* the elimination succeeds on every square matrix with trivial kernel *)
Theorem gj_complete : exists B, gj_ok M B.
Proof.
  assert (G0 : good (mkSt (init_rows M) None [])).
  { apply good_of_sinv; [apply init_sinv|reflexivity]. }
  destruct (fwd_all n 0 _ (Nat.add_0_l n) G0) as [s1 [E1 [Hg1 [Ht1 Hs1]]]].
  { intros k i Hk; lia. } { apply init_sinv. }
  destruct (bwd_all n s1 (le_n n) Hg1 Ht1) as [s2 [E2 [[Hl [Hv [I1 I2]]] Hd]]].
  { intros c i Hc; lia. } { exact Hs1. }
  exists (map snd (rows s2)), s2. unfold gj. rewrite E1, E2. repeat split; auto.
  apply (nth_ext _ _ 0%N 0%N); [rewrite !map_length, seq_length; exact Hl|].
  intros i Hi0. assert (Hi : i < n).
  { rewrite map_length in Hi0. exact (eq_ind _ (fun x => i < x) Hi0 _ Hl). }
  change 0%N with (fst (0%N, 0%N)) at 1. rewrite map_nth. fold (getr (rows s2) i).
  rewrite (nth_indep _ 0%N (pow2 0)) by (rewrite map_length, seq_length; exact Hi).
  rewrite map_nth, seq_nth by exact Hi. cbn [Nat.add].
  apply testbit_ext_nat. intros c. rewrite pow2_testbit.
  destruct (Nat.lt_ge_cases c n) as [Hc|Hc].
  - transitivity (bitof (getr (rows s2) i) c); [reflexivity|]. rewrite Hd by lia. apply Nat.eqb_sym.
  - transitivity (N.testbit (fst (getr (rows s2) i)) (N.of_nat c)); [reflexivity|].
    rewrite <- dot_pow2_r, I1, mulv_beyond, dot_0_r by exact Hc. symmetry; apply Nat.eqb_neq; lia.
Qed.

(* inverse() returns a two-sided inverse of every invertible matrix *)
Theorem inverse_total : exists B, inverse M = Some B /\ gj_check M = Some B
  /\ forall y, fits n y -> mulv B (mulv M y) = y /\ mulv M (mulv B y) = y.
Proof.
  destruct gj_complete as [B HB]. exists B. pose proof HB as [s [Hg [Hv [Hf Hs]]]].
  split; [unfold inverse; rewrite Hg, Hs; reflexivity|]. split.
  - unfold gj_check. rewrite Hg, Hv. cbn [andb].
    assert (E : list_eqb (map fst (rows s)) (map pow2 (seq 0 n)) = true).
    { rewrite Hf. clear. induction (map pow2 (seq 0 n)) as [|x l IH]; [reflexivity|]. cbn [list_eqb]. rewrite N.eqb_refl, IH. reflexivity. }
    rewrite E, Hs. reflexivity.
  - apply gj_ok_inverse. exact HB.
Qed.
End Complete.

(* a left inverse is enough *)
Corollary inverse_total_of_left_inverse M L :
  (forall r, In r M -> fits (length M) r) ->
  (forall y, fits (length M) y -> mulv L (mulv M y) = y) ->
  exists B, inverse M = Some B
    /\ forall y, fits (length M) y -> mulv B (mulv M y) = y /\ mulv M (mulv B y) = y.
Proof.
  intros Hsq HL. destruct (inverse_total M Hsq) as [B [H1 [_ H2]]].
  - intros y Hy Hz. rewrite <- (HL y Hy), Hz. unfold mulv.
    assert (Z : forall m i, mulv_from i m 0 = 0%N).
    { induction m as [|r m IH]; intros i; cbn [mulv_from]; [reflexivity|]. rewrite dot_0_r, IH. reflexivity. }
    apply Z.
  - exists B. split; assumption.
Qed.

(* non-vacuity: a 3 x 3 invertible matrix (rows as bit masks) meets both hypotheses *)
Example complete_somewhere : inverse [3; 2; 5]%N = Some [3; 2; 7]%N.
Proof. vm_compute. reflexivity. Qed.

Example complete_hypotheses_met :
  (forall r, In r [3; 2; 5]%N -> fits 3 r)
  /\ (forall y, fits 3 y -> mulv [3; 2; 7]%N (mulv [3; 2; 5]%N y) = y).
Proof.
  split.
  - intros r Hr k Hk. apply N.bits_above_log2.
    assert (L : (N.log2 r <= 2)%N) by (cbn [In] in Hr; destruct Hr as [<-|[<-|[<-|[]]]]; cbn; lia). lia.
  - intros y Hy. apply (gj_ok_inverse [3; 2; 5]%N [3; 2; 7]%N); [|exact Hy].
    apply gj_check_ok. vm_compute. reflexivity.
Qed.
