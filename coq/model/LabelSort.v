(* PauliLabel.__str__ lists the factors sorted by qubit index: sorted(self, key=lambda t: t[0]).  A label is a frozenset of pairs,
   so the order in which a constructor received the pairs must not matter: str_of below (insertion sort by index, then show) gives
   the same string for every listing of the same pairs. *)
From Coq Require Import ZArith NArith List Bool Lia ZifyBool ZifyN Permutation String.
From QPM Require Import LabelString.
Import ListNotations.

Fixpoint insert (x : N * sp) (l : list (N * sp)) : list (N * sp) :=
  match l with
  | [] => [x]
  | y :: r => if (fst x <=? fst y)%N then x :: l else y :: insert x r
  end.
Definition sort_by_index (l : list (N * sp)) : list (N * sp) := fold_right insert [] l.
Definition str_of (l : list (N * sp)) : string := show (sort_by_index l).

Lemma insert_comm x y l : fst x <> fst y -> insert x (insert y l) = insert y (insert x l).
Proof.
  intros Hxy. induction l as [|z r IH]; cbn [insert].
  - destruct (fst x <=? fst y)%N eqn:E1, (fst y <=? fst x)%N eqn:E2; try reflexivity; lia.
  - destruct (fst y <=? fst z)%N eqn:Ey, (fst x <=? fst z)%N eqn:Ex; cbn [insert]; rewrite ?Ex, ?Ey.
    + destruct (fst x <=? fst y)%N eqn:E1, (fst y <=? fst x)%N eqn:E2; try reflexivity; lia.
    + destruct (fst x <=? fst y)%N eqn:E1; [lia | reflexivity].
    + destruct (fst y <=? fst x)%N eqn:E2; [lia | reflexivity].
    + now rewrite IH.
Qed.

Lemma insert_perm x l : Permutation (insert x l) (x :: l).
Proof.
  induction l as [|y r IH]; cbn [insert]; [reflexivity|]. destruct (fst x <=? fst y)%N; [reflexivity|].
  rewrite IH. apply perm_swap.
Qed.
Lemma sort_perm l : Permutation (sort_by_index l) l.
Proof. induction l as [|x l IH]; cbn; [reflexivity|]. rewrite insert_perm. now constructor. Qed.

(* the sorted listing does not depend on the order in which the pairs were given *)
Lemma sort_of_permutation l1 l2 : Permutation l1 l2 -> NoDup (map fst l1) -> sort_by_index l1 = sort_by_index l2.
Proof.
  intros P. induction P as [|x l l' P IH|x y l|l l' l'' P1 IH1 P2 IH2]; intros Hnd; cbn [sort_by_index fold_right].
  - reflexivity.
  - inversion Hnd; subst. unfold sort_by_index in IH. now rewrite IH.
  - apply insert_comm. cbn [map] in Hnd. inversion Hnd as [|? ? Hni _]; subst. intros E. apply Hni. left. now symmetry.
  - rewrite IH1 by exact Hnd. apply IH2. eapply Permutation_NoDup; [apply Permutation_map; exact P1 | exact Hnd].
Qed.

Theorem string_form_ignores_listing_order l1 l2 :
  Permutation l1 l2 -> NoDup (map fst l1) -> str_of l1 = str_of l2.
Proof. intros P H. unfold str_of. now rewrite (sort_of_permutation l1 l2 P H). Qed.

(* and it still parses back to the same set of pairs *)
Theorem string_form_parses_to_the_same_pairs l :
  NoDup (map fst l) -> exists r, parse (str_of l) = Some r /\ Permutation r l.
Proof.
  intros H. exists (sort_by_index l). split; [|apply sort_perm].
  apply parse_show. eapply Permutation_NoDup; [apply Permutation_map, Permutation_sym, sort_perm | exact H].
Qed.

Example str_of_example : str_of [(12%N, SZ); (0%N, SX); (3%N, SY)] = "X0 Y3 Z12"%string.
Proof. vm_compute. reflexivity. Qed.

(* executable view for the correspondence check: the pairs in the order the harness drew them *)
Definition run_str (l : list (N * N)) : list Z := codes (str_of (map (fun ip => (fst ip, sp_of (snd ip))) l)).
