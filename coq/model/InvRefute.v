(* The recorded finding of C12 as a theorem about the model: a table row that negates the angles of U2 in place
   (what inverse_gate does) is not an inverse - witness U2(0, 0). *)
From Coq Require Import String ZArith List Bool Arith Lia Reals Lra.
From QP Require Import Cx Zw Asum FMat Lpoly Apply Local Gates Rsem.
From QPM Require Import Transpile Pauli Inverse.
Import ListNotations.
Local Open Scope C_scope.

Definition u2_row_as_in_the_code : gkind * gate := (KU2, mkG KU2 [0%nat] [ang_neg (ang_var 0); ang_neg (ang_var 1)]).

Lemma lsem_1q M q psi b :
  lsem (M, [q]) psi b = M [b q] [false] * psi (bset b q false) + M [b q] [true] * psi (bset b q true).
Proof. unfold lsem, apply. cbn [fst snd asum rd map]. rewrite !bset_eq. reflexivity. Qed.

Theorem negating_u2_angles_is_not_the_inverse tab q ig :
  inv_lookup tab KU2 = Some ig ->
  inst (theta_of (mkC KU2 [q] [0%R; 0%R])) (pi_of [q]) ig = mkC KU2 [q] [0%R; 0%R] ->   (* the row negates the angles *)
  ~ (csem [rsem (mkC KU2 [q] [0%R; 0%R]); rsem (inverse_gate tab (mkC KU2 [q] [0%R; 0%R]))] ≃ csem []).
Proof.
  intros Hrow Hinst [c [Hc H]].
  set (psi0 := fun b : Basis => if b q then C0 else C1).
  set (b0 := fun _ : nat => false).
  specialize (H psi0 b0).
  unfold inverse_gate in H. cbn [ck cqs] in H. rewrite Hrow, Hinst in H.
  unfold csem in H. cbn [fold_left] in H. unfold rsem in H. cbn [ck cps cqs rmat] in H.
  set (M := m2C (RtoC rh) (- (RtoC rh * Cexp 0)) (RtoC rh * Cexp 0) (RtoC rh * Cexp (0 + 0))) in H.
  rewrite (lsem_1q M q (lsem (M, [q]) psi0) b0) in H.
  rewrite (lsem_1q M q psi0 (bset b0 q false)), (lsem_1q M q psi0 (bset b0 q true)) in H.
  unfold psi0, b0 in H. rewrite !bset_bset, !bset_eq in H. unfold M in H.
  unfold m2C in H. cbn [bset] in H. rewrite Cexp_0 in H.
  assert (Hz : c = C0) by (transitivity (c * C1); [ring|rewrite <- H; ring]).
  rewrite Hz in Hc. unfold Cunit, Cnorm2, C0 in Hc. cbn in Hc. lra.
Qed.

Definition u3_row_as_in_the_code : gkind * gate :=
  (KU3, mkG KU3 [0%nat] [ang_neg (ang_var 0); ang_neg (ang_var 1); ang_neg (ang_var 2)]).

Theorem negating_u3_angles_is_not_the_inverse tab q ig :
  inv_lookup tab KU3 = Some ig ->
  inst (theta_of (mkC KU3 [q] [PI; (PI / 2)%R; 0%R])) (pi_of [q]) ig = mkC KU3 [q] [(- PI)%R; (- (PI / 2))%R; 0%R] ->
  ~ (csem [rsem (mkC KU3 [q] [PI; (PI / 2)%R; 0%R]); rsem (inverse_gate tab (mkC KU3 [q] [PI; (PI / 2)%R; 0%R]))] ≃ csem []).
Proof.
  intros Hrow Hinst [c [Hc H]].
  set (psi0 := fun b : Basis => if b q then C0 else C1).
  set (psi1 := fun b : Basis => if b q then C1 else C0).
  set (b0 := fun _ : nat => false).
  set (b1 := fun i : nat => Nat.eqb i q).
  pose proof (H psi0 b0) as H0. pose proof (H psi1 b1) as H1. clear H.
  unfold inverse_gate in H0, H1. cbn [ck cqs] in H0, H1. rewrite Hrow, Hinst in H0, H1.
  unfold csem in H0, H1. cbn [fold_left] in H0, H1. unfold rsem in H0, H1. cbn [ck cps cqs rmat] in H0, H1.
  assert (T1 : cos (PI / 2) = 0%R) by apply cos_PI2.
  assert (T2 : sin (PI / 2) = 1%R) by apply sin_PI2.
  assert (T3 : cos (- PI / 2) = 0%R) by (replace (- PI / 2)%R with (- (PI / 2))%R by lra; rewrite cos_neg; exact T1).
  assert (T4 : sin (- PI / 2) = (-1)%R) by (replace (- PI / 2)%R with (- (PI / 2))%R by lra; rewrite sin_neg, T2; reflexivity).
  rewrite T1, T2, T3, T4 in H0, H1.
  set (M := m2C (RtoC 0) (- (Cexp 0 * RtoC 1)) (Cexp (PI / 2) * RtoC 1) (Cexp (PI / 2 + 0) * RtoC 0)) in H0, H1.
  set (M' := m2C (RtoC 0) (- (Cexp 0 * RtoC (-1))) (Cexp (- (PI / 2)) * RtoC (-1)) (Cexp (- (PI / 2) + 0) * RtoC 0)) in H0, H1.
  rewrite (lsem_1q M' q (lsem (M, [q]) psi0) b0) in H0. rewrite (lsem_1q M' q (lsem (M, [q]) psi1) b1) in H1.
  rewrite (lsem_1q M q psi0 (bset b0 q false)), (lsem_1q M q psi0 (bset b0 q true)) in H0.
  rewrite (lsem_1q M q psi1 (bset b1 q false)), (lsem_1q M q psi1 (bset b1 q true)) in H1.
  unfold psi0, psi1, b0, b1 in H0, H1. rewrite !bset_bset, !bset_eq, ?Nat.eqb_refl in H0, H1.
  unfold M, M', m2C in H0, H1.
  rewrite Cexp_0, Cexp_PI2 in H0. rewrite Nat.eqb_refl, Cexp_0, Cexp_neg, Cexp_PI2 in H1.
  assert (E0 : c = Ci).
  { transitivity (c * C1); [ring|]. rewrite <- H0. unfold RtoC, Ci, C1, C0. apply C_eq; cbn; ring. }
  assert (E1 : c = (- Ci)%C).
  { transitivity (c * C1); [ring|]. rewrite <- H1. unfold Cconj, RtoC, Ci, C1, C0. apply C_eq; cbn; ring. }
  rewrite E0 in E1. unfold Ci, Copp in E1. cbn in E1. injection E1 as E1. lra.
Qed.
