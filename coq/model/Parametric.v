(* Model of circuit/circuit_linear_mapped.py + circuit/parameter_mapping.py: linear-mapped parametric
   circuits as built by any history of add-parameter / add-gate / add-parametric-gate / extend / + /
   copy operations over several live circuits that may share parameters, and their binding.

   Concrete level (what the code stores): a body of gates in which a parametric gate only carries its
   own "out" parameter, plus a mapping out-parameter -> affine function of the "in" parameters; mappings
   are merged on extend.  Parameters are identities (pid), allocated from one counter (object identity
   in Python).
   Abstract level (what a user means): a list of gates in which a parametric gate carries its affine
   angle function directly.
   Main theorem: every history refines the abstract level, i.e. the indirection through out-parameters
   and merged mappings never changes which function a gate carries; binding then evaluates exactly
   those functions; shared parameters are identified and distinct ones are independent. *)
From Coq Require Import List Arith Bool Lia.
Import ListNotations.

Definition pid := nat.

Definition memb (p : pid) (l : list pid) : bool := existsb (Nat.eqb p) l.
(* tuple(dict.fromkeys(l)) *)
Fixpoint dedup_acc (seen l : list pid) : list pid :=
  match l with
  | [] => []
  | p :: l' => if memb p seen then dedup_acc seen l' else p :: dedup_acc (p :: seen) l'
  end.
Definition dedup (l : list pid) : list pid := dedup_acc [] l.


Lemma memb_In p l : memb p l = true <-> In p l.
Proof. unfold memb. rewrite existsb_exists. split; [intros [x [Hx E]]; apply Nat.eqb_eq in E; subst; auto|].
  intros H. exists p. split; [auto|apply Nat.eqb_refl]. Qed.

Lemma dedup_acc_spec seen l :
  NoDup (dedup_acc seen l) /\ (forall p, In p (dedup_acc seen l) <-> In p l /\ ~ In p seen).
Proof.
  revert seen. induction l as [|q l IH]; intros seen; simpl.
  - split; [constructor|]. intros p. tauto.
  - destruct (memb q seen) eqn:Em.
    + apply memb_In in Em. destruct (IH seen) as [Hnd Hin]. split; [exact Hnd|].
      intros p. rewrite Hin. split; [tauto|]. intros [[->|Hp] Hs]; [contradiction|tauto].
    + assert (Hq : ~ In q seen) by (intros Hc; apply memb_In in Hc; congruence).
      destruct (IH (q :: seen)) as [Hnd Hin]. split.
      * constructor; [|exact Hnd]. rewrite Hin. simpl. tauto.
      * intros p. simpl. rewrite Hin. simpl. split.
        -- intros [->|[Hp Hs]]; [tauto|]. split; [tauto|]. intros Hc. apply Hs. right. exact Hc.
        -- intros [[->|Hp] Hs]; [left; reflexivity|].
           destruct (Nat.eq_dec q p) as [->|Hne]; [left; reflexivity|]. right. split; [exact Hp|].
           intros [E|Hc]; [contradiction|contradiction].
Qed.
Lemma dedup_NoDup l : NoDup (dedup l).
Proof. apply (dedup_acc_spec [] l). Qed.
Lemma dedup_In l p : In p (dedup l) <-> In p l.
Proof. unfold dedup. destruct (dedup_acc_spec [] l) as [_ H]. rewrite H. simpl. tauto. Qed.


Section Param.
Set Default Proof Using "Type".
Variable G : Type.                       (* non-parametric gates *)
Variable K : Type.                       (* coefficients / angles *)
Variables (kadd kmul : K -> K -> K) (k0 k1 : K).

(* ParameterOrLinearFunction: a Parameter, or a dict {Parameter or CONST : coefficient} *)
Inductive afun := Alias (p : pid) | Lin (ts : list (option pid * K)).
Inductive pkind := PRX | PRY | PRZ | PPR (ids : list nat).
Inductive pgate := Fixed (g : G) | PG (k : pkind) (qs : list nat) (out : pid).
Record lmc := mkLM { nq : nat; ins : list pid; outs : list pid; pmap : list (pid * afun); body : list pgate }.

Definition fparams (f : afun) : list pid :=
  match f with
  | Alias p => [p]
  | Lin ts => flat_map (fun t => match fst t with Some p => [p] | None => [] end) ts
  end.

(* mapper: sum(c * in_param_vals[p]) with CONST = 1.0, left to right from 0 *)
Definition eval (env : pid -> K) (f : afun) : K :=
  match f with
  | Alias p => env p
  | Lin ts => fold_left (fun acc t => kadd acc (kmul (snd t) (match fst t with Some p => env p | None => k1 end))) ts k0
  end.

Fixpoint lookup (o : pid) (m : list (pid * afun)) : option afun :=
  match m with [] => None | (o', f) :: m' => if Nat.eqb o o' then Some f else lookup o m' end.

(* ---- operations on one circuit (None = the ValueError the code raises) *)
Definition add_params (c : lmc) (ps : list pid) : lmc :=
  mkLM (nq c) (ins c ++ ps) (outs c) (pmap c) (body c).
Definition add_fixed (c : lmc) (g : G) : lmc :=
  mkLM (nq c) (ins c) (outs c) (pmap c) (body c ++ [Fixed g]).
(* _check_param_exist, then the primitive circuit creates the out parameter, then with_data_updated *)
Definition add_pg (c : lmc) (k : pkind) (qs : list nat) (f : afun) (out : pid) : option lmc :=
  if forallb (fun p => memb p (ins c)) (fparams f)
  then Some (mkLM (nq c) (ins c) (outs c ++ [out]) ((out, f) :: pmap c) (body c ++ [PG k qs out]))
  else None.
Definition empty_c (n : nat) : lmc := mkLM n [] [] [] [].
(* a parametric gate of an UnboundParametricQuantumCircuit: its parameter is both in and out *)
Definition add_unbound_pg (c : lmc) (k : pkind) (qs : list nat) (p : pid) : lmc :=
  mkLM (nq c) (ins c ++ [p]) (outs c ++ [p]) ((p, Alias p) :: pmap c) (body c ++ [PG k qs p]).

(* ---- abstract level *)
Inductive rgate := RFixed (g : G) | RRot (k : pkind) (qs : list nat) (f : afun).
Record sc := mkS { snq : nat; sins : list pid; sgates : list rgate }.

Definition resolve (m : list (pid * afun)) (g : pgate) : rgate :=
  match g with
  | Fixed g => RFixed g
  | PG k qs out => RRot k qs (match lookup out m with Some f => f | None => Lin [] end)
  end.
Definition abs (c : lmc) : sc := mkS (nq c) (ins c) (map (resolve (pmap c)) (body c)).

Definition s_add_params (c : sc) (ps : list pid) : sc := mkS (snq c) (sins c ++ ps) (sgates c).
Definition s_add_fixed (c : sc) (g : G) : sc := mkS (snq c) (sins c) (sgates c ++ [RFixed g]).
Definition s_add_pg (c : sc) (k : pkind) (qs : list nat) (f : afun) : option sc :=
  if forallb (fun p => memb p (sins c)) (fparams f)
  then Some (mkS (snq c) (sins c) (sgates c ++ [RRot k qs f])) else None.
Definition s_extend (c d : sc) : option sc :=
  if Nat.eqb (snq c) (snq d)
  then Some (mkS (snq c) (dedup (sins c ++ sins d)) (sgates c ++ sgates d)) else None.
Definition s_empty (n : nat) : sc := mkS n [] [].
Definition s_add_unbound_pg (c : sc) (k : pkind) (qs : list nat) (p : pid) : sc :=
  mkS (snq c) (sins c ++ [p]) (sgates c ++ [RRot k qs (Alias p)]).

(* ---- rebuilding from abstract gates through the public operations: what the parametric transpilers
   do, and what extend does for a circuit that shares gate parameters with the receiver *)
Fixpoint build (ret : lmc) (items : list rgate) (next : pid) : option (lmc * pid) :=
  match items with
  | [] => Some (ret, next)
  | RFixed g :: r => build (add_fixed ret g) r next
  | RRot k qs f :: r =>
      match add_pg ret k qs f next with
      | Some ret' => build ret' r (S next)
      | None => None
      end
  end.
Definition closed (ps : list pid) (items : list rgate) : Prop :=
  forall k qs f, In (RRot k qs f) items -> forall p, In p (fparams f) -> In p ps.
Fixpoint count_rots (items : list rgate) : nat :=
  match items with [] => 0 | RFixed _ :: r => count_rots r | RRot _ _ _ :: r => S (count_rots r) end.

Definition disjointb (a b : list pid) : bool := forallb (fun p => negb (memb p b)) a.
(* extend with a parametric circuit.  Disjoint gate parameters: LinearParameterMapping.combine + primitive
   extend.  Shared gate parameters (a circuit and a copy of itself): the gates of the other circuit are
   re-added with their functions, so that each gets its own gate parameter. *)
Definition extend_c (c d : lmc) (next : pid) : option lmc :=
  if Nat.eqb (nq c) (nq d) then
    if disjointb (outs c) (outs d)
    then Some (mkLM (nq c) (dedup (ins c ++ ins d)) (outs c ++ outs d) (pmap d ++ pmap c) (body c ++ body d))
    else match build (mkLM (nq c) (dedup (ins c ++ ins d)) (outs c) (pmap c) (body c)) (sgates (abs d)) next with
         | Some (c', _) => Some c'
         | None => None
         end
  else None.

(* ---- binding *)
Inductive bgate := BFixed (g : G) | BRot (k : pkind) (qs : list nat) (angle : K).
Definition bind_gate (env : pid -> K) (g : rgate) : bgate :=
  match g with RFixed g => BFixed g | RRot k qs f => BRot k qs (eval env f) end.
Definition s_bind (env : pid -> K) (c : sc) : list bgate := map (bind_gate env) (sgates c).
(* dict(zip(in_params, params)) *)
Fixpoint env_of (ps : list pid) (vals : list K) : pid -> K :=
  match ps, vals with
  | p :: ps', v :: vals' => fun q => if Nat.eqb q p then v else env_of ps' vals' q
  | _, _ => fun _ => k0
  end.
(* bind_parameters of the code: raw values through the mapping, then the primitive circuit's bind *)
Definition bind (c : lmc) (vals : list K) : list bgate :=
  let env := env_of (ins c) vals in
  map (fun g => match g with
                | Fixed g => BFixed g
                | PG k qs out => BRot k qs (match lookup out (pmap c) with Some f => eval env f | None => k0 end)
                end) (body c).

(* ---- invariant of one circuit *)
Definition keys (m : list (pid * afun)) : list pid := map fst m.
Definition body_outs (b : list pgate) : list pid :=
  flat_map (fun g => match g with Fixed _ => [] | PG _ _ o => [o] end) b.
Record cinv (c : lmc) : Prop := mkCinv {
  ci_lookup : forall o, In o (outs c) -> exists f, lookup o (pmap c) = Some f;
  ci_ins : NoDup (ins c);
  ci_closed : forall o f, In (o, f) (pmap c) -> forall p, In p (fparams f) -> In p (ins c);
  ci_outs : outs c = body_outs (body c);       (* out_params are the gate parameters, in gate order *)
  ci_nodup : NoDup (outs c);                   (* every parametric gate has its own gate parameter *)
  ci_keys : forall o, In o (keys (pmap c)) -> In o (outs c) }.
(* all parameter identities of a circuit are below the allocation counter *)
Definition below (n : pid) (c : lmc) : Prop :=
  (forall p, In p (ins c) -> p < n) /\ (forall o, In o (outs c) -> o < n).

Lemma lookup_in o m f : lookup o m = Some f -> In (o, f) m.
Proof.
  induction m as [|[o' f'] m IH]; simpl; [discriminate|].
  destruct (Nat.eqb_spec o o') as [->|Hne]; [intros [= ->]; left; reflexivity | intros H; right; auto].
Qed.
Lemma lookup_none o m : lookup o m = None -> ~ In o (keys m).
Proof.
  induction m as [|[o' f'] m IH]; simpl; [intros _ []|].
  destruct (Nat.eqb_spec o o') as [->|Hne]; [discriminate|]. intros H [E|Hin]; [congruence | apply IH; auto].
Qed.
Lemma lookup_notin o m : ~ In o (keys m) -> lookup o m = None.
Proof.
  induction m as [|[o' f'] m IH]; simpl; [reflexivity|]. intros H.
  destruct (Nat.eqb_spec o o') as [->|Hne]; [exfalso; apply H; left; reflexivity|apply IH; intros Hc; apply H; right; exact Hc].
Qed.
Lemma in_keys o f m : In (o, f) m -> In o (keys m).
Proof. intros H. apply (in_map fst) in H. exact H. Qed.
Lemma lookup_app o m1 m2 : lookup o (m1 ++ m2) = match lookup o m1 with Some f => Some f | None => lookup o m2 end.
Proof. induction m1 as [|[o' f'] m1 IH]; simpl; [reflexivity|]. destruct (Nat.eqb o o'); auto. Qed.

Lemma body_outs_app a b : body_outs (a ++ b) = body_outs a ++ body_outs b.
Proof. unfold body_outs. apply flat_map_app. Qed.

Lemma NoDup_app_intro' {A} (l1 l2 : list A) :
  NoDup l1 -> NoDup l2 -> (forall x, In x l1 -> In x l2 -> False) -> NoDup (l1 ++ l2).
Proof.
  induction l1 as [|a l1 IH]; intros H1 H2 Hd; simpl; [exact H2|].
  inversion H1 as [|? ? Ha H1']; subst. constructor.
  - intros Hin. apply in_app_or in Hin. destruct Hin as [Hin|Hin]; [contradiction|]. apply (Hd a); simpl; auto.
  - apply IH; auto. intros x Hx1 Hx2. apply (Hd x); simpl; auto.
Qed.
Lemma NoDup_snoc {A} (l : list A) x : NoDup l -> ~ In x l -> NoDup (l ++ [x]).
Proof.
  intros H Hx. apply NoDup_app_intro'; auto; [constructor; [intros []|constructor]|].
  intros y Hy [<-|[]]. contradiction.
Qed.
Lemma in_snoc {A} (l : list A) x y : In y (l ++ [x]) <-> In y l \/ y = x.
Proof. rewrite in_app_iff. simpl. split; intros [H|H]; auto. destruct H as [H|[]]; auto. Qed.

Lemma disjointb_spec a b : disjointb a b = true -> forall o, In o a -> ~ In o b.
Proof.
  unfold disjointb. rewrite forallb_forall. intros H o Ha Hb. specialize (H o Ha).
  apply negb_true_iff in H. assert (memb o b = true) by (apply memb_In; exact Hb). congruence.
Qed.

(* resolving through a mapping that agrees on the gate parameters of the body gives the same functions *)
Lemma resolve_ext m m' b :
  (forall o, In o (body_outs b) -> lookup o m' = lookup o m) -> map (resolve m') b = map (resolve m) b.
Proof.
  induction b as [|g b IH]; intros H; simpl; [reflexivity|]. f_equal.
  - destruct g as [g|k qs o]; simpl; [reflexivity|]. rewrite H; [reflexivity|]. simpl. left. reflexivity.
  - apply IH. intros o Ho. apply H. destruct g; simpl; auto.
Qed.

Lemma fresh_out c n : below n c -> ~ In n (outs c).
Proof. intros [_ B] H. apply B in H. lia. Qed.
Lemma fresh_in c n : below n c -> ~ In n (ins c).
Proof. intros [A _] H. apply A in H. lia. Qed.

Lemma cinv_empty n : cinv (empty_c n).
Proof. constructor; simpl; [intros o []|constructor|intros o f []|reflexivity|constructor|intros o []]. Qed.

(* ---- each concrete operation refines the abstract one and keeps the invariant *)
Lemma abs_add_params c ps : abs (add_params c ps) = s_add_params (abs c) ps.
Proof. reflexivity. Qed.
Lemma cinv_add_params c ps : cinv c -> NoDup ps -> (forall p, In p ps -> ~ In p (ins c)) -> cinv (add_params c ps).
Proof.
  intros [A B C D E F] Hps Hd. constructor; simpl; auto.
  - apply NoDup_app_intro'; auto. intros x Hx Hy. exact (Hd x Hy Hx).
  - intros o f Hof p Hp. apply in_or_app. left. exact (C o f Hof p Hp).
Qed.

Lemma abs_add_fixed c g : abs (add_fixed c g) = s_add_fixed (abs c) g.
Proof. unfold abs, add_fixed, s_add_fixed. simpl. rewrite map_app. reflexivity. Qed.
Lemma cinv_add_fixed c g : cinv c -> cinv (add_fixed c g).
Proof.
  intros [A B C D E F]. constructor; simpl; auto. rewrite body_outs_app. simpl. rewrite app_nil_r. exact D.
Qed.

Lemma add_pg_shape c k qs f out c' : add_pg c k qs f out = Some c' ->
  c' = mkLM (nq c) (ins c) (outs c ++ [out]) ((out, f) :: pmap c) (body c ++ [PG k qs out])
  /\ (forall p, In p (fparams f) -> In p (ins c)).
Proof.
  unfold add_pg. destruct (forallb _ (fparams f)) eqn:E; [|discriminate]. intros [= <-]. split; [reflexivity|].
  intros p Hp. rewrite forallb_forall in E. apply memb_In. apply E. exact Hp.
Qed.
Lemma add_pg_some c k qs f out : (forall p, In p (fparams f) -> In p (ins c)) ->
  add_pg c k qs f out = Some (mkLM (nq c) (ins c) (outs c ++ [out]) ((out, f) :: pmap c) (body c ++ [PG k qs out])).
Proof.
  intros H. unfold add_pg. replace (forallb (fun p => memb p (ins c)) (fparams f)) with true; [reflexivity|].
  symmetry. apply forallb_forall. intros p Hp. apply memb_In. auto.
Qed.

Lemma lookup_cons_other o out f m : o <> out -> lookup o ((out, f) :: m) = lookup o m.
Proof. intros H. simpl. destruct (Nat.eqb_spec o out); [contradiction|reflexivity]. Qed.

Lemma add_pg_ok c k qs f out c' : cinv c -> ~ In out (outs c) -> add_pg c k qs f out = Some c' ->
  s_add_pg (abs c) k qs f = Some (abs c') /\ cinv c'.
Proof.
  intros Hc Hfresh H. destruct (add_pg_shape _ _ _ _ _ _ H) as [-> Hf]. destruct Hc as [A B C D E F]. split.
  - unfold add_pg in H. unfold s_add_pg. simpl. destruct (forallb _ (fparams f)); [|discriminate].
    unfold abs. simpl. f_equal. f_equal. rewrite map_app. simpl. rewrite Nat.eqb_refl. f_equal.
    apply resolve_ext. intros o Ho. symmetry. apply lookup_cons_other. intros ->. apply Hfresh. rewrite D. exact Ho.
  - constructor; simpl.
    + intros o Ho. apply in_snoc in Ho. destruct (Nat.eqb_spec o out) as [->|Hne]; [exists f; reflexivity|].
      destruct Ho as [Ho|Ho]; [apply A; exact Ho|contradiction].
    + exact B.
    + intros o f' [E'|Hin] p Hp; [injection E' as <- <-; apply Hf; exact Hp|exact (C o f' Hin p Hp)].
    + rewrite body_outs_app, D. reflexivity.
    + apply NoDup_snoc; auto.
    + intros o [<-|Ho]; apply in_snoc; [right; reflexivity|left; apply F; exact Ho].
Qed.
Lemma add_pg_none c k qs f out : add_pg c k qs f out = None -> s_add_pg (abs c) k qs f = None.
Proof. unfold add_pg, s_add_pg. simpl. destruct (forallb _ (fparams f)); [discriminate|reflexivity]. Qed.

Lemma add_unbound_pg_ok c k qs p : cinv c -> ~ In p (outs c) -> ~ In p (ins c) ->
  abs (add_unbound_pg c k qs p) = s_add_unbound_pg (abs c) k qs p /\ cinv (add_unbound_pg c k qs p).
Proof.
  intros [A B C D E F] Ho Hi. split.
  - unfold abs, add_unbound_pg, s_add_unbound_pg. simpl. f_equal. rewrite map_app. simpl. rewrite Nat.eqb_refl. f_equal.
    apply resolve_ext. intros o Hbo. apply lookup_cons_other. intros ->. apply Ho. rewrite D. exact Hbo.
  - constructor; simpl.
    + intros o Hin. apply in_snoc in Hin. destruct (Nat.eqb_spec o p) as [->|Hne]; [exists (Alias p); reflexivity|].
      destruct Hin as [Hin|Hin]; [apply A; exact Hin|contradiction].
    + apply NoDup_snoc; auto.
    + intros o f' [E'|Hin] q Hq.
      * injection E' as <- <-. simpl in Hq. destruct Hq as [<-|[]]. apply in_snoc. right. reflexivity.
      * apply in_snoc. left. exact (C o f' Hin q Hq).
    + rewrite body_outs_app, D. reflexivity.
    + apply NoDup_snoc; auto.
    + intros o [<-|Hk]; apply in_snoc; [right; reflexivity|left; apply F; exact Hk].
Qed.

Lemma build_ok items : forall ret next,
  cinv ret -> (forall o, In o (outs ret) -> o < next) -> closed (ins ret) items ->
  exists ret', build ret items next = Some (ret', next + count_rots items)
    /\ abs ret' = mkS (nq ret) (ins ret) (sgates (abs ret) ++ items)
    /\ cinv ret' /\ ins ret' = ins ret
    /\ (forall o, In o (outs ret') -> In o (outs ret) \/ next <= o < next + count_rots items).
Proof.
  induction items as [|it items IH]; intros ret next Hc Hk Hcl.
  - exists ret. simpl. rewrite Nat.add_0_r, app_nil_r. split; [reflexivity|]. split; [reflexivity|].
    split; [exact Hc|]. split; [reflexivity|]. intros o Ho; left; exact Ho.
  - destruct it as [g|k qs f]; simpl.
    + destruct (IH (add_fixed ret g) next (cinv_add_fixed ret g Hc) Hk) as [ret' [Hb [Ha [Hi [Hins He]]]]].
      * intros k qs f Hin. apply (Hcl k qs f). right. exact Hin.
      * exists ret'. split; [exact Hb|]. split; [|split; [exact Hi|split; [exact Hins|exact He]]].
        rewrite Ha. simpl. rewrite map_app, <- app_assoc. reflexivity.
    + assert (Hf : forall p, In p (fparams f) -> In p (ins ret)) by (apply (Hcl k qs f); left; reflexivity).
      destruct (add_pg ret k qs f next) as [ret1|] eqn:Ea; [|rewrite (add_pg_some ret k qs f next Hf) in Ea; discriminate].
      destruct (add_pg_shape _ _ _ _ _ _ Ea) as [Er _].
      assert (Hfresh : ~ In next (outs ret)) by (intros Hin; apply Hk in Hin; lia).
      destruct (add_pg_ok ret k qs f next ret1 Hc Hfresh Ea) as [Hs Hc1].
      assert (Hab : abs ret1 = mkS (nq ret) (ins ret) (sgates (abs ret) ++ [RRot k qs f])).
      { unfold s_add_pg in Hs. destruct (forallb _ (fparams f)); [|discriminate].
        change (Some (mkS (nq ret) (ins ret) (sgates (abs ret) ++ [RRot k qs f])) = Some (abs ret1)) in Hs. congruence. }
      assert (Hn1 : nq ret1 = nq ret /\ ins ret1 = ins ret /\ outs ret1 = outs ret ++ [next]) by (rewrite Er; auto).
      destruct Hn1 as [Hn1 [Hi1 Ho1]].
      destruct (IH ret1 (S next) Hc1) as [ret' [Hb [Ha [Hi [Hins He]]]]].
      * rewrite Ho1. intros o Ho. apply in_snoc in Ho. destruct Ho as [Ho| ->]; [apply Hk in Ho; lia|lia].
      * rewrite Hi1. intros k' qs' f' Hin. apply (Hcl k' qs' f'). right. exact Hin.
      * exists ret'. replace (next + S (count_rots items)) with (S next + count_rots items) by lia.
        split; [exact Hb|]. split; [|split; [exact Hi|split; [congruence|]]].
        -- rewrite Ha, Hab, Hn1, Hi1. simpl. rewrite <- app_assoc. reflexivity.
        -- intros o Hin. rewrite Ho1 in He. destruct (He o Hin) as [H|H]; [|right; lia].
           apply in_snoc in H. destruct H as [H| ->]; [left; exact H|right; lia].
Qed.

Lemma abs_closed c : cinv c -> closed (ins c) (sgates (abs c)).
Proof.
  intros Hc k qs f Hin p Hp. unfold abs in Hin. simpl in Hin. apply in_map_iff in Hin.
  destruct Hin as [[g|k' qs' o] [E Hg]]; simpl in E; [discriminate|]. injection E as _ _ E.
  destruct (lookup o (pmap c)) as [f0|] eqn:El; subst f; [|simpl in Hp; contradiction].
  exact (ci_closed c Hc o f0 (lookup_in _ _ _ El) p Hp).
Qed.
Lemma closed_mono ps ps' items : (forall p, In p ps -> In p ps') -> closed ps items -> closed ps' items.
Proof. intros H Hc k qs f Hin p Hp. apply H. exact (Hc k qs f Hin p Hp). Qed.

Lemma count_rots_abs c : count_rots (sgates (abs c)) = length (body_outs (body c)).
Proof. unfold abs. simpl. induction (body c) as [|[g|k qs o] b IH]; simpl; auto. Qed.

Lemma extend_ok c d next c' : cinv c -> cinv d -> (forall o, In o (outs c) -> o < next) ->
  extend_c c d next = Some c' ->
  s_extend (abs c) (abs d) = Some (abs c') /\ cinv c' /\ ins c' = dedup (ins c ++ ins d)
  /\ (forall o, In o (outs c') -> In o (outs c) \/ In o (outs d) \/ next <= o < next + count_rots (sgates (abs d))).
Proof.
  intros Hc Hd Hk. unfold extend_c, s_extend. change (snq (abs c)) with (nq c). change (snq (abs d)) with (nq d).
  destruct (Nat.eqb (nq c) (nq d)); [|discriminate].
  destruct (disjointb (outs c) (outs d)) eqn:Edj.
  - intros [= <-]. pose proof (disjointb_spec _ _ Edj) as Hdj.
    destruct Hc as [Ac Bc Cc Dc Ec Fc]. destruct Hd as [Ad Bd Cd Dd Ed Fd]. split; [|split; [|split]].
    + unfold abs. simpl. f_equal. f_equal. rewrite map_app. f_equal.
      * apply resolve_ext. intros o Ho. rewrite lookup_app. rewrite (lookup_notin o (pmap d)); [reflexivity|].
        intros Hkd. apply Fd in Hkd. apply (Hdj o); [rewrite Dc; exact Ho|exact Hkd].
      * apply resolve_ext. intros o Ho. rewrite lookup_app. destruct (Ad o) as [f Hf]; [rewrite Dd; exact Ho|].
        rewrite Hf. reflexivity.
    + constructor; simpl.
      * intros o Ho. rewrite lookup_app. apply in_app_or in Ho.
        destruct (lookup o (pmap d)) as [f|] eqn:E; [exists f; reflexivity|].
        destruct Ho as [Ho|Ho]; [apply Ac; exact Ho|]. destruct (Ad o Ho) as [f Hf]. congruence.
      * apply dedup_NoDup.
      * intros o f Hin p Hp. apply dedup_In. apply in_or_app. apply in_app_or in Hin.
        destruct Hin as [Hin|Hin]; [right; exact (Cd o f Hin p Hp)|left; exact (Cc o f Hin p Hp)].
      * rewrite body_outs_app, Dc, Dd. reflexivity.
      * apply NoDup_app_intro'; auto; intros x Hx Hy; exact (Hdj x Hx Hy).
      * intros o Ho. unfold keys in Ho. rewrite map_app in Ho. apply in_or_app. apply in_app_or in Ho.
        destruct Ho as [Ho|Ho]; [right; apply Fd; exact Ho|left; apply Fc; exact Ho].
    + reflexivity.
    + intros o Ho. apply in_app_or in Ho. destruct Ho as [Ho|Ho]; [left|right; left]; exact Ho.
  - set (ret0 := mkLM (nq c) (dedup (ins c ++ ins d)) (outs c) (pmap c) (body c)).
    assert (I0 : cinv ret0).
    { destruct Hc as [Ac Bc Cc Dc Ec Fc]. constructor; simpl; auto; [apply dedup_NoDup|].
      intros o f Hin p Hp. apply dedup_In. apply in_or_app. left. exact (Cc o f Hin p Hp). }
    destruct (build_ok (sgates (abs d)) ret0 next I0 Hk) as [r' [Hb [Ha [Ir [Hins He]]]]].
    + apply (closed_mono (ins d)); [|apply abs_closed; exact Hd]. intros p Hp. simpl. apply dedup_In.
      apply in_or_app. right. exact Hp.
    + rewrite Hb. intros [= <-]. split; [|split; [exact Ir|split; [exact Hins|]]].
      * rewrite Ha. reflexivity.
      * intros o Ho. destruct (He o Ho) as [H|H]; [left; exact H|right; right; exact H].
Qed.
Lemma extend_none c d next : cinv c -> cinv d -> (forall o, In o (outs c) -> o < next) ->
  extend_c c d next = None -> s_extend (abs c) (abs d) = None.
Proof.
  intros Hc Hd Hk. unfold extend_c, s_extend. change (snq (abs c)) with (nq c). change (snq (abs d)) with (nq d).
  destruct (Nat.eqb (nq c) (nq d)); [|reflexivity].
  destruct (disjointb (outs c) (outs d)); [discriminate|].
  set (ret0 := mkLM (nq c) (dedup (ins c ++ ins d)) (outs c) (pmap c) (body c)).
  assert (I0 : cinv ret0).
  { destruct Hc as [Ac Bc Cc Dc Ec Fc]. constructor; simpl; auto; [apply dedup_NoDup|].
    intros o f Hin p Hp. apply dedup_In. apply in_or_app. left. exact (Cc o f Hin p Hp). }
  destruct (build_ok (sgates (abs d)) ret0 next I0 Hk) as [r' [Hb _]].
  - apply (closed_mono (ins d)); [|apply abs_closed; exact Hd]. intros p Hp. simpl. apply dedup_In.
    apply in_or_app. right. exact Hp.
  - rewrite Hb. discriminate.
Qed.

(* ---- binding evaluates the abstract functions *)
Theorem bind_is_evaluation c vals : cinv c -> bind c vals = s_bind (env_of (ins c) vals) (abs c).
Proof.
  intros Hc. unfold bind, s_bind, abs. simpl. rewrite map_map.
  apply map_ext_in. intros g Hg. destruct g as [g|k qs o]; simpl; [reflexivity|].
  destruct (ci_lookup c Hc o) as [f Hf]; [|rewrite Hf; reflexivity].
  rewrite (ci_outs c Hc). unfold body_outs. apply in_flat_map. exists (PG k qs o). split; [exact Hg|left; reflexivity].
Qed.

(* positional values: with distinct in-parameters, the i-th value is what the i-th parameter evaluates to *)
Lemma env_of_nth ps : NoDup ps -> forall vals i, i < length ps -> length vals = length ps ->
  env_of ps vals (nth i ps 0) = nth i vals k0.
Proof.
  induction ps as [|p ps IH]; intros Hnd vals i Hi Hl; [simpl in Hi; lia|].
  destruct vals as [|v vals]; [discriminate|]. inversion Hnd as [|? ? Hp Hnd']; subst.
  destruct i as [|i]; simpl; [rewrite Nat.eqb_refl; reflexivity|].
  destruct (Nat.eqb_spec (nth i ps 0) p) as [E|Hne].
  - exfalso. apply Hp. rewrite <- E. apply nth_In. simpl in Hi. lia.
  - apply IH; auto; simpl in *; lia.
Qed.

(* evaluation only reads the parameters the function mentions *)
Lemma eval_ext env env' f : (forall p, In p (fparams f) -> env p = env' p) -> eval env f = eval env' f.
Proof.
  destruct f as [p|ts]; simpl; intros H; [apply H; left; reflexivity|].
  generalize k0. induction ts as [|[[p|] c] ts IH]; intros a; simpl; [reflexivity| |].
  - rewrite (H p) by (simpl; left; reflexivity). apply IH. intros q Hq. apply H. simpl. right. exact Hq.
  - apply IH. intros q Hq. apply H. simpl. exact Hq.
Qed.
End Param.

Arguments RFixed {G K} g.
Arguments RRot {G K} k qs f.
Arguments BFixed {G K} g.
Arguments BRot {G K} k qs angle.
