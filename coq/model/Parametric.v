(* Model of circuit/circuit_linear_mapped.py + circuit/parameter_mapping.py: linear-mapped parametric
   circuits as built by any history of add-parameter / add-gate / add-parametric-gate / extend / + /
   copy operations over several live circuits that may share parameters, and their binding.

   Concrete level (what the code stores): a body of gates in which a parametric gate only carries its
   own "out" parameter, plus a mapping out-parameter -> affine function of the "in" parameters; mappings
   are merged on extend.  Parameters are identities (pid), allocated from one counter (object identity
   in Python).
   Abstract level (what a user means): a list of gates in which a parametric gate carries its affine
   angle function directly.
   Main theorem: every history refines the abstract level, i.e. the indirection through out-parameters
   and merged mappings never changes which function a gate carries; binding then evaluates exactly
   those functions; shared parameters are identified and distinct ones are independent. *)
From Coq Require Import List Arith Bool Lia.
Import ListNotations.

Definition pid := nat.

Definition memb (p : pid) (l : list pid) : bool := existsb (Nat.eqb p) l.
(* tuple(dict.fromkeys(l)) *)
Fixpoint dedup_acc (seen l : list pid) : list pid :=
  match l with
  | [] => []
  | p :: l' => if memb p seen then dedup_acc seen l' else p :: dedup_acc (p :: seen) l'
  end.
Definition dedup (l : list pid) : list pid := dedup_acc [] l.


Lemma memb_In p l : memb p l = true <-> In p l.
Proof. unfold memb. rewrite existsb_exists. split; [intros [x [Hx E]]; apply Nat.eqb_eq in E; subst; auto|].
  intros H. exists p. split; [auto|apply Nat.eqb_refl]. Qed.

Lemma dedup_acc_spec seen l :
  NoDup (dedup_acc seen l) /\ (forall p, In p (dedup_acc seen l) <-> In p l /\ ~ In p seen).
Proof.
  revert seen. induction l as [|q l IH]; intros seen; simpl.
  - split; [constructor|]. intros p. tauto.
  - destruct (memb q seen) eqn:Em.
    + apply memb_In in Em. destruct (IH seen) as [Hnd Hin]. split; [exact Hnd|].
      intros p. rewrite Hin. split; [tauto|]. intros [[->|Hp] Hs]; [contradiction|tauto].
    + assert (Hq : ~ In q seen) by (intros Hc; apply memb_In in Hc; congruence).
      destruct (IH (q :: seen)) as [Hnd Hin]. split.
      * constructor; [|exact Hnd]. rewrite Hin. simpl. tauto.
      * intros p. simpl. rewrite Hin. simpl. split.
        -- intros [->|[Hp Hs]]; [tauto|]. split; [tauto|]. intros Hc. apply Hs. right. exact Hc.
        -- intros [[->|Hp] Hs]; [left; reflexivity|].
           destruct (Nat.eq_dec q p) as [->|Hne]; [left; reflexivity|]. right. split; [exact Hp|].
           intros [E|Hc]; [contradiction|contradiction].
Qed.
Lemma dedup_NoDup l : NoDup (dedup l).
Proof. apply (dedup_acc_spec [] l). Qed.
Lemma dedup_In l p : In p (dedup l) <-> In p l.
Proof. unfold dedup. destruct (dedup_acc_spec [] l) as [_ H]. rewrite H. simpl. tauto. Qed.


Section Param.
Variable G : Type.                       (* non-parametric gates *)
Variable K : Type.                       (* coefficients / angles *)
Variables (kadd kmul : K -> K -> K) (k0 k1 : K).

(* ParameterOrLinearFunction: a Parameter, or a dict {Parameter or CONST : coefficient} *)
Inductive afun := Alias (p : pid) | Lin (ts : list (option pid * K)).
Inductive pkind := PRX | PRY | PRZ | PPR (ids : list nat).
Inductive pgate := Fixed (g : G) | PG (k : pkind) (qs : list nat) (out : pid).
Record lmc := mkLM { nq : nat; ins : list pid; outs : list pid; pmap : list (pid * afun); body : list pgate }.

Definition fparams (f : afun) : list pid :=
  match f with
  | Alias p => [p]
  | Lin ts => flat_map (fun t => match fst t with Some p => [p] | None => [] end) ts
  end.

(* mapper: sum(c * in_param_vals[p]) with CONST = 1.0, left to right from 0 *)
Definition eval (env : pid -> K) (f : afun) : K :=
  match f with
  | Alias p => env p
  | Lin ts => fold_left (fun acc t => kadd acc (kmul (snd t) (match fst t with Some p => env p | None => k1 end))) ts k0
  end.

Fixpoint lookup (o : pid) (m : list (pid * afun)) : option afun :=
  match m with [] => None | (o', f) :: m' => if Nat.eqb o o' then Some f else lookup o m' end.

(* ---- operations on one circuit (None = the ValueError the code raises) *)
Definition add_params (c : lmc) (ps : list pid) : lmc :=
  mkLM (nq c) (ins c ++ ps) (outs c) (pmap c) (body c).
Definition add_fixed (c : lmc) (g : G) : lmc :=
  mkLM (nq c) (ins c) (outs c) (pmap c) (body c ++ [Fixed g]).
(* _check_param_exist, then the primitive circuit creates the out parameter, then with_data_updated *)
Definition add_pg (c : lmc) (k : pkind) (qs : list nat) (f : afun) (out : pid) : option lmc :=
  if forallb (fun p => memb p (ins c)) (fparams f)
  then Some (mkLM (nq c) (ins c) (outs c ++ [out]) ((out, f) :: pmap c) (body c ++ [PG k qs out]))
  else None.
(* extend with a parametric circuit: LinearParameterMapping.combine + primitive extend *)
Definition extend_c (c d : lmc) : option lmc :=
  if Nat.eqb (nq c) (nq d)
  then Some (mkLM (nq c) (dedup (ins c ++ ins d)) (outs c ++ outs d) (pmap d ++ pmap c) (body c ++ body d))
  else None.
Definition empty_c (n : nat) : lmc := mkLM n [] [] [] [].
(* a parametric gate of an UnboundParametricQuantumCircuit: its parameter is both in and out *)
Definition add_unbound_pg (c : lmc) (k : pkind) (qs : list nat) (p : pid) : lmc :=
  mkLM (nq c) (ins c ++ [p]) (outs c ++ [p]) ((p, Alias p) :: pmap c) (body c ++ [PG k qs p]).

(* ---- abstract level *)
Inductive rgate := RFixed (g : G) | RRot (k : pkind) (qs : list nat) (f : afun).
Record sc := mkS { snq : nat; sins : list pid; sgates : list rgate }.

Definition resolve (m : list (pid * afun)) (g : pgate) : rgate :=
  match g with
  | Fixed g => RFixed g
  | PG k qs out => RRot k qs (match lookup out m with Some f => f | None => Lin [] end)
  end.
Definition abs (c : lmc) : sc := mkS (nq c) (ins c) (map (resolve (pmap c)) (body c)).

Definition s_add_params (c : sc) (ps : list pid) : sc := mkS (snq c) (sins c ++ ps) (sgates c).
Definition s_add_fixed (c : sc) (g : G) : sc := mkS (snq c) (sins c) (sgates c ++ [RFixed g]).
Definition s_add_pg (c : sc) (k : pkind) (qs : list nat) (f : afun) : option sc :=
  if forallb (fun p => memb p (sins c)) (fparams f)
  then Some (mkS (snq c) (sins c) (sgates c ++ [RRot k qs f])) else None.
Definition s_extend (c d : sc) : option sc :=
  if Nat.eqb (snq c) (snq d)
  then Some (mkS (snq c) (dedup (sins c ++ sins d)) (sgates c ++ sgates d)) else None.
Definition s_empty (n : nat) : sc := mkS n [] [].
Definition s_add_unbound_pg (c : sc) (k : pkind) (qs : list nat) (p : pid) : sc :=
  mkS (snq c) (sins c ++ [p]) (sgates c ++ [RRot k qs (Alias p)]).

(* ---- binding *)
Inductive bgate := BFixed (g : G) | BRot (k : pkind) (qs : list nat) (angle : K).
Definition bind_gate (env : pid -> K) (g : rgate) : bgate :=
  match g with RFixed g => BFixed g | RRot k qs f => BRot k qs (eval env f) end.
Definition s_bind (env : pid -> K) (c : sc) : list bgate := map (bind_gate env) (sgates c).
(* dict(zip(in_params, params)) *)
Fixpoint env_of (ps : list pid) (vals : list K) : pid -> K :=
  match ps, vals with
  | p :: ps', v :: vals' => fun q => if Nat.eqb q p then v else env_of ps' vals' q
  | _, _ => fun _ => k0
  end.
(* bind_parameters of the code: raw values through the mapping, then the primitive circuit's bind *)
Definition bind (c : lmc) (vals : list K) : list bgate :=
  let env := env_of (ins c) vals in
  map (fun g => match g with
                | Fixed g => BFixed g
                | PG k qs out => BRot k qs (match lookup out (pmap c) with Some f => eval env f | None => k0 end)
                end) (body c).

(* ---- invariants of one circuit *)
Definition keys (m : list (pid * afun)) : list pid := map fst m.
Definition body_outs (b : list pgate) : list pid :=
  flat_map (fun g => match g with Fixed _ => [] | PG _ _ o => [o] end) b.
Definition cinv (c : lmc) : Prop :=
  (forall o, In o (body_outs (body c)) -> exists f, lookup o (pmap c) = Some f)
  /\ NoDup (ins c)
  /\ (forall o f, In (o, f) (pmap c) -> forall p, In p (fparams f) -> In p (ins c)).
(* all parameter identities of a circuit are below the allocation counter *)
Definition below (n : pid) (c : lmc) : Prop :=
  (forall p, In p (ins c) -> p < n) /\ (forall o, In o (keys (pmap c)) -> o < n).
(* the same out parameter never stands for two functions, across all live circuits *)
Definition consistent (c d : lmc) : Prop :=
  forall o f f', In (o, f) (pmap c) -> In (o, f') (pmap d) -> f = f'.

Lemma lookup_in o m f : lookup o m = Some f -> In (o, f) m.
Proof.
  induction m as [|[o' f'] m IH]; simpl; [discriminate|].
  destruct (Nat.eqb_spec o o') as [->|Hne]; [intros [= ->]; left; reflexivity | intros H; right; auto].
Qed.
Lemma lookup_none o m : lookup o m = None -> ~ In o (keys m).
Proof.
  induction m as [|[o' f'] m IH]; simpl; [intros _ []|].
  destruct (Nat.eqb_spec o o') as [->|Hne]; [discriminate|]. intros H [E|Hin]; [congruence | apply IH; auto].
Qed.
Lemma in_keys o f m : In (o, f) m -> In o (keys m).
Proof. intros H. apply (in_map fst) in H. exact H. Qed.
Lemma lookup_app o m1 m2 : lookup o (m1 ++ m2) = match lookup o m1 with Some f => Some f | None => lookup o m2 end.
Proof. induction m1 as [|[o' f'] m1 IH]; simpl; [reflexivity|]. destruct (Nat.eqb o o'); auto. Qed.

Lemma body_outs_app a b : body_outs (a ++ b) = body_outs a ++ body_outs b.
Proof. unfold body_outs. apply flat_map_app. Qed.

(* resolving through a larger, consistent mapping gives the same functions *)
Lemma resolve_ext m m' b :
  (forall o, In o (body_outs b) -> lookup o m' = lookup o m) -> map (resolve m') b = map (resolve m) b.
Proof.
  induction b as [|g b IH]; intros H; simpl; [reflexivity|]. f_equal.
  - destruct g as [g|k qs o]; simpl; [reflexivity|]. rewrite H; [reflexivity|]. simpl. left. reflexivity.
  - apply IH. intros o Ho. apply H. destruct g; simpl; auto.
Qed.

(* ---- each concrete operation refines the abstract one *)
Lemma abs_add_params c ps : abs (add_params c ps) = s_add_params (abs c) ps.
Proof. reflexivity. Qed.
Lemma abs_add_fixed c g : abs (add_fixed c g) = s_add_fixed (abs c) g.
Proof. unfold abs, add_fixed, s_add_fixed. simpl. rewrite map_app. reflexivity. Qed.

Lemma abs_add_pg c k qs f out c' : ~ In out (keys (pmap c)) -> cinv c ->
  add_pg c k qs f out = Some c' -> s_add_pg (abs c) k qs f = Some (abs c').
Proof.
  intros Hfresh [Hb _]. unfold add_pg, s_add_pg. simpl. destruct (forallb _ (fparams f)); [|discriminate].
  intros [= <-]. unfold abs. simpl. f_equal. f_equal. rewrite map_app. simpl. rewrite Nat.eqb_refl. f_equal.
  apply resolve_ext. intros o Ho. simpl. destruct (Nat.eqb_spec o out) as [->|Hne]; [|reflexivity].
  exfalso. destruct (Hb out Ho) as [f0 Hf0]. apply Hfresh. apply (in_keys out f0). apply lookup_in. exact Hf0.
Qed.
Lemma add_pg_none c k qs f out : add_pg c k qs f out = None -> s_add_pg (abs c) k qs f = None.
Proof. unfold add_pg, s_add_pg. simpl. destruct (forallb _ (fparams f)); [discriminate|reflexivity]. Qed.

Lemma abs_extend c d c' : cinv c -> cinv d -> consistent c d ->
  extend_c c d = Some c' -> s_extend (abs c) (abs d) = Some (abs c').
Proof.
  intros [Hbc _] [Hbd _] Hcons. unfold extend_c, s_extend. simpl. destruct (Nat.eqb (nq c) (nq d)); [|discriminate].
  intros [= <-]. unfold abs. simpl. f_equal. f_equal. rewrite map_app. f_equal.
  - apply resolve_ext. intros o Ho. rewrite lookup_app. destruct (lookup o (pmap d)) as [f'|] eqn:Ed; [|reflexivity].
    destruct (Hbc o Ho) as [f Hf]. rewrite Hf. f_equal. apply (Hcons o f f'); apply lookup_in; assumption.
  - apply resolve_ext. intros o Ho. rewrite lookup_app. destruct (Hbd o Ho) as [f Hf]. rewrite Hf. reflexivity.
Qed.
Lemma extend_none c d : extend_c c d = None -> s_extend (abs c) (abs d) = None.
Proof. unfold extend_c, s_extend. simpl. destruct (Nat.eqb (nq c) (nq d)); [discriminate|reflexivity]. Qed.

Lemma abs_add_unbound_pg c k qs p : ~ In p (keys (pmap c)) -> cinv c ->
  abs (add_unbound_pg c k qs p) = s_add_unbound_pg (abs c) k qs p.
Proof.
  intros Hfresh [Hb _]. unfold abs, add_unbound_pg, s_add_unbound_pg. simpl. f_equal.
  rewrite map_app. simpl. rewrite Nat.eqb_refl. f_equal.
  apply resolve_ext. intros o Ho. simpl. destruct (Nat.eqb_spec o p) as [->|Hne]; [|reflexivity].
  exfalso. destruct (Hb p Ho) as [f0 Hf0]. apply Hfresh. apply (in_keys p f0). apply lookup_in. exact Hf0.
Qed.

(* ---- binding evaluates the abstract functions *)
Theorem bind_is_evaluation c vals : cinv c -> bind c vals = s_bind (env_of (ins c) vals) (abs c).
Proof.
  intros [Hb _]. unfold bind, s_bind, abs. simpl. rewrite map_map.
  apply map_ext_in. intros g Hg. destruct g as [g|k qs o]; simpl; [reflexivity|].
  destruct (Hb o) as [f Hf]; [|rewrite Hf; reflexivity].
  unfold body_outs. apply in_flat_map. exists (PG k qs o). split; [exact Hg|left; reflexivity].
Qed.

(* positional values: with distinct in-parameters, the i-th value is what the i-th parameter evaluates to *)
Lemma env_of_nth ps : NoDup ps -> forall vals i, i < length ps -> length vals = length ps ->
  env_of ps vals (nth i ps 0) = nth i vals k0.
Proof.
  induction ps as [|p ps IH]; intros Hnd vals i Hi Hl; [simpl in Hi; lia|].
  destruct vals as [|v vals]; [discriminate|]. inversion Hnd as [|? ? Hp Hnd']; subst.
  destruct i as [|i]; simpl; [rewrite Nat.eqb_refl; reflexivity|].
  destruct (Nat.eqb_spec (nth i ps 0) p) as [E|Hne].
  - exfalso. apply Hp. rewrite <- E. apply nth_In. simpl in Hi. lia.
  - apply IH; auto; simpl in *; lia.
Qed.

(* evaluation only reads the parameters the function mentions *)
Lemma eval_ext env env' f : (forall p, In p (fparams f) -> env p = env' p) -> eval env f = eval env' f.
Proof.
  destruct f as [p|ts]; simpl; intros H; [apply H; left; reflexivity|].
  generalize k0. induction ts as [|[[p|] c] ts IH]; intros a; simpl; [reflexivity| |].
  - rewrite (H p) by (simpl; left; reflexivity). apply IH. intros q Hq. apply H. simpl. right. exact Hq.
  - apply IH. intros q Hq. apply H. simpl. exact Hq.
Qed.

(* ---- rebuilding a circuit from abstract gates, as the parametric transpilers do: a new circuit over
   the same in-parameters, gates added one by one through the public operations *)
Fixpoint build (ret : lmc) (items : list rgate) (next : pid) : option (lmc * pid) :=
  match items with
  | [] => Some (ret, next)
  | RFixed g :: r => build (add_fixed ret g) r next
  | RRot k qs f :: r =>
      match add_pg ret k qs f next with
      | Some ret' => build ret' r (S next)
      | None => None
      end
  end.
Definition closed (ps : list pid) (items : list rgate) : Prop :=
  forall k qs f, In (RRot k qs f) items -> forall p, In p (fparams f) -> In p ps.
Fixpoint count_rots (items : list rgate) : nat :=
  match items with [] => 0 | RFixed _ :: r => count_rots r | RRot _ _ _ :: r => S (count_rots r) end.

Definition functional (m : list (pid * afun)) : Prop := forall o f f', In (o, f) m -> In (o, f') m -> f = f'.

Lemma build_ok items : forall ret next,
  cinv ret -> (forall o, In o (keys (pmap ret)) -> o < next) -> closed (ins ret) items -> functional (pmap ret) ->
  exists ret', build ret items next = Some (ret', next + count_rots items)
    /\ abs ret' = mkS (nq ret) (ins ret) (sgates (abs ret) ++ items)
    /\ cinv ret' /\ ins ret' = ins ret
    /\ (forall o f, In (o, f) (pmap ret') -> In (o, f) (pmap ret) \/ next <= o < next + count_rots items)
    /\ functional (pmap ret').
Proof.
  induction items as [|it items IH]; intros ret next Hc Hk Hcl Hfun.
  - exists ret. simpl. rewrite Nat.add_0_r, app_nil_r. destruct Hc as [A [B C]]. repeat split; auto.
  - destruct it as [g|k qs f]; simpl.
    + destruct (IH (add_fixed ret g) next) as [ret' [Hb [Ha [Hi [Hins [He Hfn]]]]]].
      * destruct Hc as [A BC]. split; [|exact BC]. intros o Ho. simpl in Ho. rewrite body_outs_app in Ho.
        apply in_app_or in Ho. destruct Ho as [Ho|Ho]; [apply A; exact Ho|simpl in Ho; contradiction].
      * exact Hk.
      * intros k qs f Hin. apply (Hcl k qs f). right. exact Hin.
      * exact Hfun.
      * exists ret'. split; [exact Hb|]. split; [|split; [exact Hi|split; [exact Hins|split; [exact He|exact Hfn]]]].
        rewrite Ha. simpl. rewrite map_app, <- app_assoc. reflexivity.
    + assert (Hf : forall p, In p (fparams f) -> In p (ins ret)) by (apply (Hcl k qs f); left; reflexivity).
      assert (Ea : add_pg ret k qs f next
                   = Some (mkLM (nq ret) (ins ret) (outs ret ++ [next]) ((next, f) :: pmap ret) (body ret ++ [PG k qs next]))).
      { unfold add_pg. replace (forallb (fun p => memb p (ins ret)) (fparams f)) with true; [reflexivity|].
        symmetry. apply forallb_forall. intros p Hp. apply memb_In. auto. }
      remember (mkLM (nq ret) (ins ret) (outs ret ++ [next]) ((next, f) :: pmap ret) (body ret ++ [PG k qs next])) as ret1 eqn:Er.
      rewrite Ea.
      assert (Hfresh : ~ In next (keys (pmap ret))) by (intros Hin; apply Hk in Hin; lia).
      assert (Hc1 : cinv ret1).
      { rewrite Er. destruct Hc as [A [B C]]. split; [|split; [exact B|]]; simpl.
        - intros o Ho. rewrite body_outs_app in Ho. apply in_app_or in Ho.
          destruct (Nat.eqb_spec o next) as [->|Hne]; [exists f; reflexivity|].
          destruct Ho as [Ho|Ho]; [apply A; exact Ho|]. simpl in Ho. destruct Ho as [E|[]]. congruence.
        - intros o f' [E|Hin] p Hp; [injection E as <- <-; apply Hf; exact Hp|exact (C o f' Hin p Hp)]. }
      assert (Hab : abs ret1 = mkS (nq ret) (ins ret) (sgates (abs ret) ++ [RRot k qs f])).
      { pose proof (abs_add_pg ret k qs f next ret1 Hfresh Hc Ea) as H. unfold s_add_pg in H.
        destruct (forallb _ (fparams f)); [|discriminate].
        change (Some (mkS (nq ret) (ins ret) (sgates (abs ret) ++ [RRot k qs f])) = Some (abs ret1)) in H. congruence. }
      assert (Hn1 : nq ret1 = nq ret /\ ins ret1 = ins ret /\ pmap ret1 = (next, f) :: pmap ret) by (rewrite Er; auto).
      destruct Hn1 as [Hn1 [Hi1 Hp1]].
      destruct (IH ret1 (S next)) as [ret' [Hb [Ha [Hi [Hins [He Hfn]]]]]].
      * exact Hc1.
      * rewrite Hp1. simpl. intros o [<-|Ho]; [lia|apply Hk in Ho; lia].
      * rewrite Hi1. intros k' qs' f' Hin. apply (Hcl k' qs' f'). right. exact Hin.
      * rewrite Hp1. intros o f1 f2 [E1|H1] [E2|H2].
        -- congruence.
        -- exfalso. injection E1 as <- <-. apply Hfresh. exact (in_keys _ _ _ H2).
        -- exfalso. injection E2 as <- <-. apply Hfresh. exact (in_keys _ _ _ H1).
        -- exact (Hfun o f1 f2 H1 H2).
      * exists ret'. replace (next + S (count_rots items)) with (S next + count_rots items) by lia.
        split; [exact Hb|]. split; [|split; [exact Hi|split; [congruence|split; [|exact Hfn]]]].
        -- rewrite Ha, Hab, Hn1, Hi1. simpl. rewrite <- app_assoc. reflexivity.
        -- intros o f' Hin. rewrite Hp1 in He.
           destruct (He o f' Hin) as [[E|H]|H]; [injection E as <- <-; right; lia|left; exact H|right; lia].
Qed.

Lemma abs_closed c : cinv c -> closed (ins c) (sgates (abs c)).
Proof.
  intros [_ [_ C]] k qs f Hin p Hp. unfold abs in Hin. simpl in Hin. apply in_map_iff in Hin.
  destruct Hin as [[g|k' qs' o] [E Hg]]; simpl in E; [discriminate|]. injection E as _ _ E.
  destruct (lookup o (pmap c)) as [f0|] eqn:El; subst f; [|simpl in Hp; contradiction].
  exact (C o f0 (lookup_in _ _ _ El) p Hp).
Qed.
End Param.
