(* Trotterised UCC excitations under the Jordan-Wigner mapping: each excitation is a group of rotations about Pauli strings
   that carry X / Y on the "endpoint" qubits (2 for a single, 4 for a double excitation) and one common string of Z factors
   on other qubits.  Theorem: if the endpoint block - the same rotations without the Z string, with angles c_k t - keeps the
   particle-number sectors for every real t (decided on the regenerated endpoint templates through the C01-proved
   decomposition of Pauli rotations), then the block WITH any Z string on any qubits keeps them too; hence every circuit that
   is a sequence of such blocks does - any number of excitations, any string lengths, registers of any size. *)
From Coq Require Import ZArith List Bool Arith Lia Reals Lra FunctionalExtensionality Permutation.
From QP Require Import Cx Zw Asum FMat Lpoly Apply Local Gates Rsem Conserve.
From QPM Require Import Transpile Pauli Native PauliRot Ansatz Operator.
Import ListNotations.
Local Open Scope C_scope.

(* ------------------------------------------------------------------ rotations in sequence *)
Fixpoint rots (rs : list (R * label)) (psi : St) : St :=
  match rs with
  | [] => psi
  | (t, l) :: rs' => rots rs' (prot t l psi)
  end.

Lemma rots_app a : forall b psi, rots (a ++ b) psi = rots b (rots a psi).
Proof. induction a as [|[t l] a IH]; intros b psi; cbn [app rots]; [reflexivity|apply IH]. Qed.

(* ------------------------------------------------------------------ locality: operators on E only look inside the fibre *)
Definition fibre_eq (E : list nat) (b : Basis) (f g : St) : Prop := forall b', agree_off E b b' -> f b' = g b'.

Lemma agree_off_bset E b b' i v : In i E -> agree_off E b b' -> agree_off E b (bset b' i v).
Proof. intros Hi H n Hn. rewrite bset_neq by (intros ->; contradiction). apply H, Hn. Qed.

Lemma P_local E b i p f g : In i E -> fibre_eq E b f g -> fibre_eq E b (lsem (psem (i, p)) f) (lsem (psem (i, p)) g).
Proof.
  intros Hi H b' Hb'. rewrite (psem_form i p), !lsem_1q.
  rewrite !(H (bset b' i _)) by (apply agree_off_bset; assumption). reflexivity.
Qed.

Lemma lsemL_local E b l : incl (keys l) E -> forall f g, fibre_eq E b f g -> fibre_eq E b (lsemL l f) (lsemL l g).
Proof.
  induction l as [|[i p] l IH]; intros Hin f g H; [exact H|].
  rewrite !lsemL_cons. apply IH; [intros x Hx; apply Hin; right; exact Hx|].
  apply P_local; [apply Hin; left; reflexivity|exact H].
Qed.

Lemma prot_local E b t l f g : incl (keys l) E -> fibre_eq E b f g -> fibre_eq E b (prot t l f) (prot t l g).
Proof.
  intros Hin H b' Hb'. unfold prot. rewrite (H b' Hb'), (lsemL_local E b l Hin f g H b' Hb'). reflexivity.
Qed.

Lemma rots_local E b rs : Forall (fun tl => incl (keys (snd tl)) E) rs ->
  forall f g, fibre_eq E b f g -> fibre_eq E b (rots rs f) (rots rs g).
Proof.
  induction rs as [|[t l] rs IH]; intros Hall f g H; [exact H|].
  inversion Hall as [|? ? Hl Hall']; subst. cbn [rots]. apply IH; [exact Hall'|]. apply prot_local; assumption.
Qed.

(* ------------------------------------------------------------------ a string of Z factors is a sign *)
Fixpoint sgR (zs : list nat) (b : Basis) : R :=
  match zs with [] => 1%R | i :: zs' => ((if b i then -1 else 1) * sgR zs' b)%R end.

Lemma sgR_pm zs b : sgR zs b = 1%R \/ sgR zs b = (-1)%R.
Proof. induction zs as [|i zs IH]; cbn [sgR]; [left; reflexivity|]. destruct (b i), IH as [-> | ->]; [right|left|left|right]; lra. Qed.

Lemma zlab_diag zs : forall psi b, lsemL (zlab zs) psi b = RtoC (sgR zs b) * psi b.
Proof.
  induction zs as [|i zs IH]; intros psi b.
  - unfold lsemL, zlab. cbn [map]. rewrite csem_nil. unfold RtoC. cbn [sgR]. apply C_eq; cbn; ring.
  - unfold zlab. cbn [map]. fold (zlab zs). rewrite lsemL_cons, IH, Zdiag. cbn [sgR].
    destruct (b i); unfold RtoC, Cmul, Copp, C1; apply C_eq; cbn; ring.
Qed.

Lemma sgR_fibre E zs b b' : (forall z, In z zs -> ~ In z E) -> agree_off E b b' -> sgR zs b' = sgR zs b.
Proof.
  intros Hd H. induction zs as [|i zs IH]; cbn [sgR]; [reflexivity|].
  rewrite (H i) by (apply Hd; left; reflexivity). rewrite IH by (intros z Hz; apply Hd; right; exact Hz). reflexivity.
Qed.

Lemma lsemL_app l l' psi : lsemL (l ++ l') psi = lsemL l' (lsemL l psi).
Proof. unfold lsemL. rewrite map_app, csem_app'. reflexivity. Qed.

Definition zext (zs : list nat) (tl : R * label) : R * label := (fst tl, snd tl ++ zlab zs).
Definition sscale (s : R) (tl : R * label) : R * label := ((s * fst tl)%R, snd tl).

Lemma prot_sign s t l psi b : s = 1%R \/ s = (-1)%R ->
  prot (s * t) l psi b = RtoC (cos (t / 2)) * psi b + (- (Ci * RtoC (sin (t / 2)))) * (RtoC s * lsemL l psi b).
Proof.
  intros [-> | ->]; unfold prot.
  - replace (1 * t / 2)%R with (t / 2)%R by field. unfold RtoC, Cmul, Cadd, Copp, Ci; apply C_eq; cbn; ring.
  - replace (-1 * t / 2)%R with (- (t / 2))%R by field. rewrite cos_neg, sin_neg.
    unfold RtoC, Cmul, Cadd, Copp, Ci; apply C_eq; cbn; ring.
Qed.

(* on the fibre of b the rotation about (l ++ Z string) is the rotation about l by the angle times the sign of b *)
Lemma prot_zext_fibre E zs b t l psi : (forall z, In z zs -> ~ In z E) ->
  fibre_eq E b (prot t (l ++ zlab zs) psi) (prot (sgR zs b * t) l psi).
Proof.
  intros Hd b' Hb'. rewrite (prot_sign (sgR zs b) t l psi b' (sgR_pm zs b)).
  unfold prot. rewrite lsemL_app, zlab_diag, (sgR_fibre E zs b b' Hd Hb'). reflexivity.
Qed.

Theorem rots_zext_fibre E zs rs : (forall z, In z zs -> ~ In z E) -> Forall (fun tl => incl (keys (snd tl)) E) rs ->
  forall psi b, rots (map (zext zs) rs) psi b = rots (map (sscale (sgR zs b)) rs) psi b.
Proof.
  intros Hd Hall psi b.
  assert (G : forall rs, Forall (fun tl => incl (keys (snd tl)) E) rs -> forall f g, fibre_eq E b f g ->
              fibre_eq E b (rots (map (zext zs) rs) f) (rots (map (sscale (sgR zs b)) rs) g)).
  { clear rs Hall psi. induction rs as [|[t l] rs IH]; intros Hall f g H; [exact H|].
    inversion Hall as [|? ? Hl Hall']; subst. cbn [map rots zext sscale fst snd].
    apply IH; [exact Hall'|]. intros b' Hb'.
    rewrite (prot_zext_fibre E zs b t l f Hd b' Hb').
    apply (prot_local E b _ l f g Hl H b' Hb'). }
  apply (G rs Hall psi psi); [intros b' _; reflexivity|apply agree_off_refl].
Qed.

(* ------------------------------------------------------------------ sector preservation lifts from the endpoint block *)
Section Lift.
Variable c : nat -> Z.
Variable same : Z -> Z -> bool.

Theorem zext_keeps Q E zs rs : (forall z, In z zs -> ~ In z E) -> Forall (fun tl => incl (keys (snd tl)) E) rs ->
  (forall s, s = 1%R \/ s = (-1)%R -> keeps c same Q (rots (map (sscale s) rs))) ->
  keeps c same Q (rots (map (zext zs) rs)).
Proof.
  intros Hd Hall Hk v psi Hs b Hb. rewrite (rots_zext_fibre E zs rs Hd Hall psi b).
  exact (Hk (sgR zs b) (sgR_pm zs b) v psi Hs b Hb).
Qed.

Lemma keeps_rots_app Q a b : keeps c same Q (rots a) -> keeps c same Q (rots b) -> keeps c same Q (rots (a ++ b)).
Proof. intros Ha Hb v psi Hs. rewrite rots_app. apply Hb, Ha, Hs. Qed.
End Lift.

(* ------------------------------------------------------------------ rotations through their decomposition *)
Definition rot_a (s : bool) (ip : nat * pauli) : list gate :=
  match snd ip with
  | PX => [mkG KH [fst ip] []]
  | PY => [mkG KRX [fst ip] [if s then hp else hm]]
  | PZ => []
  end.
(* PauliRotationDecomposeTranspiler.decompose with a symbolic angle (PauliRot.prot_decompose with angles of type ang) *)
Definition prot_decompose_a (l : label) (a : ang) : list gate :=
  match l with
  | [] => []
  | (q0, _) :: rest =>
      flat_map (rot_a true) l ++ map (fun q => mkG KCNOT [q; q0] []) (rev (keys rest)) ++ [mkG KRZ [q0] [a]]
      ++ map (fun q => mkG KCNOT [q; q0] []) (keys rest) ++ flat_map (rot_a false) l
  end.

Definition relab (pi : nat -> nat) (l : label) : label := map (fun ip => (pi (fst ip), snd ip)) l.

Lemma keys_relab pi l : keys (relab pi l) = map pi (keys l).
Proof. unfold keys, relab. rewrite !map_map. reflexivity. Qed.

Lemma ang_eval_hp theta : ang_eval theta hp = (PI / 2)%R.
Proof. unfold ang_eval, hp, ang_pi4. cbn. lra. Qed.
Lemma ang_eval_hm theta : ang_eval theta hm = (- (PI / 2))%R.
Proof. unfold ang_eval, hm, ang_pi4. cbn. lra. Qed.

Lemma inst_rot_a theta pi s l :
  map (inst theta pi) (flat_map (rot_a s) l) = flat_map (rot_c s) (relab pi l).
Proof.
  induction l as [|[q p] l IH]; [reflexivity|]. cbn [flat_map relab map]. fold (relab pi l).
  rewrite map_app, IH. f_equal. unfold rot_a, rot_c. cbn [fst snd].
  destruct p; cbn [map]; unfold inst; cbn [gk gqs gas map]; [reflexivity| |reflexivity].
  destruct s; [rewrite ang_eval_hp|rewrite ang_eval_hm]; reflexivity.
Qed.

Lemma inst_prot_decompose_a theta pi l a :
  map (inst theta pi) (prot_decompose_a l a) = prot_decompose (relab pi l) (ang_eval theta a).
Proof.
  destruct l as [|[q0 p0] rest]; [reflexivity|].
  unfold prot_decompose_a, prot_decompose. cbn [relab map fst snd]. fold (relab pi rest).
  rewrite !map_app, !inst_rot_a. cbn [relab map fst snd]. fold (relab pi rest).
  rewrite keys_relab, <- map_rev, !map_map. reflexivity.
Qed.

(* a group of rotations as gates: (endpoint label on local qubits, integer multiple of the variable theta_0) *)
Definition utmpl := list (label * Z).
Definition ut_gates (u : utmpl) : list gate :=
  flat_map (fun lc => prot_decompose_a (fst lc) (mkAng 0 [snd lc])) u.
Definition ut_rots (pi : nat -> nat) (t : R) (u : utmpl) : list (R * label) :=
  map (fun lc => ((IZR (snd lc) * t)%R, relab pi (fst lc))) u.
Definition ut_ok (u : utmpl) : Prop := Forall (fun lc => fst lc <> [] /\ NoDup (keys (fst lc))) u.

Lemma ang_eval_single theta z : ang_eval theta (mkAng 0 [z]) = (IZR z * theta 0%nat)%R.
Proof. unfold ang_eval. cbn. lra. Qed.

Lemma relab_nonempty pi l : l <> [] -> relab pi l <> [].
Proof. destruct l; [contradiction|discriminate]. Qed.

Lemma csem_rots_equiv (pi : nat -> nat) (Hpi : forall a b, pi a = pi b -> a = b) theta (u : utmpl) : ut_ok u ->
  csem (map (fun g => rsem (inst theta pi g)) (ut_gates u)) ≃ rots (ut_rots pi (theta 0%nat) u).
Proof.
  induction 1 as [|[l z] u [Hne Hnd] _ IH]; [apply opequiv_refl|].
  unfold ut_gates. cbn [flat_map fst snd]. fold (ut_gates u). rewrite map_app.
  cbn [ut_rots map fst snd]. fold (ut_rots pi (theta 0%nat) u).
  assert (E : map (fun g => rsem (inst theta pi g)) (prot_decompose_a l (mkAng 0 [z]))
              = map rsem (prot_decompose (relab pi l) (IZR z * theta 0%nat))).
  { rewrite <- (map_map (inst theta pi) rsem), inst_prot_decompose_a, ang_eval_single. reflexivity. }
  rewrite E.
  assert (S1 : csem (map rsem (prot_decompose (relab pi l) (IZR z * theta 0%nat))) ≃ prot (IZR z * theta 0%nat) (relab pi l)).
  { apply pauli_rotation_decomposition_sound; [apply relab_nonempty, Hne|].
    rewrite keys_relab. apply FinFun.Injective_map_NoDup; [exact Hpi|exact Hnd]. }
  destruct S1 as [k1 [Hk1 S1]]. destruct IH as [k2 [Hk2 IH]].
  exists (k1 * k2). split; [apply Cunit_mul; assumption|]. intros psi b.
  rewrite csem_app'. cbn [rots].
  set (U := csem (map (fun g => rsem (inst theta pi g)) (ut_gates u))) in *.
  set (V := csem (map rsem (prot_decompose (relab pi l) (IZR z * theta 0%nat)))) in *.
  assert (EV : V psi = fun b => k1 * prot (IZR z * theta 0%nat) (relab pi l) psi b)
    by (apply functional_extensionality; intros x; apply S1).
  rewrite EV. unfold U. rewrite csem_sc. fold U. rewrite IH. ring.
Qed.

(* ------------------------------------------------------------------ the order of the factors inside a label is immaterial *)
Lemma prot_perm t l l' : Permutation l l' -> NoDup (keys l) -> prot t l = prot t l'.
Proof.
  intros Hp Hnd. apply functional_extensionality; intros psi. apply functional_extensionality; intros b.
  unfold prot. rewrite (lsemL_perm l l' Hp Hnd). reflexivity.
Qed.

Definition same_rot (a b : R * label) : Prop := fst a = fst b /\ Permutation (snd a) (snd b).

Lemma rots_perm rs rs' : Forall (fun tl => NoDup (keys (snd tl))) rs -> Forall2 same_rot rs rs' -> rots rs = rots rs'.
Proof.
  intros Hnd H. induction H as [|[t l] [t' l'] rs rs' [Ht Hp] _ IH]; [reflexivity|].
  inversion Hnd as [|? ? Hl Hnd']; subst. cbn [fst snd] in *. subst t'.
  apply functional_extensionality; intros psi. cbn [rots]. rewrite (prot_perm t l l' Hp Hl), (IH Hnd'). reflexivity.
Qed.

Lemma keys_zlab zs : keys (zlab zs) = zs.
Proof. unfold keys, zlab. rewrite map_map. cbn [fst]. apply map_id. Qed.

Record ublock := mkU { uk : nat; ut : utmpl; uE : list nat; uzs : list nat; uang : R }.
Definition ublock_rots (bl : ublock) : list (R * label) :=
  map (zext (uzs bl)) (ut_rots (pi_of (uE bl)) (uang bl) (ut bl)).

Lemma sscale_ut_rots pi s t u : map (sscale s) (ut_rots pi t u) = ut_rots pi (s * t) u.
Proof.
  unfold ut_rots. rewrite map_map. apply map_ext. intros [l z]. unfold sscale. cbn [fst snd]. f_equal. ring.
Qed.

Lemma pi_of_lt E i : i < length E -> In (pi_of E i) E.
Proof. intros H. unfold pi_of. replace (i <? length E) with true by (symmetry; apply Nat.ltb_lt; exact H). apply nth_In, H. Qed.

(* ------------------------------------------------------------------ endpoint templates decided by computation *)
(* cR: the charge of each endpoint (all 1 for the particle number; +1 / -1 for 2 S_z on even / odd spin orbitals) *)
Definition is_nil {A} (l : list A) : bool := match l with [] => true | _ => false end.
Definition ut_check_c (cR : list Z) (k : nat) (u : utmpl) : bool :=
  check_conserve Z.eqb cR (seq 0 k) (map eg (ut_gates u)) && forallb gate_ok (ut_gates u)
  && forallb (fun lc => negb (is_nil (fst lc)) && nodupb (keys (fst lc)) && forallb (fun q => q <? k) (keys (fst lc))) u.
Definition ut_check (k : nat) (u : utmpl) : bool := ut_check_c (repeat 1%Z k) k u.

Lemma ut_check_ok cR k u : ut_check_c cR k u = true -> ut_ok u /\ Forall (fun lc => forall q, In q (keys (fst lc)) -> q < k) u.
Proof.
  unfold ut_check_c. intros H. apply andb_true_iff in H as [_ H]. rewrite forallb_forall in H.
  split; apply Forall_forall; intros lc Hlc; specialize (H lc Hlc);
    apply andb_true_iff in H as [H H3]; apply andb_true_iff in H as [H1 H2].
  - cbn beta. split.
    + destruct (fst lc); [discriminate H1|discriminate].
    + apply nodupb_NoDup; exact H2.
  - rewrite forallb_forall in H3. intros q Hq. apply Nat.ltb_lt, H3, Hq.
Qed.

Lemma nth_repeat_1 k i : i < k -> nth i (repeat 1%Z k) 0%Z = 1%Z.
Proof. revert i. induction k as [|k IH]; intros i H; [lia|]. destruct i as [|i]; cbn [repeat nth]; [reflexivity|apply IH; lia]. Qed.

Section Charge.
Variable c : nat -> Z.

(* the endpoint block with angles c_k t keeps the sectors of the charge, for every t and every placement E whose qubits
   carry the charges cR *)
Theorem endpoint_block_keeps cR k u Q E t : ut_check_c cR k u = true -> NoDup Q -> NoDup E -> length E = k -> incl E Q ->
  (forall i, i < k -> c (nth i E 0%nat) = nth i cR 0%Z) ->
  keeps c Z.eqb Q (rots (ut_rots (pi_of E) t u)).
Proof.
  intros Hc HQ HE Hlen Hin Hch. pose proof (ut_check_ok cR k u Hc) as [Hok _].
  unfold ut_check_c in Hc. apply andb_true_iff in Hc as [Hc _]. apply andb_true_iff in Hc as [Hc Hg].
  set (theta := fun _ : nat => t).
  pose proof (csem_rots_equiv (pi_of E) (pi_of_inj E HE) theta u Hok) as Eq. cbn beta in Eq.
  apply (keeps_equiv c Z.eqb Q _ _ (opequiv_sym _ _ Eq)).
  apply (block_keeps c Z.eqb eqb_trans eqb_shift theta (pi_of E) (pi_of_inj E HE) cR (seq 0 k)
           (ut_gates u) Q Hc Hg).
  - intros i Hi. rewrite seq_length in Hi. rewrite seq_nth by exact Hi. cbn [Nat.add]. rewrite <- Hch by exact Hi.
    unfold pi_of. replace (i <? length E) with true by (symmetry; apply Nat.ltb_lt; lia). reflexivity.
  - exact HQ.
  - rewrite <- Hlen, map_pi_of_seq. exact Hin.
Qed.

(* ------------------------------------------------------------------ blocks with Z strings, and circuits of them *)
Definition ublock_ok_c (cR_of : ublock -> list Z) (Q : list nat) (bl : ublock) : Prop :=
  ut_check_c (cR_of bl) (uk bl) (ut bl) = true /\ NoDup (uE bl) /\ length (uE bl) = uk bl /\ incl (uE bl) Q /\
  (forall i, i < uk bl -> c (nth i (uE bl) 0%nat) = nth i (cR_of bl) 0%Z) /\
  (forall z, In z (uzs bl) -> ~ In z (uE bl)) /\ NoDup (uzs bl).

Theorem ublock_keeps cR_of Q bl : NoDup Q -> ublock_ok_c cR_of Q bl -> keeps c Z.eqb Q (rots (ublock_rots bl)).
Proof.
  intros HQ [Hc [HE [Hlen [Hin [Hch [Hd _]]]]]]. unfold ublock_rots.
  apply (zext_keeps c Z.eqb Q (uE bl) (uzs bl)); [exact Hd| |].
  - pose proof (ut_check_ok _ _ _ Hc) as [_ Hlt]. unfold ut_rots. rewrite Forall_map.
    rewrite Forall_forall in *. intros lc Hlc. cbn [snd]. rewrite keys_relab. intros x Hx.
    apply in_map_iff in Hx as [q [<- Hq]]. apply pi_of_lt. rewrite Hlen. apply (Hlt lc Hlc), Hq.
  - intros s _. rewrite sscale_ut_rots. apply (endpoint_block_keeps (cR_of bl) (uk bl)); assumption.
Qed.

Theorem ucc_circuit_keeps cR_of Q (blocks : list ublock) : NoDup Q -> Forall (ublock_ok_c cR_of Q) blocks ->
  keeps c Z.eqb Q (rots (concat (map ublock_rots blocks))).
Proof.
  intros HQ H. induction H as [|bl blocks Hbl _ IH]; cbn [map concat].
  - intros v psi Hs. exact Hs.
  - apply keeps_rots_app; [apply (ublock_keeps cR_of); assumption|exact IH].
Qed.

Lemma ublock_rots_nodup cR_of Q bl : ublock_ok_c cR_of Q bl -> Forall (fun tl => NoDup (keys (snd tl))) (ublock_rots bl).
Proof.
  intros [Hc [HE [Hlen [Hin [_ [Hd Hz]]]]]]. pose proof (ut_check_ok _ _ _ Hc) as [Hok Hlt].
  unfold ublock_rots, ut_rots. rewrite !Forall_map. unfold ut_ok in Hok. rewrite Forall_forall in *. intros lc Hlc.
  destruct (Hok lc Hlc) as [_ Hnd]. cbn [zext fst snd]. unfold keys. rewrite map_app. fold (keys (relab (pi_of (uE bl)) (fst lc))) (keys (zlab (uzs bl))).
  rewrite keys_relab, keys_zlab. apply NoDup_app_intro.
  - apply FinFun.Injective_map_NoDup; [intros x y; apply pi_of_inj; exact HE|exact Hnd].
  - exact Hz.
  - intros x Hx Hx'. apply in_map_iff in Hx as [q [<- Hq]].
    apply (Hd _ Hx'). apply pi_of_lt. rewrite Hlen. apply (Hlt lc Hlc), Hq.
Qed.

(* the circuit as the library writes it: the same rotations, each label in any factor order *)
Theorem ucc_circuit_any_factor_order cR_of Q (blocks : list ublock) (circ : list (R * label)) :
  NoDup Q -> Forall (ublock_ok_c cR_of Q) blocks -> Forall2 same_rot (concat (map ublock_rots blocks)) circ ->
  keeps c Z.eqb Q (rots circ).
Proof.
  intros HQ Hb Hs. rewrite <- (rots_perm _ _ (ltac:(
    apply Forall_concat; rewrite Forall_map; rewrite Forall_forall in *; intros bl Hbl; apply (ublock_rots_nodup cR_of Q), Hb, Hbl)) Hs).
  apply (ucc_circuit_keeps cR_of); assumption.
Qed.
End Charge.
