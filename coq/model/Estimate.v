(* Model of the estimator glue that is logic in this repository (C04):
   batch dispatch of concurrent estimators (1:N, N:1, N:N), the generic lifting constructors of
   core/estimator/__init__.py, and the content-keyed operator cache of qulacs/operator/__init__.py.
   The simulator itself (state evolution, expectation value) is a Section variable [est]. *)
From Coq Require Import List Arith Bool Lia.
Import ListNotations.

Section Dispatch.
Variables O Sta V : Type.
Variable est : O -> Sta -> V.             (* the single (operator, state) estimator *)

(* create_concurrent_estimator_from_estimator / _concurrent_estimate ; None = ValueError *)
Definition concurrent_estimate (ops : list O) (states : list Sta) : option (list V) :=
  let no := length ops in let ns := length states in
  if Nat.eqb no 0 then None
  else if Nat.eqb ns 0 then None
  else if Nat.ltb 1 no && Nat.ltb 1 ns && negb (Nat.eqb no ns) then None
  else
    let states' := if Nat.eqb ns 1 then repeat (hd_error states) no else map Some states in
    let ops' := if Nat.eqb no 1 then repeat (hd_error ops) ns else map Some ops in
    Some (flat_map (fun os => match os with (Some o, Some s) => [est o s] | _ => [] end) (combine ops' states')).

(* the specification: broadcasting *)
Definition spec_pair (ops : list O) (states : list Sta) (i : nat) : option (O * Sta) :=
  match nth_error ops (if Nat.eqb (length ops) 1 then 0 else i),
        nth_error states (if Nat.eqb (length states) 1 then 0 else i) with
  | Some o, Some s => Some (o, s)
  | _, _ => None
  end.

Lemma flat_some_map {A B} (f : A -> B) (l : list (option A * option A)) : True. Proof. exact I. Qed.

Lemma combine_repeat_l {A B} (a : A) (l : list B) :
  combine (repeat a (length l)) l = map (fun b => (a, b)) l.
Proof. induction l as [|b l IH]; simpl; [reflexivity | rewrite IH; reflexivity]. Qed.
Lemma combine_repeat_r {A B} (b : B) (l : list A) :
  combine l (repeat b (length l)) = map (fun a => (a, b)) l.
Proof. induction l as [|a l IH]; simpl; [reflexivity | rewrite IH; reflexivity]. Qed.

(* N operators, one state *)
Theorem dispatch_many_ops_one_state ops s : ops <> [] ->
  concurrent_estimate ops [s] = Some (map (fun o => est o s) ops).
Proof.
  intros Hne. unfold concurrent_estimate. destruct ops as [|o ops]; [contradiction|].
  simpl length. simpl Nat.eqb. simpl hd_error.
  rewrite andb_false_r. simpl.
  destruct ops as [|o2 ops]; simpl; [reflexivity|].
  f_equal. f_equal. f_equal.
  assert (E : forall l : list O, flat_map (fun os : option O * option Sta => match os with (Some o0, Some s0) => [est o0 s0] | _ => [] end)
            (combine (map Some l) (repeat (Some s) (length l))) = map (fun o0 => est o0 s) l).
  { induction l as [|x l IH]; simpl; [reflexivity | rewrite IH; reflexivity]. }
  apply E.
Qed.

(* one operator, N states *)
Theorem dispatch_one_op_many_states o states : states <> [] ->
  concurrent_estimate [o] states = Some (map (fun s => est o s) states).
Proof.
  intros Hne. unfold concurrent_estimate. destruct states as [|s states]; [contradiction|].
  simpl length. simpl Nat.eqb. simpl hd_error. simpl.
  destruct states as [|s2 states]; simpl; [reflexivity|].
  f_equal. f_equal. f_equal.
  assert (E : forall l : list Sta, flat_map (fun os : option O * option Sta => match os with (Some o0, Some s0) => [est o0 s0] | _ => [] end)
            (combine (repeat (Some o) (length l)) (map Some l)) = map (fun s0 => est o s0) l).
  { induction l as [|x l IH]; simpl; [reflexivity | rewrite IH; reflexivity]. }
  apply E.
Qed.

(* N operators, N states: pairwise, in order *)
Theorem dispatch_pairwise ops states : length ops = length states -> 2 <= length ops ->
  concurrent_estimate ops states = Some (map (fun os => est (fst os) (snd os)) (combine ops states)).
Proof.
  intros Hl H2. unfold concurrent_estimate. rewrite <- Hl.
  destruct (Nat.eqb_spec (length ops) 0) as [E|_]; [lia|].
  destruct (Nat.eqb_spec (length ops) 1) as [E|_]; [lia|].
  rewrite Nat.eqb_refl. simpl negb. rewrite andb_false_r. f_equal.
  clear H2. revert states Hl. induction ops as [|o ops IH]; intros [|s states] Hl; simpl in *; try lia; auto.
  f_equal. apply IH. lia.
Qed.

(* the three documented error cases, and only those *)
Theorem dispatch_errors ops states :
  concurrent_estimate ops states = None <->
  (ops = [] \/ states = [] \/ (2 <= length ops /\ 2 <= length states /\ length ops <> length states)).
Proof.
  unfold concurrent_estimate.
  destruct ops as [|o ops]; [simpl; split; auto|].
  destruct states as [|s states]; [simpl; split; auto|].
  simpl length. simpl Nat.eqb at 1 2.
  destruct (Nat.ltb 1 (S (length ops)) && Nat.ltb 1 (S (length states)) && negb (Nat.eqb (S (length ops)) (S (length states)))) eqn:E.
  - split; auto. intros _. right; right.
    apply andb_true_iff in E as [E E3]. apply andb_true_iff in E as [E1 E2].
    apply Nat.ltb_lt in E1, E2. apply negb_true_iff, Nat.eqb_neq in E3. lia.
  - split; [discriminate|]. intros [H|[H|[H1 [H2 H3]]]]; try discriminate.
    exfalso. simpl in H1, H2, H3.
    assert (Nat.ltb 1 (S (length ops)) = true) by (apply Nat.ltb_lt; lia).
    assert (Nat.ltb 1 (S (length states)) = true) by (apply Nat.ltb_lt; lia).
    assert (negb (Nat.eqb (S (length ops)) (S (length states))) = true) by (apply negb_true_iff, Nat.eqb_neq; lia).
    rewrite H, H0, H4 in E. discriminate.
Qed.
End Dispatch.

(* ------------------------------------------------------------------ lifting constructors *)
Section Lift.
Variables O Sta PS P V : Type.
Variable bind : PS -> P -> Sta.          (* state.bind_parameters(params) *)
Variable est : O -> Sta -> V.

(* create_parametric_estimator *)
Definition parametric_estimator (o : O) (ps : PS) (p : P) : V := est o (bind ps p).
(* create_concurrent_parametric_estimator(parametric_estimator) *)
Definition concurrent_parametric_estimator (o : O) (ps : PS) (params : list P) : list V :=
  map (fun p => parametric_estimator o ps p) params.

(* estimating a parametric state at p = estimating the state bound to p, for every batch *)
Theorem parametric_equals_bound o ps params :
  concurrent_parametric_estimator o ps params = map (fun p => est o (bind ps p)) params.
Proof. reflexivity. Qed.

(* create_concurrent_parametric_estimator_from_concurrent_estimator: [operator] x bound states *)
Theorem lifted_from_concurrent o ps params : params <> [] ->
  concurrent_estimate O Sta V est [o] (map (bind ps) params)
  = Some (concurrent_parametric_estimator o ps params).
Proof.
  intros Hne. rewrite dispatch_one_op_many_states.
  - unfold concurrent_parametric_estimator, parametric_estimator. rewrite map_map. reflexivity.
  - destruct params; [contradiction | discriminate].
Qed.
End Lift.

(* ------------------------------------------------------------------ content-keyed cache *)
Section Cache.
Variables K B : Type.                    (* key = frozen content (items, n_qubits); B = backend operator *)
Variable keqb : K -> K -> bool.
Hypothesis keqb_eq : forall a b, keqb a b = true <-> a = b.
Variable build : K -> B.                 (* deterministic construction from the content *)

Definition cache := list (K * B).
Fixpoint lookup (c : cache) (k : K) : option B :=
  match c with [] => None | (k', v) :: c' => if keqb k k' then Some v else lookup c' k end.
(* convert_operator: hit -> cached object ; miss -> build, store, return *)
Definition convert (c : cache) (k : K) : B * cache :=
  match lookup c k with Some v => (v, c) | None => (build k, (k, build k) :: c) end.

Definition cache_ok (c : cache) : Prop := forall k v, lookup c k = Some v -> v = build k.

Lemma convert_ok c k : cache_ok c -> fst (convert c k) = build k /\ cache_ok (snd (convert c k)).
Proof.
  intros H. unfold convert. destruct (lookup c k) as [v|] eqn:E; simpl.
  - split; auto.
  - split; auto. intros k' v' Hl. simpl in Hl. destruct (keqb k' k) eqn:Ek.
    + apply keqb_eq in Ek. subst. inversion Hl; auto.
    + apply H; auto.
Qed.

(* after ANY history of conversions, a conversion returns the operator of the content asked for *)
Theorem cache_returns_requested_content (history : list K) (k : K) :
  let c := fold_left (fun c k' => snd (convert c k')) history [] in
  fst (convert c k) = build k.
Proof.
  simpl. assert (G : forall c, cache_ok c -> cache_ok (fold_left (fun c k' => snd (convert c k')) history c)).
  { induction history as [|k' h IH]; intros c Hc; simpl; auto. apply IH. apply (convert_ok c k' Hc). }
  apply convert_ok. apply G. intros k' v Hl. discriminate.
Qed.
End Cache.
