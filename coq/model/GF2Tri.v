(* Unit lower-triangular GF(2) matrices (row i has bit i and no bit above i) - the shape of the number-operator
   matrices of the Jordan-Wigner (identity) and Bravyi-Kitaev (Fenwick-tree parity sets) mappings at EVERY size -
   have trivial kernel; with GF2Complete the elimination of inverse() therefore succeeds on them and the
   state mappers round-trip, for every number of spin orbitals. *)
From Coq Require Import ZArith NArith List Bool Arith Lia.
From QPM Require Import Remap Reconstruct GF2 GF2Complete.
Import ListNotations.

Definition unit_lower (M : list N) : Prop :=
  forall i, i < length M ->
    N.testbit (nth i M 0%N) (N.of_nat i) = true /\
    forall k, i < k -> N.testbit (nth i M 0%N) (N.of_nat k) = false.

(* executable form: row i lies in [2^i, 2^(i+1)) *)
Fixpoint unit_lowerb_from (i : nat) (M : list N) : bool :=
  match M with
  | [] => true
  | r :: M' => (N.leb (pow2 i) r && N.ltb r (pow2 (S i))) && unit_lowerb_from (S i) M'
  end.
Definition unit_lowerb (M : list N) : bool := unit_lowerb_from 0 M.

Lemma pow2_eq i : pow2 i = (2 ^ N.of_nat i)%N.
Proof. unfold pow2. apply N.shiftl_1_l. Qed.

Lemma range_bits r i : (pow2 i <= r)%N -> (r < pow2 (S i))%N ->
  N.testbit r (N.of_nat i) = true /\ forall k, i < k -> N.testbit r (N.of_nat k) = false.
Proof.
  rewrite !pow2_eq. intros Hlo Hhi.
  assert (Hhigh : forall k, i < k -> N.testbit r (N.of_nat k) = false).
  { intros k Hk. apply N.bits_above_log2.
    destruct (N.eq_dec r 0) as [->|Hr0]; [exfalso; pose proof (N.pow_nonzero 2 (N.of_nat i)); lia|].
    apply N.log2_lt_pow2; [lia|].
    eapply N.lt_le_trans; [exact Hhi|]. apply N.pow_le_mono_r; lia. }
  split; [|exact Hhigh].
  destruct (N.testbit r (N.of_nat i)) eqn:E; [reflexivity|exfalso].
  assert (r <> 0%N) as Hr0 by (pose proof (N.pow_nonzero 2 (N.of_nat i)); lia).
  assert (N.log2 r = N.of_nat i) as Hl.
  { rewrite Nat2N.inj_succ in Hhi. rewrite N.pow_succ_r' in Hhi.
    apply (N.log2_unique' r (N.of_nat i) (r - 2 ^ N.of_nat i)%N); lia. }
  pose proof (N.bit_log2 r Hr0) as Hb. rewrite Hl in Hb. congruence.
Qed.

Lemma unit_lowerb_from_spec M : forall i0, unit_lowerb_from i0 M = true ->
  forall i, i < length M ->
    N.testbit (nth i M 0%N) (N.of_nat (i0 + i)) = true /\
    forall k, i0 + i < k -> N.testbit (nth i M 0%N) (N.of_nat k) = false.
Proof.
  induction M as [|r M' IH]; intros i0 H i Hi; [simpl in Hi; lia|].
  cbn [unit_lowerb_from] in H. apply andb_true_iff in H. destruct H as [Hr Hrest].
  apply andb_true_iff in Hr. destruct Hr as [Hlo Hhi].
  apply N.leb_le in Hlo. apply N.ltb_lt in Hhi.
  destruct i as [|i]; cbn [nth].
  - rewrite Nat.add_0_r. apply range_bits; assumption.
  - simpl in Hi. replace (i0 + S i) with (S i0 + i) by lia. apply IH; [exact Hrest|lia].
Qed.

Lemma unit_lowerb_sound M : unit_lowerb M = true -> unit_lower M.
Proof. intros H i Hi. exact (unit_lowerb_from_spec M 0 H i Hi). Qed.

Lemma unit_lower_square M : unit_lower M -> forall r, In r M -> fits (length M) r.
Proof.
  intros HU r Hin. apply In_nth with (d := 0%N) in Hin. destruct Hin as [i [Hi <-]].
  intros k Hk. destruct (HU i Hi) as [_ Hz]. apply Hz. lia.
Qed.

Lemma n_odd_pow2' i : n_odd (pow2 i) = true.
Proof.
  rewrite <- (N.land_diag (pow2 i)). change (dot (pow2 i) (pow2 i) = true).
  rewrite dot_pow2_r. rewrite pow2_testbit. apply Nat.eqb_refl.
Qed.

(* a row with leading bit i meets a vector with no bit below i exactly in bit i *)
Lemma dot_leading r y i :
  N.testbit r (N.of_nat i) = true -> (forall k, i < k -> N.testbit r (N.of_nat k) = false) ->
  (forall k, k < i -> N.testbit y (N.of_nat k) = false) ->
  dot r y = N.testbit y (N.of_nat i).
Proof.
  intros Hi Hhigh Hlow. unfold dot.
  assert (N.land r y = if N.testbit y (N.of_nat i) then pow2 i else 0%N) as ->.
  { apply testbit_ext_nat. intros j. rewrite N.land_spec.
    destruct (lt_eq_lt_dec j i) as [[Hlt|Heq]|Hgt]; [| subst j |].
    - rewrite (Hlow j Hlt), andb_false_r.
      destruct (N.testbit y (N.of_nat i)); [rewrite pow2_testbit; symmetry; apply Nat.eqb_neq; lia|rewrite N.bits_0; reflexivity].
    - rewrite Hi. cbn [andb]. destruct (N.testbit y (N.of_nat i)); [rewrite pow2_testbit, Nat.eqb_refl; reflexivity|rewrite N.bits_0; reflexivity].
    - rewrite (Hhigh j Hgt). cbn [andb].
      destruct (N.testbit y (N.of_nat i)); [rewrite pow2_testbit; symmetry; apply Nat.eqb_neq; lia|rewrite N.bits_0; reflexivity]. }
  destruct (N.testbit y (N.of_nat i)); [apply n_odd_pow2'|reflexivity].
Qed.

Theorem unit_lower_kernel M : unit_lower M ->
  forall y, fits (length M) y -> mulv M y = 0%N -> y = 0%N.
Proof.
  intros HU y Hy H0.
  assert (forall i, i < length M -> N.testbit y (N.of_nat i) = false) as Hbits.
  { intros i. induction i as [i IH] using lt_wf_ind. intros Hi.
    destruct (HU i Hi) as [Hd Hz].
    rewrite <- (dot_leading (nth i M 0%N) y i Hd Hz) by (intros k Hk; apply IH; lia).
    pose proof (mulv_testbit M y i) as Hm. rewrite H0, N.bits_0 in Hm.
    replace (i <? length M) with true in Hm by (symmetry; apply Nat.ltb_lt; exact Hi).
    symmetry. exact Hm. }
  apply testbit_ext_nat. intros j. rewrite N.bits_0.
  destruct (Nat.lt_ge_cases j (length M)) as [H|H]; [apply Hbits; exact H|apply Hy; exact H].
Qed.

(* inverse() succeeds on every unit lower-triangular matrix, of any size *)
Theorem inverse_total_unit_lower M : unit_lower M ->
  exists B, inverse M = Some B /\ gj_check M = Some B
    /\ forall y, fits (length M) y -> mulv B (mulv M y) = y /\ mulv M (mulv B y) = y.
Proof.
  intros HU. apply inverse_total; [apply unit_lower_square; exact HU|apply unit_lower_kernel; exact HU].
Qed.

(* Bravyi-Kitaev at 8 spin orbitals: rows Z0, Z0Z1, Z2, Z1Z2Z3, Z4, Z4Z5, Z6, Z3Z5Z6Z7 *)
Example unit_lower_example : unit_lowerb [1; 3; 4; 14; 16; 48; 64; 232]%N = true /\ unit_lowerb [1; 1]%N = false.
Proof. vm_compute. split; reflexivity. Qed.
