(* Transition amplitudes (core/operator/representation): pauli_label_to_bsv gives (x, z, phase) with phase = (-i)^#Y,
   transition_amp_representation groups coef * phase and z by x, and transition_amp_comp_basis(rep, m, n) sums
   sign(popcount(z & m)) * coef * phase over the terms whose x equals m xor n.
   Theorem: that sum is the matrix element <m| O |n> of the operator the Operator denotes (n-qubit Pauli semantics),
   for every register size, every operator on distinct qubits inside the register and all basis indices. *)
From Coq Require Import ZArith NArith List Bool Arith Lia Reals FunctionalExtensionality Permutation.
From QP Require Import Cx Zw Asum FMat Lpoly Apply Local Gates Rsem.
From QPM Require Import Transpile Pauli Remap Reconstruct Grouping GF2 CompBasis Operator SparseExport.
Import ListNotations.
Local Open Scope C_scope.

(* ------------------------------------------------------------------ per-qubit factorisation of the Pauli entries *)
Definition yfacC (p : option pauli) : C := match p with Some PY => - Ci | _ => C1 end.
Definition sgnC (s : bool) : C := if s then - C1 else C1.

Lemma sigC_factor p x y :
  sigC p x y = if Bool.eqb (xorb x y) (sx p) then yfacC p * sgnC (sz p && x) else C0.
Proof.
  destruct p as [[| |]|], x, y; cbn; unfold Ci, C1, C0; try reflexivity; apply C_eq; simpl; ring.
Qed.

Lemma sgnC_xor a b : sgnC (xorb a b) = sgnC a * sgnC b.
Proof. destruct a, b; cbn; unfold C1; apply C_eq; simpl; ring. Qed.

Lemma cprod_factor (l : label) (bm bk : nat -> bool) S :
  cprod (fun q => sigC (plookup q l) (bm q) (bk q)) S
  = if forallb (fun q => Bool.eqb (xorb (bm q) (bk q)) (sx (plookup q l))) S
    then cprod (fun q => yfacC (plookup q l)) S
         * sgnC (fold_right (fun q acc => xorb (sz (plookup q l) && bm q) acc) false S)
    else C0.
Proof.
  induction S as [|q S IH]; cbn [cprod fold_right forallb].
  - unfold sgnC, C1. apply C_eq; simpl; ring.
  - fold (cprod (fun q => sigC (plookup q l) (bm q) (bk q)) S). fold (cprod (fun q => yfacC (plookup q l)) S).
    rewrite IH, sigC_factor.
    destruct (Bool.eqb (xorb (bm q) (bk q)) (sx (plookup q l))); cbn [andb]; [|apply C_eq; simpl; ring].
    destruct (forallb _ S); [|apply C_eq; simpl; ring].
    rewrite sgnC_xor. apply C_eq; simpl; ring.
Qed.

(* ------------------------------------------------------------------ parity of a bit vector *)
Lemma n_odd_bits n : forall x, fits n x ->
  n_odd x = fold_right (fun q acc => xorb (N.testbit x (N.of_nat q)) acc) false (seq 0 n).
Proof.
  induction n as [|n IH]; intros x Hx.
  - assert (x = 0%N) as ->; [|reflexivity]. apply testbit_ext_nat. intros j. rewrite N.bits_0. apply Hx. lia.
  - set (hi := if N.testbit x (N.of_nat n) then pow2 n else 0%N).
    set (x' := N.lxor x hi).
    assert (Hb : forall j, N.testbit x' (N.of_nat j) = if Nat.eqb j n then false else N.testbit x (N.of_nat j)).
    { intros j. unfold x', hi. rewrite N.lxor_spec.
      destruct (N.testbit x (N.of_nat n)) eqn:E.
      - rewrite pow2_testbit. destruct (Nat.eqb_spec j n) as [->|Hne]; [rewrite E; reflexivity|apply xorb_false_r].
      - rewrite N.bits_0, xorb_false_r. destruct (Nat.eqb_spec j n) as [->|Hne]; [exact E|reflexivity]. }
    assert (Hf : fits n x').
    { intros j Hj. rewrite Hb. destruct (Nat.eqb_spec j n) as [->|Hne]; [reflexivity|apply Hx; lia]. }
    assert (Ex : x = N.lxor x' hi).
    { unfold x'. rewrite N.lxor_assoc, N.lxor_nilpotent, N.lxor_0_r. reflexivity. }
    rewrite Ex at 1. rewrite n_odd_lxor, (IH x' Hf).
    rewrite seq_S. cbn [Nat.add]. rewrite fold_right_app. cbn [fold_right].
    assert (Hh : n_odd hi = N.testbit x (N.of_nat n)).
    { unfold hi. destruct (N.testbit x (N.of_nat n)); [apply n_odd_pow2|reflexivity]. }
    rewrite Hh, xorb_false_r.
    assert (G : forall S acc, (forall q, In q S -> q < n) ->
      fold_right (fun q a => xorb (N.testbit x (N.of_nat q)) a) acc S
      = xorb (fold_right (fun q a => xorb (N.testbit x' (N.of_nat q)) a) false S) acc).
    { induction S as [|q S IHS]; intros acc HS; cbn [fold_right]; [destruct acc; reflexivity|].
      rewrite IHS by (intros q0 H0; apply HS; right; exact H0).
      rewrite Hb. replace (q =? n) with false by (symmetry; apply Nat.eqb_neq; specialize (HS q (or_introl eq_refl)); lia).
      rewrite xorb_assoc. reflexivity. }
    rewrite G by (intros q Hq; apply in_seq in Hq; lia). reflexivity.
Qed.

(* ------------------------------------------------------------------ the model *)
Section TA.
Variable K : Type.
Variables (k0 k1 kmi : K) (kopp : K -> K) (kadd kmul : K -> K -> K).
Variable phi : K -> C.
Hypothesis phi_0 : phi k0 = C0.
Hypothesis phi_1 : phi k1 = C1.
Hypothesis phi_mi : phi kmi = - Ci.
Hypothesis phi_opp : forall x, phi (kopp x) = - phi x.
Hypothesis phi_add : forall x y, phi (kadd x y) = phi x + phi y.
Hypothesis phi_mul : forall x y, phi (kmul x y) = phi x * phi y.

(* pauli_label_to_bsv: phase *= -1j for every Y, in the order of the label *)
Definition bsv_phase (l : label) : K :=
  fold_left (fun ph (ip : nat * pauli) => match snd ip with PY => kmul ph kmi | _ => ph end) l k1.

(* transition_amp_representation + transition_amp_comp_basis: the terms filed under x = m xor n, in insertion order,
   each contributing parity_sign_of_bits(z & m) * (coef * phase) *)
Definition tamp_term (m k : N) (acc : K) (lc : label * K) : K :=
  if N.eqb (N.lxor m k) (bsv_x (fst lc))
  then kadd acc (kmul (if n_odd (N.land (bsv_z (fst lc)) m) then kopp k1 else k1) (kmul (snd lc) (bsv_phase (fst lc))))
  else acc.
Definition tamp (o : list (label * K)) (m k : N) : K := fold_left (tamp_term m k) o k0.

(* ------------------------------------------------------------------ proofs *)
Lemma bsv_phase_gen l : forall a, phi (fold_left (fun ph (ip : nat * pauli) => match snd ip with PY => kmul ph kmi | _ => ph end) l a)
  = phi a * fold_right (fun (ip : nat * pauli) acc => yfacC (Some (snd ip)) * acc) C1 l.
Proof.
  induction l as [|[i p] l IH]; intros a; cbn [fold_left fold_right snd].
  - apply C_eq; simpl; ring.
  - rewrite IH. destruct p; cbn [yfacC]; rewrite ?phi_mul, ?phi_mi; apply C_eq; simpl; ring.
Qed.

Lemma yfac_prod l : NoDup (keys l) -> forall S, NoDup S -> (forall q, In q (keys l) -> In q S) ->
  cprod (fun q => yfacC (plookup q l)) S = fold_right (fun (ip : nat * pauli) acc => yfacC (Some (snd ip)) * acc) C1 l.
Proof.
  induction l as [|[i p] l IH]; intros Hnd S HS Hin.
  - cbn [fold_right plookup]. induction S as [|q S IHS]; cbn [cprod fold_right]; [reflexivity|].
    fold (cprod (fun _ : nat => yfacC None) S). rewrite IHS.
    + cbn [yfacC]. apply C_eq; simpl; ring.
    + apply NoDup_cons_iff in HS. tauto.
    + intros q0 [].
  - cbn [keys map fst] in Hnd, Hin. fold (keys l) in Hnd, Hin. apply NoDup_cons_iff in Hnd. destruct Hnd as [Hi Hnd].
    cbn [fold_right snd]. rewrite <- (IH Hnd S HS) by (intros q Hq; apply Hin; right; exact Hq).
    assert (HiS : In i S) by (apply Hin; left; reflexivity).
    rewrite (cprod_split _ S i HS HiS), (cprod_split (fun q => yfacC (plookup q l)) S i HS HiS).
    rewrite (cprod_ext_in (fun q => yfacC (plookup q ((i, p) :: l))) (fun q => yfacC (plookup q l)) (remove Nat.eq_dec i S)).
    + cbn [plookup]. rewrite Nat.eqb_refl. rewrite (plookup_notin i l Hi). cbn [yfacC]. apply C_eq; simpl; ring.
    + intros q Hq. apply in_remove in Hq. destruct Hq as [_ Hne]. cbn [plookup].
      replace (q =? i) with false by (symmetry; apply Nat.eqb_neq; exact Hne). reflexivity.
Qed.

Definition in_reg (n : nat) (l : label) : Prop := NoDup (keys l) /\ forall q, In q (keys l) -> q < n.

Lemma fits_bsv_x n l : in_reg n l -> fits n (bsv_x l).
Proof. intros [Hnd Hlt] j Hj. rewrite bsv_x_bit by exact Hnd.
  rewrite plookup_notin; [reflexivity|]. intros Hin. apply Hlt in Hin. lia. Qed.

(* <m| P |k> for one label *)
Theorem label_transition_amp n l m k : in_reg n l -> fits n m -> fits n k ->
  lsemL l (ket n k) (bitN m)
  = if N.eqb (N.lxor m k) (bsv_x l)
    then phi (bsv_phase l) * sgnC (n_odd (N.land (bsv_z l) m))
    else C0.
Proof.
  intros Hreg Hm Hk. pose proof Hreg as [Hnd Hlt].
  rewrite (label_matrix_element n k l Hnd Hlt). rewrite cprod_factor.
  assert (E1 : forallb (fun q => Bool.eqb (xorb (bitN m q) (bitN k q)) (sx (plookup q l))) (seq 0 n)
               = N.eqb (N.lxor m k) (bsv_x l)).
  { destruct (N.eqb_spec (N.lxor m k) (bsv_x l)) as [E|NE].
    - apply forallb_forall. intros q _. unfold bitN. rewrite <- N.lxor_spec, E, bsv_x_bit by exact Hnd. apply eqb_reflx.
    - destruct (forallb _ (seq 0 n)) eqn:F; [exfalso|reflexivity]. apply NE.
      apply testbit_ext_nat. intros j. destruct (Nat.lt_ge_cases j n) as [Hj|Hj].
      + rewrite forallb_forall in F. specialize (F j). rewrite N.lxor_spec, bsv_x_bit by exact Hnd.
        apply eqb_prop. apply F. apply in_seq. lia.
      + rewrite N.lxor_spec, (Hm j Hj), (Hk j Hj). symmetry. apply (fits_bsv_x n l Hreg j Hj). }
  rewrite E1. destruct (N.eqb (N.lxor m k) (bsv_x l)); [|reflexivity].
  f_equal.
  - rewrite (yfac_prod l Hnd (seq 0 n) (seq_NoDup n 0)) by (intros q Hq; apply in_seq; specialize (Hlt q Hq); lia).
    unfold bsv_phase. rewrite bsv_phase_gen, phi_1. apply C_eq; simpl; ring.
  - f_equal. rewrite (n_odd_bits n).
    + clear E1. induction (seq 0 n) as [|q S IH]; cbn [fold_right]; [reflexivity|].
      rewrite IH. f_equal. rewrite N.land_spec, bsv_z_bit by exact Hnd. reflexivity.
    + intros j Hj. rewrite N.land_spec, (Hm j Hj). apply andb_false_r.
Qed.

(* <m| O |k> for an operator: the sum computed by transition_amp_comp_basis *)
Theorem operator_transition_amp n (o : list (label * K)) m k :
  Forall (fun lc => in_reg n (fst lc)) o -> fits n m -> fits n k ->
  osem K phi o (ket n k) (bitN m) = phi (tamp o m k).
Proof.
  intros Ho Hm Hk. unfold tamp.
  assert (G : forall acc, phi (fold_left (tamp_term m k) o acc) = phi acc + osem K phi o (ket n k) (bitN m)).
  { induction o as [|[l c] o IH]; intros acc; cbn [fold_left].
    - unfold osem. cbn [fold_right]. apply C_eq; simpl; ring.
    - apply Forall_cons_iff in Ho. destruct Ho as [Hl Ho]. rewrite (IH Ho).
      unfold osem. cbn [fold_right fst snd]. fold (osem K phi o (ket n k) (bitN m)).
      rewrite (label_transition_amp n l m k Hl Hm Hk). unfold tamp_term. cbn [fst snd].
      destruct (N.eqb (N.lxor m k) (bsv_x l)).
      + rewrite phi_add, !phi_mul.
        destruct (n_odd (N.land (bsv_z l) m)); cbn [sgnC]; rewrite ?phi_opp, ?phi_1; apply C_eq; simpl; ring.
      + apply C_eq; simpl; ring. }
  rewrite G, phi_0. apply C_eq; simpl; ring.
Qed.
End TA.
