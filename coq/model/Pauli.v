(* Pauli labels and their product (core/operator/pauli.py: PauliLabel, pauli_product).
   A label is an association list qubit -> {X,Y,Z} with distinct keys (the frozenset of
   pairs of the library; every enumeration order is covered because the lists are
   arbitrary).  Its denotation is the composition of the single-qubit Pauli gates. *)
From Coq Require Import ZArith List Bool Arith Lia Reals FunctionalExtensionality.
From QP Require Import Cx Zw Asum FMat Lpoly Apply Local Gates Rsem.
From QPM Require Import Transpile.
Import ListNotations.
Local Open Scope C_scope.

(* ---------------------------------------------------------------- constant-gate semantics *)
Definition idpi : nat -> nat := fun x => x.
Lemma idpi_inj : forall a b, idpi a = idpi b -> a = b. Proof. auto. Qed.
Lemma rho0_unit : forall i, Cunit (rho0 i). Proof. intros; apply Cunit_1. Qed.

Definition ksem (g : gate) : lgate := sgate rho0 idpi (eg g).
Definition placeg (qs : list nat) (g : gate) : gate :=
  mkG (gk g) (map (pi_of qs) (gqs g)) (gas g).

Lemma ksem_place qs g : ksem (placeg qs g) = sgate rho0 (pi_of qs) (eg g).
Proof. unfold ksem, placeg, sgate, eg; simpl. destruct (gmat (gk g) (gas g)); simpl.
  unfold idpi. rewrite map_id. reflexivity. Qed.

Definition opeq (U V : Op) : Prop := forall psi b, U psi b = V psi b.
Lemma op_ext (U V : Op) : opeq U V -> U = V.
Proof. intros H. apply functional_extensionality; intros psi.
  apply functional_extensionality; intros b. apply H. Qed.

Definition scaleop (c : C) (U : Op) : Op := fun psi b => c * U psi b.

(* exact identities between placed constant-gate lists, decided by vm_compute *)
Theorem exact_placed n gs gs' z qs :
  check_exact (seq 0 n) (map eg gs) (map eg gs') z = true ->
  NoDup qs ->
  csem (map ksem (map (placeg qs) gs)) = scaleop (zw_eval z) (csem (map ksem (map (placeg qs) gs'))).
Proof.
  intros Hc Hnd. apply op_ext; intros psi b. unfold scaleop.
  rewrite !map_map.
  assert (E : forall l, map (fun g => ksem (placeg qs g)) l = map (fun g => sgate rho0 (pi_of qs) (eg g)) l).
  { intros l. apply map_ext. intros; apply ksem_place. }
  rewrite !E.
  rewrite <- !(map_map eg (sgate rho0 (pi_of qs))).
  apply (local_exact rho0 rho0_unit (pi_of qs) (pi_of_inj qs Hnd) (seq 0 n)). exact Hc.
Qed.

Lemma csem_cons g gs : csem (g :: gs) = fun psi => csem gs (lsem g psi).
Proof. reflexivity. Qed.
Lemma csem_app' gs gs' : csem (gs ++ gs') = fun psi => csem gs' (csem gs psi).
Proof. apply functional_extensionality; intros; apply csem_app. Qed.
Lemma csem_nil : csem [] = fun psi => psi. Proof. reflexivity. Qed.

Lemma csem_scale c gs psi : csem gs (fun b => c * psi b) = fun b => c * csem gs psi b.
Proof. apply functional_extensionality; intros b. apply csem_lin. Qed.

(* ---------------------------------------------------------------- Pauli labels *)
Inductive pauli := PX | PY | PZ.
Definition pauli_eqb (a b : pauli) : bool :=
  match a, b with PX, PX | PY, PY | PZ, PZ => true | _, _ => false end.
Definition pk (p : pauli) : gkind := match p with PX => KX | PY => KY | PZ => KZ end.
Definition label := list (nat * pauli).
Definition keys (l : label) : list nat := map fst l.
Definition pgate (ip : nat * pauli) : gate := mkG (pk (snd ip)) [fst ip] [].
Definition psem (ip : nat * pauli) : lgate := ksem (pgate ip).
Definition lsemL (l : label) : Op := csem (map psem l).
Definition all_pauli := [PX; PY; PZ].

Lemma pgate_place i p : pgate (i, p) = placeg [i] (mkG (pk p) [0%nat] []).
Proof. reflexivity. Qed.

(* products table: (q, p) -> None (identity) | Some (r, phase) meaning q * p = phase * r *)
Definition ptable := pauli -> pauli -> option (pauli * Zw).

Definition ptab_ok (tab : ptable) : bool :=
  forallb (fun q => forallb (fun p =>
    match tab q p with
    | None => check_exact [0%nat] (map eg [mkG (pk p) [0%nat] []; mkG (pk q) [0%nat] []]) (map eg []) zw1
    | Some (r, c) => check_exact [0%nat] (map eg [mkG (pk p) [0%nat] []; mkG (pk q) [0%nat] []])
                        (map eg [mkG (pk r) [0%nat] []]) c
    end) all_pauli) all_pauli.

Definition pcomm_ok : bool :=
  forallb (fun q => forallb (fun p =>
    check_exact [0%nat; 1%nat]
      (map eg [mkG (pk p) [0%nat] []; mkG (pk q) [1%nat] []])
      (map eg [mkG (pk q) [1%nat] []; mkG (pk p) [0%nat] []]) zw1) all_pauli) all_pauli.
Lemma pcomm_ok_true : pcomm_ok = true. Proof. vm_compute. reflexivity. Qed.

Lemma in_all_pauli p : In p all_pauli. Proof. destruct p; simpl; auto. Qed.

Lemma scaleop_1 U : scaleop (zw_eval zw1) U = U.
Proof. apply op_ext; intros psi b. unfold scaleop. rewrite zw_eval_1. ring. Qed.

Lemma psem_comm i j p q : i <> j ->
  csem [psem (i, p); psem (j, q)] = csem [psem (j, q); psem (i, p)].
Proof.
  intros Hij. pose proof pcomm_ok_true as H. unfold pcomm_ok in H.
  rewrite forallb_forall in H. specialize (H q (in_all_pauli q)).
  rewrite forallb_forall in H. specialize (H p (in_all_pauli p)).
  assert (Hnd : NoDup [i; j]).
  { constructor; [simpl; intros [E|[]]; auto | constructor; [intros [] | constructor]]. }
  pose proof (exact_placed 2 [mkG (pk p) [0%nat] []; mkG (pk q) [1%nat] []]
                 [mkG (pk q) [1%nat] []; mkG (pk p) [0%nat] []] zw1 [i; j] H Hnd) as E.
  rewrite scaleop_1 in E. exact E.
Qed.

(* moving a Pauli past a list of Paulis on other qubits *)
Lemma psem_comm_list i p l : ~ In i (keys l) ->
  csem (psem (i, p) :: map psem l) = csem (map psem l ++ [psem (i, p)]).
Proof.
  induction l as [|[j q] l IH]; intros Hi; simpl; [reflexivity|].
  simpl in Hi.
  change (csem ([psem (i, p); psem (j, q)] ++ map psem l)
          = csem ([psem (j, q)] ++ (map psem l ++ [psem (i, p)]))).
  rewrite csem_app', psem_comm by (intros E; apply Hi; left; auto).
  rewrite csem_app'. rewrite <- IH by (intros E; apply Hi; right; auto).
  apply functional_extensionality; intros psi. reflexivity.
Qed.

Lemma lsemL_rev l : NoDup (keys l) -> csem (map psem (rev l)) = lsemL l.
Proof.
  unfold lsemL. induction l as [|[i p] l IH]; intros Hnd; simpl; [reflexivity|].
  inversion Hnd as [|? ? Hi Hnd']; subst.
  rewrite map_app, csem_app', IH by auto. simpl map.
  rewrite psem_comm_list by auto. rewrite csem_app'. reflexivity.
Qed.

(* ---------------------------------------------------------------- product of labels *)
Fixpoint plookup (i : nat) (l : label) : option pauli :=
  match l with [] => None | (j, q) :: l' => if Nat.eqb i j then Some q else plookup i l' end.
Fixpoint premove (i : nat) (l : label) : label :=
  match l with [] => [] | (j, q) :: l' => if Nat.eqb i j then l' else (j, q) :: premove i l' end.
Fixpoint preplace (i : nat) (r : pauli) (l : label) : label :=
  match l with [] => [] | (j, q) :: l' => if Nat.eqb i j then (j, r) :: l' else (j, q) :: preplace i r l' end.

Definition pstep (tab : ptable) (acc : label * Zw) (ip : nat * pauli) : label * Zw :=
  let '(l, ph) := acc in
  match plookup (fst ip) l with
  | None => (l ++ [ip], ph)
  | Some q => match tab q (snd ip) with
              | None => (premove (fst ip) l, ph)
              | Some (r, c) => (preplace (fst ip) r l, zw_mul ph c)
              end
  end.
(* pauli_product(pauli1, pauli2): fold over the pairs of pauli2 in (any) enumeration order *)
Definition pprod (tab : ptable) (l1 l2 : label) : label * Zw := fold_left (pstep tab) l2 (l1, zw1).

Lemma plookup_split i l q : plookup i l = Some q ->
  exists la lb, l = la ++ (i, q) :: lb /\ ~ In i (keys la).
Proof.
  induction l as [|[j r] l IH]; simpl; [discriminate|].
  destruct (Nat.eqb_spec i j) as [->|Hne].
  - intros E; inversion E; subst. exists [], l; split; auto.
  - intros E. destruct (IH E) as [la [lb [-> Hla]]].
    exists ((j, r) :: la), lb; split; auto. simpl. intros [H|H]; auto.
Qed.
Lemma plookup_none i l : plookup i l = None -> ~ In i (keys l).
Proof.
  induction l as [|[j r] l IH]; simpl; [auto|].
  destruct (Nat.eqb_spec i j) as [->|Hne]; [discriminate|].
  intros E [H|H]; [auto | apply (IH E H)].
Qed.
Lemma premove_split i q la lb : ~ In i (keys la) -> premove i (la ++ (i, q) :: lb) = la ++ lb.
Proof. induction la as [|[j r] la IH]; simpl; intros H.
  - rewrite Nat.eqb_refl; reflexivity.
  - destruct (Nat.eqb_spec i j) as [->|Hne]; [tauto|]. rewrite IH by tauto. reflexivity. Qed.
Lemma preplace_split i q r la lb : ~ In i (keys la) ->
  preplace i r (la ++ (i, q) :: lb) = la ++ (i, r) :: lb.
Proof. induction la as [|[j s] la IH]; simpl; intros H.
  - rewrite Nat.eqb_refl; reflexivity.
  - destruct (Nat.eqb_spec i j) as [->|Hne]; [tauto|]. rewrite IH by tauto. reflexivity. Qed.

Lemma keys_app l l' : keys (l ++ l') = keys l ++ keys l'.
Proof. apply map_app. Qed.

Lemma NoDup_keys_mid la lb (x y : nat * pauli) :
  fst x = fst y -> NoDup (keys (la ++ x :: lb)) -> NoDup (keys (la ++ y :: lb)).
Proof. unfold keys. rewrite !map_app. simpl. intros ->. auto. Qed.

Lemma NoDup_remove_mid {A} (la lb : list A) x : NoDup (la ++ x :: lb) -> NoDup (la ++ lb) /\ ~ In x (la ++ lb).
Proof. apply NoDup_remove. Qed.

Section Prod.
Variable tab : ptable.
Hypothesis tab_ok : ptab_ok tab = true.

Lemma tab_none q p : tab q p = None -> csem [psem (0%nat, p); psem (0%nat, q)] = csem [] \/ True.
Proof. auto. Qed.

Lemma tab_sem i q p :
  match tab q p with
  | None => csem [psem (i, p); psem (i, q)] = csem []
  | Some (r, c) => csem [psem (i, p); psem (i, q)] = scaleop (zw_eval c) (csem [psem (i, r)])
  end.
Proof.
  pose proof tab_ok as H. unfold ptab_ok in H.
  rewrite forallb_forall in H. specialize (H q (in_all_pauli q)).
  rewrite forallb_forall in H. specialize (H p (in_all_pauli p)).
  assert (Hnd : NoDup [i]) by (constructor; [intros [] | constructor]).
  destruct (tab q p) as [[r c]|].
  - apply (exact_placed 1 [mkG (pk p) [0%nat] []; mkG (pk q) [0%nat] []] [mkG (pk r) [0%nat] []] c [i] H Hnd).
  - pose proof (exact_placed 1 [mkG (pk p) [0%nat] []; mkG (pk q) [0%nat] []] [] zw1 [i] H Hnd) as E.
    rewrite scaleop_1 in E. exact E.
Qed.

(* one step: acc * sigma = phase * acc' as operators *)
Lemma pstep_sound l ph ip : NoDup (keys l) ->
  let '(l', ph') := pstep tab (l, ph) ip in
  NoDup (keys l') /\
  forall psi b, zw_eval ph * lsemL l (lsem (psem ip) psi) b = zw_eval ph' * lsemL l' psi b.
Proof.
  intros Hnd. destruct ip as [i p]. unfold pstep. simpl fst; simpl snd.
  destruct (plookup i l) as [q|] eqn:El.
  - destruct (plookup_split i l q El) as [la [lb [-> Hla]]].
    assert (Hlb : ~ In i (keys lb) /\ NoDup (keys (la ++ lb))).
    { unfold keys in *. rewrite map_app in Hnd. simpl in Hnd.
      apply NoDup_remove in Hnd as [H1 H2]. rewrite map_app. split; auto.
      intros H; apply H2, in_or_app; auto. }
    destruct Hlb as [Hlb Hnd'].
    pose proof (tab_sem i q p) as T.
    assert (Hmove : forall psi, lsemL (la ++ (i, q) :: lb) (lsem (psem (i, p)) psi)
               = csem (map psem lb) (csem [psem (i, p); psem (i, q)] (csem (map psem la) psi))).
    { intros psi. unfold lsemL.
      change (lsem (psem (i, p)) psi) with (csem [psem (i, p)] psi).
      rewrite map_app. simpl map. rewrite csem_app'.
      assert (E : csem (map psem la) (csem [psem (i, p)] psi) = csem [psem (i, p)] (csem (map psem la) psi)).
      { pose proof (psem_comm_list i p la Hla) as E. rewrite csem_app' in E.
        change (csem (psem (i, p) :: map psem la)) with (fun psi => csem (map psem la) (csem [psem (i, p)] psi)) in E.
        apply (f_equal (fun f => f psi)) in E. exact E. }
      rewrite E. reflexivity. }
    destruct (tab q p) as [[r c]|].
    + rewrite preplace_split by auto. split.
      * eapply NoDup_keys_mid; [|exact Hnd]. reflexivity.
      * intros psi b. rewrite Hmove, T. unfold scaleop.
        rewrite zw_eval_mul.
        replace (fun b0 => zw_eval c * csem [psem (i, r)] (csem (map psem la) psi) b0)
          with (fun b0 => zw_eval c * (csem [psem (i, r)] (csem (map psem la) psi)) b0) by reflexivity.
        rewrite csem_scale. unfold lsemL. rewrite map_app. simpl map. rewrite csem_app'.
        change (csem (psem (i, r) :: map psem lb)) with (fun psi => csem (map psem lb) (csem [psem (i, r)] psi)).
        cbv beta. ring.
    + rewrite premove_split by auto. split; auto.
      intros psi b. rewrite Hmove, T. unfold lsemL. rewrite map_app, csem_app'. reflexivity.
  - pose proof (plookup_none i l El) as Hi. split.
    + unfold keys. rewrite map_app. simpl.
      apply NoDup_app_intro; auto; [constructor; [intros [] | constructor]|].
      intros x Hx [<-|[]]. auto.
    + intros psi b. f_equal. unfold lsemL. rewrite map_app, csem_app'. simpl map.
      pose proof (psem_comm_list i p l Hi) as E. rewrite csem_app' in E.
      apply (f_equal (fun f => f psi b)) in E. exact E.
Qed.

Lemma pfold_sound l2 : forall l ph, NoDup (keys l) ->
  let '(l', ph') := fold_left (pstep tab) l2 (l, ph) in
  NoDup (keys l') /\
  forall psi b, zw_eval ph * lsemL l (csem (map psem (rev l2)) psi) b = zw_eval ph' * lsemL l' psi b.
Proof.
  induction l2 as [|ip l2 IH]; intros l ph Hnd.
  - cbn. split; auto.
  - cbn [fold_left rev]. pose proof (pstep_sound l ph ip Hnd) as S.
    destruct (pstep tab (l, ph) ip) as [l1 ph1]. destruct S as [Hnd1 S].
    specialize (IH l1 ph1 Hnd1).
    destruct (fold_left (pstep tab) l2 (l1, ph1)) as [l' ph']. destruct IH as [Hnd' IH].
    split; auto. intros psi b.
    rewrite map_app, csem_app'. simpl map.
    change (csem [psem ip] (csem (map psem (rev l2)) psi)) with (lsem (psem ip) (csem (map psem (rev l2)) psi)).
    rewrite S. apply IH.
Qed.

(* pauli_product is a homomorphism: [[l1]] [[l2]] = phase * [[product]], for labels of any
   length on any qubits and any enumeration order of the second label *)
Theorem pprod_sound l1 l2 : NoDup (keys l1) -> NoDup (keys l2) ->
  let '(l, ph) := pprod tab l1 l2 in
  NoDup (keys l) /\ forall psi b, lsemL l1 (lsemL l2 psi) b = zw_eval ph * lsemL l psi b.
Proof.
  intros H1 H2. unfold pprod. pose proof (pfold_sound l2 l1 zw1 H1) as F.
  destruct (fold_left (pstep tab) l2 (l1, zw1)) as [l ph]. destruct F as [Hnd F].
  split; auto. intros psi b. rewrite <- F, zw_eval_1, lsemL_rev by auto. ring.
Qed.
End Prod.
