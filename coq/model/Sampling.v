(* Model of core/estimator/sampling (sampling_estimate and helpers) and of the shot allocators
   of core/sampling/shots_allocator.py.
   Budget theorems are over the reals (the library computes in binary64; see DESIGN F0.3);
   the pairing of groups with sampling counts is list processing, modelled exactly. *)
From Coq Require Import List Arith ZArith Reals Lra Lia.
Import ListNotations.

(* ------------------------------------------------------------------ pairing *)
Section Pairing.
Variables G Cnt Circ : Type.          (* Pauli groups, measurement counts, circuits *)
Variable shots : G -> Z.              (* shots_map[m.pauli_set] *)
Variable circuit_of : G -> Circ.      (* state.circuit + m.measurement_circuit *)
Variable sample : Circ * Z -> Cnt.    (* the sampler's result for one (circuit, shots) pair *)
Variable est : G -> Cnt -> R.         (* general_pauli_sum_expectation_estimator *)

Definition positive (g : G) : bool := Z.ltb 0 (shots g).

(* get_sampling_circuits_and_shots *)
Definition prep (ms : list G) : list (Circ * Z) :=
  map (fun g => (circuit_of g, shots g)) (filter positive ms).
(* ConcurrentSampler contract: one result per submitted pair, in order *)
Definition sampler (pairs : list (Circ * Z)) : list Cnt := map sample pairs.
(* _Estimate.value : const + sum over zip(pauli_sets, sampling_counts) *)
Fixpoint zip_sum (ms : list G) (cs : list Cnt) : R :=
  match ms, cs with
  | g :: ms', c :: cs' => (est g c + zip_sum ms' cs')%R
  | _, _ => 0%R
  end.
(* sampling_estimate after the fix: zero-shot groups are dropped before pairing *)
Definition sampling_estimate (const : R) (ms : list G) : R :=
  let measured := filter positive ms in
  (const + zip_sum measured (sampler (prep measured)))%R.
(* the code before the fix, for reference *)
Definition sampling_estimate_prefix (const : R) (ms : list G) : R :=
  (const + zip_sum ms (sampler (prep ms)))%R.

Definition spec (const : R) (ms : list G) : R :=
  (const + fold_right (fun g a => if positive g then est g (sample (circuit_of g, shots g)) + a else a) 0 ms)%R.

Lemma filter_idem (ms : list G) : filter positive (filter positive ms) = filter positive ms.
Proof. induction ms as [|g ms IH]; simpl; [reflexivity|].
  destruct (positive g) eqn:E; simpl; [rewrite E, IH|]; auto. Qed.

Lemma zip_sum_measured (ms : list G) :
  zip_sum (filter positive ms) (map sample (map (fun g => (circuit_of g, shots g)) (filter positive ms)))
  = fold_right (fun g a => if positive g then est g (sample (circuit_of g, shots g)) + a else a)%R 0%R ms.
Proof. induction ms as [|g ms IH]; simpl; [reflexivity|].
  destruct (positive g); simpl; rewrite IH; reflexivity. Qed.

(* every group that received shots is evaluated from the counts of its own circuit; groups
   without shots contribute nothing; nothing is dropped or shifted *)
Theorem sampling_estimate_pairs_each_group_with_its_own_counts const ms :
  sampling_estimate const ms = spec const ms.
Proof. unfold sampling_estimate, spec, sampler, prep. rewrite filter_idem, zip_sum_measured. reflexivity. Qed.

(* one (circuit, shots) pair is requested per group with a positive allocation *)
Theorem one_request_per_positive_group ms :
  length (prep ms) = length (filter positive ms) /\ Forall (fun p => (0 < snd p)%Z) (prep ms).
Proof. unfold prep. split; [apply map_length|].
  apply Forall_forall. intros p Hp. apply in_map_iff in Hp as [g [<- Hg]].
  apply filter_In in Hg as [_ Hg]. simpl. apply Z.ltb_lt, Hg. Qed.
End Pairing.

(* ------------------------------------------------------------------ budgets *)
Local Open Scope R_scope.
Definition rfloor (x : R) : Z := Int_part x.
Lemma rfloor_le x : IZR (rfloor x) <= x.
Proof. unfold rfloor. destruct (base_Int_part x); lra. Qed.
Lemma rfloor_nonneg x : 0 <= x -> (0 <= rfloor x)%Z.
Proof. intros H. unfold rfloor. destruct (base_Int_part x) as [H1 H2].
  destruct (Z_le_gt_dec 0 (Int_part x)) as [Hz|Hz]; auto.
  exfalso. assert (Hle : (Int_part x <= -1)%Z) by lia. apply IZR_le in Hle. lra. Qed.

(* _rounddown_to_unit(n, shot_unit) = shot_unit * floor(n / shot_unit) *)
Definition rounddown (u : Z) (x : R) : Z := (u * rfloor (x / IZR u))%Z.

Lemma rounddown_le u x : (0 < u)%Z -> IZR (rounddown u x) <= x.
Proof. intros Hu. unfold rounddown. rewrite mult_IZR.
  assert (0 < IZR u) by (apply IZR_lt; auto).
  pose proof (rfloor_le (x / IZR u)) as H1.
  assert (IZR u * IZR (rfloor (x / IZR u)) <= IZR u * (x / IZR u)) by (apply Rmult_le_compat_l; lra).
  replace (IZR u * (x / IZR u)) with x in H0 by (field; lra). lra. Qed.
Lemma rounddown_nonneg u x : (0 < u)%Z -> 0 <= x -> (0 <= rounddown u x)%Z.
Proof. intros Hu Hx. unfold rounddown. apply Z.mul_nonneg_nonneg; [lia|].
  apply rfloor_nonneg. assert (0 < IZR u) by (apply IZR_lt; auto).
  apply Rmult_le_pos; [auto | left; apply Rinv_0_lt_compat; auto]. Qed.
Lemma rounddown_multiple u x : exists k, rounddown u x = (u * k)%Z.
Proof. eexists; reflexivity. Qed.

Fixpoint rsum (l : list R) : R := match l with [] => 0 | x :: l' => x + rsum l' end.
Fixpoint zsum (l : list Z) : Z := match l with [] => 0%Z | x :: l' => (x + zsum l')%Z end.

(* create_proportional_shots_allocator (and the generic weight-sequence allocators):
   n_i = rounddown(total * ratio_i) with ratio_i >= 0, sum ratio_i <= 1 *)
Definition proportional (u : Z) (total : R) (ratios : list R) : list Z :=
  map (fun r => rounddown u (total * r)) ratios.

Theorem proportional_budget u total ratios :
  (0 < u)%Z -> 0 <= total -> Forall (fun r => 0 <= r) ratios -> rsum ratios <= 1 ->
  IZR (zsum (proportional u total ratios)) <= total /\
  Forall (fun n => (0 <= n)%Z /\ exists k, n = (u * k)%Z) (proportional u total ratios) /\
  length (proportional u total ratios) = length ratios.
Proof.
  intros Hu Ht Hr Hs. split; [|split].
  - assert (H : IZR (zsum (proportional u total ratios)) <= total * rsum ratios).
    { clear Hs. induction Hr as [|r rs Hr0 Hr IH]; simpl; [lra|].
      rewrite plus_IZR. pose proof (rounddown_le u (total * r) Hu). lra. }
    assert (total * rsum ratios <= total * 1) by (apply Rmult_le_compat_l; auto). lra.
  - unfold proportional. apply Forall_forall. intros n Hn. apply in_map_iff in Hn as [r [<- Hin]].
    rewrite Forall_forall in Hr. split; [|apply rounddown_multiple].
    apply rounddown_nonneg; auto. apply Rmult_le_pos; auto.
  - apply map_length.
Qed.

(* ratios computed by _calc_ratios are w_i / sum w with w_i >= 0: they sum to one *)
Lemma ratios_sum ws : 0 < rsum ws -> rsum (map (fun w => w / rsum ws) ws) = 1.
Proof.
  intros H. assert (E : forall s l, rsum (map (fun w => w / s) l) = rsum l / s).
  { intros s l. induction l as [|w l IH]; simpl; [unfold Rdiv; lra|]. rewrite IH. unfold Rdiv; lra. }
  rewrite E. field. lra.
Qed.

(* create_equipartition_shots_allocator: every one of the n groups gets rounddown(total / n) *)
Definition equipartition (u : Z) (total : R) (n : nat) : list Z := repeat (rounddown u (total / INR n)) n.

Theorem equipartition_budget u total n :
  (0 < u)%Z -> 0 <= total -> (0 < n)%nat ->
  IZR (zsum (equipartition u total n)) <= total /\
  Forall (fun k => (0 <= k)%Z) (equipartition u total n) /\ length (equipartition u total n) = n.
Proof.
  intros Hu Ht Hn. assert (Hn' : 0 < INR n) by (apply lt_0_INR; auto).
  split; [|split].
  - assert (E : forall m x, IZR (zsum (repeat x m)) = INR m * IZR x).
    { induction m as [|m IH]; intros x; [simpl; lra|]. rewrite S_INR. simpl repeat. simpl zsum.
      rewrite plus_IZR, IH. lra. }
    unfold equipartition. rewrite E.
    pose proof (rounddown_le u (total / INR n) Hu).
    assert (INR n * IZR (rounddown u (total / INR n)) <= INR n * (total / INR n)) by (apply Rmult_le_compat_l; lra).
    replace (INR n * (total / INR n)) with total in H0 by (field; lra). lra.
  - apply Forall_forall. intros k Hk. apply repeat_spec in Hk. subst k.
    apply rounddown_nonneg; auto. apply Rmult_le_pos; [auto | left; apply Rinv_0_lt_compat; auto].
  - apply repeat_length.
Qed.

(* create_weighted_random_shots_allocator: shot_unit * multinomial(total // shot_unit, ratios);
   contract of numpy's multinomial: non-negative integers summing to its first argument *)
Theorem weighted_random_budget (u total : Z) (draws : list Z) :
  (0 < u)%Z -> (0 <= total)%Z -> Forall (fun d => (0 <= d)%Z) draws -> zsum draws = (total / u)%Z ->
  (zsum (map (Z.mul u) draws) <= total)%Z /\ Forall (fun n => (0 <= n)%Z) (map (Z.mul u) draws).
Proof.
  intros Hu Ht Hd Hs. split.
  - assert (E : zsum (map (Z.mul u) draws) = (u * zsum draws)%Z).
    { clear. induction draws as [|d ds IH]; simpl; [lia|]. rewrite IH. lia. }
    rewrite E, Hs. apply Z.mul_div_le. lia.
  - apply Forall_forall. intros n Hn. apply in_map_iff in Hn as [d [<- Hin]].
    rewrite Forall_forall in Hd. specialize (Hd d Hin). lia.
Qed.
