(* inverse_gate on a UnitaryMatrix gate: the gate with the conjugate-transposed matrix on the same targets.  For every
   number of target qubits, every placement on distinct qubits of a register of any size and every unitary matrix, the gate
   followed by its inverse is the identity (exactly). *)
From Coq Require Import List Bool Arith Lia Reals FunctionalExtensionality.
From QP Require Import Cx Asum FMat Apply.
Import ListNotations.
Local Open Scope C_scope.

Definition adjM (A : CM) : CM := fun x y => Cconj (A y x).

(* A^dagger A = 1 on index lists of the length of qs (the identity written as the embedding of the empty product) *)
Definition unitary_on (qs : list nat) (A : CM) : Prop :=
  forall x y, length x = length qs -> length y = length qs ->
  cmmul (length qs) (adjM A) A x y = cembed qs [] oneF x y.

Theorem matrix_gate_then_adjoint_is_identity (A : CM) (qs : list nat) : NoDup qs -> unitary_on qs A ->
  forall psi, csem [(A, qs); (adjM A, qs)] psi = psi.
Proof.
  intros Hnd HU psi. apply functional_extensionality. intros b.
  unfold csem; simpl. unfold lsem; simpl.
  rewrite apply_mmul by exact Hnd.
  rewrite (apply_ext _ (cembed qs [] oneF)) by (intros x y Hx Hy; apply HU; assumption).
  rewrite apply_one by exact Hnd. reflexivity.
Qed.

(* the adjoint of the adjoint is the matrix itself: inverse_gate is an involution on matrix gates *)
Lemma adjM_invol A : adjM (adjM A) = A.
Proof.
  apply functional_extensionality; intros x. apply functional_extensionality; intros y.
  unfold adjM. destruct (A x y). unfold Cconj; cbn. f_equal. ring.
Qed.

(* non-vacuity: the Pauli Y matrix on any qubit is unitary in this sense *)
Definition Ymat : CM := fun x y =>
  match x, y with
  | [false], [true] => - Ci
  | [true], [false] => Ci
  | _, _ => C0
  end.
Example Y_is_unitary q : unitary_on [q] Ymat.
Proof.
  intros x y Hx Hy. destruct x as [|x0 [|? ?]]; try discriminate. destruct y as [|y0 [|? ?]]; try discriminate.
  destruct x0, y0; vm_compute; f_equal; ring.
Qed.
