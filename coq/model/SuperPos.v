(* comp_basis_superposition (core/state/comp_basis.py), the part after the X gates that prepare |x>:
   PauliRotation(X..X on the differing qubits, -2 theta) = cos(theta) + i sin(theta) X^m, then RZ(d, angle) on the
   lowest differing qubit with angle = 2 sign (phi/2 - pi/4).  The result is, up to a global phase,
   cos(theta)|x> + e^{i phi} sin(theta)|y>, for registers of any size and all x <> y, theta, phi. *)
From Coq Require Import List Bool Arith Lia Reals Lra.
From QP Require Import Cx Asum.
Import ListNotations.
Local Open Scope C_scope.

Definition St := Basis -> C.
Definition flip (m b : Basis) : Basis := fun i => xorb (b i) (m i).
Definition agreeb (n : nat) (b x : Basis) : bool := forallb (fun i => Bool.eqb (b i) (x i)) (seq 0 n).
Definition ket (n : nat) (x : Basis) : St := fun b => if agreeb n b x then C1 else C0.
(* exp(i theta X^m): the documented action of PauliRotation(targets = support of m, X.., angle = -2 theta) *)
Definition xrot (m : Basis) (theta : R) (psi : St) : St :=
  fun b => RtoC (cos theta) * psi b + Ci * RtoC (sin theta) * psi (flip m b).
(* RZ(alpha) on qubit d: diag(e^{-i alpha/2}, e^{i alpha/2}) *)
Definition rzq (d : nat) (alpha : R) (psi : St) : St :=
  fun b => Cexp (if b d then alpha / 2 else - alpha / 2)%R * psi b.

Lemma agreeb_flip n m b x : agreeb n (flip m b) x = agreeb n b (flip m x).
Proof.
  unfold agreeb, flip. induction (seq 0 n) as [|i l IH]; simpl; [reflexivity|]. rewrite IH. f_equal.
  destruct (b i), (m i), (x i); reflexivity.
Qed.
Lemma agreeb_at n b x d : agreeb n b x = true -> (d < n)%nat -> b d = x d.
Proof.
  unfold agreeb. rewrite forallb_forall. intros H Hd. specialize (H d). apply eqb_prop. apply H. apply in_seq. lia.
Qed.
Lemma agreeb_excl n b x m d : (d < n)%nat -> m d = true -> agreeb n b x = true -> agreeb n b (flip m x) = false.
Proof.
  intros Hd Hm H. destruct (agreeb n b (flip m x)) eqn:E; [|reflexivity].
  pose proof (agreeb_at n b x d H Hd) as E1. pose proof (agreeb_at n b _ d E Hd) as E2.
  unfold flip in E2. rewrite Hm in E2. rewrite E1 in E2. destruct (x d); discriminate.
Qed.
Lemma flip_flip m x : forall i, flip m (flip m x) i = x i.
Proof. intros i. unfold flip. destruct (x i), (m i); reflexivity. Qed.
Theorem superposition_circuit_prepares_the_superposition n (x m : Basis) d theta phi :
  (d < n)%nat -> m d = true ->
  let y := flip m x in
  let sign := if y d then 1%R else (-1)%R in
  let alpha := (2 * sign * (phi / 2 - PI / 4))%R in
  exists c, Cunit c /\ forall b,
    rzq d alpha (xrot m theta (ket n x)) b
    = c * (RtoC (cos theta) * ket n x b + Cexp phi * RtoC (sin theta) * ket n y b).
Proof.
  intros Hd Hm y sign alpha.
  exists (Cexp (if x d then alpha / 2 else - alpha / 2)%R). split; [apply Cunit_exp|].
  intros b. unfold rzq, xrot, ket. rewrite agreeb_flip. fold y.
  destruct (agreeb n b x) eqn:Ex.
  - assert (Ey0 : agreeb n b y = false) by (apply (agreeb_excl n b x m d Hd Hm Ex)).
    rewrite Ey0, (agreeb_at n b x d Ex Hd). ring.
  - destruct (agreeb n b y) eqn:Ey.
    + pose proof (agreeb_at n b y d Ey Hd) as Eb. rewrite Eb.
      assert (Exy : y d = negb (x d)) by (unfold y, flip; rewrite Hm; destruct (x d); reflexivity).
      (* the relative phase i e^{+-i alpha} equals e^{i phi} *)
      assert (Hph : Cexp (if y d then alpha / 2 else - alpha / 2)%R * Ci
                    = Cexp (if x d then alpha / 2 else - alpha / 2)%R * Cexp phi).
      { unfold alpha, sign. rewrite Exy. rewrite <- Cexp_PI2, <- !Cexp_add. destruct (x d); cbn [negb]; f_equal; lra. }
      transitivity (Cexp (if y d then alpha / 2 else - alpha / 2)%R * Ci * RtoC (sin theta)); [ring|].
      rewrite Hph. ring.
    + ring.
Qed.

(* ---- the decisions of comp_basis_superposition on the bit patterns (exact, for the correspondence) *)
From Coq Require Import NArith Ndigits.
Fixpoint plow (p : positive) : nat := match p with xH => 0 | xO q => S (plow q) | xI _ => 0 end.
(* different_bit_index / lowest_bit_index (ValueError for 0; the 64-bit limit is a stated precondition) *)
Definition lowbit (z : N) : option nat := match z with N0 => None | Npos p => Some (plow p) end.
Definition sp_targets (n : nat) (x y : N) : list nat := filter (fun i => N.testbit (N.lxor x y) (N.of_nat i)) (seq 0 n).
Definition sp_sign (y : N) (d : nat) : bool := N.testbit y (N.of_nat d).   (* true: sign = +1 *)

Lemma plow_set p : Pos.testbit_nat p (plow p) = true.
Proof. induction p as [q IH|q IH|]; simpl; auto. Qed.
Theorem lowbit_is_a_differing_bit x y d : lowbit (N.lxor x y) = Some d ->
  N.testbit x (N.of_nat d) <> N.testbit y (N.of_nat d).
Proof.
  intros H. assert (Hs : N.testbit (N.lxor x y) (N.of_nat d) = true).
  { destruct (N.lxor x y) as [|p]; [discriminate|]. injection H as <-. rewrite Ntestbit_Nbit. apply plow_set. }
  rewrite N.lxor_spec in Hs. destruct (N.testbit x (N.of_nat d)), (N.testbit y (N.of_nat d)); try discriminate; congruence.
Qed.
