(* Model of the gate-kind decomposer passes (transpile/transpiler.py):
   GateDecomposer.__call__ / ParallelDecomposer.__call__ replace every gate whose name is a
   target by the instantiated template and keep all other gates, in order.
   The templates themselves are DATA regenerated from /repo by translate/templates.py. *)
From Coq Require Import String.
From Coq Require Import ZArith List Bool Arith Lia Reals.
From QP Require Import Cx Zw FMat Lpoly Apply Local Gates Rsem.
Import ListNotations.

Record template := mkT { t_name : string; t_targets : list gkind; t_body : list gate }.

Definition canon (k : gkind) : gate :=
  mkG k (seq 0 (arity k)) (map ang_var (seq 0 (nparams k))).

(* the boolean obligation evaluated by vm_compute on every regenerated template *)
Definition tmpl_ok (t : template) : bool :=
  negb (match t_targets t with [] => true | _ => false end) &&
  forallb (fun k => tmpl_check (seq 0 (arity k)) (t_body t) (canon k)
                    && forallb gate_ok (t_body t) && gate_ok (canon k)) (t_targets t).

(* concrete gates: what a QuantumGate of these kinds is *)
Definition cgate_ok (c : cgate) : Prop :=
  length (cqs c) = arity (ck c) /\ NoDup (cqs c) /\ length (cps c) = nparams (ck c).

Definition theta_of (c : cgate) : nat -> R := fun i => nth i (cps c) 0%R.
Definition pi_of (qs : list nat) : nat -> nat :=
  fun i => if Nat.ltb i (length qs) then nth i qs 0%nat else (S (list_max qs) + i)%nat.

Definition decompose (t : template) (c : cgate) : list cgate :=
  map (inst (theta_of c) (pi_of (cqs c))) (t_body t).

Definition is_target (t : template) (c : cgate) : bool := existsb (gkind_eqb (ck c)) (t_targets t).

(* GateDecomposer.__call__ *)
Definition gkd_pass (t : template) (circ : list cgate) : list cgate :=
  flat_map (fun c => if is_target t c then decompose t c else [c]) circ.

(* ParallelDecomposer.__call__ : first decomposer registered for the gate's name *)
Fixpoint find_tmpl (ts : list template) (c : cgate) : option template :=
  match ts with
  | [] => None
  | t :: ts' => if is_target t c then Some t else find_tmpl ts' c
  end.
Definition par_pass (ts : list template) (circ : list cgate) : list cgate :=
  flat_map (fun c => match find_tmpl ts c with Some t => decompose t c | None => [c] end) circ.

(* SequentialTranspiler.__call__ *)
Definition seq_pass (ps : list (list cgate -> list cgate)) (circ : list cgate) : list cgate :=
  fold_left (fun c p => p c) ps circ.

(* ------------------------------------------------------------------ proofs *)
Lemma pi_of_inj qs : NoDup qs -> forall a b, pi_of qs a = pi_of qs b -> a = b.
Proof.
  intros Hnd a b. unfold pi_of.
  assert (Hmax : forall i, (i < length qs)%nat -> (nth i qs 0 <= list_max qs)%nat).
  { intros i Hi. pose proof (list_max_le qs (list_max qs)) as [H _].
    specialize (H (Nat.le_refl _)). rewrite Forall_forall in H. apply H, nth_In, Hi. }
  destruct (Nat.ltb_spec a (length qs)) as [Ha|Ha], (Nat.ltb_spec b (length qs)) as [Hb|Hb]; intros E.
  - apply (proj1 (NoDup_nth qs 0%nat) Hnd a b Ha Hb E).
  - pose proof (Hmax a Ha). lia.
  - pose proof (Hmax b Hb). lia.
  - lia.
Qed.

Lemma map_nth_seq {A} (d : A) l : map (fun i => nth i l d) (seq 0 (length l)) = l.
Proof. induction l as [|a l IH]; simpl; auto. f_equal. rewrite <- seq_shift, map_map. exact IH. Qed.

Lemma map_pi_of_seq qs : map (pi_of qs) (seq 0 (length qs)) = qs.
Proof.
  transitivity (map (fun i => nth i qs 0%nat) (seq 0 (length qs))); [|apply map_nth_seq].
  apply map_ext_in. intros i Hi.
  apply in_seq in Hi. unfold pi_of. destruct (Nat.ltb_spec i (length qs)); [reflexivity | lia].
Qed.

Lemma angsum_var theta : forall i j, angsum theta j (repeat 0%Z i ++ [1%Z]) = theta (j + i)%nat.
Proof. induction i as [|i IH]; intros j; simpl.
  - rewrite Nat.add_0_r. ring.
  - rewrite IH. replace (S j + i)%nat with (j + S i)%nat by lia. ring. Qed.

Lemma ang_eval_var theta i : ang_eval theta (ang_var i) = theta i.
Proof. unfold ang_eval, ang_var; simpl. rewrite angsum_var. simpl. ring. Qed.

Lemma inst_canon c : cgate_ok c -> inst (theta_of c) (pi_of (cqs c)) (canon (ck c)) = c.
Proof.
  intros [Ha [Hnd Hp]]. destruct c as [k qs ps]; simpl in *.
  unfold inst, canon; simpl. f_equal.
  - rewrite <- Ha. apply map_pi_of_seq.
  - rewrite map_map. rewrite <- Hp.
    rewrite (map_ext _ (fun i => nth i ps 0%R)); [apply map_nth_seq|].
    intros i. apply ang_eval_var.
Qed.

Lemma gkind_eqb_eq a b : gkind_eqb a b = true -> a = b.
Proof. destruct a, b; simpl; intros; try discriminate; reflexivity. Qed.

Lemma decompose_sound t c : tmpl_ok t = true -> cgate_ok c -> is_target t c = true ->
  csem (map rsem (decompose t c)) ≃ lsem (rsem c).
Proof.
  intros Hok Hc Ht. unfold tmpl_ok in Hok. apply andb_true_iff in Hok as [_ Hok].
  unfold is_target in Ht. apply existsb_exists in Ht as [k [Hk Ek]].
  apply gkind_eqb_eq in Ek. subst k.
  rewrite forallb_forall in Hok. specialize (Hok _ Hk).
  apply andb_true_iff in Hok as [Hok H3]. apply andb_true_iff in Hok as [H1 H2].
  unfold decompose. rewrite map_map.
  replace (lsem (rsem c)) with (lsem (rsem (inst (theta_of c) (pi_of (cqs c)) (canon (ck c)))))
    by (rewrite inst_canon; auto).
  destruct Hc as [_ [Hnd _]].
  apply (tmpl_sound (theta_of c) (pi_of (cqs c)) (pi_of_inj _ Hnd) _ _ _ H1 H2 H3).
Qed.

Lemma csem_single g : csem [g] ≃ lsem g.
Proof. apply opequiv_refl. Qed.

(* The whole pass preserves the action of every circuit (any length, any placement). *)
Theorem gkd_pass_sound t : tmpl_ok t = true -> forall circ, Forall cgate_ok circ ->
  csem (map rsem (gkd_pass t circ)) ≃ csem (map rsem circ).
Proof.
  intros Hok circ Hc. unfold gkd_pass.
  induction Hc as [|c circ Hc1 Hc IH]; simpl; [apply opequiv_refl|].
  rewrite map_app. change (rsem c :: map rsem circ) with ([rsem c] ++ map rsem circ).
  apply csem_app_equiv; [|exact IH].
  destruct (is_target t c) eqn:E; [|apply opequiv_refl].
  apply decompose_sound; auto.
Qed.

Lemma find_tmpl_some ts c t : find_tmpl ts c = Some t -> In t ts /\ is_target t c = true.
Proof. induction ts as [|t0 ts IH]; simpl; [discriminate|].
  destruct (is_target t0 c) eqn:E.
  - intros H; inversion H; subst; auto.
  - intros H; destruct (IH H); auto. Qed.

Theorem par_pass_sound ts : forallb tmpl_ok ts = true -> forall circ, Forall cgate_ok circ ->
  csem (map rsem (par_pass ts circ)) ≃ csem (map rsem circ).
Proof.
  intros Hok circ Hc. unfold par_pass. rewrite forallb_forall in Hok.
  induction Hc as [|c circ Hc1 Hc IH]; simpl; [apply opequiv_refl|].
  rewrite map_app. change (rsem c :: map rsem circ) with ([rsem c] ++ map rsem circ).
  apply csem_app_equiv; [|exact IH].
  destruct (find_tmpl ts c) as [t|] eqn:E; [|apply opequiv_refl].
  apply find_tmpl_some in E as [Hin Ht]. apply decompose_sound; auto.
Qed.
