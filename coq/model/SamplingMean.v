(* Model of core/estimator/sampling/pauli.py: general_pauli_expectation_estimator (count-weighted mean of the
   reconstructed eigenvalues, 1 for the identity label) and general_pauli_sum_expectation_estimator (inner product with
   the coefficients of the labels present in both the group and the coefficient map).
   Generic in the number type: R for the theorems, Q for running the model against the implementation.
   Theorem: when the counts are exact outcome frequencies (count_b = N * p_b, sum p_b = 1, N <> 0) the estimate of a group
   is the coefficient-weighted sum of the exact means  sum_b p_b * eigenvalue_P(b). *)
From Coq Require Import List Reals Lra.
Import ListNotations.

Section Generic.
Variables (K B L : Type).
Variables (k0 k1 : K) (kadd kmul kdiv : K -> K -> K).
Variable recon : L -> B -> K.          (* reconstructor_factory(pauli)(bits), +1 / -1 *)
Variable is_id : L -> bool.            (* pauli == PAULI_IDENTITY *)

Definition ctotal (cs : list (B * K)) : K := fold_right (fun bc a => kadd (snd bc) a) k0 cs.
Definition csum (f : B -> K) (cs : list (B * K)) : K := fold_right (fun bc a => kadd (kmul (f (fst bc)) (snd bc)) a) k0 cs.
Definition pauli_expectation (cs : list (B * K)) (p : L) : K :=
  if is_id p then k1 else kdiv (csum (recon p) cs) (ctotal cs).
Definition pauli_sum_expectation (cs : list (B * K)) (ps : list L) (coef : L -> option K) : K :=
  fold_right (fun p a => match coef p with Some c => kadd (kmul (pauli_expectation cs p) c) a | None => a end) k0 ps.
End Generic.

Section Exact.
Variables (B L : Type).
Variable recon : L -> B -> R.
Variable is_id : L -> bool.
Notation tot := (ctotal R B 0%R Rplus).
Notation wsum := (csum R B 0%R Rplus Rmult).
Notation pexp := (pauli_expectation R B L 0%R 1%R Rplus Rmult Rdiv recon is_id).
Notation psum := (pauli_sum_expectation R B L 0%R 1%R Rplus Rmult Rdiv recon is_id).

Definition scale (N : R) (pr : list (B * R)) : list (B * R) := map (fun bp => (fst bp, (N * snd bp)%R)) pr.

Lemma tot_scale N pr : tot (scale N pr) = (N * tot pr)%R.
Proof. unfold scale, ctotal. induction pr as [|[b p] pr IH]; cbn [map fold_right fst snd]; [ring|]. rewrite IH. ring. Qed.
Lemma wsum_scale f N pr : wsum f (scale N pr) = (N * wsum f pr)%R.
Proof. unfold scale, csum. induction pr as [|[b p] pr IH]; cbn [map fold_right fst snd]; [ring|]. rewrite IH. ring. Qed.

(* exact mean of the eigenvalue of p under the outcome distribution pr *)
Definition exact_mean (pr : list (B * R)) (p : L) : R := if is_id p then 1%R else wsum (recon p) pr.

Theorem exact_frequencies_give_exact_mean N pr p : N <> 0%R -> tot pr = 1%R ->
  pexp (scale N pr) p = exact_mean pr p.
Proof.
  intros HN H1. unfold pauli_expectation, exact_mean. destruct (is_id p); [reflexivity|].
  rewrite wsum_scale, tot_scale, H1. field. exact HN.
Qed.

Theorem exact_frequencies_give_exact_group_expectation N pr ps coef : N <> 0%R -> tot pr = 1%R ->
  psum (scale N pr) ps coef
  = fold_right (fun p a => match coef p with Some c => exact_mean pr p * c + a | None => a end)%R 0%R ps.
Proof.
  intros HN H1. induction ps as [|p ps IH]; cbn [pauli_sum_expectation fold_right]; [reflexivity|].
  unfold pauli_sum_expectation in IH. destruct (coef p) as [c|]; [|exact IH].
  rewrite IH, exact_frequencies_give_exact_mean by assumption. reflexivity.
Qed.

(* the estimate of a label never leaves [-1, 1] when the reconstructed values are +-1 and the counts are non-negative *)
Lemma wsum_bound f cs : (forall b, -1 <= f b <= 1)%R -> Forall (fun bc => 0 <= snd bc)%R cs ->
  (- tot cs <= wsum f cs <= tot cs)%R.
Proof.
  intros Hf Hc. unfold ctotal, csum. induction Hc as [|[b c] cs Hb Hc IH]; cbn [fold_right fst snd] in *; [lra|].
  specialize (Hf b). assert (- c <= f b * c <= c)%R by nra. lra.
Qed.
Theorem estimate_within_unit_interval cs p : (forall b, -1 <= recon p b <= 1)%R ->
  Forall (fun bc => 0 <= snd bc)%R cs -> (0 < tot cs)%R -> (-1 <= pexp cs p <= 1)%R.
Proof.
  intros Hf Hc Ht. unfold pauli_expectation. destruct (is_id p); [lra|].
  pose proof (wsum_bound (recon p) cs Hf Hc) as [H1 H2].
  split.
  - apply Rmult_le_reg_r with (r := tot cs); [exact Ht|]. unfold Rdiv. rewrite Rmult_assoc, Rinv_l by lra. lra.
  - apply Rmult_le_reg_r with (r := tot cs); [exact Ht|]. unfold Rdiv. rewrite Rmult_assoc, Rinv_l by lra. lra.
Qed.
End Exact.
