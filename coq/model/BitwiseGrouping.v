(* bitwise_pauli_grouping (core/operator/grouping/pauli_grouping.py): identity labels and labels made of only X,
   only Y or only Z go to four special groups, the rest through the greedy insertion of model/Grouping.v;
   individual_pauli_grouping.  The result partitions the input and the members of every group commute
   qubit-wise, for any number of labels on any qubit indices. *)
From Coq Require Import ZArith NArith List Bool Arith Lia Permutation.
From QPM Require Import Pauli Remap Grouping.
Import ListNotations.

Definition has (p : pauli) (l : label) : bool := existsb (fun ip => pauli_eqb (snd ip) p) l.
(* 0 identity, 1 all X, 2 all Y, 3 all Z, 4 mixed *)
Definition kind_of (l : label) : nat :=
  match l with
  | [] => 0
  | _ => match has PX l, has PY l, has PZ l with
         | true, false, false => 1
         | false, true, false => 2
         | false, false, true => 3
         | _, _, _ => 4
         end
  end.
Definition sel (k : nat) (ls : list label) : list label := filter (fun l => Nat.eqb (kind_of l) k) ls.
Definition opt_group (ls : list label) : list (list label) := match ls with [] => [] | _ => [ls] end.
Definition bitwise_grouping (ls : list label) : list (list label) :=
  map members (grouping (sel 4 ls)) ++ opt_group (sel 0 ls) ++ opt_group (sel 1 ls) ++ opt_group (sel 2 ls) ++ opt_group (sel 3 ls).
Definition individual_grouping (ls : list label) : list (list label) := map (fun l => [l]) ls.

Lemma concat_opt_group ls : concat (opt_group ls) = ls.
Proof. destruct ls; simpl; [reflexivity|rewrite app_nil_r; reflexivity]. Qed.

Lemma kind_le4 l : kind_of l <= 4.
Proof. unfold kind_of. destruct l as [|x l]; [lia|]. destruct (has PX (x :: l)), (has PY (x :: l)), (has PZ (x :: l)); lia. Qed.

Section Mid.
Variable T : Type.
Variables (a : T) (A B C D E : list T).
Lemma mid1 : Permutation (a :: A ++ B ++ C ++ D ++ E) (A ++ (a :: B) ++ C ++ D ++ E).
Proof. apply Permutation_middle. Qed.
Lemma mid2 : Permutation (a :: A ++ B ++ C ++ D ++ E) (A ++ B ++ (a :: C) ++ D ++ E).
Proof.
  replace (A ++ B ++ C ++ D ++ E) with ((A ++ B) ++ C ++ D ++ E) by (rewrite <- app_assoc; reflexivity).
  replace (A ++ B ++ (a :: C) ++ D ++ E) with ((A ++ B) ++ (a :: C) ++ D ++ E) by (rewrite <- app_assoc; reflexivity).
  apply Permutation_middle.
Qed.
Lemma mid3 : Permutation (a :: A ++ B ++ C ++ D ++ E) (A ++ B ++ C ++ (a :: D) ++ E).
Proof.
  replace (A ++ B ++ C ++ D ++ E) with ((A ++ B ++ C) ++ D ++ E) by (rewrite <- !app_assoc; reflexivity).
  replace (A ++ B ++ C ++ (a :: D) ++ E) with ((A ++ B ++ C) ++ (a :: D) ++ E) by (rewrite <- !app_assoc; reflexivity).
  apply Permutation_middle.
Qed.
Lemma mid4 : Permutation (a :: A ++ B ++ C ++ D ++ E) (A ++ B ++ C ++ D ++ (a :: E)).
Proof.
  replace (A ++ B ++ C ++ D ++ E) with ((A ++ B ++ C ++ D) ++ E) by (rewrite <- !app_assoc; reflexivity).
  replace (A ++ B ++ C ++ D ++ (a :: E)) with ((A ++ B ++ C ++ D) ++ (a :: E)) by (rewrite <- !app_assoc; reflexivity).
  apply Permutation_middle.
Qed.
End Mid.

Lemma split5 (ls : list label) :
  Permutation ls (sel 4 ls ++ sel 0 ls ++ sel 1 ls ++ sel 2 ls ++ sel 3 ls).
Proof.
  unfold sel. induction ls as [|l ls IH]; [reflexivity|]. cbn [filter].
  pose proof (kind_le4 l) as Hk.
  destruct (kind_of l) as [|[|[|[|[|k]]]]] eqn:E; cbn [Nat.eqb]; try lia;
    (eapply perm_trans; [apply perm_skip, IH|]).
  - apply mid1.
  - apply mid2.
  - apply mid3.
  - apply mid4.
  - reflexivity.
Qed.

(* the groups partition the input (as a multiset) *)
Theorem bitwise_grouping_partitions ls : Permutation (concat (bitwise_grouping ls)) ls.
Proof.
  unfold bitwise_grouping. rewrite !concat_app, !concat_opt_group.
  apply Permutation_sym. eapply perm_trans; [apply split5|]. apply Permutation_app_tail.
  apply Permutation_sym. rewrite <- flat_map_concat_map. exact (grouping_partitions (sel 4 ls)).
Qed.

(* labels made of one kind of Pauli matrix commute qubit-wise *)
Lemma has_false_lookup p l j q : has p l = false -> plookup j l = Some q -> q <> p.
Proof.
  unfold has. induction l as [|[i r] l IH]; cbn [existsb plookup snd]; [discriminate|].
  intros H. apply orb_false_iff in H as [H1 H2]. destruct (Nat.eqb j i).
  - intros Hq Hp. injection Hq as Hq. subst. destruct p; discriminate.
  - apply IH. exact H2.
Qed.
Lemma one_kind_lookup k l j q : (k = 1 \/ k = 2 \/ k = 3) -> kind_of l = k -> plookup j l = Some q ->
  q = match k with 1 => PX | 2 => PY | _ => PZ end.
Proof.
  intros Hk E Hq. unfold kind_of in E. destruct l as [|x l]; [destruct Hk as [Hk|[Hk|Hk]]; subst k; discriminate|].
  destruct (has PX (x :: l)) eqn:EX, (has PY (x :: l)) eqn:EY, (has PZ (x :: l)) eqn:EZ;
    try (destruct Hk as [Hk|[Hk|Hk]]; subst k; discriminate); subst k;
    pose proof (fun p E => has_false_lookup p (x :: l) j q E Hq) as HF; destruct q; try reflexivity; exfalso;
    first [exact (HF PX EX eq_refl) | exact (HF PY EY eq_refl) | exact (HF PZ EZ eq_refl)].
Qed.

Theorem bitwise_groups_commute ls : Forall (fun l => NoDup (keys l)) ls ->
  forall g, In g (bitwise_grouping ls) -> forall m1 m2, In m1 g -> In m2 g -> qw_commute m1 m2.
Proof.
  intros Hnd g Hg m1 m2 H1 H2. unfold bitwise_grouping in Hg. apply in_app_or in Hg. destruct Hg as [Hg|Hg].
  - apply in_map_iff in Hg. destruct Hg as [gr [<- Hgr]].
    assert (Hs : Forall (fun l => NoDup (keys l)) (sel 4 ls)).
    { rewrite Forall_forall in *. intros x Hx. apply filter_In in Hx. apply Hnd, Hx. }
    pose proof (grouping_members_commute (sel 4 ls) Hs) as G. rewrite Forall_forall in G.
    destruct (G gr Hgr) as [_ [Hc _]]. exact (Hc m1 m2 H1 H2).
  - assert (Hone : forall k, In g (opt_group (sel k ls)) -> (k = 0 \/ k = 1 \/ k = 2 \/ k = 3) -> qw_commute m1 m2).
    { intros k Hin Hk. unfold opt_group in Hin. destruct (sel k ls) as [|x r] eqn:Es; [contradiction|].
      destruct Hin as [<-|[]]. rewrite <- Es in H1, H2. unfold sel in H1, H2.
      apply filter_In in H1. apply filter_In in H2. destruct H1 as [_ K1]. destruct H2 as [_ K2].
      apply Nat.eqb_eq in K1. apply Nat.eqb_eq in K2. intros j.
      destruct (plookup j m1) as [p|] eqn:P1; [|exact I]. destruct (plookup j m2) as [q|] eqn:P2; [|exact I].
      destruct Hk as [->|Hk].
      - unfold kind_of in K1. destruct m1 as [|y m1]; [discriminate P1|]. destruct (has PX (y :: m1)), (has PY (y :: m1)), (has PZ (y :: m1)); discriminate.
      - rewrite (one_kind_lookup k m1 j p Hk K1 P1), (one_kind_lookup k m2 j q Hk K2 P2). reflexivity. }
    apply in_app_or in Hg. destruct Hg as [Hg|Hg]; [apply (Hone 0 Hg); auto|].
    apply in_app_or in Hg. destruct Hg as [Hg|Hg]; [apply (Hone 1 Hg); auto|].
    apply in_app_or in Hg. destruct Hg as [Hg|Hg]; [apply (Hone 2 Hg); auto|apply (Hone 3 Hg); auto].
Qed.

Theorem individual_grouping_partitions ls : concat (individual_grouping ls) = ls.
Proof. unfold individual_grouping. induction ls as [|l ls IH]; simpl; congruence. Qed.
