(* Character-level model of the string form of a Pauli label (PauliLabel.__str__) and of its parser
   (_parse_pauli_label_str in packages/core/quri_parts/core/operator/pauli.py):
     terms = re.sub(r"([XYZ])\s*", r"\1", s).split()      strip / split_ws
     terms == ["I"] -> {} ; no terms -> ValueError
     each term must match ([XYZ])([0-9]+) ; int() ; duplicate index -> ValueError
   Indices are N, digits go through the standard library's decimal printer. None = ValueError. *)
From Coq Require Import ZArith NArith List Bool Ascii String DecimalString DecimalN DecimalPos Lia ZifyBool ZifyN.
Import ListNotations.
Open Scope string_scope.

Inductive sp := SX | SY | SZ.
Definition letter (p : sp) : ascii := match p with SX => "X" | SY => "Y" | SZ => "Z" end%char.
Definition is_xyz (c : ascii) : option sp :=
  if Ascii.eqb c "X" then Some SX else if Ascii.eqb c "Y" then Some SY else if Ascii.eqb c "Z" then Some SZ else None.
(* str.isspace / \s on the ASCII range: \t \n \v \f \r, \x1c-\x1f, space *)
Definition is_ws (c : ascii) : bool :=
  let n := N_of_ascii c in ((9 <=? n) && (n <=? 13) || (28 <=? n) && (n <=? 32))%N.
Definition is_letter (c : ascii) : bool := match is_xyz c with Some _ => true | None => false end.

(* re.sub(r"([XYZ])\s*", r"\1", s): white space that follows X / Y / Z is dropped *)
Fixpoint strip (drop : bool) (s : string) : string :=
  match s with
  | EmptyString => EmptyString
  | String c r => if drop && is_ws c then strip true r else String c (strip (is_letter c) r)
  end.

(* str.split(): maximal runs of non-white-space characters *)
Definition cons_ne (w : string) (ts : list string) : list string :=
  match w with EmptyString => ts | _ => w :: ts end.
Fixpoint split_aux (s : string) : string * list string :=
  match s with
  | EmptyString => (EmptyString, [])
  | String c r => let (w, ts) := split_aux r in
                  if is_ws c then (EmptyString, cons_ne w ts) else (String c w, ts)
  end.
Definition split_ws (s : string) : list string := let (w, ts) := split_aux s in cons_ne w ts.

(* re.fullmatch(r"([XYZ])([0-9]+)", t), int(group 2), SinglePauli[group 1] *)
Definition parse_term (t : string) : option (N * sp) :=
  match t with
  | EmptyString => None
  | String c r =>
      match is_xyz c, r with
      | Some p, String _ _ =>
          match NilEmpty.uint_of_string r with Some d => Some (N.of_uint d, p) | None => None end
      | _, _ => None
      end
  end.

Definition has_index (i : N) (d : list (N * sp)) : bool := existsb (fun jp => N.eqb (fst jp) i) d.
Fixpoint parse_terms (ts : list string) (d : list (N * sp)) : option (list (N * sp)) :=
  match ts with
  | [] => Some d
  | t :: r => match parse_term t with
              | None => None
              | Some (i, p) => if has_index i d then None else parse_terms r (d ++ [(i, p)])%list
              end
  end.

Definition parse (s : string) : option (list (N * sp)) :=
  match split_ws (strip false s) with
  | [] => None
  | [t] => if String.eqb t "I" then Some [] else parse_terms [t] []
  | ts => parse_terms ts []
  end.

(* PauliLabel.__str__ on the listing sorted by index: "I" / " ".join(name + str(i)) *)
Definition show_term (ip : N * sp) : string := String (letter (snd ip)) (NilEmpty.string_of_uint (N.to_uint (fst ip))).
Fixpoint join (ts : list string) : string :=
  match ts with
  | [] => EmptyString
  | [t] => t
  | t :: r => t ++ String " "%char (join r)
  end.
Definition show (l : list (N * sp)) : string := match l with [] => "I" | _ => join (map show_term l) end.

(* ---------------------------------------------------------------- proofs *)
Definition is_digit (c : ascii) : bool := let n := N_of_ascii c in ((48 <=? n) && (n <=? 57))%N.
Fixpoint all_digits (s : string) : bool :=
  match s with EmptyString => true | String c r => is_digit c && all_digits r end.

Lemma digits_of_uint d : all_digits (NilEmpty.string_of_uint d) = true.
Proof. induction d; simpl; auto. Qed.

Lemma to_uint_nonnil (n : N) : N.to_uint n <> Decimal.Nil.
Proof. destruct n; simpl; [discriminate | apply Unsigned.to_uint_nonnil]. Qed.

Lemma string_of_uint_nonempty d : d <> Decimal.Nil -> NilEmpty.string_of_uint d <> EmptyString.
Proof. destruct d; simpl; congruence. Qed.

Lemma digit_not_ws c : is_digit c = true -> is_ws c = false.
Proof. unfold is_digit, is_ws. generalize (N_of_ascii c). intros n H. lia. Qed.

Lemma digit_not_letter c : is_digit c = true -> is_letter c = false.
Proof.
  unfold is_digit, is_letter, is_xyz. intros H.
  destruct (Ascii.eqb_spec c "X"%char) as [->|_]; [discriminate H|].
  destruct (Ascii.eqb_spec c "Y"%char) as [->|_]; [discriminate H|].
  destruct (Ascii.eqb_spec c "Z"%char) as [->|_]; [discriminate H|]. reflexivity.
Qed.
Lemma letter_not_ws p : is_ws (letter p) = false.  Proof. destruct p; reflexivity. Qed.
Lemma letter_is_letter p : is_letter (letter p) = true.  Proof. destruct p; reflexivity. Qed.
Lemma letter_is_xyz p : is_xyz (letter p) = Some p.  Proof. destruct p; reflexivity. Qed.
Lemma append_empty_r s : s ++ "" = s.
Proof. induction s as [|c s IH]; simpl; [reflexivity | now rewrite IH]. Qed.

Fixpoint no_ws (s : string) : bool :=
  match s with EmptyString => true | String c r => negb (is_ws c) && no_ws r end.
Definition tok_ok (t : string) : Prop := t <> EmptyString /\ no_ws t = true.

Lemma digits_no_ws s : all_digits s = true -> no_ws s = true.
Proof.
  induction s as [|c s IH]; simpl; [reflexivity|]. intros H. apply andb_prop in H. destruct H as [Hc Hs].
  rewrite (digit_not_ws c Hc), (IH Hs). reflexivity.
Qed.

Lemma show_term_tok_ok ip : tok_ok (show_term ip).
Proof.
  split; [discriminate|]. unfold show_term. simpl. rewrite letter_not_ws. simpl.
  apply digits_no_ws, digits_of_uint.
Qed.

(* ---- split *)
Lemma split_aux_tok t s : no_ws t = true ->
  split_aux (t ++ s) = (t ++ fst (split_aux s), snd (split_aux s)).
Proof.
  induction t as [|c t IH]; simpl; intros H.
  - destruct (split_aux s); reflexivity.
  - apply andb_prop in H. destruct H as [Hc Ht]. rewrite (IH Ht).
    destruct (is_ws c); [discriminate Hc | reflexivity].
Qed.

Lemma split_aux_join t r : Forall tok_ok (t :: r) -> split_aux (join (t :: r)) = (t, r).
Proof.
  revert t. induction r as [|t' r IH]; intros t H.
  - inversion H as [|? ? [_ Ht] _]; subst. simpl.
    rewrite <- (append_empty_r t) at 1. rewrite (split_aux_tok t "" Ht). simpl. now rewrite append_empty_r.
  - inversion H as [|? ? [_ Ht] Hr]; subst.
    change (join (t :: t' :: r)) with (t ++ String " "%char (join (t' :: r))).
    rewrite (split_aux_tok _ _ Ht). cbn [split_aux]. rewrite (IH t' Hr).
    change (is_ws " "%char) with true. cbn [fst snd]. rewrite append_empty_r.
    inversion Hr as [|? ? [Hne _] _]; subst. destruct t'; [congruence | reflexivity].
Qed.

Lemma split_join ts : Forall tok_ok ts -> split_ws (join ts) = ts.
Proof.
  destruct ts as [|t r]; [reflexivity|]. intros H. unfold split_ws. rewrite (split_aux_join t r H).
  inversion H as [|? ? [Hne _] _]; subst. destruct t; [congruence | reflexivity].
Qed.

(* ---- strip *)
Lemma strip_digits ds rest : all_digits ds = true -> strip false (ds ++ rest) = ds ++ strip false rest.
Proof.
  induction ds as [|c ds IH]; simpl; [reflexivity|]. intros H. apply andb_prop in H. destruct H as [Hc Hd].
  rewrite (digit_not_letter c Hc), (IH Hd). reflexivity.
Qed.

Lemma strip_term b p ds rest : ds <> EmptyString -> all_digits ds = true ->
  strip b (String (letter p) (ds ++ rest)) = String (letter p) (ds ++ strip false rest).
Proof.
  intros Hne Hd. cbn [strip]. rewrite letter_not_ws, andb_false_r, letter_is_letter.
  destruct ds as [|c ds]; [congruence|]. simpl in Hd. apply andb_prop in Hd. destruct Hd as [Hc Hd].
  simpl. rewrite (digit_not_ws c Hc). simpl. rewrite (digit_not_letter c Hc).
  now rewrite (strip_digits ds rest Hd).
Qed.

Lemma strip_join b (l : list (N * sp)) : strip b (join (map show_term l)) = join (map show_term l).
Proof.
  revert b. induction l as [|ip l IH]; intros b; [reflexivity|].
  assert (Hne : NilEmpty.string_of_uint (N.to_uint (fst ip)) <> EmptyString)
    by (apply string_of_uint_nonempty, to_uint_nonnil).
  pose proof (digits_of_uint (N.to_uint (fst ip))) as Hd.
  destruct l as [|ip' l].
  - cbn [map join]. unfold show_term at 1 2.
    rewrite <- (append_empty_r (NilEmpty.string_of_uint _)) at 1.
    rewrite (strip_term b _ _ "" Hne Hd). simpl. now rewrite append_empty_r.
  - change (join (map show_term (ip :: ip' :: l)))
      with (show_term ip ++ String " "%char (join (map show_term (ip' :: l)))).
    unfold show_term at 1 3. cbn [append].
    rewrite (strip_term b _ _ _ Hne Hd). cbn [strip]. change (is_ws " "%char) with true.
    change (is_letter " "%char) with false. cbn [andb]. now rewrite (IH false).
Qed.

(* ---- terms *)
Lemma parse_term_show ip : parse_term (show_term ip) = Some ip.
Proof.
  destruct ip as [i p]. unfold parse_term, show_term. cbn [fst snd]. rewrite letter_is_xyz.
  destruct (NilEmpty.string_of_uint (N.to_uint i)) eqn:E.
  - exfalso. revert E. apply string_of_uint_nonempty, to_uint_nonnil.
  - rewrite <- E, NilEmpty.usu, DecimalN.Unsigned.of_to. reflexivity.
Qed.

Lemma has_index_app i d x : has_index i (d ++ [x])%list = has_index i d || N.eqb (fst x) i.
Proof. unfold has_index. rewrite existsb_app. simpl. now rewrite orb_false_r. Qed.

Lemma parse_terms_show l : NoDup (map fst l) -> forall d,
  (forall x, In x l -> has_index (fst x) d = false) ->
  parse_terms (map show_term l) d = Some (d ++ l)%list.
Proof.
  induction l as [|ip l IH]; intros Hnd d Hd; cbn [map parse_terms].
  - now rewrite app_nil_r.
  - rewrite parse_term_show. destruct ip as [i p]. pose proof (Hd (i, p) (or_introl eq_refl)) as Hi. cbn [fst] in Hi. rewrite Hi.
    inversion Hnd as [|? ? Hni Hnd']; subst.
    rewrite (IH Hnd' (d ++ [(i, p)])%list).
    + now rewrite <- app_assoc.
    + intros x Hx. rewrite has_index_app, (Hd x (or_intror Hx)). cbn [orb fst].
      apply N.eqb_neq. intros ->. apply Hni. apply in_map_iff. now exists x.
Qed.

Lemma show_term_not_identity ip : String.eqb (show_term ip) "I" = false.
Proof. destruct ip as [i [| |]]; reflexivity. Qed.

(* the string form parses back to the label it came from *)
Theorem parse_show l : NoDup (map fst l) -> parse (show l) = Some l.
Proof.
  intros Hnd. destruct l as [|ip l]; [reflexivity|].
  unfold parse, show. rewrite strip_join, split_join
    by (apply Forall_forall; intros t Ht; apply in_map_iff in Ht; destruct Ht as [x [<- _]]; apply show_term_tok_ok).
  assert (H : parse_terms (map show_term (ip :: l)) [] = Some (ip :: l))
    by (apply (parse_terms_show _ Hnd []); reflexivity).
  destruct l as [|ip' l]; cbn [map] in *.
  - now rewrite show_term_not_identity.
  - exact H.
Qed.

(* hence the intern key (the string form) separates labels *)
Corollary show_injective l1 l2 : NoDup (map fst l1) -> NoDup (map fst l2) -> show l1 = show l2 -> l1 = l2.
Proof.
  intros H1 H2 E. pose proof (parse_show l1 H1) as P1. rewrite E, (parse_show l2 H2) in P1. congruence.
Qed.

Lemma nodup_snoc {A} (l : list A) a : NoDup l -> ~ In a l -> NoDup (l ++ [a])%list.
Proof.
  induction l as [|x l IH]; intros Hn Hi; simpl.
  - constructor; [intros [] | constructor].
  - inversion Hn as [|? ? Hx Hl]; subst. constructor.
    + intros Hin. apply in_app_or in Hin. destruct Hin as [Hin | [-> | []]]; [now apply Hx | apply Hi; now left].
    + apply IH; [exact Hl | intros Hin; apply Hi; now right].
Qed.

(* what the parser accepts has distinct indices: every accepted string denotes a well-formed label *)
Lemma parse_terms_nodup ts : forall d r, NoDup (map fst d) -> parse_terms ts d = Some r -> NoDup (map fst r).
Proof.
  induction ts as [|t ts IH]; intros d r Hd; cbn [parse_terms].
  - intros E. now inversion E; subst.
  - destruct (parse_term t) as [[i p]|]; [|discriminate]. destruct (has_index i d) eqn:Hi; [discriminate|].
    apply IH. rewrite map_app. cbn [map fst].
    apply nodup_snoc; [exact Hd|].
    intros Hin. apply in_map_iff in Hin. destruct Hin as [x [Hx Hin]].
    assert (has_index i d = true); [|congruence].
    unfold has_index. apply existsb_exists. exists x. split; [exact Hin|]. rewrite Hx. apply N.eqb_refl.
Qed.

Theorem parse_nodup s r : parse s = Some r -> NoDup (map fst r).
Proof.
  unfold parse. destruct (split_ws (strip false s)) as [|t [|t' ts]]; [discriminate | |].
  - destruct (String.eqb t "I"); [intros E; inversion E; constructor | apply parse_terms_nodup; constructor].
  - apply parse_terms_nodup; constructor.
Qed.

(* executable views for the correspondence check: strings as code lists, results as integer lists *)
Definition str_of (l : list N) : string := fold_right (fun n s => String (ascii_of_N n) s) EmptyString l.
Fixpoint codes (s : string) : list Z := match s with EmptyString => [] | String c r => Z.of_N (N_of_ascii c) :: codes r end.
Definition sp_id (p : sp) : Z := match p with SX => 1 | SY => 2 | SZ => 3 end%Z.
Definition sp_of (n : N) : sp := match n with 1%N => SX | 2%N => SY | _ => SZ end.
Definition run_show (l : list (N * N)) : list Z := codes (show (map (fun ip => (fst ip, sp_of (snd ip))) l)).
Definition run_parse (l : list N) : list Z :=
  match parse (str_of l) with
  | None => [(-1)%Z]
  | Some r => 0%Z :: flat_map (fun ip => [Z.of_N (fst ip); sp_id (snd ip)]) r
  end.

(* non-vacuity: "X0 Y 1   Z2" and "Z2 X0 Y1" are accepted (documented forms), "X0 Y1 Z1" / "X0Y1Z2" / "X0 Y Z2" are not *)
Example string_form_examples :
  parse "X0 Y 1   Z2" = Some [(0%N, SX); (1%N, SY); (2%N, SZ)]
  /\ parse "Z2 X0 Y1" = Some [(2%N, SZ); (0%N, SX); (1%N, SY)]
  /\ parse "X0 Y1 Z1" = None /\ parse "X0Y1Z2" = None /\ parse "X0 Y Z2" = None
  /\ show [(0%N, SX); (10%N, SY)] = "X0 Y10" /\ parse "I" = Some [].
Proof. vm_compute. repeat split. Qed.
