(* From measurement statistics to expectation values: for a qubit-wise commuting set measured through its measurement
   circuit V (H for X, Sdag;H for Y), the mean of the reconstructed eigenvalue of a member P under the EXACT outcome
   distribution |<b|V psi>|^2 is <psi|P|psi>, for every state psi on a register of any size. *)
From Coq Require Import ZArith List Bool Arith Lia Reals Lra FunctionalExtensionality Permutation.
From QP Require Import Cx Zw Asum FMat Lpoly Apply Local Gates Rsem.
From QPM Require Import Transpile Pauli Measure Native.
Import ListNotations.
Local Open Scope C_scope.

(* inner product over the assignments of the register qubits Q (all other bits as in b0) *)
Definition ip (Q : list nat) (phi chi : St) (b0 : Basis) : C := asum Q (fun b => Cconj (phi b) * chi b) b0.

Definition unitary2 (M : CM) : Prop :=
  forall x y : bool, Cconj (M [false] [x]) * M [false] [y] + Cconj (M [true] [x]) * M [true] [y] = if Bool.eqb x y then C1 else C0.

Lemma asum_bset_out q v R : ~ In q R -> forall F b, asum R F (bset b q v) = asum R (fun b' => F (bset b' q v)) b.
Proof.
  induction R as [|r R IH]; intros Hq F b; cbn [asum]; [reflexivity|].
  assert (Hr : r <> q) by (intros ->; apply Hq; left; reflexivity).
  assert (Hq' : ~ In q R) by (intros H; apply Hq; right; exact H).
  rewrite (bset_comm b q r v false), (bset_comm b q r v true) by congruence.
  rewrite !IH by exact Hq'. reflexivity.
Qed.

Lemma Cconj_invol x : Cconj (Cconj x) = x.
Proof. destruct x; unfold Cconj; cbn. f_equal. ring. Qed.

Lemma iso_algebra (M : CM) (a0 a1 c0 c1 : C) : unitary2 M ->
  Cconj (M [false] [false] * a0 + M [false] [true] * a1) * (M [false] [false] * c0 + M [false] [true] * c1)
  + Cconj (M [true] [false] * a0 + M [true] [true] * a1) * (M [true] [false] * c0 + M [true] [true] * c1)
  = Cconj a0 * c0 + Cconj a1 * c1.
Proof.
  intros U. pose proof (U false false) as U00. pose proof (U false true) as U01.
  pose proof (U true false) as U10. pose proof (U true true) as U11. cbn in U00, U01, U10, U11.
  rewrite !Cconj_add, !Cconj_mul.
  transitivity (Cconj a0 * c0 * (Cconj (M [false] [false]) * M [false] [false] + Cconj (M [true] [false]) * M [true] [false])
              + Cconj a0 * c1 * (Cconj (M [false] [false]) * M [false] [true] + Cconj (M [true] [false]) * M [true] [true])
              + Cconj a1 * c0 * (Cconj (M [false] [true]) * M [false] [false] + Cconj (M [true] [true]) * M [true] [false])
              + Cconj a1 * c1 * (Cconj (M [false] [true]) * M [false] [true] + Cconj (M [true] [true]) * M [true] [true])); [ring|].
  rewrite U00, U01, U10, U11. ring.
Qed.

(* a unitary one-qubit gate on a register qubit preserves the inner product *)
Lemma ip_iso1 (M : CM) q Q phi chi b0 : unitary2 M -> NoDup Q -> In q Q ->
  ip Q (lsem (M, [q]) phi) (lsem (M, [q]) chi) b0 = ip Q phi chi b0.
Proof.
  intros U HQ Hq. unfold ip.
  assert (Hincl : incl [q] Q) by (intros x [<-|[]]; exact Hq).
  assert (Hnq : NoDup [q]) by (constructor; [intros []|constructor]).
  pose proof (perm_split Q [q] HQ Hnq Hincl) as Hp.
  set (R := restof Q [q]) in *.
  assert (HqR : ~ In q R) by (unfold R; intros H; apply restof_In in H; apply (proj2 H); left; reflexivity).
  rewrite !(asum_perm _ _ Hp). cbn [app asum].
  rewrite !(asum_bset_out q _ R HqR). rewrite <- !asum_add.
  apply asum_ext. intros b.
  rewrite !lsem_1q, !bset_eq, !bset_bset.
  apply (iso_algebra M (phi (bset b q false)) (phi (bset b q true)) (chi (bset b q false)) (chi (bset b q true)) U).
Qed.

(* ------------------------------------------------------------------ unitarity of constant one-qubit gates, by computation *)
Definition unitb (k : gkind) : bool :=
  let '(M, s) := gmat k [] in
  Nat.eqb (arity k) 1 &&
  forallb (fun x => forallb (fun y =>
    lp_eqb (lp_add (lp_mul (lp_conj (M [false] [x])) (M [false] [y])) (lp_mul (lp_conj (M [true] [x])) (M [true] [y])))
           (if Bool.eqb x y then pow2 s else lp0)) [false; true]) [false; true].

Lemma Cconj_RtoC_mul r a : Cconj (RtoC r * a) = RtoC r * Cconj a.
Proof. destruct a. unfold Cconj, RtoC, Cmul. cbn. f_equal; ring. Qed.

Lemma unitb_sound k q : unitb k = true -> unitary2 (fst (ksem (mkG k [q] []))).
Proof.
  unfold unitb, ksem, sgate, eg. cbn [gk gas gqs]. destruct (gmat k []) as [M s] eqn:EM. cbn [eM es eqs fst].
  intros H. apply andb_true_iff in H as [_ H]. intros x y.
  rewrite forallb_forall in H. specialize (H x (ltac:(destruct x; cbn; auto))).
  rewrite forallb_forall in H. specialize (H y (ltac:(destruct y; cbn; auto))).
  apply (lp_eqb_sound rho0) in H.
  rewrite lp_eval_add, !(lp_eval_mul rho0 rho0_unit), !lp_eval_conj in H.
  rewrite cpow_rhC, !Cconj_RtoC_mul.
  set (a0 := lp_eval rho0 (M [false] [x])) in *. set (b0 := lp_eval rho0 (M [false] [y])) in *.
  set (a1 := lp_eval rho0 (M [true] [x])) in *. set (b1 := lp_eval rho0 (M [true] [y])) in *.
  transitivity (RtoC (rh ^ s * rh ^ s) * (Cconj a0 * b0 + Cconj a1 * b1)).
  { rewrite <- RtoC_mul. ring. }
  rewrite H. destruct (Bool.eqb x y).
  - rewrite pow2_eval, RtoC_mul, rh_pow2. reflexivity.
  - change (lp_eval rho0 lp0) with C0. ring.
Qed.

(* a list of unitary one-qubit gates on register qubits preserves the inner product *)
Definition iso_gate (Q : list nat) (g : lgate) : Prop := exists M q, g = (M, [q]) /\ unitary2 M /\ In q Q.

Lemma ip_iso Q gs : NoDup Q -> Forall (iso_gate Q) gs -> forall phi chi b0,
  ip Q (csem gs phi) (csem gs chi) b0 = ip Q phi chi b0.
Proof.
  intros HQ H. induction H as [|g gs [M [q [-> [HU Hq]]]] _ IH]; intros phi chi b0; [reflexivity|].
  rewrite !csem_cons. rewrite IH. apply ip_iso1; assumption.
Qed.

(* ------------------------------------------------------------------ Z strings are diagonal *)
Fixpoint zsign (l : label) (b : Basis) : C :=
  match l with [] => C1 | (i, _) :: l' => (if b i then - C1 else C1) * zsign l' b end.

Lemma Zdiag' q psi b : lsem (psem (q, PZ)) psi b = (if b q then - C1 else C1) * psi b.
Proof.
  unfold psem, pgate, ksem, sgate. cbn [fst snd pk eg gmat gk gas gqs eM es eqs map].
  rewrite lsem_1q. unfold idpi, m2.
  assert (E1 : lp_eval rho0 Gates.one = C1) by (unfold Gates.one, cz; rewrite lp_eval_const, zw_eval_of_Z; reflexivity).
  assert (Em : lp_eval rho0 mone = - C1).
  { unfold mone, cz. rewrite lp_eval_const, zw_eval_of_Z. unfold RtoC, C1, Copp. cbn. f_equal; ring. }
  assert (E0 : lp_eval rho0 lp0 = C0) by reflexivity.
  destruct (b q) eqn:E; rewrite ?E1, ?Em, ?E0; cbn [cpow].
  - assert (Hb : bset b q true = b) by (rewrite <- E; apply bset_id). rewrite Hb. ring.
  - assert (Hb : bset b q false = b) by (rewrite <- E; apply bset_id). rewrite Hb. ring.
Qed.

Lemma zstring_diag l : forall psi b, lsemL (zstring l) psi b = zsign l b * psi b.
Proof.
  induction l as [|[i p] l IH]; intros psi b.
  - unfold lsemL, csem. cbn. ring.
  - cbn [zstring map fst]. fold (zstring l). unfold lsemL. cbn [map]. rewrite csem_cons. fold (lsemL (zstring l)).
    rewrite IH, Zdiag'. cbn [zsign]. ring.
Qed.

(* ------------------------------------------------------------------ the theorem *)
Section Mean.
Variable rt : rot_table.
Hypothesis rt_ok : rot_ok rt = true.
Hypothesis rt_unitary : forallb (fun p => forallb unitb (rt p)) all_pauli = true.

Lemma V_iso Q m : incl (keys m) Q -> Forall (iso_gate Q) (V rt m).
Proof.
  intros Hin. unfold V, meas_circuit. apply Forall_forall. intros g Hg.
  apply in_map_iff in Hg as [g0 [<- Hg0]]. apply in_flat_map in Hg0 as [[i p] [Hip Hg0]].
  unfold rot_gates in Hg0. cbn [fst snd] in Hg0. apply in_map_iff in Hg0 as [k [<- Hk]].
  exists (fst (ksem (mkG k [i] []))), i. split; [|split].
  - unfold ksem, sgate. destruct (eg (mkG k [i] [])) eqn:E. cbn.
    pose proof (eg_eqs (mkG k [i] [])) as H. rewrite E in H. cbn in H. subst. reflexivity.
  - apply unitb_sound. rewrite forallb_forall in rt_unitary. specialize (rt_unitary p (in_all_pauli p)).
    rewrite forallb_forall in rt_unitary. apply rt_unitary, Hk.
  - apply Hin. unfold keys. apply in_map_iff. exists (i, p). split; [reflexivity|exact Hip].
Qed.

(* the mean of the eigenvalue (-1)^{number of set bits on the support of P} under the exact outcome distribution of the
   measured state V psi is <psi| P |psi> *)
Theorem exact_distribution_mean_is_expectation m P Q psi b0 :
  NoDup (keys m) -> NoDup (keys P) -> sub_label P m -> NoDup Q -> incl (keys m) Q ->
  asum Q (fun b => zsign P b * RtoC (Cnorm2 (csem (V rt m) psi b))) b0 = ip Q psi (lsemL P psi) b0.
Proof.
  intros Hm HP Hsub HQ Hin.
  rewrite <- (ip_iso Q (V rt m) HQ (V_iso Q m Hin) psi (lsemL P psi) b0).
  pose proof (measurement_circuit_diagonalises rt rt_ok m Hm P HP Hsub) as D.
  apply (f_equal (fun f => f psi)) in D. rewrite !csem_app' in D.
  change (csem (map psem P) psi) with (lsemL P psi) in D. rewrite D.
  change (csem (map psem (zstring P)) (csem (V rt m) psi)) with (lsemL (zstring P) (csem (V rt m) psi)).
  unfold ip. apply asum_ext. intros b. rewrite zstring_diag, <- Cnorm2_conj. ring.
Qed.
End Mean.

(* the eigenvalue sign used above is what the reconstructor returns for the outcome word (model/Reconstruct.v) *)
From Coq Require Import NArith.
From QPM Require Import Reconstruct.
Lemma zsign_fold l bits :
  zsign l (fun i => N.testbit bits (N.of_nat i))
  = RtoC (IZR (fold_right (fun ip a => ((if N.testbit bits (N.of_nat (fst ip)) then (-1) else 1) * a)%Z) 1%Z l)).
Proof.
  induction l as [|[i p] l IH]; [reflexivity|]. cbn [zsign fold_right fst]. rewrite IH, mult_IZR.
  destruct (N.testbit bits (N.of_nat i)); unfold RtoC, Cmul, Copp, C1; cbn; f_equal; ring.
Qed.
Theorem zsign_is_the_reconstructor_value l bits : NoDup (keys l) ->
  zsign l (fun i => N.testbit bits (N.of_nat i)) = RtoC (IZR (reconstruct l bits)).
Proof. intros H. rewrite (reconstruct_is_eigenvalue_product l bits H). apply zsign_fold. Qed.
