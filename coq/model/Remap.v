(* Model of backend/qubit_mapping.py (_create_reverse_map, _reverse_map_bits, _reverse_map_counts)
   and of transpile/qubit_remapping.py.  Bit strings are N; a mapping is an association list
   (from, to) with distinct keys (a dict) and distinct values (checked by the constructor). *)
From Coq Require Import ZArith NArith List Bool Arith Lia Reals FunctionalExtensionality.
From QP Require Import Cx Asum FMat Apply.
Import ListNotations.

Definition qmap := list (nat * nat).
Definition mkeys (m : qmap) := map fst m.
Definition mvals (m : qmap) := map snd m.
Definition pow2 (i : nat) : N := N.shiftl 1 (N.of_nat i).

(* _reverse_map_bits(x, {1<<v : 1<<k}) *)
Definition reverse_map_bits (m : qmap) (x : N) : N :=
  fold_left (fun acc kv => if N.testbit x (N.of_nat (snd kv)) then (acc + pow2 (fst kv))%N else acc) m 0%N.
(* what the remapped circuit's measurement produces from an original outcome b *)
Definition forward_map_bits (m : qmap) (b : N) : N :=
  fold_left (fun acc kv => if N.testbit b (N.of_nat (fst kv)) then (acc + pow2 (snd kv))%N else acc) m 0%N.

Lemma pow2_testbit i j : N.testbit (pow2 i) (N.of_nat j) = Nat.eqb j i.
Proof.
  unfold pow2. destruct (Nat.eqb_spec j i) as [->|Hne].
  - rewrite N.shiftl_spec_high' by lia. rewrite N.sub_diag. reflexivity.
  - destruct (N.lt_ge_cases (N.of_nat j) (N.of_nat i)).
    + apply N.shiftl_spec_low; auto.
    + rewrite N.shiftl_spec_high' by lia. apply N.bits_above_log2.
      assert (0 < N.of_nat j - N.of_nat i)%N by lia. simpl. lia.
Qed.

Lemma add_pow2_fresh acc i : N.testbit acc (N.of_nat i) = false ->
  forall j, N.testbit (acc + pow2 i) (N.of_nat j) = N.testbit acc (N.of_nat j) || Nat.eqb j i.
Proof.
  intros H j.
  assert (Hl : N.land acc (pow2 i) = 0%N).
  { apply N.bits_inj. intros n. rewrite N.land_spec, N.bits_0.
    destruct (N.testbit (pow2 i) n) eqn:E; [|apply andb_false_r].
    assert (n = N.of_nat i).
    { destruct (N.eq_dec n (N.of_nat i)); auto. exfalso.
      rewrite <- (N2Nat.id n) in E. rewrite pow2_testbit in E. apply Nat.eqb_eq in E. lia. }
    subst n. rewrite H. reflexivity. }
  rewrite (N.add_nocarry_lxor _ _ Hl), (N.lxor_lor _ _ Hl), N.lor_spec, pow2_testbit. reflexivity.
Qed.

(* generic fold: sum of distinct powers selected by a predicate *)
Definition selsum (sel : nat * nat -> bool) (tgt : nat * nat -> nat) (m : qmap) (acc : N) : N :=
  fold_left (fun acc kv => if sel kv then (acc + pow2 (tgt kv))%N else acc) m acc.

Lemma selsum_testbit sel tgt m : NoDup (map tgt m) -> forall acc,
  (forall kv, In kv m -> N.testbit acc (N.of_nat (tgt kv)) = false) ->
  forall j, N.testbit (selsum sel tgt m acc) (N.of_nat j)
            = N.testbit acc (N.of_nat j) || existsb (fun kv => sel kv && Nat.eqb j (tgt kv)) m.
Proof.
  induction m as [|kv m IH]; intros Hnd acc Hacc j; simpl.
  - rewrite orb_false_r. reflexivity.
  - inversion Hnd as [|? ? Hnot Hnd']; subst.
    destruct (sel kv) eqn:Es; simpl.
    + assert (Hfresh : N.testbit acc (N.of_nat (tgt kv)) = false) by (apply Hacc; left; reflexivity).
      assert (Hacc' : forall kv', In kv' m -> N.testbit (acc + pow2 (tgt kv)) (N.of_nat (tgt kv')) = false).
      { intros kv' Hin. rewrite add_pow2_fresh by exact Hfresh.
        rewrite Hacc by (right; auto). simpl. apply Nat.eqb_neq. intros E. apply Hnot.
        rewrite <- E. apply in_map, Hin. }
      rewrite (IH Hnd' _ Hacc' j). rewrite add_pow2_fresh by exact Hfresh. rewrite orb_assoc. reflexivity.
    + apply IH; auto. intros kv' Hin. apply Hacc; right; auto.
Qed.

Lemma reverse_testbit m x : NoDup (mkeys m) -> forall j,
  N.testbit (reverse_map_bits m x) (N.of_nat j)
  = existsb (fun kv => N.testbit x (N.of_nat (snd kv)) && Nat.eqb j (fst kv)) m.
Proof.
  intros Hnd j. unfold reverse_map_bits.
  change (fold_left _ m 0%N) with (selsum (fun kv => N.testbit x (N.of_nat (snd kv))) fst m 0%N).
  rewrite selsum_testbit; auto; try (intros; apply N.bits_0).
Qed.
Lemma forward_testbit m b : NoDup (mvals m) -> forall j,
  N.testbit (forward_map_bits m b) (N.of_nat j)
  = existsb (fun kv => N.testbit b (N.of_nat (fst kv)) && Nat.eqb j (snd kv)) m.
Proof.
  intros Hnd j. unfold forward_map_bits.
  change (fold_left _ m 0%N) with (selsum (fun kv => N.testbit b (N.of_nat (fst kv))) snd m 0%N).
  rewrite selsum_testbit; auto; try (intros; apply N.bits_0).
Qed.

Lemma testbit_ext_nat a b : (forall j, N.testbit a (N.of_nat j) = N.testbit b (N.of_nat j)) -> a = b.
Proof. intros H. apply N.bits_inj. intros n. rewrite <- (N2Nat.id n). apply H. Qed.

Lemma existsb_unique_key (m : qmap) (P : nat * nat -> bool) k v :
  NoDup (mkeys m) -> In (k, v) m ->
  existsb (fun kv => P kv && Nat.eqb k (fst kv)) m = P (k, v).
Proof.
  induction m as [|[k' v'] m IH]; intros Hnd Hin; simpl in *; [tauto|].
  inversion Hnd as [|? ? Hnot Hnd']; subst. destruct Hin as [E|Hin].
  - inversion E; subst. rewrite Nat.eqb_refl, andb_true_r.
    assert (Hrest : existsb (fun kv => P kv && Nat.eqb k (fst kv)) m = false).
    { apply not_true_is_false. intros Ht. apply existsb_exists in Ht as [[k2 v2] [Hin2 H2]].
      apply andb_true_iff in H2 as [_ H2]. apply Nat.eqb_eq in H2. simpl in H2. subst k2.
      apply Hnot. change k with (fst (k, v2)). apply in_map, Hin2. }
    rewrite Hrest. apply orb_false_r.
  - assert (k <> k'). { intros ->. apply Hnot. change k' with (fst (k', v)). apply in_map, Hin. }
    replace (Nat.eqb k k') with false by (symmetry; apply Nat.eqb_neq; auto).
    rewrite andb_false_r. simpl. apply IH; auto.
Qed.

(* un-mapping undoes the mapping, bit for bit, even when the backend reports junk bits on
   qubits that are not the image of any circuit qubit *)
Theorem unmap_map_id (m : qmap) (b junk : N) :
  NoDup (mkeys m) -> NoDup (mvals m) ->
  (forall j, N.testbit b (N.of_nat j) = true -> In j (mkeys m)) ->
  (forall j, N.testbit junk (N.of_nat j) = true -> ~ In j (mvals m)) ->
  reverse_map_bits m (N.lor (forward_map_bits m b) junk) = b.
Proof.
  intros Hk Hv Hb Hj. apply testbit_ext_nat. intros j.
  rewrite reverse_testbit by auto.
  destruct (N.testbit b (N.of_nat j)) eqn:Eb.
  - apply existsb_exists. apply Hb in Eb as Hin. apply in_map_iff in Hin as [[k v] [E Hin]]. simpl in E; subst k.
    exists (j, v). split; auto. simpl. rewrite Nat.eqb_refl, andb_true_r.
    rewrite N.lor_spec, forward_testbit by auto. apply orb_true_iff; left.
    apply existsb_exists. exists (j, v); split; auto. simpl. rewrite Eb, Nat.eqb_refl. reflexivity.
  - apply not_true_is_false. intros Ht. apply existsb_exists in Ht as [[k v] [Hin H]].
    apply andb_true_iff in H as [H1 H2]. apply Nat.eqb_eq in H2. simpl in *. subst k.
    rewrite N.lor_spec in H1. apply orb_true_iff in H1 as [H1|H1].
    + rewrite forward_testbit in H1 by auto. apply existsb_exists in H1 as [[k2 v2] [Hin2 H3]].
      apply andb_true_iff in H3 as [H3 H4]. apply Nat.eqb_eq in H4. simpl in *. subst v2.
      (* same value v => same key, by injectivity *)
      assert (k2 = j).
      { clear -Hv Hin Hin2. induction m as [|[a c] m IH]; simpl in *; [tauto|].
        inversion Hv as [|? ? Hnot Hv']; subst.
        destruct Hin as [E|Hin], Hin2 as [E2|Hin2].
        - inversion E; inversion E2; subst; auto.
        - inversion E; subst. exfalso. apply Hnot. change v with (snd (k2, v)). apply in_map, Hin2.
        - inversion E2; subst. exfalso. apply Hnot. change v with (snd (j, v)). apply in_map, Hin.
        - apply IH; auto. }
      subst k2. congruence.
    + apply (Hj v H1). change v with (snd (j, v)). apply in_map, Hin.
Qed.

(* ------------------------------------------------------------------ counts *)
Definition counts := list (N * Z).
Fixpoint cadd (d : counts) (k : N) (c : Z) : counts :=
  match d with
  | [] => [(k, c)]
  | (k', c') :: d' => if N.eqb k k' then (k', (c' + c)%Z) :: d' else (k', c') :: cadd d' k c
  end.
(* _reverse_map_counts *)
Definition reverse_map_counts (m : qmap) (cs : counts) : counts :=
  fold_left (fun d bc => cadd d (reverse_map_bits m (fst bc)) (snd bc)) cs [].
Definition total (d : counts) : Z := fold_right (fun bc a => (snd bc + a)%Z) 0%Z d.
Fixpoint cget (d : counts) (k : N) : Z :=
  match d with [] => 0%Z | (k', c) :: d' => if N.eqb k k' then c else cget d' k end.

Lemma total_cadd d k c : total (cadd d k c) = (total d + c)%Z.
Proof. induction d as [|[k' c'] d IH]; simpl; [lia|]. destruct (N.eqb k k'); simpl; lia. Qed.

Lemma cget_cadd d k c k0 : cget (cadd d k c) k0 = (cget d k0 + (if N.eqb k0 k then c else 0))%Z.
Proof.
  induction d as [|[k' c'] d IH]; simpl.
  - destruct (N.eqb k0 k); lia.
  - destruct (N.eqb_spec k k') as [->|Hne]; simpl.
    + destruct (N.eqb k0 k'); lia.
    + destruct (N.eqb_spec k0 k') as [->|Hne2].
      * replace (N.eqb k' k) with false by (symmetry; apply N.eqb_neq; auto). lia.
      * apply IH.
Qed.

Lemma fold_total m cs : forall d,
  total (fold_left (fun d bc => cadd d (reverse_map_bits m (fst bc)) (snd bc)) cs d) = (total d + total cs)%Z.
Proof. induction cs as [|bc cs IH]; intros d; simpl; [lia|]. rewrite IH, total_cadd. lia. Qed.

(* total counts are conserved *)
Theorem unmap_counts_total m cs : total (reverse_map_counts m cs) = total cs.
Proof. unfold reverse_map_counts. rewrite fold_total. simpl. lia. Qed.

Lemma fold_cget m cs k0 : forall d,
  cget (fold_left (fun d bc => cadd d (reverse_map_bits m (fst bc)) (snd bc)) cs d) k0
  = (cget d k0 + fold_right (fun bc a => ((if N.eqb k0 (reverse_map_bits m (fst bc)) then snd bc else 0) + a)%Z) 0%Z cs)%Z.
Proof. induction cs as [|bc cs IH]; intros d; simpl; [lia|]. rewrite IH, cget_cadd. lia. Qed.

(* the un-mapped count of an outcome is the sum of the backend counts of all its pre-images *)
Theorem unmap_counts_distribution m cs k0 :
  cget (reverse_map_counts m cs) k0
  = fold_right (fun bc a => ((if N.eqb k0 (reverse_map_bits m (fst bc)) then snd bc else 0) + a)%Z) 0%Z cs.
Proof. unfold reverse_map_counts. rewrite fold_cget. simpl. lia. Qed.

(* ------------------------------------------------------------------ relabelling of circuits *)
Local Open Scope C_scope.
Lemma bset_relabel (pi : nat -> nat) (b : Basis) q v :
  (forall a c, pi a = pi c -> a = c) ->
  (fun n => bset b (pi q) v (pi n)) = bset (fun n => b (pi n)) q v.
Proof. intros Hinj. apply functional_extensionality; intros n. unfold bset.
  destruct (Nat.eqb_spec n q) as [->|Hne]; [rewrite Nat.eqb_refl; reflexivity|].
  destruct (Nat.eqb_spec (pi n) (pi q)) as [E|_]; [apply Hinj in E; contradiction | reflexivity]. Qed.

Lemma asum_relabel (pi : nat -> nat) : (forall a c, pi a = pi c -> a = c) ->
  forall qs (G : Basis -> C) b,
  asum (map pi qs) (fun c' => G (fun n => c' (pi n))) b = asum qs G (fun n => b (pi n)).
Proof.
  intros Hinj qs. induction qs as [|q qs IH]; intros G b; simpl; [reflexivity|].
  rewrite !IH. rewrite !(bset_relabel pi b q _ Hinj). reflexivity.
Qed.

(* QubitRemappingTranspiler: the remapped gate acts on the relabelled register exactly as the
   original gate acts on the original register (and touches nothing else) *)
Theorem remap_gate_sem (pi : nat -> nat) (M : CM) qs psi b' :
  (forall a c, pi a = pi c -> a = c) ->
  apply M (map pi qs) (fun c' => psi (fun n => c' (pi n))) b' = apply M qs psi (fun n => b' (pi n)).
Proof.
  intros Hinj. unfold apply.
  rewrite <- (asum_relabel pi Hinj qs (fun c => M (rd (fun n => b' (pi n)) qs) (rd c qs) * psi c) b').
  apply asum_ext. intros c'. unfold rd. rewrite !map_map. reflexivity.
Qed.

Theorem remap_circuit_sem (pi : nat -> nat) (gs : list lgate) :
  (forall a c, pi a = pi c -> a = c) ->
  forall psi b',
  csem (map (fun g => (fst g, map pi (snd g))) gs) (fun c' => psi (fun n => c' (pi n))) b'
  = csem gs psi (fun n => b' (pi n)).
Proof.
  intros Hinj. induction gs as [|g gs IH]; intros psi b'; [reflexivity|].
  simpl map. unfold csem in *. simpl fold_left.
  replace (lsem (fst g, map pi (snd g)) (fun c' => psi (fun n => c' (pi n))))
    with (fun c' => lsem g psi (fun n => c' (pi n))).
  - apply IH.
  - apply functional_extensionality; intros c'. symmetry. unfold lsem; simpl. apply remap_gate_sem; auto.
Qed.
