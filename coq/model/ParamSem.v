(* Parametric transpilers on abstract gate lists (model/Parametric.v) and their action after binding:
   - rewriting transpilers given by per-kind templates regenerated from the source
     (ParametricRX2RZHTranspiler, ParametricRY2RZHTranspiler),
   - the ParametricTranspiler wrapper of any circuit transpiler (segment-wise),
   - sequential composition.
   Fixed gates are symbolic gates with constant angles (lib/Gates.v); bound angles are reals. *)
From Coq Require Import List Arith Bool Reals ZArith Lia Lra.
From QP Require Import Cx Asum FMat Apply Gates Rsem.
From QPM Require Import Transpile Parametric.
Import ListNotations.

Definition pk_of (k : gkind) : option pkind :=
  match k with KRX => Some PRX | KRY => Some PRY | KRZ => Some PRZ | _ => None end.
Definition gk_of (k : pkind) : option gkind :=
  match k with PRX => Some KRX | PRY => Some KRY | PRZ => Some KRZ | PPR _ => None end.
Definition ang_is_var0 (a : ang) : bool :=
  Z.eqb (api4 a) 0 && match ath a with [c] => Z.eqb c 1 | _ => false end.
Definition ang_const (a : ang) : bool := match ath a with [] => true | _ => false end.
Definition is_par (g : gate) : bool := match gas g with [a] => ang_is_var0 a | _ => false end.
Definition relabel (pi : nat -> nat) (g : gate) : gate := mkG (gk g) (map pi (gqs g)) (gas g).
Definition find_pt (ts : list template) (k : gkind) : option template :=
  find (fun t => existsb (gkind_eqb k) (t_targets t)) ts.

(* a template usable for a parametric rewrite: sound as a gate template, the parametric angle occurs
   only as the single angle of rotation gates, every other angle is a constant *)
Definition ptmpl_ok (t : template) : bool :=
  tmpl_ok t &&
  forallb (fun g => if is_par g then match pk_of (gk g) with Some _ => true | None => false end
                    else forallb ang_const (gas g)) (t_body t).

Section Rw.
Variable K : Type.
Notation rgate := (rgate gate K).

Definition rw_item (qs : list nat) (f : afun K) (g : gate) : rgate :=
  if is_par g then
    match pk_of (gk g) with
    | Some k => @RRot gate K k (map (pi_of qs) (gqs g)) f
    | None => @RFixed gate K (relabel (pi_of qs) g)
    end
  else @RFixed gate K (relabel (pi_of qs) g).

Definition rw (ts : list template) (g : rgate) : list rgate :=
  match g with
  | RFixed _ => [g]
  | RRot k qs f =>
      match gk_of k with
      | Some gk0 => match find_pt ts gk0 with Some t => map (rw_item qs f) (t_body t) | None => [g] end
      | None => [g]
      end
  end.
Definition tr_rw (ts : list template) (items : list rgate) : list rgate := flat_map (rw ts) items.

Lemma tr_rw_closed ts ps items : closed gate K ps items -> closed gate K ps (tr_rw ts items).
Proof.
  intros H k qs f Hin p Hp. unfold tr_rw in Hin. apply in_flat_map in Hin. destruct Hin as [it [Hit Hin]].
  destruct it as [g|k0 qs0 f0]; simpl in Hin.
  - destruct Hin as [E|[]]. discriminate.
  - assert (Hsame : f = f0).
    { destruct (gk_of k0) as [gk0|]; [destruct (find_pt ts gk0) as [t|]|].
      - apply in_map_iff in Hin. destruct Hin as [g [E _]]. unfold rw_item in E.
        destruct (is_par g); [destruct (pk_of (gk g))|]; try discriminate. congruence.
      - destruct Hin as [E|[]]. congruence.
      - destruct Hin as [E|[]]. congruence. }
    subst f0. exact (H k0 qs0 f Hit p Hp).
Qed.

(* ParametricTranspiler: maximal runs of non-parametric gates are transpiled by tau, parametric gates
   are copied; an empty run is not transpiled *)
Variable tau : list gate -> list gate.
Definition flush (acc : list gate) : list gate := match acc with [] => [] | _ => tau acc end.
Fixpoint pt_go (acc : list gate) (items : list rgate) : list rgate :=
  match items with
  | [] => map (@RFixed gate K) (flush acc)
  | RFixed g :: r => pt_go (acc ++ [g]) r
  | RRot k qs f :: r => map (@RFixed gate K) (flush acc) ++ @RRot gate K k qs f :: pt_go [] r
  end.
Definition tr_pt (items : list rgate) : list rgate := pt_go [] items.

Lemma pt_go_closed ps items : closed gate K ps items -> forall acc, closed gate K ps (pt_go acc items).
Proof.
  induction items as [|it items IH]; intros H acc k qs f Hin p Hp; simpl in Hin.
  - apply in_map_iff in Hin. destruct Hin as [g [E _]]. discriminate.
  - destruct it as [g|k0 qs0 f0].
    + apply (IH (fun k qs f Hi => H k qs f (or_intror Hi)) (acc ++ [g]) k qs f Hin p Hp).
    + apply in_app_or in Hin. destruct Hin as [Hin|[E|Hin]].
      * apply in_map_iff in Hin. destruct Hin as [g [E _]]. discriminate.
      * injection E as <- <- <-. exact (H k0 qs0 f0 (or_introl eq_refl) p Hp).
      * apply (IH (fun k qs f Hi => H k qs f (or_intror Hi)) [] k qs f Hin p Hp).
Qed.
End Rw.

(* ------------------------------------------------------------------ action after binding *)
Section Sem.
Local Open Scope R_scope.
Variable ppr_sem : list nat -> list nat -> R -> lgate.   (* the documented action of PauliRotation *)

Definition fixed_sem (g : gate) : lgate := rsem (inst (fun _ => 0) (fun q => q) g).
Definition bg_sem (b : bgate gate R) : lgate :=
  match b with
  | BFixed g => fixed_sem g
  | BRot PRX qs a => rsem (mkC KRX qs [a])
  | BRot PRY qs a => rsem (mkC KRY qs [a])
  | BRot PRZ qs a => rsem (mkC KRZ qs [a])
  | BRot (PPR ids) qs a => ppr_sem ids qs a
  end.
Notation bindg env := (bind_gate gate R Rplus Rmult 0 1 env).
Definition bsem (env : pid -> R) (items : list (rgate gate R)) : Op :=
  csem (map bg_sem (map (bindg env) items)).

(* single-qubit parametric rotations act on one qubit *)
Definition item_wf (g : rgate gate R) : Prop :=
  match g with
  | RFixed _ => True
  | RRot (PPR _) _ _ => True
  | RRot _ qs _ => length qs = 1%nat
  end.

Lemma ang_eval_const th th' a : ang_const a = true -> ang_eval th a = ang_eval th' a.
Proof. unfold ang_const, ang_eval. destruct (ath a); [reflexivity|discriminate]. Qed.

Lemma ang_is_var0_eval th a : ang_is_var0 a = true -> ang_eval th a = th 0%nat.
Proof.
  unfold ang_is_var0, ang_eval. intros H. apply andb_true_iff in H as [H1 H2]. apply Z.eqb_eq in H1. rewrite H1.
  destruct (ath a) as [|c [|c' l]]; try discriminate. apply Z.eqb_eq in H2. subst c. simpl. lra.
Qed.

Lemma map_id_list {A} (l : list A) : map (fun q => q) l = l.
Proof. induction l; simpl; congruence. Qed.

(* the bound emission of one template gate is the instantiated template gate *)
Lemma rw_item_bound env qs f g th :
  (if is_par g then match pk_of (gk g) with Some _ => true | None => false end else forallb ang_const (gas g)) = true ->
  th 0%nat = eval R Rplus Rmult 0 1 env f ->
  bg_sem (bindg env (rw_item R qs f g)) = rsem (inst th (pi_of qs) g).
Proof.
  unfold rw_item. intros H Hth. destruct (is_par g) eqn:Ep.
  - destruct (pk_of (gk g)) as [k|] eqn:Ek; [|discriminate].
    unfold is_par in Ep. destruct (gas g) as [|a [|a' l]] eqn:Eg; try discriminate.
    unfold inst. rewrite Eg. cbn [map]. rewrite (ang_is_var0_eval _ a Ep), Hth.
    destruct (gk g); try discriminate; injection Ek as <-; reflexivity.
  - cbn [bind_gate bg_sem]. unfold fixed_sem, inst, relabel. cbn [gk gqs gas]. rewrite map_id_list. f_equal. f_equal.
    apply map_ext_in. intros a Ha. rewrite forallb_forall in H. apply ang_eval_const. apply H. exact Ha.
Qed.

Lemma find_pt_some ts k t : find_pt ts k = Some t -> In t ts /\ existsb (gkind_eqb k) (t_targets t) = true.
Proof. unfold find_pt. intros H. apply find_some in H. exact H. Qed.

Lemma rw_sound_item ts env it : forallb ptmpl_ok ts = true -> item_wf it ->
  csem (map bg_sem (map (bindg env) (rw R ts it))) ≃ csem [bg_sem (bindg env it)].
Proof.
  intros Hts Hwf. destruct it as [g|k qs f]; [apply opequiv_refl|]. cbn [rw].
  destruct (gk_of k) as [gk0|] eqn:Ek; [|apply opequiv_refl].
  destruct (find_pt ts gk0) as [t|] eqn:Ef; [|apply opequiv_refl].
  apply find_pt_some in Ef as [Hin Ht]. rewrite forallb_forall in Hts. specialize (Hts t Hin).
  unfold ptmpl_ok in Hts. apply andb_true_iff in Hts as [Hok Hshape]. rewrite forallb_forall in Hshape.
  set (a := eval R Rplus Rmult 0 1 env f).
  set (c := mkC gk0 qs [a]).
  assert (Hc : cgate_ok c).
  { unfold cgate_ok, c. cbn [ck cqs cps]. destruct k; try discriminate; injection Ek as <-; cbn in Hwf;
      destruct qs as [|q [|q' l]]; try discriminate;
      (split; [reflexivity|split; [constructor; [intros []|constructor]|reflexivity]]). }
  assert (Hb : map bg_sem (map (bindg env) (map (rw_item R qs f) (t_body t))) = map rsem (decompose t c)).
  { unfold decompose. rewrite !map_map. apply map_ext_in. intros g Hg.
    apply (rw_item_bound env qs f g (theta_of c) (Hshape g Hg)). reflexivity. }
  rewrite Hb.
  assert (Hl : csem [bg_sem (bindg env (@RRot gate R k qs f))] ≃ lsem (rsem c)).
  { cbn [bind_gate bg_sem]. fold a. destruct k; try discriminate; injection Ek as <-; apply opequiv_refl. }
  eapply opequiv_trans; [|apply opequiv_sym; exact Hl].
  apply decompose_sound; auto.
Qed.

Lemma map_flat_rw ts env items :
  map bg_sem (map (bindg env) (flat_map (rw R ts) items))
  = flat_map (fun it => map bg_sem (map (bindg env) (rw R ts it))) items.
Proof. induction items as [|it items IH]; [reflexivity|]. cbn [flat_map]. rewrite !map_app, IH. reflexivity. Qed.
Lemma map_flat_single env items :
  map bg_sem (map (bindg env) items) = flat_map (fun it => [bg_sem (bindg env it)]) items.
Proof. induction items as [|it items IH]; [reflexivity|]. cbn [flat_map map app]. rewrite IH. reflexivity. Qed.

(* ParametricRX2RZH / ParametricRY2RZH style rewrites: bound action preserved, any length, any values *)
Theorem tr_rw_sound ts env items : forallb ptmpl_ok ts = true -> Forall item_wf items ->
  bsem env (tr_rw R ts items) ≃ bsem env items.
Proof.
  intros Hts. unfold bsem, tr_rw.
  pose proof (map_flat_rw ts env items) as E1. pose proof (map_flat_single env items) as E2.
  intros Hwf. rewrite E1, E2. apply csem_flat_map_equiv. intros it Hit. rewrite Forall_forall in Hwf.
  apply rw_sound_item; auto.
Qed.

(* the wrapper of any circuit transpiler that preserves the action of every gate list *)
Section PT.
Variable tau : list gate -> list gate.
Hypothesis tau_sound : forall seg, csem (map fixed_sem (tau seg)) ≃ csem (map fixed_sem seg).

Lemma flush_sound acc : csem (map fixed_sem (flush tau acc)) ≃ csem (map fixed_sem acc).
Proof. destruct acc as [|g acc]; [apply opequiv_refl|apply tau_sound]. Qed.

Lemma pt_go_sound env items : forall acc,
  csem (map bg_sem (map (bindg env) (pt_go R tau acc items)))
  ≃ csem (map fixed_sem acc ++ map bg_sem (map (bindg env) items)).
Proof.
  induction items as [|it items IH]; intros acc; cbn [pt_go].
  - rewrite !map_map. cbn [bind_gate bg_sem map]. rewrite app_nil_r.
    change (map (fun x => fixed_sem x) (flush tau acc)) with (map fixed_sem (flush tau acc)). apply flush_sound.
  - destruct it as [g|k qs f].
    + eapply opequiv_trans; [apply IH|]. rewrite map_app. cbn [map bind_gate bg_sem]. rewrite <- app_assoc.
      apply opequiv_refl.
    + rewrite !map_app. cbn [map]. apply csem_app_equiv.
      * rewrite !map_map. cbn [bind_gate bg_sem].
        change (map (fun x => fixed_sem x) (flush tau acc)) with (map fixed_sem (flush tau acc)). apply flush_sound.
      * change (bg_sem (bindg env (RRot k qs f)) :: map bg_sem (map (bindg env) (pt_go R tau [] items)))
          with ([bg_sem (bindg env (RRot k qs f))] ++ map bg_sem (map (bindg env) (pt_go R tau [] items))).
        change (bg_sem (bindg env (RRot k qs f)) :: map bg_sem (map (bindg env) items))
          with ([bg_sem (bindg env (RRot k qs f))] ++ map bg_sem (map (bindg env) items)).
        apply csem_app_equiv; [apply opequiv_refl|]. exact (IH []).
Qed.

Theorem tr_pt_sound env items : bsem env (tr_pt R tau items) ≃ bsem env items.
Proof. unfold bsem, tr_pt. exact (pt_go_sound env items []). Qed.
End PT.

(* ParametricSequentialTranspiler *)
Theorem tr_seq_sound (t1 t2 : list (rgate gate R) -> list (rgate gate R)) env items :
  (forall l, bsem env (t1 l) ≃ bsem env l) -> (forall l, bsem env (t2 l) ≃ bsem env l) ->
  bsem env (t2 (t1 items)) ≃ bsem env items.
Proof. intros H1 H2. eapply opequiv_trans; [apply H2|apply H1]. Qed.

End Sem.
