(* Native transpilers of the Quantinuum and IonQ packages that are not plain templates.
   - U1qNormalizeWithRZTranspiler.decompose: an if/elif chain on theta; every branch is a template that must implement
     U1q(theta, phi) under the branch condition (theta = K exactly for a snapped branch).
   - CNOTRZ2RZZTranspiler.__call__: a sliding three-gate window [CNOT(c,t); RZ(t,th); CNOT(c,t)] -> RZZ(c,t,th).
   - IonQNativeTranspiler.__call__: virtual-Z bookkeeping (see the second half of this file).
   The branch bodies, the window and the IonQ rows are DATA regenerated from /repo by translate/native.py. *)
From Coq Require Import String ZArith List Bool Arith Lia Reals Lra.
From QP Require Import Cx Zw Asum FMat Lpoly Apply Local Gates Rsem.
From QPM Require Import Transpile.
Import ListNotations.

(* ------------------------------------------------------------------ U1q normalisation *)
Record u1q_branch := mkU1qBranch { ub_name : string; ub_snap : option Z; ub_body : list gate }.

(* theta (formal angle 0) := k * pi/4 *)
Definition ang_subst0 (k : Z) (a : ang) : ang :=
  match ath a with
  | [] => a
  | c :: cs => mkAng (api4 a + k * c) (0%Z :: cs)
  end.
Definition gate_subst0 (k : Z) (g : gate) : gate := mkG (gk g) (gqs g) (map (ang_subst0 k) (gas g)).

(* the gate a branch has to implement: U1q(sgn * theta, phi), theta := K in a snapped branch *)
Definition ub_target (sgn : Z) (b : u1q_branch) : gate :=
  match ub_snap b with
  | Some k => mkG KU1q [0%nat] [ang_pi4 (sgn * k); ang_var 1]
  | None => mkG KU1q [0%nat] [mkAng 0 [sgn]; ang_var 1]
  end.
Definition ub_inst (b : u1q_branch) : list gate :=
  match ub_snap b with Some k => map (gate_subst0 k) (ub_body b) | None => ub_body b end.
Definition ub_check (sgn : Z) (b : u1q_branch) : bool :=
  tmpl_check [0%nat] (ub_inst b) (ub_target sgn b) && forallb gate_ok (ub_inst b) && gate_ok (ub_target sgn b).

Lemma ang_subst0_eval theta k a : theta 0%nat = (IZR k * (PI / 4))%R ->
  ang_eval theta (ang_subst0 k a) = ang_eval theta a.
Proof.
  intros H. unfold ang_subst0, ang_eval. destruct a as [p cs]. cbn [ath api4].
  destruct cs as [|c cs]; [reflexivity|]. cbn [ath api4 angsum]. rewrite H, plus_IZR, mult_IZR. ring.
Qed.

Lemma inst_subst0 theta pi k g : theta 0%nat = (IZR k * (PI / 4))%R ->
  inst theta pi (gate_subst0 k g) = inst theta pi g.
Proof.
  intros H. unfold inst, gate_subst0. cbn [gk gqs gas]. f_equal. rewrite map_map.
  apply map_ext. intros a. apply ang_subst0_eval, H.
Qed.

(* a branch accepted by the exact check implements U1q(theta, phi) for every phi, every placement and every theta that
   meets the branch condition *)
Theorem u1q_branch_sound b : ub_check 1 b = true ->
  forall theta pi, (forall x y : nat, pi x = pi y -> x = y) ->
  match ub_snap b with Some k => theta 0%nat = (IZR k * (PI / 4))%R | None => True end ->
  csem (map (fun g => rsem (inst theta pi g)) (ub_body b)) ≃ lsem (rsem (inst theta pi (canon KU1q))).
Proof.
  unfold ub_check. intros H theta pi Hpi Hc.
  apply andb_true_iff in H as [H H3]. apply andb_true_iff in H as [H1 H2].
  pose proof (tmpl_sound theta pi Hpi [0%nat] _ _ H1 H2 H3) as T.
  unfold ub_inst, ub_target in *. destruct (ub_snap b) as [k|].
  - rewrite map_map in T.
    rewrite (map_ext _ (fun g => rsem (inst theta pi g))) in T by (intros g; rewrite inst_subst0; auto).
    replace (inst theta pi (canon KU1q)) with (inst theta pi (mkG KU1q [0%nat] [ang_pi4 (1 * k); ang_var 1])); [exact T|].
    unfold inst, canon. cbn. f_equal. f_equal. rewrite !ang_eval_var.
    unfold ang_eval, ang_pi4. cbn. rewrite Hc. destruct k; cbn; try ring.
  - replace (inst theta pi (canon KU1q)) with (inst theta pi (mkG KU1q [0%nat] [mkAng 0 [1%Z]; ang_var 1])); [exact T|].
    reflexivity.
Qed.

(* the same with the sign of theta flipped: what a branch implements when [ub_check (-1)] holds *)
Theorem u1q_branch_flipped b : ub_snap b = None -> ub_check (-1) b = true ->
  forall theta pi, (forall x y : nat, pi x = pi y -> x = y) ->
  csem (map (fun g => rsem (inst theta pi g)) (ub_body b))
  ≃ lsem (rsem (mkC KU1q [pi 0%nat] [(- theta 0%nat)%R; theta 1%nat])).
Proof.
  unfold ub_check. intros Hs H theta pi Hpi.
  apply andb_true_iff in H as [H H3]. apply andb_true_iff in H as [H1 H2].
  pose proof (tmpl_sound theta pi Hpi [0%nat] _ _ H1 H2 H3) as T.
  unfold ub_inst, ub_target in *. rewrite Hs in *.
  replace (mkC KU1q [pi 0%nat] [(- theta 0%nat)%R; theta 1%nat])
    with (inst theta pi (mkG KU1q [0%nat] [mkAng 0 [(-1)%Z]; ang_var 1])); [exact T|].
  unfold inst. cbn. f_equal. f_equal; [|rewrite ang_eval_var; reflexivity].
  unfold ang_eval. cbn. ring.
Qed.

Local Open Scope C_scope.
Lemma lsem_1q M q psi b :
  lsem (M, [q]) psi b = M [b q] [false] * psi (bset b q false) + M [b q] [true] * psi (bset b q true).
Proof. unfold lsem, apply. cbn [fst snd asum rd map]. rewrite !bset_eq. reflexivity. Qed.

(* U1q(-theta, phi) is not U1q(theta, phi), not even up to a global phase, unless sin theta = 0 *)
Theorem u1q_flip_not_equiv q t p : sin t <> 0%R ->
  ~ (lsem (rsem (mkC KU1q [q] [(- t)%R; p])) ≃ lsem (rsem (mkC KU1q [q] [t; p]))).
Proof.
  intros Hs [c [Hc H]].
  set (psi0 := fun b : Basis => if b q then C0 else C1).
  set (b0 := fun _ : nat => false).
  set (b1 := fun i : nat => Nat.eqb i q).
  pose proof (H psi0 b0) as H0. pose proof (H psi0 b1) as H1. clear H.
  unfold rsem in H0, H1. cbn [ck cps cqs rmat] in H0, H1.
  rewrite !lsem_1q in H0, H1.
  unfold psi0, b0, b1 in H0, H1. rewrite !bset_eq, ?Nat.eqb_refl in H0, H1. unfold m2C in H0, H1. rewrite ?Nat.eqb_refl in H1.
  replace (- t / 2)%R with (- (t / 2))%R in H0, H1 by lra.
  rewrite cos_neg, sin_neg in H0, H1.
  set (cc := cos (t / 2)) in *. set (ss := sin (t / 2)) in *.
  assert (Hst : sin t = (2 * ss * cc)%R).
  { replace t with (2 * (t / 2))%R at 1 by lra. rewrite sin_2a. unfold ss, cc. ring. }
  assert (Hcc : cc <> 0%R) by (intros E; apply Hs; rewrite Hst, E; ring).
  assert (Hss : ss <> 0%R) by (intros E; apply Hs; rewrite Hst, E; ring).
  (* diagonal entry: cc = c * cc, off-diagonal entry: -i e^{ip} (-ss) = c * (-i e^{ip} ss) *)
  assert (E0 : RtoC cc = c * RtoC cc).
  { match type of H0 with ?L = _ => transitivity L; [ring|] end. rewrite H0. ring. }
  assert (E1 : - Ci * Cexp p * RtoC (- ss) = c * (- Ci * Cexp p * RtoC ss)).
  { match type of H1 with ?L = _ => transitivity L; [ring|] end. rewrite H1. ring. }
  clear H0 H1. destruct c as [cr ci].
  unfold RtoC, Cmul in E0. cbn in E0. injection E0 as E0r E0i.
  assert (Hcr : cr = 1%R) by nra. assert (Hci : ci = 0%R) by nra. subst cr ci.
  pose proof (Cexp_norm p) as Hn. unfold Cnorm2, Cexp in Hn. cbn in Hn.
  unfold Ci, Copp, Cmul, Cexp, RtoC in E1. cbn in E1. injection E1 as E1r E1i.
  assert (Hsp : (sin p * ss = 0)%R) by nra. assert (Hcp : (cos p * ss = 0)%R) by nra.
  assert (Hz : (ss * ss = 0)%R) by nra. nra.
Qed.
Local Close Scope C_scope.

(* ------------------------------------------------------------------ CNOTRZ2RZZTranspiler *)
(* gates with parameters of any type: the pass only moves parameters around *)
Record pg (P : Type) := mkPG { pgk : gkind; pgq : list nat; pgp : list P }.
Arguments mkPG {P}. Arguments pgk {P}. Arguments pgq {P}. Arguments pgp {P}.

Section RzzPass.
Context {P : Type}.
Definition window_match (a b c : pg P) : option (pg P) :=
  match pgk a, pgk b, pgk c, pgq a, pgq b, pgq c with
  | KCNOT, KRZ, KCNOT, [ca; ta], [tb], [cc; tc] =>
      if Nat.eqb ca cc && Nat.eqb ta tb && Nat.eqb tb tc then Some (mkPG KRZZ [ca; ta] (pgp b)) else None
  | _, _, _, _, _, _ => None
  end.

Fixpoint rzz_pass (xs : list (pg P)) : list (pg P) :=
  match xs with
  | [] => []
  | a :: xs' =>
      match xs' with
      | b :: c :: rest =>
          match window_match a b c with
          | Some g => g :: rzz_pass rest
          | None => a :: rzz_pass xs'
          end
      | _ => xs
      end
  end.
End RzzPass.

Definition to_c (g : pg R) : cgate := mkC (pgk g) (pgq g) (pgp g).

Definition rzz_window_ok (window body : list gate) : bool :=
  match body with
  | [t] => tmpl_check [0%nat; 1%nat] window t && forallb gate_ok window && gate_ok t
  | _ => false
  end.

Section RzzSound.
Variables (window body : list gate).
Hypothesis Hdata : window = [mkG KCNOT [0; 1]%nat []; mkG KRZ [1%nat] [ang_var 0]; mkG KCNOT [0; 1]%nat []]
                   /\ body = [mkG KRZZ [0; 1]%nat [ang_var 0]].
Hypothesis Hok : rzz_window_ok window body = true.

Lemma window_sound a b c g : cgate_ok (to_c a) -> cgate_ok (to_c b) -> cgate_ok (to_c c) ->
  window_match a b c = Some g ->
  lsem (rsem (to_c g)) ≃ csem [rsem (to_c a); rsem (to_c b); rsem (to_c c)].
Proof.
  intros Ha Hb Hc Hm. destruct Hdata as [Hw Hbd]. unfold rzz_window_ok in Hok. rewrite Hbd in Hok.
  apply andb_true_iff in Hok as [H H3]. apply andb_true_iff in H as [H1 H2].
  unfold window_match in Hm.
  destruct a as [ka qa pa], b as [kb qb pb], c as [kc qc pc]. cbn [pgk pgq pgp] in Hm.
  destruct ka; try discriminate. destruct kb; try discriminate. destruct kc; try discriminate.
  destruct qa as [|ca [|ta [|? ?]]]; try discriminate.
  destruct qb as [|tb [|? ?]]; try discriminate.
  destruct qc as [|cc [|tc [|? ?]]]; try discriminate.
  destruct (Nat.eqb ca cc && Nat.eqb ta tb && Nat.eqb tb tc) eqn:E; [|discriminate].
  apply andb_true_iff in E as [E E3]. apply andb_true_iff in E as [E1 E2].
  apply Nat.eqb_eq in E1, E2, E3. subst cc tb tc. injection Hm as <-.
  destruct Ha as [_ [Hnd Hpa]]. destruct Hb as [_ [_ Hpb]]. destruct Hc as [_ [_ Hpc]]. cbn in Hnd, Hpa, Hpb, Hpc.
  destruct pa; [|discriminate]. destruct pc; [|discriminate]. destruct pb as [|th [|? ?]]; try discriminate.
  apply opequiv_sym.
  pose proof (tmpl_sound (fun _ => th) (pi_of [ca; ta]) (pi_of_inj _ Hnd) [0; 1]%nat window _ H1 H2 H3) as T.
  rewrite Hw in T. cbn [map] in T. unfold inst in T. cbn [gk gqs gas map] in T.
  rewrite !ang_eval_var in T. unfold pi_of in T. cbn in T. unfold to_c. cbn [pgk pgq pgp]. exact T.
Qed.

Theorem rzz_pass_sound : forall n xs, length xs <= n -> Forall (fun g => cgate_ok (to_c g)) xs ->
  csem (map (fun g => rsem (to_c g)) (rzz_pass xs)) ≃ csem (map (fun g => rsem (to_c g)) xs).
Proof.
  induction n as [|n IH]; intros xs Hl Hc.
  - destruct xs; [apply opequiv_refl|cbn in Hl; lia].
  - destruct xs as [|a xs']; [apply opequiv_refl|]. cbn [rzz_pass].
    destruct xs' as [|b [|c rest]]; try apply opequiv_refl.
    inversion Hc as [|? ? Ha Hc']; subst. inversion Hc' as [|? ? Hb Hc'']; subst. inversion Hc'' as [|? ? Hcc Hr]; subst.
    cbn [length] in Hl.
    destruct (window_match a b c) as [g|] eqn:Em.
    + cbn [map].
      change (csem ([rsem (to_c g)] ++ map (fun g0 => rsem (to_c g0)) (rzz_pass rest))
              ≃ csem ([rsem (to_c a); rsem (to_c b); rsem (to_c c)] ++ map (fun g0 => rsem (to_c g0)) rest)).
      apply csem_app_equiv; [apply (window_sound a b c g); auto|apply IH; [lia|auto]].
    + cbn [map].
      change (csem ([rsem (to_c a)] ++ map (fun g0 => rsem (to_c g0)) (rzz_pass (b :: c :: rest)))
              ≃ csem ([rsem (to_c a)] ++ map (fun g0 => rsem (to_c g0)) (b :: c :: rest))).
      apply csem_app_equiv; [apply opequiv_refl|apply IH; [cbn [length]; lia|auto]].
Qed.
End RzzSound.

(* ------------------------------------------------------------------ IonQNativeTranspiler *)
(* One row per branch of the if/elif chain in the loop of IonQNativeTranspiler.__call__.  Formal angles of a row:
   0, 1 = the frame angles (2 pi * phase[target]) of the gate's targets, 2 = the gate's parameter.
   [ir_out = None]: the branch raises. *)
Record ionq_row := mkIonqRow { ir_kind : gkind; ir_snap : option Z; ir_out : option (list gate); ir_new : option (nat * ang) }.

Definition upd (f : nat -> R) (q : nat) (v : R) : nat -> R := fun r => if Nat.eqb r q then v else f r.
Definition cparam (c : cgate) : R := nth 0 (cps c) 0%R.
Definition env_of (ph : nat -> R) (c : cgate) : nat -> R :=
  fun i => match i with 0 => ph (nth 0 (cqs c) 0%nat) | 1 => ph (nth 1 (cqs c) 0%nat) | _ => cparam c end.

Definition cond_holds (r : ionq_row) (c : cgate) : bool :=
  gkind_eqb (ck c) (ir_kind r) &&
  match ir_snap r with
  | Some k => if Req_EM_T (cparam c) (IZR k * (PI / 4)) then true else false
  | None => true
  end.

Section Ionq.
Variable rows : list ionq_row.

Definition ionq_step (ph : nat -> R) (c : cgate) : option (list cgate * (nat -> R)) :=
  match find (fun r => cond_holds r c) rows with
  | None => None                                   (* no branch: the transpiler raises *)
  | Some r =>
      match ir_out r with
      | None => None
      | Some outs =>
          let env := env_of ph c in
          Some (map (inst env (pi_of (cqs c))) outs,
                match ir_new r with
                | Some (j, a) => upd ph (nth j (cqs c) 0%nat) (ang_eval env a)
                | None => ph
                end)
      end
  end.

Fixpoint ionq_pass (ph : nat -> R) (circ : list cgate) : option (list cgate * (nat -> R)) :=
  match circ with
  | [] => Some ([], ph)
  | c :: rest =>
      match ionq_step ph c with
      | None => None
      | Some (outs, ph1) =>
          match ionq_pass ph1 rest with
          | None => None
          | Some (outs', ph2) => Some (outs ++ outs', ph2)
          end
      end
  end.
End Ionq.

(* the exact obligation of a row: [frame; gate] = [outputs; updated frame] on the gate's qubits *)
Definition row_theta (r : ionq_row) : ang := match ir_snap r with Some k => ang_pi4 k | None => ang_var 2 end.
Definition row_gin (r : ionq_row) : gate :=
  mkG (ir_kind r) (seq 0 (arity (ir_kind r))) (match nparams (ir_kind r) with 0%nat => [] | _ => [row_theta r] end).
Definition row_new (r : ionq_row) (j : nat) : ang :=
  match ir_new r with Some (j', a) => if Nat.eqb j j' then a else ang_var j | None => ang_var j end.
Definition frame_pre (n : nat) : list gate := map (fun j => mkG KRZ [j] [ang_neg (ang_var j)]) (seq 0 n).
Definition frame_post (r : ionq_row) (n : nat) : list gate := map (fun j => mkG KRZ [j] [ang_neg (row_new r j)]) (seq 0 n).
Definition row_ok (r : ionq_row) : bool :=
  match ir_out r with
  | None => true
  | Some outs =>
      let n := arity (ir_kind r) in
      (Nat.leb n 2) && (Nat.leb (nparams (ir_kind r)) 1) &&
      match ir_new r with Some (j, _) => Nat.ltb j n | None => true end &&
      check_equiv2 (seq 0 n) (map eg (frame_pre n ++ [row_gin r])) (map eg (outs ++ frame_post r n)) &&
      forallb gate_ok (frame_pre n ++ [row_gin r]) && forallb gate_ok (outs ++ frame_post r n)
  end.

(* -- the frame as a diagonal operator *)
Local Open Scope C_scope.
Definition zph (a : R) (v : bool) : C := Cexp (if v then (- a / 2)%R else (a / 2)%R).
Fixpoint Fr (ph : nat -> R) (dom : list nat) (b : Basis) : C :=
  match dom with [] => C1 | q :: dom' => zph (ph q) (b q) * Fr ph dom' b end.
Definition floc (ph : nat -> R) (qs : list nat) : list lgate := map (fun q => rsem (mkC KRZ [q] [(- ph q)%R])) qs.

Lemma lsem_RZ_diag q a psi b : lsem (rsem (mkC KRZ [q] [(- a)%R])) psi b = zph a (b q) * psi b.
Proof.
  unfold rsem. cbn [ck cps cqs rmat]. rewrite lsem_1q. unfold m2C, zph.
  destruct (b q) eqn:E.
  - assert (Hb : bset b q true = b) by (rewrite <- E; apply bset_id). rewrite Hb. ring.
  - assert (Hb : bset b q false = b) by (rewrite <- E; apply bset_id). rewrite Hb.
    replace (- - a / 2)%R with (a / 2)%R by field. ring.
Qed.

Lemma csem_floc ph qs psi b : csem (floc ph qs) psi b = Fr ph qs b * psi b.
Proof.
  revert psi b. induction qs as [|q qs IH]; intros psi b; cbn [floc map Fr].
  - unfold csem. cbn. ring.
  - change (csem ([rsem (mkC KRZ [q] [(- ph q)%R])] ++ floc ph qs) psi b = zph (ph q) (b q) * Fr ph qs b * psi b).
    rewrite csem_app, IH. unfold csem at 1. cbn [fold_left]. rewrite lsem_RZ_diag. ring.
Qed.

Lemma zph_unit a v : Cunit (zph a v).
Proof. apply Cunit_exp. Qed.
Lemma Fr_unit ph dom b : Cunit (Fr ph dom b).
Proof. induction dom as [|q dom IH]; cbn [Fr]; [apply Cunit_1|apply Cunit_mul; [apply zph_unit|exact IH]]. Qed.

Lemma Fr_app ph d1 d2 b : Fr ph (d1 ++ d2) b = Fr ph d1 b * Fr ph d2 b.
Proof. induction d1 as [|q d1 IH]; cbn [app Fr]; [ring|rewrite IH; ring]. Qed.
Lemma Fr_perm ph d1 d2 b : Permutation.Permutation d1 d2 -> Fr ph d1 b = Fr ph d2 b.
Proof. induction 1; cbn [Fr]; try congruence; [ring]. Qed.
Lemma Fr_ext ph ph' dom b b' : (forall q, In q dom -> ph q = ph' q /\ b q = b' q) -> Fr ph dom b = Fr ph' dom b'.
Proof.
  induction dom as [|q dom IH]; intros H; cbn [Fr]; [reflexivity|].
  destruct (H q (or_introl eq_refl)) as [-> ->]. rewrite IH; [reflexivity|]. intros r Hr. apply H. right. exact Hr.
Qed.

(* a diagonal factor that does not depend on the bits of qs passes through every gate on qs *)
Lemma apply_diag_indep M qs (f : Basis -> C) psi b :
  (forall b', agree_off qs b b' -> f b' = f b) ->
  apply M qs (fun x => f x * psi x) b = f b * apply M qs psi b.
Proof.
  intros H. unfold apply. rewrite <- asum_scale. apply asum_ext_off. intros b' Hb'. rewrite (H b' Hb'). ring.
Qed.
Lemma csem_diag_indep gs (f : Basis -> C) :
  (forall g, In g gs -> forall b b', agree_off (snd g) b b' -> f b' = f b) ->
  forall psi b, csem gs (fun x => f x * psi x) b = f b * csem gs psi b.
Proof.
  induction gs as [|g gs IH]; intros H psi b; [reflexivity|].
  change (csem ([g] ++ gs) (fun x => f x * psi x) b = f b * csem ([g] ++ gs) psi b).
  rewrite !csem_app. unfold csem at 2 4. cbn [fold_left].
  replace (lsem g (fun x => f x * psi x)) with (fun x => f x * lsem g psi x).
  - apply IH. intros g' Hg'. apply H. right. exact Hg'.
  - apply FunctionalExtensionality.functional_extensionality. intros x. symmetry. unfold lsem.
    apply apply_diag_indep. intros b'. apply H. left. reflexivity.
Qed.
Local Close Scope C_scope.

(* -- evaluation of the row gates *)
Lemma angsum_opp theta : forall cs i, angsum theta i (map Z.opp cs) = (- angsum theta i cs)%R.
Proof. induction cs as [|c cs IH]; intros i; cbn [map angsum]; [ring|]. rewrite IH, opp_IZR. ring. Qed.
Lemma ang_eval_neg theta a : ang_eval theta (ang_neg a) = (- ang_eval theta a)%R.
Proof. unfold ang_eval, ang_neg. cbn [api4 ath]. rewrite angsum_opp, opp_IZR. ring. Qed.
Lemma ang_eval_pi4 theta k : ang_eval theta (ang_pi4 k) = (IZR k * (PI / 4))%R.
Proof. unfold ang_eval, ang_pi4. cbn. ring. Qed.

Section IonqSound.
Variable rows : list ionq_row.
Hypothesis Hrows : forallb row_ok rows = true.
Variable dom : list nat.
Hypothesis Hdom : NoDup dom.

Definition c_ok (c : cgate) : Prop := cgate_ok c /\ incl (cqs c) dom.

Lemma cond_kind r c : cond_holds r c = true -> ck c = ir_kind r.
Proof. unfold cond_holds. intros H. apply andb_true_iff in H as [H _]. apply gkind_eqb_eq, H. Qed.

Lemma cond_theta r c : cond_holds r c = true -> ang_eval (env_of (fun _ => 0%R) c) (row_theta r) = cparam c.
Proof.
  unfold cond_holds, row_theta. intros H. apply andb_true_iff in H as [_ H].
  destruct (ir_snap r) as [k|].
  - destruct (Req_EM_T (cparam c) (IZR k * (PI / 4))) as [E|]; [|discriminate]. rewrite ang_eval_pi4. symmetry. exact E.
  - rewrite ang_eval_var. reflexivity.
Qed.

Lemma row_theta_env ph ph' c r : ang_eval (env_of ph c) (row_theta r) = ang_eval (env_of ph' c) (row_theta r).
Proof. unfold row_theta. destruct (ir_snap r); [rewrite !ang_eval_pi4|rewrite !ang_eval_var]; reflexivity. Qed.

(* the local identity of a row, as operators on a register of any size *)
Lemma row_local ph c r os : cond_holds r c = true -> row_ok r = true -> ir_out r = Some os -> cgate_ok c ->
  let env := env_of ph c in
  let ph1 := match ir_new r with Some (j, a) => upd ph (nth j (cqs c) 0%nat) (ang_eval env a) | None => ph end in
  csem (floc ph (cqs c) ++ [rsem c]) ≃ csem (map rsem (map (inst env (pi_of (cqs c))) os) ++ floc ph1 (cqs c)).
Proof.
  intros Hcond Hok Hos [Har [Hnd Hnp]] env ph1.
  pose proof (cond_kind r c Hcond) as Hk. rewrite Hk in Har, Hnp.
  unfold row_ok in Hok. rewrite Hos in Hok.
  repeat (apply andb_true_iff in Hok as [Hok ?]).
  match goal with H : check_equiv2 _ _ _ = true |- _ => rename H into Hchk end.
  match goal with H : forallb gate_ok (frame_pre _ ++ _) = true |- _ => rename H into Hg1 end.
  match goal with H : forallb gate_ok (os ++ _) = true |- _ => rename H into Hg2 end.
  match goal with H : (nparams _ <=? 1)%nat = true |- _ => apply Nat.leb_le in H; rename H into Hnp1 end.
  match goal with H : match ir_new r with Some _ => _ | None => _ end = true |- _ => rename H into Hj end.
  apply Nat.leb_le in Hok. rename Hok into Hn2.
  pose proof (tmpl_sound2 env (pi_of (cqs c)) (pi_of_inj _ Hnd) _ _ _ Hchk Hg1 Hg2) as T.
  rewrite !map_app in T. rewrite <- (map_map (inst env (pi_of (cqs c))) rsem os) in T.
  (* the instantiated input gate is c *)
  assert (Ec : inst env (pi_of (cqs c)) (row_gin r) = c).
  { unfold inst, row_gin. cbn [gk gqs gas]. destruct c as [k qs ps]. cbn [ck cqs cps] in *. subst k. f_equal.
    - rewrite <- Har. apply map_pi_of_seq.
    - destruct (nparams (ir_kind r)) as [|[|m]] eqn:En; [|destruct ps as [|th [|? ?]]; try discriminate|lia].
      + destruct ps; [reflexivity|discriminate].
      + cbn [map]. f_equal. unfold env. rewrite (row_theta_env ph (fun _ => 0%R)).
        rewrite (cond_theta r (mkC (ir_kind r) qs [th]) Hcond). reflexivity. }
  cbn [map] in T. rewrite Ec in T.
  (* the frames *)
  assert (Epre : map (fun g => rsem (inst env (pi_of (cqs c)) g)) (frame_pre (arity (ir_kind r))) = floc ph (cqs c)).
  { unfold frame_pre, floc. destruct (cqs c) as [|q0 [|q1 [|? ?]]] eqn:Eq; cbn [length] in Har; rewrite <- Har in Hn2 |- *; try lia.
    - reflexivity.
    - cbn. unfold inst. cbn [gk gqs gas map]. rewrite ang_eval_neg, ang_eval_var. unfold env, env_of. rewrite Eq. reflexivity.
    - cbn. unfold inst. cbn [gk gqs gas map]. rewrite !ang_eval_neg, !ang_eval_var. unfold env, env_of. rewrite Eq. reflexivity. }
  assert (Epost : map (fun g => rsem (inst env (pi_of (cqs c)) g)) (frame_post r (arity (ir_kind r))) = floc ph1 (cqs c)).
  { unfold frame_post, floc, row_new, ph1.
    destruct (cqs c) as [|q0 [|q1 [|? ?]]] eqn:Eq; cbn [length] in Har; rewrite <- Har in Hj, Hn2 |- *; try lia.
    - reflexivity.
    - cbn [seq map]. unfold inst. cbn [gk gqs gas map]. rewrite ang_eval_neg.
      destruct (ir_new r) as [[j a]|].
      + apply Nat.ltb_lt in Hj. assert (j = 0)%nat by lia. subst j. cbn [Nat.eqb nth]. unfold upd. rewrite Nat.eqb_refl. reflexivity.
      + rewrite ang_eval_var. unfold env, env_of. rewrite Eq. reflexivity.
    - cbn [seq map]. unfold inst. cbn [gk gqs gas map]. rewrite !ang_eval_neg.
      assert (Hne : q0 <> q1).
      { pose proof Hnd as Hnd2. apply NoDup_cons_iff in Hnd2 as [Hq0 _]. intros E. apply Hq0. left. symmetry. exact E. }
      destruct (ir_new r) as [[j a]|].
      + apply Nat.ltb_lt in Hj. destruct j as [|[|j]]; [| |lia]; cbn [Nat.eqb nth]; unfold upd; rewrite ?Nat.eqb_refl.
        * rewrite ang_eval_var. unfold env at 2, env_of. rewrite Eq. cbn [nth].
          destruct (Nat.eqb_spec q1 q0); [congruence|]. reflexivity.
        * rewrite ang_eval_var. unfold env at 1, env_of. rewrite Eq. cbn [nth].
          destruct (Nat.eqb_spec q0 q1); [congruence|]. reflexivity.
      + rewrite !ang_eval_var. unfold env, env_of. rewrite Eq. reflexivity. }
  rewrite Epre, Epost in T. exact T.
Qed.

Local Open Scope C_scope.
Lemma Fr_split ph qs b : NoDup qs -> incl qs dom -> Fr ph dom b = Fr ph (restof dom qs) b * Fr ph qs b.
Proof.
  intros Hq Hi. rewrite (Fr_perm ph _ _ b (perm_split dom qs Hdom Hq Hi)), Fr_app. ring.
Qed.

Lemma Fr_rest_indep ph qs b b' : agree_off qs b b' -> Fr ph (restof dom qs) b' = Fr ph (restof dom qs) b.
Proof.
  intros H. apply Fr_ext. intros q Hq. split; [reflexivity|]. apply restof_In in Hq. apply H. tauto.
Qed.

Lemma step_sound ph c outs ph1 : ionq_step rows ph c = Some (outs, ph1) -> c_ok c ->
  csem (floc ph dom ++ [rsem c]) ≃ csem (map rsem outs ++ floc ph1 dom).
Proof.
  unfold ionq_step. intros Hs [Hc Hin].
  destruct (find (fun r => cond_holds r c) rows) as [r|] eqn:Ef; [|discriminate].
  apply find_some in Ef as [Hr Hcond].
  assert (Hok : row_ok r = true) by (rewrite forallb_forall in Hrows; apply Hrows, Hr).
  destruct (ir_out r) as [os|] eqn:Eos; [|discriminate]. injection Hs as <- <-.
  pose proof (row_local ph c r os Hcond Hok Eos Hc) as L. cbv zeta in L.
  set (env := env_of ph c) in *.
  set (ph1 := match ir_new r with Some (j, a) => upd ph (nth j (cqs c) 0%nat) (ang_eval env a) | None => ph end) in *.
  set (outs := map (inst env (pi_of (cqs c))) os) in *.
  destruct L as [c0 [Hc0 L]]. exists c0. split; [exact Hc0|]. intros psi b.
  destruct Hc as [Har [Hnd Hnp]].
  set (qs := cqs c) in *. set (f := Fr ph (restof dom qs)).
  (* left-hand side *)
  rewrite csem_app.
  replace (csem (floc ph dom) psi) with (fun x => f x * (Fr ph qs x * psi x)).
  2:{ apply FunctionalExtensionality.functional_extensionality. intros x. rewrite csem_floc, (Fr_split ph qs x Hnd Hin). unfold f. ring. }
  rewrite (csem_diag_indep [rsem c] f).
  2:{ intros g [<-|[]] b1 b2 Hb. cbn [snd rsem]. unfold f. apply Fr_rest_indep. exact Hb. }
  replace (fun x => Fr ph qs x * psi x) with (csem (floc ph qs) psi)
    by (apply FunctionalExtensionality.functional_extensionality; intros x; apply csem_floc).
  rewrite <- csem_app, L.
  (* right-hand side *)
  rewrite !csem_app, !csem_floc, (Fr_split ph1 qs b Hnd Hin).
  assert (Hj : forall j a, ir_new r = Some (j, a) -> (j < length qs)%nat).
  { intros j a Ej. unfold row_ok in Hok. rewrite Eos, Ej in Hok. repeat (apply andb_true_iff in Hok as [Hok ?]).
    match goal with H : (j <? _)%nat = true |- _ => apply Nat.ltb_lt in H; rewrite Har, (cond_kind r c Hcond); exact H end. }
  assert (Ef : Fr ph1 (restof dom qs) b = f b).
  { unfold f. apply Fr_ext. intros q Hq. split; [|reflexivity]. apply restof_In in Hq as [_ Hq].
    unfold ph1. destruct (ir_new r) as [[j a]|] eqn:En; [|reflexivity]. unfold upd.
    destruct (Nat.eqb_spec q (nth j qs 0%nat)) as [E|]; [|reflexivity]. exfalso. apply Hq. rewrite E.
    apply nth_In. apply (Hj j a eq_refl). }
  rewrite Ef. ring.
Qed.

(* IonQNativeTranspiler: whenever it returns, the input circuit equals the returned circuit followed by a layer of RZ
   gates (one per qubit, the final frame), up to a global phase - for circuits of any length on registers of any size *)
Theorem ionq_pass_sound : forall circ ph out ph', ionq_pass rows ph circ = Some (out, ph') -> Forall c_ok circ ->
  csem (floc ph dom ++ map rsem circ) ≃ csem (map rsem out ++ floc ph' dom).
Proof.
  induction circ as [|c circ IH]; intros ph out ph' H Hc; cbn [ionq_pass] in H.
  - injection H as <- <-. cbn [map app]. rewrite app_nil_r. apply opequiv_refl.
  - destruct (ionq_step rows ph c) as [[outs ph1]|] eqn:Es; [|discriminate].
    destruct (ionq_pass rows ph1 circ) as [[outs' ph2]|] eqn:Ep; [|discriminate]. injection H as <- <-.
    inversion Hc as [|? ? Hc1 Hc2]; subst.
    cbn [map]. rewrite map_app.
    change (floc ph dom ++ rsem c :: map rsem circ) with (floc ph dom ++ [rsem c] ++ map rsem circ).
    rewrite app_assoc, <- app_assoc with (l := map rsem outs).
    eapply opequiv_trans.
    + apply csem_app_equiv; [apply (step_sound ph c outs ph1 Es Hc1)|apply opequiv_refl].
    + rewrite <- app_assoc. apply csem_app_equiv; [apply opequiv_refl|apply IH; auto].
Qed.

Lemma Fr_zero b : forall d, Fr (fun _ => 0%R) d b = C1.
Proof.
  induction d as [|q d IH]; cbn [Fr]; [reflexivity|]. rewrite IH. unfold zph.
  destruct (b q); [replace (- 0 / 2)%R with 0%R by field|replace (0 / 2)%R with 0%R by field]; rewrite Cexp_0; ring.
Qed.

(* the documented guarantee: computational-basis measurement statistics are preserved, for every input state *)
Theorem ionq_measurement_preserved circ out ph' :
  ionq_pass rows (fun _ => 0%R) circ = Some (out, ph') -> Forall c_ok circ ->
  forall psi b, Cnorm2 (csem (map rsem circ) psi b) = Cnorm2 (csem (map rsem out) psi b).
Proof.
  intros H Hc psi b. destruct (ionq_pass_sound circ _ out ph' H Hc) as [c0 [Hc0 E]].
  specialize (E psi b). rewrite !csem_app in E.
  replace (csem (floc (fun _ => 0%R) dom) psi) with psi in E.
  2:{ apply FunctionalExtensionality.functional_extensionality. intros x. rewrite csem_floc, Fr_zero. ring. }
  rewrite E, csem_floc, !Cnorm2_mul. rewrite Hc0. pose proof (Fr_unit ph' dom b) as Hu. unfold Cunit in Hu. rewrite Hu. ring.
Qed.
Local Close Scope C_scope.
End IonqSound.
