(* Model of circuit/parameter_shift.py: ShiftedParameters._get_derivative (the combinatorics of
   parameter shifts: merging equal shift sets, deleting a parameter whose net shift is 0, skipping
   zero coefficients) and the analytic parameter-shift rule it relies on. *)
From Coq Require Import ZArith List Bool Arith Lia Reals Lra.
Import ListNotations.
Local Open Scope R_scope.

(* ------------------------------------------------------------------ analytic core *)
(* every gate e^{-i phi G / 2} with G^2 = I makes the expectation value a function
   a cos(phi) + b sin(phi) + c of its own raw angle phi *)
Definition sinusoid (a b c : R) (phi : R) : R := a * cos phi + b * sin phi + c.

Theorem shift_rule_sinusoid a b c phi :
  derivable_pt_lim (sinusoid a b c) phi
    ((sinusoid a b c (phi + PI / 2) - sinusoid a b c (phi - PI / 2)) / 2).
Proof.
  assert (E : (sinusoid a b c (phi + PI / 2) - sinusoid a b c (phi - PI / 2)) / 2
              = a * (- sin phi) + b * cos phi + 0).
  { unfold sinusoid. replace (phi - PI / 2) with (phi + - (PI / 2)) by ring.
    rewrite !cos_plus, !sin_plus, cos_neg, sin_neg, cos_PI2, sin_PI2. field. }
  rewrite E. unfold sinusoid.
  apply derivable_pt_lim_plus; [apply derivable_pt_lim_plus|apply derivable_pt_lim_const].
  - apply derivable_pt_lim_scal. apply derivable_pt_lim_cos.
  - apply derivable_pt_lim_scal. apply derivable_pt_lim_sin.
Qed.

(* second derivative by applying the rule twice: shifts +-pi with coefficient 1/4 and the
   unshifted point with coefficient -1/2 *)
Theorem second_shift_rule_sinusoid a b c phi :
  derivable_pt_lim (fun t => (sinusoid a b c (t + PI / 2) - sinusoid a b c (t - PI / 2)) / 2) phi
    ((sinusoid a b c (phi + PI) - 2 * sinusoid a b c phi + sinusoid a b c (phi - PI)) / 4).
Proof.
  assert (F : forall t, (sinusoid a b c (t + PI / 2) - sinusoid a b c (t - PI / 2)) / 2
                        = sinusoid b (- a) 0 t).
  { intros t. unfold sinusoid. replace (t - PI / 2) with (t + - (PI / 2)) by ring.
    rewrite !cos_plus, !sin_plus, cos_neg, sin_neg, cos_PI2, sin_PI2. field. }
  assert (G : (sinusoid a b c (phi + PI) - 2 * sinusoid a b c phi + sinusoid a b c (phi - PI)) / 4
              = (sinusoid b (- a) 0 (phi + PI / 2) - sinusoid b (- a) 0 (phi - PI / 2)) / 2).
  { unfold sinusoid. replace (phi - PI) with (phi + - PI) by ring.
    replace (phi - PI / 2) with (phi + - (PI / 2)) by ring.
    rewrite !cos_plus, !sin_plus, !cos_neg, !sin_neg, cos_PI, sin_PI, cos_PI2, sin_PI2. field. }
  rewrite G.
  eapply derivable_pt_lim_ext; [|apply shift_rule_sinusoid]. intros t. symmetry. apply F.
Qed.

(* ------------------------------------------------------------------ shift bookkeeping *)
(* a shift set: raw parameter id -> integer shift.  The Python key is the frozenset of the items with
   non-zero shift; two keys are equal iff they give every parameter the same shift, which is how
   equality is modelled here (entries shadow earlier ones, a zero entry means "deleted"). *)
Definition shifts := list (nat * Z).

Fixpoint sget (s : shifts) (p : nat) : Z :=
  match s with [] => 0%Z | (q, v) :: s' => if Nat.eqb p q then v else sget s' p end.
Definition sset (s : shifts) (p : nat) (v : Z) : shifts := (p, v) :: s.
Definition shifts_eqb (a b : shifts) : bool :=
  forallb (fun p => Z.eqb (sget a p) (sget b p)) (map fst a ++ map fst b).

(* new_shifts_map and _get_derivative, generic in the coefficient type (R for the theorems, Q for
   execution): for every (shifts, coef), every raw parameter with non-zero derivative coefficient c,
   both signs: new_shifts_map[key] += coef * c * sign / 2 *)
Section Generic.
Variable K : Type.
Variables (kadd kmul : K -> K -> K) (ksign_half : K -> Z -> K) (kzero : K -> bool).
Definition gdict := list (shifts * K).
Fixpoint gdadd (d : gdict) (k : shifts) (v : K) : gdict :=
  match d with
  | [] => [(k, v)]
  | (k', v') :: d' => if shifts_eqb k k' then (k', kadd v' v) :: d' else (k', v') :: gdadd d' k v
  end.
Definition gstep_sign (coef c : K) (s : shifts) (p : nat) (d : gdict) (sign : Z) : gdict :=
  gdadd d (sset s p (sget s p + sign)) (ksign_half (kmul coef c) sign).
Definition gstep_param (cs : nat -> K) (coef : K) (s : shifts) (d : gdict) (p : nat) : gdict :=
  if kzero (cs p) then d
  else gstep_sign coef (cs p) s p (gstep_sign coef (cs p) s p d 1%Z) (-1)%Z.
Definition gget_derivative (out_params : list nat) (cs : nat -> K) (S : gdict) : gdict :=
  fold_left (fun d sc => fold_left (gstep_param cs (snd sc) (fst sc)) out_params d) S [].
End Generic.

Definition zero_dec (c : R) : bool := if Req_EM_T c 0 then true else false.
Definition sdict := gdict R.
Definition dadd := gdadd R Rplus.
Definition rsign_half (v : R) (sign : Z) : R := v * IZR sign / 2.
Definition step_sign := gstep_sign R Rplus Rmult rsign_half.
Definition step_param := gstep_param R Rplus Rmult rsign_half zero_dec.
Definition get_derivative := gget_derivative R Rplus Rmult rsign_half zero_dec.

(* evaluation: sum coef * E(raw values shifted by shift * pi/2) *)
Section Eval.
Variable E : (nat -> R) -> R.
Hypothesis E_ext : forall f g, (forall p, f p = g p) -> E f = E g.
Variable base : nat -> R.
Definition shifted (s : shifts) : nat -> R := fun p => base p + IZR (sget s p) * (PI / 2).
Definition deval (d : sdict) : R := fold_right (fun kv a => snd kv * E (shifted (fst kv)) + a) 0 d.

Lemma sget_notin s p : ~ In p (map fst s) -> sget s p = 0%Z.
Proof. induction s as [|[q v] s IH]; simpl; intros H; auto.
  destruct (Nat.eqb_spec p q) as [->|Hne]; [exfalso; auto | apply IH; auto]. Qed.

Lemma shifts_eqb_sget a b : shifts_eqb a b = true -> forall p, sget a p = sget b p.
Proof.
  unfold shifts_eqb. rewrite forallb_forall. intros H p.
  destruct (in_dec Nat.eq_dec p (map fst a ++ map fst b)) as [Hin|Hnin].
  - apply Z.eqb_eq, H, Hin.
  - rewrite !sget_notin; auto; intros Hc; apply Hnin, in_or_app; auto.
Qed.

Lemma deval_dadd d k v : deval (dadd d k v) = deval d + v * E (shifted k).
Proof.
  unfold deval, dadd. induction d as [|[k' v'] d IH]; cbn [gdadd fold_right fst snd]; [ring|].
  destruct (shifts_eqb k k') eqn:Ek; cbn [fold_right fst snd].
  - assert (Ee : E (shifted k) = E (shifted k')).
    { apply E_ext. intros p. unfold shifted. rewrite (shifts_eqb_sget k k' Ek p). reflexivity. }
    rewrite Ee. ring.
  - rewrite IH. ring.
Qed.

(* the raw parameter vector with coordinate p moved by one more quarter turn in direction sign *)
Definition bump (s : shifts) (p : nat) (sign : Z) : nat -> R :=
  fun q => shifted s q + (if Nat.eqb q p then IZR sign * (PI / 2) else 0).

Lemma shifted_sset s p sign : forall q, shifted (sset s p (sget s p + sign)) q = bump s p sign q.
Proof.
  intros q. unfold bump, shifted, sset. cbn [sget]. destruct (Nat.eqb_spec q p) as [->|Hne].
  - rewrite plus_IZR. ring.
  - ring.
Qed.

Lemma deval_step_param cs coef s d p :
  deval (step_param cs coef s d p)
  = deval d + coef * cs p * (E (bump s p 1) - E (bump s p (-1))) / 2.
Proof.
  unfold step_param, gstep_param, zero_dec. destruct (Req_EM_T (cs p) 0) as [Ez|Hnz].
  - rewrite Ez. unfold Rdiv. ring.
  - unfold gstep_sign. fold dadd. rewrite !deval_dadd. unfold rsign_half.
    rewrite (E_ext _ _ (shifted_sset s p 1)), (E_ext _ _ (shifted_sset s p (-1))). field.
Qed.

Definition grad_term (cs : nat -> R) (out_params : list nat) (coef : R) (s : shifts) : R :=
  fold_right (fun p a => coef * cs p * (E (bump s p 1) - E (bump s p (-1))) / 2 + a) 0 out_params.

Lemma deval_fold_params cs coef s out_params : forall d,
  deval (fold_left (step_param cs coef s) out_params d) = deval d + grad_term cs out_params coef s.
Proof.
  induction out_params as [|p ps IH]; intros d; simpl; [ring|].
  rewrite IH, deval_step_param. ring.
Qed.

(* the derivative object evaluates to the sum, over every term of S and every raw parameter, of
   coef * c_p * (E(.. + pi/2 e_p) - E(.. - pi/2 e_p)) / 2 : merging of equal shift sets, deletion of
   cancelled shifts and skipping of zero coefficients never change the value *)
Theorem get_derivative_algebra out_params cs (S : sdict) :
  deval (get_derivative out_params cs S)
  = fold_right (fun sc a => grad_term cs out_params (snd sc) (fst sc) + a) 0 S.
Proof.
  unfold get_derivative, gget_derivative. fold step_param.
  assert (G : forall d, deval (fold_left (fun d sc => fold_left (step_param cs (snd sc) (fst sc)) out_params d) S d)
                        = deval d + fold_right (fun sc a => grad_term cs out_params (snd sc) (fst sc) + a) 0 S).
  { induction S as [|[s coef] S IH]; intros d; simpl; [ring|]. rewrite IH, deval_fold_params. ring. }
  rewrite G. simpl. ring.
Qed.
End Eval.

(* ------------------------------------------------------------------ operator view, symmetry *)
Definition sumf (l : list nat) (h : nat -> R) : R := fold_right (fun p a => h p + a) 0 l.

Lemma sumf_cons p l h : sumf (p :: l) h = h p + sumf l h.
Proof. reflexivity. Qed.
Lemma sumf_ext l h1 h2 : (forall p, h1 p = h2 p) -> sumf l h1 = sumf l h2.
Proof. intros H. induction l as [|p l IH]; simpl; [reflexivity|]. rewrite H, IH. reflexivity. Qed.
Lemma sumf_plus l h1 h2 : sumf l (fun p => h1 p + h2 p) = sumf l h1 + sumf l h2.
Proof. induction l as [|p l IH]; simpl; [ring|]. rewrite IH. ring. Qed.
Lemma sumf_scal l c h : sumf l (fun p => c * h p) = c * sumf l h.
Proof. induction l as [|p l IH]; simpl; [ring|]. rewrite IH. ring. Qed.
Lemma sumf_zero l : sumf l (fun _ => 0) = 0.
Proof. induction l as [|p l IH]; simpl; [ring|]. rewrite IH. ring. Qed.
Lemma sumf_lin l c h1 h2 : c * (sumf l h1 - sumf l h2) / 2 = sumf l (fun q => c * (h1 q - h2 q) / 2).
Proof. induction l as [|p l IH]; simpl; [field|]. rewrite <- IH. field. Qed.
Lemma sumf_swap l1 l2 (h : nat -> nat -> R) :
  sumf l1 (fun p => sumf l2 (fun q => h p q)) = sumf l2 (fun q => sumf l1 (fun p => h p q)).
Proof.
  induction l1 as [|p l1 IH]; simpl.
  - rewrite sumf_zero. reflexivity.
  - rewrite IH, <- sumf_plus. reflexivity.
Qed.

(* moving coordinate p of a raw parameter vector by sign quarter turns *)
Definition move (f : nat -> R) (p : nat) (sign : Z) : nat -> R :=
  fun q => f q + (if Nat.eqb q p then IZR sign * (PI / 2) else 0).

(* the first-order shift operator on expectation functions, for the derivative coefficients cs *)
Definition Gop (out_params : list nat) (cs : nat -> R) (E : (nat -> R) -> R) : (nat -> R) -> R :=
  fun f => sumf out_params (fun p => cs p * (E (move f p 1) - E (move f p (-1))) / 2).

Definition ext_fun (E : (nat -> R) -> R) := forall f g, (forall p, f p = g p) -> E f = E g.

Lemma Gop_ext out cs E : ext_fun E -> ext_fun (Gop out cs E).
Proof.
  intros HE f g H. unfold Gop. apply sumf_ext. intros p.
  rewrite (HE (move f p 1) (move g p 1)), (HE (move f p (-1)) (move g p (-1))); [reflexivity| |];
    intros q; unfold move; rewrite H; reflexivity.
Qed.

Lemma deval_ext_E E1 E2 base S : (forall f, E1 f = E2 f) -> deval E1 base S = deval E2 base S.
Proof. intros H. unfold deval. induction S as [|[s c] S IH]; simpl; [reflexivity|]. rewrite H, IH. reflexivity. Qed.

Lemma grad_term_Gop E base cs out coef s :
  grad_term E base cs out coef s = coef * Gop out cs E (shifted base s).
Proof.
  unfold grad_term, Gop, sumf. induction out as [|p out IH]; simpl; [ring|].
  rewrite IH. unfold bump, move. field.
Qed.

(* the derivative object is the original object evaluated on the shifted-difference operator *)
Theorem get_derivative_operator E base out cs (S : sdict) : ext_fun E ->
  deval E base (get_derivative out cs S) = deval (Gop out cs E) base S.
Proof.
  intros HE. rewrite (get_derivative_algebra E HE base). unfold deval.
  induction S as [|[s c] S IH]; simpl; [reflexivity|]. rewrite IH, grad_term_Gop. ring.
Qed.

Lemma move_move f p q a b : forall r, move (move f p a) q b r = move (move f q b) p a r.
Proof. intros r. unfold move. ring. Qed.

Lemma Gop_comm out ci cj E : ext_fun E -> forall f, Gop out ci (Gop out cj E) f = Gop out cj (Gop out ci E) f.
Proof.
  intros HE f. unfold Gop at 1 3.
  transitivity (sumf out (fun p => sumf out (fun q =>
     ci p * cj q * (E (move (move f p 1) q 1) - E (move (move f p 1) q (-1))
                    - E (move (move f p (-1)) q 1) + E (move (move f p (-1)) q (-1))) / 4))).
  - apply sumf_ext. intros p. unfold Gop. rewrite sumf_lin. apply sumf_ext. intros q. field.
  - rewrite sumf_swap. apply sumf_ext. intros q. unfold Gop. rewrite sumf_lin. apply sumf_ext. intros p.
    rewrite (HE _ _ (move_move f p q 1 1)), (HE _ _ (move_move f p q 1 (-1))),
            (HE _ _ (move_move f p q (-1) 1)), (HE _ _ (move_move f p q (-1) (-1))). field.
Qed.

(* the Hessian object is symmetric: differentiating by input i then j gives the same value as j then i *)
Theorem hessian_symmetric E base out ci cj (S : sdict) : ext_fun E ->
  deval E base (get_derivative out cj (get_derivative out ci S))
  = deval E base (get_derivative out ci (get_derivative out cj S)).
Proof.
  intros HE.
  rewrite (get_derivative_operator E base out cj _ HE), (get_derivative_operator _ base out ci S (Gop_ext out cj E HE)).
  rewrite (get_derivative_operator E base out ci _ HE), (get_derivative_operator _ base out cj S (Gop_ext out ci E HE)).
  apply deval_ext_E. intros f. apply Gop_comm, HE.
Qed.

(* ------------------------------------------------------------------ analytic derivative *)
(* Expectation functions of circuits whose parametric gates are e^{-i phi G/2} with G^2 = I are
   sinusoids a cos(phi) + b sin(phi) + c in every raw angle, with a b c of the same form in the
   remaining angles.  [tp] is the general function of that shape: level k of the tree reads raw
   parameter k. *)
Inductive tp := Leaf (r : R) | Node (a b c : tp).
Fixpoint teval (t : tp) (k : nat) (f : nat -> R) : R :=
  match t with
  | Leaf r => r
  | Node a b c => teval a (S k) f * cos (f k) + teval b (S k) f * sin (f k) + teval c (S k) f
  end.
Fixpoint depth (t : tp) : nat :=
  match t with Leaf _ => 0%nat | Node a b c => S (Nat.max (depth a) (Nat.max (depth b) (depth c))) end.

(* derivative along direction d *)
Fixpoint tgrad (t : tp) (k : nat) (f d : nat -> R) : R :=
  match t with
  | Leaf _ => 0
  | Node a b c =>
      (tgrad a (S k) f d * cos (f k) + teval a (S k) f * (- sin (f k) * d k))
      + (tgrad b (S k) f d * sin (f k) + teval b (S k) f * (cos (f k) * d k))
      + tgrad c (S k) f d
  end.

Definition line (x d : nat -> R) (t : R) : nat -> R := fun p => x p + t * d p.

Lemma dl_eq f x l l' : l = l' -> derivable_pt_lim f x l' -> derivable_pt_lim f x l.
Proof. intros ->. auto. Qed.

Lemma line_coord_deriv x d k t0 : derivable_pt_lim (fun t => line x d t k) t0 (d k).
Proof.
  unfold line. apply (dl_eq _ _ _ (0 + (1 * d k + t0 * 0))); [ring|].
  apply derivable_pt_lim_plus; [apply derivable_pt_lim_const|].
  apply (derivable_pt_lim_mult (fun t => t) (fun _ => d k)); [apply derivable_pt_lim_id|apply derivable_pt_lim_const].
Qed.

Lemma teval_line_deriv T : forall k x d t0,
  derivable_pt_lim (fun t => teval T k (line x d t)) t0 (tgrad T k (line x d t0) d).
Proof.
  induction T as [r|a IHa b IHb c IHc]; intros k x d t0; cbn [teval tgrad].
  - apply derivable_pt_lim_const.
  - apply derivable_pt_lim_plus; [apply derivable_pt_lim_plus|apply IHc].
    + apply (derivable_pt_lim_mult (fun t => teval a (S k) (line x d t)) (fun t => cos (line x d t k))); [apply IHa|].
      apply (derivable_pt_lim_comp (fun t => line x d t k) cos); [apply line_coord_deriv|apply derivable_pt_lim_cos].
    + apply (derivable_pt_lim_mult (fun t => teval b (S k) (line x d t)) (fun t => sin (line x d t k))); [apply IHb|].
      apply (derivable_pt_lim_comp (fun t => line x d t k) sin); [apply line_coord_deriv|apply derivable_pt_lim_sin].
Qed.

Lemma teval_indep T : forall k f g, (forall p, (k <= p)%nat -> f p = g p) -> teval T k f = teval T k g.
Proof.
  induction T as [r|a IHa b IHb c IHc]; intros k f g H; cbn [teval]; [reflexivity|].
  rewrite (IHa (S k) f g), (IHb (S k) f g), (IHc (S k) f g), (H k); auto; intros p Hp; apply H; lia.
Qed.
Lemma teval_ext T k : ext_fun (teval T k).
Proof. intros f g H. apply teval_indep. intros p _. apply H. Qed.

Lemma move_other f p sign q : q <> p -> move f p sign q = f q.
Proof. intros H. unfold move. destruct (Nat.eqb_spec q p); [contradiction|ring]. Qed.
Lemma move_same f p sign : move f p sign p = f p + IZR sign * (PI / 2).
Proof. unfold move. rewrite Nat.eqb_refl. reflexivity. Qed.

(* the shifted-difference sum over raw parameters k .. k+n-1 *)
Definition shiftsum (T : tp) (k n : nat) (f d : nat -> R) : R :=
  sumf (seq k n) (fun p => d p * (teval T k (move f p 1) - teval T k (move f p (-1))) / 2).

Lemma sumf_seq_node (a b c : tp) k n f d : 
  sumf (seq (S k) n) (fun p => d p * (teval (Node a b c) k (move f p 1) - teval (Node a b c) k (move f p (-1))) / 2)
  = sumf (seq (S k) n) (fun p => d p * (teval a (S k) (move f p 1) - teval a (S k) (move f p (-1))) / 2) * cos (f k)
  + sumf (seq (S k) n) (fun p => d p * (teval b (S k) (move f p 1) - teval b (S k) (move f p (-1))) / 2) * sin (f k)
  + sumf (seq (S k) n) (fun p => d p * (teval c (S k) (move f p 1) - teval c (S k) (move f p (-1))) / 2).
Proof.
  assert (G : forall l, (forall p, In p l -> p <> k) ->
    sumf l (fun p => d p * (teval (Node a b c) k (move f p 1) - teval (Node a b c) k (move f p (-1))) / 2)
    = sumf l (fun p => d p * (teval a (S k) (move f p 1) - teval a (S k) (move f p (-1))) / 2) * cos (f k)
    + sumf l (fun p => d p * (teval b (S k) (move f p 1) - teval b (S k) (move f p (-1))) / 2) * sin (f k)
    + sumf l (fun p => d p * (teval c (S k) (move f p 1) - teval c (S k) (move f p (-1))) / 2)).
  { induction l as [|p l IH]; intros Hl; [unfold sumf; simpl; ring|]. rewrite !sumf_cons.
    rewrite IH by (intros q Hq; apply Hl; right; exact Hq).
    assert (Hp : k <> p) by (intros E; symmetry in E; revert E; apply Hl; left; reflexivity).
    cbn [teval]. rewrite !(move_other f p _ k Hp). field. }
  apply G. intros p Hp. apply in_seq in Hp. lia.
Qed.

Lemma tgrad_shiftsum T : forall k n f d, (depth T <= n)%nat -> tgrad T k f d = shiftsum T k n f d.
Proof.
  induction T as [r|a IHa b IHb c IHc]; intros k n f d Hn; cbn [tgrad depth] in *.
  - unfold shiftsum. cbn [teval]. rewrite (sumf_ext _ _ (fun _ => 0)); [rewrite sumf_zero; reflexivity|].
    intros p. field.
  - destruct n as [|n]; [lia|]. unfold shiftsum. cbn [seq]. rewrite sumf_cons, sumf_seq_node.
    rewrite (IHa (S k) n f d), (IHb (S k) n f d), (IHc (S k) n f d) by lia. unfold shiftsum.
    cbn [teval]. rewrite !move_same.
    assert (Ia : forall T' sg, teval T' (S k) (move f k sg) = teval T' (S k) f).
    { intros T' sg. apply teval_indep. intros p Hp. apply move_other. lia. }
    rewrite !Ia.
    replace (f k + 1 * (PI / 2)) with (f k + PI / 2) by ring.
    replace (f k + -1 * (PI / 2)) with (f k + - (PI / 2)) by ring.
    rewrite !cos_plus, !sin_plus, cos_neg, sin_neg, cos_PI2, sin_PI2. field.
Qed.

(* C09 core: for every expectation function of sinusoidal form in P raw parameters, every affine
   parametrisation of the raw angles (x + t d is the line traced when one input parameter moves, d the
   column of mapping coefficients), and every shift object S (NO_SHIFT for the gradient, a first
   derivative object for the Hessian, and so on for any order): the value of the derivative object is
   the derivative of the value of S. *)
Theorem shift_derivative_exact T P x d (S : sdict) t0 : (depth T <= P)%nat ->
  derivable_pt_lim (fun t => deval (teval T 0) (line x d t) S) t0
                   (deval (teval T 0) (line x d t0) (get_derivative (seq 0 P) d S)).
Proof.
  intros HP. rewrite (get_derivative_operator _ _ _ _ _ (teval_ext T 0)).
  unfold deval. induction S as [|[s c] S IH]; cbn [fold_right fst snd].
  - apply derivable_pt_lim_const.
  - apply derivable_pt_lim_plus; [|exact IH].
    apply derivable_pt_lim_scal.
    set (x' := fun p => x p + IZR (sget s p) * (PI / 2)).
    assert (Hs : forall t p, shifted (line x d t) s p = line x' d t p).
    { intros t p. unfold shifted, line, x'. ring. }
    eapply derivable_pt_lim_ext.
    { intros t. symmetry. apply (teval_ext T 0 _ _ (Hs t)). }
    assert (Hg : Gop (seq 0 P) d (teval T 0) (shifted (line x d t0) s) = tgrad T 0 (line x' d t0) d).
    { rewrite (tgrad_shiftsum T 0 P _ _ HP). unfold shiftsum, Gop.
      apply sumf_ext. intros p.
      rewrite (teval_ext T 0 (move (shifted (line x d t0) s) p 1) (move (line x' d t0) p 1)),
              (teval_ext T 0 (move (shifted (line x d t0) s) p (-1)) (move (line x' d t0) p (-1)));
        [reflexivity| |]; intros q; unfold move; rewrite Hs; reflexivity. }
    rewrite Hg. apply teval_line_deriv.
Qed.
