(* Model of core/state/comp_basis.py: the (n_qubits, bits, phase) bookkeeping of Pauli gates
   applied to a computational basis state, and its agreement with the state vector:
   i^phase' |bits'> = sigma_index ( i^phase |bits> ). *)
From Coq Require Import ZArith NArith List Bool Arith Lia Reals FunctionalExtensionality.
From QP Require Import Cx Zw Asum FMat Lpoly Apply Local Gates Rsem.
From QPM Require Import Transpile Pauli.
Import ListNotations.
Local Open Scope C_scope.

Definition cbstate : Type := (nat * N * Z)%type.   (* n_qubits, bits, phase (units of pi/2) *)

Definition bitmask (i : nat) : N := N.shiftl 1 (N.of_nat i).
Definition get_bit (x : N) (i : nat) : bool := negb (N.eqb (N.land x (bitmask i)) 0).

(* _add_single_pauli ; None = ValueError("Index out of range.") *)
Definition add_single_pauli (s : cbstate) (p : pauli) (i : nat) : option cbstate :=
  let '(n, bits, ph) := s in
  if Nat.leb n i then None else
  let is_one := get_bit bits i in
  let bits' := match p with PX | PY => N.lxor bits (bitmask i) | PZ => bits end in
  let ph1 := match p with PY => if is_one then (ph - 1)%Z else (ph + 1)%Z | _ => ph end in
  let ph2 := if is_one && pauli_eqb p PZ then (ph1 + 2)%Z else ph1 in
  Some (n, bits', ph2).

Fixpoint add_paulis (s : cbstate) (ps : list (nat * pauli)) : option cbstate :=
  match ps with
  | [] => Some s
  | (i, p) :: ps' => match add_single_pauli s p i with Some s' => add_paulis s' ps' | None => None end
  end.

(* ---------------------------------------------------------------- semantics *)
Definition ipow (k : Z) : C := zw_eval (zw_pow zwi (Z.to_nat (k mod 4))).
Definition ket (n : nat) (bits : N) : St :=
  fun b => if forallb (fun j => Bool.eqb (b j) (N.testbit bits (N.of_nat j))) (seq 0 n) then C1 else C0.
Definition vec (s : cbstate) : St := let '(n, bits, ph) := s in fun b => ipow ph * ket n bits b.

Lemma get_bit_testbit x i : get_bit x i = N.testbit x (N.of_nat i).
Proof.
  unfold get_bit, bitmask. destruct (N.testbit x (N.of_nat i)) eqn:E.
  - apply negb_true_iff, N.eqb_neq. intros H.
    assert (T : N.testbit (N.land x (N.shiftl 1 (N.of_nat i))) (N.of_nat i) = true).
    { rewrite N.land_spec, E, N.shiftl_spec_high' by lia. rewrite N.sub_diag. reflexivity. }
    rewrite H in T. rewrite N.bits_0 in T. discriminate.
  - apply negb_false_iff, N.eqb_eq. apply N.bits_inj. intros m. rewrite N.land_spec, N.bits_0.
    destruct (N.eq_dec m (N.of_nat i)) as [->|Hne]; [rewrite E; reflexivity|].
    assert (T : N.testbit (N.shiftl 1 (N.of_nat i)) m = false).
    { destruct (N.lt_ge_cases m (N.of_nat i)).
      - apply N.shiftl_spec_low; auto.
      - rewrite N.shiftl_spec_high' by lia. apply N.bits_above_log2.
        assert (0 < m - N.of_nat i)%N by lia. simpl. lia. }
    rewrite T. apply andb_false_r.
Qed.

Lemma bitmask_testbit i j : N.testbit (bitmask i) (N.of_nat j) = Nat.eqb j i.
Proof.
  unfold bitmask. destruct (Nat.eqb_spec j i) as [->|Hne].
  - rewrite N.shiftl_spec_high' by lia. rewrite N.sub_diag. reflexivity.
  - destruct (N.lt_ge_cases (N.of_nat j) (N.of_nat i)).
    + apply N.shiftl_spec_low; auto.
    + rewrite N.shiftl_spec_high' by lia. apply N.bits_above_log2.
      assert (0 < N.of_nat j - N.of_nat i)%N by lia. simpl. lia.
Qed.

(* single-qubit Pauli gates act monomially *)
Lemma apply1 (M : CM) i psi b :
  apply M [i] psi b = M [b i] [false] * psi (bset b i false) + M [b i] [true] * psi (bset b i true).
Proof. unfold apply; simpl. unfold rd; simpl. rewrite !bset_eq. reflexivity. Qed.

Lemma pc_one : lp_eval rho0 one = C1.
Proof. unfold one, cz. rewrite lp_eval_const, zw_eval_of_Z. reflexivity. Qed.
Lemma pc_mone : lp_eval rho0 mone = - C1.
Proof. unfold mone, cz. rewrite lp_eval_const, zw_eval_of_Z. unfold RtoC, C1, Copp; simpl. f_equal; ring. Qed.
Lemma pc_ci : lp_eval rho0 ci = Ci.
Proof. unfold ci. rewrite lp_eval_const. apply zw_eval_i. Qed.

Lemma X_act i psi b : lsem (psem (i, PX)) psi b = psi (bset b i (negb (b i))).
Proof.
  unfold lsem, psem, ksem, pgate, sgate, eg; simpl fst; simpl snd. cbn [pk gmat gk gas gqs eM es eqs map idpi].
  rewrite apply1. unfold idpi. cbn [cpow]. rewrite !m2_phi. rewrite pc_one. cbn [lp_eval].
  destruct (b i); simpl; ring.
Qed.
Lemma Z_act i psi b : lsem (psem (i, PZ)) psi b = (if b i then - C1 else C1) * psi b.
Proof.
  unfold lsem, psem, ksem, pgate, sgate, eg; simpl fst; simpl snd. cbn [pk gmat gk gas gqs eM es eqs map idpi].
  rewrite apply1. unfold idpi. cbn [cpow]. rewrite !m2_phi. rewrite pc_one, pc_mone. cbn [lp_eval].
  destruct (b i) eqn:E; simpl.
  - replace (bset b i true) with b by (rewrite <- E; symmetry; apply bset_id). ring.
  - replace (bset b i false) with b by (rewrite <- E; symmetry; apply bset_id). ring.
Qed.
Lemma Y_act i psi b : lsem (psem (i, PY)) psi b = (if b i then Ci else - Ci) * psi (bset b i (negb (b i))).
Proof.
  unfold lsem, psem, ksem, pgate, sgate, eg; simpl fst; simpl snd. cbn [pk gmat gk gas gqs eM es eqs map idpi].
  rewrite apply1. unfold idpi. cbn [cpow]. rewrite !m2_phi.
  change (lp_eval rho0 [(zw_opp zwi, [])]) with (lp_eval rho0 (lp_opp ci)). rewrite lp_eval_opp, pc_ci. cbn [lp_eval].
  destruct (b i); simpl; ring.
Qed.

Lemma forallb_ext_in {A} (f g : A -> bool) l : (forall x, In x l -> f x = g x) -> forallb f l = forallb g l.
Proof. induction l as [|a l IH]; simpl; intros H; [reflexivity|]. rewrite H, IH; auto. Qed.

Lemma ket_flip n bits i b :
  ket n bits (bset b i (negb (b i))) = ket n (N.lxor bits (bitmask i)) b.
Proof.
  unfold ket.
  assert (E : forallb (fun j => Bool.eqb (bset b i (negb (b i)) j) (N.testbit bits (N.of_nat j))) (seq 0 n)
            = forallb (fun j => Bool.eqb (b j) (N.testbit (N.lxor bits (bitmask i)) (N.of_nat j))) (seq 0 n)).
  { apply forallb_ext_in. intros j _. rewrite N.lxor_spec, bitmask_testbit. unfold bset.
    destruct (Nat.eqb_spec j i) as [->|Hne].
    - destruct (b i), (N.testbit bits (N.of_nat i)); reflexivity.
    - rewrite xorb_false_r. reflexivity. }
  rewrite E. reflexivity.
Qed.

Lemma ket_bit n bits i b : (i < n)%nat -> ket n bits b <> C0 -> b i = N.testbit bits (N.of_nat i).
Proof.
  unfold ket. intros Hi H.
  destruct (forallb _ (seq 0 n)) eqn:E; [|exfalso; apply H; reflexivity].
  rewrite forallb_forall in E. specialize (E i). apply eqb_prop, E, in_seq. lia.
Qed.

Lemma ipow_succ k : ipow (k + 1) = Ci * ipow k.
Proof.
  unfold ipow.
  assert (H : forall r, (0 <= r < 4)%Z ->
     zw_pow zwi (Z.to_nat ((r + 1) mod 4)) = zw_mul zwi (zw_pow zwi (Z.to_nat r))).
  { intros r Hr. assert (Hc : (r = 0 \/ r = 1 \/ r = 2 \/ r = 3)%Z) by lia.
    destruct Hc as [ E | [ E | [ E | E ] ] ]; subst r; vm_compute; reflexivity. }
  replace ((k + 1) mod 4)%Z with ((k mod 4 + 1) mod 4)%Z
    by (rewrite Z.add_mod_idemp_l by lia; reflexivity).
  rewrite H by (apply Z.mod_pos_bound; lia). rewrite zw_eval_mul, zw_eval_i. reflexivity.
Qed.
Lemma ipow_pred k : ipow (k - 1) = - Ci * ipow k.
Proof.
  replace k with ((k - 1) + 1)%Z at 2 by lia. rewrite ipow_succ.
  transitivity ((- (Ci * Ci)) * ipow (k - 1)); [rewrite Ci_sq; ring | ring].
Qed.
Lemma ipow_add2 k : ipow (k + 2) = - ipow k.
Proof. replace (k + 2)%Z with ((k + 1) + 1)%Z by lia. rewrite !ipow_succ.
  transitivity ((Ci * Ci) * ipow k); [ring | rewrite Ci_sq; ring]. Qed.

(* the bookkeeping describes exactly the vector obtained by applying the gate *)
Theorem add_single_pauli_sound s p i s' : add_single_pauli s p i = Some s' ->
  forall b, lsem (psem (i, p)) (vec s) b = vec s' b.
Proof.
  destruct s as [[n bits] ph]. unfold add_single_pauli.
  destruct (Nat.leb_spec n i) as [|Hi]; [discriminate|].
  intros H; inversion H; subst s'; clear H. intros b. unfold vec.
  rewrite get_bit_testbit.
  destruct p.
  - (* X *) rewrite X_act, ket_flip. simpl. rewrite andb_false_r. reflexivity.
  - (* Y *) rewrite Y_act, ket_flip. simpl pauli_eqb. rewrite andb_false_r.
    destruct (Ceq_dec (ket n (N.lxor bits (bitmask i)) b) C0) as [E0|N0].
    + rewrite E0. ring.
    + pose proof (ket_bit n _ i b Hi N0) as Hb. rewrite N.lxor_spec, bitmask_testbit, Nat.eqb_refl in Hb.
      destruct (N.testbit bits (N.of_nat i)); simpl in Hb; rewrite Hb.
      * rewrite ipow_pred. ring.
      * rewrite ipow_succ. ring.
  - (* Z *) rewrite Z_act. simpl pauli_eqb. rewrite andb_true_r.
    destruct (Ceq_dec (ket n bits b) C0) as [E0|N0].
    + rewrite E0. ring.
    + pose proof (ket_bit n _ i b Hi N0) as Hb. rewrite Hb.
      destruct (N.testbit bits (N.of_nat i)).
      * rewrite ipow_add2. ring.
      * ring.
Qed.

Theorem add_paulis_sound ps : forall s s', add_paulis s ps = Some s' ->
  forall b, csem (map psem ps) (vec s) b = vec s' b.
Proof.
  induction ps as [|[i p] ps IH]; intros s s' H b; simpl in H.
  - inversion H; subst. reflexivity.
  - destruct (add_single_pauli s p i) as [s1|] eqn:E; [|discriminate].
    simpl map. rewrite csem_cons.
    replace (lsem (psem (i, p)) (vec s)) with (vec s1)
      by (apply functional_extensionality; intros; symmetry; apply add_single_pauli_sound; auto).
    apply IH; auto.
Qed.

(* an index >= qubit_count is rejected *)
Theorem add_single_pauli_rejects n bits ph p i : (n <= i)%nat -> add_single_pauli (n, bits, ph) p i = None.
Proof. intros H. unfold add_single_pauli. destruct (Nat.leb_spec n i); [reflexivity | lia]. Qed.
