(* Model of the qsub machine level: a linked program is a table of sub-routines (sub i may call only subs
   with a larger index: the call graph is acyclic), hierarchical evaluation with the stack allocator
   (allocate.py HierarchicalReuseAllocator, evaluate.py Evaluator, eval/quriparts.py qubit maps, expand.py
   _expand use the same discipline), and the memoised counters (eval/gatecount.py, eval/qubitcount.py).
   Local qubits of a sub: 0 .. nargs-1 are its arguments, nargs .. nargs+naux-1 its auxiliary qubits. *)
From Coq Require Import List Arith Bool Lia.
Import ListNotations.

Inductive inst := IP (op : nat) (qs : list nat) | IC (callee : nat) (qs : list nat).
Record subdef := mkSub { nargs : nat; naux : nat; body : list inst }.
Definition prog := list subdef.
Definition gate := (nat * list nat)%type.

Definition env_of (acts : list nat) (idx k : nat) : list nat := acts ++ seq idx k.
Definition loc (env : list nat) (q : nat) : nat := nth q env 0.

(* hierarchical evaluation: the gates in physical numbering; idx = allocator index on entry *)
Fixpoint heval (f : nat) (P : prog) (i : nat) (acts : list nat) (idx : nat) : list gate :=
  match f with
  | 0 => []
  | S f' =>
      match nth_error P i with
      | None => []
      | Some s =>
          let env := env_of acts idx (naux s) in
          flat_map (fun ins => match ins with
                               | IP op qs => [(op, map (loc env) qs)]
                               | IC j qs => heval f' P j (map (loc env) qs) (idx + naux s)
                               end) (body s)
      end
  end.
Definition run (P : prog) : list gate :=
  match P with [] => [] | s :: _ => heval (length P) P 0 (seq 0 (nargs s)) (nargs s) end.

(* every call event: (qubits live in the enclosing frames, the callee's auxiliary qubits) *)
Fixpoint calls (f : nat) (P : prog) (i : nat) (acts : list nat) (idx : nat) (live : list nat) : list (list nat * list nat) :=
  match f with
  | 0 => []
  | S f' =>
      match nth_error P i with
      | None => []
      | Some s =>
          let env := env_of acts idx (naux s) in
          (live, seq idx (naux s)) ::
          flat_map (fun ins => match ins with
                               | IP _ _ => []
                               | IC j qs => calls f' P j (map (loc env) qs) (idx + naux s) (live ++ env)
                               end) (body s)
      end
  end.

(* highest allocator index reached *)
Fixpoint hmax (f : nat) (P : prog) (i : nat) (idx : nat) : nat :=
  match f with
  | 0 => idx
  | S f' =>
      match nth_error P i with
      | None => idx
      | Some s => fold_left (fun m ins => match ins with IP _ _ => m | IC j _ => Nat.max m (hmax f' P j (idx + naux s)) end)
                            (body s) (idx + naux s)
      end
  end.

(* well-formed linked programs: calls go to later subs with the right arity, local qubits are in range *)
Definition inst_wf (P : prog) (i : nat) (s : subdef) (ins : inst) : Prop :=
  match ins with
  | IP _ qs => Forall (fun q => q < nargs s + naux s) qs
  | IC j qs => i < j /\ (exists t, nth_error P j = Some t /\ length qs = nargs t) /\ Forall (fun q => q < nargs s + naux s) qs
  end.
Definition wf_prog (P : prog) : Prop :=
  forall i s, nth_error P i = Some s -> Forall (inst_wf P i s) (body s).

(* ------------------------------------------------------------------ no aliasing *)
Lemma env_of_lt acts idx k b : Forall (fun q => q < b) acts -> idx + k <= b -> Forall (fun q => q < b) (env_of acts idx k).
Proof.
  intros H Hb. unfold env_of. apply Forall_app. split; [exact H|]. apply Forall_forall. intros q Hq. apply in_seq in Hq. lia.
Qed.

(* the auxiliary qubits given to a sub-routine are never qubits that are live in an enclosing frame *)
Theorem aux_never_alias_live_qubits P : wf_prog P -> forall f i s acts idx live,
  nth_error P i = Some s -> length acts = nargs s ->
  Forall (fun q => q < idx) live -> Forall (fun q => q < idx) acts ->
  forall ev, In ev (calls f P i acts idx live) -> forall q, In q (snd ev) -> ~ In q (fst ev).
Proof.
  intros Hwf f. induction f as [|f IH]; intros i s acts idx live Hs Hl Hlive Hacts ev Hev q Hq Hli; cbn [calls] in Hev; [contradiction|].
  rewrite Hs in Hev. pose proof (Hwf i s Hs) as Hb. rewrite Forall_forall in Hb.
  destruct Hev as [<-|Hev].
  - cbn [fst snd] in *. apply in_seq in Hq. rewrite Forall_forall in Hlive. apply Hlive in Hli. cbv beta in Hli. lia.
  - apply in_flat_map in Hev. destruct Hev as [ins [Hins Hev]]. specialize (Hb ins Hins).
    destruct ins as [op qs|j qs]; [contradiction|]. cbn [inst_wf] in Hb. destruct Hb as [_ [[t [Ht Hlt]] Hqs]].
    assert (Henv : Forall (fun q0 => q0 < idx + naux s) (env_of acts idx (naux s))).
    { apply env_of_lt; [|lia]. eapply Forall_impl; [|exact Hacts]. intros; simpl in *; lia. }
    refine (IH j t _ (idx + naux s) (live ++ env_of acts idx (naux s)) Ht _ _ _ ev Hev q Hq Hli).
    + rewrite map_length. exact Hlt.
    + apply Forall_app. split; [eapply Forall_impl; [|exact Hlive]; intros; simpl in *; lia|exact Henv].
    + apply Forall_forall. intros x Hx. apply in_map_iff in Hx. destruct Hx as [y [<- Hy]]. unfold loc.
      rewrite Forall_forall in Henv, Hqs. apply Henv, nth_In. unfold env_of. rewrite app_length, seq_length, Hl.
      apply Hqs. exact Hy.
Qed.

(* ------------------------------------------------------------------ substitution: a call is an instance *)
(* of the callee's own circuit *)
Definition sigma (n_args : nat) (acts : list nat) (idx : nat) (q : nat) : nat :=
  if q <? n_args then nth q acts 0 else q - n_args + idx.
Definition rn (r : nat -> nat) (g : gate) : gate := (fst g, map r (snd g)).

Lemma loc_env_sigma s acts idx q : length acts = nargs s -> q < nargs s + naux s ->
  loc (env_of acts idx (naux s)) q = sigma (nargs s) acts idx (loc (env_of (seq 0 (nargs s)) (nargs s) (naux s)) q).
Proof.
  intros Hl Hq. unfold loc, env_of, sigma.
  destruct (Nat.lt_ge_cases q (nargs s)) as [H|H].
  - rewrite !app_nth1 by (rewrite ?seq_length; lia). rewrite seq_nth by lia. cbn [Nat.add].
    replace (q <? nargs s) with true by (symmetry; apply Nat.ltb_lt; lia). reflexivity.
  - rewrite !app_nth2 by (rewrite ?seq_length; lia). rewrite Hl, seq_length, !seq_nth by lia.
    replace (nargs s + (q - nargs s) <? nargs s) with false by (symmetry; apply Nat.ltb_ge; lia). lia.
Qed.

Lemma map_flat_map {A B C} (g : B -> C) (f : A -> list B) l : map g (flat_map f l) = flat_map (fun x => map g (f x)) l.
Proof. induction l as [|x l IH]; simpl; [reflexivity|]. rewrite map_app, IH. reflexivity. Qed.
Lemma flat_map_ext_in {A B} (f g : A -> list B) l : (forall x, In x l -> f x = g x) -> flat_map f l = flat_map g l.
Proof. induction l as [|x l IH]; intros H; simpl; [reflexivity|]. rewrite (H x (or_introl eq_refl)), IH; [reflexivity|]. intros y Hy. apply H. right. exact Hy. Qed.

Theorem call_is_instance_of_callee P : wf_prog P -> forall f i s acts idx,
  nth_error P i = Some s -> length acts = nargs s ->
  heval f P i acts idx = map (rn (sigma (nargs s) acts idx)) (heval f P i (seq 0 (nargs s)) (nargs s)).
Proof.
  intros Hwf f. induction f as [|f IH]; intros i s acts idx Hs Hl; cbn [heval]; [reflexivity|].
  rewrite Hs. pose proof (Hwf i s Hs) as Hb. rewrite Forall_forall in Hb.
  rewrite map_flat_map. apply flat_map_ext_in. intros ins Hin. specialize (Hb ins Hin).
  destruct ins as [op qs|j qs]; cbn [inst_wf] in Hb.
  - cbn [map]. unfold rn. cbn [fst snd]. f_equal. f_equal. rewrite map_map. apply map_ext_in. intros q Hq.
    rewrite Forall_forall in Hb. apply loc_env_sigma; auto.
  - destruct Hb as [_ [[t [Ht Hlt]] Hqs]]. rewrite Forall_forall in Hqs.
    rewrite (IH j t (map (loc (env_of acts idx (naux s))) qs) (idx + naux s) Ht) by (rewrite map_length; exact Hlt).
    rewrite (IH j t (map (loc (env_of (seq 0 (nargs s)) (nargs s) (naux s))) qs) (nargs s + naux s) Ht) by (rewrite map_length; exact Hlt).
    rewrite map_map. apply map_ext. intros [op gq]. unfold rn. cbn [fst snd]. f_equal. rewrite map_map.
    apply map_ext. intros q. unfold sigma at 1 3.
    destruct (q <? nargs t) eqn:Eq.
    + apply Nat.ltb_lt in Eq. rewrite <- Hlt in Eq.
      set (f1 := loc (env_of acts idx (naux s))). set (f0 := loc (env_of (seq 0 (nargs s)) (nargs s) (naux s))).
      rewrite (nth_indep (map f1 qs) 0 (f1 0)) by (rewrite map_length; exact Eq).
      rewrite (nth_indep (map f0 qs) 0 (f0 0)) by (rewrite map_length; exact Eq).
      rewrite !map_nth. apply loc_env_sigma; auto. apply Hqs. apply nth_In. exact Eq.
    + unfold sigma. replace (q - nargs t + (nargs s + naux s) <? nargs s) with false by (symmetry; apply Nat.ltb_ge; lia). lia.
Qed.

(* ------------------------------------------------------------------ counters *)
Section Count.
Variable sel : nat -> bool.       (* the ops that are counted (all of them, or one base id) *)

(* plain recursive count, and plain recursive peak of auxiliary qubits *)
Fixpoint cnt (f : nat) (P : prog) (i : nat) : nat :=
  match f with
  | 0 => 0
  | S f' => match nth_error P i with
            | None => 0
            | Some s => fold_left (fun c ins => match ins with
                                                | IP op _ => if sel op then S c else c
                                                | IC j _ => c + cnt f' P j
                                                end) (body s) 0
            end
  end.
Fixpoint peak (f : nat) (P : prog) (i : nat) : nat :=
  match f with
  | 0 => 0
  | S f' => match nth_error P i with
            | None => 0
            | Some s => naux s + fold_left (fun m ins => match ins with IP _ _ => m | IC j _ => Nat.max m (peak f' P j) end) (body s) 0
            end
  end.

(* the memoising evaluators: cache : sub index -> option value.  enter_sub skips the body of a cached sub,
   exit_sub merges the callee's value into the caller in every case *)
Definition cache := list (nat * nat).
Fixpoint clookup (c : cache) (i : nat) : option nat :=
  match c with [] => None | (k, v) :: c' => if Nat.eqb k i then Some v else clookup c' i end.

Fixpoint gcount (f : nat) (P : prog) (i : nat) (c : cache) : cache * nat :=
  match clookup c i with
  | Some v => (c, v)
  | None =>
      match f with
      | 0 => (c, 0)
      | S f' =>
          match nth_error P i with
          | None => (c, 0)
          | Some s =>
              let '(c1, v) := fold_left (fun st ins => match ins with
                                                       | IP op _ => (fst st, if sel op then S (snd st) else snd st)
                                                       | IC j _ => let '(c2, w) := gcount f' P j (fst st) in (c2, snd st + w)
                                                       end) (body s) (c, 0) in
              ((i, v) :: c1, v)
          end
      end
  end.
Fixpoint acount (f : nat) (P : prog) (i : nat) (c : cache) : cache * nat :=
  match clookup c i with
  | Some v => (c, v)
  | None =>
      match f with
      | 0 => (c, 0)
      | S f' =>
          match nth_error P i with
          | None => (c, 0)
          | Some s =>
              let '(c1, m) := fold_left (fun st ins => match ins with
                                                       | IP _ _ => st
                                                       | IC j _ => let '(c2, w) := acount f' P j (fst st) in (c2, Nat.max (snd st) w)
                                                       end) (body s) (c, 0) in
              ((i, m + naux s) :: c1, m + naux s)
          end
      end
  end.

(* ---- the plain counts are what the generated circuit contains *)
Lemma cnt_is_gate_count f : forall P i acts idx,
  length (filter (fun g : gate => sel (fst g)) (heval f P i acts idx)) = cnt f P i.
Proof.
  induction f as [|f IH]; intros P i acts idx; cbn [heval cnt]; [reflexivity|].
  destruct (nth_error P i) as [s|]; [|reflexivity].
  set (env := env_of acts idx (naux s)).
  assert (G : forall b c, fold_left (fun c ins => match ins with
                                               | IP op _ => if sel op then S c else c
                                               | IC j _ => c + cnt f P j end) b c
                = c + length (filter (fun g : gate => sel (fst g))
                               (flat_map (fun ins => match ins with
                                                     | IP op qs => [(op, map (loc env) qs)]
                                                     | IC j qs => heval f P j (map (loc env) qs) (idx + naux s) end) b))).
  { induction b as [|ins b IHb]; intros c; cbn [fold_left flat_map]; [cbn; lia|].
    rewrite IHb, filter_app, app_length. destruct ins as [op qs|j qs].
    - cbn [filter fst]. destruct (sel op); simpl; [rewrite Nat.add_succ_r|]; reflexivity.
    - rewrite IH. symmetry. apply Nat.add_assoc. }
  rewrite G. reflexivity.
Qed.

Lemma hmax_shift f : forall P i idx, hmax f P i idx = idx + peak f P i.
Proof.
  induction f as [|f IH]; intros P i idx; cbn [hmax peak]; [lia|].
  destruct (nth_error P i) as [s|]; [|lia].
  assert (G : forall b k, fold_left (fun m ins => match ins with IP _ _ => m | IC j _ => Nat.max m (hmax f P j (idx + naux s)) end) b (idx + naux s + k)
                        = idx + naux s + fold_left (fun m ins => match ins with IP _ _ => m | IC j _ => Nat.max m (peak f P j) end) b k).
  { induction b as [|ins b IHb]; intros k; cbn [fold_left]; [reflexivity|]. destruct ins as [op qs|j qs]; [apply IHb|].
    rewrite IH. replace (Nat.max (idx + naux s + k) (idx + naux s + peak f P j)) with (idx + naux s + Nat.max k (peak f P j)) by lia.
    apply IHb. }
  specialize (G (body s) 0). rewrite Nat.add_0_r in G. rewrite G. lia.
Qed.

(* ---- fuel: any fuel of at least the rank length P - i gives the same value *)
Lemma fold_left_ext_in {A B} (f g : A -> B -> A) l : (forall a x, In x l -> f a x = g a x) -> forall a, fold_left f l a = fold_left g l a.
Proof. induction l as [|x l IH]; intros H a; simpl; [reflexivity|]. rewrite (H a x (or_introl eq_refl)). apply IH. intros a' y Hy. apply H. right. exact Hy. Qed.

Lemma cnt_fuel P : wf_prog P -> forall f f' i, length P - i <= f -> length P - i <= f' -> cnt f P i = cnt f' P i.
Proof.
  intros Hwf f. induction f as [|f IH]; intros f' i Hf Hf'.
  - assert (Hi : length P <= i) by lia. destruct f'; cbn [cnt]; [reflexivity|].
    rewrite (proj2 (nth_error_None P i) Hi). reflexivity.
  - destruct f' as [|f']; cbn [cnt].
    + assert (Hi : length P <= i) by lia. rewrite (proj2 (nth_error_None P i) Hi). reflexivity.
    + destruct (nth_error P i) as [s|] eqn:Es; [|reflexivity]. pose proof (Hwf i s Es) as Hb. rewrite Forall_forall in Hb.
      apply fold_left_ext_in. intros c ins Hin. specialize (Hb ins Hin). destruct ins as [op qs|j qs]; [reflexivity|].
      destruct Hb as [Hij _]. rewrite (IH f' j); [reflexivity|lia|lia].
Qed.
Lemma peak_fuel P : wf_prog P -> forall f f' i, length P - i <= f -> length P - i <= f' -> peak f P i = peak f' P i.
Proof.
  intros Hwf f. induction f as [|f IH]; intros f' i Hf Hf'.
  - assert (Hi : length P <= i) by lia. destruct f'; cbn [peak]; [reflexivity|].
    rewrite (proj2 (nth_error_None P i) Hi). reflexivity.
  - destruct f' as [|f']; cbn [peak].
    + assert (Hi : length P <= i) by lia. rewrite (proj2 (nth_error_None P i) Hi). reflexivity.
    + destruct (nth_error P i) as [s|] eqn:Es; [|reflexivity]. pose proof (Hwf i s Es) as Hb. rewrite Forall_forall in Hb.
      f_equal. apply fold_left_ext_in. intros c ins Hin. specialize (Hb ins Hin). destruct ins as [op qs|j qs]; [reflexivity|].
      destruct Hb as [Hij _]. rewrite (IH f' j); [reflexivity|lia|lia].
Qed.

(* ---- the memoising evaluators compute the plain values *)
Definition cache_ok (val : nat -> nat) (c : cache) : Prop := forall j v, clookup c j = Some v -> v = val j.

Lemma gcount_correct P : wf_prog P -> forall f i c, length P - i <= f -> cache_ok (fun j => cnt (length P - j) P j) c ->
  snd (gcount f P i c) = cnt (length P - i) P i /\ cache_ok (fun j => cnt (length P - j) P j) (fst (gcount f P i c)).
Proof.
  intros Hwf f. induction f as [|f IH]; intros i c Hf Hc.
  - cbn [gcount]. destruct (clookup c i) as [v|] eqn:El; cbn [fst snd]; [split; [exact (Hc i v El)|exact Hc]|].
    split; [|exact Hc]. assert (Hi : length P <= i) by lia. replace (length P - i) with 0 by lia. reflexivity.
  - cbn [gcount]. destruct (clookup c i) as [v|] eqn:El; cbn [fst snd]; [split; [exact (Hc i v El)|exact Hc]|].
    destruct (nth_error P i) as [s|] eqn:Es.
    + pose proof (Hwf i s Es) as Hb.
      assert (Hi : i < length P) by (apply nth_error_Some; congruence).
      assert (Hr : length P - i = S (length P - S i)) by lia.
      (* invariant of the loop over the body *)
      assert (G : forall b, Forall (inst_wf P i s) b -> forall st, cache_ok (fun j => cnt (length P - j) P j) (fst st) ->
        let st' := fold_left (fun st ins => match ins with
                                            | IP op _ => (fst st, if sel op then S (snd st) else snd st)
                                            | IC j _ => let '(c2, w) := gcount f P j (fst st) in (c2, snd st + w)
                                            end) b st in
        cache_ok (fun j => cnt (length P - j) P j) (fst st') /\
        snd st' = fold_left (fun c ins => match ins with
                                         | IP op _ => if sel op then S c else c
                                         | IC j _ => c + cnt (length P - S i) P j end) b (snd st)).
      { induction b as [|ins b IHb]; intros Hwb st Hst; cbn [fold_left]; [split; [exact Hst|reflexivity]|].
        inversion Hwb as [|? ? Hins Hwb']; subst. destruct ins as [op qs|j qs].
        - apply (IHb Hwb' (fst st, if sel op then S (snd st) else snd st)). exact Hst.
        - destruct Hins as [Hij _]. destruct (IH j (fst st) ltac:(lia) Hst) as [Hv Hc2].
          destruct (gcount f P j (fst st)) as [c2 w] eqn:Eg. cbn [fst snd] in Hv, Hc2.
          destruct (IHb Hwb' (c2, snd st + w) Hc2) as [A B]. split; [exact A|]. rewrite B. cbn [snd].
          rewrite Hv. rewrite (cnt_fuel P Hwf (length P - j) (length P - S i) j) by lia. reflexivity. }
      destruct (G (body s) Hb (c, 0) Hc) as [Gc Gv].
      destruct (fold_left _ (body s) (c, 0)) as [c1 v] eqn:Ef. cbn [fst snd] in *.
      assert (Hval : v = cnt (length P - i) P i).
      { rewrite Hr. cbn [cnt]. rewrite Es. exact Gv. }
      split; [exact Hval|]. intros j w. cbn [clookup]. destruct (Nat.eqb_spec i j) as [->|Hne].
      * intros [= <-]. exact Hval.
      * apply Gc.
    + cbn [fst snd]. split; [|exact Hc]. assert (Hi : length P <= i) by (apply nth_error_None; exact Es).
      replace (length P - i) with 0 by lia. reflexivity.
Qed.

Lemma acount_correct P : wf_prog P -> forall f i c, length P - i <= f -> cache_ok (fun j => peak (length P - j) P j) c ->
  snd (acount f P i c) = peak (length P - i) P i /\ cache_ok (fun j => peak (length P - j) P j) (fst (acount f P i c)).
Proof.
  intros Hwf f. induction f as [|f IH]; intros i c Hf Hc.
  - cbn [acount]. destruct (clookup c i) as [v|] eqn:El; cbn [fst snd]; [split; [exact (Hc i v El)|exact Hc]|].
    split; [|exact Hc]. replace (length P - i) with 0 by lia. reflexivity.
  - cbn [acount]. destruct (clookup c i) as [v|] eqn:El; cbn [fst snd]; [split; [exact (Hc i v El)|exact Hc]|].
    destruct (nth_error P i) as [s|] eqn:Es.
    + pose proof (Hwf i s Es) as Hb.
      assert (Hi : i < length P) by (apply nth_error_Some; congruence).
      assert (Hr : length P - i = S (length P - S i)) by lia.
      assert (G : forall b, Forall (inst_wf P i s) b -> forall st, cache_ok (fun j => peak (length P - j) P j) (fst st) ->
        let st' := fold_left (fun st ins => match ins with
                                            | IP _ _ => st
                                            | IC j _ => let '(c2, w) := acount f P j (fst st) in (c2, Nat.max (snd st) w)
                                            end) b st in
        cache_ok (fun j => peak (length P - j) P j) (fst st') /\
        snd st' = fold_left (fun m ins => match ins with IP _ _ => m | IC j _ => Nat.max m (peak (length P - S i) P j) end) b (snd st)).
      { induction b as [|ins b IHb]; intros Hwb st Hst; cbn [fold_left]; [split; [exact Hst|reflexivity]|].
        inversion Hwb as [|? ? Hins Hwb']; subst. destruct ins as [op qs|j qs].
        - apply (IHb Hwb' st). exact Hst.
        - destruct Hins as [Hij _]. destruct (IH j (fst st) ltac:(lia) Hst) as [Hv Hc2].
          destruct (acount f P j (fst st)) as [c2 w] eqn:Eg. cbn [fst snd] in Hv, Hc2.
          destruct (IHb Hwb' (c2, Nat.max (snd st) w) Hc2) as [A B]. split; [exact A|]. rewrite B. cbn [snd].
          rewrite Hv. rewrite (peak_fuel P Hwf (length P - j) (length P - S i) j) by lia. reflexivity. }
      destruct (G (body s) Hb (c, 0) Hc) as [Gc Gv].
      destruct (fold_left _ (body s) (c, 0)) as [c1 m] eqn:Ef. cbn [fst snd] in *.
      assert (Hval : m + naux s = peak (length P - i) P i).
      { rewrite Hr. cbn [peak]. rewrite Es, Gv. lia. }
      split; [exact Hval|]. intros j w. cbn [clookup]. destruct (Nat.eqb_spec i j) as [->|Hne].
      * intros [= <-]. exact Hval.
      * apply Gc.
    + cbn [fst snd]. split; [|exact Hc]. assert (Hi : length P <= i) by (apply nth_error_None; exact Es).
      replace (length P - i) with 0 by lia. reflexivity.
Qed.

(* the gate-count evaluator reports the number of (selected) gates of the generated circuit, the auxiliary-
   qubit evaluator the peak of the allocator above the arguments of the entry sub *)
Theorem gate_count_evaluator_exact P : wf_prog P ->
  snd (gcount (length P) P 0 []) = length (filter (fun g : gate => sel (fst g)) (run P)).
Proof.
  intros Hwf. destruct (gcount_correct P Hwf (length P) 0 [] ltac:(lia) ltac:(intros j v; discriminate)) as [H _].
  rewrite H, Nat.sub_0_r. unfold run. destruct P as [|s P']; [reflexivity|]. symmetry. apply cnt_is_gate_count.
Qed.
Theorem aux_count_evaluator_exact P s P' : P = s :: P' -> wf_prog P ->
  snd (acount (length P) P 0 []) = hmax (length P) P 0 (nargs s) - nargs s.
Proof.
  intros -> Hwf. destruct (acount_correct _ Hwf (length (s :: P')) 0 [] ltac:(lia) ltac:(intros j v; discriminate)) as [H _].
  rewrite H, Nat.sub_0_r, hmax_shift. lia.
Qed.
End Count.
