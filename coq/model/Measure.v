(* Model of core/measurement/bitwise_commuting_pauli.py:
   measurement circuit of a qubit-wise commuting set (H for X, Sdag;H for Y, nothing for Z) and the
   reconstructor (parity of the outcome bits on the support).  Main theorem: for every member P of
   the set, V P = Z_{supp P} V, i.e. V P V^dagger = Z on the support of P, for sets of any size on
   registers of any size; hence the reconstructor value (-1)^{popcount(b & support)} is exactly
   <b| V P V^dagger |b>. *)
From Coq Require Import ZArith NArith List Bool Arith Lia Reals FunctionalExtensionality Permutation.
From QP Require Import Cx Zw Asum FMat Lpoly Apply Local Gates Rsem.
From QPM Require Import Transpile Pauli Conj Operator CompBasis.
Import ListNotations.
Local Open Scope C_scope.

(* rotation gates for one entry of pauli_map, as a table (regenerated from the source) *)
Definition rot_table := pauli -> list gkind.
Definition rot_gates (rt : rot_table) (ip : nat * pauli) : list gate :=
  map (fun k => mkG k [fst ip] []) (rt (snd ip)).
Definition meas_circuit (rt : rot_table) (m : label) : list gate := flat_map (rot_gates rt) m.

Definition rot_ok (rt : rot_table) : bool :=
  forallb (fun p =>
    let rot := map (fun k => mkG k [0%nat] []) (rt p) in
    let rot1 := map (fun k => mkG k [1%nat] []) (rt p) in
    (* V sigma_p = Z V on the rotated qubit *)
    check_exact [0%nat] (map eg (mkG (pk p) [0%nat] [] :: rot)) (map eg (rot ++ [mkG KZ [0%nat] []])) zw1 &&
    (* the rotation commutes with every Pauli on another qubit *)
    forallb (fun q => check_exact [0%nat; 1%nat] (map eg (mkG (pk q) [0%nat] [] :: rot1))
                                  (map eg (rot1 ++ [mkG (pk q) [0%nat] []])) zw1) all_pauli) all_pauli.

Definition zstring (l : label) : label := map (fun ip => (fst ip, PZ)) l.
Definition sub_label (l m : label) : Prop := forall ip, In ip l -> In ip m.

Section Meas.
Variable rt : rot_table.
Hypothesis rt_ok : rot_ok rt = true.

Definition V (m : label) : list lgate := map ksem (meas_circuit rt m).

Lemma rot_own i p :
  csem (psem (i, p) :: map ksem (rot_gates rt (i, p))) = csem (map ksem (rot_gates rt (i, p)) ++ [psem (i, PZ)]).
Proof.
  pose proof rt_ok as H. unfold rot_ok in H. rewrite forallb_forall in H. specialize (H p (in_all_pauli p)).
  apply andb_true_iff in H as [H _].
  pose proof (exact_placed 1 (mkG (pk p) [0%nat] [] :: map (fun k => mkG k [0%nat] []) (rt p))
                (map (fun k => mkG k [0%nat] []) (rt p) ++ [mkG KZ [0%nat] []]) zw1 [i] H (nodup1 i)) as E.
  rewrite scaleop_1 in E.
  unfold rot_gates. simpl fst; simpl snd.
  rewrite !map_app, !map_map in E. simpl map in E. rewrite ?map_map in E.
  rewrite map_map. exact E.
Qed.

Lemma rot_other i p j q : i <> j ->
  csem (psem (j, q) :: map ksem (rot_gates rt (i, p))) = csem (map ksem (rot_gates rt (i, p)) ++ [psem (j, q)]).
Proof.
  intros Hij. pose proof rt_ok as H. unfold rot_ok in H. rewrite forallb_forall in H.
  specialize (H p (in_all_pauli p)). apply andb_true_iff in H as [_ H].
  rewrite forallb_forall in H. specialize (H q (in_all_pauli q)).
  pose proof (exact_placed 2 (mkG (pk q) [0%nat] [] :: map (fun k => mkG k [1%nat] []) (rt p))
                (map (fun k => mkG k [1%nat] []) (rt p) ++ [mkG (pk q) [0%nat] []]) zw1 [j; i] H
                (nodup2 j i (fun E => Hij (eq_sym E)))) as E.
  rewrite scaleop_1 in E.
  unfold rot_gates. simpl fst; simpl snd.
  rewrite !map_app, !map_map in E. simpl map in E. rewrite ?map_map in E.
  rewrite map_map. exact E.
Qed.

(* a Pauli on qubit j passes the whole measurement circuit of a map that does not contain j *)
Lemma pauli_through_V j q m : ~ In j (keys m) ->
  csem (psem (j, q) :: V m) = csem (V m ++ [psem (j, q)]).
Proof.
  unfold V, meas_circuit. induction m as [|[i p] m IH]; intros Hj; [reflexivity|].
  simpl flat_map. rewrite map_app. simpl in Hj.
  set (R := map ksem (rot_gates rt (i, p))). set (W := map ksem (flat_map (rot_gates rt) m)) in *.
  assert (E1 : csem (psem (j, q) :: R) = csem (R ++ [psem (j, q)]))
    by (apply rot_other; intros E; apply Hj; left; auto).
  assert (E2 : csem (psem (j, q) :: W) = csem (W ++ [psem (j, q)]))
    by (apply IH; intros E; apply Hj; right; auto).
  apply functional_extensionality; intros psi.
  change (psem (j, q) :: R ++ W) with ((psem (j, q) :: R) ++ W).
  rewrite csem_app, E1, csem_app. rewrite <- app_assoc, csem_app.
  change (csem W (csem [psem (j, q)] (csem R psi))) with (csem (psem (j, q) :: W) (csem R psi)).
  rewrite E2. reflexivity.
Qed.

(* a whole label on qubits outside the map passes V *)
Lemma label_through_V l m : (forall i, In i (keys l) -> ~ In i (keys m)) ->
  csem (map psem l ++ V m) = csem (V m ++ map psem l).
Proof.
  induction l as [|[j q] l IH]; intros H; [simpl; rewrite app_nil_r; reflexivity|].
  simpl map.
  assert (E1 : csem (map psem l ++ V m) = csem (V m ++ map psem l))
    by (apply IH; intros i Hi; apply H; right; auto).
  assert (E2 : csem (psem (j, q) :: V m) = csem (V m ++ [psem (j, q)]))
    by (apply pauli_through_V; apply H; left; auto).
  apply functional_extensionality; intros psi.
  change ((psem (j, q) :: map psem l) ++ V m) with ([psem (j, q)] ++ (map psem l ++ V m)).
  rewrite csem_app, E1, csem_app.
  change (csem (V m) (csem [psem (j, q)] psi)) with (csem (psem (j, q) :: V m) psi).
  rewrite E2, csem_app.
  change (psem (j, q) :: map psem l) with ([psem (j, q)] ++ map psem l).
  rewrite !csem_app. reflexivity.
Qed.

Lemma V_cons i p m : V ((i, p) :: m) = V [(i, p)] ++ V m.
Proof. unfold V, meas_circuit. simpl. rewrite app_nil_r, map_app. reflexivity. Qed.

Lemma keys_zstring l : keys (zstring l) = keys l.
Proof. unfold keys, zstring. rewrite map_map. reflexivity. Qed.

Lemma In_keys i p (l : label) : In (i, p) l -> In i (keys l).
Proof. intros H. unfold keys. change i with (fst (i, p)). apply in_map, H. Qed.

Lemma premove_keys i l : forall j, In j (keys (premove i l)) -> In j (keys l).
Proof. induction l as [|[k r] l IH]; simpl; intros j H; auto.
  destruct (Nat.eqb i k); simpl in *; [right; auto | destruct H; auto]. Qed.

Lemma premove_perm i p l : NoDup (keys l) -> In (i, p) l -> Permutation l ((i, p) :: premove i l) /\ ~ In i (keys (premove i l)).
Proof.
  induction l as [|[k r] l IH]; simpl; intros Hnd Hin; [tauto|].
  inversion Hnd as [|? ? Hk Hnd']; subst.
  destruct (Nat.eqb_spec i k) as [->|Hne].
  - destruct Hin as [E|Hin].
    + inversion E; subst. split; [apply Permutation_refl | exact Hk].
    + exfalso. apply Hk. eapply In_keys; eauto.
  - destruct Hin as [E|Hin]; [inversion E; subst; contradiction|].
    destruct (IH Hnd' Hin) as [Hp Hni]. split.
    + eapply perm_trans; [apply perm_skip, Hp | apply perm_swap].
    + simpl. intros [E|E]; [auto | auto].
Qed.

Lemma premove_In i l : forall x, In x (premove i l) -> In x l.
Proof. induction l as [|[k r] l IH]; simpl; intros x H; auto.
  destruct (Nat.eqb i k); simpl in *; [right; auto | destruct H; auto]. Qed.

Lemma NoDup_premove i l : NoDup (keys l) -> NoDup (keys (premove i l)).
Proof. induction l as [|[k r] l IH]; simpl; intros H; auto. inversion H; subst.
  destruct (Nat.eqb i k); auto. simpl. constructor; auto. intros Hin. apply premove_keys in Hin. auto. Qed.

(* V P = Z_{supp P} V for every member P of a qubit-wise commuting set with Pauli map m *)
Theorem measurement_circuit_diagonalises m : NoDup (keys m) ->
  forall P, NoDup (keys P) -> sub_label P m ->
  csem (map psem P ++ V m) = csem (V m ++ map psem (zstring P)).
Proof.
  induction m as [|[i p] m IH]; intros Hm P HP Hsub.
  - destruct P as [|x P]; [reflexivity | exfalso; apply (Hsub x); left; reflexivity].
  - inversion Hm as [|? ? Hi Hm']; subst.
    rewrite V_cons.
    destruct (in_dec Nat.eq_dec i (keys P)) as [Hin|Hnin].
    + (* the set's Pauli at qubit i is the one of P *)
      assert (HinP : In (i, p) P).
      { unfold keys in Hin. apply in_map_iff in Hin as [[i' p'] [E Hx]]. simpl in E; subst i'.
        destruct (Hsub _ Hx) as [E|Hm2]; [inversion E; subst; auto|].
        exfalso. apply Hi. eapply In_keys; eauto. }
      destruct (premove_perm i p P HP HinP) as [Hperm Hni].
      set (P' := premove i P) in *.
      assert (HP' : NoDup (keys P')) by (apply NoDup_premove; auto).
      assert (Hsub' : sub_label P' m).
      { intros x Hx. pose proof (premove_In i P x Hx) as HxP. destruct (Hsub x HxP) as [E|H]; auto.
        subst x. exfalso. apply Hni. eapply In_keys; eauto. }
      (* reorder P as P' ++ [(i,p)] *)
      assert (Hperm2 : Permutation P (P' ++ [(i, p)])).
      { eapply perm_trans; [exact Hperm|]. apply Permutation_cons_append. }
      assert (EP : csem (map psem P) = csem (map psem (P' ++ [(i, p)]))) by (apply (lsemL_perm _ _ Hperm2 HP)).
      assert (EZ : csem (map psem (zstring P)) = csem (map psem (zstring (P' ++ [(i, p)])))).
      { apply (lsemL_perm (zstring P) (zstring (P' ++ [(i, p)]))).
        - unfold zstring. apply Permutation_map, Hperm2.
        - rewrite keys_zstring. exact HP. }
      assert (R1 : csem (psem (i, p) :: V [(i, p)]) = csem (V [(i, p)] ++ [psem (i, PZ)])).
      { unfold V, meas_circuit. simpl flat_map. rewrite app_nil_r. apply rot_own. }
      assert (R2 : csem (map psem P' ++ V [(i, p)]) = csem (V [(i, p)] ++ map psem P')).
      { apply label_through_V. intros j Hj. simpl. intros [E|[]]. subst j. contradiction. }
      assert (R3 : csem (psem (i, PZ) :: V m) = csem (V m ++ [psem (i, PZ)])) by (apply pauli_through_V; auto).
      pose proof (IH Hm' P' HP' Hsub') as R4.
      (* normal forms: every csem applied to a primitive list *)
      assert (EPn : forall f, csem (map psem P) f = csem [psem (i, p)] (csem (map psem P') f)).
      { intros f. rewrite EP, map_app, csem_app. reflexivity. }
      assert (EZn : forall f, csem (map psem (zstring P)) f = csem [psem (i, PZ)] (csem (map psem (zstring P')) f)).
      { intros f. rewrite EZ. unfold zstring. rewrite map_app, map_app, csem_app. reflexivity. }
      assert (R1n : forall f, csem (V [(i, p)]) (csem [psem (i, p)] f) = csem [psem (i, PZ)] (csem (V [(i, p)]) f)).
      { intros f. change (csem (V [(i, p)]) (csem [psem (i, p)] f)) with (csem (psem (i, p) :: V [(i, p)]) f).
        rewrite R1, csem_app. reflexivity. }
      assert (R2n : forall f, csem (V [(i, p)]) (csem (map psem P') f) = csem (map psem P') (csem (V [(i, p)]) f)).
      { intros f. rewrite <- !csem_app, R2. reflexivity. }
      assert (R3n : forall f, csem (V m) (csem [psem (i, PZ)] f) = csem [psem (i, PZ)] (csem (V m) f)).
      { intros f. change (csem (V m) (csem [psem (i, PZ)] f)) with (csem (psem (i, PZ) :: V m) f).
        rewrite R3, csem_app. reflexivity. }
      assert (R4n : forall f, csem (V m) (csem (map psem P') f) = csem (map psem (zstring P')) (csem (V m) f)).
      { intros f. rewrite <- !csem_app, R4. reflexivity. }
      apply functional_extensionality; intros psi.
      rewrite !csem_app. rewrite EPn, R1n, R3n, R2n, R4n, EZn. reflexivity.
    + (* P does not touch qubit i *)
      assert (Hsub' : sub_label P m).
      { intros x Hx. destruct (Hsub x Hx) as [E|H]; auto. subst x. exfalso. apply Hnin. eapply In_keys; eauto. }
      assert (R2 : csem (map psem P ++ V [(i, p)]) = csem (V [(i, p)] ++ map psem P)).
      { apply label_through_V. intros j Hj. simpl. intros [E|[]]. subst j. contradiction. }
      pose proof (IH Hm' P HP Hsub') as R4.
      assert (R2n : forall f, csem (V [(i, p)]) (csem (map psem P) f) = csem (map psem P) (csem (V [(i, p)]) f)).
      { intros f. rewrite <- !csem_app, R2. reflexivity. }
      assert (R4n : forall f, csem (V m) (csem (map psem P) f) = csem (map psem (zstring P)) (csem (V m) f)).
      { intros f. rewrite <- !csem_app, R4. reflexivity. }
      apply functional_extensionality; intros psi.
      rewrite !csem_app. rewrite R2n, R4n. reflexivity.
Qed.
End Meas.
