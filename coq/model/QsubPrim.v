(* qsub primitives (lib/std + eval/quriparts.py): constant gates and rotations about one Pauli.  With the regenerated
   tables - (kind, inverse kind) for the constant ops incl. the self-inverse ones, angle scale of the rotation resolver -
   every sub-routine made of primitives is undone EXACTLY (phase included) by the sub-routine the Inverse resolver builds. *)
From Coq Require Import ZArith List Bool Arith Lia Reals FunctionalExtensionality.
From QP Require Import Cx Zw Asum FMat Lpoly Apply Local LocalScaled Gates Rsem.
From QPM Require Import Transpile Pauli Conj PauliRot PauliRotInv Sinus QsubInverse.
Import ListNotations.
Local Open Scope C_scope.

Inductive prim := PC (k : gkind) (qs : list nat) | PR (p : pauli) (q : nat) (theta : R).

Definition prim_sem (o : prim) : Op :=
  match o with
  | PC k qs => lsem (ksem (placeg qs (canon k)))
  | PR p q t => prot t [(q, p)]
  end.

Fixpoint klookup (tab : list (gkind * gkind)) (k : gkind) : option gkind :=
  match tab with [] => None | (a, b) :: r => if gkind_eqb k a then Some b else klookup r k end.

Definition kinv (tab : list (gkind * gkind)) (k : gkind) : gkind :=
  match klookup tab k with Some k' => k' | None => k end.
Definition prim_inv (tab : list (gkind * gkind)) (scale : Z) (o : prim) : prim :=
  match o with
  | PC k qs => PC (kinv tab k) qs
  | PR p q t => PR p q (IZR scale * t)
  end.

(* the obligation per regenerated row: constant kind, same arity, [g ; g'] is EXACTLY the identity *)
Definition pair_exact (e : gkind * gkind) : bool :=
  let '(k, k') := e in
  Nat.eqb (nparams k) 0 && Nat.eqb (nparams k') 0 && Nat.eqb (arity k) (arity k') &&
  check_exact_scaled (seq 0 (arity k)) (map eg [canon k; canon k']) [] zw1 (Nat.div2 (sumS (map eg [canon k; canon k']))).

Definition prim_ok (tab : list (gkind * gkind)) (o : prim) : Prop :=
  match o with
  | PC k qs => (exists k', klookup tab k = Some k') /\ NoDup qs
  | PR _ _ _ => True
  end.

(* exact identities between a placed constant-gate list and the empty list, exponents of 1/sqrt2 included *)
Lemma exact_scaled_placed n gs z k qs psi b :
  check_exact_scaled (seq 0 n) (map eg gs) [] z k = true -> NoDup qs ->
  csem (map ksem (map (placeg qs) gs)) psi b = zw_eval z * psi b.
Proof.
  intros Hc Hnd. rewrite map_map.
  assert (E : map (fun g => ksem (placeg qs g)) gs = map (fun g => sgate rho0 (pi_of qs) (eg g)) gs).
  { apply map_ext. intros; apply ksem_place. }
  rewrite E. rewrite <- (map_map eg (sgate rho0 (pi_of qs))).
  rewrite (local_exact_scaled rho0 rho0_unit (pi_of qs) (pi_of_inj qs Hnd) (seq 0 n) (map eg gs) [] z k Hc psi b).
  reflexivity.
Qed.

Lemma klookup_in tab k k' : klookup tab k = Some k' -> In (k, k') tab.
Proof.
  induction tab as [|[a b] r IH]; cbn [klookup]; [discriminate|].
  destruct (gkind_eqb k a) eqn:E.
  - intros H. injection H as <-. apply Transpile.gkind_eqb_eq in E. subst a. left; reflexivity.
  - intros H. right. apply IH. exact H.
Qed.

Lemma linear_scal U : linear U -> scal_lin U.
Proof.
  intros L c psi b. specialize (L c C0 psi psi).
  replace (fun x => c * psi x) with (fun x => c * psi x + C0 * psi x) by (apply functional_extensionality; intros x; ring).
  rewrite L. ring.
Qed.

Lemma prim_sem_lin o : scal_lin (prim_sem o).
Proof. destruct o as [k qs|p q t]; cbn [prim_sem]; [apply lsem_lin|apply linear_scal, prot_linear]. Qed.

Theorem primitive_inverse_exact tab scale o :
  forallb pair_exact tab = true -> scale = (-1)%Z -> prim_ok tab o ->
  forall psi, prim_sem (prim_inv tab scale o) (prim_sem o psi) = psi.
Proof.
  intros Htab Hs Hok psi. destruct o as [k qs|p q t]; cbn [prim_sem prim_inv].
  - destruct Hok as [[k' Hk] Hnd]. unfold kinv. rewrite Hk. apply klookup_in in Hk.
    rewrite forallb_forall in Htab. specialize (Htab _ Hk). cbn [pair_exact] in Htab.
    apply andb_true_iff in Htab as [Htab Hx]. clear Htab.
    apply functional_extensionality; intros b.
    pose proof (exact_scaled_placed (arity k) [canon k; canon k'] zw1 _ qs psi b Hx Hnd) as E.
    cbn [map] in E. rewrite zw_eval_1 in E. unfold csem in E. cbn [fold_left] in E. rewrite E. ring.
  - subst scale. replace (IZR (-1) * t)%R with (- t)%R by (simpl; ring).
    apply prot_inverse. cbn. constructor; [intros []|constructor].
Qed.

(* every sub-routine of primitives is undone exactly by the sub-routine the Inverse resolver builds *)
Theorem primitive_sub_inverse_undoes tab scale (s : sub prim) :
  forallb pair_exact tab = true -> scale = (-1)%Z ->
  (forall o, In o (snd s) -> prim_ok tab o) ->
  forall psi b, sub_sem prim prim_sem (inverse_sub prim (prim_inv tab scale) s) (sub_sem prim prim_sem s psi) b = psi b.
Proof.
  intros Htab Hs Hok. apply inverse_sub_undoes.
  - intros o _. apply prim_sem_lin.
  - intros o Ho psi. apply primitive_inverse_exact; auto.
Qed.
