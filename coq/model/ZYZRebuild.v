(* SingleQubitUnitaryMatrix2RYRZTranspiler (fix 835fc47): the second row rebuilt from the first row (a, b) and the unit
   determinant factor D - (-D conj b, D conj a) - gives, whenever |a|^2 + |b|^2 = 1, a unitary matrix with determinant D:
   its entries are consistent whatever the (possibly meaningless) phases of a and b are. *)
From Coq Require Import Reals Lra.
From QP Require Import Cx.
Local Open Scope C_scope.

Definition rebuilt_row (a b D : C) : C * C := (- (D * Cconj b), D * Cconj a).

Theorem rebuilt_matrix_is_unitary (a b D : C) :
  (Cnorm2 a + Cnorm2 b = 1)%R -> Cnorm2 D = 1%R ->
  let '(c, d) := rebuilt_row a b D in
  a * Cconj a + b * Cconj b = C1 /\ c * Cconj c + d * Cconj d = C1 /\
  a * Cconj c + b * Cconj d = C0 /\ a * d - b * c = D.
Proof.
  destruct a as [ar ai], b as [br bi], D as [dr di]. unfold Cnorm2, rebuilt_row, Cconj, C1, C0; cbn.
  intros H HD.
  assert (P : ((ar * ar + ai * ai + (br * br + bi * bi)) * (dr * dr + di * di) = 1)%R) by (rewrite H, HD; ring).
  assert (Q1 : (dr * (ar * ar + ai * ai + (br * br + bi * bi)) = dr)%R) by (rewrite H; ring).
  assert (Q2 : (di * (ar * ar + ai * ai + (br * br + bi * bi)) = di)%R) by (rewrite H; ring).
  repeat split; apply C_eq; cbn; try lra; try nra; ring_simplify; ring_simplify in P; ring_simplify in Q1; ring_simplify in Q2; try lra; nra.
Qed.
