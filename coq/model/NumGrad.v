(* Convergence of the central-difference gradient (gradient.py numerical_gradient_estimates:
   (E(x + delta/2 e_i) - E(x - delta/2 e_i)) / delta) to the derivative, hence to the parameter-shift value. *)
From Coq Require Import Reals Lra List.
From QPM Require Import ParamShift.
Import ListNotations.
Local Open Scope R_scope.

Definition central_difference (f : R -> R) (x delta : R) : R := (f (x + delta * / 2) - f (x - delta * / 2)) / delta.

Theorem central_difference_converges f x l : derivable_pt_lim f x l ->
  forall eps, 0 < eps -> exists d, 0 < d /\ forall delta, delta <> 0 -> Rabs delta < d ->
  Rabs (central_difference f x delta - l) < eps.
Proof.
  intros Hd eps Heps. destruct (Hd eps Heps) as [dl H]. exists (2 * dl). split; [destruct dl as [dv Hdv]; simpl; lra|].
  intros delta Hnz Hlt. unfold central_difference.
  set (h := delta * / 2).
  assert (Hh : h <> 0) by (unfold h; intros E; apply Hnz; lra).
  assert (Hhl : Rabs h < dl).
  { unfold h. rewrite Rabs_mult, (Rabs_right (/ 2)) by lra. lra. }
  assert (Hmh : - h <> 0) by lra.
  assert (Hmhl : Rabs (- h) < dl) by (rewrite Rabs_Ropp; exact Hhl).
  pose proof (H h Hh Hhl) as H1. pose proof (H (- h) Hmh Hmhl) as H2.
  replace (x - h) with (x + - h) by lra.
  replace ((f (x + h) - f (x + - h)) / delta - l)
    with (((f (x + h) - f x) / h - l) * / 2 + ((f (x + - h) - f x) / - h - l) * / 2).
  - eapply Rle_lt_trans; [apply Rabs_triang|]. rewrite !Rabs_mult, (Rabs_right (/ 2)) by lra. lra.
  - unfold h. field; repeat split; try assumption; lra.
Qed.

(* for every expectation function of sinusoidal form, the numerical gradient along an input parameter converges,
   as the step goes to 0, to the value of the parameter-shift derivative object *)
Theorem numerical_gradient_converges_to_parameter_shift T P x d : (depth T <= P)%nat ->
  forall eps, 0 < eps -> exists dl, 0 < dl /\ forall delta, delta <> 0 -> Rabs delta < dl ->
  Rabs (central_difference (fun t => teval T 0 (line x d t)) 0 delta
        - deval (teval T 0) (line x d 0) (get_derivative (seq 0 P) d [([], 1)])) < eps.
Proof.
  intros HP. apply central_difference_converges.
  eapply derivable_pt_lim_ext; [|apply (shift_derivative_exact T P x d [([], 1)] 0 HP)].
  intros t. unfold deval. cbn [fold_right fst snd].
  rewrite (teval_ext T 0 (shifted (line x d t) []) (line x d t)); [ring|].
  intros p. unfold shifted. cbn [sget]. ring.
Qed.
