(* Model of core/operator/representation/bsf.py (pauli_label_to_bsv, bsv_bitwise_commute) and of
   core/operator/grouping/pauli_grouping.py (_add_pauli_to_groups, sorted_injection_grouping and the
   greedy part of bitwise_pauli_grouping).  Masks are N, exactly as the Python ints. *)
From Coq Require Import ZArith NArith List Bool Arith Lia Permutation.
From QPM Require Import Pauli Remap.
Import ListNotations.

Definition sx (o : option pauli) : bool := match o with Some PX | Some PY => true | _ => false end.
Definition sz (o : option pauli) : bool := match o with Some PY | Some PZ => true | _ => false end.

(* pauli_label_to_bsv: x += 1<<i for X,Y ; z += 1<<i for Y,Z *)
Definition lsum (sel : pauli -> bool) (l : label) (acc : N) : N :=
  fold_left (fun acc ip => if sel (snd ip) then (acc + pow2 (fst ip))%N else acc) l acc.
Definition bsv_x (l : label) : N := lsum (fun p => match p with PX | PY => true | PZ => false end) l 0.
Definition bsv_z (l : label) : N := lsum (fun p => match p with PY | PZ => true | PX => false end) l 0.
(* bsv_bitwise_commute *)
Definition bsv_commute (x1 z1 x2 z2 : N) : bool := N.eqb (N.lxor (N.land x1 z2) (N.land z1 x2)) 0.

Lemma plookup_notin i (l : label) : ~ In i (keys l) -> plookup i l = None.
Proof. induction l as [|[j q] l IH]; simpl; auto. intros H.
  destruct (Nat.eqb_spec i j) as [->|Hne]; [exfalso; auto | apply IH; auto]. Qed.

Lemma lsum_testbit sel l : NoDup (keys l) -> forall acc,
  (forall i, In i (keys l) -> N.testbit acc (N.of_nat i) = false) ->
  forall j, N.testbit (lsum sel l acc) (N.of_nat j)
            = N.testbit acc (N.of_nat j) || match plookup j l with Some p => sel p | None => false end.
Proof.
  unfold lsum. induction l as [|[i p] l IH]; intros Hnd acc Hacc j.
  - simpl. rewrite orb_false_r. reflexivity.
  - inversion Hnd as [|? ? Hi Hnd']; subst. cbn [fold_left fst snd].
    assert (Hfresh : N.testbit acc (N.of_nat i) = false) by (apply Hacc; left; reflexivity).
    assert (Hl : plookup j ((i, p) :: l) = if Nat.eqb j i then Some p else plookup j l) by reflexivity.
    rewrite Hl. clear Hl.
    destruct (sel p) eqn:Es.
    + rewrite IH; auto.
      * rewrite add_pow2_fresh by exact Hfresh.
        destruct (Nat.eqb_spec j i) as [->|Hne].
        -- rewrite (plookup_notin i l Hi), Es, Hfresh. reflexivity.
        -- rewrite orb_false_r. reflexivity.
      * intros k Hk. rewrite add_pow2_fresh by exact Hfresh. rewrite Hacc by (right; auto). simpl.
        apply Nat.eqb_neq. intros ->. contradiction.
    + rewrite IH; auto; try (intros k Hk; apply Hacc; right; auto).
      destruct (Nat.eqb_spec j i) as [->|Hne]; [rewrite (plookup_notin i l Hi), Es; reflexivity | reflexivity].
Qed.

Lemma bsv_x_bit l j : NoDup (keys l) -> N.testbit (bsv_x l) (N.of_nat j) = sx (plookup j l).
Proof. intros H. unfold bsv_x. rewrite (lsum_testbit _ l H 0%N (fun i _ => N.bits_0 _) j).
  rewrite N.bits_0. simpl. destruct (plookup j l) as [[]|]; reflexivity. Qed.
Lemma bsv_z_bit l j : NoDup (keys l) -> N.testbit (bsv_z l) (N.of_nat j) = sz (plookup j l).
Proof. intros H. unfold bsv_z. rewrite (lsum_testbit _ l H 0%N (fun i _ => N.bits_0 _) j).
  rewrite N.bits_0. simpl. destruct (plookup j l) as [[]|]; reflexivity. Qed.

Lemma bsv_commute_bits x1 z1 x2 z2 :
  bsv_commute x1 z1 x2 z2 = true <->
  forall j, N.testbit x1 (N.of_nat j) && N.testbit z2 (N.of_nat j)
          = N.testbit z1 (N.of_nat j) && N.testbit x2 (N.of_nat j).
Proof.
  unfold bsv_commute. rewrite N.eqb_eq. split.
  - intros H j. apply N.lxor_eq in H. apply (f_equal (fun n => N.testbit n (N.of_nat j))) in H.
    rewrite !N.land_spec in H. exact H.
  - intros H. assert (E : N.land x1 z2 = N.land z1 x2).
    { apply testbit_ext_nat. intros j. rewrite !N.land_spec. apply H. }
    rewrite E. apply N.lxor_nilpotent.
Qed.

Definition qw_commute (l1 l2 : label) : Prop :=
  forall j, match plookup j l1, plookup j l2 with Some p, Some q => p = q | _, _ => True end.

(* the bit trick decides qubit-wise commutation *)
Theorem bsv_commute_iff l1 l2 : NoDup (keys l1) -> NoDup (keys l2) ->
  (bsv_commute (bsv_x l1) (bsv_z l1) (bsv_x l2) (bsv_z l2) = true <-> qw_commute l1 l2).
Proof.
  intros H1 H2. rewrite bsv_commute_bits. unfold qw_commute. split; intros H j; specialize (H j).
  - rewrite !bsv_x_bit, !bsv_z_bit in H by auto.
    destruct (plookup j l1) as [[]|], (plookup j l2) as [[]|]; simpl in *; auto; discriminate.
  - rewrite !bsv_x_bit, !bsv_z_bit by auto.
    destruct (plookup j l1) as [[]|], (plookup j l2) as [[]|]; simpl in *; auto; discriminate.
Qed.

(* ------------------------------------------------------------------ greedy insertion *)
Record group := mkGroup { gx : N; gz : N; members : list label }.

Fixpoint add_to_groups (l : label) (gs : list group) : list group :=
  match gs with
  | [] => [mkGroup (bsv_x l) (bsv_z l) [l]]
  | g :: gs' =>
      if bsv_commute (bsv_x l) (bsv_z l) (gx g) (gz g)
      then mkGroup (N.lor (bsv_x l) (gx g)) (N.lor (bsv_z l) (gz g)) (members g ++ [l]) :: gs'
      else g :: add_to_groups l gs'
  end.
Definition grouping (ls : list label) : list group := fold_left (fun gs l => add_to_groups l gs) ls [].
Definition all_members (gs : list group) : list label := flat_map members gs.

(* every label lands in exactly one group: the groups partition the input (as a multiset) *)
Lemma add_to_groups_members l gs : Permutation (all_members (add_to_groups l gs)) (l :: all_members gs).
Proof.
  unfold all_members. induction gs as [|g gs IH]; simpl; [apply Permutation_refl|].
  destruct (bsv_commute _ _ _ _); simpl.
  - rewrite <- app_assoc. simpl. apply Permutation_sym, Permutation_middle.
  - eapply perm_trans; [apply Permutation_app_head, IH|]. apply Permutation_sym, Permutation_middle.
Qed.

Theorem grouping_partitions ls : Permutation (all_members (grouping ls)) ls.
Proof.
  unfold grouping.
  assert (G : forall gs, Permutation (all_members (fold_left (fun gs l => add_to_groups l gs) ls gs))
                                     (all_members gs ++ ls)).
  { induction ls as [|l ls IH]; intros gs; simpl; [rewrite app_nil_r; apply Permutation_refl|].
    eapply perm_trans; [apply IH|].
    eapply perm_trans; [apply Permutation_app_tail, add_to_groups_members|].
    simpl. apply Permutation_middle. }
  apply (G []).
Qed.

(* group invariant: members have distinct-key labels, commute pairwise qubit-wise, and the
   accumulated mask is the OR of the members' masks *)
Definition ginv (g : group) : Prop :=
  Forall (fun m => NoDup (keys m)) (members g) /\
  (forall m1 m2, In m1 (members g) -> In m2 (members g) -> qw_commute m1 m2) /\
  (forall j, N.testbit (gx g) (N.of_nat j) = existsb (fun m => sx (plookup j m)) (members g)) /\
  (forall j, N.testbit (gz g) (N.of_nat j) = existsb (fun m => sz (plookup j m)) (members g)).

Lemma qw_commute_sym a b : qw_commute a b -> qw_commute b a.
Proof. intros H j. specialize (H j). destruct (plookup j a), (plookup j b); auto. Qed.
Lemma qw_commute_refl a : qw_commute a a.
Proof. intros j. destruct (plookup j a); auto. Qed.

(* commuting with the accumulated mask = commuting with every member *)
Lemma mask_decides g l : ginv g -> NoDup (keys l) ->
  (bsv_commute (bsv_x l) (bsv_z l) (gx g) (gz g) = true <-> forall m, In m (members g) -> qw_commute l m).
Proof.
  intros [Hnd [Hpair [Hx Hz]]] Hl. rewrite bsv_commute_bits. split.
  - intros H m Hm j. specialize (H j). rewrite bsv_x_bit, bsv_z_bit, Hx, Hz in H by auto.
    destruct (plookup j l) as [p|] eqn:El; auto. destruct (plookup j m) as [q|] eqn:Em; auto.
    (* every member with a Pauli at j has q *)
    assert (Hall : forall m', In m' (members g) -> plookup j m' = None \/ plookup j m' = Some q).
    { intros m' Hm'. specialize (Hpair m m' Hm Hm' j). rewrite Em in Hpair.
      destruct (plookup j m'); [right; f_equal; auto | left; auto]. }
    assert (Ex : existsb (fun m0 => sx (plookup j m0)) (members g) = sx (Some q)).
    { destruct (sx (Some q)) eqn:Eq.
      - apply existsb_exists. exists m; split; auto. rewrite Em; auto.
      - apply not_true_is_false. intros Ht. apply existsb_exists in Ht as [m' [Hm' Hs]].
        destruct (Hall m' Hm') as [E|E]; rewrite E in Hs; [discriminate | congruence]. }
    assert (Ez : existsb (fun m0 => sz (plookup j m0)) (members g) = sz (Some q)).
    { destruct (sz (Some q)) eqn:Eq.
      - apply existsb_exists. exists m; split; auto. rewrite Em; auto.
      - apply not_true_is_false. intros Ht. apply existsb_exists in Ht as [m' [Hm' Hs]].
        destruct (Hall m' Hm') as [E|E]; rewrite E in Hs; [discriminate | congruence]. }
    rewrite Ex, Ez in H. destruct p, q; simpl in H; auto; discriminate.
  - intros H j. rewrite bsv_x_bit, bsv_z_bit, Hx, Hz by auto.
    destruct (plookup j l) as [p|] eqn:El; [|reflexivity].
    (* all members have None or p at j *)
    assert (Hall : forall m', In m' (members g) -> plookup j m' = None \/ plookup j m' = Some p).
    { intros m' Hm'. specialize (H m' Hm' j). rewrite El in H.
      destruct (plookup j m'); [right; f_equal; auto | left; auto]. }
    set (E := existsb (fun m0 => match plookup j m0 with Some _ => true | None => false end) (members g)).
    assert (Ex : existsb (fun m0 => sx (plookup j m0)) (members g) = E && sx (Some p)).
    { unfold E. clear -Hall. induction (members g) as [|m ms IH]; [reflexivity|].
      simpl. rewrite IH by (intros; apply Hall; right; auto).
      destruct (Hall m (or_introl eq_refl)) as [E|E]; rewrite E; simpl.
      - reflexivity.
      - destruct p; simpl; try reflexivity; rewrite ?andb_false_r; reflexivity. }
    assert (Ez : existsb (fun m0 => sz (plookup j m0)) (members g) = E && sz (Some p)).
    { unfold E. clear -Hall. induction (members g) as [|m ms IH]; [reflexivity|].
      simpl. rewrite IH by (intros; apply Hall; right; auto).
      destruct (Hall m (or_introl eq_refl)) as [E|E]; rewrite E; simpl.
      - reflexivity.
      - destruct p; simpl; try reflexivity; rewrite ?andb_false_r; reflexivity. }
    rewrite Ex, Ez. destruct p, E; reflexivity.
Qed.

Lemma add_to_groups_inv l gs : NoDup (keys l) -> Forall ginv gs -> Forall ginv (add_to_groups l gs).
Proof.
  intros Hl. induction gs as [|g gs IH]; intros Hinv; simpl.
  - constructor; [|constructor]. unfold ginv; simpl. repeat split.
    + constructor; auto.
    + intros m1 m2 [<-|[]] [<-|[]]. apply qw_commute_refl.
    + intros j. rewrite bsv_x_bit by auto. rewrite orb_false_r. reflexivity.
    + intros j. rewrite bsv_z_bit by auto. rewrite orb_false_r. reflexivity.
  - inversion Hinv as [|? ? Hg Hgs]; subst.
    destruct (bsv_commute _ _ _ _) eqn:Ec.
    + constructor; auto. pose proof (proj1 (mask_decides g l Hg Hl) Ec) as Hall.
      destruct Hg as [Hnd [Hpair [Hx Hz]]]. unfold ginv; simpl. repeat split.
      * apply Forall_app; split; auto.
      * intros m1 m2 H1 H2. apply in_app_iff in H1, H2.
        destruct H1 as [H1|[<-|[]]], H2 as [H2|[<-|[]]]; auto using qw_commute_refl.
        apply qw_commute_sym; auto.
      * intros j. rewrite N.lor_spec, Hx, bsv_x_bit, existsb_app by auto. simpl. rewrite orb_false_r. apply orb_comm.
      * intros j. rewrite N.lor_spec, Hz, bsv_z_bit, existsb_app by auto. simpl. rewrite orb_false_r. apply orb_comm.
    + constructor; auto.
Qed.

(* members of every group commute qubit-wise, whatever the insertion order *)
Theorem grouping_members_commute ls : Forall (fun l => NoDup (keys l)) ls ->
  Forall ginv (grouping ls).
Proof.
  unfold grouping. intros H.
  assert (G : forall gs, Forall ginv gs -> Forall ginv (fold_left (fun gs l => add_to_groups l gs) ls gs)).
  { induction H as [|l ls Hl Hls IH]; intros gs Hgs; simpl; auto. apply IH, add_to_groups_inv; auto. }
  apply G. constructor.
Qed.
