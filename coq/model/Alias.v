(* Model of object identity and shared gate storage for circuits: the Rust QuantumCircuit /
   ImmutableQuantumCircuit pair (gate storage + is_immutable flag: freeze clones unless the flag is set,
   get_mutable_copy clones) and the Python wrappers LinearMapped(Immutable)ParametricQuantumCircuit
   (freeze / get_mutable_copy / primitive_circuit go through the inner circuit; the parameter mapping is an
   immutable value that is replaced, never updated in place).
   Names (Python variables) -> objects -> storage cells.  Two semantics: [faithful] follows the code,
   including get_mutable_copy copying the immutable flag and ImmutableQuantumCircuit(qc) flagging and
   returning qc itself; [repaired] clears / clones there.  Theorem: under the repaired semantics - and under
   the faithful one for histories that never copy a flagged circuit nor use that constructor - no operation
   changes what any name other than its receiver observes. *)
From Coq Require Import List Arith Bool Lia.
Import ListNotations.

Record obj := mkO { cell : nat; flag : bool; mut : bool; pm : list nat; islm : bool }.
Record st := mkSt { cells : list (list nat); objs : list obj; names : list nat }.

Inductive op :=
| New (lm : bool)                 (* QuantumCircuit(n) / LinearMappedParametricQuantumCircuit(n) *)
| Add (r g : nat)                 (* add_gate on the receiver (needs the mutable class) *)
| AddP (r x : nat)                (* add_Parametric*_gate on a linear-mapped receiver: gate + mapping replaced *)
| Freeze (r : nat)                (* freeze(), also: a quantum state derived from the circuit *)
| Copy (r : nat)                  (* get_mutable_copy() *)
| Ctor (r : nat)                  (* ImmutableQuantumCircuit(qc) *)
| Prim (r : nat)                  (* primitive_circuit() of a linear-mapped circuit *)
| Combine (r1 r2 : nat).          (* r1 + r2 *)

Definition dobj : obj := mkO 0 false false [] false.
Definition oname (s : st) (k : nat) : obj := nth (nth k (names s) 0) (objs s) dobj.
Definition gates_of (s : st) (o : obj) : list nat := nth (cell o) (cells s) [].
(* what a name shows: gates (hence depth, equality, hash) and parameter mapping *)
Definition obs (s : st) (k : nat) : list nat * list nat := (gates_of s (oname s k), pm (oname s k)).

Fixpoint upd {A} (i : nat) (x : A) (l : list A) : list A :=
  match l, i with
  | [], _ => []
  | _ :: l', 0 => x :: l'
  | y :: l', S i' => y :: upd i' x l'
  end.

Definition PGATE : nat := 100.

Definition step (faithful : bool) (s : st) (o : op) : st :=
  match o with
  | New lm => mkSt (cells s ++ [[]]) (objs s ++ [mkO (length (cells s)) false true [] lm]) (names s ++ [length (objs s)])
  | Add r g =>
      let ob := oname s r in
      if (r <? length (names s)) && mut ob then mkSt (upd (cell ob) (gates_of s ob ++ [g]) (cells s)) (objs s) (names s) else s
  | AddP r x =>
      let ob := oname s r in
      if (r <? length (names s)) && mut ob && islm ob
      then mkSt (upd (cell ob) (gates_of s ob ++ [PGATE]) (cells s))
                (upd (nth r (names s) 0) (mkO (cell ob) (flag ob) (mut ob) (pm ob ++ [x]) (islm ob)) (objs s)) (names s)
      else s
  | Freeze r =>
      let ob := oname s r in
      if negb (r <? length (names s)) then s
      else if (negb (islm ob) && flag ob) || (islm ob && negb (mut ob))
      then mkSt (cells s) (objs s) (names s ++ [nth r (names s) 0])                          (* returns self *)
      else if flag ob
      then mkSt (cells s) (objs s ++ [mkO (cell ob) true false (pm ob) (islm ob)]) (names s ++ [length (objs s)])
      else mkSt (cells s ++ [gates_of s ob]) (objs s ++ [mkO (length (cells s)) true false (pm ob) (islm ob)])
                (names s ++ [length (objs s)])
  | Copy r =>
      let ob := oname s r in
      if negb (r <? length (names s)) then s
      else mkSt (cells s ++ [gates_of s ob])
                (objs s ++ [mkO (length (cells s)) (faithful && negb (islm ob) && flag ob) true (pm ob) (islm ob)])
                (names s ++ [length (objs s)])
  | Ctor r =>
      let ob := oname s r in
      if negb (r <? length (names s)) || islm ob then s
      else if faithful || (flag ob && negb (mut ob))
      then mkSt (cells s) (upd (nth r (names s) 0) (mkO (cell ob) true (mut ob) (pm ob) (islm ob)) (objs s))
                (names s ++ [nth r (names s) 0])                                   (* flags and returns the argument itself *)
      else mkSt (cells s ++ [gates_of s ob]) (objs s ++ [mkO (length (cells s)) true false (pm ob) false])
                (names s ++ [length (objs s)])
  | Prim r =>
      let ob := oname s r in
      if negb (r <? length (names s)) || negb (islm ob) then s
      else if flag ob
      then mkSt (cells s) (objs s ++ [mkO (cell ob) true false [] false]) (names s ++ [length (objs s)])
      else mkSt (cells s ++ [gates_of s ob]) (objs s ++ [mkO (length (cells s)) true false [] false])
                (names s ++ [length (objs s)])
  | Combine r1 r2 =>
      let o1 := oname s r1 in let o2 := oname s r2 in
      if negb ((r1 <? length (names s)) && (r2 <? length (names s))) then s
      else mkSt (cells s ++ [gates_of s o1 ++ gates_of s o2])
                (objs s ++ [mkO (length (cells s)) (faithful && negb (islm o1 || islm o2) && flag o1) true (pm o1 ++ pm o2) (islm o1 || islm o2)])
                (names s ++ [length (objs s)])
  end.

Definition s0 : st := mkSt [] [] [].
Definition run (faithful : bool) (h : list op) : st := fold_left (step faithful) h s0.
Definition receiver (o : op) : option nat := match o with Add r _ | AddP r _ => Some r | _ => None end.

(* histories on which the two semantics agree: no get_mutable_copy of a flagged circuit, no
   ImmutableQuantumCircuit(mutable) *)
Definition op_safe (s : st) (o : op) : bool :=
  match o with
  | Copy r => islm (oname s r) || negb (flag (oname s r))
  | Ctor r => negb (mut (oname s r)) && flag (oname s r)
  | Combine r1 r2 => islm (oname s r1) || islm (oname s r2) || negb (flag (oname s r1))
  | _ => true
  end.
Fixpoint safe_from (s : st) (h : list op) : bool :=
  match h with [] => true | o :: h' => op_safe s o && safe_from (step true s o) h' end.

(* ------------------------------------------------------------------ ownership invariant *)
Definition getO (s : st) (i : nat) : option obj := nth_error (objs s) i.
Definition getN (s : st) (k : nat) : option nat := nth_error (names s) k.

Record Inv (s : st) : Prop := mkInv {
  i_name : forall k j, getN s k = Some j -> j < length (objs s);
  i_cell : forall i o, getO s i = Some o -> cell o < length (cells s);
  i_flag : forall i o, getO s i = Some o -> mut o = true -> flag o = false;
  (* the storage of an object that can be mutated is shared with no other object *)
  i_own : forall i j oi oj, getO s i = Some oi -> getO s j = Some oj -> i <> j -> mut oi = true -> cell oi <> cell oj;
  (* an object that can be mutated is known under one name only *)
  i_one : forall k k' j o, getN s k = Some j -> getN s k' = Some j -> k <> k' -> getO s j = Some o -> mut o = false }.

Lemma inv0 : Inv s0.
Proof.
  constructor; unfold getN, getO; simpl.
  - intros k j H. destruct k; discriminate.
  - intros i o H. destruct i; discriminate.
  - intros i o H. destruct i; discriminate.
  - intros i j oi oj H. destruct i; discriminate.
  - intros k k' j o H. destruct k; discriminate.
Qed.

Lemma nth_error_snoc {A} (l : list A) x i v : nth_error (l ++ [x]) i = Some v ->
  (i < length l /\ nth_error l i = Some v) \/ (i = length l /\ v = x).
Proof.
  intros H. destruct (Nat.lt_ge_cases i (length l)) as [Hi|Hi].
  - left. rewrite nth_error_app1 in H by exact Hi. auto.
  - right. rewrite nth_error_app2 in H by exact Hi. destruct (i - length l) as [|d] eqn:E; [|destruct d; discriminate].
    simpl in H. injection H as <-. split; [lia|reflexivity].
Qed.
Lemma nth_error_lt {A} (l : list A) i v : nth_error l i = Some v -> i < length l.
Proof. intros H. apply nth_error_Some. congruence. Qed.
Lemma oname_get s k : k < length (names s) -> Inv s -> exists j, getN s k = Some j /\ getO s j = Some (oname s k).
Proof.
  intros Hk Hi. unfold getN, getO, oname. destruct (nth_error (names s) k) as [j|] eqn:E; [|apply nth_error_None in E; lia].
  exists j. split; [reflexivity|]. rewrite (nth_error_nth _ _ 0 E).
  pose proof (i_name s Hi k j E) as Hj. apply nth_error_nth'. exact Hj.
Qed.

(* pushing a new object with a fresh cell under a new name *)
Lemma push_fresh s x o : Inv s -> cell o = length (cells s) -> (mut o = true -> flag o = false) ->
  Inv (mkSt (cells s ++ [x]) (objs s ++ [o]) (names s ++ [length (objs s)])).
Proof.
  intros [A B C D E] Hc Hf. constructor; unfold getN, getO; cbn [cells objs names]; rewrite ?app_length; cbn [length].
  - intros k j H. apply nth_error_snoc in H. destruct H as [[_ H]|[_ ->]]; [apply A in H; lia|lia].
  - intros i o' H. apply nth_error_snoc in H. destruct H as [[_ H]|[_ ->]]; [apply B in H; lia|lia].
  - intros i o' H. apply nth_error_snoc in H. destruct H as [[_ H]|[_ ->]]; [exact (C i o' H)|exact Hf].
  - intros i j oi oj Hi Hj Hne Hm. apply nth_error_snoc in Hi. apply nth_error_snoc in Hj.
    destruct Hi as [[Li Hi]|[Ei Eo]]; destruct Hj as [[Lj Hj]|[Ej Eo']]; subst.
    + exact (D i j oi oj Hi Hj Hne Hm).
    + apply B in Hi. lia.
    + apply B in Hj. lia.
    + contradiction.
  - intros k k' j o' Hk Hk' Hne Ho. apply nth_error_snoc in Hk. apply nth_error_snoc in Hk'.
    destruct Hk as [[Lk Hk]|[Ek Ej]]; destruct Hk' as [[Lk' Hk']|[Ek' Ej']]; subst.
    + apply nth_error_snoc in Ho. destruct Ho as [[_ Ho]|[-> _]]; [exact (E k k' j o' Hk Hk' Hne Ho)|apply A in Hk; lia].
    + apply A in Hk. lia.
    + apply A in Hk'. lia.
    + contradiction.
Qed.

(* a further name for an object that cannot be mutated *)
Lemma push_alias s j : Inv s -> (forall o, getO s j = Some o -> mut o = false) -> j < length (objs s) ->
  Inv (mkSt (cells s) (objs s) (names s ++ [j])).
Proof.
  intros [A B C D E] Hm Hj. constructor; unfold getN, getO in *; cbn [cells objs names]; auto.
  - intros k j' H. apply nth_error_snoc in H. destruct H as [[_ H]|[_ ->]]; [exact (A k j' H)|exact Hj].
  - intros k k' j' o Hk Hk' Hne Ho. apply nth_error_snoc in Hk. apply nth_error_snoc in Hk'.
    destruct Hk as [[Lk Hk]|[Ek Ej]]; destruct Hk' as [[Lk' Hk']|[Ek' Ej']]; subst.
    + exact (E k k' j' o Hk Hk' Hne Ho).
    + exact (Hm o Ho).
    + exact (Hm o Ho).
    + contradiction.
Qed.

(* a new immutable object that shares the storage of an existing immutable object *)
Lemma push_shared s o j oj : Inv s -> getO s j = Some oj -> mut oj = false -> mut o = false -> cell o = cell oj ->
  Inv (mkSt (cells s) (objs s ++ [o]) (names s ++ [length (objs s)])).
Proof.
  intros [A B C D E] Hj Hmj Hm Hc. constructor; unfold getN, getO in *; cbn [cells objs names]; rewrite ?app_length; cbn [length].
  - intros k j' H. apply nth_error_snoc in H. destruct H as [[_ H]|[_ ->]]; [apply A in H; lia|lia].
  - intros i o' H. apply nth_error_snoc in H. destruct H as [[_ H]|[_ ->]]; [exact (B i o' H)|rewrite Hc; exact (B j oj Hj)].
  - intros i o' H. apply nth_error_snoc in H. destruct H as [[_ H]|[_ ->]]; [exact (C i o' H)|congruence].
  - intros i i' oi oi' Hi Hi' Hne Hmi. apply nth_error_snoc in Hi. apply nth_error_snoc in Hi'.
    destruct Hi as [[Li Hi]|[Ei Eo]]; destruct Hi' as [[Li' Hi']|[Ei' Eo']]; subst.
    + exact (D i i' oi oi' Hi Hi' Hne Hmi).
    + rewrite Hc. apply (D i j oi oj Hi Hj); [|exact Hmi]. intros ->. congruence.
    + congruence.
    + contradiction.
  - intros k k' j' o' Hk Hk' Hne Ho. apply nth_error_snoc in Hk. apply nth_error_snoc in Hk'.
    destruct Hk as [[Lk Hk]|[Ek Ej]]; destruct Hk' as [[Lk' Hk']|[Ek' Ej']]; subst.
    + apply nth_error_snoc in Ho. destruct Ho as [[_ Ho]|[-> _]]; [exact (E k k' j' o' Hk Hk' Hne Ho)|apply A in Hk; lia].
    + apply A in Hk. lia.
    + apply A in Hk'. lia.
    + contradiction.
Qed.

Lemma upd_length {A} i (x : A) l : length (upd i x l) = length l.
Proof. revert i. induction l as [|y l IH]; intros [|i]; simpl; auto. Qed.
Lemma nth_error_upd {A} i (x : A) l k : nth_error (upd i x l) k = if Nat.eqb k i && (i <? length l) then Some x else nth_error l k.
Proof.
  revert i k. induction l as [|y l IH]; intros i k; simpl.
  - destruct i, k; simpl; try reflexivity; rewrite ?andb_false_r; reflexivity.
  - destruct i as [|i], k as [|k]; simpl; try reflexivity. rewrite IH. reflexivity.
Qed.
Lemma nth_upd {A} (d : A) i x l k : nth k (upd i x l) d = if Nat.eqb k i && (i <? length l) then x else nth k l d.
Proof.
  revert i k. induction l as [|y l IH]; intros i k; simpl.
  - destruct i, k; simpl; try reflexivity; rewrite ?andb_false_r; reflexivity.
  - destruct i as [|i], k as [|k]; simpl; try reflexivity. rewrite IH. reflexivity.
Qed.

(* changing the gates of a cell, or fields of an object other than cell / flag / mut, keeps the invariant *)
Lemma upd_cells_inv s c x : Inv s -> Inv (mkSt (upd c x (cells s)) (objs s) (names s)).
Proof. intros [A B C D E]. constructor; unfold getN, getO in *; cbn [cells objs names]; auto. intros i o H. rewrite upd_length. exact (B i o H). Qed.
Lemma upd_obj_inv s j o o' : Inv s -> getO s j = Some o -> cell o' = cell o -> flag o' = flag o -> mut o' = mut o ->
  Inv (mkSt (cells s) (upd j o' (objs s)) (names s)).
Proof.
  intros [A B C D E] Hj Hc Hf Hm.
  assert (Hlt : (j <? length (objs s)) = true) by (apply Nat.ltb_lt; exact (nth_error_lt _ _ _ Hj)).
  assert (G : forall i oi, nth_error (upd j o' (objs s)) i = Some oi ->
              exists oi0, nth_error (objs s) i = Some oi0 /\ cell oi = cell oi0 /\ flag oi = flag oi0 /\ mut oi = mut oi0).
  { intros i oi H. rewrite nth_error_upd, Hlt, andb_true_r in H. destruct (Nat.eqb_spec i j) as [->|Hne].
    - injection H as <-. exists o. auto.
    - exists oi. auto. }
  constructor; unfold getN, getO in *; cbn [cells objs names]; rewrite ?upd_length; auto.
  - intros i oi H. destruct (G i oi H) as [o0 [H0 [-> _]]]. exact (B i o0 H0).
  - intros i oi H Hmi. destruct (G i oi H) as [o0 [H0 [_ [-> Em]]]]. rewrite Em in Hmi. exact (C i o0 H0 Hmi).
  - intros i i' oi oi' Hi Hi' Hne Hmi. destruct (G i oi Hi) as [o0 [H0 [-> [_ Em]]]]. destruct (G i' oi' Hi') as [o0' [H0' [-> _]]].
    rewrite Em in Hmi. exact (D i i' o0 o0' H0 H0' Hne Hmi).
  - intros k k' j' oj Hk Hk' Hne Ho. destruct (G j' oj Ho) as [o0 [H0 [_ [_ ->]]]]. exact (E k k' j' o0 Hk Hk' Hne H0).
Qed.

(* ------------------------------------------------------------------ the repaired semantics keeps the invariant *)
Lemma name_lt s r : (r <? length (names s)) = true -> r < length (names s).
Proof. apply Nat.ltb_lt. Qed.

Lemma step_repaired_inv s o : Inv s -> Inv (step false s o).
Proof.
  intros Hi. destruct o as [lm|r g|r x|r|r|r|r|r1 r2]; cbn [step].
  - (* New *) apply push_fresh; auto.
  - (* Add *) destruct ((r <? length (names s)) && mut (oname s r)); [apply upd_cells_inv; exact Hi|exact Hi].
  - (* AddP *) destruct (r <? length (names s)) eqn:Er; cbn [andb]; [|exact Hi].
    destruct (mut (oname s r) && islm (oname s r)); [|exact Hi].
    destruct (oname_get s r (name_lt s r Er) Hi) as [j [Hn Ho]].
    unfold getN in Hn. rewrite (nth_error_nth _ _ 0 Hn).
    apply (upd_cells_inv (mkSt (cells s) (upd j (mkO (cell (oname s r)) (flag (oname s r)) (mut (oname s r)) (pm (oname s r) ++ [x]) (islm (oname s r))) (objs s)) (names s))).
    apply (upd_obj_inv s j (oname s r)); auto.
  - (* Freeze *) destruct (r <? length (names s)) eqn:Er; cbn [negb]; [|exact Hi].
    destruct (oname_get s r (name_lt s r Er) Hi) as [j [Hn Ho]]. set (ob := oname s r) in *.
    assert (Hnth : nth r (names s) 0 = j) by (unfold getN in Hn; exact (nth_error_nth _ _ 0 Hn)).
    destruct ((negb (islm ob) && flag ob) || (islm ob && negb (mut ob))) eqn:Ea.
    + rewrite Hnth. apply push_alias; auto.
      * intros o' Ho'. rewrite Ho in Ho'. injection Ho' as <-.
        destruct (mut ob) eqn:Em; [|reflexivity]. pose proof (i_flag s Hi j ob Ho Em) as Hf.
        rewrite Hf in Ea. destruct (islm ob); discriminate.
      * exact (i_name s Hi r j Hn).
    + destruct (flag ob) eqn:Ef.
      * assert (Hm : mut ob = false).
        { destruct (mut ob) eqn:Em; [|reflexivity]. rewrite (i_flag s Hi j ob Ho Em) in Ef. discriminate. }
        apply (push_shared s _ j ob Hi Ho Hm); reflexivity.
      * apply push_fresh; auto; discriminate.
  - (* Copy *) destruct (r <? length (names s)); cbn [negb]; [|exact Hi]. apply push_fresh; auto.
  - (* Ctor *) destruct (r <? length (names s)) eqn:Er; cbn [negb orb]; [|exact Hi].
    destruct (islm (oname s r)); [exact Hi|].
    destruct (oname_get s r (name_lt s r Er) Hi) as [j [Hn Ho]]. set (ob := oname s r) in *.
    assert (Hnth : nth r (names s) 0 = j) by (unfold getN in Hn; exact (nth_error_nth _ _ 0 Hn)).
    cbn [orb]. destruct (flag ob && negb (mut ob)) eqn:Ea.
    + apply andb_true_iff in Ea as [Ef Em]. apply negb_true_iff in Em. rewrite Hnth.
      assert (Hi' : Inv (mkSt (cells s) (upd j (mkO (cell ob) true (mut ob) (pm ob) false) (objs s)) (names s))).
      { apply (upd_obj_inv s j ob); auto. }
      apply (push_alias _ j Hi').
      * unfold getO. cbn [objs]. intros o' Ho'. rewrite nth_error_upd in Ho'.
        rewrite Nat.eqb_refl in Ho'. replace (j <? length (objs s)) with true in Ho' by (symmetry; apply Nat.ltb_lt; exact (nth_error_lt _ _ _ Ho)).
        injection Ho' as <-. exact Em.
      * cbn [objs]. rewrite upd_length. exact (nth_error_lt _ _ _ Ho).
    + apply push_fresh; auto; discriminate.
  - (* Prim *) destruct (r <? length (names s)) eqn:Er; cbn [negb orb]; [|exact Hi].
    destruct (islm (oname s r)); cbn [negb]; [|exact Hi].
    destruct (oname_get s r (name_lt s r Er) Hi) as [j [Hn Ho]]. set (ob := oname s r) in *.
    destruct (flag ob) eqn:Ef.
    + assert (Hm : mut ob = false).
      { destruct (mut ob) eqn:Em; [|reflexivity]. rewrite (i_flag s Hi j ob Ho Em) in Ef. discriminate. }
      apply (push_shared s _ j ob Hi Ho Hm); reflexivity.
    + apply push_fresh; auto; discriminate.
  - (* Combine *) destruct ((r1 <? length (names s)) && (r2 <? length (names s))); cbn [negb]; [|exact Hi].
    apply push_fresh; auto.
Qed.

Theorem reachable_repaired_inv h : Inv (run false h).
Proof.
  unfold run. assert (G : forall s, Inv s -> Inv (fold_left (step false) h s)).
  { induction h as [|o h IH]; intros s Hs; simpl; [exact Hs|]. apply IH. apply step_repaired_inv. exact Hs. }
  apply G. exact inv0.
Qed.

(* ------------------------------------------------------------------ non-interference *)
Lemma obs_push s x os ns k : Inv s -> k < length (names s) ->
  obs (mkSt (cells s ++ x) (objs s ++ os) (names s ++ ns)) k = obs s k.
Proof.
  intros Hi Hk. destruct (oname_get s k Hk Hi) as [j [Hn Ho]].
  unfold obs, oname, gates_of. cbn [cells objs names].
  rewrite (app_nth1 (names s)) by exact Hk.
  unfold getN in Hn. rewrite (nth_error_nth _ _ 0 Hn).
  rewrite (app_nth1 (objs s)) by exact (nth_error_lt _ _ _ Ho).
  unfold getO in Ho. rewrite (nth_error_nth _ _ dobj Ho).
  rewrite (app_nth1 (cells s)) by exact (i_cell s Hi j _ Ho). reflexivity.
Qed.

Lemma obs_intro s s' k o o' : oname s k = o -> oname s' k = o' -> cell o' = cell o -> pm o' = pm o ->
  nth (cell o) (cells s') [] = nth (cell o) (cells s) [] -> obs s' k = obs s k.
Proof. intros E E' Hc Hp Hn. unfold obs, gates_of. rewrite E, E', Hc, Hp, Hn. reflexivity. Qed.

(* no operation changes what a name other than its receiver shows: frozen circuits, copies, combined circuits,
   primitive circuits and states derived from a circuit are independent values *)
Theorem step_only_affects_receiver s o k : Inv s -> k < length (names s) -> receiver o <> Some k ->
  obs (step false s o) k = obs s k.
Proof.
  intros Hi Hk Hr. destruct o as [lm|r g|r x|r|r|r|r|r1 r2]; cbn [step].
  - exact (obs_push s [[]] _ _ k Hi Hk).
  - (* Add *) destruct (r <? length (names s)) eqn:Er; cbn [andb]; [|reflexivity].
    destruct (mut (oname s r)) eqn:Em; [|reflexivity].
    assert (Hne : r <> k) by (intros ->; apply Hr; reflexivity).
    destruct (oname_get s r (name_lt s r Er) Hi) as [jr [Hnr Hor]]. destruct (oname_get s k Hk Hi) as [jk [Hnk Hok]].
    unfold obs, oname, gates_of. cbn [cells objs names]. fold (oname s k). fold (oname s r).
    rewrite nth_upd. destruct (Nat.eqb_spec (cell (oname s k)) (cell (oname s r))) as [Ec|Ec]; [|reflexivity].
    exfalso. destruct (Nat.eq_dec jr jk) as [->|Hj].
    + pose proof (i_one s Hi r k jk _ Hnr Hnk Hne Hor) as Hm. congruence.
    + exact (i_own s Hi jr jk _ _ Hor Hok Hj Em (eq_sym Ec)).
  - (* AddP *) destruct (r <? length (names s)) eqn:Er; cbn [andb]; [|reflexivity].
    destruct (mut (oname s r)) eqn:Em; cbn [andb]; [|reflexivity]. destruct (islm (oname s r)); [|reflexivity].
    assert (Hne : r <> k) by (intros ->; apply Hr; reflexivity).
    destruct (oname_get s r (name_lt s r Er) Hi) as [jr [Hnr Hor]]. destruct (oname_get s k Hk Hi) as [jk [Hnk Hok]].
    assert (Hj : jr <> jk).
    { intros ->. pose proof (i_one s Hi r k jk _ Hnr Hnk Hne Hor) as Hm. congruence. }
    unfold getN, getO in *.
    match goal with |- obs ?S k = _ => set (s' := S) end.
    assert (Hok' : oname s' k = oname s k).
    { unfold oname, s'. cbn [names objs]. rewrite (nth_error_nth _ _ 0 Hnr), (nth_error_nth _ _ 0 Hnk), (nth_upd dobj).
      destruct (Nat.eqb_spec jk jr) as [E|_]; [exfalso; apply Hj; symmetry; exact E|]. reflexivity. }
    apply (obs_intro s s' k (oname s k) (oname s' k)); auto; try (rewrite Hok'; reflexivity).
    unfold s'. cbn [cells]. rewrite nth_upd.
    match goal with |- context [Nat.eqb ?a ?b] => destruct (Nat.eqb_spec a b) as [Ec|Ec] end; [|reflexivity].
    exfalso. exact (i_own s Hi jr jk _ _ Hor Hok Hj Em (eq_sym Ec)).
  - (* Freeze *) destruct (r <? length (names s)); cbn [negb]; [|reflexivity].
    destruct ((negb (islm (oname s r)) && flag (oname s r)) || (islm (oname s r) && negb (mut (oname s r)))).
    + rewrite <- (app_nil_r (cells s)) at 1. rewrite <- (app_nil_r (objs s)) at 1. apply (obs_push s [] [] _ k Hi Hk).
    + destruct (flag (oname s r)).
      * rewrite <- (app_nil_r (cells s)) at 1. apply (obs_push s [] _ _ k Hi Hk).
      * apply (obs_push s [_] _ _ k Hi Hk).
  - (* Copy *) destruct (r <? length (names s)); cbn [negb]; [|reflexivity]. apply (obs_push s [_] _ _ k Hi Hk).
  - (* Ctor *) destruct (r <? length (names s)) eqn:Er; cbn [negb orb]; [|reflexivity].
    destruct (islm (oname s r)); [reflexivity|]. cbn [orb].
    destruct (flag (oname s r) && negb (mut (oname s r))) eqn:Ea.
    + destruct (oname_get s r (name_lt s r Er) Hi) as [jr [Hnr Hor]]. destruct (oname_get s k Hk Hi) as [jk [Hnk Hok]].
      unfold getN, getO in *.
      match goal with |- obs ?S k = _ => set (s' := S) end.
      assert (Hc : cell (oname s' k) = cell (oname s k) /\ pm (oname s' k) = pm (oname s k)).
      { unfold oname, s'. cbn [names objs]. rewrite (app_nth1 (names s)) by exact Hk.
        rewrite (nth_error_nth _ _ 0 Hnr), (nth_error_nth _ _ 0 Hnk), (nth_upd dobj).
        destruct (Nat.eqb jk jr && (jr <? length (objs s))) eqn:E; [|split; reflexivity].
        apply andb_true_iff in E as [E _]. apply Nat.eqb_eq in E. subst jk. cbn [cell pm].
        rewrite (nth_error_nth _ _ dobj Hor). split; reflexivity. }
      apply (obs_intro s s' k (oname s k) (oname s' k)); try reflexivity; apply Hc.
    + apply (obs_push s [_] _ _ k Hi Hk).
  - (* Prim *) destruct (r <? length (names s)); cbn [negb orb]; [|reflexivity].
    destruct (islm (oname s r)); cbn [negb]; [|reflexivity]. destruct (flag (oname s r)).
    + rewrite <- (app_nil_r (cells s)) at 1. apply (obs_push s [] _ _ k Hi Hk).
    + apply (obs_push s [_] _ _ k Hi Hk).
  - (* Combine *) destruct ((r1 <? length (names s)) && (r2 <? length (names s))); cbn [negb]; [|reflexivity].
    apply (obs_push s [_] _ _ k Hi Hk).
Qed.

(* ------------------------------------------------------------------ the code follows the repaired semantics on safe histories *)
Lemma step_safe_agree s o : Inv s -> op_safe s o = true -> step true s o = step false s o.
Proof.
  intros Hi Hs. destruct o as [lm|r g|r x|r|r|r|r|r1 r2]; cbn [step op_safe] in *; try reflexivity.
  - (* Copy *) destruct (r <? length (names s)); cbn [negb]; [|reflexivity].
    destruct (islm (oname s r)); cbn [orb negb andb] in *; [reflexivity|]. apply negb_true_iff in Hs. rewrite Hs. reflexivity.
  - (* Ctor *) apply andb_true_iff in Hs as [Hm Hf]. rewrite Hf, Hm. cbn [andb orb]. reflexivity.
  - (* Combine *) destruct (islm (oname s r1) || islm (oname s r2)) eqn:El; cbn [orb negb andb] in *; [reflexivity|].
    apply negb_true_iff in Hs. rewrite Hs. reflexivity.
Qed.

Theorem safe_history_runs_repaired h : forall s, Inv s -> safe_from s h = true ->
  fold_left (step true) h s = fold_left (step false) h s.
Proof.
  induction h as [|o h IH]; intros s Hi Hs; simpl; [reflexivity|]. cbn [safe_from] in Hs.
  apply andb_true_iff in Hs as [Ho Hh]. rewrite (step_safe_agree s o Hi Ho) in *.
  apply IH; [apply step_repaired_inv; exact Hi|exact Hh].
Qed.

(* the real behaviour on safe histories: any further step leaves every other name unchanged *)
Theorem safe_history_only_affects_receiver h o k :
  safe_from s0 (h ++ [o]) = true -> k < length (names (run true h)) -> receiver o <> Some k ->
  obs (run true (h ++ [o])) k = obs (run true h) k.
Proof.
  intros Hs Hk Hr. unfold run in *.
  assert (Hsh : safe_from s0 h = true).
  { clear Hk Hr. revert Hs. generalize s0. induction h as [|a h IH]; intros s Hs; [reflexivity|]. cbn [app safe_from] in *.
    apply andb_true_iff in Hs as [Ha Hh]. rewrite Ha. exact (IH _ Hh). }
  rewrite (safe_history_runs_repaired (h ++ [o]) s0 inv0 Hs).
  rewrite (safe_history_runs_repaired h s0 inv0 Hsh) in *.
  rewrite fold_left_app. cbn [fold_left].
  apply step_only_affects_receiver; auto. apply reachable_repaired_inv.
Qed.

(* ------------------------------------------------------------------ ... and violates the property otherwise *)
(* qc = QuantumCircuit; f = qc.freeze(); m = f.get_mutable_copy(); g = m.freeze(); m.add_gate(..) changes g *)
Theorem faithful_semantics_refuted_by_flagged_copy :
  let h := [New false; Freeze 0; Copy 1; Freeze 2] in
  obs (run true (h ++ [Add 2 7])) 3 <> obs (run true h) 3.
Proof. vm_compute. discriminate. Qed.
(* qc = QuantumCircuit; i = ImmutableQuantumCircuit(qc); qc.add_gate(..) changes i *)
Theorem faithful_semantics_refuted_by_constructor :
  let h := [New false; Ctor 0] in
  obs (run true (h ++ [Add 0 7])) 1 <> obs (run true h) 1.
Proof. vm_compute. discriminate. Qed.
