(* ComputationalBasisState.circuit (an X gate on every set bit below n_qubits, in increasing order) prepares the
   basis vector, and the state that with_gates_applied builds for a chain containing a non-Pauli gate
   (GeneralCircuitQuantumState over circuit + gates) is, times the tracked phase, the gates applied to the
   state's own vector. *)
From Coq Require Import ZArith NArith List Bool Arith Lia Reals FunctionalExtensionality.
From QP Require Import Cx Asum FMat Apply.
From QPM Require Import Pauli CompBasis.
Import ListNotations.
Local Open Scope C_scope.

Definition prep_idx (n : nat) (bits : N) : list nat := filter (fun i => get_bit bits i) (seq 0 n).
Definition prep (n : nat) (bits : N) : list lgate := map (fun i => psem (i, PX)) (prep_idx n bits).
Definition flips (l : list nat) (x : N) : N := fold_left (fun a i => N.lxor a (bitmask i)) l x.

Lemma X_list n : forall l x b,
  csem (map (fun i => psem (i, PX)) l) (ket n x) b = ket n (flips l x) b.
Proof.
  induction l as [|i l IH]; intros x b; [reflexivity|].
  cbn [map]. unfold csem. cbn [fold_left]. fold (csem (map (fun i0 => psem (i0, PX)) l)).
  replace (lsem (psem (i, PX)) (ket n x)) with (ket n (N.lxor x (bitmask i))).
  - apply IH.
  - apply functional_extensionality; intros c. rewrite X_act. symmetry. apply ket_flip.
Qed.

Lemma flips_app l1 l2 x : flips (l1 ++ l2) x = flips l2 (flips l1 x).
Proof. unfold flips. apply fold_left_app. Qed.

Lemma prep_idx_S n bits :
  prep_idx (S n) bits = prep_idx n bits ++ (if get_bit bits n then [n] else []).
Proof.
  unfold prep_idx. rewrite seq_S, filter_app. cbn [Nat.add filter]. destruct (get_bit bits n); reflexivity.
Qed.

Lemma flips_prep_testbit bits : forall n j,
  N.testbit (flips (prep_idx n bits) 0%N) (N.of_nat j) = (j <? n) && N.testbit bits (N.of_nat j).
Proof.
  induction n as [|n IH]; intros j.
  - unfold prep_idx, flips. cbn [seq filter fold_left]. rewrite N.bits_0. reflexivity.
  - rewrite prep_idx_S, flips_app. rewrite get_bit_testbit.
    destruct (N.testbit bits (N.of_nat n)) eqn:E.
    + cbn [flips fold_left]. rewrite N.lxor_spec, bitmask_testbit, IH.
      destruct (Nat.eqb_spec j n) as [->|Hne].
      * rewrite E. replace (n <? n) with false by (symmetry; apply Nat.ltb_ge; lia).
        replace (n <? S n) with true by (symmetry; apply Nat.ltb_lt; lia). reflexivity.
      * rewrite xorb_false_r. f_equal.
        destruct (Nat.ltb_spec j n), (Nat.ltb_spec j (S n)); try reflexivity; lia.
    + cbn [flips fold_left]. rewrite IH.
      destruct (Nat.eqb_spec j n) as [->|Hne].
      * rewrite E, !andb_false_r. reflexivity.
      * f_equal. destruct (Nat.ltb_spec j n), (Nat.ltb_spec j (S n)); try reflexivity; lia.
Qed.

Lemma ket_agree n x y : (forall j, j < n -> N.testbit x (N.of_nat j) = N.testbit y (N.of_nat j))%nat -> ket n x = ket n y.
Proof.
  intros H. apply functional_extensionality; intros b. unfold ket.
  rewrite (forallb_ext_in (fun j => Bool.eqb (b j) (N.testbit x (N.of_nat j)))
                          (fun j => Bool.eqb (b j) (N.testbit y (N.of_nat j)))); [reflexivity|].
  intros j Hj. apply in_seq in Hj. rewrite H by lia. reflexivity.
Qed.

(* the preparation circuit prepares |bits> from |0...0>: every register size, every bit pattern (bits at and above
   n_qubits are ignored by the loop and by the vector alike) *)
Theorem prep_prepares n bits b : csem (prep n bits) (ket n 0%N) b = ket n bits b.
Proof.
  unfold prep. rewrite X_list. rewrite (ket_agree n (flips (prep_idx n bits) 0%N) bits); [reflexivity|].
  intros j Hj. rewrite flips_prep_testbit. replace (j <? n) with true by (symmetry; apply Nat.ltb_lt; exact Hj). reflexivity.
Qed.

(* the general state built for a mixed chain: i^phase . (circuit + gates)|0> = gates (i^phase |bits>) *)
Theorem mixed_chain_state n bits ph (gs : list lgate) b :
  ipow ph * csem (prep n bits ++ gs) (ket n 0%N) b = csem gs (vec (n, bits, ph)) b.
Proof.
  rewrite csem_app.
  replace (csem (prep n bits) (ket n 0%N)) with (ket n bits)
    by (apply functional_extensionality; intros c; symmetry; apply prep_prepares).
  unfold vec. rewrite (csem_lin gs). reflexivity.
Qed.

Example prep_example : prep_idx 4 13%N = [0; 2; 3]%nat /\ prep_idx 2 13%N = [0]%nat.
Proof. vm_compute. split; reflexivity. Qed.
