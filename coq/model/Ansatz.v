(* Circuits made of verified blocks keep the charge sectors: model of the block structure of the
   symmetry-preserving ansatz circuits (SymmetryPreserving / SymmetryPreservingReal, ParticleConservingU1/U2,
   GateFabric, AllSinglesDoubles): any number of blocks, each a template instantiated with arbitrary real
   values of its angle variables on arbitrary distinct qubits of a register of any size. *)
From Coq Require Import List Bool Arith Lia ZArith Reals.
From QP Require Import Cx Asum FMat Apply Local Gates Rsem Conserve.
From QPM Require Import Transpile.
Import ListNotations.

Definition c_num (q : nat) : Z := 1%Z.                                   (* particle number *)
Definition c_sz (q : nat) : Z := if Nat.even q then 1%Z else (-1)%Z.     (* 2 S_z: even qubit = spin up *)
Definition same_par (a b : Z) : bool := Z.even (a - b).                  (* parity *)

Lemma eqb_trans a b d : Z.eqb a b = true -> Z.eqb b d = true -> Z.eqb a d = true.
Proof. rewrite !Z.eqb_eq. congruence. Qed.
Lemma eqb_shift a b k : Z.eqb a b = true -> Z.eqb (k + a) (k + b) = true.
Proof. rewrite !Z.eqb_eq. intros ->. reflexivity. Qed.
Lemma par_refl a : same_par a a = true.
Proof. unfold same_par. rewrite Z.sub_diag. reflexivity. Qed.
Lemma par_sym a b : same_par a b = same_par b a.
Proof. unfold same_par. replace (b - a)%Z with (- (a - b))%Z by lia. rewrite Z.even_opp. reflexivity. Qed.
Lemma par_trans a b d : same_par a b = true -> same_par b d = true -> same_par a d = true.
Proof. unfold same_par. intros H1 H2. replace (a - d)%Z with ((a - b) + (b - d))%Z by lia. rewrite Z.even_add, H1, H2. reflexivity. Qed.
Lemma par_shift a b k : same_par a b = true -> same_par (k + a) (k + b) = true.
Proof. unfold same_par. intros H. replace (k + a - (k + b))%Z with (a - b)%Z by lia. exact H. Qed.

Record binst := mkB { bk : nat; bt : list gate; btheta : nat -> R; bqs : list nat }.
Definition binst_sem (bi : binst) : list lgate :=
  map (fun g => rsem (inst (btheta bi) (pi_of (bqs bi)) g)) (bt bi).
Definition binst_ok (c : nat -> Z) (same : Z -> Z -> bool) (Q : list nat) (bi : binst) : Prop :=
  NoDup (bqs bi) /\ length (bqs bi) = bk bi /\ incl (bqs bi) Q /\
  check_conserve same (map c (bqs bi)) (seq 0 (bk bi)) (map eg (bt bi)) = true /\ forallb gate_ok (bt bi) = true.

Section Keeps.
Variable c : nat -> Z.
Variable same : Z -> Z -> bool.
Hypothesis same_trans : forall a b d, same a b = true -> same b d = true -> same a d = true.
Hypothesis same_shift : forall a b k, same a b = true -> same (k + a)%Z (k + b)%Z = true.

Theorem circuit_of_blocks_keeps_sectors Q blocks : NoDup Q -> Forall (binst_ok c same Q) blocks ->
  keeps c same Q (csem (concat (map binst_sem blocks))).
Proof.
  intros HQ Hall. apply keeps_concat. intros bl Hbl. apply in_map_iff in Hbl. destruct Hbl as [bi [<- Hbi]].
  rewrite Forall_forall in Hall. destruct (Hall bi Hbi) as [Hnd [Hlen [Hin [Hck Hok]]]].
  unfold binst_sem.
  apply (block_keeps c same same_trans same_shift (btheta bi) (pi_of (bqs bi)) (pi_of_inj _ Hnd)
           (map c (bqs bi)) (seq 0 (bk bi)) (bt bi) Q Hck Hok).
  - intros i Hi. rewrite seq_length in Hi. rewrite seq_nth by exact Hi. cbn [Nat.add].
    rewrite (nth_indep _ 0%Z (c 0%nat)) by (rewrite map_length; lia). rewrite map_nth.
    unfold pi_of. replace (i <? length (bqs bi)) with true by (symmetry; apply Nat.ltb_lt; lia). reflexivity.
  - exact HQ.
  - rewrite <- Hlen, map_pi_of_seq. exact Hin.
Qed.
End Keeps.
