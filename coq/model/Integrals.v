(* Model of chem/mol/non_relativistic_models.py and chem/mol/active_space.py: spatial -> spin-orbital
   expansion with alternating spin index, effective core energy, effective one- and two-electron
   integrals of an active space, core/active index selection; and the Slater-Condon energy of a
   determinant under H = c + sum h_PQ a+_P a_Q + 1/2 sum g_PQRS a+_P a+_Q a_R a_S.
   Arrays are functions of their indices; definitions are generic in the number type (R for the
   theorems, Z for execution).  All energies are doubled to avoid the factor 1/2. *)
From Coq Require Import List Arith Bool Lia Reals Lra.
Import ListNotations.

Section Gen.
Variable K : Type.
Variables (kadd ksub : K -> K -> K) (k0 : K).
Notation "a +' b" := (kadd a b) (at level 50, left associativity).
Notation "a -' b" := (ksub a b) (at level 50, left associativity).
Definition kdbl (x : K) : K := x +' x.
Definition ksum (l : list nat) (f : nat -> K) : K := fold_right (fun p a => f p +' a) k0 l.

(* spatial_mo_1e_int_to_spin_mo_1e_int / spatial_mo_2e_int_to_spin_mo_2e_int: spin orbital 2p is spatial
   orbital p with spin up, 2p+1 spin down; g_spin[P,Q,R,S] needs spin(P) = spin(S) and spin(Q) = spin(R) *)
Definition spin1 (h : nat -> nat -> K) (P Q : nat) : K :=
  if Bool.eqb (Nat.odd P) (Nat.odd Q) then h (Nat.div2 P) (Nat.div2 Q) else k0.
Definition spin2 (g : nat -> nat -> nat -> nat -> K) (P Q R S : nat) : K :=
  if Bool.eqb (Nat.odd P) (Nat.odd S) && Bool.eqb (Nat.odd Q) (Nat.odd R)
  then g (Nat.div2 P) (Nat.div2 Q) (Nat.div2 R) (Nat.div2 S) else k0.

(* get_effective_active_space_core_energy *)
Definition eff_core (c0 : K) (h : nat -> nat -> K) (g : nat -> nat -> nat -> nat -> K) (core : list nat) : K :=
  c0 +' kdbl (ksum core (fun c => h c c))
     +' kdbl (ksum core (fun c => ksum core (fun d => g c d d c)))
     -' ksum core (fun c => ksum core (fun d => g c d c d)).
(* get_effective_active_space_1e_integrals (before the restriction to the active indices) *)
Definition eff_h1 (h : nat -> nat -> K) (g : nat -> nat -> nat -> nat -> K) (core : list nat) (p q : nat) : K :=
  h p q +' kdbl (ksum core (fun c => g c p q c)) -' ksum core (fun c => g c p c q).
(* np.ix_(active, active[, active, active]) *)
Definition sub1 (f : nat -> nat -> K) (act : list nat) (i j : nat) : K := f (nth i act 0) (nth j act 0).
Definition sub2 (f : nat -> nat -> nat -> nat -> K) (act : list nat) (i j k l : nat) : K :=
  f (nth i act 0) (nth j act 0) (nth k act 0) (nth l act 0).

(* twice the energy of the determinant with occupied spin orbitals D *)
Definition E2 (c0 : K) (hs : nat -> nat -> K) (gs : nat -> nat -> nat -> nat -> K) (D : list nat) : K :=
  kdbl c0 +' kdbl (ksum D (fun P => hs P P))
          +' ksum D (fun P => ksum D (fun Q => gs P Q Q P -' gs P Q P Q)).
End Gen.

(* convert_to_spin_orbital_indices *)
Definition core_spin (core : list nat) : list nat := flat_map (fun c => [2 * c; S (2 * c)]) core.
(* an active-space spin orbital in full-space numbering *)
Definition lift (act : list nat) (P : nat) : nat := 2 * nth (Nat.div2 P) act 0 + (if Nat.odd P then 1 else 0).

(* get_core_and_active_orbital_indices (None = ValueError) *)
Fixpoint take_non_active (k : nat) (cands : list nat) (act : list nat) : list nat :=
  match k, cands with
  | 0, _ => []
  | _, [] => []
  | S k', i :: r => if existsb (Nat.eqb i) act then take_non_active k r act else i :: take_non_active k' r act
  end.
Definition core_active (n_ae n_ao n_e : nat) (act : list nat) : option (list nat * list nat) :=
  if n_e <? n_ae then None
  else if Nat.odd (n_e - n_ae) then None
  else let core_orb := Nat.div2 (n_e - n_ae) in
       match act with
       | [] => Some (seq 0 core_orb, seq core_orb n_ao)
       | _ => if Nat.eqb (length act) n_ao
              then Some (take_non_active core_orb (seq 0 (core_orb + n_ao)) act, act)
              else None
       end.

Lemma take_non_active_spec k cands act i : In i (take_non_active k cands act) -> In i cands /\ ~ In i act.
Proof.
  revert k. induction cands as [|c r IH]; intros k H; [destruct k; simpl in H; contradiction|].
  destruct k as [|k]; [simpl in H; contradiction|]. cbn [take_non_active] in H.
  destruct (existsb (Nat.eqb c) act) eqn:E.
  - destruct (IH _ H) as [A B]. split; [right; exact A|exact B].
  - destruct H as [<-|H].
    + split; [left; reflexivity|]. intros Hin. assert (existsb (Nat.eqb c) act = true); [|congruence].
      apply existsb_exists. exists c. split; [exact Hin|apply Nat.eqb_refl].
    + destruct (IH _ H) as [A B]. split; [right; exact A|exact B].
Qed.

(* the frozen core never contains an active orbital *)
Theorem core_active_disjoint n_ae n_ao n_e act core active :
  core_active n_ae n_ao n_e act = Some (core, active) -> forall i, In i core -> ~ In i active.
Proof.
  unfold core_active. destruct (n_e <? n_ae); [discriminate|]. destruct (Nat.odd _); [discriminate|].
  destruct act as [|a act].
  - intros [= <- <-] i Hc Ha. apply in_seq in Hc. apply in_seq in Ha. lia.
  - destruct (Nat.eqb _ n_ao); [|discriminate]. intros [= <- <-] i Hc. exact (proj2 (take_non_active_spec _ _ _ _ Hc)).
Qed.

Lemma odd_double c : Nat.odd (2 * c) = false.
Proof. rewrite Nat.odd_mul. reflexivity. Qed.
Lemma odd_S_double c : Nat.odd (S (2 * c)) = true.
Proof. rewrite Nat.odd_succ, Nat.even_mul. reflexivity. Qed.
Lemma div2_S_double c : Nat.div2 (S (2 * c)) = c.
Proof. apply Nat.div2_succ_double. Qed.
Lemma div2_double' c : Nat.div2 (2 * c) = c.
Proof. apply Nat.div2_double. Qed.
Lemma lift_odd act P : Nat.odd (lift act P) = Nat.odd P.
Proof.
  unfold lift. destruct (Nat.odd P).
  - replace (2 * nth (Nat.div2 P) act 0 + 1)%nat with (S (2 * nth (Nat.div2 P) act 0)) by lia. apply odd_S_double.
  - rewrite Nat.add_0_r. apply odd_double.
Qed.
Lemma lift_div2 act P : Nat.div2 (lift act P) = nth (Nat.div2 P) act 0.
Proof.
  unfold lift. destruct (Nat.odd P).
  - replace (2 * nth (Nat.div2 P) act 0 + 1)%nat with (S (2 * nth (Nat.div2 P) act 0)) by lia. apply div2_S_double.
  - rewrite Nat.add_0_r. apply div2_double'.
Qed.


(* ------------------------------------------------------------------ the active-space identity over R *)
Local Open Scope R_scope.
Notation rsum := (ksum R Rplus 0).
Notation rE2 := (E2 R Rplus Rminus 0).
Notation rspin1 := (spin1 R 0).
Notation rspin2 := (spin2 R 0).

Lemma rsum_app l1 l2 f : rsum (l1 ++ l2) f = rsum l1 f + rsum l2 f.
Proof. unfold ksum. induction l1 as [|p l IH]; simpl; [ring|]. rewrite IH. ring. Qed.
Lemma rsum_ext l f1 f2 : (forall p, f1 p = f2 p) -> rsum l f1 = rsum l f2.
Proof. intros H. unfold ksum. induction l as [|p l IH]; simpl; [reflexivity|]. rewrite H, IH. reflexivity. Qed.
Lemma rsum_plus l f1 f2 : rsum l (fun p => f1 p + f2 p) = rsum l f1 + rsum l f2.
Proof. unfold ksum. induction l as [|p l IH]; simpl; [ring|]. rewrite IH. ring. Qed.
Lemma rsum_minus l f1 f2 : rsum l (fun p => f1 p - f2 p) = rsum l f1 - rsum l f2.
Proof. unfold ksum. induction l as [|p l IH]; simpl; [ring|]. rewrite IH. ring. Qed.
Lemma rsum_scal l c f : rsum l (fun p => c * f p) = c * rsum l f.
Proof. unfold ksum. induction l as [|p l IH]; simpl; [ring|]. rewrite IH. ring. Qed.
Lemma rsum_zero l : rsum l (fun _ => 0) = 0.
Proof. unfold ksum. induction l as [|p l IH]; simpl; [ring|]. rewrite IH. ring. Qed.
Lemma rsum_swap l1 l2 (f : nat -> nat -> R) :
  rsum l1 (fun p => rsum l2 (fun q => f p q)) = rsum l2 (fun q => rsum l1 (fun p => f p q)).
Proof.
  induction l1 as [|p l1 IH]; [cbn [ksum fold_right]; rewrite rsum_zero; reflexivity|].
  change (rsum (p :: l1) (fun p0 => rsum l2 (fun q => f p0 q)))
    with (rsum l2 (fun q => f p q) + rsum l1 (fun p0 => rsum l2 (fun q => f p0 q))).
  rewrite IH, <- rsum_plus. apply rsum_ext. intros q. reflexivity.
Qed.
Lemma rsum_map (phi : nat -> nat) l f : rsum (map phi l) f = rsum l (fun p => f (phi p)).
Proof. unfold ksum. induction l as [|p l IH]; simpl; [reflexivity|]. rewrite IH. reflexivity. Qed.
Lemma rsum_core_spin core f : rsum (core_spin core) f = rsum core (fun c => f (2 * c)%nat + f (S (2 * c))).
Proof.
  unfold core_spin. induction core as [|c l IH]; [reflexivity|]. cbn [flat_map]. rewrite rsum_app, IH.
  unfold ksum. cbn [fold_right]. ring.
Qed.

Section Identity.
Variable c0 : R.
Variable h : nat -> nat -> R.
Variable g : nat -> nat -> nat -> nat -> R.
Hypothesis g_sym : forall p q r s, g p q r s = g q p s r.     (* (ps|qr) = (qr|ps): the two electrons are exchanged *)
Variables core act : list nat.

Let hs := rspin1 h.
Let gs := rspin2 g.
Let w (P Q : nat) : R := gs P Q Q P - gs P Q P Q.

Lemma w_sym P Q : w P Q = w Q P.
Proof.
  unfold w, gs, spin2. rewrite !eqb_reflx. cbn [andb].
  rewrite (g_sym (Nat.div2 Q) (Nat.div2 P) (Nat.div2 P) (Nat.div2 Q)).
  assert (Es : Bool.eqb (Nat.odd Q) (Nat.odd P) = Bool.eqb (Nat.odd P) (Nat.odd Q)) by (destruct (Nat.odd P), (Nat.odd Q); reflexivity).
  rewrite Es.
  destruct (Bool.eqb (Nat.odd P) (Nat.odd Q)); cbn [andb]; [|reflexivity].
  rewrite (g_sym (Nat.div2 Q) (Nat.div2 P) (Nat.div2 Q) (Nat.div2 P)). reflexivity.
Qed.

(* sum over both spins of a core orbital d of the interaction with a spin orbital P *)
Lemma w_core_pair P d :
  w P (2 * d) + w P (S (2 * d)) = 2 * g (Nat.div2 P) d d (Nat.div2 P) - g (Nat.div2 P) d (Nat.div2 P) d.
Proof.
  unfold w, gs, spin2. rewrite !eqb_reflx, !odd_double, !odd_S_double, !div2_double', !div2_S_double. cbn [andb].
  destruct (Nat.odd P); cbn [Bool.eqb andb]; ring.
Qed.

Lemma core_core :
  rsum (core_spin core) (fun P => rsum (core_spin core) (fun Q => w P Q))
  = rsum core (fun c => rsum core (fun d => 4 * g c d d c - 2 * g c d c d)).
Proof.
  rewrite rsum_core_spin. apply rsum_ext. intros c. rewrite !rsum_core_spin, <- rsum_plus.
  apply rsum_ext. intros d. rewrite !w_core_pair, div2_double', div2_S_double. ring.
Qed.

Lemma core_one_body : rsum (core_spin core) (fun P => hs P P) = 2 * rsum core (fun c => h c c).
Proof.
  rewrite rsum_core_spin, <- rsum_scal. apply rsum_ext. intros c. unfold hs, spin1.
  rewrite !eqb_reflx, div2_double', div2_S_double. ring.
Qed.

Lemma cross P : rsum (core_spin core) (fun Q => w P Q)
  = 2 * rsum core (fun c => g c (Nat.div2 P) (Nat.div2 P) c) - rsum core (fun c => g c (Nat.div2 P) c (Nat.div2 P)).
Proof.
  rewrite rsum_core_spin, <- rsum_scal, <- rsum_minus. apply rsum_ext. intros d. rewrite w_core_pair.
  rewrite (g_sym d (Nat.div2 P) (Nat.div2 P) d), (g_sym d (Nat.div2 P) d (Nat.div2 P)). reflexivity.
Qed.

(* Every determinant that doubly occupies the core orbitals and occupies the active spin orbitals A has the
   same energy under the full spin-orbital Hamiltonian as under the reduced Hamiltonian built from the
   effective core energy and the effective active-space integrals - for all integral tensors with the
   electron-exchange symmetry, all core and active index lists and all A. *)
Theorem active_space_identity A :
  rE2 c0 hs gs (core_spin core ++ map (lift act) A)
  = rE2 (eff_core R Rplus Rminus 0 c0 h g core)
        (rspin1 (sub1 R (eff_h1 R Rplus Rminus 0 h g core) act))
        (rspin2 (sub2 R g act)) A.
Proof.
  unfold E2, kdbl.
  (* left side: split every sum over core ++ active *)
  rewrite rsum_app.
  assert (Hsplit : rsum (core_spin core ++ map (lift act) A)
                     (fun P => rsum (core_spin core ++ map (lift act) A) (fun Q => gs P Q Q P - gs P Q P Q))
                   = rsum (core_spin core) (fun P => rsum (core_spin core) (fun Q => w P Q))
                     + 2 * rsum (map (lift act) A) (fun P => rsum (core_spin core) (fun Q => w P Q))
                     + rsum (map (lift act) A) (fun P => rsum (map (lift act) A) (fun Q => w P Q))).
  { rewrite rsum_app.
    rewrite (rsum_ext (core_spin core) _ (fun P => rsum (core_spin core) (fun Q => w P Q) + rsum (map (lift act) A) (fun Q => w P Q)))
      by (intros P; apply rsum_app).
    rewrite (rsum_ext (map (lift act) A) _ (fun P => rsum (core_spin core) (fun Q => w P Q) + rsum (map (lift act) A) (fun Q => w P Q)))
      by (intros P; apply rsum_app).
    rewrite !rsum_plus.
    rewrite (rsum_swap (core_spin core) (map (lift act) A) (fun P Q => w P Q)).
    rewrite (rsum_ext (map (lift act) A) (fun q => rsum (core_spin core) (fun p => w p q))
                      (fun q => rsum (core_spin core) (fun p => w q p)))
      by (intros q; apply rsum_ext; intros p; apply w_sym).
    ring. }
  rewrite Hsplit, core_core, core_one_body. clear Hsplit.
  rewrite !rsum_map.
  (* right side *)
  unfold eff_core, kdbl.
  assert (H1 : rsum A (fun P => rspin1 (sub1 R (eff_h1 R Rplus Rminus 0 h g core) act) P P)
               = rsum A (fun P => hs (lift act P) (lift act P))
                 + rsum A (fun P => rsum (core_spin core) (fun Q => w (lift act P) Q))).
  { rewrite <- rsum_plus. apply rsum_ext. intros P. rewrite cross, lift_div2.
    unfold hs, spin1, sub1, eff_h1, kdbl. rewrite !eqb_reflx, lift_div2. ring. }
  assert (H2 : rsum A (fun P => rsum A (fun Q => rspin2 (sub2 R g act) P Q Q P - rspin2 (sub2 R g act) P Q P Q))
               = rsum A (fun P => rsum A (fun Q => w (lift act P) (lift act Q)))).
  { apply rsum_ext. intros P. apply rsum_ext. intros Q. unfold w, gs, spin2, sub2.
    rewrite !lift_odd, !lift_div2. reflexivity. }
  rewrite H1, H2.
  assert (H3 : rsum core (fun c => rsum core (fun d => 4 * g c d d c - 2 * g c d c d))
               = 4 * rsum core (fun c => rsum core (fun d => g c d d c)) - 2 * rsum core (fun c => rsum core (fun d => g c d c d))).
  { rewrite <- !rsum_scal, <- rsum_minus. apply rsum_ext. intros c. rewrite <- !rsum_scal, <- rsum_minus. reflexivity. }
  rewrite H3.
  assert (H4 : rsum A (fun p => rsum (map (lift act) A) (fun Q => w (lift act p) Q))
               = rsum A (fun P => rsum A (fun Q => w (lift act P) (lift act Q))))
    by (apply rsum_ext; intros P; apply rsum_map).
  rewrite H4. ring.
Qed.
End Identity.

(* ------------------------------------------------------------------ AO -> MO contraction *)
Section AOMO.
Variable K : Type.
Variables (kadd kmul : K -> K -> K) (k0 : K).
Notation ks := (ksum K kadd k0).
(* to_spatial_mo1int: C^T h C (real coefficients) *)
Definition mo1 (C : nat -> nat -> K) (h : nat -> nat -> K) (L : list nat) (p q : nat) : K :=
  ks L (fun a => ks L (fun b => kmul (kmul (C a p) (h a b)) (C b q))).
(* to_spatial_mo2int: transpose(0,3,1,2), four tensordots over the AO index, transpose(0,2,3,1);
   written out on indices (real coefficients) *)
Definition mo2_code (C : nat -> nat -> K) (g : nat -> nat -> nat -> nat -> K) (L : list nat) (p q r s : nat) : K :=
  ks L (fun a => ks L (fun b => ks L (fun c => ks L (fun d =>
    kmul (kmul (kmul (kmul (C a r) (C b q)) (C c s)) (C d p)) (g a c d b))))).
(* the transformation of a physicist-ordered tensor g[p,q,r,s] = (ps|qr) *)
Definition mo2_spec (C : nat -> nat -> K) (g : nat -> nat -> nat -> nat -> K) (L : list nat) (p q r s : nat) : K :=
  ks L (fun a => ks L (fun b => ks L (fun c => ks L (fun d =>
    kmul (kmul (kmul (kmul (C a p) (C b q)) (C c r)) (C d s)) (g a b c d))))).
End AOMO.

Theorem mo2_code_is_the_physicist_transformation (C : nat -> nat -> R) g L p q r s :
  (forall a b c d, g a b c d = g c d a b) ->
  mo2_code R Rplus Rmult 0 C g L p q r s = mo2_spec R Rplus Rmult 0 C g L p q r s.
Proof.
  intros Hsym. unfold mo2_code, mo2_spec.
  set (F := fun a b c d => C a r * C b q * C c s * C d p * g a c d b).
  change (rsum L (fun a => rsum L (fun b => rsum L (fun c => rsum L (fun d => F a b c d))))
          = rsum L (fun a => rsum L (fun b => rsum L (fun c => rsum L (fun d => C a p * C b q * C c r * C d s * g a b c d))))).
  (* bring the summation order (a, b, c, d) to (d, b, a, c) *)
  transitivity (rsum L (fun d => rsum L (fun b => rsum L (fun a => rsum L (fun c => F a b c d))))).
  - transitivity (rsum L (fun a => rsum L (fun b => rsum L (fun d => rsum L (fun c => F a b c d))))).
    { apply rsum_ext. intros a. apply rsum_ext. intros b. apply rsum_swap. }
    transitivity (rsum L (fun a => rsum L (fun d => rsum L (fun b => rsum L (fun c => F a b c d))))).
    { apply rsum_ext. intros a. apply (rsum_swap L L (fun b d => rsum L (fun c => F a b c d))). }
    transitivity (rsum L (fun d => rsum L (fun a => rsum L (fun b => rsum L (fun c => F a b c d))))).
    { apply (rsum_swap L L (fun a d => rsum L (fun b => rsum L (fun c => F a b c d)))). }
    apply rsum_ext. intros d. apply (rsum_swap L L (fun a b => rsum L (fun c => F a b c d))).
  - apply rsum_ext. intros al. apply rsum_ext. intros be. apply rsum_ext. intros ga. apply rsum_ext. intros de.
    unfold F. rewrite (Hsym ga de al be). ring.
Qed.
