(* Model of circuit/inverse.py (inverse_gate on the modelled vocabulary, inverse_circuit) and
   of the gate folding of algo/mitigation/zne/zne.py (scaling_circuit_folding).
   The per-kind inverse table is regenerated from /repo by translate/inverse.py
   (symbolic evaluation of inverse_gate). *)
From Coq Require Import String.
From Coq Require Import ZArith List Bool Arith Lia Reals FunctionalExtensionality.
From QP Require Import Cx Zw Asum FMat Lpoly Apply Local Gates Rsem.
From QPM Require Import Transpile Pauli.
Import ListNotations.

Definition IdG : gate := mkG KI [0%nat] [].

(* obligation per table row: [g ; inverse g] acts as the identity up to a global phase *)
Definition inv_ok (e : gkind * gate) : bool :=
  let '(k, ig) := e in
  tmpl_check (seq 0 (arity k)) [canon k; ig] IdG && gate_ok ig && gate_ok (canon k) && gate_ok IdG
  && Nat.leb 1 (arity k).

Fixpoint inv_lookup (tab : list (gkind * gate)) (k : gkind) : option gate :=
  match tab with [] => None | (k', g) :: tab' => if gkind_eqb k k' then Some g else inv_lookup tab' k end.

Section Inv.
Variable tab : list (gkind * gate).

Definition inverse_gate (c : cgate) : cgate :=
  match inv_lookup tab (ck c) with
  | Some ig => inst (theta_of c) (pi_of (cqs c)) ig
  | None => c
  end.
Definition inverse_circuit (circ : list cgate) : list cgate := rev (map inverse_gate circ).

(* the circuits the theorems speak about: every gate's kind has a checked row *)
Definition covered (c : cgate) : Prop :=
  cgate_ok c /\ exists ig, inv_lookup tab (ck c) = Some ig /\ inv_ok (ck c, ig) = true.

Lemma identity_gate_sem t : lsem (rsem (mkC KI [t] [])) = fun psi => psi.
Proof.
  apply functional_extensionality; intros psi. apply functional_extensionality; intros b.
  assert (Hchk : check_exact (seq 0 1) (map eg [mkG KI [0%nat] []]) (map eg []) zw1 = true) by (vm_compute; reflexivity).
  pose proof (exact_placed 1 [mkG KI [0%nat] []] [] zw1 [t] Hchk) as E.
  assert (Hnd : NoDup [t]) by (constructor; [intros [] | constructor]).
  specialize (E Hnd). apply (f_equal (fun f => f psi b)) in E.
  unfold scaleop in E. rewrite zw_eval_1 in E.
  change (lsem (ksem (mkG KI [t] [])) psi b = Cmul C1 (psi b)) in E.
  change (lsem (rsem (mkC KI [t] [])) psi b) with (lsem (ksem (mkG KI [t] [])) psi b).
  rewrite E. apply Cmul_1_l.
Qed.

Lemma gate_then_inverse c : covered c -> csem [rsem c; rsem (inverse_gate c)] ≃ csem [].
Proof.
  intros [Hc [ig [Hl Hok]]]. unfold inverse_gate. rewrite Hl.
  unfold inv_ok in Hok.
  apply andb_true_iff in Hok as [Hok Har]. apply andb_true_iff in Hok as [Hok HokI].
  apply andb_true_iff in Hok as [Hok Hokc]. apply andb_true_iff in Hok as [Hchk Hokg].
  destruct Hc as [Ha [Hnd Hp]].
  pose proof (tmpl_sound (theta_of c) (pi_of (cqs c)) (pi_of_inj _ Hnd) _ [canon (ck c); ig] IdG Hchk) as T.
  simpl in T. rewrite Hokc, Hokg in T. specialize (T eq_refl HokI).
  rewrite (inst_canon c (conj Ha (conj Hnd Hp))) in T.
  eapply opequiv_trans; [exact T|].
  unfold inst, IdG; simpl. rewrite identity_gate_sem.
  exists C1; split; [apply Cunit_1|]. intros psi b. unfold csem; simpl. symmetry; apply Cmul_1_l.
Qed.

(* composing a circuit with its library-computed inverse gives the identity up to phase:
   circuits of any length over the covered kinds, all angles, all placements *)
Theorem inverse_circuit_sound circ : Forall covered circ ->
  csem (map rsem (circ ++ inverse_circuit circ)) ≃ csem [].
Proof.
  induction 1 as [|c circ Hc _ IH]; [apply opequiv_refl|].
  unfold inverse_circuit in *.
  assert (E : (c :: circ) ++ rev (map inverse_gate (c :: circ))
              = [c] ++ (circ ++ rev (map inverse_gate circ)) ++ [inverse_gate c]).
  { simpl. rewrite app_assoc. reflexivity. }
  rewrite E, !map_app.
  eapply opequiv_trans.
  - apply csem_app_equiv; [apply opequiv_refl|].
    apply csem_app_equiv; [|apply opequiv_refl].
    rewrite <- map_app. exact IH.
  - simpl. apply gate_then_inverse. exact Hc.
Qed.

(* ------------------------------------------------------------------ folding *)
(* scaling_circuit_folding: gate i is emitted once, then (m + [i in idx]) times (inverse, gate) *)
Fixpoint foldrep {A} (g ig : A) (n : nat) : list A :=
  match n with O => [] | S n' => ig :: g :: foldrep g ig n' end.
Definition fold_with {A} (inv : A -> A) (m : nat) (idx : list nat) (circ : list A) : list A :=
  flat_map (fun ig : nat * A =>
    let '(i, g) := ig in
    g :: foldrep g (inv g) (m + (if existsb (Nat.eqb i) idx then 1 else 0)))
    (combine (seq 0 (length circ)) circ).

Lemma fm_cons {A B} (f : A -> list B) x l : flat_map f (x :: l) = f x ++ flat_map f l.
Proof. reflexivity. Qed.

Lemma foldrep_sound c n : covered c ->
  csem (map rsem (c :: foldrep c (inverse_gate c) n)) ≃ csem [rsem c].
Proof.
  intros Hc. induction n as [|n IH]; [apply opequiv_refl|].
  simpl.
  change (csem ([rsem c; rsem (inverse_gate c)] ++ map rsem (c :: foldrep c (inverse_gate c) n))
          ≃ csem ([] ++ [rsem c])).
  apply csem_app_equiv; [apply gate_then_inverse; auto | exact IH].
Qed.

Theorem folding_sound m idx circ : Forall covered circ ->
  csem (map rsem (fold_with inverse_gate m idx circ)) ≃ csem (map rsem circ).
Proof.
  intros Hc. unfold fold_with.
  assert (G : forall start, csem (map rsem (flat_map (fun ig : nat * cgate => let '(i, g) := ig in
       g :: foldrep g (inverse_gate g) (m + (if existsb (Nat.eqb i) idx then 1 else 0)))
       (combine (seq start (length circ)) circ))) ≃ csem (map rsem circ)).
  { induction Hc as [|c circ Hc1 Hc IH]; intros start; [apply opequiv_refl|].
    change (combine (seq start (length (c :: circ))) (c :: circ))
      with ((start, c) :: combine (seq (S start) (length circ)) circ).
    rewrite fm_cons, map_app.
    change (map rsem (c :: circ)) with ([rsem c] ++ map rsem circ).
    apply csem_app_equiv; [|apply IH].
    apply (foldrep_sound c _ Hc1). }
  apply G.
Qed.

Lemma foldrep_length {A} (g ig : A) n : length (foldrep g ig n) = (2 * n)%nat.
Proof. induction n; simpl; lia. Qed.

(* documented gate count when all gates are folded m times and none additionally *)
Lemma fold_len_aux {A} (inv : A -> A) m (circ : list A) : forall start,
  length (flat_map (fun ig : nat * A => let '(i, g) := ig in
            g :: foldrep g (inv g) (m + (if existsb (Nat.eqb i) [] then 1 else 0)))
          (combine (seq start (length circ)) circ)) = (length circ * (1 + 2 * m))%nat.
Proof.
  induction circ as [|g circ IH]; intros start; [reflexivity|].
  change (combine (seq start (length (g :: circ))) (g :: circ))
    with ((start, g) :: combine (seq (S start) (length circ)) circ).
  rewrite fm_cons, app_length, IH. cbn [length existsb]. rewrite foldrep_length. lia.
Qed.

Theorem folding_length_uniform {A} (inv : A -> A) m (circ : list A) :
  length (fold_with inv m [] circ) = (length circ * (1 + 2 * m))%nat.
Proof. unfold fold_with. apply fold_len_aux. Qed.
End Inv.
