(* Model of core/operator/conjugation.py: clifford_gate_conjugation.
   The two conjugation tables, the Pauli product table and CLIFFORD_GATE_NAMES are
   parameters (generated from /repo); the fold over the factors of the label mirrors the
   Python loop (any enumeration order of the frozenset: the label is an arbitrary list). *)
From Coq Require Import ZArith List Bool Arith Lia Reals Lra FunctionalExtensionality.
From QP Require Import Cx Zw Asum FMat Lpoly Apply Local Gates Rsem.
From QPM Require Import Transpile Pauli.
Import ListNotations.
Local Open Scope C_scope.

Section Conj.
Variable ptab : ptable.
Variable c1 : pauli -> gkind -> option (pauli * Zw).
Variable c2 : pauli -> gkind -> bool -> option (option pauli * option pauli).
Variable cnames : list gkind.

Definition optl (i : nat) (o : option pauli) : label :=
  match o with Some p => [(i, p)] | None => [] end.

Definition img1 (k : gkind) (t : nat) (ip : nat * pauli) : option (label * Zw) :=
  if Nat.eqb (fst ip) t then
    match c1 (snd ip) k with Some (r, s) => Some ([(fst ip, r)], s) | None => None end
  else Some ([ip], zw1).

Definition step1 (k : gkind) (t : nat) (acc : option (label * Zw)) (ip : nat * pauli) :=
  match acc with
  | None => None
  | Some (res, c) =>
      match img1 k t ip with
      | None => None
      | Some (im, s) => Some (fst (pprod ptab res im), zw_mul c s)   (* product phase discarded *)
      end
  end.

Definition img2 (k : gkind) (c t : nat) (ip : nat * pauli) : option label :=
  if Nat.eqb (fst ip) c then
    match c2 (snd ip) k true with Some (a, b) => Some (optl c a ++ optl t b) | None => None end
  else if Nat.eqb (fst ip) t then
    match c2 (snd ip) k false with Some (a, b) => Some (optl c a ++ optl t b) | None => None end
  else Some [ip].

Definition step2 (k : gkind) (c t : nat) (acc : option (label * Zw)) (ip : nat * pauli) :=
  match acc with
  | None => None
  | Some (res, co) =>
      match img2 k c t ip with
      | None => None
      | Some im => let '(res', ph) := pprod ptab res im in Some (res', zw_mul co ph)
      end
  end.

(* None = the Python function raises *)
Definition conj (g : gate) (l : label) : option (label * Zw) :=
  if negb (existsb (gkind_eqb (gk g)) cnames) then None
  else if gkind_eqb (gk g) KI then Some (l, zw1)
  else match gqs g with
       | [t] => fold_left (step1 (gk g) t) l (Some ([], zw1))
       | [c; t] => fold_left (step2 (gk g) c t) l (Some ([], zw1))
       | _ => Some ([], zw1)
       end.

(* ---------------------------------------------------------------- table obligations *)
Definition P0 (p : pauli) (r : nat) : gate := mkG (pk p) [r] [].
Definition optg (r : nat) (o : option pauli) : list gate :=
  match o with Some p => [P0 p r] | None => [] end.

Definition conj1_ok (k : gkind) : bool :=
  let U := mkG k [0%nat] [] in
  forallb (fun p =>
    match c1 p k with
    | Some (r, s) => check_exact [0%nat] (map eg [P0 p 0; U]) (map eg [U; P0 r 0]) s
    | None => false
    end &&
    check_exact [0%nat; 1%nat] (map eg [P0 p 1; U]) (map eg [U; P0 p 1]) zw1) all_pauli.

Definition conj2_ok (k : gkind) : bool :=
  let U := mkG k [0%nat; 1%nat] [] in
  forallb (fun p =>
    match c2 p k true with
    | Some (a, b) => check_exact [0%nat; 1%nat] (map eg [P0 p 0; U]) (map eg (U :: optg 0 a ++ optg 1 b)) zw1
    | None => false
    end &&
    match c2 p k false with
    | Some (a, b) => check_exact [0%nat; 1%nat] (map eg [P0 p 1; U]) (map eg (U :: optg 0 a ++ optg 1 b)) zw1
    | None => false
    end &&
    check_exact [0%nat; 1%nat; 2%nat] (map eg [P0 p 2; U]) (map eg [U; P0 p 2]) zw1) all_pauli.

Definition conj_tabs_ok : bool :=
  ptab_ok ptab &&
  forallb (fun k => if gkind_eqb k KI then true
                    else match arity k with
                         | 1 => conj1_ok k
                         | 2 => conj2_ok k
                         | _ => false
                         end) cnames.

Hypothesis tabs_ok : conj_tabs_ok = true.

Lemma ptab_ok' : ptab_ok ptab = true.
Proof. unfold conj_tabs_ok in tabs_ok. apply andb_true_iff in tabs_ok as [H _]; exact H. Qed.

Lemma kind_ok k : In k cnames -> k <> KI ->
  match arity k with 1 => conj1_ok k = true | 2 => conj2_ok k = true | _ => False end.
Proof.
  intros Hk Hne. unfold conj_tabs_ok in tabs_ok. apply andb_true_iff in tabs_ok as [_ H].
  rewrite forallb_forall in H. specialize (H k Hk).
  destruct (gkind_eqb k KI) eqn:E; [apply gkind_eqb_eq in E; contradiction|].
  destruct (arity k) as [|[|[|n]]]; try discriminate; auto.
Qed.

Definition img_ok (U : lgate) (ip : nat * pauli) (im : label) (s : Zw) : Prop :=
  forall psi b, lsem U (lsem (psem ip) psi) b = zw_eval s * lsemL im (lsem U psi) b.

Lemma NoDup_app_l {A} (l l' : list A) : NoDup (l ++ l') -> NoDup l.
Proof. induction l as [|a l IH]; simpl; intros H; [constructor|].
  inversion H as [|? ? Ha Hl]; subst. constructor; [|apply IH; auto].
  intros Hin; apply Ha, in_or_app; auto. Qed.

Lemma nodup1 (a : nat) : NoDup [a]. Proof. constructor; [intros [] | constructor]. Qed.
Lemma nodup2 (a b : nat) : a <> b -> NoDup [a; b].
Proof. intros H. constructor; [simpl; intros [E|[]]; auto | apply nodup1]. Qed.
Lemma nodup3 (a b c : nat) : a <> b -> a <> c -> b <> c -> NoDup [a; b; c].
Proof. intros H1 H2 H3. constructor; [simpl; intros [E|[E|[]]]; auto | apply nodup2; auto]. Qed.

Lemma exact_as_eq n gs gs' z qs psi b :
  check_exact (seq 0 n) (map eg gs) (map eg gs') z = true -> NoDup qs ->
  csem (map ksem (map (placeg qs) gs)) psi b = zw_eval z * csem (map ksem (map (placeg qs) gs')) psi b.
Proof. intros H Hnd. rewrite (exact_placed n gs gs' z qs H Hnd). reflexivity. Qed.

(* --- single-qubit gates --- *)
Lemma img1_ok k t ip im s : In k cnames -> k <> KI -> arity k = 1%nat ->
  img1 k t ip = Some (im, s) -> img_ok (ksem (mkG k [t] [])) ip im s.
Proof.
  intros Hk Hne Ha Him. pose proof (kind_ok k Hk Hne) as Hok. rewrite Ha in Hok.
  unfold conj1_ok in Hok. rewrite forallb_forall in Hok.
  destruct ip as [i p]. specialize (Hok p (in_all_pauli p)).
  apply andb_true_iff in Hok as [Hrow Hspec].
  unfold img1 in Him. simpl fst in Him; simpl snd in Him.
  destruct (Nat.eqb_spec i t) as [->|Hit].
  - destruct (c1 p k) as [[r s']|]; [|discriminate]. inversion Him; subst im s'. clear Him.
    intros psi b.
    pose proof (exact_as_eq 1 [P0 p 0; mkG k [0%nat] []] [mkG k [0%nat] []; P0 r 0] s [t] psi b Hrow (nodup1 t)) as E.
    exact E.
  - inversion Him; subst im s. clear Him. intros psi b.
    pose proof (exact_as_eq 2 [P0 p 1; mkG k [0%nat] []] [mkG k [0%nat] []; P0 p 1] zw1 [t; i] psi b Hspec
                  (nodup2 t i (fun E => Hit (eq_sym E)))) as E.
    exact E.
Qed.

Lemma pprod_fresh res i r : plookup i res = None -> pprod ptab res [(i, r)] = (res ++ [(i, r)], zw1).
Proof. intros H. unfold pprod; simpl. rewrite H. reflexivity. Qed.

Lemma plookup_notin i l : ~ In i (keys l) -> plookup i l = None.
Proof. induction l as [|[j q] l IH]; simpl; auto. intros H.
  destruct (Nat.eqb_spec i j) as [->|Hne]; [exfalso; auto | apply IH; auto]. Qed.

Lemma img1_keys k t ip im s : img1 k t ip = Some (im, s) -> exists r, im = [(fst ip, r)].
Proof. unfold img1. destruct (Nat.eqb (fst ip) t).
  - destruct (c1 (snd ip) k) as [[r s']|]; [|discriminate]. intros E; inversion E; eauto.
  - intros E; inversion E. destruct ip; eauto. Qed.

Lemma lsem_scale g c psi : lsem g (fun b => c * psi b) = fun b => c * lsem g psi b.
Proof. apply functional_extensionality; intros b. apply lsem_lin. Qed.

Lemma lsemL_scale l c psi : lsemL l (fun b => c * psi b) = fun b => c * lsemL l psi b.
Proof. apply csem_scale. Qed.

Lemma fold1_sound k t U : In k cnames -> k <> KI -> arity k = 1%nat -> U = ksem (mkG k [t] []) ->
  forall l P res c res' c',
  keys res = keys P ->
  (forall psi b, lsem U (csem (map psem (rev P)) psi) b = zw_eval c * lsemL res (lsem U psi) b) ->
  NoDup (keys (P ++ l)) ->
  fold_left (step1 k t) l (Some (res, c)) = Some (res', c') ->
  keys res' = keys (P ++ l) /\
  (forall psi b, lsem U (csem (map psem (rev (P ++ l))) psi) b = zw_eval c' * lsemL res' (lsem U psi) b).
Proof.
  intros Hk Hne Ha ->. induction l as [|ip l IH]; intros P res c res' c' Hkeys Hinv Hnd Hf.
  - simpl in Hf. inversion Hf; subst. rewrite app_nil_r. auto.
  - simpl in Hf. destruct (img1 k t ip) as [[im s]|] eqn:Ei.
    2:{ exfalso. clear -Hf. induction l; simpl in Hf; [discriminate | auto]. }
    destruct (img1_keys _ _ _ _ _ Ei) as [r ->].
    assert (Hfresh : ~ In (fst ip) (keys res)).
    { rewrite Hkeys. unfold keys in Hnd. rewrite map_app in Hnd. simpl in Hnd.
      apply NoDup_remove_2 in Hnd. intros H; apply Hnd, in_or_app; left; exact H. }
    rewrite (pprod_fresh res (fst ip) r (plookup_notin _ _ Hfresh)) in Hf. simpl fst in Hf.
    replace (P ++ ip :: l) with ((P ++ [ip]) ++ l) in * by (rewrite <- app_assoc; reflexivity).
    apply (IH (P ++ [ip]) (res ++ [(fst ip, r)]) (zw_mul c s) res' c'); auto.
    + unfold keys in *. rewrite !map_app, Hkeys. reflexivity.
    + intros psi b. rewrite rev_app_distr. simpl rev. simpl app. simpl map.
      rewrite csem_cons. rewrite Hinv.
      pose proof (img1_ok k t ip _ _ Hk Hne Ha Ei psi) as Hi. unfold img_ok in Hi.
      replace (lsem (ksem (mkG k [t] [])) (lsem (psem ip) psi))
        with (fun b => zw_eval s * lsemL [(fst ip, r)] (lsem (ksem (mkG k [t] [])) psi) b)
        by (apply functional_extensionality; intros; symmetry; apply Hi).
      rewrite lsemL_scale. rewrite zw_eval_mul.
      assert (Hndres : NoDup (keys res)).
      { rewrite Hkeys. unfold keys in Hnd. rewrite map_app in Hnd. apply NoDup_app_l in Hnd.
        rewrite map_app in Hnd. apply NoDup_app_l in Hnd. exact Hnd. }
      pose proof (pprod_sound ptab ptab_ok' res [(fst ip, r)] Hndres (nodup1 _)) as PS.
      rewrite (pprod_fresh res (fst ip) r (plookup_notin _ _ Hfresh)) in PS. destruct PS as [_ PS].
      rewrite PS, zw_eval_1. ring.
Qed.

(* --- two-qubit gates --- *)
Lemma optl_sem c t a b :
  map psem (optl c a ++ optl t b) = map ksem (map (placeg [c; t]) (optg 0 a ++ optg 1 b)).
Proof. destruct a, b; reflexivity. Qed.

Lemma optl_nodup c t a b : c <> t -> NoDup (keys (optl c a ++ optl t b)).
Proof. intros H. destruct a, b; simpl.
  - apply nodup2; auto.
  - apply nodup1.
  - apply nodup1.
  - constructor. Qed.

Lemma img2_ok k c t ip im : In k cnames -> k <> KI -> arity k = 2%nat -> c <> t ->
  img2 k c t ip = Some im ->
  NoDup (keys im) /\ img_ok (ksem (mkG k [c; t] [])) ip im zw1.
Proof.
  intros Hk Hne Ha Hct Him. pose proof (kind_ok k Hk Hne) as Hok. rewrite Ha in Hok.
  unfold conj2_ok in Hok. rewrite forallb_forall in Hok.
  destruct ip as [i p]. specialize (Hok p (in_all_pauli p)).
  apply andb_true_iff in Hok as [Hok Hspec]. apply andb_true_iff in Hok as [Hq1 Hq2].
  unfold img2 in Him. simpl fst in Him; simpl snd in Him.
  destruct (Nat.eqb_spec i c) as [->|Hic].
  - destruct (c2 p k true) as [[a b']|]; [|discriminate]. inversion Him; subst im. clear Him.
    split; [apply optl_nodup; auto|]. intros psi b. unfold lsemL. rewrite optl_sem.
    pose proof (exact_as_eq 2 [P0 p 0; mkG k [0%nat; 1%nat] []]
                  (mkG k [0%nat; 1%nat] [] :: optg 0 a ++ optg 1 b') zw1 [c; t] psi b Hq1 (nodup2 c t Hct)) as E.
    exact E.
  - destruct (Nat.eqb_spec i t) as [->|Hit].
    + destruct (c2 p k false) as [[a b']|]; [|discriminate]. inversion Him; subst im. clear Him.
      split; [apply optl_nodup; auto|]. intros psi b. unfold lsemL. rewrite optl_sem.
      pose proof (exact_as_eq 2 [P0 p 1; mkG k [0%nat; 1%nat] []]
                    (mkG k [0%nat; 1%nat] [] :: optg 0 a ++ optg 1 b') zw1 [c; t] psi b Hq2 (nodup2 c t Hct)) as E.
      exact E.
    + inversion Him; subst im. clear Him. split; [apply nodup1|]. intros psi b.
      pose proof (exact_as_eq 3 [P0 p 2; mkG k [0%nat; 1%nat] []] [mkG k [0%nat; 1%nat] []; P0 p 2] zw1 [c; t; i] psi b
                    Hspec (nodup3 c t i Hct (fun E => Hic (eq_sym E)) (fun E => Hit (eq_sym E)))) as E.
      exact E.
Qed.

Lemma fold2_sound k c t U : In k cnames -> k <> KI -> arity k = 2%nat -> c <> t ->
  U = ksem (mkG k [c; t] []) ->
  forall l P res co res' co',
  NoDup (keys res) ->
  (forall psi b, lsem U (csem (map psem (rev P)) psi) b = zw_eval co * lsemL res (lsem U psi) b) ->
  fold_left (step2 k c t) l (Some (res, co)) = Some (res', co') ->
  NoDup (keys res') /\
  (forall psi b, lsem U (csem (map psem (rev (P ++ l))) psi) b = zw_eval co' * lsemL res' (lsem U psi) b).
Proof.
  intros Hk Hne Ha Hct ->. induction l as [|ip l IH]; intros P res co res' co' Hnd Hinv Hf.
  - simpl in Hf. inversion Hf; subst. rewrite app_nil_r. auto.
  - simpl in Hf. destruct (img2 k c t ip) as [im|] eqn:Ei.
    2:{ exfalso. clear -Hf. induction l; simpl in Hf; [discriminate | auto]. }
    destruct (img2_ok k c t ip im Hk Hne Ha Hct Ei) as [Hndim Hi].
    pose proof (pprod_sound ptab ptab_ok' res im Hnd Hndim) as PS.
    destruct (pprod ptab res im) as [res1 ph]. destruct PS as [Hnd1 PS].
    replace (P ++ ip :: l) with ((P ++ [ip]) ++ l) by (rewrite <- app_assoc; reflexivity).
    apply (IH (P ++ [ip]) res1 (zw_mul co ph) res' co'); auto.
    intros psi b. rewrite rev_app_distr. simpl rev. simpl app. simpl map.
    rewrite csem_cons. rewrite Hinv. unfold img_ok in Hi.
    replace (lsem (ksem (mkG k [c; t] [])) (lsem (psem ip) psi))
      with (fun b => zw_eval zw1 * lsemL im (lsem (ksem (mkG k [c; t] [])) psi) b)
      by (apply functional_extensionality; intros; symmetry; apply Hi).
    rewrite lsemL_scale, PS, zw_eval_mul, zw_eval_1. ring.
Qed.

(* U P U^dagger = c P' , stated as U P = c P' U : for every supported Clifford kind, every
   placement (control <> target), every Pauli string of any length *)
Theorem conj_sound g l l' c :
  gate_wfb g = true -> gas g = [] -> NoDup (keys l) -> conj g l = Some (l', c) ->
  forall psi b, lsem (ksem g) (lsemL l psi) b = zw_eval c * lsemL l' (lsem (ksem g) psi) b.
Proof.
  intros Hwf Has Hnd Hc psi b. unfold conj in Hc.
  destruct (existsb (gkind_eqb (gk g)) cnames) eqn:En; simpl in Hc; [|discriminate].
  apply existsb_exists in En as [k [Hk Ek]]. apply gkind_eqb_eq in Ek. subst k.
  unfold gate_wfb in Hwf. apply andb_true_iff in Hwf as [Hwf Hndq].
  apply andb_true_iff in Hwf as [Harity Hpar]. apply Nat.eqb_eq in Harity, Hpar.
  destruct g as [k qs as_]. simpl in *.
  subst as_.
  destruct (gkind_eqb k KI) eqn:EI.
  - apply gkind_eqb_eq in EI. subst k. inversion Hc; subst. rewrite zw_eval_1.
    (* identity gate: acts trivially *)
    destruct qs as [|t [|? ?]]; simpl in Harity; try discriminate.
    pose proof (exact_as_eq 1 [mkG KI [0%nat] []] [] zw1 [t]) as E.
    assert (Hchk : check_exact (seq 0 1) (map eg [mkG KI [0%nat] []]) (map eg []) zw1 = true) by (vm_compute; reflexivity).
    assert (HI : forall phi, lsem (ksem (mkG KI [t] [])) phi = phi).
    { intros phi. apply functional_extensionality; intros b'.
      pose proof (E phi b' Hchk (nodup1 t)) as E'. rewrite zw_eval_1 in E'.
      change (lsem (ksem (mkG KI [t] [])) phi b' = C1 * phi b') in E'. rewrite E'. ring. }
    rewrite !HI. ring.
  - assert (Hne : k <> KI) by (intros ->; discriminate).
    pose proof (kind_ok k Hk Hne) as Hok.
    destruct qs as [|t [|t2 [|? ?]]]; simpl in Harity.
    + destruct k; simpl in Harity; discriminate.
    + assert (Ha : arity k = 1%nat) by auto.
      destruct (fold1_sound k t _ Hk Hne Ha eq_refl l [] [] zw1 l' c) as [_ H]; auto.
      * intros psi' b'. simpl. unfold lsemL, csem; simpl. rewrite zw_eval_1. ring.
      * rewrite <- lsemL_rev by auto. apply H.
    + assert (Ha : arity k = 2%nat) by auto.
      assert (Hct : t <> t2).
      { simpl in Hndq. apply andb_true_iff in Hndq as [H1 _]. apply negb_true_iff in H1. simpl in H1.
        apply orb_false_iff in H1 as [H1 _]. apply Nat.eqb_neq in H1. exact H1. }
      destruct (fold2_sound k t t2 _ Hk Hne Ha Hct eq_refl l [] [] zw1 l' c) as [_ H]; auto.
      * constructor.
      * intros psi' b'. simpl. unfold lsemL, csem; simpl. rewrite zw_eval_1. ring.
      * rewrite <- lsemL_rev by auto. apply H.
    + rewrite <- Harity in Hok. simpl in Hok. contradiction.
Qed.

(* the returned label has distinct qubit indices *)
Theorem conj_nodup g l l' c :
  gate_wfb g = true -> gas g = [] -> NoDup (keys l) -> conj g l = Some (l', c) -> NoDup (keys l').
Proof.
  intros Hwf Has Hnd Hc. unfold conj in Hc.
  destruct (existsb (gkind_eqb (gk g)) cnames) eqn:En; simpl in Hc; [|discriminate].
  apply existsb_exists in En as [k [Hk Ek]]. apply gkind_eqb_eq in Ek. subst k.
  unfold gate_wfb in Hwf. apply andb_true_iff in Hwf as [Hwf Hndq].
  apply andb_true_iff in Hwf as [Harity Hpar]. apply Nat.eqb_eq in Harity, Hpar.
  destruct g as [k qs as_]. simpl in *. subst as_.
  destruct (gkind_eqb k KI) eqn:EI; [inversion Hc; subst; exact Hnd|].
  assert (Hne : k <> KI) by (intros ->; discriminate).
  pose proof (kind_ok k Hk Hne) as Hok.
  destruct qs as [|t [|t2 [|? ?]]]; simpl in Harity.
  - destruct k; simpl in Harity; discriminate.
  - assert (Ha : arity k = 1%nat) by auto.
    destruct (fold1_sound k t _ Hk Hne Ha eq_refl l [] [] zw1 l' c) as [Hkeys _]; auto.
    + intros psi' b'. simpl. unfold lsemL, csem; simpl. rewrite zw_eval_1. ring.
    + rewrite Hkeys. exact Hnd.
  - assert (Ha : arity k = 2%nat) by auto.
    assert (Hct : t <> t2).
    { simpl in Hndq. apply andb_true_iff in Hndq as [H1 _]. apply negb_true_iff in H1. simpl in H1.
      apply orb_false_iff in H1 as [H1 _]. apply Nat.eqb_neq in H1. exact H1. }
    destruct (fold2_sound k t t2 _ Hk Hne Ha Hct eq_refl l [] [] zw1 l' c) as [H _]; auto.
    + constructor.
    + intros psi' b'. simpl. unfold lsemL, csem; simpl. rewrite zw_eval_1. ring.
  - rewrite <- Harity in Hok. simpl in Hok. contradiction.
Qed.

(* ---------------------------------------------------------------- the coefficient is +1 or -1 *)
(* every Pauli string is an involution *)
Lemma psem_invol i p psi : lsem (psem (i, p)) (lsem (psem (i, p)) psi) = psi.
Proof.
  assert (Hchk : check_exact (seq 0 1) (map eg [mkG (pk p) [0%nat] []; mkG (pk p) [0%nat] []]) (map eg []) zw1 = true)
    by (destruct p; vm_compute; reflexivity).
  pose proof (exact_placed 1 [mkG (pk p) [0%nat] []; mkG (pk p) [0%nat] []] [] zw1 [i] Hchk (nodup1 i)) as E.
  apply (f_equal (fun f => f psi)) in E. unfold scaleop in E. cbn [map] in E. rewrite <- !pgate_place in E.
  change (csem [ksem (pgate (i, p)); ksem (pgate (i, p))] psi) with (lsem (psem (i, p)) (lsem (psem (i, p)) psi)) in E.
  rewrite E. apply functional_extensionality; intros b. rewrite zw_eval_1. unfold csem. cbn. ring.
Qed.

Lemma lsemL_invol l : NoDup (keys l) -> forall psi, lsemL l (lsemL l psi) = psi.
Proof.
  induction l as [|[i p] l IH]; intros Hnd psi; [reflexivity|].
  cbn [keys map] in Hnd. inversion Hnd as [|? ? Hi Hnd']; subst.
  assert (E1 : forall phi, lsemL ((i, p) :: l) phi = lsemL l (lsem (psem (i, p)) phi)) by reflexivity.
  assert (E2 : forall phi, lsemL ((i, p) :: l) phi = lsem (psem (i, p)) (lsemL l phi)).
  { intros phi. unfold lsemL. cbn [map]. rewrite (psem_comm_list i p l Hi), csem_app'. reflexivity. }
  rewrite E1, E2 at 1. rewrite psem_invol. apply IH, Hnd'.
Qed.

(* kinds with an exact inverse kind (checked by computation on the regenerated name list) *)
Definition inv_kind (k : gkind) : gkind :=
  match k with
  | KS => KSdag | KSdag => KS | KSqrtX => KSqrtXdag | KSqrtXdag => KSqrtX
  | KSqrtY => KSqrtYdag | KSqrtYdag => KSqrtY | KT => KTdag | KTdag => KT
  | _ => k
  end.
Definition has_inverse (k : gkind) : bool :=
  let qs := seq 0 (arity k) in
  check_equiv2 qs (map eg [mkG k qs []; mkG (inv_kind k) qs []]) (map eg []).

Lemma C_integral (x y : C) : x * y = C0 -> x = C0 \/ y = C0.
Proof.
  intros H. destruct (Ceq_dec x C0) as [|Hx]; [left; assumption|right].
  transitivity (Cinv x * (x * y)); [|rewrite H; ring].
  transitivity ((x * Cinv x) * y); [rewrite (Cmul_inv x Hx); ring|ring].
Qed.

Theorem conj_sign g l l' c :
  gate_wfb g = true -> gas g = [] -> NoDup (keys l) -> has_inverse (gk g) = true ->
  conj g l = Some (l', c) -> zw_eval c = C1 \/ zw_eval c = - C1.
Proof.
  intros Hwf Has Hnd Hinv Hc.
  pose proof (conj_sound g l l' c Hwf Has Hnd Hc) as S.
  pose proof (conj_nodup g l l' c Hwf Has Hnd Hc) as Hnd'.
  set (e := zw_eval c) in *. set (U := ksem g) in *.
  (* U = e^2 U *)
  assert (H2 : forall psi b, lsem U psi b = e * e * lsem U psi b).
  { intros psi b. rewrite <- (lsemL_invol l Hnd psi) at 1. rewrite S.
    replace (lsem U (lsemL l psi)) with (fun b0 => e * lsemL l' (lsem U psi) b0)
      by (apply functional_extensionality; intros; symmetry; apply S).
    rewrite lsemL_scale, (lsemL_invol l' Hnd'). ring. }
  (* U has a left inverse *)
  unfold gate_wfb in Hwf. apply andb_true_iff in Hwf as [Hwf Hndq].
  apply andb_true_iff in Hwf as [Harity _]. apply Nat.eqb_eq in Harity.
  destruct g as [k qs as_]. cbn [gk gqs gas] in *. subst as_.
  pose proof (local_sound2 rho0 rho0_unit (pi_of qs) (pi_of_inj qs (nodupb_NoDup _ Hndq)) (seq 0 (arity k)) _ _ Hinv) as E.
  cbn [map] in E. rewrite <- !ksem_place in E.
  assert (Epl : placeg qs (mkG k (seq 0 (arity k)) []) = mkG k qs []).
  { unfold placeg. cbn [gk gqs gas]. f_equal. rewrite <- Harity. apply map_pi_of_seq. }
  rewrite Epl in E.
  set (V := ksem (placeg qs (mkG (inv_kind k) (seq 0 (arity k)) []))) in E.
  destruct E as [c' [Hc' E]].
  assert (HV : forall psi, lsem V (lsem U psi) = fun b => c' * psi b).
  { intros psi. apply functional_extensionality; intros b.
    change (lsem V (lsem U psi) b) with (csem [ksem (mkG k qs []); V] psi b). rewrite E. reflexivity. }
  set (one := fun _ : Basis => C1).
  assert (E1 : c' = e * e * c').
  { assert (F : lsem V (lsem U one) = lsem V (fun b => e * e * lsem U one b)).
    { f_equal. apply functional_extensionality; intros b. apply H2. }
    rewrite lsem_scale, !HV in F. apply (f_equal (fun f => f (fun _ : nat => false))) in F. unfold one in F.
    transitivity (c' * C1); [ring|]. rewrite F. ring. }
  assert (Hc0 : c' <> C0).
  { intros Ez. rewrite Ez in Hc'. unfold Cunit, Cnorm2, C0 in Hc'. cbn in Hc'. lra. }
  assert (E0 : (e - C1) * (e + C1) = C0).
  { assert (Ez : (e * e - C1) * c' = C0) by (transitivity (e * e * c' - c'); [ring|rewrite <- E1; ring]).
    apply C_integral in Ez as [Ez|Ez]; [|contradiction]. transitivity (e * e - C1); [ring|exact Ez]. }
  apply C_integral in E0 as [E0|E0]; [left|right].
  - transitivity (e - C1 + C1); [ring|rewrite E0; ring].
  - transitivity (e + C1 - C1); [ring|rewrite E0; ring].
Qed.

(* non-Clifford gate kinds are rejected *)
Theorem conj_rejects g l : existsb (gkind_eqb (gk g)) cnames = false -> conj g l = None.
Proof. intros H. unfold conj. rewrite H. reflexivity. Qed.
End Conj.
