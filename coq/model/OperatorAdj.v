(* Hermitian conjugation of operators (Operator.hermitian_conjugated: every coefficient replaced by its complex conjugate)
   is the adjoint with respect to the inner product of a register that contains the qubits of all labels:
   <O^dagger phi, chi> = <phi, O chi> for all states.  Pauli matrices are Hermitian (decided in the exact matrix ring),
   a Pauli string on distinct qubits is self-adjoint, and the inner product is conjugate-linear / linear. *)
From Coq Require Import ZArith List Bool Arith Lia Reals Lra FunctionalExtensionality Permutation.
From QP Require Import Cx Zw Asum FMat Lpoly Apply Local Gates Rsem.
From QPM Require Import Transpile Pauli Measure Native Expect Operator.
Import ListNotations.
Local Open Scope C_scope.

Definition herm2 (M : CM) : Prop := forall x y : bool, M [x] [y] = Cconj (M [y] [x]).

Lemma herm_algebra (M : CM) (a0 a1 c0 c1 : C) : herm2 M ->
  Cconj (M [false] [false] * a0 + M [false] [true] * a1) * c0 + Cconj (M [true] [false] * a0 + M [true] [true] * a1) * c1
  = Cconj a0 * (M [false] [false] * c0 + M [false] [true] * c1) + Cconj a1 * (M [true] [false] * c0 + M [true] [true] * c1).
Proof.
  intros H. rewrite !Cconj_add, !Cconj_mul.
  rewrite <- (H false false), <- (H true true), <- (H true false), <- (H false true). ring.
Qed.

(* a Hermitian one-qubit matrix on a register qubit is self-adjoint *)
Lemma ip_herm1 (M : CM) q Q phi chi b0 : herm2 M -> NoDup Q -> In q Q ->
  ip Q (lsem (M, [q]) phi) chi b0 = ip Q phi (lsem (M, [q]) chi) b0.
Proof.
  intros U HQ Hq. unfold ip.
  assert (Hincl : incl [q] Q) by (intros x [<-|[]]; exact Hq).
  assert (Hnq : NoDup [q]) by (constructor; [intros []|constructor]).
  pose proof (perm_split Q [q] HQ Hnq Hincl) as Hp.
  set (R := restof Q [q]) in *.
  assert (HqR : ~ In q R) by (unfold R; intros H; apply restof_In in H; apply (proj2 H); left; reflexivity).
  rewrite !(asum_perm _ _ Hp). cbn [app asum].
  rewrite !(asum_bset_out q _ R HqR). rewrite <- !asum_add.
  apply asum_ext. intros b.
  rewrite !lsem_1q, !bset_eq, !bset_bset.
  apply (herm_algebra M (phi (bset b q false)) (phi (bset b q true)) (chi (bset b q false)) (chi (bset b q true)) U).
Qed.

Definition herm_gate (Q : list nat) (g : lgate) : Prop := exists M q, g = (M, [q]) /\ herm2 M /\ In q Q.

Lemma ip_herm_list Q gs : NoDup Q -> Forall (herm_gate Q) gs -> forall phi chi b0,
  ip Q (csem gs phi) chi b0 = ip Q phi (csem (rev gs) chi) b0.
Proof.
  intros HQ H. induction H as [|g gs [M [q [-> [HU Hq]]]] _ IH]; intros phi chi b0; [reflexivity|].
  rewrite csem_cons, IH, ip_herm1 by assumption. cbn [rev]. rewrite csem_app'. reflexivity.
Qed.

(* Pauli matrices are Hermitian: by computation in the exact ring *)
Definition hermb (k : gkind) : bool :=
  let '(M, s) := gmat k [] in
  forallb (fun x => forallb (fun y => lp_eqb (M [x] [y]) (lp_conj (M [y] [x]))) [false; true]) [false; true].

Lemma hermb_sound k q : hermb k = true -> herm2 (fst (ksem (mkG k [q] []))).
Proof.
  unfold hermb, ksem, sgate, eg. cbn [gk gas gqs]. destruct (gmat k []) as [M s] eqn:EM. cbn [eM es eqs fst].
  intros H x y.
  rewrite forallb_forall in H. specialize (H x (ltac:(destruct x; cbn; auto))).
  rewrite forallb_forall in H. specialize (H y (ltac:(destruct y; cbn; auto))).
  apply (lp_eqb_sound rho0) in H. rewrite lp_eval_conj in H.
  rewrite cpow_rhC, Cconj_RtoC_mul, H. reflexivity.
Qed.

Lemma paulis_hermitian : forallb (fun p => hermb (pk p)) all_pauli = true.
Proof. vm_compute. reflexivity. Qed.

Lemma psem_herm Q ip0 : In (fst ip0) Q -> herm_gate Q (psem ip0).
Proof.
  destruct ip0 as [q p]. cbn [fst]. intros Hq. unfold psem, pgate. cbn [fst snd].
  exists (fst (ksem (mkG (pk p) [q] []))), q. split; [|split; [|exact Hq]].
  - unfold ksem, sgate, eg. cbn [gk gas gqs]. destruct (gmat (pk p) []) as [M s]. cbn [eM es eqs fst map]. reflexivity.
  - apply hermb_sound. pose proof paulis_hermitian as H. rewrite forallb_forall in H. apply H. destruct p; cbn; auto.
Qed.

(* a Pauli string on distinct register qubits is self-adjoint *)
Lemma label_self_adjoint Q l phi chi b0 : NoDup Q -> NoDup (keys l) -> incl (keys l) Q ->
  ip Q (lsemL l phi) chi b0 = ip Q phi (lsemL l chi) b0.
Proof.
  intros HQ Hl Hin. unfold lsemL at 1. rewrite ip_herm_list; [|exact HQ|].
  - rewrite <- map_rev, lsemL_rev by exact Hl. reflexivity.
  - apply Forall_forall. intros g Hg. apply in_map_iff in Hg as [ip0 [<- Hip]]. apply psem_herm.
    apply Hin. unfold keys. apply in_map. exact Hip.
Qed.

(* sesquilinearity of the inner product *)
Lemma ip_add_l Q f g chi b0 : ip Q (fun b => f b + g b) chi b0 = ip Q f chi b0 + ip Q g chi b0.
Proof. unfold ip. rewrite <- asum_add. apply asum_ext. intros b. rewrite Cconj_add. ring. Qed.
Lemma ip_scale_l Q c f chi b0 : ip Q (fun b => c * f b) chi b0 = Cconj c * ip Q f chi b0.
Proof. unfold ip. rewrite <- asum_scale. apply asum_ext. intros b. rewrite Cconj_mul. ring. Qed.
Lemma ip_add_r Q phi f g b0 : ip Q phi (fun b => f b + g b) b0 = ip Q phi f b0 + ip Q phi g b0.
Proof. unfold ip. rewrite <- asum_add. apply asum_ext. intros b. ring. Qed.
Lemma ip_scale_r Q c phi f b0 : ip Q phi (fun b => c * f b) b0 = c * ip Q phi f b0.
Proof. unfold ip. rewrite <- asum_scale. apply asum_ext. intros b. ring. Qed.
Lemma ip_zero_l Q chi b0 : ip Q (fun _ => C0) chi b0 = C0.
Proof.
  unfold ip. transitivity (asum Q (fun b => C0 * chi b) b0).
  - apply asum_ext. intros b. unfold Cconj, C0. cbn. apply C_eq; cbn; ring.
  - rewrite asum_scale. ring.
Qed.
Lemma ip_zero_r Q phi b0 : ip Q phi (fun _ => C0) b0 = C0.
Proof.
  unfold ip. transitivity (asum Q (fun b => C0 * Cconj (phi b)) b0).
  - apply asum_ext. intros b. ring.
  - rewrite asum_scale. ring.
Qed.

Section Adj.
Variable K : Type.
Variable phi : K -> C.
Variable kconj : K -> K.
Hypothesis phi_conj : forall x, phi (kconj x) = Cconj (phi x).

(* hermitian_conjugated: operator[pauli] = coef.conjugate() for every item *)
Definition odag (o : op K) : op K := map (fun lc => (fst lc, kconj (snd lc))) o.

Lemma osem_cons lc o psi : osem K phi (lc :: o) psi = fun b => phi (snd lc) * lsemL (fst lc) psi b + osem K phi o psi b.
Proof. reflexivity. Qed.

Theorem odag_is_the_adjoint Q (o : op K) : NoDup Q -> wf_op K o -> Forall (fun lc => incl (keys (fst lc)) Q) o ->
  forall f chi b0, ip Q (osem K phi (odag o) f) chi b0 = ip Q f (osem K phi o chi) b0.
Proof.
  intros HQ Hwf Hin f chi b0. induction o as [|[l c] o IH].
  - cbn [odag map]. change (osem K phi [] f) with (fun _ : Basis => C0). change (osem K phi [] chi) with (fun _ : Basis => C0).
    rewrite ip_zero_l, ip_zero_r. reflexivity.
  - inversion Hwf as [|? ? Hl Hwf']; subst. inversion Hin as [|? ? Hi Hin']; subst.
    cbn [odag map fst snd]. fold (odag o). rewrite !osem_cons. cbn [fst snd].
    rewrite ip_add_l, ip_add_r, ip_scale_l, ip_scale_r, phi_conj, Cconj_invol, IH by assumption.
    rewrite label_self_adjoint by assumption. reflexivity.
Qed.

(* conjugating twice gives the operator back when conjugation on coefficients is an involution *)
Lemma odag_invol o : (forall x, kconj (kconj x) = x) -> odag (odag o) = o.
Proof.
  intros H. unfold odag. rewrite map_map. rewrite <- (map_id o) at 2. apply map_ext. intros [l c]. cbn. rewrite H. reflexivity.
Qed.

Lemma odag_wf o : wf_op K o -> wf_op K (odag o).
Proof. unfold wf_op, odag. rewrite Forall_map. cbn [fst]. auto. Qed.
End Adj.
