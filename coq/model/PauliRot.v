(* PauliRotationDecomposeTranspiler / rot_gates (transpile/multi_pauli_decomposer.py): a rotation exp(-i theta/2 P) about a
   Pauli string P of ANY length on distinct qubits is implemented by
      basis changes (H for X, RX(pi/2) for Y) ; CNOT ladder onto the first qubit ; RZ(theta) ; ladder back ; inverse basis changes.
   Everything here is exact (no global phase) until the very last step, where the constant gates are read through their
   documented matrices. *)
From Coq Require Import ZArith List Bool Arith Lia Reals Lra FunctionalExtensionality.
From QP Require Import Cx Zw Asum FMat Lpoly Apply Local Gates Rsem.
From QPM Require Import Transpile Pauli Native.
Import ListNotations.
Local Open Scope C_scope.

(* ------------------------------------------------------------------ linear structure of operators *)
Lemma apply_add M qs psi1 psi2 b :
  apply M qs (fun x => psi1 x + psi2 x) b = apply M qs psi1 b + apply M qs psi2 b.
Proof. unfold apply. rewrite <- asum_add. apply asum_ext; intros; ring. Qed.
Lemma lsem_add g psi1 psi2 : lsem g (fun x => psi1 x + psi2 x) = fun b => lsem g psi1 b + lsem g psi2 b.
Proof. apply functional_extensionality; intros b. apply apply_add. Qed.
Lemma lsem_sc g c psi : lsem g (fun x => c * psi x) = fun b => c * lsem g psi b.
Proof. apply functional_extensionality; intros b. apply lsem_lin. Qed.
Lemma csem_add gs : forall psi1 psi2, csem gs (fun x => psi1 x + psi2 x) = fun b => csem gs psi1 b + csem gs psi2 b.
Proof.
  induction gs as [|g gs IH]; intros psi1 psi2; [reflexivity|].
  rewrite !csem_cons. rewrite lsem_add. apply IH.
Qed.
Lemma csem_sc gs c psi : csem gs (fun x => c * psi x) = fun b => c * csem gs psi b.
Proof. apply csem_scale. Qed.

(* one-qubit gates on different qubits commute *)
Lemma lsem1_comm (M N : CM) i j psi : i <> j ->
  lsem (M, [i]) (lsem (N, [j]) psi) = lsem (N, [j]) (lsem (M, [i]) psi).
Proof.
  intros Hij. apply functional_extensionality; intros b.
  rewrite !lsem_1q.
  rewrite !(bset_neq b i _ j) by congruence. rewrite !(bset_neq b j _ i) by congruence.
  rewrite (bset_comm b j i false false), (bset_comm b j i false true),
          (bset_comm b j i true false), (bset_comm b j i true true) by congruence.
  ring.
Qed.

(* ------------------------------------------------------------------ the rotation about a Pauli string *)
Definition prot (theta : R) (l : label) : Op :=
  fun psi b => RtoC (cos (theta / 2)) * psi b + (- (Ci * RtoC (sin (theta / 2)))) * lsemL l psi b.

Definition zify (l : label) : label := map (fun ip => (fst ip, PZ)) l.
Lemma keys_zify l : keys (zify l) = keys l.
Proof. unfold keys, zify. rewrite map_map. reflexivity. Qed.

(* ------------------------------------------------------------------ exact one- and two-qubit identities *)
(* a padding "gate": matrix 2 * identity with two factors 1/sqrt2, i.e. exactly the identity; it balances the 1/sqrt2
   exponents of the two sides of an exact check *)
Definition idpad (r : nat) : egate := mkE (m2 (cz 2) lp0 lp0 (cz 2)) 2 [r].

Lemma rhC2_two : cpow rhC 2 * RtoC 2 = C1.
Proof. simpl. unfold rhC, RtoC, C1, Cmul. apply C_eq; simpl; pose proof rh_sq; nra. Qed.

Lemma idpad_sem pi r psi : lsem (sgate rho0 pi (idpad r)) psi = psi.
Proof.
  apply functional_extensionality; intros b. unfold sgate, idpad. cbn [eM es eqs map].
  rewrite lsem_1q. unfold m2.
  assert (E2 : lp_eval rho0 (cz 2) = RtoC 2) by (unfold cz; rewrite lp_eval_const, zw_eval_of_Z; reflexivity).
  assert (E0 : lp_eval rho0 lp0 = C0) by reflexivity.
  destruct (b (pi r)) eqn:E; rewrite ?E2, ?E0.
  - assert (Hb : bset b (pi r) true = b) by (rewrite <- E; apply bset_id). rewrite Hb.
    transitivity ((cpow rhC 2 * RtoC 2) * psi b); [ring|rewrite rhC2_two; ring].
  - assert (Hb : bset b (pi r) false = b) by (rewrite <- E; apply bset_id). rewrite Hb.
    transitivity ((cpow rhC 2 * RtoC 2) * psi b); [ring|rewrite rhC2_two; ring].
Qed.

Definition G1 (k : gkind) (q : nat) (as_ : list ang) : lgate := ksem (mkG k [q] as_).
Definition hp : ang := ang_pi4 2.      (*  pi/2 *)
Definition hm : ang := ang_pi4 (-2).   (* -pi/2 *)

Lemma place1 k q as_ : ksem (mkG k [q] as_) = sgate rho0 (pi_of [q]) (eg (mkG k [0%nat] as_)).
Proof. rewrite <- ksem_place. unfold placeg. reflexivity. Qed.
Lemma place2 k c t as_ : ksem (mkG k [c; t] as_) = sgate rho0 (pi_of [c; t]) (eg (mkG k [0; 1]%nat as_)).
Proof. rewrite <- ksem_place. unfold placeg. reflexivity. Qed.
Lemma placeP q p : psem (q, p) = sgate rho0 (pi_of [q]) (eg (mkG (pk p) [0%nat] [])).
Proof. unfold psem, pgate. cbn [fst snd]. apply place1. Qed.
Lemma placeP2a c t p : psem (c, p) = sgate rho0 (pi_of [c; t]) (eg (mkG (pk p) [0%nat] [])).
Proof. unfold psem, pgate. cbn [fst snd]. rewrite <- ksem_place. reflexivity. Qed.
Lemma placeP2b c t p : psem (t, p) = sgate rho0 (pi_of [c; t]) (eg (mkG (pk p) [1%nat] [])).
Proof. unfold psem, pgate. cbn [fst snd]. rewrite <- ksem_place. reflexivity. Qed.

Lemma nd1 (q : nat) : NoDup [q]. Proof. constructor; [intros []|constructor]. Qed.
Lemma nd2 (a b : nat) : a <> b -> NoDup [a; b].
Proof. intros H. constructor; [intros [E|[]]; congruence|apply nd1]. Qed.

(* H H = 1,  RX(-pi/2) RX(pi/2) = 1 *)
Lemma HH q psi : lsem (G1 KH q []) (lsem (G1 KH q []) psi) = psi.
Proof.
  assert (Hc : check_exact [0%nat] [eg (mkG KH [0%nat] []); eg (mkG KH [0%nat] [])] [idpad 0] zw1 = true)
    by (vm_compute; reflexivity).
  apply functional_extensionality; intros b.
  pose proof (local_exact rho0 rho0_unit (pi_of [q]) (pi_of_inj [q] (nd1 q)) _ _ _ _ Hc psi b) as E.
  unfold G1. rewrite place1. cbn [map] in E. unfold csem in E. cbn [fold_left] in E.
  rewrite E, idpad_sem, zw_eval_1. ring.
Qed.
Lemma RXRX q psi : lsem (G1 KRX q [hm]) (lsem (G1 KRX q [hp]) psi) = psi.
Proof.
  assert (Hc : check_exact [0%nat] [eg (mkG KRX [0%nat] [hp]); eg (mkG KRX [0%nat] [hm])] [idpad 0; idpad 0] zw1 = true)
    by (vm_compute; reflexivity).
  apply functional_extensionality; intros b.
  pose proof (local_exact rho0 rho0_unit (pi_of [q]) (pi_of_inj [q] (nd1 q)) _ _ _ _ Hc psi b) as E.
  unfold G1. rewrite !place1. cbn [map] in E. unfold csem in E. cbn [fold_left] in E.
  rewrite E, !idpad_sem, zw_eval_1. ring.
Qed.
(* H Z H = X,  RX(-pi/2) Z RX(pi/2) = Y  (circuit order: basis change, Z, inverse basis change) *)
Lemma HZH q psi : lsem (G1 KH q []) (lsem (psem (q, PZ)) (lsem (G1 KH q []) psi)) = lsem (psem (q, PX)) psi.
Proof.
  assert (Hc : check_exact [0%nat] [eg (mkG KH [0%nat] []); eg (mkG KZ [0%nat] []); eg (mkG KH [0%nat] [])]
                 [eg (mkG KX [0%nat] []); idpad 0] zw1 = true) by (vm_compute; reflexivity).
  apply functional_extensionality; intros b.
  pose proof (local_exact rho0 rho0_unit (pi_of [q]) (pi_of_inj [q] (nd1 q)) _ _ _ _ Hc psi b) as E.
  unfold G1. rewrite !place1, !placeP. cbn [pk]. cbn [map pk] in E. unfold csem in E. cbn [fold_left] in E.
  rewrite E, !idpad_sem, zw_eval_1. ring.
Qed.
Lemma RXZRX q psi : lsem (G1 KRX q [hm]) (lsem (psem (q, PZ)) (lsem (G1 KRX q [hp]) psi)) = lsem (psem (q, PY)) psi.
Proof.
  assert (Hc : check_exact [0%nat] [eg (mkG KRX [0%nat] [hp]); eg (mkG KZ [0%nat] []); eg (mkG KRX [0%nat] [hm])]
                 [eg (mkG KY [0%nat] []); idpad 0; idpad 0] zw1 = true) by (vm_compute; reflexivity).
  apply functional_extensionality; intros b.
  pose proof (local_exact rho0 rho0_unit (pi_of [q]) (pi_of_inj [q] (nd1 q)) _ _ _ _ Hc psi b) as E.
  unfold G1. rewrite !place1, !placeP. cbn [pk]. cbn [map pk] in E. unfold csem in E. cbn [fold_left] in E.
  rewrite E, !idpad_sem, zw_eval_1. ring.
Qed.

(* CNOT facts: CNOT CNOT = 1; CNOT Z_t CNOT = Z_c Z_t; CNOT commutes with Z on a third qubit *)
Definition CN (c t : nat) : lgate := ksem (mkG KCNOT [c; t] []).

Lemma CNCN c t psi : c <> t -> lsem (CN c t) (lsem (CN c t) psi) = psi.
Proof.
  intros Hct.
  assert (Hc : check_exact (seq 0 2) (map eg [mkG KCNOT [0; 1]%nat []; mkG KCNOT [0; 1]%nat []]) (map eg []) zw1 = true)
    by (vm_compute; reflexivity).
  pose proof (exact_placed 2 _ _ zw1 [c; t] Hc (nd2 c t Hct)) as E.
  apply (f_equal (fun f => f psi)) in E. unfold scaleop in E. cbn [map] in E.
  apply functional_extensionality; intros b. apply (f_equal (fun f => f b)) in E.
  unfold CN. change (placeg [c; t] (mkG KCNOT [0; 1]%nat [])) with (mkG KCNOT [c; t] []) in E.
  unfold csem in E. cbn [fold_left] in E. rewrite E, zw_eval_1. ring.
Qed.

Lemma CNZCN c t psi : c <> t ->
  lsem (CN c t) (lsem (psem (t, PZ)) (lsem (CN c t) psi)) = lsem (psem (c, PZ)) (lsem (psem (t, PZ)) psi).
Proof.
  intros Hct.
  assert (Hc : check_exact (seq 0 2)
                 (map eg [mkG KCNOT [0; 1]%nat []; mkG KZ [1%nat] []; mkG KCNOT [0; 1]%nat []])
                 (map eg [mkG KZ [1%nat] []; mkG KZ [0%nat] []]) zw1 = true) by (vm_compute; reflexivity).
  pose proof (exact_placed 2 _ _ zw1 [c; t] Hc (nd2 c t Hct)) as E.
  apply (f_equal (fun f => f psi)) in E. unfold scaleop in E. cbn [map] in E.
  apply functional_extensionality; intros b. apply (f_equal (fun f => f b)) in E.
  unfold CN, psem, pgate. cbn [fst snd pk].
  change (placeg [c; t] (mkG KCNOT [0; 1]%nat [])) with (mkG KCNOT [c; t] []) in E.
  change (placeg [c; t] (mkG KZ [1%nat] [])) with (mkG KZ [t] []) in E.
  change (placeg [c; t] (mkG KZ [0%nat] [])) with (mkG KZ [c] []) in E.
  unfold csem in E. cbn [fold_left] in E. rewrite E, zw_eval_1. ring.
Qed.

Lemma CN_spect c t j psi : c <> t -> j <> c -> j <> t ->
  lsem (CN c t) (lsem (psem (j, PZ)) psi) = lsem (psem (j, PZ)) (lsem (CN c t) psi).
Proof.
  intros Hct Hjc Hjt.
  assert (Hc : check_exact (seq 0 3)
                 (map eg [mkG KZ [2%nat] []; mkG KCNOT [0; 1]%nat []])
                 (map eg [mkG KCNOT [0; 1]%nat []; mkG KZ [2%nat] []]) zw1 = true) by (vm_compute; reflexivity).
  assert (Hnd : NoDup [c; t; j]).
  { constructor; [intros [E|[E|[]]]; congruence|apply nd2; congruence]. }
  pose proof (exact_placed 3 _ _ zw1 [c; t; j] Hc Hnd) as E.
  apply (f_equal (fun f => f psi)) in E. unfold scaleop in E. cbn [map] in E.
  apply functional_extensionality; intros b. apply (f_equal (fun f => f b)) in E.
  unfold CN, psem, pgate. cbn [fst snd pk].
  change (placeg [c; t; j] (mkG KCNOT [0; 1]%nat [])) with (mkG KCNOT [c; t] []) in E.
  change (placeg [c; t; j] (mkG KZ [2%nat] [])) with (mkG KZ [j] []) in E.
  unfold csem in E. cbn [fold_left] in E. rewrite E, zw_eval_1. ring.
Qed.

(* CNOT passes through a Z string on other qubits *)
Lemma CN_zstring c t (js : list nat) : c <> t -> ~ In c js -> ~ In t js -> forall psi,
  lsem (CN c t) (lsemL (map (fun j => (j, PZ)) js) psi) = lsemL (map (fun j => (j, PZ)) js) (lsem (CN c t) psi).
Proof.
  intros Hct. induction js as [|j js IH]; intros Hc Ht psi; [reflexivity|].
  cbn [map]. unfold lsemL. cbn [map]. rewrite !csem_cons. fold (lsemL (map (fun j0 => (j0, PZ)) js)).
  rewrite IH; [|intros H; apply Hc; right; exact H|intros H; apply Ht; right; exact H].
  rewrite CN_spect; [reflexivity|exact Hct|intros E; apply Hc; left; congruence|intros E; apply Ht; left; congruence].
Qed.

(* ------------------------------------------------------------------ the core: CNOT ladder, RZ, ladder back *)
Definition RZg (q : nat) (theta : R) : lgate := rsem (mkC KRZ [q] [theta]).
Definition zlab (qs : list nat) : label := map (fun j => (j, PZ)) qs.
Definition core (q0 : nat) (qs : list nat) (theta : R) : list lgate :=
  map (fun q => CN q q0) (rev qs) ++ [RZg q0 theta] ++ map (fun q => CN q q0) qs.

Lemma Zdiag q psi b : lsem (psem (q, PZ)) psi b = (if b q then - C1 else C1) * psi b.
Proof.
  unfold psem, pgate, ksem, sgate. cbn [fst snd pk eg gmat gk gas gqs eM es eqs map].
  rewrite lsem_1q. unfold idpi, m2.
  assert (E1 : lp_eval rho0 Gates.one = C1) by (unfold Gates.one, cz; rewrite lp_eval_const, zw_eval_of_Z; reflexivity).
  assert (Em : lp_eval rho0 mone = - C1).
  { unfold mone, cz. rewrite lp_eval_const, zw_eval_of_Z. unfold RtoC, C1, Copp. cbn. f_equal; ring. }
  assert (E0 : lp_eval rho0 lp0 = C0) by reflexivity.
  destruct (b q) eqn:E; rewrite ?E1, ?Em, ?E0; cbn [cpow].
  - assert (Hb : bset b q true = b) by (rewrite <- E; apply bset_id). rewrite Hb. ring.
  - assert (Hb : bset b q false = b) by (rewrite <- E; apply bset_id). rewrite Hb. ring.
Qed.

Lemma RZ_is_prot q theta : lsem (RZg q theta) = prot theta [(q, PZ)].
Proof.
  apply functional_extensionality; intros psi. apply functional_extensionality; intros b.
  unfold RZg. replace theta with (- - theta)%R at 1 by ring. rewrite lsem_RZ_diag.
  unfold prot, lsemL. cbn [map]. unfold csem. cbn [fold_left]. rewrite Zdiag. unfold zph.
  destruct (b q).
  - replace (- - theta / 2)%R with (theta / 2)%R by field. unfold Cexp, RtoC, Ci, C1, Cmul, Cadd, Copp. apply C_eq; cbn; ring.
  - replace (- theta / 2)%R with (- (theta / 2))%R by field. rewrite Cexp_neg.
    unfold Cexp, Cconj, RtoC, Ci, C1, Cmul, Cadd, Copp. apply C_eq; cbn; ring.
Qed.

Lemma lsemL_cons x l psi : lsemL (x :: l) psi = lsemL l (lsem (psem x) psi).
Proof. reflexivity. Qed.
Lemma lsemL_snoc x l psi : lsemL (l ++ [x]) psi = lsem (psem x) (lsemL l psi).
Proof. unfold lsemL. rewrite map_app, csem_app'. reflexivity. Qed.
Lemma lsemL_comm1 i p l psi : ~ In i (keys l) -> lsemL l (lsem (psem (i, p)) psi) = lsem (psem (i, p)) (lsemL l psi).
Proof.
  intros Hi. pose proof (psem_comm_list i p l Hi) as E. apply (f_equal (fun f => f psi)) in E.
  rewrite csem_cons, csem_app' in E. exact E.
Qed.

Lemma prot_conj (U V : Op) theta l l' :
  (forall f g a d, U (fun x => a * f x + d * g x) = fun b => a * U f b + d * U g b) ->
  (forall psi, U (V psi) = psi) -> (forall psi, U (lsemL l (V psi)) = lsemL l' psi) ->
  forall psi, U (prot theta l (V psi)) = prot theta l' psi.
Proof.
  intros Hlin Hinv Hconj psi. unfold prot.
  rewrite (Hlin (V psi) (lsemL l (V psi))). rewrite Hinv, Hconj. reflexivity.
Qed.

Lemma lsem_lin2 g f h a d : lsem g (fun x => a * f x + d * h x) = fun b => a * lsem g f b + d * lsem g h b.
Proof.
  rewrite (lsem_add g (fun x => a * f x) (fun x => d * h x)), !lsem_sc. reflexivity.
Qed.

Theorem core_is_z_rotation q0 theta : forall qs, NoDup (q0 :: qs) ->
  csem (core q0 qs theta) = prot theta ((q0, PZ) :: zlab qs).
Proof.
  intros qs. induction qs as [|q qs IH] using rev_ind; intros Hnd.
  - unfold core. cbn [rev map app]. apply functional_extensionality; intros psi.
    rewrite csem_cons, csem_nil. rewrite RZ_is_prot. reflexivity.
  - assert (Hnd' : NoDup (q0 :: qs)).
    { inversion Hnd as [|? ? H0 Hq]; subst. constructor.
      - intros H; apply H0, in_or_app; left; exact H.
      - pose proof (NoDup_remove_1 qs [] q Hq) as H1. rewrite app_nil_r in H1. exact H1. }
    assert (Hq0 : q <> q0).
    { inversion Hnd as [|? ? H0 _]; subst. intros ->. apply H0, in_or_app. right. left. reflexivity. }
    assert (Hqqs : ~ In q qs).
    { inversion Hnd as [|? ? _ Hq]; subst. pose proof (NoDup_remove_2 qs [] q Hq) as H1. rewrite app_nil_r in H1. exact H1. }
    assert (Hq0qs : ~ In q0 qs).
    { inversion Hnd' as [|? ? H0 _]; subst. exact H0. }
    specialize (IH Hnd').
    assert (Ecore : core q0 (qs ++ [q]) theta = [CN q q0] ++ core q0 qs theta ++ [CN q q0]).
    { unfold core. rewrite rev_app_distr, !map_app. cbn [rev map app]. rewrite <- !app_assoc. reflexivity. }
    rewrite Ecore. apply functional_extensionality; intros psi.
    rewrite !csem_app', IH.
    change (csem [CN q q0]) with (lsem (CN q q0)).
    apply (prot_conj (lsem (CN q q0)) (lsem (CN q q0)) theta ((q0, PZ) :: zlab qs) ((q0, PZ) :: zlab (qs ++ [q]))).
    + intros f g a d. apply lsem_lin2.
    + intros phi. apply CNCN. exact Hq0.
    + intros phi. rewrite !lsemL_cons.
      unfold zlab at 1. rewrite (CN_zstring q q0 qs Hq0 Hqqs Hq0qs). fold (zlab qs).
      rewrite (CNZCN q q0 phi Hq0).
      unfold zlab at 2. rewrite map_app. cbn [map]. fold (zlab qs). rewrite lsemL_snoc.
      apply lsemL_comm1. unfold keys, zlab. rewrite map_map. cbn [fst]. rewrite map_id. exact Hqqs.
Qed.

(* ------------------------------------------------------------------ basis changes (rot_gates) *)
Definition bc (s : bool) (ip : nat * pauli) : list lgate :=
  match snd ip with
  | PX => [G1 KH (fst ip) []]
  | PY => [G1 KRX (fst ip) [if s then hp else hm]]
  | PZ => []
  end.
Definition Rot (s : bool) (l : label) : list lgate := flat_map (bc s) l.

Lemma G1_form k q as_ : G1 k q as_ = (fst (G1 k q as_), [q]).
Proof. unfold G1, ksem, sgate. destruct (eg (mkG k [q] as_)) eqn:E. cbn.
  pose proof (eg_eqs (mkG k [q] as_)) as H. rewrite E in H. cbn in H. subst. reflexivity. Qed.
Lemma psem_form q p : psem (q, p) = (fst (psem (q, p)), [q]).
Proof. unfold psem, pgate. cbn [fst snd]. apply (G1_form (pk p) q []). Qed.

Lemma G1_P_comm k i as_ j p psi : i <> j ->
  lsem (G1 k i as_) (lsem (psem (j, p)) psi) = lsem (psem (j, p)) (lsem (G1 k i as_) psi).
Proof. intros H. rewrite (G1_form k i as_), (psem_form j p). apply lsem1_comm, H. Qed.
Lemma G1_G1_comm k i as_ k' j as' psi : i <> j ->
  lsem (G1 k i as_) (lsem (G1 k' j as') psi) = lsem (G1 k' j as') (lsem (G1 k i as_) psi).
Proof. intros H. rewrite (G1_form k i as_), (G1_form k' j as'). apply lsem1_comm, H. Qed.

(* an operator that commutes with every one-qubit gate and Pauli on the qubits of l commutes with Rot s l and with
   every Pauli string on those qubits *)
Definition comm1 (U : Op) (j : nat) : Prop :=
  (forall k as_ psi, U (lsem (G1 k j as_) psi) = lsem (G1 k j as_) (U psi)) /\
  (forall p psi, U (lsem (psem (j, p)) psi) = lsem (psem (j, p)) (U psi)).

Lemma comm_Rot U s l : (forall j, In j (keys l) -> comm1 U j) -> forall psi, U (csem (Rot s l) psi) = csem (Rot s l) (U psi).
Proof.
  induction l as [|[j p] l IH]; intros H psi; [reflexivity|].
  unfold Rot. cbn [flat_map]. fold (Rot s l). rewrite !csem_app'.
  rewrite IH by (intros j' Hj'; apply H; right; exact Hj').
  f_equal. destruct (H j (or_introl eq_refl)) as [HG _].
  unfold bc. cbn [fst snd]. destruct p; rewrite ?csem_cons, ?csem_nil; try reflexivity; apply HG.
Qed.
Lemma comm_lsemL U l : (forall j, In j (keys l) -> comm1 U j) -> forall psi, U (lsemL l psi) = lsemL l (U psi).
Proof.
  induction l as [|[j p] l IH]; intros H psi; [reflexivity|].
  rewrite !lsemL_cons. rewrite IH by (intros j' Hj'; apply H; right; exact Hj').
  f_equal. destruct (H j (or_introl eq_refl)) as [_ HP]. apply HP.
Qed.

Lemma G1_comm1 k i as_ j : i <> j -> comm1 (lsem (G1 k i as_)) j.
Proof. intros H. split; intros; [apply G1_G1_comm|apply G1_P_comm]; exact H. Qed.
Lemma P_comm1 i p j : i <> j -> comm1 (lsem (psem (i, p))) j.
Proof.
  intros H. split.
  - intros k as_ psi. symmetry. apply G1_P_comm. congruence.
  - intros q psi. rewrite (psem_form i p), (psem_form j q). apply lsem1_comm, H.
Qed.
Lemma csem_bc_comm1 s i p j : i <> j -> comm1 (csem (bc s (i, p))) j.
Proof.
  intros H. unfold bc. cbn [fst snd]. destruct p.
  - change (csem [G1 KH i []]) with (lsem (G1 KH i [])). apply G1_comm1, H.
  - change (csem [G1 KRX i [if s then hp else hm]]) with (lsem (G1 KRX i [if s then hp else hm])). apply G1_comm1, H.
  - split; intros; reflexivity.
Qed.

(* single-qubit facts about a basis change *)
Lemma bc_inv i p psi : csem (bc false (i, p)) (csem (bc true (i, p)) psi) = psi.
Proof.
  unfold bc. cbn [fst snd]. destruct p; rewrite ?csem_cons, ?csem_nil; [apply HH|apply RXRX|reflexivity].
Qed.
Lemma bc_conj i p psi :
  csem (bc false (i, p)) (lsem (psem (i, PZ)) (csem (bc true (i, p)) psi)) = lsem (psem (i, p)) psi.
Proof.
  unfold bc. cbn [fst snd]. destruct p; rewrite ?csem_cons, ?csem_nil; [apply HZH|apply RXZRX|reflexivity].
Qed.

(* Rot(-) Rot(+) = 1   and   Rot(-) Z...Z Rot(+) = P *)
Theorem Rot_inverse l : NoDup (keys l) -> forall psi, csem (Rot false l) (csem (Rot true l) psi) = psi.
Proof.
  induction l as [|[i p] l IH]; intros Hnd psi; [reflexivity|].
  cbn [keys map fst] in Hnd. inversion Hnd as [|? ? Hi Hnd']; subst.
  unfold Rot. cbn [flat_map]. fold (Rot true l) (Rot false l). rewrite !csem_app'.
  assert (Hc : forall j, In j (keys l) -> comm1 (csem (bc false (i, p))) j).
  { intros j Hj. apply csem_bc_comm1. intros ->. apply Hi, Hj. }
  rewrite (comm_Rot _ true l Hc). rewrite bc_inv. apply IH, Hnd'.
Qed.

Theorem Rot_conjugates_z_string l : NoDup (keys l) -> forall psi,
  csem (Rot false l) (lsemL (zify l) (csem (Rot true l) psi)) = lsemL l psi.
Proof.
  induction l as [|[i p] l IH]; intros Hnd psi; [reflexivity|].
  cbn [keys map fst] in Hnd. inversion Hnd as [|? ? Hi Hnd']; subst.
  unfold Rot. cbn [flat_map zify map fst]. fold (Rot true l) (Rot false l) (zify l). rewrite !csem_app'.
  rewrite !lsemL_cons.
  assert (Hz : forall j, In j (keys l) -> comm1 (lsem (psem (i, PZ))) j).
  { intros j Hj. apply P_comm1. intros ->. apply Hi, Hj. }
  assert (Hb : forall j, In j (keys l) -> comm1 (csem (bc false (i, p))) j).
  { intros j Hj. apply csem_bc_comm1. intros ->. apply Hi, Hj. }
  (* move Z_i inside Rot(+) l, then bc(-) inside lsemL (zify l) and Rot(+) l *)
  rewrite (comm_Rot _ true l Hz).
  assert (Hb' : forall j, In j (keys (zify l)) -> comm1 (csem (bc false (i, p))) j) by (rewrite keys_zify; exact Hb).
  rewrite (comm_lsemL _ (zify l) Hb'), (comm_Rot _ true l Hb).
  rewrite bc_conj. apply IH, Hnd'.
Qed.

(* ------------------------------------------------------------------ assembly *)
Definition pr_circ (l : label) (theta : R) : list lgate :=
  match l with
  | [] => []
  | (q0, _) :: rest => Rot true l ++ core q0 (keys rest) theta ++ Rot false l
  end.

Lemma csem_lin2 gs f h a d : csem gs (fun x => a * f x + d * h x) = fun b => a * csem gs f b + d * csem gs h b.
Proof. rewrite (csem_add gs (fun x => a * f x) (fun x => d * h x)), !csem_sc. reflexivity. Qed.

Theorem pr_circ_exact l theta : l <> [] -> NoDup (keys l) -> csem (pr_circ l theta) = prot theta l.
Proof.
  intros Hne Hnd. destruct l as [|[q0 p0] rest]; [contradiction|]. clear Hne.
  unfold pr_circ. apply functional_extensionality; intros psi. rewrite !csem_app'.
  assert (Hk : NoDup (q0 :: keys rest)) by exact Hnd.
  rewrite (core_is_z_rotation q0 theta (keys rest) Hk).
  assert (Ez : (q0, PZ) :: zlab (keys rest) = zify ((q0, p0) :: rest)).
  { unfold zify, zlab, keys. cbn [map fst]. rewrite map_map. reflexivity. }
  rewrite Ez.
  apply (prot_conj (csem (Rot false ((q0, p0) :: rest))) (csem (Rot true ((q0, p0) :: rest)))).
  - intros f g a d. apply csem_lin2.
  - apply Rot_inverse, Hnd.
  - apply Rot_conjugates_z_string, Hnd.
Qed.

(* -- the decomposition as gates with their documented matrices *)
Definition rot_c (s : bool) (ip : nat * pauli) : list cgate :=
  match snd ip with
  | PX => [mkC KH [fst ip] []]
  | PY => [mkC KRX [fst ip] [if s then (PI / 2)%R else (- (PI / 2))%R]]
  | PZ => []
  end.
Definition prot_decompose (l : label) (theta : R) : list cgate :=
  match l with
  | [] => []
  | (q0, _) :: rest =>
      flat_map (rot_c true) l ++ map (fun q => mkC KCNOT [q; q0] []) (rev (keys rest)) ++ [mkC KRZ [q0] [theta]]
      ++ map (fun q => mkC KCNOT [q; q0] []) (keys rest) ++ flat_map (rot_c false) l
  end.

Lemma rho_zero : rho_of (fun _ : nat => 0%R) = rho0.
Proof. apply functional_extensionality; intros i. unfold rho_of, rho0. replace (0 / 2)%R with 0%R by field. apply Cexp_0. Qed.

Lemma rsem_ksem g : gate_ok g = true ->
  lsem (rsem (inst (fun _ => 0%R) idpi g)) ≃ lsem (ksem g).
Proof.
  intros Hok. pose proof (rsem_unit (fun _ => 0%R) idpi g Hok) as H. rewrite rho_zero in H. exact H.
Qed.

Lemma inst0 k qs as_ : inst (fun _ => 0%R) idpi (mkG k qs as_) = mkC k qs (map (ang_eval (fun _ => 0%R)) as_).
Proof. unfold inst. cbn [gk gqs gas]. f_equal. unfold idpi. apply map_id. Qed.

Lemma eq_H q : lsem (rsem (mkC KH [q] [])) ≃ lsem (G1 KH q []).
Proof. pose proof (rsem_ksem (mkG KH [q] []) eq_refl) as H. rewrite inst0 in H. exact H. Qed.
Lemma eq_CN c t : c <> t -> lsem (rsem (mkC KCNOT [c; t] [])) ≃ lsem (CN c t).
Proof.
  intros Hct. assert (Hok : gate_ok (mkG KCNOT [c; t] []) = true).
  { unfold gate_ok, gate_wfb. cbn. destruct (Nat.eqb_spec c t); [contradiction|reflexivity]. }
  pose proof (rsem_ksem _ Hok) as H. rewrite inst0 in H. exact H.
Qed.
Lemma eq_RX q (s : bool) :
  lsem (rsem (mkC KRX [q] [if s then (PI / 2)%R else (- (PI / 2))%R])) ≃ lsem (G1 KRX q [if s then hp else hm]).
Proof.
  assert (Hok : gate_ok (mkG KRX [q] [if s then hp else hm]) = true) by (destruct s; reflexivity).
  pose proof (rsem_ksem _ Hok) as H. rewrite inst0 in H. cbn [map] in H.
  replace (ang_eval (fun _ : nat => 0%R) (if s then hp else hm)) with (if s then (PI / 2)%R else (- (PI / 2))%R) in H; [exact H|].
  destruct s; unfold ang_eval, hp, hm, ang_pi4; cbn; field.
Qed.

Lemma csem_Forall2 (cs : list cgate) (gs : list lgate) :
  Forall2 (fun c g => lsem (rsem c) ≃ lsem g) cs gs -> csem (map rsem cs) ≃ csem gs.
Proof.
  induction 1 as [|c g cs gs Hcg _ IH]; [apply opequiv_refl|].
  cbn [map]. change (csem ([rsem c] ++ map rsem cs) ≃ csem ([g] ++ gs)).
  apply csem_app_equiv; [exact Hcg|exact IH].
Qed.

Lemma F2_rot s l : Forall2 (fun c g => lsem (rsem c) ≃ lsem g) (flat_map (rot_c s) l) (Rot s l).
Proof.
  induction l as [|[i p] l IH]; [constructor|].
  unfold Rot. cbn [flat_map]. fold (Rot s l). apply Forall2_app; [|exact IH].
  unfold rot_c, bc. cbn [fst snd]. destruct p; repeat constructor; [apply eq_H|apply eq_RX].
Qed.
Lemma F2_cn q0 qs : (forall q, In q qs -> q <> q0) ->
  Forall2 (fun c g => lsem (rsem c) ≃ lsem g) (map (fun q => mkC KCNOT [q; q0] []) qs) (map (fun q => CN q q0) qs).
Proof.
  induction qs as [|q qs IH]; intros H; [constructor|]. cbn [map]. constructor.
  - apply eq_CN, H. left. reflexivity.
  - apply IH. intros q' Hq'. apply H. right. exact Hq'.
Qed.

(* PauliRotationDecomposeTranspiler.decompose: for a Pauli string of any length on distinct qubits and every angle, the
   returned gates implement exp(-i theta/2 P) up to a global phase *)
Theorem pauli_rotation_decomposition_sound l theta : l <> [] -> NoDup (keys l) ->
  csem (map rsem (prot_decompose l theta)) ≃ prot theta l.
Proof.
  intros Hne Hnd. rewrite <- (pr_circ_exact l theta Hne Hnd).
  destruct l as [|[q0 p0] rest]; [contradiction|]. unfold prot_decompose, pr_circ, core.
  apply csem_Forall2. rewrite <- !app_assoc.
  assert (Hq : forall q, In q (keys rest) -> q <> q0).
  { cbn [keys map fst] in Hnd. inversion Hnd as [|? ? H0 _]; subst. intros q Hin ->. apply H0, Hin. }
  apply Forall2_app; [apply F2_rot|].
  apply Forall2_app; [apply F2_cn; intros q Hin; apply Hq, in_rev, Hin|].
  apply Forall2_app; [repeat constructor; apply opequiv_refl|].
  apply Forall2_app; [apply F2_cn, Hq|apply F2_rot].
Qed.
Print Assumptions pauli_rotation_decomposition_sound.

(* -- the same decomposition over gates with parameters of any type (run by vm_compute against the implementation) *)
Section Generic.
Context {P : Type}.
Variables (half mhalf : P).
Definition rot_g (s : bool) (ip : nat * pauli) : list (pg P) :=
  match snd ip with
  | PX => [mkPG KH [fst ip] []]
  | PY => [mkPG KRX [fst ip] [if s then half else mhalf]]
  | PZ => []
  end.
Definition prot_decompose_g (l : label) (theta : P) : list (pg P) :=
  match l with
  | [] => []
  | (q0, _) :: rest =>
      flat_map (rot_g true) l ++ map (fun q => mkPG KCNOT [q; q0] []) (rev (keys rest)) ++ [mkPG KRZ [q0] [theta]]
      ++ map (fun q => mkPG KCNOT [q; q0] []) (keys rest) ++ flat_map (rot_g false) l
  end.
(* PauliDecomposeTranspiler.decompose *)
Definition pauli_decompose_g (l : label) : list (pg P) := map (fun ip => mkPG (pk (snd ip)) [fst ip] []) l.
End Generic.

Lemma prot_decompose_g_R l theta :
  map to_c (prot_decompose_g (PI / 2)%R (- (PI / 2))%R l theta) = prot_decompose l theta.
Proof.
  destruct l as [|[q0 p0] rest]; [reflexivity|]. unfold prot_decompose_g, prot_decompose.
  assert (E : forall s l', map to_c (flat_map (rot_g (PI / 2)%R (- (PI / 2))%R s) l') = flat_map (rot_c s) l').
  { intros s l'. induction l' as [|[i p] l' IH]; [reflexivity|]. cbn [flat_map]. rewrite map_app, IH. f_equal.
    unfold rot_g, rot_c. cbn [fst snd]. destruct p; reflexivity. }
  rewrite !map_app, !E, !map_map. reflexivity.
Qed.

(* PauliDecomposeTranspiler: a Pauli gate (the product of its factors, on distinct qubits) is the list of its factors *)
Theorem pauli_gate_decomposition_sound (l : label) :
  csem (map rsem (map to_c (pauli_decompose_g (P := R) l))) ≃ lsemL l.
Proof.
  unfold lsemL. apply csem_Forall2. induction l as [|[i p] l IH]; [constructor|].
  cbn [pauli_decompose_g map]. constructor; [|exact IH].
  unfold to_c. cbn [pgk pgq pgp fst snd]. unfold psem, pgate. cbn [fst snd].
  pose proof (rsem_ksem (mkG (pk p) [i] [])) as H. rewrite inst0 in H. cbn [map] in H. apply H. destruct p; reflexivity.
Qed.

(* -- ParametricPauliRotationDecomposeTranspiler.add_decomposed_gates: the same gate list with the angle of the RZ gate
   left symbolic; binding a value commutes with the decomposition *)
Inductive pang := PConst (r : R) | PVar.
Definition bind_pang (v : R) (a : pang) : R := match a with PConst r => r | PVar => v end.
Definition map_pg {A B} (g : A -> B) (x : pg A) : pg B := mkPG (pgk x) (pgq x) (map g (pgp x)).

Lemma prot_decompose_g_map {A B} (g : A -> B) (half mhalf theta : A) l :
  map (map_pg g) (prot_decompose_g half mhalf l theta) = prot_decompose_g (g half) (g mhalf) l (g theta).
Proof.
  destruct l as [|[q0 p0] rest]; [reflexivity|]. unfold prot_decompose_g.
  assert (E : forall s l', map (map_pg g) (flat_map (rot_g half mhalf s) l') = flat_map (rot_g (g half) (g mhalf) s) l').
  { intros s l'. induction l' as [|[i p] l' IH]; [reflexivity|]. cbn [flat_map]. rewrite map_app, IH. f_equal.
    unfold rot_g. cbn [fst snd]. destruct p; cbn; try reflexivity. destruct s; reflexivity. }
  rewrite !map_app, !E, !map_map. reflexivity.
Qed.

Theorem parametric_pauli_rotation_decomposition_then_bind l v : l <> [] -> NoDup (keys l) ->
  csem (map rsem (map to_c (map (map_pg (bind_pang v))
         (prot_decompose_g (PConst (PI / 2)) (PConst (- (PI / 2))) l PVar)))) ≃ prot v l.
Proof.
  intros Hne Hnd. rewrite prot_decompose_g_map. cbn [bind_pang]. rewrite prot_decompose_g_R.
  apply pauli_rotation_decomposition_sound; assumption.
Qed.

