(* Single-qubit Kraus channels with real entries (circuit/noise/noise_instruction.py):
   a Kraus operator is scale * [[a b] [c d]].  Completeness, trace preservation and positivity
   of the channel rho -> sum K rho K^T. *)
From Coq Require Import Reals List Lra Nsatz.
Import ListNotations.
Local Open Scope R_scope.

Record kraus_op := mkK { ks : R; ka : R; kb : R; kc : R; kd : R }.

(* the four entries of sum K^T K *)
Fixpoint ktk (l : list kraus_op) : R * R * R * R :=
  match l with
  | [] => (0, 0, 0, 0)
  | k :: l' =>
      let '(x00, x01, x10, x11) := ktk l' in
      let s2 := ks k * ks k in
      (s2 * (ka k * ka k + kc k * kc k) + x00, s2 * (ka k * kb k + kc k * kd k) + x01,
       s2 * (kb k * ka k + kd k * kc k) + x10, s2 * (kb k * kb k + kd k * kd k) + x11)
  end.
Definition complete (l : list kraus_op) : Prop := ktk l = (1, 0, 0, 1).

(* action on a real 2x2 matrix rho = [[r00 r01] [r10 r11]] *)
Definition act1 (k : kraus_op) (r : R * R * R * R) : R * R * R * R :=
  let '(r00, r01, r10, r11) := r in
  let s2 := ks k * ks k in
  let a := ka k in let b := kb k in let c := kc k in let d := kd k in
  (s2 * (a * (r00 * a + r01 * b) + b * (r10 * a + r11 * b)),
   s2 * (a * (r00 * c + r01 * d) + b * (r10 * c + r11 * d)),
   s2 * (c * (r00 * a + r01 * b) + d * (r10 * a + r11 * b)),
   s2 * (c * (r00 * c + r01 * d) + d * (r10 * c + r11 * d))).
Definition madd (x y : R * R * R * R) : R * R * R * R :=
  let '(a, b, c, d) := x in let '(a', b', c', d') := y in (a + a', b + b', c + c', d + d').
Fixpoint act (l : list kraus_op) (r : R * R * R * R) : R * R * R * R :=
  match l with [] => (0, 0, 0, 0) | k :: l' => madd (act1 k r) (act l' r) end.
Definition tr (r : R * R * R * R) : R := let '(a, _, _, d) := r in a + d.

(* tr (sum K rho K^T) = tr (rho * sum K^T K) *)
Definition pairing (x r : R * R * R * R) : R :=
  let '(x00, x01, x10, x11) := x in let '(r00, r01, r10, r11) := r in
  r00 * x00 + r01 * x10 + r10 * x01 + r11 * x11.
Lemma tr_madd x y : tr (madd x y) = tr x + tr y.
Proof. destruct x as [[[a b] c] d], y as [[[a' b'] c'] d']. simpl. ring. Qed.
Lemma tr_act1 k r : tr (act1 k r) =
  pairing (ks k * ks k * (ka k * ka k + kc k * kc k), ks k * ks k * (ka k * kb k + kc k * kd k),
           ks k * ks k * (kb k * ka k + kd k * kc k), ks k * ks k * (kb k * kb k + kd k * kd k)) r.
Proof. destruct r as [[[r00 r01] r10] r11]. unfold tr, act1, pairing. ring. Qed.
Lemma pairing_madd x y r : pairing (madd x y) r = pairing x r + pairing y r.
Proof. destruct x as [[[a b] c] d], y as [[[a' b'] c'] d'], r as [[[r00 r01] r10] r11]. unfold pairing, madd. ring. Qed.
Lemma ktk_cons k l : ktk (k :: l) =
  madd (ks k * ks k * (ka k * ka k + kc k * kc k), ks k * ks k * (ka k * kb k + kc k * kd k),
        ks k * ks k * (kb k * ka k + kd k * kc k), ks k * ks k * (kb k * kb k + kd k * kd k)) (ktk l).
Proof. simpl. destruct (ktk l) as [[[x00 x01] x10] x11]. reflexivity. Qed.

Lemma trace_act l r : tr (act l r) = pairing (ktk l) r.
Proof.
  induction l as [|k l IH].
  - destruct r as [[[r00 r01] r10] r11]. simpl. ring.
  - change (act (k :: l) r) with (madd (act1 k r) (act l r)).
    rewrite tr_madd, tr_act1, IH, ktk_cons, pairing_madd. reflexivity.
Qed.

(* a complete Kraus set preserves the trace of every (real) matrix *)
Theorem complete_preserves_trace l r : complete l -> tr (act l r) = tr r.
Proof.
  intros H. rewrite trace_act. unfold complete in H. rewrite H.
  destruct r as [[[r00 r01] r10] r11]. unfold pairing, tr. ring.
Qed.

(* positivity: x^T (K rho K^T) x = (K^T x)^T rho (K^T x) >= 0 for positive semidefinite rho *)
Definition quad (r : R * R * R * R) (x y : R) : R :=
  let '(r00, r01, r10, r11) := r in x * (r00 * x + r01 * y) + y * (r10 * x + r11 * y).
Definition psd (r : R * R * R * R) : Prop := forall x y, 0 <= quad r x y.

Lemma quad_act1 k r x y :
  quad (act1 k r) x y = ks k * ks k * quad r (ka k * x + kc k * y) (kb k * x + kd k * y).
Proof. destruct r as [[[r00 r01] r10] r11]. unfold quad, act1. ring. Qed.
Lemma quad_madd a b x y : quad (madd a b) x y = quad a x y + quad b x y.
Proof. destruct a as [[[a0 a1] a2] a3], b as [[[b0 b1] b2] b3]. unfold quad, madd. ring. Qed.

Theorem channel_preserves_psd l r : psd r -> psd (act l r).
Proof.
  intros H. induction l as [|k l IH]; intros x y; simpl.
  - unfold quad. lra.
  - rewrite quad_madd, quad_act1. specialize (IH x y).
    specialize (H (ka k * x + kc k * y) (kb k * x + kd k * y)).
    assert (0 <= ks k * ks k) by nra. nra.
Qed.

(* mixtures of unitaries: weights of the identity component and of the error components *)
Definition mixture_ok (ws : list R) : Prop := Forall (fun w => 0 <= w) ws /\ fold_right Rplus 0 ws = 1.
Lemma flip_mixture p : 0 <= p <= 1 -> mixture_ok [1 - p; p].
Proof. intros H. split; [repeat (constructor; try lra) | simpl; lra]. Qed.
Lemma depolarizing_mixture p : 0 <= p <= 1 -> mixture_ok [1 - p; p / 3; p / 3; p / 3].
Proof. intros H. split; [repeat (constructor; try lra) | simpl; lra]. Qed.

(* thermal relaxation: Choi matrix entries (noise_instruction.py) and its physicality *)
Lemma exp_le x y : x <= y -> exp x <= exp y.
Proof. intros [H|H]; [left; apply exp_increasing; auto | subst; lra]. Qed.

Section Thermal.
Variables t1 t2 t esp : R.
Hypothesis Ht1 : 0 < t1.
Hypothesis Ht2 : 0 < t2.
Hypothesis Ht : 0 <= t.
Hypothesis Ht12 : t2 <= 2 * t1.
Hypothesis Hesp : 0 <= esp <= 1.
Definition p_reset := 1 - exp (- t * (1 / t1)).
Definition exp_t2 := exp (- t * (1 / t2)).
Definition p0 := 1 - esp.
Definition p1 := esp.
(* choi = [[1 - p1 pr, 0, 0, e]; [0, p1 pr, 0, 0]; [0, 0, p0 pr, 0]; [e, 0, 0, 1 - p0 pr]] *)

Lemma p_reset_range : 0 <= p_reset <= 1.
Proof.
  unfold p_reset. assert (H : - t * (1 / t1) <= 0).
  { assert (0 <= t * (1 / t1)). { apply Rmult_le_pos; auto. unfold Rdiv. rewrite Rmult_1_l. left. apply Rinv_0_lt_compat; auto. } lra. }
  pose proof (exp_pos (- t * (1 / t1))).
  assert (exp (- t * (1 / t1)) <= 1).
  { pose proof (exp_le _ _ H) as E. rewrite exp_0 in E. exact E. }
  lra.
Qed.

(* trace preservation: the two diagonal blocks each have trace one *)
Theorem thermal_choi_trace_preserving :
  (1 - p1 * p_reset) + p1 * p_reset = 1 /\ p0 * p_reset + (1 - p0 * p_reset) = 1.
Proof. split; ring. Qed.

(* positivity: diagonal entries are non-negative and the coherence is dominated *)
Theorem thermal_choi_positive :
  0 <= p1 * p_reset /\ 0 <= p0 * p_reset /\ 0 <= 1 - p1 * p_reset /\ 0 <= 1 - p0 * p_reset /\
  exp_t2 * exp_t2 <= (1 - p1 * p_reset) * (1 - p0 * p_reset).
Proof.
  pose proof p_reset_range as Hr. unfold p0, p1.
  assert (A1 : 0 <= esp * p_reset) by (apply Rmult_le_pos; lra).
  assert (A2 : 0 <= (1 - esp) * p_reset) by (apply Rmult_le_pos; lra).
  assert (A3 : esp * p_reset <= 1) by nra.
  assert (A4 : (1 - esp) * p_reset <= 1) by nra.
  repeat split; try lra.
  (* e^2 = exp(-2t/t2) <= exp(-t/t1) = 1 - p_reset <= (1 - p1 pr)(1 - p0 pr) *)
  assert (E : exp_t2 * exp_t2 = exp (- t * (1 / t2) + - t * (1 / t2))) by (unfold exp_t2; rewrite exp_plus; reflexivity).
  rewrite E.
  assert (Hle : - t * (1 / t2) + - t * (1 / t2) <= - t * (1 / t1)).
  { assert (H2 : 1 / t1 <= 2 * (1 / t2)).
    { unfold Rdiv. rewrite !Rmult_1_l.
      assert (/ (2 * t1) <= / t2) by (apply Rinv_le_contravar; lra).
      rewrite Rinv_mult in H. assert (/ 2 = 1 / 2) by lra. nra. }
    nra. }
  assert (Hexp : exp (- t * (1 / t2) + - t * (1 / t2)) <= exp (- t * (1 / t1))) by (apply exp_le; auto).
  assert (Hpr : exp (- t * (1 / t1)) = 1 - p_reset) by (unfold p_reset; ring).
  rewrite Hpr in Hexp.
  assert (0 <= esp * (1 - esp) * p_reset * p_reset).
  { apply Rmult_le_pos; [apply Rmult_le_pos; [apply Rmult_le_pos|]|]; lra. }
  nra.
Qed.
End Thermal.
