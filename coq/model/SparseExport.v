(* Matrix export (core/operator/sparse.py): _convert_pauli_label_to_sparse builds the list of n one-qubit matrices
   (position n - bit - 1 holds the Pauli of qubit `bit`, identity elsewhere) and reduces it with scipy's kron;
   _convert_operator_to_sparse sums coeff * matrix over the terms.  Theorem: entry (i, j) of the exported matrix is the
   matrix element <i| O |j> of the operator the label / Operator denotes (n-qubit Pauli semantics, qubit q = bit q of the
   index), for every n >= 1, every label on distinct qubits < n and all indices. *)
From Coq Require Import ZArith NArith List Bool Arith Lia Reals FunctionalExtensionality Permutation.
From QP Require Import Cx Zw Asum FMat Lpoly Apply Local Gates Rsem.
From QPM Require Import Transpile Pauli CompBasis Operator.
Import ListNotations.
Local Open Scope C_scope.

(* entries of the one-qubit matrices: None = identity *)
Definition sigC (p : option pauli) (x y : bool) : C :=
  match p with
  | None => if Bool.eqb x y then C1 else C0
  | Some PX => if xorb x y then C1 else C0
  | Some PY => if x then (if y then C0 else Ci) else (if y then - Ci else C0)
  | Some PZ => if Bool.eqb x y then (if x then - C1 else C1) else C0
  end.

Definition cprod (f : nat -> C) (S : list nat) : C := fold_right (fun q acc => f q * acc) C1 S.

Lemma cprod_ext_in f g S : (forall q, In q S -> f q = g q) -> cprod f S = cprod g S.
Proof. induction S as [|a S IH]; intros H; cbn [cprod fold_right]; [reflexivity|]. fold (cprod f S) (cprod g S). rewrite H, IH; auto with datatypes. Qed.

Lemma cprod_split f S q : NoDup S -> In q S -> cprod f S = f q * cprod f (remove Nat.eq_dec q S).
Proof.
  induction S as [|a S IH]; intros Hnd Hin; [destruct Hin|]. apply NoDup_cons_iff in Hnd as [Ha Hnd].
  cbn [cprod fold_right remove]. fold (cprod f S). destruct (Nat.eq_dec q a) as [->|Hne].
  - rewrite notin_remove by exact Ha. reflexivity.
  - destruct Hin as [E|Hin]; [congruence|]. cbn [fold_right]. fold (cprod f (remove Nat.eq_dec q S)).
    rewrite (IH Hnd Hin). ring.
Qed.

Lemma P_act p i psi b :
  lsem (psem (i, p)) psi b = sigC (Some p) (b i) false * psi (bset b i false) + sigC (Some p) (b i) true * psi (bset b i true).
Proof.
  destruct p; [rewrite X_act|rewrite Y_act|rewrite Z_act]; destruct (b i) eqn:E; cbn [sigC xorb Bool.eqb negb];
    try (replace (bset b i true) with b by (rewrite <- E; symmetry; apply bset_id));
    try (replace (bset b i false) with b by (rewrite <- E; symmetry; apply bset_id)); ring.
Qed.

Definition bitN (j : N) (q : nat) : bool := N.testbit j (N.of_nat q).

Lemma ket_cprod n j b : ket n j b = cprod (fun q => sigC None (b q) (bitN j q)) (seq 0 n).
Proof.
  unfold ket. induction (seq 0 n) as [|a S IH]; cbn [forallb cprod fold_right]; [reflexivity|].
  fold (cprod (fun q => sigC None (b q) (bitN j q)) S). rewrite <- IH. cbn [sigC]. unfold bitN.
  destruct (Bool.eqb (b a) (N.testbit j (N.of_nat a))); cbn [andb]; [|ring].
  destruct (forallb _ S); ring.
Qed.

Lemma plookup_app_last q' l q p : ~ In q (keys l) ->
  plookup q' (l ++ [(q, p)]) = if Nat.eqb q' q then (match plookup q' l with Some r => Some r | None => Some p end) else plookup q' l.
Proof.
  induction l as [|[a r] l IH]; intros Hq; cbn [app plookup].
  - destruct (Nat.eqb q' q); reflexivity.
  - destruct (Nat.eqb_spec q' a) as [->|Hne].
    + destruct (Nat.eqb_spec a q) as [->|_]; [exfalso; apply Hq; left; reflexivity|reflexivity].
    + apply IH. intros H; apply Hq; right; exact H.
Qed.

Lemma plookup_notin q l : ~ In q (keys l) -> plookup q l = None.
Proof.
  induction l as [|[a r] l IH]; intros H; cbn [plookup]; [reflexivity|].
  destruct (Nat.eqb_spec q a) as [->|_]; [exfalso; apply H; left; reflexivity|]. apply IH. intros H'; apply H; right; exact H'.
Qed.

(* matrix elements of a Pauli string between basis states of an n-qubit register *)
Theorem label_matrix_element n j : forall l, NoDup (keys l) -> (forall q, In q (keys l) -> q < n) ->
  forall b, lsemL l (ket n j) b = cprod (fun q => sigC (plookup q l) (b q) (bitN j q)) (seq 0 n).
Proof.
  induction l as [|[q p] l IH] using rev_ind; intros Hnd Hlt b.
  - unfold lsemL. cbn [map]. rewrite csem_nil. rewrite ket_cprod. reflexivity.
  - unfold keys in Hnd, Hlt. rewrite map_app in Hnd, Hlt. cbn [map fst] in Hnd, Hlt. fold (keys l) in Hnd, Hlt.
    assert (Hq : ~ In q (keys l)).
    { apply NoDup_remove_2 in Hnd. rewrite app_nil_r in Hnd. exact Hnd. }
    assert (Hnd' : NoDup (keys l)) by (apply NoDup_remove_1 in Hnd; rewrite app_nil_r in Hnd; exact Hnd).
    assert (Hqn : q < n) by (apply Hlt, in_or_app; right; left; reflexivity).
    assert (Hlt' : forall x, In x (keys l) -> x < n) by (intros x Hx; apply Hlt, in_or_app; left; exact Hx).
    unfold lsemL. rewrite map_app, csem_app'. cbn [map]. change (csem [psem (q, p)]) with (lsem (psem (q, p))). fold (lsemL l).
    rewrite P_act, !(IH Hnd' Hlt').
    assert (HS : NoDup (seq 0 n)) by apply seq_NoDup.
    assert (Hin : In q (seq 0 n)) by (apply in_seq; lia).
    rewrite !(cprod_split _ (seq 0 n) q HS Hin). rewrite !bset_eq, (plookup_notin q l Hq).
    rewrite plookup_app_last by exact Hq. rewrite Nat.eqb_refl, (plookup_notin q l Hq).
    set (R := remove Nat.eq_dec q (seq 0 n)).
    assert (E : forall v, cprod (fun q0 => sigC (plookup q0 l) (bset b q v q0) (bitN j q0)) R
                        = cprod (fun q0 => sigC (plookup q0 (l ++ [(q, p)])) (b q0) (bitN j q0)) R).
    { intros v. apply cprod_ext_in. intros q0 H0. apply in_remove in H0 as [_ Hne].
      rewrite bset_neq by congruence. rewrite plookup_app_last by exact Hq.
      destruct (Nat.eqb_spec q0 q); [contradiction|reflexivity]. }
    rewrite !E. cbn [sigC]. destruct (b q), (bitN j q), p; cbn [xorb Bool.eqb]; ring.
Qed.

(* ------------------------------------------------------------------ the export, over any coefficient ring with an image in C *)
Section Export.
Variable K : Type.
Variables (k0 k1 ki : K) (kopp : K -> K) (kadd kmul : K -> K -> K).
Variable phi : K -> C.
Hypothesis phi_0 : phi k0 = C0.
Hypothesis phi_1 : phi k1 = C1.
Hypothesis phi_i : phi ki = Ci.
Hypothesis phi_opp : forall x, phi (kopp x) = - phi x.
Hypothesis phi_add : forall x y, phi (kadd x y) = phi x + phi y.
Hypothesis phi_mul : forall x y, phi (kmul x y) = phi x * phi y.

(* _pauli_map / sparse.identity(2) *)
Definition sigK (p : option pauli) (x y : bool) : K :=
  match p with
  | None => if Bool.eqb x y then k1 else k0
  | Some PX => if xorb x y then k1 else k0
  | Some PY => if x then (if y then k0 else ki) else (if y then kopp ki else k0)
  | Some PZ => if Bool.eqb x y then (if x then kopp k1 else k1) else k0
  end.
Lemma phi_sig p x y : phi (sigK p x y) = sigC p x y.
Proof. destruct p as [[| |]|], x, y; cbn; rewrite ?phi_opp, ?phi_0, ?phi_1, ?phi_i; reflexivity. Qed.

(* single_pauli_list: position k holds the matrix of qubit n - k - 1 *)
Definition plist (n : nat) (l : label) : list (option pauli) := map (fun k => plookup (n - k - 1) l) (seq 0 n).
(* scipy.sparse.kron(A, B)[i, j] = A[i // 2, j // 2] * B[i % 2, j % 2] for a 2 x 2 matrix B *)
Definition kron2 (A : N -> N -> K) (p : option pauli) : N -> N -> K :=
  fun i j => kmul (A (N.div2 i) (N.div2 j)) (sigK p (N.odd i) (N.odd j)).
(* reduce(lambda o1, o2: kron(o1, o2), single_pauli_list); the empty list (n = 0) makes reduce raise *)
Definition export_label (n : nat) (l : label) : option (N -> N -> K) :=
  match plist n l with
  | [] => None
  | p0 :: ps => Some (fold_left kron2 ps (fun i j => sigK p0 (N.odd i) (N.odd j)))
  end.

(* product of the entries selected by the bits of i and j, least significant qubit first *)
Fixpoint E (rl : list (option pauli)) (i j : N) : C :=
  match rl with
  | [] => C1
  | p :: rl' => sigC p (N.odd i) (N.odd j) * E rl' (N.div2 i) (N.div2 j)
  end.

Fixpoint EA (rl : list (option pauli)) (A : N -> N -> K) (i j : N) : C :=
  match rl with
  | [] => phi (A i j)
  | p :: rl' => sigC p (N.odd i) (N.odd j) * EA rl' A (N.div2 i) (N.div2 j)
  end.

Lemma fold_kron rl : forall A i j, phi (fold_left kron2 (rev rl) A i j) = EA rl A i j.
Proof.
  induction rl as [|p rl IH]; intros A i j; cbn [rev fold_left EA]; [reflexivity|].
  rewrite fold_left_app. cbn [fold_left]. unfold kron2 at 1. rewrite phi_mul, phi_sig, IH. ring.
Qed.

Lemma EA_base rl p0 : forall i j, EA rl (fun i j => sigK p0 (N.odd i) (N.odd j)) i j = E (rl ++ [p0]) i j.
Proof.
  induction rl as [|p rl IH]; intros i j; cbn [EA app E].
  - rewrite phi_sig. ring.
  - rewrite IH. reflexivity.
Qed.

Lemma div2_bit i t : bitN (N.div2 i) t = bitN i (S t).
Proof. unfold bitN. rewrite Nat2N.inj_succ. symmetry. apply N.testbit_succ_r_div2. lia. Qed.

Lemma E_map_seq (f : nat -> option pauli) : forall m a i j,
  E (map f (seq a m)) i j = cprod (fun q => sigC (f q) (bitN i (q - a)) (bitN j (q - a))) (seq a m).
Proof.
  induction m as [|m IH]; intros a i j; cbn [seq map E cprod fold_right]; [reflexivity|].
  fold (cprod (fun q => sigC (f q) (bitN i (q - a)) (bitN j (q - a))) (seq (S a) m)).
  rewrite IH, Nat.sub_diag. f_equal.
  - unfold bitN. cbn [N.of_nat]. rewrite !N.bit0_odd. reflexivity.
  - apply cprod_ext_in. intros q Hq. apply in_seq in Hq. rewrite !div2_bit. replace (S (q - S a))%nat with (q - a)%nat by lia. reflexivity.
Qed.

Lemma rev_plist n l : rev (plist n l) = map (fun q => plookup q l) (seq 0 n).
Proof.
  unfold plist. apply (nth_ext _ _ None None); [rewrite rev_length, !map_length; reflexivity|].
  intros q Hq. rewrite rev_length, map_length, seq_length in Hq.
  rewrite rev_nth by (rewrite map_length, seq_length; exact Hq). rewrite map_length, seq_length.
  rewrite (nth_indep _ None (plookup (n - 0 - 1) l)) by (rewrite map_length, seq_length; lia).
  rewrite (map_nth (fun k => plookup (n - k - 1) l) (seq 0 n) 0%nat), seq_nth by lia.
  rewrite (nth_indep _ None (plookup 0 l)) by (rewrite map_length, seq_length; lia).
  rewrite (map_nth (fun k => plookup k l) (seq 0 n) 0%nat), seq_nth by lia.
  f_equal. lia.
Qed.

(* entry (i, j) of the exported matrix of a label = its matrix element between the basis states i and j *)
Theorem export_label_is_matrix_element n l : (1 <= n)%nat -> NoDup (keys l) -> (forall q, In q (keys l) -> (q < n)%nat) ->
  exists A, export_label n l = Some A /\ forall i j, phi (A i j) = lsemL l (ket n j) (fun q => bitN i q).
Proof.
  intros Hn Hnd Hlt. unfold export_label.
  destruct (plist n l) as [|p0 ps] eqn:Epl.
  { exfalso. apply (f_equal (@length _)) in Epl. unfold plist in Epl. rewrite map_length, seq_length in Epl. cbn in Epl. lia. }
  eexists; split; [reflexivity|]. intros i j.
  rewrite <- (rev_involutive ps), fold_kron, EA_base.
  replace (rev ps ++ [p0]) with (rev (plist n l)) by (rewrite Epl; reflexivity).
  rewrite rev_plist, E_map_seq, (label_matrix_element n j l Hnd Hlt).
  apply cprod_ext_in. intros q _. rewrite Nat.sub_0_r. reflexivity.
Qed.

(* Operator: sum([coeff * matrix(label) for label, coeff in operator.items()]) *)
Definition export_op (n : nat) (o : op K) : option (N -> N -> K) :=
  fold_right (fun lc acc => match export_label n (fst lc), acc with
                            | Some A, Some B => Some (fun i j => kadd (kmul (snd lc) (A i j)) (B i j))
                            | _, _ => None end) (Some (fun _ _ => k0)) o.

Theorem export_operator_is_matrix_element n (o : op K) : (1 <= n)%nat -> wf_op K o ->
  Forall (fun lc => forall q, In q (keys (fst lc)) -> (q < n)%nat) o ->
  exists A, export_op n o = Some A /\ forall i j, phi (A i j) = osem K phi o (ket n j) (fun q => bitN i q).
Proof.
  intros Hn Hwf Hlt. induction o as [|[l c] o IH].
  - eexists; split; [reflexivity|]. intros i j. cbn. apply phi_0.
  - inversion Hwf as [|? ? Hl Hwf']; subst. inversion Hlt as [|? ? Hq Hlt']; subst.
    destruct (IH Hwf' Hlt') as [B [EB HB]]. cbn [fst] in Hl, Hq.
    destruct (export_label_is_matrix_element n l Hn Hl Hq) as [A [EA' HA]].
    cbn [export_op fold_right fst snd]. fold (export_op n o). rewrite EA', EB.
    eexists; split; [reflexivity|]. intros i j. cbn beta. rewrite phi_add, phi_mul, HA, HB. reflexivity.
Qed.
End Export.
