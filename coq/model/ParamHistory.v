(* Histories over several live linear-mapped circuits (model/Parametric.v): world state, operations,
   the invariant, and the refinement theorem for every history. *)
From Coq Require Import List Arith Bool Lia.
From QPM Require Import Parametric.
Import ListNotations.

Section Hist.
Variable G : Type.
Variable K : Type.
Notation lmc := (lmc G K).
Notation sc := (sc G K).
Notation afun := (afun K).
Notation rgate := (rgate G K).

(* the parametric transpilers, as functions on abstract gate lists (indexed by a number); they never
   invent parameters *)
Variable tr : nat -> list rgate -> list rgate.
Hypothesis tr_closed : forall t ps items, closed G K ps items -> closed G K ps (tr t items).

Record world := mkW { wnext : pid; wcs : list lmc }.
Record sworld := mkSW { swnext : pid; swcs : list sc }.

Inductive op :=
| ONew (n : nat)                                            (* LinearMappedParametricQuantumCircuit(n) *)
| OAddParams (i k : nat)                                    (* add_parameters: k new parameters *)
| OAddFixed (i : nat) (g : G)                               (* add_gate *)
| OAddPG (i : nat) (k : pkind) (qs : list nat) (f : afun)   (* add_Parametric*_gate(.., angle) *)
| OAddUnboundPG (i : nat) (k : pkind) (qs : list nat)       (* parametric gate of an unbound circuit *)
| OExtend (i j : nat)                                       (* c_i.extend(c_j), c_i += c_j *)
| OCombine (i j : nat)                                      (* c_i + c_j, c_i.combine(c_j): a new circuit *)
| OCopy (i : nat)                                           (* get_mutable_copy / freeze *)
| OTranspile (i t : nat).                                   (* parametric transpiler t applied to c_i: a new circuit *)

Fixpoint upd {A} (i : nat) (x : A) (l : list A) : list A :=
  match l, i with
  | [], _ => []
  | _ :: l', 0 => x :: l'
  | y :: l', S i' => y :: upd i' x l'
  end.

Lemma upd_In {A} i (x : A) l y : In y (upd i x l) -> y = x \/ In y l.
Proof. revert i. induction l as [|z l IH]; intros [|i]; simpl; try tauto.
  - intros [<-|H]; auto.
  - intros [<-|H]; auto. destruct (IH i H); auto. Qed.
Lemma map_upd {A B} (f : A -> B) i x l : map f (upd i x l) = upd i (f x) (map f l).
Proof. revert i. induction l as [|z l IH]; intros [|i]; simpl; try reflexivity. rewrite IH. reflexivity. Qed.
Lemma map_nth_error' {A B} (f : A -> B) i l : nth_error (map f l) i = option_map f (nth_error l i).
Proof. revert i. induction l as [|z l IH]; intros [|i]; simpl; auto. Qed.

Definition combine_c (c d : lmc) : option lmc :=
  match extend_c G K (empty_c G K (nq G K c)) c with
  | Some e => extend_c G K e d
  | None => None
  end.
Definition s_combine (c d : sc) : option sc :=
  match s_extend G K (s_empty G K (snq G K c)) c with
  | Some e => s_extend G K e d
  | None => None
  end.

Definition step (w : world) (o : op) : world :=
  match o with
  | ONew n => mkW (wnext w) (wcs w ++ [empty_c G K n])
  | OAddParams i k =>
      match nth_error (wcs w) i with
      | Some c => mkW (wnext w + k) (upd i (add_params G K c (seq (wnext w) k)) (wcs w))
      | None => w
      end
  | OAddFixed i g =>
      match nth_error (wcs w) i with
      | Some c => mkW (wnext w) (upd i (add_fixed G K c g) (wcs w))
      | None => w
      end
  | OAddPG i k qs f =>
      match nth_error (wcs w) i with
      | Some c => match add_pg G K c k qs f (wnext w) with
                  | Some c' => mkW (S (wnext w)) (upd i c' (wcs w))
                  | None => w
                  end
      | None => w
      end
  | OAddUnboundPG i k qs =>
      match nth_error (wcs w) i with
      | Some c => mkW (S (wnext w)) (upd i (add_unbound_pg G K c k qs (wnext w)) (wcs w))
      | None => w
      end
  | OExtend i j =>
      match nth_error (wcs w) i, nth_error (wcs w) j with
      | Some c, Some d => match extend_c G K c d with
                          | Some c' => mkW (wnext w) (upd i c' (wcs w))
                          | None => w
                          end
      | _, _ => w
      end
  | OCombine i j =>
      match nth_error (wcs w) i, nth_error (wcs w) j with
      | Some c, Some d => match combine_c c d with
                          | Some c' => mkW (wnext w) (wcs w ++ [c'])
                          | None => w
                          end
      | _, _ => w
      end
  | OCopy i =>
      match nth_error (wcs w) i with
      | Some c => mkW (wnext w) (wcs w ++ [c])
      | None => w
      end
  | OTranspile i t =>
      match nth_error (wcs w) i with
      | Some c => match build G K (mkLM G K (nq G K c) (ins G K c) [] [] []) (tr t (sgates G K (abs G K c))) (wnext w) with
                  | Some (c', n') => mkW n' (wcs w ++ [c'])
                  | None => w
                  end
      | None => w
      end
  end.

Definition sstep (w : sworld) (o : op) : sworld :=
  match o with
  | ONew n => mkSW (swnext w) (swcs w ++ [s_empty G K n])
  | OAddParams i k =>
      match nth_error (swcs w) i with
      | Some c => mkSW (swnext w + k) (upd i (s_add_params G K c (seq (swnext w) k)) (swcs w))
      | None => w
      end
  | OAddFixed i g =>
      match nth_error (swcs w) i with
      | Some c => mkSW (swnext w) (upd i (s_add_fixed G K c g) (swcs w))
      | None => w
      end
  | OAddPG i k qs f =>
      match nth_error (swcs w) i with
      | Some c => match s_add_pg G K c k qs f with
                  | Some c' => mkSW (S (swnext w)) (upd i c' (swcs w))
                  | None => w
                  end
      | None => w
      end
  | OAddUnboundPG i k qs =>
      match nth_error (swcs w) i with
      | Some c => mkSW (S (swnext w)) (upd i (s_add_unbound_pg G K c k qs (swnext w)) (swcs w))
      | None => w
      end
  | OExtend i j =>
      match nth_error (swcs w) i, nth_error (swcs w) j with
      | Some c, Some d => match s_extend G K c d with
                          | Some c' => mkSW (swnext w) (upd i c' (swcs w))
                          | None => w
                          end
      | _, _ => w
      end
  | OCombine i j =>
      match nth_error (swcs w) i, nth_error (swcs w) j with
      | Some c, Some d => match s_combine c d with
                          | Some c' => mkSW (swnext w) (swcs w ++ [c'])
                          | None => w
                          end
      | _, _ => w
      end
  | OCopy i =>
      match nth_error (swcs w) i with
      | Some c => mkSW (swnext w) (swcs w ++ [c])
      | None => w
      end
  | OTranspile i t =>
      match nth_error (swcs w) i with
      | Some c => mkSW (swnext w + count_rots G K (tr t (sgates G K c)))
                       (swcs w ++ [mkS G K (snq G K c) (sins G K c) (tr t (sgates G K c))])
      | None => w
      end
  end.

Definition abs_w (w : world) : sworld := mkSW (wnext w) (map (abs G K) (wcs w)).

Definition winv (w : world) : Prop :=
  (forall c, In c (wcs w) -> cinv G K c /\ below G K (wnext w) c)
  /\ (forall c d, In c (wcs w) -> In d (wcs w) -> consistent G K c d).

Lemma NoDup_app_intro' {A} (l1 l2 : list A) :
  NoDup l1 -> NoDup l2 -> (forall x, In x l1 -> In x l2 -> False) -> NoDup (l1 ++ l2).
Proof.
  induction l1 as [|a l1 IH]; intros H1 H2 Hd; simpl; [exact H2|].
  inversion H1 as [|? ? Ha H1']; subst. constructor.
  - intros Hin. apply in_app_or in Hin. destruct Hin as [Hin|Hin]; [contradiction|]. apply (Hd a); simpl; auto.
  - apply IH; auto. intros x Hx1 Hx2. apply (Hd x); simpl; auto.
Qed.

(* ---- preservation lemmas for one circuit *)
Lemma below_mono n m c : n <= m -> below G K n c -> below G K m c.
Proof. intros H [A B]. split; intros p Hp; [apply A in Hp|apply B in Hp]; lia. Qed.

Lemma cinv_empty n : cinv G K (empty_c G K n).
Proof. split; [intros o []|]. split; [constructor|intros o f []]. Qed.
Lemma below_empty m n : below G K m (empty_c G K n).
Proof. split; intros p []. Qed.

Lemma cinv_add_params c n k : cinv G K c -> below G K n c -> cinv G K (add_params G K c (seq n k)).
Proof.
  intros [A [B C]] [Hlt _]. split; [exact A|]. split.
  - simpl. apply NoDup_app_intro'; auto using seq_NoDup.
    intros p Hp Hq. apply in_seq in Hq. apply Hlt in Hp. lia.
  - intros o f Hof p Hp. simpl. apply in_or_app. left. exact (C o f Hof p Hp).
Qed.

Lemma below_add_params c n k : below G K n c -> below G K (n + k) (add_params G K c (seq n k)).
Proof.
  intros [A B]. split; simpl.
  - intros p Hp. apply in_app_or in Hp. destruct Hp as [Hp|Hp]; [apply A in Hp; lia|apply in_seq in Hp; lia].
  - intros o Ho. apply B in Ho. lia.
Qed.

Lemma cinv_add_fixed c g : cinv G K c -> cinv G K (add_fixed G K c g).
Proof.
  intros [A BC]. split; [|exact BC]. intros o Ho. simpl in Ho. rewrite body_outs_app in Ho.
  apply in_app_or in Ho. destruct Ho as [Ho|Ho]; [apply A; exact Ho|simpl in Ho; contradiction].
Qed.

Lemma add_pg_shape c k qs f out c' : add_pg G K c k qs f out = Some c' ->
  c' = mkLM G K (nq G K c) (ins G K c) (outs G K c ++ [out]) ((out, f) :: pmap G K c) (body G K c ++ [PG G k qs out])
  /\ (forall p, In p (fparams K f) -> In p (ins G K c)).
Proof.
  unfold add_pg. destruct (forallb _ (fparams K f)) eqn:E; [|discriminate]. intros [= <-]. split; [reflexivity|].
  intros p Hp. rewrite forallb_forall in E. apply memb_In. apply E. exact Hp.
Qed.

Lemma cinv_add_pg c k qs f out c' : cinv G K c -> add_pg G K c k qs f out = Some c' -> cinv G K c'.
Proof.
  intros [A [B C]] H. destruct (add_pg_shape _ _ _ _ _ _ H) as [-> Hf]. split; [|split; [exact B|]]; simpl.
  - intros o Ho. rewrite body_outs_app in Ho. apply in_app_or in Ho.
    destruct (Nat.eqb_spec o out) as [->|Hne]; [exists f; reflexivity|].
    destruct Ho as [Ho|Ho]; [apply A; exact Ho|]. simpl in Ho. destruct Ho as [E|[]]. congruence.
  - intros o f' [E|Hin] p Hp; [injection E as <- <-; apply Hf; exact Hp|exact (C o f' Hin p Hp)].
Qed.
Lemma below_add_pg c k qs f n c' : below G K n c -> add_pg G K c k qs f n = Some c' -> below G K (S n) c'.
Proof.
  intros [A B] H. destruct (add_pg_shape _ _ _ _ _ _ H) as [-> _]. split; simpl.
  - intros p Hp. apply A in Hp. lia.
  - intros o [<-|Ho]; [lia|apply B in Ho; lia].
Qed.

Lemma cinv_add_unbound_pg c k qs n : cinv G K c -> below G K n c -> cinv G K (add_unbound_pg G K c k qs n).
Proof.
  intros [A [B C]] [Hlt _]. split; [|split]; simpl.
  - intros o Ho. rewrite body_outs_app in Ho. apply in_app_or in Ho.
    destruct (Nat.eqb_spec o n) as [->|Hne]; [exists (Alias K n); reflexivity|].
    destruct Ho as [Ho|Ho]; [apply A; exact Ho|]. simpl in Ho. destruct Ho as [E|[]]. congruence.
  - apply NoDup_app_intro'; auto; [constructor; [intros []|constructor]|].
    intros p Hp [<-|[]]. apply Hlt in Hp. lia.
  - intros o f' [E|Hin] p Hp.
    + injection E as <- <-. simpl in Hp. destruct Hp as [<-|[]]. apply in_or_app. right. left. reflexivity.
    + apply in_or_app. left. exact (C o f' Hin p Hp).
Qed.
Lemma below_add_unbound_pg c k qs n : below G K n c -> below G K (S n) (add_unbound_pg G K c k qs n).
Proof.
  intros [A B]. split; simpl.
  - intros p Hp. apply in_app_or in Hp. destruct Hp as [Hp|[<-|[]]]; [apply A in Hp; lia|lia].
  - intros o [<-|Ho]; [lia|apply B in Ho; lia].
Qed.

Lemma extend_shape c d c' : extend_c G K c d = Some c' ->
  c' = mkLM G K (nq G K c) (dedup (ins G K c ++ ins G K d)) (outs G K c ++ outs G K d)
            (pmap G K d ++ pmap G K c) (body G K c ++ body G K d).
Proof. unfold extend_c. destruct (Nat.eqb _ _); [|discriminate]. intros [= <-]. reflexivity. Qed.

Lemma cinv_extend c d c' : cinv G K c -> cinv G K d -> extend_c G K c d = Some c' -> cinv G K c'.
Proof.
  intros [Ac [Bc Cc]] [Ad [Bd Cd]] H. rewrite (extend_shape _ _ _ H). split; [|split]; simpl.
  - intros o Ho. rewrite body_outs_app in Ho. rewrite lookup_app. apply in_app_or in Ho.
    destruct (lookup K o (pmap G K d)) as [f|] eqn:E; [exists f; reflexivity|].
    destruct Ho as [Ho|Ho]; [apply Ac; exact Ho|]. destruct (Ad o Ho) as [f Hf]. congruence.
  - apply (dedup_NoDup).
  - intros o f Hin p Hp. apply dedup_In. apply in_or_app. apply in_app_or in Hin.
    destruct Hin as [Hin|Hin]; [right; exact (Cd o f Hin p Hp)|left; exact (Cc o f Hin p Hp)].
Qed.
Lemma below_extend n c d c' : below G K n c -> below G K n d -> extend_c G K c d = Some c' -> below G K n c'.
Proof.
  intros [Ac Bc] [Ad Bd] H. rewrite (extend_shape _ _ _ H). split; simpl.
  - intros p Hp. apply (proj1 (dedup_In _ _)) in Hp. apply in_app_or in Hp. destruct Hp; auto.
  - intros o Ho. unfold keys in Ho. rewrite map_app in Ho. apply in_app_or in Ho. destruct Ho; auto.
Qed.
Lemma extend_entries c d c' o f : extend_c G K c d = Some c' -> In (o, f) (pmap G K c') ->
  In (o, f) (pmap G K c) \/ In (o, f) (pmap G K d).
Proof. intros H. rewrite (extend_shape _ _ _ H). simpl. intros Hin. apply in_app_or in Hin. tauto. Qed.

(* consistency is about entries only *)
Lemma consistent_entries c e :
  (forall o f, In (o, f) (pmap G K c) -> exists c0, (forall f', In (o, f') (pmap G K e) -> f = f') /\ c0 = c) ->
  consistent G K c e.
Proof. intros H o f f' Hc He. destruct (H o f Hc) as [_ [Hx _]]. apply Hx. exact He. Qed.
Lemma consistent_sym c d : consistent G K c d -> consistent G K d c.
Proof. intros H o f f' Hd Hc. symmetry. exact (H o f' f Hc Hd). Qed.


(* every entry of a circuit of the next world is an entry of some circuit of this world, or the one
   fresh entry (wnext w, F) *)
Definition src (w : world) (F : list (pid * afun)) (c : lmc) : Prop :=
  forall o f, In (o, f) (pmap G K c) ->
  (exists e, In e (wcs w) /\ In (o, f) (pmap G K e)) \/ (wnext w <= o /\ In (o, f) F).

Lemma src_old w F c : In c (wcs w) -> src w F c.
Proof. intros H o f Hin. left. exists c. auto. Qed.

Lemma consistent_src w F a b : winv w -> functional K F -> src w F a -> src w F b -> consistent G K a b.
Proof.
  intros [Hc Hcons] HF Ha Hb o f f' Hf Hf'.
  destruct (Ha o f Hf) as [[e [He Hin]]|Ef]; destruct (Hb o f' Hf') as [[e' [He' Hin']]|Ef'].
  - exact (Hcons e e' He He' o f f' Hin Hin').
  - exfalso. destruct (Hc e He) as [_ [_ Hk]]. specialize (Hk o (in_keys K o f _ Hin)). destruct Ef'. lia.
  - exfalso. destruct (Hc e' He') as [_ [_ Hk]]. specialize (Hk o (in_keys K o f' _ Hin')). destruct Ef. lia.
  - exact (HF o f f' (proj2 Ef) (proj2 Ef')).
Qed.

Lemma functional_single o (f : afun) : functional K [(o, f)].
Proof. intros o' f1 f2 [E1|[]] [E2|[]]. congruence. Qed.
Lemma functional_nil : functional K [].
Proof. intros o' f1 f2 []. Qed.

Lemma winv_build w n' F cs' : winv w -> functional K F -> wnext w <= n' ->
  (forall c, In c cs' -> cinv G K c /\ below G K n' c /\ src w F c) -> winv (mkW n' cs').
Proof.
  intros Hw HF Hle H. split; simpl.
  - intros c Hc. destruct (H c Hc) as [A [B _]]. auto.
  - intros c d Hc Hd. destruct (H c Hc) as [_ [_ Sc]]. destruct (H d Hd) as [_ [_ Sd]].
    exact (consistent_src w F c d Hw HF Sc Sd).
Qed.

Lemma old_ok w n' F c : winv w -> wnext w <= n' -> In c (wcs w) -> cinv G K c /\ below G K n' c /\ src w F c.
Proof.
  intros [Hc _] Hle Hin. destruct (Hc c Hin) as [A B]. split; [exact A|]. split; [exact (below_mono _ _ _ Hle B)|].
  apply src_old. exact Hin.
Qed.

Lemma fresh_key w c : winv w -> In c (wcs w) -> ~ In (wnext w) (keys K (pmap G K c)).
Proof. intros [Hc _] Hin Hk. destruct (Hc c Hin) as [_ [_ B]]. specialize (B _ Hk). lia. Qed.

Lemma combine_props w c d c' : winv w -> In c (wcs w) -> In d (wcs w) -> combine_c c d = Some c' ->
  s_combine (abs G K c) (abs G K d) = Some (abs G K c') /\
  cinv G K c' /\ below G K (wnext w) c' /\ (forall F, src w F c').
Proof.
  intros Hw Hc Hd. unfold combine_c, s_combine.
  destruct (extend_c G K (empty_c G K (nq G K c)) c) as [e|] eqn:Ee; [|discriminate]. intros Hd'.
  destruct Hw as [Hci Hcons]. destruct (Hci c Hc) as [Ic Bc]. destruct (Hci d Hd) as [Id Bd].
  assert (Ie : cinv G K e) by (eapply cinv_extend; [apply cinv_empty|exact Ic|exact Ee]).
  assert (Be : below G K (wnext w) e) by (eapply below_extend; [apply below_empty|exact Bc|exact Ee]).
  assert (Se : forall o f, In (o, f) (pmap G K e) -> In (o, f) (pmap G K c)).
  { intros o f Hin. destruct (extend_entries _ _ _ _ _ Ee Hin) as [[]|H]; exact H. }
  assert (Ced : consistent G K e d).
  { intros o f f' Hf Hf'. exact (Hcons c d Hc Hd o f f' (Se o f Hf) Hf'). }
  split; [|split; [|split]].
  - change (snq G K (abs G K c)) with (nq G K c).
    change (s_empty G K (nq G K c)) with (abs G K (empty_c G K (nq G K c))).
    rewrite (abs_extend G K _ _ e (cinv_empty _) Ic); [|intros o f f' []|exact Ee].
    apply (abs_extend G K e d c' Ie Id Ced Hd').
  - exact (cinv_extend _ _ _ Ie Id Hd').
  - exact (below_extend _ _ _ _ Be Bd Hd').
  - intros F o f Hin. left. destruct (extend_entries _ _ _ _ _ Hd' Hin) as [H|H].
    + exists c. split; [exact Hc|exact (Se o f H)].
    + exists d. auto.
Qed.

Lemma in_app_single {A} (l : list A) x y : In y (l ++ [x]) -> In y l \/ y = x.
Proof. intros H. apply in_app_or in H. destruct H as [H|[H|[]]]; auto. Qed.

Theorem step_refines w o : winv w -> abs_w (step w o) = sstep (abs_w w) o /\ winv (step w o).
Proof.
  intros Hw. pose proof Hw as [Hci Hcons].
  destruct o as [n|i k|i g|i k qs f|i k qs|i j|i j|i|i t]; unfold step, sstep, abs_w; cbn [swnext swcs wnext wcs].
  - (* ONew *) split; [rewrite map_app; reflexivity|].
    apply (winv_build w _ []); [exact Hw|apply functional_nil|lia|]. intros c Hc. apply in_app_single in Hc.
    destruct Hc as [Hc| ->]; [apply old_ok; auto|]. split; [apply cinv_empty|]. split; [apply below_empty|intros o f []].
  - (* OAddParams *) rewrite map_nth_error'. destruct (nth_error (wcs w) i) as [c|] eqn:En; cbn [option_map]; [|auto].
    pose proof (nth_error_In _ _ En) as Hin. destruct (Hci c Hin) as [Ic Bc].
    split; [cbn [swnext swcs wnext wcs]; rewrite map_upd; reflexivity|].
    apply (winv_build w _ []); [exact Hw|apply functional_nil|lia|]. intros c0 Hc0. apply upd_In in Hc0.
    destruct Hc0 as [->|Hc0]; [|apply old_ok; auto; lia].
    split; [apply cinv_add_params; auto|]. split; [apply below_add_params; auto|].
    intros o f Hof. left. exists c. auto.
  - (* OAddFixed *) rewrite map_nth_error'. destruct (nth_error (wcs w) i) as [c|] eqn:En; cbn [option_map]; [|auto].
    pose proof (nth_error_In _ _ En) as Hin. destruct (Hci c Hin) as [Ic Bc].
    split; [cbn [swnext swcs wnext wcs]; rewrite map_upd, abs_add_fixed; reflexivity|].
    apply (winv_build w _ []); [exact Hw|apply functional_nil|lia|]. intros c0 Hc0. apply upd_In in Hc0.
    destruct Hc0 as [->|Hc0]; [|apply old_ok; auto].
    split; [apply cinv_add_fixed; auto|]. split; [exact Bc|]. intros o f Hof. left. exists c. auto.
  - (* OAddPG *) rewrite map_nth_error'. destruct (nth_error (wcs w) i) as [c|] eqn:En; cbn [option_map]; [|auto].
    pose proof (nth_error_In _ _ En) as Hin. destruct (Hci c Hin) as [Ic Bc].
    destruct (add_pg G K c k qs f (wnext w)) as [c'|] eqn:Ea.
    + rewrite (abs_add_pg G K c k qs f (wnext w) c' (fresh_key w c Hw Hin) Ic Ea).
      split; [cbn [swnext swcs wnext wcs]; rewrite map_upd; reflexivity|].
      apply (winv_build w _ [(wnext w, f)]); [exact Hw|apply functional_single|lia|]. intros c0 Hc0. apply upd_In in Hc0.
      destruct Hc0 as [->|Hc0]; [|apply old_ok; auto].
      split; [exact (cinv_add_pg _ _ _ _ _ _ Ic Ea)|]. split; [exact (below_add_pg _ _ _ _ _ _ Bc Ea)|].
      destruct (add_pg_shape _ _ _ _ _ _ Ea) as [-> _]. intros o f0 [E|Hof]; [right; injection E as <- <-; split; [lia|left; reflexivity]|].
      left. exists c. auto.
    + rewrite (add_pg_none G K c k qs f (wnext w) Ea). auto.
  - (* OAddUnboundPG *) rewrite map_nth_error'. destruct (nth_error (wcs w) i) as [c|] eqn:En; cbn [option_map]; [|auto].
    pose proof (nth_error_In _ _ En) as Hin. destruct (Hci c Hin) as [Ic Bc].
    split; [cbn [swnext swcs wnext wcs]; rewrite map_upd, (abs_add_unbound_pg G K c k qs _ (fresh_key w c Hw Hin) Ic); reflexivity|].
    apply (winv_build w _ [(wnext w, Alias K (wnext w))]); [exact Hw|apply functional_single|lia|]. intros c0 Hc0. apply upd_In in Hc0.
    destruct Hc0 as [->|Hc0]; [|apply old_ok; auto].
    split; [apply cinv_add_unbound_pg; auto|]. split; [apply below_add_unbound_pg; auto|].
    intros o f0 [E|Hof]; [right; injection E as <- <-; split; [lia|left; reflexivity]|]. left. exists c. auto.
  - (* OExtend *) rewrite !map_nth_error'.
    destruct (nth_error (wcs w) i) as [c|] eqn:En; cbn [option_map]; [|auto].
    destruct (nth_error (wcs w) j) as [d|] eqn:Em; cbn [option_map]; [|auto].
    pose proof (nth_error_In _ _ En) as Hin. pose proof (nth_error_In _ _ Em) as Hjn.
    destruct (Hci c Hin) as [Ic Bc]. destruct (Hci d Hjn) as [Id Bd].
    destruct (extend_c G K c d) as [c'|] eqn:Ee.
    + rewrite (abs_extend G K c d c' Ic Id (Hcons c d Hin Hjn) Ee).
      split; [cbn [swnext swcs wnext wcs]; rewrite map_upd; reflexivity|].
      apply (winv_build w _ []); [exact Hw|apply functional_nil|lia|]. intros c0 Hc0. apply upd_In in Hc0.
      destruct Hc0 as [->|Hc0]; [|apply old_ok; auto].
      split; [exact (cinv_extend _ _ _ Ic Id Ee)|]. split; [exact (below_extend _ _ _ _ Bc Bd Ee)|].
      intros o f Hof. left. destruct (extend_entries _ _ _ _ _ Ee Hof); [exists c|exists d]; auto.
    + rewrite (extend_none G K c d Ee). auto.
  - (* OCombine *) rewrite !map_nth_error'.
    destruct (nth_error (wcs w) i) as [c|] eqn:En; cbn [option_map]; [|auto].
    destruct (nth_error (wcs w) j) as [d|] eqn:Em; cbn [option_map]; [|auto].
    pose proof (nth_error_In _ _ En) as Hin. pose proof (nth_error_In _ _ Em) as Hjn.
    destruct (combine_c c d) as [c'|] eqn:Ec.
    + destruct (combine_props w c d c' Hw Hin Hjn Ec) as [Hs [Ic' [Bc' Sc']]]. rewrite Hs.
      split; [cbn [swnext swcs wnext wcs]; rewrite map_app; reflexivity|].
      apply (winv_build w _ []); [exact Hw|apply functional_nil|lia|]. intros c0 Hc0. apply in_app_single in Hc0.
      destruct Hc0 as [Hc0| ->]; [apply old_ok; auto|]. auto.
    + assert (Hn : s_combine (abs G K c) (abs G K d) = None).
      { unfold combine_c in Ec. unfold s_combine.
        change (snq G K (abs G K c)) with (nq G K c).
        change (s_empty G K (nq G K c)) with (abs G K (empty_c G K (nq G K c))).
        destruct (extend_c G K (empty_c G K (nq G K c)) c) as [e|] eqn:Ee.
        - destruct (Hci c Hin) as [Ic Bc].
          rewrite (abs_extend G K _ _ e (cinv_empty _) Ic); [|intros o f f' []|exact Ee]. apply extend_none. exact Ec.
        - rewrite (extend_none G K _ _ Ee). reflexivity. }
      rewrite Hn. auto.
  - (* OCopy *) rewrite map_nth_error'. destruct (nth_error (wcs w) i) as [c|] eqn:En; cbn [option_map]; [|auto].
    pose proof (nth_error_In _ _ En) as Hin.
    split; [cbn [swnext swcs wnext wcs]; rewrite map_app; reflexivity|].
    apply (winv_build w _ []); [exact Hw|apply functional_nil|lia|]. intros c0 Hc0. apply in_app_single in Hc0.
    destruct Hc0 as [Hc0| ->]; apply old_ok; auto.
  - (* OTranspile *) rewrite map_nth_error'. destruct (nth_error (wcs w) i) as [c|] eqn:En; cbn [option_map]; [|auto].
    pose proof (nth_error_In _ _ En) as Hin. destruct (Hci c Hin) as [Ic Bc].
    set (ret0 := mkLM G K (nq G K c) (ins G K c) [] [] []).
    assert (I0 : cinv G K ret0).
    { destruct Ic as [_ [B _]]. split; [intros o []|]. split; [exact B|intros o f []]. }
    destruct (build_ok G K (tr t (sgates G K (abs G K c))) ret0 (wnext w) I0) as [c' [Hb [Ha [Ic' [Hins [He Hfn]]]]]].
    + intros o [].
    + apply tr_closed. exact (abs_closed G K c Ic).
    + apply functional_nil.
    + rewrite Hb. split.
      * cbn [swnext swcs wnext wcs]. rewrite map_app. cbn [map]. rewrite Ha. reflexivity.
      * apply (winv_build w _ (pmap G K c')); [exact Hw|exact Hfn|lia|]. intros c0 Hc0. apply in_app_single in Hc0.
        destruct Hc0 as [Hc0| ->]; [apply old_ok; auto; lia|]. split; [exact Ic'|]. split.
        -- split.
           ++ intros p Hp. rewrite Hins in Hp. destruct Bc as [A _]. apply A in Hp. lia.
           ++ intros o Ho. unfold keys in Ho. apply in_map_iff in Ho. destruct Ho as [[o' f] [E Hof]]. simpl in E. subst o'.
              destruct (He o f Hof) as [[]|H]. lia.
        -- intros o f Hof. right. destruct (He o f Hof) as [[]|H]. split; [lia|exact Hof].
Qed.

Definition w0 : world := mkW 0 [].
Lemma winv_w0 : winv w0.
Proof. split; simpl; [intros c []|intros c d []]. Qed.

(* every history refines the abstract level and keeps the invariant *)
Theorem history_refines ops :
  abs_w (fold_left step ops w0) = fold_left sstep ops (abs_w w0) /\ winv (fold_left step ops w0).
Proof.
  assert (H : forall w, winv w -> abs_w (fold_left step ops w) = fold_left sstep ops (abs_w w) /\ winv (fold_left step ops w)).
  { induction ops as [|o ops IH]; intros w Hw; simpl; [auto|].
    destruct (step_refines w o Hw) as [Ha Hi]. rewrite <- Ha. apply IH. exact Hi. }
  apply H. apply winv_w0.
Qed.
End Hist.
