(* Histories over several live linear-mapped circuits (model/Parametric.v): world state, operations,
   the invariant, and the refinement theorem for every history. *)
From Coq Require Import List Arith Bool Lia.
From QPM Require Import Parametric.
Import ListNotations.

Section Hist.
Set Default Proof Using "Type".
Variable G : Type.
Variable K : Type.
Notation lmc := (lmc G K).
Notation sc := (sc G K).
Notation afun := (afun K).
Notation rgate := (rgate G K).

(* the parametric transpilers, as functions on abstract gate lists (indexed by a number); they never
   invent parameters *)
Variable tr : nat -> list rgate -> list rgate.
Hypothesis tr_closed : forall t ps items, closed G K ps items -> closed G K ps (tr t items).

Record world := mkW { wnext : pid; wcs : list lmc }.
Record sworld := mkSW { swnext : pid; swcs : list sc }.

Inductive op :=
| ONew (n : nat)                                            (* LinearMappedParametricQuantumCircuit(n) *)
| OAddParams (i k : nat)                                    (* add_parameters: k new parameters *)
| OAddFixed (i : nat) (g : G)                               (* add_gate *)
| OAddPG (i : nat) (k : pkind) (qs : list nat) (f : afun)   (* add_Parametric*_gate(.., angle) *)
| OAddUnboundPG (i : nat) (k : pkind) (qs : list nat)       (* parametric gate of an unbound circuit *)
| OExtend (i j : nat)                                       (* c_i.extend(c_j), c_i += c_j *)
| OCombine (i j : nat)                                      (* c_i + c_j, c_i.combine(c_j): a new circuit *)
| OCopy (i : nat)                                           (* get_mutable_copy / freeze *)
| OTranspile (i t : nat).                                   (* parametric transpiler t applied to c_i: a new circuit *)

Fixpoint upd {A} (i : nat) (x : A) (l : list A) : list A :=
  match l, i with
  | [], _ => []
  | _ :: l', 0 => x :: l'
  | y :: l', S i' => y :: upd i' x l'
  end.

Lemma upd_In {A} i (x : A) l y : In y (upd i x l) -> y = x \/ In y l.
Proof. revert i. induction l as [|z l IH]; intros [|i]; simpl; try tauto.
  - intros [<-|H]; auto.
  - intros [<-|H]; auto. destruct (IH i H); auto. Qed.
Lemma map_upd {A B} (f : A -> B) i x l : map f (upd i x l) = upd i (f x) (map f l).
Proof. revert i. induction l as [|z l IH]; intros [|i]; simpl; try reflexivity. rewrite IH. reflexivity. Qed.
Lemma map_nth_error' {A B} (f : A -> B) i l : nth_error (map f l) i = option_map f (nth_error l i).
Proof. revert i. induction l as [|z l IH]; intros [|i]; simpl; auto. Qed.

Definition nrot (c : lmc) : nat := count_rots G K (sgates G K (abs G K c)).
Definition snrot (c : sc) : nat := count_rots G K (sgates G K c).

Definition combine_c (c d : lmc) (next : pid) : option lmc :=
  match extend_c G K (empty_c G K (nq G K c)) c next with
  | Some e => extend_c G K e d (next + nrot c)
  | None => None
  end.
Definition s_combine (c d : sc) : option sc :=
  match s_extend G K (s_empty G K (snq G K c)) c with
  | Some e => s_extend G K e d
  | None => None
  end.

(* the allocation counter is a device of the model (object identity in Python): extend and + always
   advance it by the number of parametric gates they may have to re-create *)
Definition step (w : world) (o : op) : world :=
  match o with
  | ONew n => mkW (wnext w) (wcs w ++ [empty_c G K n])
  | OAddParams i k =>
      match nth_error (wcs w) i with
      | Some c => mkW (wnext w + k) (upd i (add_params G K c (seq (wnext w) k)) (wcs w))
      | None => w
      end
  | OAddFixed i g =>
      match nth_error (wcs w) i with
      | Some c => mkW (wnext w) (upd i (add_fixed G K c g) (wcs w))
      | None => w
      end
  | OAddPG i k qs f =>
      match nth_error (wcs w) i with
      | Some c => match add_pg G K c k qs f (wnext w) with
                  | Some c' => mkW (S (wnext w)) (upd i c' (wcs w))
                  | None => w
                  end
      | None => w
      end
  | OAddUnboundPG i k qs =>
      match nth_error (wcs w) i with
      | Some c => mkW (S (wnext w)) (upd i (add_unbound_pg G K c k qs (wnext w)) (wcs w))
      | None => w
      end
  | OExtend i j =>
      match nth_error (wcs w) i, nth_error (wcs w) j with
      | Some c, Some d => match extend_c G K c d (wnext w) with
                          | Some c' => mkW (wnext w + nrot d) (upd i c' (wcs w))
                          | None => w
                          end
      | _, _ => w
      end
  | OCombine i j =>
      match nth_error (wcs w) i, nth_error (wcs w) j with
      | Some c, Some d => match combine_c c d (wnext w) with
                          | Some c' => mkW (wnext w + nrot c + nrot d) (wcs w ++ [c'])
                          | None => w
                          end
      | _, _ => w
      end
  | OCopy i =>
      match nth_error (wcs w) i with
      | Some c => mkW (wnext w) (wcs w ++ [c])
      | None => w
      end
  | OTranspile i t =>
      match nth_error (wcs w) i with
      | Some c => match build G K (mkLM G K (nq G K c) (ins G K c) [] [] []) (tr t (sgates G K (abs G K c))) (wnext w) with
                  | Some (c', n') => mkW n' (wcs w ++ [c'])
                  | None => w
                  end
      | None => w
      end
  end.

Definition sstep (w : sworld) (o : op) : sworld :=
  match o with
  | ONew n => mkSW (swnext w) (swcs w ++ [s_empty G K n])
  | OAddParams i k =>
      match nth_error (swcs w) i with
      | Some c => mkSW (swnext w + k) (upd i (s_add_params G K c (seq (swnext w) k)) (swcs w))
      | None => w
      end
  | OAddFixed i g =>
      match nth_error (swcs w) i with
      | Some c => mkSW (swnext w) (upd i (s_add_fixed G K c g) (swcs w))
      | None => w
      end
  | OAddPG i k qs f =>
      match nth_error (swcs w) i with
      | Some c => match s_add_pg G K c k qs f with
                  | Some c' => mkSW (S (swnext w)) (upd i c' (swcs w))
                  | None => w
                  end
      | None => w
      end
  | OAddUnboundPG i k qs =>
      match nth_error (swcs w) i with
      | Some c => mkSW (S (swnext w)) (upd i (s_add_unbound_pg G K c k qs (swnext w)) (swcs w))
      | None => w
      end
  | OExtend i j =>
      match nth_error (swcs w) i, nth_error (swcs w) j with
      | Some c, Some d => match s_extend G K c d with
                          | Some c' => mkSW (swnext w + snrot d) (upd i c' (swcs w))
                          | None => w
                          end
      | _, _ => w
      end
  | OCombine i j =>
      match nth_error (swcs w) i, nth_error (swcs w) j with
      | Some c, Some d => match s_combine c d with
                          | Some c' => mkSW (swnext w + snrot c + snrot d) (swcs w ++ [c'])
                          | None => w
                          end
      | _, _ => w
      end
  | OCopy i =>
      match nth_error (swcs w) i with
      | Some c => mkSW (swnext w) (swcs w ++ [c])
      | None => w
      end
  | OTranspile i t =>
      match nth_error (swcs w) i with
      | Some c => mkSW (swnext w + snrot (mkS G K (snq G K c) (sins G K c) (tr t (sgates G K c))))
                       (swcs w ++ [mkS G K (snq G K c) (sins G K c) (tr t (sgates G K c))])
      | None => w
      end
  end.

Definition abs_w (w : world) : sworld := mkSW (wnext w) (map (abs G K) (wcs w)).

(* every live circuit satisfies the circuit invariant (in particular: every parametric gate has its own
   gate parameter) and only mentions identities that have been allocated *)
Definition winv (w : world) : Prop :=
  forall c, In c (wcs w) -> cinv G K c /\ below G K (wnext w) c.

Lemma below_mono n m c : n <= m -> below G K n c -> below G K m c.
Proof. intros H [A B]. split; intros p Hp; [apply A in Hp|apply B in Hp]; lia. Qed.
Lemma below_empty m n : below G K m (empty_c G K n).
Proof. split; intros p []. Qed.

Lemma in_app_single {A} (l : list A) x y : In y (l ++ [x]) -> In y l \/ y = x.
Proof. intros H. apply in_app_or in H. destruct H as [H|[H|[]]]; auto. Qed.

Lemma winv_upd w n' i c' : winv w -> wnext w <= n' -> cinv G K c' -> below G K n' c' ->
  winv (mkW n' (upd i c' (wcs w))).
Proof.
  intros Hw Hle Hc Hb c0 Hc0. simpl in Hc0. apply upd_In in Hc0. destruct Hc0 as [->|Hc0]; [auto|].
  destruct (Hw c0 Hc0) as [A B]. split; [exact A|exact (below_mono _ _ _ Hle B)].
Qed.
Lemma winv_app w n' c' : winv w -> wnext w <= n' -> cinv G K c' -> below G K n' c' ->
  winv (mkW n' (wcs w ++ [c'])).
Proof.
  intros Hw Hle Hc Hb c0 Hc0. simpl in Hc0. apply in_app_single in Hc0. destruct Hc0 as [Hc0| ->]; [|auto].
  destruct (Hw c0 Hc0) as [A B]. split; [exact A|exact (below_mono _ _ _ Hle B)].
Qed.

Lemma below_extend n c d c' : below G K n c -> below G K n d ->
  ins G K c' = dedup (ins G K c ++ ins G K d) ->
  (forall o, In o (outs G K c') -> In o (outs G K c) \/ In o (outs G K d) \/ n <= o < n + nrot d) ->
  below G K (n + nrot d) c'.
Proof.
  intros [Ac Bc] [Ad Bd] Hi Ho. split.
  - intros p Hp. rewrite Hi in Hp. apply (proj1 (dedup_In _ _)) in Hp. apply in_app_or in Hp.
    destruct Hp as [Hp|Hp]; [apply Ac in Hp|apply Ad in Hp]; lia.
  - intros o Hin. destruct (Ho o Hin) as [H|[H|H]]; [apply Bc in H|apply Bd in H|]; lia.
Qed.

Lemma combine_ok w c d c' : winv w -> In c (wcs w) -> In d (wcs w) -> combine_c c d (wnext w) = Some c' ->
  s_combine (abs G K c) (abs G K d) = Some (abs G K c') /\ cinv G K c' /\ below G K (wnext w + nrot c + nrot d) c'.
Proof.
  intros Hw Hc Hd. unfold combine_c, s_combine.
  destruct (Hw c Hc) as [Ic Bc]. destruct (Hw d Hd) as [Id Bd].
  destruct (extend_c G K (empty_c G K (nq G K c)) c (wnext w)) as [e|] eqn:Ee; [|discriminate]. intros Hd'.
  destruct (extend_ok G K _ _ _ _ (cinv_empty G K _) Ic (fun o (H : In o []) => match H with end) Ee) as [Hs [Ie [Hie Hoe]]].
  assert (Be : below G K (wnext w + nrot c) e).
  { apply (below_extend (wnext w) (empty_c G K (nq G K c)) c e (below_empty _ _) Bc Hie Hoe). }
  destruct (extend_ok G K e d (wnext w + nrot c) c' Ie Id (proj2 Be) Hd') as [Hs' [Ic' [Hic' Hoc']]].
  split; [|split; [exact Ic'|]].
  - change (snq G K (abs G K c)) with (nq G K c).
    change (s_empty G K (nq G K c)) with (abs G K (empty_c G K (nq G K c))). rewrite Hs. exact Hs'.
  - apply (below_extend (wnext w + nrot c) e d c' Be (below_mono _ _ _ (Nat.le_add_r _ _) Bd) Hic' Hoc').
Qed.
Lemma combine_none w c d : winv w -> In c (wcs w) -> In d (wcs w) -> combine_c c d (wnext w) = None ->
  s_combine (abs G K c) (abs G K d) = None.
Proof.
  intros Hw Hc Hd. unfold combine_c, s_combine.
  destruct (Hw c Hc) as [Ic Bc]. destruct (Hw d Hd) as [Id Bd].
  change (snq G K (abs G K c)) with (nq G K c).
  change (s_empty G K (nq G K c)) with (abs G K (empty_c G K (nq G K c))).
  destruct (extend_c G K (empty_c G K (nq G K c)) c (wnext w)) as [e|] eqn:Ee.
  - destruct (extend_ok G K _ _ _ _ (cinv_empty G K _) Ic (fun o (H : In o []) => match H with end) Ee) as [Hs [Ie [Hie Hoe]]].
    assert (Be : below G K (wnext w + nrot c) e).
    { apply (below_extend (wnext w) (empty_c G K (nq G K c)) c e (below_empty _ _) Bc Hie Hoe). }
    rewrite Hs. intros Hn. exact (extend_none G K e d _ Ie Id (proj2 Be) Hn).
  - intros _. rewrite (extend_none G K _ c _ (cinv_empty G K _) Ic (fun o (H : In o []) => match H with end) Ee). reflexivity.
Qed.

Theorem step_refines w o : winv w -> abs_w (step w o) = sstep (abs_w w) o /\ winv (step w o).
Proof using G K tr tr_closed.
  intros Hw.
  destruct o as [n|i k|i g|i k qs f|i k qs|i j|i j|i|i t]; unfold step, sstep, abs_w; cbn [swnext swcs wnext wcs].
  - (* ONew *) split; [rewrite map_app; reflexivity|].
    apply winv_app; auto; [apply cinv_empty|apply below_empty].
  - (* OAddParams *) rewrite map_nth_error'. destruct (nth_error (wcs w) i) as [c|] eqn:En; cbn [option_map]; [|auto].
    pose proof (nth_error_In _ _ En) as Hin. destruct (Hw c Hin) as [Ic Bc].
    split; [cbn [swnext swcs wnext wcs]; rewrite map_upd; reflexivity|].
    apply winv_upd; auto; [lia| |].
    + apply cinv_add_params; auto using seq_NoDup. intros p Hp Hq. apply in_seq in Hp. destruct Bc as [A _]. apply A in Hq. lia.
    + destruct Bc as [A B]. split; simpl.
      * intros p Hp. apply in_app_or in Hp. destruct Hp as [Hp|Hp]; [apply A in Hp; lia|apply in_seq in Hp; lia].
      * intros o Ho. apply B in Ho. lia.
  - (* OAddFixed *) rewrite map_nth_error'. destruct (nth_error (wcs w) i) as [c|] eqn:En; cbn [option_map]; [|auto].
    pose proof (nth_error_In _ _ En) as Hin. destruct (Hw c Hin) as [Ic Bc].
    split; [cbn [swnext swcs wnext wcs]; rewrite map_upd, abs_add_fixed; reflexivity|].
    apply winv_upd; auto. apply cinv_add_fixed; auto.
  - (* OAddPG *) rewrite map_nth_error'. destruct (nth_error (wcs w) i) as [c|] eqn:En; cbn [option_map]; [|auto].
    pose proof (nth_error_In _ _ En) as Hin. destruct (Hw c Hin) as [Ic Bc].
    destruct (add_pg G K c k qs f (wnext w)) as [c'|] eqn:Ea.
    + destruct (add_pg_ok G K c k qs f (wnext w) c' Ic (fresh_out G K c _ Bc) Ea) as [Hs Ic']. rewrite Hs.
      split; [cbn [swnext swcs wnext wcs]; rewrite map_upd; reflexivity|].
      apply winv_upd; auto. destruct (add_pg_shape G K _ _ _ _ _ _ Ea) as [-> _]. destruct Bc as [A B]. split; simpl.
      * intros p Hp. apply A in Hp. lia.
      * intros o Ho. apply in_app_single in Ho. destruct Ho as [Ho| ->]; [apply B in Ho; lia|lia].
    + rewrite (add_pg_none G K c k qs f (wnext w) Ea). auto.
  - (* OAddUnboundPG *) rewrite map_nth_error'. destruct (nth_error (wcs w) i) as [c|] eqn:En; cbn [option_map]; [|auto].
    pose proof (nth_error_In _ _ En) as Hin. destruct (Hw c Hin) as [Ic Bc].
    destruct (add_unbound_pg_ok G K c k qs (wnext w) Ic (fresh_out G K c _ Bc) (fresh_in G K c _ Bc)) as [Ha Ic'].
    split; [cbn [swnext swcs wnext wcs]; rewrite map_upd, Ha; reflexivity|].
    apply winv_upd; auto. destruct Bc as [A B]. split; simpl.
    + intros p Hp. apply in_app_single in Hp. destruct Hp as [Hp| ->]; [apply A in Hp; lia|lia].
    + intros o Ho. apply in_app_single in Ho. destruct Ho as [Ho| ->]; [apply B in Ho; lia|lia].
  - (* OExtend *) rewrite !map_nth_error'.
    destruct (nth_error (wcs w) i) as [c|] eqn:En; cbn [option_map]; [|auto].
    destruct (nth_error (wcs w) j) as [d|] eqn:Em; cbn [option_map]; [|auto].
    pose proof (nth_error_In _ _ En) as Hin. pose proof (nth_error_In _ _ Em) as Hjn.
    destruct (Hw c Hin) as [Ic Bc]. destruct (Hw d Hjn) as [Id Bd].
    destruct (extend_c G K c d (wnext w)) as [c'|] eqn:Ee.
    + destruct (extend_ok G K c d (wnext w) c' Ic Id (proj2 Bc) Ee) as [Hs [Ic' [Hi Ho]]]. rewrite Hs.
      split; [cbn [swnext swcs wnext wcs]; rewrite map_upd; reflexivity|].
      apply winv_upd; auto; [lia|]. exact (below_extend (wnext w) c d c' Bc Bd Hi Ho).
    + rewrite (extend_none G K c d (wnext w) Ic Id (proj2 Bc) Ee). auto.
  - (* OCombine *) rewrite !map_nth_error'.
    destruct (nth_error (wcs w) i) as [c|] eqn:En; cbn [option_map]; [|auto].
    destruct (nth_error (wcs w) j) as [d|] eqn:Em; cbn [option_map]; [|auto].
    pose proof (nth_error_In _ _ En) as Hin. pose proof (nth_error_In _ _ Em) as Hjn.
    destruct (combine_c c d (wnext w)) as [c'|] eqn:Ec.
    + destruct (combine_ok w c d c' Hw Hin Hjn Ec) as [Hs [Ic' Bc']]. rewrite Hs.
      split; [cbn [swnext swcs wnext wcs]; rewrite map_app; reflexivity|].
      apply winv_app; auto. lia.
    + rewrite (combine_none w c d Hw Hin Hjn Ec). auto.
  - (* OCopy *) rewrite map_nth_error'. destruct (nth_error (wcs w) i) as [c|] eqn:En; cbn [option_map]; [|auto].
    pose proof (nth_error_In _ _ En) as Hin. destruct (Hw c Hin) as [Ic Bc].
    split; [cbn [swnext swcs wnext wcs]; rewrite map_app; reflexivity|].
    apply winv_app; auto.
  - (* OTranspile *) rewrite map_nth_error'. destruct (nth_error (wcs w) i) as [c|] eqn:En; cbn [option_map]; [|auto].
    pose proof (nth_error_In _ _ En) as Hin. destruct (Hw c Hin) as [Ic Bc].
    set (ret0 := mkLM G K (nq G K c) (ins G K c) [] [] []).
    assert (I0 : cinv G K ret0).
    { constructor; simpl; [intros o []|exact (ci_ins G K c Ic)|intros o f []|reflexivity|constructor|intros o []]. }
    destruct (build_ok G K (tr t (sgates G K (abs G K c))) ret0 (wnext w) I0) as [c' [Hb [Ha [Ic' [Hins He]]]]].
    + intros o [].
    + apply tr_closed. exact (abs_closed G K c Ic).
    + rewrite Hb. split.
      * cbn [swnext swcs wnext wcs]. rewrite map_app. cbn [map]. rewrite Ha. reflexivity.
      * apply winv_app; auto; [lia|]. split.
        -- intros p Hp. rewrite Hins in Hp. destruct Bc as [A _]. apply A in Hp. lia.
        -- intros o Ho. destruct (He o Ho) as [[]|H]. lia.
Qed.

Definition w0 : world := mkW 0 [].
Lemma winv_w0 : winv w0.
Proof. intros c []. Qed.

(* every history refines the abstract level and keeps the invariant *)
Theorem history_refines ops :
  abs_w (fold_left step ops w0) = fold_left sstep ops (abs_w w0) /\ winv (fold_left step ops w0).
Proof using G K tr tr_closed.
  assert (H : forall w, winv w -> abs_w (fold_left step ops w) = fold_left sstep ops (abs_w w) /\ winv (fold_left step ops w)).
  { induction ops as [|o ops IH]; intros w Hw; simpl; [auto|].
    destruct (step_refines w o Hw) as [Ha Hi]. rewrite <- Ha. apply IH. exact Hi. }
  apply H. apply winv_w0.
Qed.
End Hist.
