(* Real-amplitude ansatz circuits: a circuit all of whose gates have real documented matrices (RY rotations, CNOT, CZ,
   SWAP, X, Z, H, Identity) maps real states to real states - exactly, for all angles, placements and register sizes. *)
From Coq Require Import ZArith List Bool Arith Lia Reals Lra.
From QP Require Import Cx Zw Asum FMat Lpoly Apply Local Gates Rsem.
Import ListNotations.
Local Open Scope C_scope.

Definition is_real (z : C) : Prop := snd z = 0%R.
Definition real_state (psi : St) : Prop := forall b, is_real (psi b).
Definition real_mat (M : CM) : Prop := forall x y, is_real (M x y).

Lemma real_add a b : is_real a -> is_real b -> is_real (a + b).
Proof. unfold is_real, Cadd. cbn. intros -> ->. ring. Qed.
Lemma real_mul a b : is_real a -> is_real b -> is_real (a * b).
Proof. unfold is_real, Cmul. cbn. intros -> ->. ring. Qed.
Lemma real_RtoC r : is_real (RtoC r). Proof. reflexivity. Qed.
Lemma real_C0 : is_real C0. Proof. reflexivity. Qed.

Lemma asum_real qs : forall F b, (forall b', is_real (F b')) -> is_real (asum qs F b).
Proof. induction qs as [|q qs IH]; intros F b H; cbn [asum]; [apply H|]. apply real_add; apply IH, H. Qed.

Lemma apply_real M qs psi : real_mat M -> real_state psi -> real_state (apply M qs psi).
Proof. intros HM Hp b. unfold apply. apply asum_real. intros b'. apply real_mul; [apply HM|apply Hp]. Qed.

Definition real_kindb (k : gkind) : bool :=
  match k with KI | KX | KZ | KH | KRY | KCNOT | KCZ | KSWAP => true | _ => false end.

Lemma real_cpow_rhC s : is_real (cpow rhC s).
Proof. rewrite cpow_rhC. apply real_RtoC. Qed.
Lemma real_one : is_real (lp_eval rho0 Gates.one).
Proof. unfold Gates.one, cz. rewrite lp_eval_const, zw_eval_of_Z. apply real_RtoC. Qed.
Lemma real_mone : is_real (lp_eval rho0 mone).
Proof. unfold mone, cz. rewrite lp_eval_const, zw_eval_of_Z. apply real_RtoC. Qed.
Lemma real_lp0 : is_real (lp_eval rho0 lp0). Proof. reflexivity. Qed.

Lemma real_m2 a b c d : is_real (lp_eval rho0 a) -> is_real (lp_eval rho0 b) -> is_real (lp_eval rho0 c) ->
  is_real (lp_eval rho0 d) -> forall x y, is_real (lp_eval rho0 (m2 a b c d x y)).
Proof. intros Ha Hb Hc Hd x y. unfold m2. destruct x as [|[] [|? ?]], y as [|[] [|? ?]]; auto; apply real_lp0. Qed.
Lemma real_mperm k f ph : (forall y, is_real (lp_eval rho0 (ph y))) -> forall x y, is_real (lp_eval rho0 (mperm k f ph x y)).
Proof. intros H x y. unfold mperm. destruct (_ && _); [apply H|apply real_lp0]. Qed.

Lemma rmat_real k ps : real_kindb k = true -> real_mat (rmat k ps).
Proof.
  intros Hk x y. destruct k; try discriminate.
  all: try (unfold rmat, constM; cbn [gmat]; apply real_mul; [apply real_cpow_rhC|]).
  - apply real_m2; auto using real_one, real_lp0.
  - apply real_m2; auto using real_one, real_lp0.
  - apply real_m2; auto using real_one, real_mone, real_lp0.
  - apply real_m2; auto using real_one, real_mone, real_lp0.
  - (* RY *) destruct ps as [|a [|? ?]].
    + unfold rmat, constM. cbn [gmat]. apply real_mul; [apply real_cpow_rhC|apply real_lp0].
    + cbn [rmat]. unfold m2C. destruct x as [|[] [|? ?]], y as [|[] [|? ?]]; try apply real_C0; apply real_RtoC.
    + unfold rmat, constM. cbn [gmat]. apply real_mul; [apply real_cpow_rhC|apply real_lp0].
  - apply real_mperm. intros; apply real_one.
  - apply real_mperm. intros y0. destruct y0 as [|[] [|[] [|? ?]]]; auto using real_one, real_mone.
  - apply real_mperm. intros; apply real_one.
Qed.

Definition real_gatesb (gs : list gate) : bool := forallb (fun g => real_kindb (gk g)) gs.

(* every instantiated gate list with real kinds maps real states to real states *)
Theorem real_gates_keep_states_real gs : real_gatesb gs = true ->
  forall theta pi psi, real_state psi -> real_state (csem (map (fun g => rsem (inst theta pi g)) gs) psi).
Proof.
  induction gs as [|g gs IH]; intros H theta pi psi Hp; [exact Hp|].
  cbn [real_gatesb forallb] in H. apply andb_true_iff in H as [Hg Hgs].
  cbn [map]. unfold csem. cbn [fold_left]. fold (csem (map (fun g0 => rsem (inst theta pi g0)) gs)).
  apply (IH Hgs). unfold lsem, rsem, inst. cbn [fst snd ck cqs cps]. apply apply_real; [apply rmat_real, Hg|exact Hp].
Qed.

Lemma real_csem_app gs gs' psi : (forall phi, real_state phi -> real_state (csem gs phi)) ->
  (forall phi, real_state phi -> real_state (csem gs' phi)) -> real_state psi -> real_state (csem (gs ++ gs') psi).
Proof. intros H1 H2 Hp. rewrite csem_app. apply H2, H1, Hp. Qed.
