(* Least-squares polynomial fit of constant data (algo/utils/fitting.py: polynomial_fitting, used by
   create_polynomial_extrapolate / richardson_extrapolation with point 0 and result parameters[0]).
   numpy's Polynomial.fit(...).convert().coef is not modelled; it enters as its contract: the returned coefficient list (low to
   high, at most order + 1 entries) minimises the residual sum of squares among all such lists. The guard of polynomial_fitting,
   order <= len(set(x_data)) - 1, is the hypothesis "order + 1 distinct abscissae". *)
From Coq Require Import Reals List Lra Lia.
Import ListNotations.
Open Scope R_scope.

Fixpoint peval (p : list R) (x : R) : R := match p with [] => 0 | a :: p' => a + x * peval p' x end.

(* synthetic division by (x - r) *)
Fixpoint divx (r : R) (p : list R) : list R :=
  match p with
  | [] => []
  | a :: p' => match p' with [] => [] | _ :: _ => peval p' r :: divx r p' end
  end.

Lemma divx_length r p : length (divx r p) = pred (length p).
Proof.
  induction p as [|a p IH]; [reflexivity|]. destruct p as [|b p]; [reflexivity|].
  change (divx r (a :: b :: p)) with (peval (b :: p) r :: divx r (b :: p)). cbn [length pred] in *. now rewrite IH.
Qed.

Lemma divx_spec r p x : peval p x = peval p r + (x - r) * peval (divx r p) x.
Proof.
  induction p as [|a p IH]; [simpl; ring|]. destruct p as [|b p]; [simpl; ring|].
  change (divx r (a :: b :: p)) with (peval (b :: p) r :: divx r (b :: p)).
  change (peval (a :: b :: p) x) with (a + x * peval (b :: p) x).
  change (peval (a :: b :: p) r) with (a + r * peval (b :: p) r).
  change (peval (peval (b :: p) r :: divx r (b :: p)) x) with (peval (b :: p) r + x * peval (divx r (b :: p)) x).
  rewrite IH. ring.
Qed.

(* a polynomial with at most n coefficients and n distinct roots vanishes everywhere *)
Lemma many_roots_zero n : forall p roots, (length p <= n)%nat -> NoDup roots -> length roots = n ->
  (forall r, In r roots -> peval p r = 0) -> forall x, peval p x = 0.
Proof.
  induction n as [|n IH]; intros p roots Hp Hnd Hlen Hroot x.
  - destruct p; [reflexivity | simpl in Hp; lia].
  - destruct roots as [|r rs]; [discriminate|]. inversion Hnd as [|? ? Hnotin Hnd']; subst.
    assert (Hq : forall y, peval (divx r p) y = 0).
    { apply (IH (divx r p) rs); [rewrite divx_length; lia | exact Hnd' | simpl in Hlen; lia |].
      intros r' Hr'. pose proof (divx_spec r p r') as E.
      rewrite (Hroot r' (or_intror Hr')), (Hroot r (or_introl eq_refl)) in E.
      assert (Hm : (r' - r) * peval (divx r p) r' = 0) by lra.
      apply Rmult_integral in Hm. destruct Hm as [H0 | H0]; [|exact H0].
      exfalso. apply Hnotin. replace r with r' by lra. exact Hr'. }
    rewrite (divx_spec r p x), (Hroot r (or_introl eq_refl)), Hq. ring.
Qed.

(* residual sum of squares over the data points (x, y) *)
Definition rss (p : list R) (data : list (R * R)) : R :=
  fold_right (fun xy acc => (peval p (fst xy) - snd xy) * (peval p (fst xy) - snd xy) + acc) 0 data.

Lemma rss_nonneg p data : 0 <= rss p data.
Proof. induction data as [|xy d IH]; simpl; [lra|]. pose proof (Rle_0_sqr (peval p (fst xy) - snd xy)) as H. unfold Rsqr in H. lra. Qed.

Lemma rss_zero_all p data : rss p data = 0 -> forall xy, In xy data -> peval p (fst xy) = snd xy.
Proof.
  induction data as [|xy0 d IH]; simpl; intros H xy Hin; [contradiction|].
  pose proof (Rle_0_sqr (peval p (fst xy0) - snd xy0)) as Hs. unfold Rsqr in Hs. pose proof (rss_nonneg p d) as Hd.
  destruct Hin as [<- | Hin].
  - assert (Hz : (peval p (fst xy0) - snd xy0) * (peval p (fst xy0) - snd xy0) = 0) by lra.
    apply Rmult_integral in Hz. lra.
  - apply IH; [lra | exact Hin].
Qed.

Lemma rss_const E data : (forall xy, In xy data -> snd xy = E) -> rss [E] data = 0.
Proof.
  induction data as [|xy d IH]; simpl; intros H; [reflexivity|].
  rewrite (H xy (or_introl eq_refl)). simpl in IH. rewrite IH; [ring | intros; apply H; now right].
Qed.

Definition psub0 (p : list R) (E : R) : list R := match p with [] => [- E] | a :: r => (a - E) :: r end.
Lemma psub0_eval p E x : peval (psub0 p E) x = peval p x - E.
Proof. destruct p; simpl; ring. Qed.
Lemma psub0_length p E n : (length p <= S n)%nat -> (length (psub0 p E) <= S n)%nat.
Proof. destruct p; simpl; lia. Qed.
Lemma peval_0 p : peval p 0 = nth 0 p 0.
Proof. destruct p; simpl; ring. Qed.

(* constant data: every least-squares minimiser of degree <= order through order + 1 distinct abscissae IS the constant *)
Theorem constant_data_fit p E order data ds :
  (forall xy, In xy data -> snd xy = E) ->
  NoDup ds -> length ds = S order -> incl ds (map fst data) ->
  (length p <= S order)%nat ->
  (forall q, (length q <= S order)%nat -> rss p data <= rss q data) ->
  (forall x, peval p x = E) /\ nth 0 p 0 = E.
Proof.
  intros Hconst Hnd Hlen Hincl Hp Hmin.
  assert (Hz : rss p data = 0).
  { pose proof (Hmin [E] ltac:(simpl; lia)) as H. rewrite (rss_const E data Hconst) in H. pose proof (rss_nonneg p data). lra. }
  assert (Hall : forall x, peval p x = E).
  { intros x. enough (peval (psub0 p E) x = 0) by (rewrite psub0_eval in *; lra).
    apply (many_roots_zero (S order) (psub0 p E) ds); [now apply psub0_length | exact Hnd | exact Hlen |].
    intros r Hr. rewrite psub0_eval. apply Hincl in Hr. apply in_map_iff in Hr. destruct Hr as [xy [<- Hin]].
    rewrite (rss_zero_all p data Hz xy Hin), (Hconst xy Hin). ring. }
  split; [exact Hall | rewrite <- peval_0; apply Hall].
Qed.

(* non-vacuity: three points with the same ordinate, a straight line fit: [5] meets the hypotheses *)
Example constant_data_fit_example :
  let data := [(1, 5); (3, 5); (2, 5)] in
  (forall xy, In xy data -> snd xy = 5) /\ NoDup [1; 3] /\ incl [1; 3] (map fst data)
  /\ (forall q, (length q <= 2)%nat -> rss [5] data <= rss q data).
Proof.
  intros data. split; [|split; [|split]].
  - intros xy [<- | [<- | [<- | []]]]; reflexivity.
  - constructor; [intros [H | []]; lra | constructor; [intros [] | constructor]].
  - intros r [<- | [<- | []]]; simpl; auto.
  - intros q _. rewrite (rss_const 5 data); [apply rss_nonneg |].
    intros xy [<- | [<- | [<- | []]]]; reflexivity.
Qed.

(* exponential ansatz f(x) = a + b exp(p(x)) (exp_fitting; with a fixed: exp_fitting_with_const): a fit that reproduces constant
   data exactly at order + 1 distinct abscissae is the constant everywhere - in particular at the point 0 the extrapolation reads.
   scipy's curve_fit is a local optimiser, so exactness of the fit is the hypothesis (checked on the real fits by corr_C12_fit.py) *)
Theorem constant_data_exact_exp_fit a b p E order data ds :
  (forall xy, In xy data -> snd xy = E) ->
  NoDup ds -> length ds = S order -> incl ds (map fst data) ->
  (length p <= S order)%nat ->
  (forall xy, In xy data -> a + b * exp (peval p (fst xy)) = snd xy) ->
  forall x, a + b * exp (peval p x) = E.
Proof.
  intros Hconst Hnd Hlen Hincl Hp Hfit x.
  assert (Hds : forall r, In r ds -> a + b * exp (peval p r) = E).
  { intros r Hr. apply Hincl in Hr. apply in_map_iff in Hr. destruct Hr as [xy [<- Hin]].
    rewrite (Hfit xy Hin). now apply Hconst. }
  destruct ds as [|r0 rs]; [discriminate|].
  pose proof (Hds r0 (or_introl eq_refl)) as H0.
  destruct (Req_dec b 0) as [Hb | Hb].
  - rewrite Hb in *. lra.
  - assert (Hall : forall y, peval p y = peval p r0).
    { intros y. enough (peval (psub0 p (peval p r0)) y = 0) by (rewrite psub0_eval in *; lra).
      apply (many_roots_zero (S order) (psub0 p (peval p r0)) (r0 :: rs)); [now apply psub0_length | exact Hnd | exact Hlen |].
      intros r Hr. rewrite psub0_eval. pose proof (Hds r Hr) as H1.
      assert (He : exp (peval p r) = exp (peval p r0)).
      { apply Rmult_eq_reg_l with b; [lra | exact Hb]. }
      apply exp_inv in He. lra. }
    rewrite (Hall x). exact H0.
Qed.
