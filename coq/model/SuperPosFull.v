(* comp_basis_superposition from |0...0>: the X gates that prepare |x> (the preparation circuit of state a), then the
   X..X rotation on the qubits where x and y differ and the RZ on the lowest differing qubit, prepare
   cos(theta)|x> + e^{i phi} sin(theta)|y> up to a global phase - bit patterns as the integers the code uses. *)
From Coq Require Import ZArith NArith List Bool Arith Lia Reals FunctionalExtensionality.
From QP Require Import Cx Asum FMat Apply.
From QPM Require Import Pauli CompBasis PrepCircuit SuperPos.
Import ListNotations.
Local Open Scope C_scope.

Definition basis_of (z : N) : Basis := fun i => N.testbit z (N.of_nat i).

Lemma ket_bridge n z : CompBasis.ket n z = SuperPos.ket n (basis_of z).
Proof. apply functional_extensionality; intros b. reflexivity. Qed.

Lemma flip_basis x y : forall i, flip (basis_of (N.lxor x y)) (basis_of x) i = basis_of y i.
Proof.
  intros i. unfold flip, basis_of. rewrite N.lxor_spec.
  destruct (N.testbit x (N.of_nat i)), (N.testbit y (N.of_nat i)); reflexivity.
Qed.

Lemma ket_ext n (u v : Basis) : (forall i, u i = v i) -> SuperPos.ket n u = SuperPos.ket n v.
Proof.
  intros H. apply functional_extensionality; intros b. unfold SuperPos.ket, agreeb.
  rewrite (forallb_ext_in (fun i => Bool.eqb (b i) (u i)) (fun i => Bool.eqb (b i) (v i))); [reflexivity|].
  intros i _. rewrite H. reflexivity.
Qed.

Theorem superposition_from_the_zero_state n (x y : N) d theta phi :
  (d < n)%nat -> lowbit (N.lxor x y) = Some d ->
  let m := basis_of (N.lxor x y) in
  let sign := if N.testbit y (N.of_nat d) then 1%R else (-1)%R in
  let alpha := (2 * sign * (phi / 2 - PI / 4))%R in
  exists c, Cunit c /\ forall b,
    rzq d alpha (xrot m theta (csem (prep n x) (CompBasis.ket n 0%N))) b
    = c * (RtoC (cos theta) * CompBasis.ket n x b + Cexp phi * RtoC (sin theta) * CompBasis.ket n y b).
Proof.
  intros Hd Hlow m sign alpha.
  assert (Hm : m d = true).
  { pose proof (lowbit_is_a_differing_bit x y d Hlow) as Hne. unfold m, basis_of. rewrite N.lxor_spec.
    destruct (N.testbit x (N.of_nat d)), (N.testbit y (N.of_nat d)); try reflexivity; exfalso; apply Hne; reflexivity. }
  replace (csem (prep n x) (CompBasis.ket n 0%N)) with (SuperPos.ket n (basis_of x)).
  2:{ rewrite <- ket_bridge. apply functional_extensionality; intros c. symmetry. apply prep_prepares. }
  destruct (superposition_circuit_prepares_the_superposition n (basis_of x) m d theta phi Hd Hm) as [c [Hc H]].
  exists c. split; [exact Hc|]. intros b.
  assert (Ey : flip m (basis_of x) d = N.testbit y (N.of_nat d)) by apply flip_basis.
  cbv zeta in H. rewrite Ey in H. fold sign in H. fold alpha in H. rewrite H.
  rewrite !ket_bridge. rewrite (ket_ext n (flip m (basis_of x)) (basis_of y) (flip_basis x y)). reflexivity.
Qed.
