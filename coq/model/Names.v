(* Name-level abstraction of transpiler pipelines (C02).
   A stage lists, for every gate name it rewrites, the names it may emit; all other names pass
   through unchanged.  A concrete run of a stage is any relation between the multiset of input
   names and output names such that every output name is a possible output of SOME input gate
   (this covers per-gate decomposers, adjacent-gate fusers and eliminators alike). *)
From Coq Require Import String List Bool.
Import ListNotations.
Open Scope string_scope.

Definition stage := list (string * list string).

Fixpoint assoc (n : string) (s : stage) : option (list string) :=
  match s with [] => None | (k, v) :: s' => if String.eqb n k then Some v else assoc n s' end.
Definition stage_out (s : stage) (n : string) : list string :=
  match assoc n s with Some outs => outs | None => [n] end.
Definition memb (n : string) (l : list string) : bool := existsb (String.eqb n) l.
Fixpoint dedup (l : list string) : list string :=
  match l with [] => [] | a :: l' => if memb a l' then dedup l' else a :: dedup l' end.
Definition stage_set (s : stage) (ns : list string) : list string := dedup (flat_map (stage_out s) ns).
Definition pipe_set (p : list stage) (ns : list string) : list string := fold_left (fun acc s => stage_set s acc) p ns.

(* admissible concrete behaviour of one stage on name lists *)
Definition stage_run (s : stage) (inp out : list string) : Prop :=
  forall o, In o out -> exists n, In n inp /\ In o (stage_out s n).
Inductive pipe_run : list stage -> list string -> list string -> Prop :=
| pr_nil c : pipe_run [] c c
| pr_cons s p c c' c'' : stage_run s c c' -> pipe_run p c' c'' -> pipe_run (s :: p) c c''.

Lemma memb_In n l : memb n l = true <-> In n l.
Proof. unfold memb. rewrite existsb_exists. split.
  - intros [x [Hx E]]. apply String.eqb_eq in E. subst; auto.
  - intros H. exists n; split; auto. apply String.eqb_refl. Qed.

Lemma dedup_In n l : In n (dedup l) <-> In n l.
Proof. induction l as [|a l IH]; simpl; [tauto|].
  destruct (memb a l) eqn:E.
  - rewrite IH. split; auto. intros [->|H]; auto. apply memb_In; auto.
  - simpl. rewrite IH. tauto. Qed.

Lemma stage_set_sound s ns inp out :
  (forall n, In n inp -> In n ns) -> stage_run s inp out ->
  forall o, In o out -> In o (stage_set s ns).
Proof.
  intros Hin Hrun o Ho. destruct (Hrun o Ho) as [n [Hn Hon]].
  unfold stage_set. apply dedup_In. apply in_flat_map. exists n; split; auto.
Qed.

(* every name of the final circuit is predicted by the abstract interpretation *)
Theorem pipe_set_sound p : forall ns inp out,
  (forall n, In n inp -> In n ns) -> pipe_run p inp out ->
  forall o, In o out -> In o (pipe_set p ns).
Proof.
  induction p as [|s p IH]; intros ns inp out Hin Hrun o Ho.
  - inversion Hrun; subst. simpl. auto.
  - inversion Hrun as [|? ? ? c' ? Hs Hp]; subst. simpl.
    apply (IH (stage_set s ns) c' out); auto.
    intros n Hn. eapply stage_set_sound; eauto.
Qed.

Definition subsetb (a b : list string) : bool := forallb (fun x => memb x b) a.
Lemma subsetb_In a b : subsetb a b = true -> forall x, In x a -> In x b.
Proof. unfold subsetb. rewrite forallb_forall. intros H x Hx. apply memb_In, H, Hx. Qed.

(* GateSetConversionTranspiler.__call__ / RotationConversionTranspiler.__call__ :
   decompose, then (if validation) raise unless every gate name is in the target set *)
Definition gsc_call (decomp : list string -> list string) (target : list string) (validation : bool)
           (circ : list string) : option (list string) :=
  let out := decomp circ in
  if validation && negb (forallb (fun n => memb n target) out) then None else Some out.

Theorem gsc_validated decomp target circ out :
  gsc_call decomp target true circ = Some out -> forall n, In n out -> In n target.
Proof.
  unfold gsc_call. simpl. destruct (forallb (fun n => memb n target) (decomp circ)) eqn:E; simpl; [|discriminate].
  intros H; inversion H; subst. rewrite forallb_forall in E. intros n Hn. apply memb_In, E, Hn.
Qed.
