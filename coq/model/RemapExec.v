(* Executable model of QubitRemappingTranspiler (transpile/qubit_remapping.py): constructor check, the
   dictionary lookups of __call__ with its KeyError -> ValueError path, the register size of the result.
   A gate is (payload, controls ++ targets); the payload (name, parameters, Pauli ids, matrix, where the
   controls end) is carried over untouched. *)
From Coq Require Import ZArith NArith List Bool Arith Lia Reals FunctionalExtensionality.
From QP Require Import Cx Asum FMat Apply.
From QPM Require Import Remap.
Import ListNotations.

Fixpoint lookup (m : qmap) (q : nat) : option nat :=
  match m with
  | [] => None
  | (k, v) :: r => if Nat.eqb k q then Some v else lookup r q
  end.

Fixpoint nodupb (l : list nat) : bool :=
  match l with
  | [] => true
  | x :: r => negb (existsb (Nat.eqb x) r) && nodupb r
  end.

(* __init__: len(qubit_mapping) != len(set(values)) raises; max() of an empty mapping raises too *)
Definition ctor_ok (m : qmap) : bool := nodupb (mvals m) && negb (Nat.eqb (length m) 0).

Fixpoint map_opt {A B} (f : A -> option B) (l : list A) : option (list B) :=
  match l with
  | [] => Some []
  | x :: r => match f x, map_opt f r with
              | Some y, Some ys => Some (y :: ys)
              | _, _ => None
              end
  end.

Definition remap_gate {A} (m : qmap) (g : A * list nat) : option (A * list nat) :=
  match map_opt (lookup m) (snd g) with
  | Some qs => Some (fst g, qs)
  | None => None
  end.

(* None = the documented ValueError *)
Definition remap_circuit {A} (m : qmap) (gs : list (A * list nat)) : option (list (A * list nat)) :=
  map_opt (remap_gate m) gs.

Definition maxl (l : list nat) : nat := fold_right Nat.max 0 l.
Definition out_qubit_count (m : qmap) : nat := S (maxl (mvals m)).

(* the canonical total relabelling that agrees with the dictionary on its keys *)
Definition pi_of (m : qmap) (q : nat) : nat :=
  match lookup m q with
  | Some v => v
  | None => q + S (maxl (mvals m))
  end.

(* ------------------------------------------------------------------ lemmas *)
Lemma nodupb_spec l : nodupb l = true <-> NoDup l.
Proof.
  induction l as [|x r IH]; simpl; [split; [constructor|reflexivity]|].
  rewrite andb_true_iff, negb_true_iff, IH. split.
  - intros [Hx Hr]. constructor; [|exact Hr]. intros Hin.
    assert (existsb (Nat.eqb x) r = true) as E.
    { apply existsb_exists. exists x. split; [exact Hin|apply Nat.eqb_refl]. }
    congruence.
  - intros Hnd. apply NoDup_cons_iff in Hnd. destruct Hnd as [Hx Hr]. split; [|exact Hr].
    destruct (existsb (Nat.eqb x) r) eqn:E; [|reflexivity].
    apply existsb_exists in E. destruct E as [y [Hy Hxy]]. apply Nat.eqb_eq in Hxy. subst y. contradiction.
Qed.

Lemma ctor_ok_spec m : ctor_ok m = true <-> NoDup (mvals m) /\ m <> [].
Proof.
  unfold ctor_ok. rewrite andb_true_iff, nodupb_spec, negb_true_iff, Nat.eqb_neq.
  split; intros [H1 H2]; (split; [exact H1|]).
  - intros ->. apply H2. reflexivity.
  - destruct m; [congruence|simpl; lia].
Qed.

Lemma lookup_some_in m q v : lookup m q = Some v -> In (q, v) m.
Proof.
  induction m as [|[k w] r IH]; simpl; [discriminate|].
  destruct (Nat.eqb_spec k q) as [->|Hne]; intros H.
  - injection H as ->. left; reflexivity.
  - right. apply IH; exact H.
Qed.

Lemma lookup_none_iff m q : lookup m q = None <-> ~ In q (mkeys m).
Proof.
  induction m as [|[k w] r IH]; simpl; [tauto|].
  destruct (Nat.eqb_spec k q) as [->|Hne].
  - split; [discriminate|]. intros H. exfalso. apply H. left; reflexivity.
  - rewrite IH. unfold mkeys. simpl. tauto.
Qed.

Lemma le_maxl x l : In x l -> x <= maxl l.
Proof.
  induction l as [|y r IH]; simpl; [tauto|]. intros [->|Hin]; [lia|]. specialize (IH Hin). lia.
Qed.

Lemma lookup_val_le m q v : lookup m q = Some v -> v <= maxl (mvals m).
Proof.
  intros H. apply le_maxl. apply lookup_some_in in H. unfold mvals.
  change v with (snd (q, v)). apply in_map. exact H.
Qed.

Lemma in_vals_unique (m : qmap) k1 k2 v :
  NoDup (mvals m) -> In (k1, v) m -> In (k2, v) m -> k1 = k2.
Proof.
  induction m as [|[k w] r IH]; simpl; [tauto|]. unfold mvals; simpl. intros Hnd H1 H2.
  apply NoDup_cons_iff in Hnd. destruct Hnd as [Hw Hr].
  assert (forall kk, In (kk, v) r -> In v (map snd r)) as Hin.
  { intros kk Hk. change v with (snd (kk, v)). apply in_map; exact Hk. }
  destruct H1 as [E1|H1]; destruct H2 as [E2|H2].
  - congruence.
  - injection E1 as -> ->. exfalso. apply Hw. eapply Hin; exact H2.
  - injection E2 as -> ->. exfalso. apply Hw. eapply Hin; exact H1.
  - apply IH; assumption.
Qed.

Lemma pi_of_injective m : NoDup (mvals m) -> forall a c, pi_of m a = pi_of m c -> a = c.
Proof.
  intros Hnd a c. unfold pi_of.
  destruct (lookup m a) as [va|] eqn:Ea; destruct (lookup m c) as [vc|] eqn:Ec; intros H.
  - subst vc. apply lookup_some_in in Ea. apply lookup_some_in in Ec. eapply in_vals_unique; eauto.
  - apply lookup_val_le in Ea. lia.
  - apply lookup_val_le in Ec. lia.
  - lia.
Qed.

Lemma map_opt_lookup_some m qs qs' :
  map_opt (lookup m) qs = Some qs' -> qs' = map (pi_of m) qs /\ (forall q, In q qs -> In q (mkeys m)).
Proof.
  revert qs'. induction qs as [|q r IH]; simpl; intros qs' H.
  - injection H as <-. split; [reflexivity|tauto].
  - destruct (lookup m q) as [v|] eqn:E; [|discriminate].
    destruct (map_opt (lookup m) r) as [ys|] eqn:Er; [|discriminate].
    injection H as <-. destruct (IH ys eq_refl) as [-> Hk]. split.
    + simpl map. f_equal. unfold pi_of. rewrite E. reflexivity.
    + intros q0 [<-|Hin]; [|apply Hk; exact Hin].
      destruct (in_dec Nat.eq_dec q (mkeys m)) as [Hi|Hni]; [exact Hi|].
      apply lookup_none_iff in Hni. congruence.
Qed.

Lemma map_opt_lookup_none m qs :
  map_opt (lookup m) qs = None <-> exists q, In q qs /\ ~ In q (mkeys m).
Proof.
  induction qs as [|q r IH]; simpl.
  - split; [discriminate|]. intros [q [[] _]].
  - destruct (lookup m q) as [v|] eqn:E.
    + destruct (map_opt (lookup m) r) as [ys|] eqn:Er.
      * split; [discriminate|]. intros [q0 [[<-|Hin] Hn]].
        -- apply lookup_none_iff in Hn. congruence.
        -- assert (None = None :> option (list nat)) as T by reflexivity.
           destruct IH as [_ IH2]. discriminate IH2. exists q0. split; assumption.
      * split; [intros _|reflexivity]. destruct IH as [IH1 _]. destruct (IH1 eq_refl) as [q0 [Hin Hn]].
        exists q0. split; [right; exact Hin|exact Hn].
    + split; [intros _|reflexivity]. exists q. split; [left; reflexivity|]. apply lookup_none_iff; exact E.
Qed.

Section Gen.
Context {A : Type}.
Definition uses (gs : list (A * list nat)) (q : nat) : Prop := exists g, In g gs /\ In q (snd g).

Lemma remap_circuit_none (m : qmap) (gs : list (A * list nat)) :
  remap_circuit m gs = None <-> exists q, uses gs q /\ ~ In q (mkeys m).
Proof.
  unfold remap_circuit. induction gs as [|g r IH]; simpl.
  - split; [discriminate|]. intros [q [[g [[] _]] _]].
  - unfold remap_gate at 1. destruct (map_opt (lookup m) (snd g)) as [qs|] eqn:E.
    + destruct (map_opt (remap_gate m) r) as [ys|] eqn:Er.
      * split; [discriminate|]. intros [q [[g0 [[<-|Hin] Hq]] Hn]].
        -- assert (map_opt (lookup m) (snd g) = None) as C.
           { apply map_opt_lookup_none. exists q. split; assumption. }
           congruence.
        -- destruct IH as [_ IH2]. discriminate IH2. exists q. split; [exists g0; split; assumption|exact Hn].
      * split; [intros _|reflexivity]. destruct IH as [IH1 _].
        destruct (IH1 eq_refl) as [q [[g0 [Hin Hq]] Hn]].
        exists q. split; [exists g0; split; [right; exact Hin|exact Hq]|exact Hn].
    + split; [intros _|reflexivity]. apply map_opt_lookup_none in E. destruct E as [q [Hq Hn]].
      exists q. split; [exists g; split; [left; reflexivity|exact Hq]|exact Hn].
Qed.

Lemma remap_circuit_some (m : qmap) (gs gs' : list (A * list nat)) :
  remap_circuit m gs = Some gs' -> gs' = map (fun g => (fst g, map (pi_of m) (snd g))) gs.
Proof.
  unfold remap_circuit. revert gs'. induction gs as [|g r IH]; simpl; intros gs' H.
  - injection H as <-. reflexivity.
  - unfold remap_gate at 1 in H. destruct (map_opt (lookup m) (snd g)) as [qs|] eqn:E; [|discriminate].
    destruct (map_opt (remap_gate m) r) as [ys|] eqn:Er; [|discriminate].
    injection H as <-. rewrite (IH ys eq_refl). apply map_opt_lookup_some in E. destruct E as [-> _]. reflexivity.
Qed.

Lemma remap_circuit_in_register (m : qmap) (gs gs' : list (A * list nat)) :
  remap_circuit m gs = Some gs' -> forall q, uses gs' q -> q < out_qubit_count m.
Proof.
  intros H q [g' [Hg Hq]].
  assert (forall q0, uses gs q0 -> In q0 (mkeys m)) as Hall.
  { intros q0 Hu. destruct (in_dec Nat.eq_dec q0 (mkeys m)) as [Hi|Hni]; [exact Hi|].
    assert (remap_circuit m gs = None) as C by (apply remap_circuit_none; exists q0; split; assumption).
    congruence. }
  rewrite (remap_circuit_some _ _ _ H) in Hg. apply in_map_iff in Hg. destruct Hg as [g [<- Hin]].
  simpl in Hq. apply in_map_iff in Hq. destruct Hq as [q0 [<- Hq0]].
  assert (In q0 (mkeys m)) as Hk by (apply Hall; exists g; split; assumption).
  unfold pi_of. destruct (lookup m q0) as [v|] eqn:E.
  - apply lookup_val_le in E. unfold out_qubit_count. lia.
  - apply lookup_none_iff in E. contradiction.
Qed.
End Gen.

(* the transpiled circuit, whenever one is returned, acts on the relabelled register as the original *)
Theorem remap_exec_sem (m : qmap) (gs gs' : list lgate) :
  ctor_ok m = true -> remap_circuit m gs = Some gs' ->
  forall psi b', csem gs' (fun c' => psi (fun n => c' (pi_of m n))) b' = csem gs psi (fun n => b' (pi_of m n)).
Proof.
  intros Hc H psi b'. rewrite (remap_circuit_some _ _ _ H).
  apply remap_circuit_sem. apply pi_of_injective.
  unfold ctor_ok in Hc. apply andb_true_iff in Hc. destruct Hc as [Hc _]. apply nodupb_spec; exact Hc.
Qed.

Example remap_exec_example :
  let m := [(0, 4); (2, 0)]%nat in
  remap_circuit m [(7%nat, [0; 2]%nat)] = Some [(7%nat, [4; 0]%nat)]
  /\ remap_circuit m [(7%nat, [0; 1]%nat)] = None
  /\ ctor_ok m = true /\ ctor_ok [(0, 1); (1, 1)]%nat = false /\ out_qubit_count m = 5%nat.
Proof. vm_compute. repeat split; reflexivity. Qed.
