(* Operator.__isub__ / __sub__, __itruediv__ / __truediv__ and commutator (core/operator/operator.py), on top of
   model/Operator.v: differences, quotients by a scalar and commutators of operators denote the same operations
   on the operators they denote; cancelled terms disappear. *)
From Coq Require Import List Bool Arith Reals.
From QP Require Import Cx Zw Asum FMat Apply.
From QPM Require Import Pauli Operator.
Import ListNotations.
Local Open Scope C_scope.

Section OpExt.
Variable K : Type.
Variables (k0 : K) (kadd kmul : K -> K -> K).
Variable keq_dec : forall x y : K, {x = y} + {x <> y}.
Variable phi : K -> C.
Hypothesis phi_0 : phi k0 = C0.
Hypothesis phi_add : forall x y, phi (kadd x y) = phi x + phi y.
Hypothesis phi_mul : forall x y, phi (kmul x y) = phi x * phi y.
Hypothesis kadd_0_l : forall x, kadd k0 x = x.
Variable km1 : K.                                  (* the scalar -1 *)
Hypothesis phi_m1 : phi km1 = - C1.

Notation op := (op K).
Notation add_term := (add_term K k0 kadd keq_dec).
Notation osem := (osem K phi).
Notation wf_op := (wf_op K).
Notation nozero := (nozero K k0).

(* for pauli, coef in other.items(): self.add_term(pauli, -1 * coef) *)
Definition isub (o o' : op) : op := fold_left (fun acc lc => add_term acc (fst lc) (kmul km1 (snd lc))) o' o.
(* for pauli, coef in self.items(): self[pauli] = coef / other     (sinv = 1 / other) *)
Definition idiv (sinv : K) (o : op) : op := map (fun lc => (fst lc, kmul (snd lc) sinv)) o.

Theorem isub_sem o' : forall o psi b, wf_op o -> wf_op o' ->
  osem (isub o o') psi b = osem o psi b - osem o' psi b.
Proof.
  unfold isub. induction o' as [|[l c] o' IH]; intros o psi b Hwf Hwf'; simpl; [ring|].
  inversion Hwf' as [|? ? Hl Hw]; subst. simpl in Hl.
  rewrite IH by (auto using (add_term_wf K k0 kadd keq_dec)).
  rewrite (add_term_sem K k0 kadd keq_dec phi phi_0 phi_add) by auto. rewrite phi_mul, phi_m1. simpl. ring.
Qed.
Theorem isub_nozero o' : forall o, nozero o -> nozero (isub o o').
Proof.
  unfold isub. induction o' as [|[l c] o' IH]; intros o H; simpl; auto.
  apply IH. apply (add_term_nozero K k0 kadd keq_dec kadd_0_l). exact H.
Qed.
Lemma isub_wf o' : forall o, wf_op o -> wf_op o' -> wf_op (isub o o').
Proof.
  unfold isub. induction o' as [|[l c] o' IH]; intros o Hwf Hwf'; simpl; auto.
  inversion Hwf' as [|? ? Hl Hw]; subst. apply IH; auto using (add_term_wf K k0 kadd keq_dec).
Qed.

Theorem idiv_sem sinv s o psi b : phi s * phi sinv = C1 ->
  phi s * osem (idiv sinv o) psi b = osem o psi b.
Proof.
  intros Hs. unfold Operator.osem, idiv. induction o as [|[l c] o IH]; simpl; [ring|].
  rewrite phi_mul.
  transitivity (phi c * (phi s * phi sinv) * lsemL l psi b
                + phi s * fold_right (fun lc acc => phi (snd lc) * lsemL (fst lc) psi b + acc) C0
                                      (map (fun lc => (fst lc, kmul (snd lc) sinv)) o)); [ring|].
  rewrite IH, Hs. ring.
Qed.

(* commutator(op1, op2) = op1 * op2 - op2 * op1 *)
Variable ptab : ptable.
Hypothesis ptab_good : ptab_ok ptab = true.
Variable kphase : Zw -> K.
Hypothesis kphase_phi : forall z, phi (kphase z) = zw_eval z.
Notation omul := (omul K k0 kadd kmul keq_dec ptab kphase).

Lemma omul_wf a b : wf_op a -> wf_op b -> wf_op (omul a b).
Proof.
  intros Ha Hb. unfold Operator.omul.
  exact (proj1 (outer_sem K k0 kadd kmul keq_dec phi phi_0 phi_add phi_mul ptab ptab_good kphase kphase_phi b
                          (fun _ => C0) (fun _ => false) Hb a [] Ha (Forall_nil _))).
Qed.

Definition commutator (a b : op) : op := isub (omul a b) (omul b a).

Theorem commutator_sem a b psi x : wf_op a -> wf_op b ->
  osem (commutator a b) psi x = osem a (osem b psi) x - osem b (osem a psi) x.
Proof.
  intros Ha Hb. unfold commutator. rewrite isub_sem by (apply omul_wf; auto).
  rewrite !(omul_sem K k0 kadd kmul keq_dec phi phi_0 phi_add phi_mul ptab ptab_good kphase kphase_phi) by auto.
  reflexivity.
Qed.
Theorem commutator_nozero a b : nozero (commutator a b).
Proof. unfold commutator. apply isub_nozero. apply (omul_nozero K k0 kadd kmul keq_dec kadd_0_l). Qed.
End OpExt.
