(* Model of core/utils/concurrent.py: execute_concurrently.
   input_counts / input_list are modelled exactly as written (floor divisions, prefix-sum
   slices); Executor.map is a contract: results are returned in submission order. *)
From Coq Require Import List Arith Lia.
Import ListNotations.

Definition input_counts (n c : nat) : list nat := map (fun i => (n + i) / c) (seq 0 c).
Definition slice {A} (l : list A) (a b : nat) : list A := firstn (b - a) (skipn a l).   (* l[a:b] *)
Definition psum (cs : list nat) (i : nat) : nat := list_sum (firstn i cs).
Definition input_list {A} (l : list A) (c : nat) : list (list A) :=
  let cs := input_counts (length l) c in
  map (fun i => slice l (psum cs i) (psum cs (S i))) (seq 0 c).

(* executor = None: sequential; Some map-like executor: one call of fn per chunk, results chained *)
Definition execute_concurrently {A B C} (fn : C -> list A -> list B) (common : C) (l : list A)
           (with_executor : bool) (c : nat) : list B :=
  if with_executor then concat (map (fn common) (input_list l c)) else fn common l.

(* ------------------------------------------------------------------ chunk sizes *)
Lemma list_sum_map_shift (f : nat -> nat) c :
  list_sum (map f (seq 1 c)) + f 0 = list_sum (map f (seq 0 c)) + f c.
Proof.
  induction c as [|c IH]; simpl; [lia|].
  assert (E1 : seq 1 (S c) = seq 1 c ++ [S c]) by (rewrite seq_S; reflexivity).
  assert (E0 : seq 0 (S c) = seq 0 c ++ [c]) by (rewrite seq_S; reflexivity).
  change (list_sum (map f (seq 1 (S c))) + f 0 = list_sum (map f (seq 0 (S c))) + f (S c)).
  rewrite E1, E0, !map_app, !list_sum_app. simpl. lia.
Qed.

Theorem chunk_counts_sum c : 1 <= c -> forall n, list_sum (input_counts n c) = n.
Proof.
  intros Hc. unfold input_counts. induction n as [|n IH].
  - simpl. assert (H : forall k, k <= c -> list_sum (map (fun i => i / c) (seq 0 k)) = 0).
    { induction k as [|k IHk]; intros Hk; [reflexivity|].
      rewrite seq_S, map_app, list_sum_app, IHk by lia. simpl. rewrite Nat.div_small by lia. lia. }
    apply H; lia.
  - pose proof (list_sum_map_shift (fun i => (n + i) / c) c) as Hs.
    rewrite <- seq_shift, map_map in Hs.
    rewrite (map_ext (fun i => (S n + i) / c) (fun x => (n + S x) / c)) by (intros; f_equal; lia).
    rewrite IH in Hs. rewrite Nat.add_0_r in Hs.
    assert (E : (n + c) / c = n / c + 1).
    { replace (n + c) with (n + 1 * c) by lia. rewrite Nat.div_add by lia. reflexivity. }
    lia.
Qed.

Lemma input_counts_length n c : length (input_counts n c) = c.
Proof. unfold input_counts. rewrite map_length, seq_length. reflexivity. Qed.

(* ------------------------------------------------------------------ chunks *)
Fixpoint split_by {A} (cs : list nat) (l : list A) : list (list A) :=
  match cs with [] => [] | c :: cs' => firstn c l :: split_by cs' (skipn c l) end.

Lemma split_by_concat {A} cs : forall (l : list A), length l <= list_sum cs -> concat (split_by cs l) = l.
Proof.
  induction cs as [|c cs IH]; intros l H; simpl in *.
  - destruct l; simpl in *; [reflexivity | lia].
  - rewrite IH; [apply firstn_skipn|]. rewrite skipn_length. lia.
Qed.

Lemma skipn_add {A} (l : list A) : forall a b, skipn a (skipn b l) = skipn (b + a) l.
Proof. intros a b. revert l. induction b as [|b IH]; intros l; simpl; [reflexivity|].
  destruct l; simpl; [destruct a; reflexivity | apply IH]. Qed.

Lemma slices_split {A} (l : list A) cs : forall off,
  map (fun i => slice l (off + psum cs i) (off + psum cs (S i))) (seq 0 (length cs))
  = split_by cs (skipn off l).
Proof.
  induction cs as [|c cs IH]; intros off; [reflexivity|].
  cbn [length split_by]. rewrite <- cons_seq. cbn [map]. f_equal.
  - unfold slice, psum. simpl.
    replace (off + (c + 0) - (off + 0)) with c by lia. replace (off + 0) with off by lia. reflexivity.
  - rewrite <- seq_shift, map_map.
    rewrite (map_ext _ (fun i => slice l ((off + c) + psum cs i) ((off + c) + psum cs (S i)))).
    + rewrite IH. f_equal. rewrite skipn_add. reflexivity.
    + intros i. unfold psum. simpl. f_equal; lia.
Qed.

(* nothing dropped, duplicated or reordered: the chunks concatenate to the input, for every
   batch size (0, < c, not divisible by c, ...) and every concurrency >= 1 *)
Theorem chunks_concat {A} (l : list A) c : 1 <= c -> concat (input_list l c) = l.
Proof.
  intros Hc. unfold input_list.
  pose proof (slices_split l (input_counts (length l) c) 0) as Hs.
  rewrite input_counts_length in Hs. simpl in Hs. rewrite Hs.
  apply split_by_concat. rewrite chunk_counts_sum by auto. lia.
Qed.

Theorem chunks_count {A} (l : list A) c : length (input_list l c) = c.
Proof. unfold input_list. rewrite map_length, seq_length. reflexivity. Qed.

(* fn processes its second argument element-wise (list homomorphism) *)
Definition list_hom {A B C} (fn : C -> list A -> list B) : Prop :=
  forall common a b, fn common (a ++ b) = fn common a ++ fn common b.

Lemma hom_concat {A B C} (fn : C -> list A -> list B) common : list_hom fn ->
  forall ls, concat (map (fn common) ls) = fn common (concat ls).
Proof.
  intros H ls. induction ls as [|l ls IH]; simpl.
  - pose proof (H common [] []) as E. simpl in E.
    destruct (fn common []) as [|x xs] eqn:E0; [reflexivity|].
    exfalso. apply (f_equal (@length B)) in E. rewrite app_length in E. simpl in E. lia.
  - rewrite IH, H. reflexivity.
Qed.

(* one result per input, in input order, equal to the sequential path *)
Theorem execute_concurrently_spec {A B C} (fn : C -> list A -> list B) common l ex c :
  list_hom fn -> 1 <= c ->
  execute_concurrently fn common l ex c = fn common l.
Proof.
  intros H Hc. unfold execute_concurrently. destruct ex; [|reflexivity].
  rewrite hom_concat by auto. rewrite chunks_concat by auto. reflexivity.
Qed.

(* ------------------------------------------------------------------ interleavings *)
(* Worker tasks are sequences of atomic steps on a shared store.  If steps of different
   tasks commute (they write only task-private locations and read only locations nobody
   writes), every interleaving ends in the same store as running the tasks one after another. *)
Section Interleave.
Variable store : Type.
Definition step := store -> store.
Definition run (l : list step) (s : store) : store := fold_left (fun s f => f s) l s.
Definition commute (f g : step) : Prop := forall s, f (g s) = g (f s).

Inductive interleave : list step -> list step -> list step -> Prop :=
| il_nil_l t : interleave [] t t
| il_nil_r t : interleave t [] t
| il_l f t1 t2 l : interleave t1 t2 l -> interleave (f :: t1) t2 (f :: l)
| il_r g t1 t2 l : interleave t1 t2 l -> interleave t1 (g :: t2) (g :: l).

Lemma run_app l l' s : run (l ++ l') s = run l' (run l s).
Proof. unfold run. apply fold_left_app. Qed.

Lemma commute_run g t : Forall (fun f => commute f g) t -> forall s, run t (g s) = g (run t s).
Proof.
  induction 1 as [|f t Hf Ht IH]; intros s; [reflexivity|].
  simpl. rewrite <- IH. f_equal. apply (Hf s).
Qed.

Theorem interleave_serializable t1 t2 l : interleave t1 t2 l ->
  Forall (fun g => Forall (fun f => commute f g) t1) t2 ->
  forall s, run l s = run t2 (run t1 s).
Proof.
  induction 1 as [t|t|f t1 t2 l Hi IH|g t1 t2 l Hi IH]; intros Hc s.
  - reflexivity.
  - reflexivity.
  - simpl. apply IH. rewrite Forall_forall in *. intros g Hg. specialize (Hc g Hg).
    inversion Hc; auto.
  - simpl. inversion Hc as [|? ? Hg Hc']; subst. rewrite IH by auto.
    rewrite (commute_run g t1 Hg). reflexivity.
Qed.
End Interleave.
