(* Model of core/operator/operator.py: Operator = dict PauliLabel -> coefficient.
   Generic in the coefficient type K (decidable equality, ring operations, a homomorphism
   phi into C): K = C for the theorems, K = Z[w] (Gaussian integers) for execution.
   Denotation: osem o = sum coef * [[label]] as an operator on registers of any size. *)
From Coq Require Import ZArith List Bool Arith Lia Reals FunctionalExtensionality Permutation.
From QP Require Import Cx Zw Asum FMat Lpoly Apply Local Gates Rsem.
From QPM Require Import Transpile Pauli.
Import ListNotations.
Local Open Scope C_scope.

(* ---------------------------------------------------------------- labels as finite maps *)
Definition label_sub (l l' : label) : bool :=
  forallb (fun ip => match plookup (fst ip) l' with Some q => pauli_eqb (snd ip) q | None => false end) l.
Definition label_eqb (l l' : label) : bool := label_sub l l' && label_sub l' l.

Lemma pauli_eqb_eq a b : pauli_eqb a b = true -> a = b.
Proof. destruct a, b; simpl; intros; try discriminate; reflexivity. Qed.

Lemma plookup_In i q l : plookup i l = Some q -> In (i, q) l.
Proof. induction l as [|[j r] l IH]; simpl; [discriminate|].
  destruct (Nat.eqb_spec i j) as [->|Hne]; [intros E; inversion E; auto | auto]. Qed.

Lemma label_sub_In l l' : label_sub l l' = true -> forall x, In x l -> In x l'.
Proof.
  unfold label_sub. rewrite forallb_forall. intros H [i p] Hin. specialize (H _ Hin). simpl in H.
  destruct (plookup i l') as [q|] eqn:E; [|discriminate]. apply pauli_eqb_eq in H. subst. apply plookup_In, E.
Qed.

Lemma NoDup_keys_pairs (l : label) : NoDup (keys l) -> NoDup l.
Proof. unfold keys. apply NoDup_map_inv. Qed.

Lemma psem_swap_front i p j q rest : i <> j ->
  csem (psem (i, p) :: psem (j, q) :: rest) = csem (psem (j, q) :: psem (i, p) :: rest).
Proof.
  intros H. change (csem ([psem (i, p); psem (j, q)] ++ rest) = csem ([psem (j, q); psem (i, p)] ++ rest)).
  rewrite !csem_app', psem_comm by auto. reflexivity.
Qed.

Lemma lsemL_perm l l' : Permutation l l' -> NoDup (keys l) -> lsemL l = lsemL l'.
Proof.
  unfold lsemL. induction 1 as [|x l l' Hp IH|[i p] [j q] l|l l' l'' Hp1 IH1 Hp2 IH2]; intros Hnd.
  - reflexivity.
  - simpl. rewrite !csem_cons. inversion Hnd; subst. rewrite IH by auto. reflexivity.
  - simpl. apply psem_swap_front. simpl in Hnd. inversion Hnd as [|? ? Hn _]; subst.
    intros ->. apply Hn. left; reflexivity.
  - rewrite IH1 by auto. apply IH2.
    unfold keys. eapply Permutation_NoDup; [apply Permutation_map, Hp1 | exact Hnd].
Qed.

Lemma label_eqb_sem l l' : label_eqb l l' = true -> NoDup (keys l) -> NoDup (keys l') -> lsemL l = lsemL l'.
Proof.
  unfold label_eqb. intros H H1 H2. apply andb_true_iff in H as [Ha Hb].
  apply lsemL_perm; auto. apply NoDup_Permutation; auto using NoDup_keys_pairs.
  intros x; split; [apply label_sub_In, Ha | apply label_sub_In, Hb].
Qed.

(* linearity of label denotations *)
Lemma apply_lin_add M qs psi1 psi2 b :
  apply M qs (fun x => psi1 x + psi2 x) b = apply M qs psi1 b + apply M qs psi2 b.
Proof. unfold apply. rewrite <- asum_add. apply asum_ext; intros; ring. Qed.

Lemma csem_add gs : forall psi1 psi2,
  csem gs (fun x => psi1 x + psi2 x) = fun b => csem gs psi1 b + csem gs psi2 b.
Proof.
  induction gs as [|g gs IH]; intros psi1 psi2; [reflexivity|].
  rewrite !csem_cons.
  replace (lsem g (fun x => psi1 x + psi2 x)) with (fun x => lsem g psi1 x + lsem g psi2 x)
    by (apply functional_extensionality; intros; symmetry; apply apply_lin_add).
  apply IH.
Qed.

(* ---------------------------------------------------------------- operators *)
Section Op.
Variable K : Type.
Variables (k0 : K) (kadd kmul : K -> K -> K).
Variable keq_dec : forall x y : K, {x = y} + {x <> y}.
Variable phi : K -> C.
Hypothesis phi_0 : phi k0 = C0.
Hypothesis phi_add : forall x y, phi (kadd x y) = phi x + phi y.
Hypothesis phi_mul : forall x y, phi (kmul x y) = phi x * phi y.

Definition op := list (label * K).

Fixpoint oget (o : op) (l : label) : option K :=
  match o with [] => None | (l', c) :: o' => if label_eqb l l' then Some c else oget o' l end.
Fixpoint oset (o : op) (l : label) (c : K) : op :=
  match o with
  | [] => [(l, c)]
  | (l', c') :: o' => if label_eqb l l' then (l', c) :: o' else (l', c') :: oset o' l c
  end.
Fixpoint odel (o : op) (l : label) : op :=
  match o with [] => [] | (l', c') :: o' => if label_eqb l l' then o' else (l', c') :: odel o' l end.

(* Operator.add_term *)
Definition add_term (o : op) (l : label) (c : K) : op :=
  if keq_dec c k0 then o else
  let nc := kadd (match oget o l with Some x => x | None => k0 end) c in
  if keq_dec nc k0 then (match oget o l with Some _ => odel o l | None => oset o l nc end)
  else oset o l nc.
(* __iadd__ / __add__ (on a copy) *)
Definition iadd (o o' : op) : op := fold_left (fun acc lc => add_term acc (fst lc) (snd lc)) o' o.
(* scalar multiple: Operator({p: s * c}) *)
Definition oscale (s : K) (o : op) : op := map (fun lc => (fst lc, kmul s (snd lc))) o.

Definition osem (o : op) : Op :=
  fun psi b => fold_right (fun lc acc => phi (snd lc) * lsemL (fst lc) psi b + acc) C0 o.

Definition wf_op (o : op) : Prop := Forall (fun lc => NoDup (keys (fst lc))) o.
Definition nozero (o : op) : Prop := Forall (fun lc => snd lc <> k0) o.

Lemma oget_sem o l c psi b : wf_op o -> NoDup (keys l) -> oget o l = Some c ->
  osem o psi b = phi c * lsemL l psi b + osem (odel o l) psi b.
Proof.
  induction o as [|[l' c'] o IH]; intros Hwf Hl H; simpl in *; [discriminate|].
  inversion Hwf as [|? ? Hl' Hwf']; subst. simpl in Hl'.
  destruct (label_eqb l l') eqn:E.
  - inversion H; subst. rewrite (label_eqb_sem l l' E Hl Hl'). reflexivity.
  - simpl. rewrite (IH Hwf' Hl H). ring.
Qed.

Lemma odel_wf o l : wf_op o -> wf_op (odel o l).
Proof. induction o as [|[l' c'] o IH]; intros H; simpl; auto. inversion H; subst.
  destruct (label_eqb l l'); auto. constructor; auto. apply IH; auto. Qed.
Lemma oset_wf o l c : wf_op o -> NoDup (keys l) -> wf_op (oset o l c).
Proof. induction o as [|[l' c'] o IH]; intros H Hl; simpl.
  - constructor; auto.
  - inversion H; subst. destruct (label_eqb l l'); constructor; auto. apply IH; auto. Qed.

Lemma oset_sem_none o l c psi b : oget o l = None ->
  osem (oset o l c) psi b = osem o psi b + phi c * lsemL l psi b.
Proof.
  induction o as [|[l' c'] o IH]; intros H; simpl in *; [ring|].
  destruct (label_eqb l l'); [discriminate|]. simpl. rewrite IH by auto. ring.
Qed.
Lemma oset_sem_some o l c c0 psi b : wf_op o -> NoDup (keys l) -> oget o l = Some c0 ->
  osem (oset o l c) psi b = phi c * lsemL l psi b + osem (odel o l) psi b.
Proof.
  induction o as [|[l' c'] o IH]; intros Hwf Hl H; simpl in *; [discriminate|].
  inversion Hwf as [|? ? Hl' Hwf']; subst. simpl in Hl'.
  destruct (label_eqb l l') eqn:E.
  - simpl. rewrite (label_eqb_sem l l' E Hl Hl'). reflexivity.
  - simpl. rewrite (IH Hwf' Hl H). ring.
Qed.

(* add_term adds exactly one term to the denotation (cancelling terms disappear) *)
Theorem add_term_sem o l c psi b : wf_op o -> NoDup (keys l) ->
  osem (add_term o l c) psi b = osem o psi b + phi c * lsemL l psi b.
Proof.
  intros Hwf Hl. unfold add_term.
  destruct (keq_dec c k0) as [->|Hc]; [rewrite phi_0; ring|].
  destruct (oget o l) as [c0|] eqn:Eg.
  - destruct (keq_dec (kadd c0 c) k0) as [Hz|Hnz].
    + rewrite (oget_sem o l c0 psi b Hwf Hl Eg).
      assert (E : phi c0 + phi c = C0) by (rewrite <- phi_add, Hz; apply phi_0).
      transitivity ((phi c0 + phi c) * lsemL l psi b + osem (odel o l) psi b); [rewrite E; ring | ring].
    + rewrite (oset_sem_some o l _ c0 psi b Hwf Hl Eg), (oget_sem o l c0 psi b Hwf Hl Eg), phi_add. ring.
  - destruct (keq_dec (kadd k0 c) k0) as [Hz|Hnz]; rewrite (oset_sem_none o l _ psi b Eg), phi_add, phi_0; ring.
Qed.

Lemma add_term_wf o l c : wf_op o -> NoDup (keys l) -> wf_op (add_term o l c).
Proof.
  intros Hwf Hl. unfold add_term. destruct (keq_dec c k0); auto.
  destruct (keq_dec _ k0); [destruct (oget o l)|]; auto using odel_wf, oset_wf.
Qed.

(* terms whose coefficients cancel exactly disappear: no stored coefficient is zero *)
Lemma odel_nozero o l : nozero o -> nozero (odel o l).
Proof. induction o as [|[l' c'] o IH]; intros H; simpl; auto. inversion H; subst.
  destruct (label_eqb l l'); auto. constructor; auto. apply IH; auto. Qed.
Lemma oset_nozero o l c : nozero o -> c <> k0 -> nozero (oset o l c).
Proof. induction o as [|[l' c'] o IH]; intros H Hc; simpl.
  - constructor; auto.
  - inversion H; subst. destruct (label_eqb l l'); constructor; auto. apply IH; auto. Qed.

Hypothesis kadd_0_l : forall x, kadd k0 x = x.

Theorem add_term_nozero o l c : nozero o -> nozero (add_term o l c).
Proof.
  intros H. unfold add_term. destruct (keq_dec c k0) as [|Hc]; auto.
  destruct (oget o l) as [c0|] eqn:Eg.
  - destruct (keq_dec (kadd c0 c) k0); [apply odel_nozero | apply oset_nozero]; auto.
  - destruct (keq_dec (kadd k0 c) k0) as [Hz|Hnz]; [rewrite kadd_0_l in Hz; contradiction|].
    apply oset_nozero; auto.
Qed.

(* += is a homomorphism, any number of terms *)
Theorem iadd_sem o' : forall o psi b, wf_op o -> wf_op o' ->
  osem (iadd o o') psi b = osem o psi b + osem o' psi b.
Proof.
  unfold iadd. induction o' as [|[l c] o' IH]; intros o psi b Hwf Hwf'; simpl; [ring|].
  inversion Hwf' as [|? ? Hl Hw]; subst. simpl in Hl.
  rewrite IH by (auto using add_term_wf). rewrite add_term_sem by auto. simpl. ring.
Qed.
Theorem iadd_nozero o' : forall o, nozero o -> nozero (iadd o o').
Proof. unfold iadd. induction o' as [|[l c] o' IH]; intros o H; simpl; auto. apply IH, add_term_nozero, H. Qed.

Theorem oscale_sem s o psi b : osem (oscale s o) psi b = phi s * osem o psi b.
Proof. unfold osem. induction o as [|[l c] o IH]; simpl; [ring|]. rewrite IH, phi_mul. ring. Qed.

(* ---- product: ret.add_term(pauli_product(p, q), coef * coef_other * phase) for all pairs *)
Variable ptab : ptable.
Hypothesis ptab_good : ptab_ok ptab = true.
Variable kphase : Zw -> K.                      (* the complex unit returned by pauli_product *)
Hypothesis kphase_phi : forall z, phi (kphase z) = zw_eval z.

Definition mul_inner (la : label) (ca : K) (b acc : op) : op :=
  fold_left (fun acc' lc' =>
    let '(l, ph) := pprod ptab la (fst lc') in
    add_term acc' l (kmul (kmul ca (snd lc')) (kphase ph))) b acc.
Definition mul_outer (a b acc : op) : op :=
  fold_left (fun acc lc => mul_inner (fst lc) (snd lc) b acc) a acc.
Definition omul (a b : op) : op := mul_outer a b [].

Lemma osem_lin_add o : forall psi1 psi2 b, wf_op o ->
  osem o (fun x => psi1 x + psi2 x) b = osem o psi1 b + osem o psi2 b.
Proof.
  unfold osem. induction o as [|[l c] o IH]; intros psi1 psi2 b Hwf; simpl; [ring|].
  inversion Hwf; subst. rewrite IH by auto.
  unfold lsemL. rewrite csem_add. ring.
Qed.
Lemma osem_lin_scale o : forall c psi b,
  osem o (fun x => c * psi x) b = c * osem o psi b.
Proof.
  unfold osem. induction o as [|[l k] o IH]; intros c psi b; simpl; [ring|].
  rewrite IH. pose proof (csem_lin (map psem l) c psi b) as L. unfold lsemL. rewrite L. ring.
Qed.

Lemma lsemL_over_osem la o : forall psi x, wf_op o ->
  lsemL la (osem o psi) x
  = fold_right (fun lc acc => phi (snd lc) * lsemL la (lsemL (fst lc) psi) x + acc) C0 o.
Proof.
  induction o as [|[l c] o IH]; intros psi x Hwf.
  - simpl. unfold osem; simpl. unfold lsemL.
    pose proof (csem_lin (map psem la) C0 (fun _ => C0) x) as L.
    replace (fun _ : Basis => C0) with (fun y : Basis => C0 * (fun _ : Basis => C0) y)
      by (apply functional_extensionality; intros; ring).
    rewrite L. ring.
  - inversion Hwf; subst. simpl.
    change (osem ((l, c) :: o) psi) with (fun y => phi c * lsemL l psi y + osem o psi y).
    unfold lsemL at 1. rewrite csem_add.
    pose proof (csem_lin (map psem la) (phi c) (lsemL l psi) x) as L. rewrite L.
    fold (lsemL la). rewrite IH by auto. reflexivity.
Qed.

Lemma inner_sem la ca b : NoDup (keys la) -> forall (acc : op) (psi : St) (x : Basis), wf_op acc -> wf_op b ->
  wf_op (mul_inner la ca b acc) /\
  osem (mul_inner la ca b acc) psi x = osem acc psi x
    + phi ca * fold_right (fun lc a0 => phi (snd lc) * lsemL la (lsemL (fst lc) psi) x + a0) C0 b.
Proof.
  intros Hla. unfold mul_inner. induction b as [|[lb cb] b IH]; intros acc psi x Hacc Hb; simpl.
  - split; auto. ring.
  - inversion Hb as [|? ? Hlb Hb']; subst. simpl in Hlb.
    pose proof (pprod_sound ptab ptab_good la lb Hla Hlb) as PS.
    destruct (pprod ptab la lb) as [l ph]. destruct PS as [Hl PS].
    specialize (IH (add_term acc l (kmul (kmul ca cb) (kphase ph))) psi x (add_term_wf _ _ _ Hacc Hl) Hb').
    destruct IH as [Hwf IH]. split; auto.
    rewrite IH, add_term_sem by auto. rewrite !phi_mul, kphase_phi, PS. ring.
Qed.

Lemma outer_sem b (psi : St) (x : Basis) : wf_op b -> forall (a acc : op), wf_op a -> wf_op acc ->
  wf_op (mul_outer a b acc) /\
  osem (mul_outer a b acc) psi x = osem acc psi x + osem a (osem b psi) x.
Proof.
  intros Hb. unfold mul_outer. induction a as [|[la ca] a IH]; intros acc Ha Hacc; simpl.
  - split; auto. ring.
  - inversion Ha as [|? ? Hla Ha']; subst. simpl in Hla.
    destruct (inner_sem la ca b Hla acc psi x Hacc Hb) as [Hw Hs].
    specialize (IH _ Ha' Hw). destruct IH as [Hw' IH]. split; auto.
    rewrite IH, Hs, (lsemL_over_osem la b psi x Hb). ring.
Qed.

(* op * op is the operator product: [[a * b]] = [[a]] o [[b]] *)
Theorem omul_sem a b psi x : wf_op a -> wf_op b ->
  osem (omul a b) psi x = osem a (osem b psi) x.
Proof.
  intros Ha Hb. unfold omul. destruct (outer_sem b psi x Hb a [] Ha (Forall_nil _)) as [_ E].
  rewrite E. simpl. ring.
Qed.

Lemma inner_nozero la ca b : forall acc, nozero acc -> nozero (mul_inner la ca b acc).
Proof. unfold mul_inner. induction b as [|[lb cb] b IH]; intros acc H; simpl; auto.
  destruct (pprod ptab la lb) as [l ph]. apply IH, add_term_nozero, H. Qed.
Theorem omul_nozero a b : nozero (omul a b).
Proof.
  unfold omul, mul_outer. assert (G : forall a acc, nozero acc ->
    nozero (fold_left (fun acc lc => mul_inner (fst lc) (snd lc) b acc) a acc)).
  { induction a0 as [|[la ca] a0 IH]; intros acc H; simpl; auto. apply IH, inner_nozero, H. }
  apply G. constructor.
Qed.
End Op.
