(* Model of core/utils/bit.py parity_sign_of_bits and of bitwise_pauli_reconstructor_factory
   (core/measurement/bitwise_commuting_pauli.py): the reconstructed value of a Pauli string from an
   outcome word is the product of the per-qubit Z eigenvalues on its support, for words and qubit
   indices of any size (Python ints are unbounded, so is N). *)
From Coq Require Import ZArith NArith List Bool Arith Lia.
From QPM Require Import Pauli Remap Grouping.
Import ListNotations.

(* parity of the number of set bits *)
Fixpoint pos_odd (p : positive) : bool :=
  match p with xH => true | xO q => pos_odd q | xI q => negb (pos_odd q) end.
Definition n_odd (n : N) : bool := match n with N0 => false | Npos p => pos_odd p end.
Definition parity_sign (bits : N) : Z := if n_odd bits then (-1)%Z else 1%Z.
Definition reconstruct (l : label) (bits : N) : Z :=
  match l with
  | [] => 1%Z
  | _ => parity_sign (N.land bits (N.lor (bsv_z l) (bsv_x l)))
  end.

(* the per-qubit eigenvalue product *)
Definition sign_prod (l : label) (bits : N) : Z :=
  fold_right (fun ip a => ((if N.testbit bits (N.of_nat (fst ip)) then (-1) else 1) * a)%Z) 1%Z l.

Lemma n_odd_double n : n_odd (N.double n) = n_odd n.
Proof. destruct n; reflexivity. Qed.
Lemma n_odd_succ_double n : n_odd (N.succ_double n) = negb (n_odd n).
Proof. destruct n; reflexivity. Qed.

Lemma pos_odd_lxor p : forall q, n_odd (Pos.lxor p q) = xorb (pos_odd p) (pos_odd q).
Proof.
  induction p as [p IH|p IH|]; intros [q|q|]; cbn [Pos.lxor pos_odd];
    rewrite ?n_odd_double, ?n_odd_succ_double; try rewrite IH; cbn [n_odd pos_odd];
    repeat match goal with |- context [pos_odd ?x] => destruct (pos_odd x) end; reflexivity.
Qed.
Lemma n_odd_lxor a b : n_odd (N.lxor a b) = xorb (n_odd a) (n_odd b).
Proof.
  destruct a as [|p]; destruct b as [|q]; cbn [N.lxor n_odd]; try reflexivity.
  all: try (destruct (pos_odd _); reflexivity).
  apply pos_odd_lxor.
Qed.
Lemma n_odd_pow2 i : n_odd (pow2 i) = true.
Proof.
  unfold pow2. rewrite N.shiftl_1_l. induction i as [|i IH]; [reflexivity|].
  rewrite Nat2N.inj_succ, N.pow_succ_r'. 
  replace (2 * 2 ^ N.of_nat i)%N with (N.double (2 ^ N.of_nat i)) by (rewrite N.double_spec; reflexivity).
  rewrite n_odd_double. exact IH.
Qed.

Definition support_mask (l : label) : N := N.lor (bsv_z l) (bsv_x l).

Lemma support_mask_bit l j : NoDup (keys l) ->
  N.testbit (support_mask l) (N.of_nat j) = match plookup j l with Some _ => true | None => false end.
Proof.
  intros H. unfold support_mask. rewrite N.lor_spec, bsv_z_bit, bsv_x_bit by exact H.
  destruct (plookup j l) as [[| |]|]; reflexivity.
Qed.

Lemma support_mask_cons i p l : NoDup (keys ((i, p) :: l)) ->
  support_mask ((i, p) :: l) = N.lxor (pow2 i) (support_mask l).
Proof.
  intros H. inversion H as [|? ? Hi Hl]; subst. apply testbit_ext_nat. intros j.
  rewrite N.lxor_spec, (support_mask_bit _ j H), (support_mask_bit l j Hl), pow2_testbit. cbn [plookup].
  destruct (Nat.eqb_spec j i) as [->|Hne].
  - rewrite (plookup_notin i l Hi). reflexivity.
  - destruct (plookup j l); reflexivity.
Qed.

Lemma land_pow2 bits i : N.land bits (pow2 i) = if N.testbit bits (N.of_nat i) then pow2 i else 0%N.
Proof.
  apply testbit_ext_nat. intros j. rewrite N.land_spec, pow2_testbit.
  destruct (Nat.eqb_spec j i) as [->|Hne].
  - destruct (N.testbit bits (N.of_nat i)); [rewrite pow2_testbit, Nat.eqb_refl; reflexivity | rewrite N.bits_0; reflexivity].
  - rewrite andb_false_r. destruct (N.testbit bits (N.of_nat i)); [rewrite pow2_testbit|rewrite N.bits_0; reflexivity].
    symmetry. apply Nat.eqb_neq. exact Hne.
Qed.

Lemma parity_sign_masked l bits : NoDup (keys l) ->
  parity_sign (N.land bits (support_mask l)) = sign_prod l bits.
Proof.
  induction l as [|[i p] l IH]; intros H.
  - unfold support_mask, bsv_z, bsv_x, lsum. cbn. rewrite N.land_0_r. reflexivity.
  - inversion H as [|? ? Hi Hl]; subst. rewrite (support_mask_cons i p l H).
    assert (E : N.land bits (N.lxor (pow2 i) (support_mask l))
                = N.lxor (N.land bits (pow2 i)) (N.land bits (support_mask l))).
    { apply N.bits_inj. intros k. rewrite !N.lxor_spec, !N.land_spec, N.lxor_spec.
      destruct (N.testbit bits k), (N.testbit (pow2 i) k), (N.testbit (support_mask l) k); reflexivity. }
    rewrite E. unfold parity_sign in *. rewrite n_odd_lxor, land_pow2. cbn [sign_prod fold_right fst].
    fold (sign_prod l bits). rewrite <- (IH Hl).
    destruct (N.testbit bits (N.of_nat i)); [rewrite n_odd_pow2|cbn [n_odd]];
      destruct (n_odd (N.land bits (support_mask l))); reflexivity.
Qed.

Theorem reconstruct_is_eigenvalue_product l bits : NoDup (keys l) -> reconstruct l bits = sign_prod l bits.
Proof.
  intros H. destruct l as [|ip l]; [reflexivity|]. unfold reconstruct. apply (parity_sign_masked _ bits H).
Qed.
