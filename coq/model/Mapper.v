(* Model of openfermion/transforms/__init__.py: OpenFermionQubitMapping.state_mapper / inv_state_mapper
   (generic in the GF(2) matrix M of the mapped number operators and their signs, which come from
   OpenFermion), _get_scbk_parity_factor, and of openfermion/utils/post_selection_filters.py.
   Occupation sets and qubit bit strings are N (bit i = orbital / qubit i), as the Python ints. *)
From Coq Require Import ZArith NArith List Bool Arith Lia.
From QPM Require Import Remap Reconstruct GF2.
Import ListNotations.

Section Map.
Variable n : nat.                 (* n_spin_orbitals *)
Variable nq : nat.                (* n_qubits *)
Variable M : list N.              (* _inv_trans_mat: row i = Z support of the mapped 1 - 2 n_i *)
Variable B : list N.              (* _trans_mat = inverse(_inv_trans_mat) *)
Variable smask : N.               (* bit i set iff _signs[i] = -1 *)

Definition mask (k : nat) : N := N.ones (N.of_nat k).
(* occ_list[i] = (i in occ) xor (sign_i = -1); qubit_vector = trans_mat @ occ; bits = binary & (2^nq - 1) *)
Definition state_mapper (occ : N) : N := N.land (mulv B (N.lxor occ smask)) (mask nq).
(* bit_array = the nq low bits (+ dropped bits = 0); occupancy = inv_trans_mat @ bits;
   orbital i occupied iff (o_i = 1 and sign +) or (o_i = 0 and sign -) *)
Definition inv_state_mapper (bits : N) : N := N.land (N.lxor (mulv M (N.land bits (mask nq))) smask) (mask n).
(* eigenvalue of the mapped number operator of orbital i on |q> is -1 (occupied) iff this bit is set *)
Definition number_readback (i : nat) (q : N) : bool :=
  xorb (N.testbit smask (N.of_nat i)) (dot (nth i M 0%N) q).

Lemma mask_testbit k j : N.testbit (mask k) (N.of_nat j) = (j <? k).
Proof.
  unfold mask. destruct (Nat.ltb_spec j k) as [H|H].
  - apply N.ones_spec_low. lia.
  - apply N.ones_spec_high. lia.
Qed.
Lemma land_mask_fits k x : fits k x -> N.land x (mask k) = x.
Proof.
  intros H. apply testbit_ext_nat. intros j. rewrite N.land_spec, mask_testbit.
  destruct (Nat.ltb_spec j k) as [Hj|Hj]; [apply andb_true_r|]. rewrite (H j Hj). reflexivity.
Qed.
Lemma land_mask_is_fit k x : fits k (N.land x (mask k)).
Proof. intros j Hj. rewrite N.land_spec, mask_testbit. replace (j <? k) with false by (symmetry; apply Nat.ltb_ge; lia). apply andb_false_r. Qed.

Hypothesis Hlen : length M = n.
Hypothesis Hfull : nq = n.                     (* no qubit is dropped: Jordan-Wigner, Bravyi-Kitaev *)
Hypothesis Hok : gj_ok M B.                    (* inverse() reached [I | B] *)
Hypothesis Hs : fits n smask.

Lemma B_len : length B = n.
Proof. destruct Hok as [s [Hg [_ [Hf Hb]]]]. rewrite Hb, map_length. rewrite <- (map_length fst), Hf, map_length, seq_length. exact Hlen. Qed.

Theorem inv_of_state occ : fits n occ -> inv_state_mapper (state_mapper occ) = occ.
Proof.
  intros Ho. unfold inv_state_mapper, state_mapper. rewrite Hfull.
  assert (Hx : fits n (N.lxor occ smask)) by (apply fits_lxor; auto).
  assert (Hm : fits n (mulv B (N.lxor occ smask))) by (rewrite <- B_len; apply mulv_fits).
  rewrite !(land_mask_fits n _ Hm).
  rewrite <- Hlen in Hx. destruct (gj_ok_inverse M B Hok _ Hx) as [_ E]. rewrite E.
  rewrite N.lxor_assoc, N.lxor_nilpotent, N.lxor_0_r. apply land_mask_fits. exact Ho.
Qed.

Theorem state_of_inv bits : fits n bits -> state_mapper (inv_state_mapper bits) = bits.
Proof.
  intros Hb. unfold inv_state_mapper, state_mapper. rewrite Hfull. rewrite (land_mask_fits n bits Hb).
  assert (Hm : fits n (N.lxor (mulv M bits) smask)).
  { apply fits_lxor; [rewrite <- Hlen; apply mulv_fits|exact Hs]. }
  rewrite (land_mask_fits n _ Hm). rewrite N.lxor_assoc, N.lxor_nilpotent, N.lxor_0_r.
  rewrite <- Hlen in Hb. destruct (gj_ok_inverse M B Hok _ Hb) as [E _]. rewrite E.
  apply land_mask_fits. rewrite <- Hlen. exact Hb.
Qed.

(* the mapped number operators read back exactly the occupation on the mapped state *)
Theorem number_operators_read_back occ i : fits n occ -> i < n ->
  number_readback i (state_mapper occ) = N.testbit occ (N.of_nat i).
Proof.
  intros Ho Hi. unfold number_readback, state_mapper. rewrite Hfull.
  assert (Hx : fits n (N.lxor occ smask)) by (apply fits_lxor; auto).
  assert (Hm : fits n (mulv B (N.lxor occ smask))) by (rewrite <- B_len; apply mulv_fits).
  rewrite (land_mask_fits n _ Hm).
  assert (E : dot (nth i M 0%N) (mulv B (N.lxor occ smask)) = N.testbit (N.lxor occ smask) (N.of_nat i)).
  { rewrite <- Hlen in Hx. destruct (gj_ok_inverse M B Hok _ Hx) as [_ E2].
    rewrite <- E2 at 2. rewrite mulv_testbit, Hlen. replace (i <? n) with true by (symmetry; apply Nat.ltb_lt; exact Hi).
    reflexivity. }
  rewrite E, N.lxor_spec. destruct (N.testbit smask (N.of_nat i)), (N.testbit occ (N.of_nat i)); reflexivity.
Qed.
End Map.

(* ------------------------------------------------------------------ electron number and spin *)
(* counts of set bits at even positions (spin up), at odd positions (spin down) *)
Fixpoint pcounts (p : positive) : nat * nat :=
  match p with
  | xH => (1, 0)
  | xO q => let (u, d) := pcounts q in (d, u)
  | xI q => let (u, d) := pcounts q in (S d, u)
  end.
Definition counts (b : N) : nat * nat := match b with N0 => (0, 0) | Npos p => pcounts p end.
Definition popcount (b : N) : nat := fst (counts b) + snd (counts b).
(* occupation_state_sz: (n_up - n_down) / 2, kept as the integer 2 sz *)
Definition sz2 (b : N) : Z := Z.of_nat (fst (counts b)) - Z.of_nat (snd (counts b)).

(* create_jw_electron_number_post_selection_filter_fn: n_up = bin(bits)[-1:1:-2].count("1") ... *)
Definition jw_filter (n_e : nat) (sz2_req : option Z) (bits : N) : bool :=
  match sz2_req with
  | Some k => if Z.eqb (sz2 bits) k then Nat.eqb (popcount bits) n_e else false
  | None => Nat.eqb (popcount bits) n_e
  end.
(* create_bk_/scbk_electron_number_post_selection_filter_fn, given the inverse state mapper *)
Definition inv_filter (inv : N -> N) (n_e : nat) (sz2_req : option Z) (bits : N) : bool :=
  let occ := inv bits in
  match sz2_req with
  | Some k => if Z.eqb (sz2 occ) k then Nat.eqb (popcount occ) n_e else false
  | None => Nat.eqb (popcount occ) n_e
  end.

(* positions of the set bits, and the counts in terms of them *)
Fixpoint ppositions (p : positive) (i : nat) : list nat :=
  match p with
  | xH => [i]
  | xO q => ppositions q (S i)
  | xI q => i :: ppositions q (S i)
  end.
Definition positions (b : N) : list nat := match b with N0 => [] | Npos p => ppositions p 0 end.

Lemma pcounts_positions p : forall i,
  (if Nat.even i then pcounts p else (snd (pcounts p), fst (pcounts p)))
  = (length (filter Nat.even (ppositions p i)), length (filter Nat.odd (ppositions p i))).
Proof.
  induction p as [q IH|q IH|]; intros i; cbn [pcounts ppositions].
  - specialize (IH (S i)). rewrite Nat.even_succ in IH. cbn [filter]. rewrite <- Nat.negb_even.
    destruct (pcounts q) as [u d]. destruct (Nat.even i) eqn:Ei; cbn [negb fst snd length] in *.
    + rewrite <- Nat.negb_even, Ei in IH. cbn [negb] in IH. injection IH as <- <-. reflexivity.
    + rewrite <- Nat.negb_even, Ei in IH. cbn [negb] in IH. injection IH as <- <-. reflexivity.
  - specialize (IH (S i)). rewrite Nat.even_succ in IH.
    destruct (pcounts q) as [u d]. rewrite <- Nat.negb_even in IH. destruct (Nat.even i) eqn:Ei; cbn [negb fst snd] in *.
    + injection IH as <- <-. reflexivity.
    + injection IH as <- <-. reflexivity.
  - cbn [filter]. rewrite <- Nat.negb_even. destruct (Nat.even i); reflexivity.
Qed.

Theorem counts_positions b :
  counts b = (length (filter Nat.even (positions b)), length (filter Nat.odd (positions b))).
Proof. destruct b as [|p]; [reflexivity|]. exact (pcounts_positions p 0). Qed.

Lemma ppositions_spec p : forall i k, In k (ppositions p i) <-> (i <= k /\ Pos.testbit_nat p (k - i) = true).
Proof.
  induction p as [q IH|q IH|]; intros i k; cbn [ppositions].
  - cbn [In]. rewrite IH. split.
    + intros [<-|[H1 H2]]; [split; [lia|rewrite Nat.sub_diag; reflexivity]|].
      split; [lia|]. replace (k - i) with (S (k - S i)) by lia. exact H2.
    + intros [H1 H2]. destruct (Nat.eq_dec i k) as [->|Hne]; [left; reflexivity|right].
      split; [lia|]. replace (k - i) with (S (k - S i)) in H2 by lia. exact H2.
  - rewrite IH. split.
    + intros [H1 H2]. split; [lia|]. replace (k - i) with (S (k - S i)) by lia. exact H2.
    + intros [H1 H2]. destruct (Nat.eq_dec i k) as [->|Hne]; [rewrite Nat.sub_diag in H2; discriminate|].
      split; [lia|]. replace (k - i) with (S (k - S i)) in H2 by lia. exact H2.
  - cbn [In]. split.
    + intros [<-|[]]. split; [lia|rewrite Nat.sub_diag; reflexivity].
    + intros [H1 H2]. destruct (k - i) as [|d] eqn:E; [left; lia|discriminate].
Qed.
(* the positions are exactly the set bits: the JW image of an occupation set is the set itself *)
Theorem positions_spec b k : In k (positions b) <-> N.testbit b (N.of_nat k) = true.
Proof.
  destruct b as [|p]; cbn [positions].
  - rewrite N.bits_0. split; [intros []|discriminate].
  - rewrite ppositions_spec, Nat.sub_0_r, Ntestbit_Nbit. cbn [N.testbit_nat]. split; [intros [_ H]; exact H|intros H; split; [lia|exact H]].
Qed.

(* what the filters decide, in terms of the occupation set: exactly n_e occupied orbitals and, when a spin is
   requested, (#occupied even orbitals - #occupied odd orbitals) = 2 sz *)
Theorem jw_filter_spec n_e sz2_req bits :
  jw_filter n_e sz2_req bits = true <->
  length (positions bits) = n_e /\
  match sz2_req with
  | Some k => (Z.of_nat (length (filter Nat.even (positions bits))) - Z.of_nat (length (filter Nat.odd (positions bits))) = k)%Z
  | None => True
  end.
Proof.
  unfold jw_filter, popcount, sz2. rewrite counts_positions. cbn [fst snd].
  assert (Hlen : length (filter Nat.even (positions bits)) + length (filter Nat.odd (positions bits)) = length (positions bits)).
  { induction (positions bits) as [|k l IH]; [reflexivity|]. cbn [filter length]. rewrite <- Nat.negb_even.
    destruct (Nat.even k); cbn [negb length]; lia. }
  rewrite Hlen. destruct sz2_req as [k|].
  - destruct (Z.eqb_spec (Z.of_nat (length (filter Nat.even (positions bits))) - Z.of_nat (length (filter Nat.odd (positions bits)))) k) as [E|E].
    + rewrite Nat.eqb_eq. tauto.
    + split; [discriminate|tauto].
  - rewrite Nat.eqb_eq. tauto.
Qed.

(* the inverse-mapper based filters accept exactly the images of occupation sets with the requested
   electron number and spin, when the state mapper and its inverse are mutually inverse on n bits *)
Theorem inv_filter_accepts_exactly_images n (st inv : N -> N) n_e sz2_req :
  (forall occ, fits n occ -> inv (st occ) = occ) -> (forall b, fits n b -> st (inv b) = b) ->
  (forall b, fits n b -> fits n (inv b)) ->
  forall bits, fits n bits ->
  (inv_filter inv n_e sz2_req bits = true <->
   exists occ, fits n occ /\ st occ = bits /\ jw_filter n_e sz2_req occ = true).
Proof.
  intros H1 H2 H3 bits Hb. unfold inv_filter, jw_filter. split.
  - intros H. exists (inv bits). split; [apply H3; exact Hb|]. split; [apply H2; exact Hb|exact H].
  - intros [occ [Ho [E H]]]. rewrite <- E, (H1 occ Ho). exact H.
Qed.

(* _get_scbk_parity_factor: int(0.5 * (n_fermions + 2 sz)) truncates toward zero *)
Definition scbk_n_up (n_f : Z) (sz2 : Z) : Z := Z.quot (n_f + sz2) 2.
Definition scbk_parity (n_f sz2 : Z) : bool * bool := (Z.odd (scbk_n_up n_f sz2), Z.odd n_f).   (* true = factor -1 *)
Theorem scbk_parity_counts_spin_up (up down : nat) :
  scbk_n_up (Z.of_nat (up + down)) (Z.of_nat up - Z.of_nat down) = Z.of_nat up.
Proof.
  unfold scbk_n_up. replace (Z.of_nat (up + down) + (Z.of_nat up - Z.of_nat down))%Z with (Z.of_nat up * 2)%Z by lia.
  apply Z.quot_mul. lia.
Qed.
