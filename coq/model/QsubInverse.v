(* qsub: the generic Inverse resolver (lib/std/inverse.py, inverse_sub_resolver) and Controlled(Inverse(.)).
   A sub-routine is a global phase and a list of operations; its Inverse is built from the operations in REVERSE
   order, each replaced by its own inverse (itself when self-inverse), with the NEGATED phase.
   Theorems: (1) if every operation's replacement is an exact inverse, the inverse sub-routine is an exact inverse of
   the sub-routine, phase included - the induction step of the recursive resolver; (2) an exact inverse stays an
   inverse under a control qubit, whereas an inverse that is off by a phase e^{i a} <> 1 does NOT (the controlled
   pair then leaves a relative phase): why the phase bookkeeping of (1) is part of the property. *)
From Coq Require Import List Bool Arith Lia Reals FunctionalExtensionality.
From QP Require Import Cx Asum FMat Apply.
Import ListNotations.
Local Open Scope C_scope.

Section Sub.
Variable op : Type.
Variable sem : op -> Op.            (* what an operation (placed on its qubits) does *)
Variable inv : op -> op.            (* the replacement chosen by the resolver: o itself, or Inverse(o) *)

Definition sub : Type := (R * list op)%type.
Definition ops_sem (l : list op) : Op := fun psi => fold_left (fun p o => sem o p) l psi.
Definition sub_sem (s : sub) : Op := fun psi b => Cexp (fst s) * ops_sem (snd s) psi b.

(* the structure read off inverse_sub_resolver: traversal order and phase factor are parameters, so that the
   theorem can be asked about what the source says *)
Definition inverse_ops_gen (reversed : bool) (l : list op) : list op := map inv (if reversed then rev l else l).
Definition inverse_sub_gen (reversed : bool) (phase_scale : R) (s : sub) : sub :=
  ((phase_scale * fst s)%R, inverse_ops_gen reversed (snd s)).
Definition inverse_sub := inverse_sub_gen true (-1).

Lemma ops_sem_app l1 l2 psi : ops_sem (l1 ++ l2) psi = ops_sem l2 (ops_sem l1 psi).
Proof. unfold ops_sem. apply fold_left_app. Qed.

Lemma ops_sem_lin l : (forall o, In o l -> scal_lin (sem o)) -> scal_lin (ops_sem l).
Proof.
  induction l as [|o l IH]; intros H c psi b; [reflexivity|].
  unfold ops_sem. cbn [fold_left]. fold (ops_sem l).
  replace (sem o (fun x => c * psi x)) with (fun x => c * sem o psi x).
  - apply IH. intros o' Ho'. apply H. right; exact Ho'.
  - apply functional_extensionality; intros x. symmetry. apply H. left; reflexivity.
Qed.

Lemma ops_undo l : (forall o, In o l -> forall psi, sem (inv o) (sem o psi) = psi) ->
  forall psi, ops_sem (map inv (rev l)) (ops_sem l psi) = psi.
Proof.
  induction l as [|o l IH]; intros H psi; [reflexivity|].
  cbn [rev]. rewrite map_app, ops_sem_app. cbn [map].
  unfold ops_sem at 3. cbn [fold_left]. fold (ops_sem l).
  rewrite IH by (intros o' Ho'; apply H; right; exact Ho').
  unfold ops_sem. cbn [fold_left]. apply H. left; reflexivity.
Qed.

Theorem inverse_sub_undoes (s : sub) :
  (forall o, In o (snd s) -> scal_lin (sem (inv o))) ->
  (forall o, In o (snd s) -> forall psi, sem (inv o) (sem o psi) = psi) ->
  forall psi b, sub_sem (inverse_sub s) (sub_sem s psi) b = psi b.
Proof.
  intros Hlin Hinv psi b. destruct s as [phi l]. unfold sub_sem, inverse_sub, inverse_sub_gen, inverse_ops_gen. cbn [fst snd].
  assert (L : scal_lin (ops_sem (map inv (rev l)))).
  { apply ops_sem_lin. intros o Ho. apply in_map_iff in Ho. destruct Ho as [o' [<- Ho']].
    apply Hlin. apply in_rev. exact Ho'. }
  rewrite (L (Cexp phi) (ops_sem l psi) b). rewrite ops_undo by exact Hinv.
  transitivity ((Cexp (-1 * phi) * Cexp phi) * psi b); [ring|].
  rewrite <- Cexp_add. replace (-1 * phi + phi)%R with 0%R by ring. rewrite Cexp_0. ring.
Qed.
End Sub.

(* ------------------------------------------------------------------ under a control qubit *)
Definition restr (c : nat) (psi : St) : St := fun x => if x c then psi x else C0.
Definition ctrl (c : nat) (U : Op) : Op := fun psi b => if b c then U (restr c psi) b else psi b.
(* U does not act on qubit c *)
Definition off (c : nat) (U : Op) : Prop := forall psi, U (restr c psi) = restr c (U psi).

Lemma restr_idem c psi : restr c (restr c psi) = restr c psi.
Proof. apply functional_extensionality; intros x. unfold restr. destruct (x c); reflexivity. Qed.

Lemma restr_ctrl c U psi : off c U -> restr c (ctrl c U psi) = U (restr c psi).
Proof.
  intros Hoff. rewrite Hoff. apply functional_extensionality; intros x.
  change (restr c (ctrl c U psi) x) with (if x c then ctrl c U psi x else C0).
  change (restr c (U psi) x) with (if x c then U psi x else C0).
  destruct (x c) eqn:E; [|reflexivity].
  unfold ctrl. rewrite E, Hoff. unfold restr. rewrite E. reflexivity.
Qed.

Theorem controlled_inverse_undoes c U V : off c U ->
  (forall psi, V (U psi) = psi) ->
  forall psi b, ctrl c V (ctrl c U psi) b = psi b.
Proof.
  intros Hoff HVU psi b. unfold ctrl at 1. destruct (b c) eqn:E.
  - rewrite (restr_ctrl c U psi Hoff), HVU. unfold restr. rewrite E. reflexivity.
  - unfold ctrl. rewrite E. reflexivity.
Qed.

(* an inverse that is off by a phase is not an inverse under control: the c = 1 branch keeps the phase *)
Theorem controlled_phase_slip_is_visible c U V (a : C) : off c U ->
  (forall psi x, V (U psi) x = a * psi x) ->
  forall psi b, ctrl c V (ctrl c U psi) b = if b c then a * psi b else psi b.
Proof.
  intros Hoff HVU psi b. unfold ctrl at 1. destruct (b c) eqn:E.
  - rewrite (restr_ctrl c U psi Hoff), HVU. unfold restr. rewrite E. reflexivity.
  - unfold ctrl. rewrite E. reflexivity.
Qed.
