(* Model of core/utils/binary_field.py: BinaryArray (a Python int used as a bit vector), the matrix-vector
   product BinaryMatrix @ BinaryArray, and inverse() - Gauss-Jordan elimination on [M | I] by row swaps
   and row additions, INCLUDING its behaviour when no pivot is found (the loop variable pivot_row then
   keeps its previous value; before any pivot was found it is unbound).
   Theorem: whenever the elimination ends with the identity on the left and never added a row to itself,
   the right part B is a two-sided inverse of M as maps on bit vectors. *)
From Coq Require Import ZArith NArith List Bool Arith Lia.
From QPM Require Import Remap Reconstruct.
Import ListNotations.

Definition dot (a x : N) : bool := n_odd (N.land a x).

(* (M @ x).binary : bit i = <row i, x> *)
Fixpoint mulv_from (i : nat) (m : list N) (x : N) : N :=
  match m with
  | [] => 0%N
  | r :: m' => N.lxor (if dot r x then pow2 i else 0%N) (mulv_from (S i) m' x)
  end.
Definition mulv (m : list N) (x : N) : N := mulv_from 0 m x.

Definition row := (N * N)%type.
Definition rxor (r s : row) : row := (N.lxor (fst r) (fst s), N.lxor (snd r) (snd s)).
Definition getr (m : list row) (i : nat) : row := nth i m (0%N, 0%N).
Fixpoint upd {A} (i : nat) (x : A) (l : list A) : list A :=
  match l, i with
  | [], _ => []
  | _ :: l', 0 => x :: l'
  | y :: l', S i' => y :: upd i' x l'
  end.
Inductive rop := Swap (i j : nat) | Add (i p : nat).
Definition apply_op (o : rop) (m : list row) : list row :=
  match o with
  | Swap i j => upd i (getr m j) (upd j (getr m i) m)
  | Add i p => upd i (rxor (getr m i) (getr m p)) m
  end.
Record st := mkSt { rows : list row; piv : option nat; trace : list rop }.
Definition do_op (o : rop) (s : st) : st := mkSt (apply_op o (rows s)) (piv s) (o :: trace s).
Definition bitof (r : row) (j : nat) : bool := N.testbit (fst r) (N.of_nat j).

Fixpoint find_up (j k i : nat) (m : list row) : option nat :=
  match k with 0 => None | S k' => if bitof (getr m i) j then Some i else find_up j k' (S i) m end.
Fixpoint find_down (j k i : nat) (m : list row) : option nat :=
  match k with 0 => None | S k' => if bitof (getr m i) j then Some i else find_down j k' (pred i) m end.

(* if mat_aug[i, j] != val: mat_aug[i] += pivot_row      (None: pivot_row is unbound) *)
Definition add_if (j : nat) (val : bool) (s : option st) (i : nat) : option st :=
  match s with
  | None => None
  | Some s =>
      if Bool.eqb (bitof (getr (rows s) i) j) val then Some s
      else match piv s with None => None | Some p => Some (do_op (Add i p) s) end
  end.
Definition fwd (n : nat) (s : option st) (j : nat) : option st :=
  match s with
  | None => None
  | Some s =>
      let s1 := match find_up j (n - j) j (rows s) with
                | Some i => let s' := if Nat.eqb i j then s else do_op (Swap i j) s in
                            mkSt (rows s') (Some j) (trace s')
                | None => s
                end in
      fold_left (fun acc i => add_if j (Nat.eqb i j) acc i) (seq j (n - j)) (Some s1)
  end.
Definition bwd (n : nat) (s : option st) (j : nat) : option st :=
  match s with
  | None => None
  | Some s =>
      let s1 := match find_down j (n - j) (n - 1) (rows s) with
                | Some i => mkSt (rows s) (Some i) (trace s)
                | None => s
                end in
      fold_left (fun acc i => add_if j false acc i) (rev (seq 0 j)) (Some s1)
  end.
Definition init_rows (M : list N) : list row := map (fun ir => (snd ir, pow2 (fst ir))) (combine (seq 0 (length M)) M).
Definition gj (M : list N) : option st :=
  let n := length M in
  fold_left (bwd n) (rev (seq 0 n)) (fold_left (fwd n) (seq 0 n) (Some (mkSt (init_rows M) None []))).
(* inverse(mat): the right halves of the rows *)
Definition inverse (M : list N) : option (list N) :=
  match gj M with Some s => Some (map snd (rows s)) | None => None end.

Definition op_valid (n : nat) (o : rop) : bool :=
  match o with
  | Add i p => negb (Nat.eqb i p) && (i <? n) && (p <? n)
  | Swap i j => (i <? n) && (j <? n)
  end.
Definition trace_valid (n : nat) (tr : list rop) : bool := forallb (op_valid n) tr.
(* the elimination reached [I | B] without adding a row to itself *)
Definition gj_ok (M : list N) (B : list N) : Prop :=
  exists s, gj M = Some s /\ trace_valid (length M) (trace s) = true
            /\ map fst (rows s) = map pow2 (seq 0 (length M)) /\ B = map snd (rows s).

(* ------------------------------------------------------------------ bit-vector lemmas *)
Lemma dot_lxor_l a b x : dot (N.lxor a b) x = xorb (dot a x) (dot b x).
Proof.
  unfold dot. rewrite <- n_odd_lxor. f_equal. apply N.bits_inj. intros k.
  rewrite N.lxor_spec, !N.land_spec, N.lxor_spec.
  destruct (N.testbit a k), (N.testbit b k), (N.testbit x k); reflexivity.
Qed.
Lemma dot_lxor_r a x y : dot a (N.lxor x y) = xorb (dot a x) (dot a y).
Proof.
  unfold dot. rewrite <- n_odd_lxor. f_equal. apply N.bits_inj. intros k.
  rewrite N.lxor_spec, !N.land_spec, N.lxor_spec.
  destruct (N.testbit a k), (N.testbit x k), (N.testbit y k); reflexivity.
Qed.
Lemma dot_0_l x : dot 0 x = false.
Proof. unfold dot. rewrite N.land_0_l. reflexivity. Qed.
Lemma dot_pow2 i x : dot (pow2 i) x = N.testbit x (N.of_nat i).
Proof.
  unfold dot. rewrite N.land_comm, land_pow2. destruct (N.testbit x (N.of_nat i)); [apply n_odd_pow2|reflexivity].
Qed.

Lemma mulv_from_testbit m x : forall i k,
  N.testbit (mulv_from i m x) (N.of_nat k)
  = if (i <=? k) && (k <? i + length m) then dot (nth (k - i) m 0%N) x else false.
Proof.
  induction m as [|r m IH]; intros i k; cbn [mulv_from length nth].
  - rewrite N.bits_0. destruct ((i <=? k) && (k <? i + 0)); [|reflexivity]. destruct (k - i); symmetry; apply dot_0_l.
  - rewrite N.lxor_spec, IH.
    assert (Hp : N.testbit (if dot r x then pow2 i else 0%N) (N.of_nat k) = (Nat.eqb k i) && dot r x).
    { destruct (dot r x); [rewrite pow2_testbit, andb_true_r; reflexivity|rewrite N.bits_0, andb_false_r; reflexivity]. }
    rewrite Hp. destruct (Nat.eqb_spec k i) as [E|Hne].
    + subst k. rewrite Nat.leb_refl, Nat.sub_diag. replace (i <? i + S (length m)) with true by (symmetry; apply Nat.ltb_lt; lia).
      replace (S i <=? i) with false by (symmetry; apply Nat.leb_gt; lia). simpl. destruct (dot r x); reflexivity.
    + cbn [andb xorb]. destruct (Nat.leb_spec (S i) k) as [H1|H1].
      * assert (E1 : (i <=? k) = true) by (apply Nat.leb_le; lia). rewrite E1.
        assert (E2 : i + S (length m) = S i + length m) by lia. rewrite E2. cbn [andb].
        destruct (k <? S i + length m); [|reflexivity].
        assert (E3 : k - i = S (k - S i)) by lia. rewrite E3. cbn [nth]. destruct (dot (nth (k - S i) m 0%N) x); reflexivity.
      * assert (E1 : (i <=? k) = false) by (apply Nat.leb_gt; lia). rewrite E1. reflexivity.
Qed.
Lemma mulv_testbit m x k : N.testbit (mulv m x) (N.of_nat k) = if k <? length m then dot (nth k m 0%N) x else false.
Proof. unfold mulv. rewrite mulv_from_testbit. simpl. rewrite Nat.sub_0_r. reflexivity. Qed.

Definition fits (n : nat) (x : N) : Prop := forall k, n <= k -> N.testbit x (N.of_nat k) = false.
Lemma mulv_fits m x : fits (length m) (mulv m x).
Proof. intros k Hk. rewrite mulv_testbit. replace (k <? length m) with false by (symmetry; apply Nat.ltb_ge; lia). reflexivity. Qed.
Lemma fits_lxor n x y : fits n x -> fits n y -> fits n (N.lxor x y).
Proof. intros Hx Hy k Hk. rewrite N.lxor_spec, Hx, Hy by exact Hk. reflexivity. Qed.

(* ------------------------------------------------------------------ list update lemmas *)
Lemma upd_length {A} i (x : A) l : length (upd i x l) = length l.
Proof. revert i. induction l as [|y l IH]; intros [|i]; simpl; auto. Qed.
Lemma nth_upd {A} (d : A) i x l k :
  nth k (upd i x l) d = if Nat.eqb k i && (i <? length l) then x else nth k l d.
Proof.
  revert i k. induction l as [|y l IH]; intros i k; simpl.
  - destruct i, k; simpl; try reflexivity; rewrite andb_false_r; reflexivity.
  - destruct i as [|i], k as [|k]; simpl; try reflexivity.
    rewrite IH. replace (S i <? S (length l)) with (i <? length l) by reflexivity. reflexivity.
Qed.

(* ------------------------------------------------------------------ invariants of row operations *)
Section Inv.
Variable M : list N.
Notation n := (length M).

Definition inv1 (m : list row) : Prop := forall k y, dot (fst (getr m k)) y = dot (snd (getr m k)) (mulv M y).
Definition inv2 (m : list row) : Prop :=
  forall z, fits n z -> (forall k, k < length m -> dot (snd (getr m k)) z = false) -> z = 0%N.

Lemma getr_upd m i x k : getr (upd i x m) k = if Nat.eqb k i && (i <? length m) then x else getr m k.
Proof. unfold getr. apply nth_upd. Qed.

Lemma inv1_default : forall y, dot (fst (0%N, 0%N)) y = dot (snd (0%N, 0%N)) (mulv M y).
Proof. intros y. simpl. rewrite !dot_0_l. reflexivity. Qed.

Lemma inv1_op o m : inv1 m -> inv1 (apply_op o m).
Proof.
  intros H k y. destruct o as [i j|i p]; cbn [apply_op].
  - rewrite !getr_upd. destruct (Nat.eqb k i && _); [apply H|]. destruct (Nat.eqb k j && _); apply H.
  - rewrite getr_upd. destruct (Nat.eqb k i && _); [|apply H].
    cbn [rxor fst snd]. rewrite !dot_lxor_l, (H i y), (H p y). reflexivity.
Qed.

Lemma inv2_op o m : length m = n -> op_valid n o = true -> inv2 m -> inv2 (apply_op o m).
Proof.
  intros Hl Hv H z Hz Hall. apply H; [exact Hz|]. intros k Hk.
  destruct o as [i j|i p]; cbn [apply_op op_valid] in Hall, Hv.
  - apply andb_true_iff in Hv as [Hi Hj]. apply Nat.ltb_lt in Hi, Hj. rewrite !upd_length in Hall.
    assert (Li : (i <? length m) = true) by (apply Nat.ltb_lt; lia).
    assert (Lj : (j <? length m) = true) by (apply Nat.ltb_lt; lia).
    destruct (Nat.eq_dec k i) as [->|Hki].
    + assert (Hjl : j < length m) by lia. specialize (Hall j Hjl). rewrite !getr_upd, upd_length, Li, Lj in Hall.
      destruct (Nat.eqb_spec j i) as [->|Hji]; simpl in Hall; [exact Hall|]. rewrite Nat.eqb_refl in Hall. exact Hall.
    + destruct (Nat.eq_dec k j) as [->|Hkj].
      * assert (Hil : i < length m) by lia. specialize (Hall i Hil). rewrite !getr_upd, upd_length, Li in Hall.
        rewrite Nat.eqb_refl in Hall. simpl in Hall. exact Hall.
      * specialize (Hall k Hk). rewrite !getr_upd, upd_length in Hall.
        destruct (Nat.eqb_spec k i); [contradiction|]. destruct (Nat.eqb_spec k j); [contradiction|]. exact Hall.
  - apply andb_true_iff in Hv as [Hv Hp]. apply andb_true_iff in Hv as [Hne Hi].
    apply Nat.ltb_lt in Hi, Hp. apply negb_true_iff, Nat.eqb_neq in Hne. rewrite upd_length in Hall.
    assert (Li : (i <? length m) = true) by (apply Nat.ltb_lt; lia).
    assert (Hpl : p < length m) by lia. assert (Hil : i < length m) by lia.
    pose proof (Hall p Hpl) as Hp'. rewrite getr_upd in Hp'.
    destruct (Nat.eqb_spec p i) as [E|_]; [exfalso; apply Hne; symmetry; exact E|]. simpl in Hp'.
    destruct (Nat.eq_dec k i) as [->|Hki].
    + pose proof (Hall i Hil) as Hi'. rewrite getr_upd, Nat.eqb_refl, Li in Hi'. simpl in Hi'.
      rewrite dot_lxor_l, Hp' in Hi'. destruct (dot (snd (getr m i)) z); [discriminate|reflexivity].
    + specialize (Hall k Hk). rewrite getr_upd in Hall. destruct (Nat.eqb_spec k i); [contradiction|]. exact Hall.
Qed.

Lemma apply_op_length o m : length (apply_op o m) = length m.
Proof. destruct o; cbn [apply_op]; rewrite ?upd_length; reflexivity. Qed.
End Inv.

(* ------------------------------------------------------------------ the elimination keeps the invariants *)
Section GJ.
Variable M : list N.
Notation n := (length M).

Definition sinv (s : st) : Prop :=
  length (rows s) = n /\ (trace_valid n (trace s) = true -> inv1 M (rows s) /\ inv2 M (rows s)).
Definition oinv (s : option st) : Prop := match s with None => True | Some s => sinv s end.

Lemma do_op_sinv o s : sinv s -> sinv (do_op o s).
Proof.
  intros [Hl H]. split; [cbn [do_op rows]; rewrite apply_op_length; exact Hl|].
  cbn [do_op trace trace_valid forallb rows]. intros Hv. apply andb_true_iff in Hv as [Ho Ht].
  destruct (H Ht) as [H1 H2]. split; [apply inv1_op; exact H1|apply inv2_op; auto].
Qed.
Lemma set_piv_sinv s p : sinv s -> sinv (mkSt (rows s) p (trace s)).
Proof. intros H. exact H. Qed.

Lemma add_if_oinv j val s i : oinv s -> oinv (add_if j val s i).
Proof.
  destruct s as [s|]; cbn [add_if oinv]; [|auto]. intros H.
  destruct (Bool.eqb _ val); [exact H|]. destruct (piv s); [apply do_op_sinv; exact H|exact I].
Qed.
Lemma fold_add_if_oinv j (vf : nat -> bool) l : forall s, oinv s ->
  oinv (fold_left (fun acc i => add_if j (vf i) acc i) l s).
Proof. induction l as [|i l IH]; intros s H; simpl; [exact H|]. apply IH. apply add_if_oinv. exact H. Qed.

Lemma fwd_oinv s j : oinv s -> oinv (fwd n s j).
Proof.
  destruct s as [s|]; cbn [fwd oinv]; [|auto]. intros H.
  apply (fold_add_if_oinv j (fun i => Nat.eqb i j)). cbn [oinv].
  destruct (find_up j (n - j) j (rows s)) as [i|]; [|exact H].
  destruct (Nat.eqb i j); [exact H|]. apply (set_piv_sinv (do_op (Swap i j) s)). apply do_op_sinv. exact H.
Qed.
Lemma bwd_oinv s j : oinv s -> oinv (bwd n s j).
Proof.
  destruct s as [s|]; cbn [bwd oinv]; [|auto]. intros H.
  apply (fold_add_if_oinv j (fun _ => false)). cbn [oinv].
  destruct (find_down j (n - j) (n - 1) (rows s)) as [i|]; exact H.
Qed.
Lemma fold_oinv (f : option st -> nat -> option st) l : (forall s j, oinv s -> oinv (f s j)) ->
  forall s, oinv s -> oinv (fold_left f l s).
Proof. intros Hf. induction l as [|j l IH]; intros s H; simpl; [exact H|]. apply IH. apply Hf. exact H. Qed.

Lemma init_from_nth (l : list N) : forall i k, k < length l ->
  nth k (map (fun ir => (snd ir, pow2 (fst ir))) (combine (seq i (length l)) l)) (0%N, 0%N) = (nth k l 0%N, pow2 (i + k)).
Proof.
  induction l as [|a l IH]; intros i k Hk; simpl in Hk; [lia|]. cbn [length seq combine map].
  destruct k as [|k]; cbn [nth]; [rewrite Nat.add_0_r; reflexivity|].
  rewrite IH by lia. f_equal. f_equal. lia.
Qed.
Lemma init_rows_length : length (init_rows M) = n.
Proof. unfold init_rows. rewrite map_length, combine_length, seq_length. lia. Qed.
Lemma init_getr k : getr (init_rows M) k = if k <? n then (nth k M 0%N, pow2 k) else (0%N, 0%N).
Proof.
  unfold getr, init_rows. destruct (Nat.ltb_spec k n) as [H|H].
  - rewrite init_from_nth by exact H. reflexivity.
  - apply nth_overflow. fold (init_rows M). rewrite init_rows_length. exact H.
Qed.

Lemma fits_zero z : fits n z -> (forall k, k < n -> N.testbit z (N.of_nat k) = false) -> z = 0%N.
Proof.
  intros Hf Hz. apply testbit_ext_nat. intros j. rewrite N.bits_0.
  destruct (Nat.lt_ge_cases j n) as [H|H]; [apply Hz; exact H|apply Hf; exact H].
Qed.

Lemma init_sinv : sinv (mkSt (init_rows M) None []).
Proof.
  split; [apply init_rows_length|]. intros _. cbn [rows]. split.
  - intros k y. rewrite init_getr. destruct (Nat.ltb_spec k n) as [H|H]; cbn [fst snd].
    + rewrite dot_pow2, mulv_testbit. replace (k <? n) with true by (symmetry; apply Nat.ltb_lt; exact H). reflexivity.
    + rewrite !dot_0_l. reflexivity.
  - intros z Hz Hall. apply fits_zero; [exact Hz|]. intros k Hk. rewrite init_rows_length in Hall.
    specialize (Hall k Hk). rewrite init_getr in Hall.
    replace (k <? n) with true in Hall by (symmetry; apply Nat.ltb_lt; exact Hk). cbn [snd] in Hall.
    rewrite dot_pow2 in Hall. exact Hall.
Qed.

Lemma gj_oinv : oinv (gj M).
Proof.
  unfold gj. apply fold_oinv; [intros s j; apply bwd_oinv|]. apply fold_oinv; [intros s j; apply fwd_oinv|].
  exact init_sinv.
Qed.

(* inverse() is a two-sided inverse whenever the elimination reached the identity *)
Theorem gj_ok_inverse B : gj_ok M B ->
  forall y, fits n y -> mulv B (mulv M y) = y /\ mulv M (mulv B y) = y.
Proof.
  intros [s [Hg [Hv [Hfst Hsnd]]]] y Hy.
  pose proof gj_oinv as Hinv. rewrite Hg in Hinv. destruct Hinv as [Hl Hinv]. destruct (Hinv Hv) as [I1 I2].
  assert (HB : length B = n) by (rewrite Hsnd, map_length; exact Hl).
  assert (Hrow : forall k, k < n -> getr (rows s) k = (pow2 k, nth k B 0%N)).
  { intros k Hk. unfold getr. apply injective_projections; cbn [fst snd].
    - pose proof (map_nth fst (rows s) (0%N, 0%N) k) as E. cbn [fst] in E.
      transitivity (nth k (map fst (rows s)) 0%N); [symmetry; exact E|]. rewrite Hfst.
      rewrite (nth_indep _ 0%N (pow2 0)) by (rewrite map_length, seq_length; exact Hk).
      rewrite map_nth, seq_nth by exact Hk. reflexivity.
    - pose proof (map_nth snd (rows s) (0%N, 0%N) k) as E. cbn [snd] in E.
      transitivity (nth k (map snd (rows s)) 0%N); [symmetry; exact E|]. rewrite <- Hsnd. reflexivity. }
  assert (First : forall x, fits n x -> mulv B (mulv M x) = x).
  { intros x Hx. apply testbit_ext_nat. intros k. rewrite mulv_testbit, HB.
    destruct (Nat.ltb_spec k n) as [Hk|Hk]; [|symmetry; apply Hx; exact Hk].
    pose proof (I1 k x) as E. rewrite (Hrow k Hk) in E. cbn [fst snd] in E. rewrite <- E. apply dot_pow2. }
  split; [apply First; exact Hy|].
  set (z := N.lxor (mulv M (mulv B y)) y).
  assert (Hz : z = 0%N).
  { apply I2.
    - apply fits_lxor; [apply mulv_fits|exact Hy].
    - intros k Hk. rewrite Hl in Hk. rewrite (Hrow k Hk). cbn [snd]. unfold z. rewrite dot_lxor_r.
      pose proof (I1 k (mulv B y)) as E. rewrite (Hrow k Hk) in E. cbn [fst snd] in E. rewrite <- E.
      rewrite dot_pow2, mulv_testbit, HB. replace (k <? n) with true by (symmetry; apply Nat.ltb_lt; exact Hk).
      apply xorb_nilpotent. }
  unfold z in Hz. apply N.lxor_eq in Hz. exact Hz.
Qed.
End GJ.

(* decidable form of gj_ok, for evaluation on concrete matrices *)
Fixpoint list_eqb (a b : list N) : bool :=
  match a, b with
  | [], [] => true
  | x :: a', y :: b' => N.eqb x y && list_eqb a' b'
  | _, _ => false
  end.
Lemma list_eqb_eq a : forall b, list_eqb a b = true -> a = b.
Proof.
  induction a as [|x a IH]; intros [|y b]; simpl; try discriminate; [reflexivity|].
  intros H. apply andb_true_iff in H as [H1 H2]. apply N.eqb_eq in H1. rewrite H1, (IH b H2). reflexivity.
Qed.
Definition gj_check (M : list N) : option (list N) :=
  match gj M with
  | Some s => if trace_valid (length M) (trace s) && list_eqb (map fst (rows s)) (map pow2 (seq 0 (length M)))
              then Some (map snd (rows s)) else None
  | None => None
  end.
Lemma gj_check_ok M B : gj_check M = Some B -> gj_ok M B.
Proof.
  unfold gj_check. destruct (gj M) as [s|] eqn:E; [|discriminate].
  destruct (trace_valid _ _ && _) eqn:H; [|discriminate]. intros [= <-].
  apply andb_true_iff in H as [H1 H2]. exists s. repeat split; auto. apply list_eqb_eq. exact H2.
Qed.
