(* the second documented input form, "X 0 Y 1 Z 2": white space between a letter and its index is dropped by the re.sub *)
From Coq Require Import ZArith NArith List Bool Ascii String DecimalString DecimalN.
From QPM Require Import LabelString.
Import ListNotations.
Open Scope string_scope.

Definition show_term_spaced (ip : N * sp) : string :=
  String (letter (snd ip)) (String " "%char (NilEmpty.string_of_uint (N.to_uint (fst ip)))).
Definition show_spaced (l : list (N * sp)) : string := match l with [] => "I" | _ => join (map show_term_spaced l) end.

Lemma strip_true_digits ds rest : ds <> EmptyString -> all_digits ds = true ->
  strip true (ds ++ rest) = ds ++ strip false rest.
Proof.
  intros Hne Hd. destruct ds as [|c ds]; [congruence|]. simpl in Hd. apply andb_prop in Hd. destruct Hd as [Hc Hd].
  simpl. rewrite (digit_not_ws c Hc). simpl. rewrite (digit_not_letter c Hc). now rewrite (strip_digits ds rest Hd).
Qed.

Lemma strip_term_spaced b p ds rest : ds <> EmptyString -> all_digits ds = true ->
  strip b (String (letter p) (String " "%char (ds ++ rest))) = String (letter p) (ds ++ strip false rest).
Proof.
  intros Hne Hd. cbn [strip]. rewrite letter_not_ws, andb_false_r, letter_is_letter.
  change (is_ws " "%char) with true. cbn [andb]. now rewrite (strip_true_digits ds rest Hne Hd).
Qed.

Lemma strip_join_spaced b (l : list (N * sp)) : strip b (join (map show_term_spaced l)) = join (map show_term l).
Proof.
  revert b. induction l as [|ip l IH]; intros b; [reflexivity|].
  assert (Hne : NilEmpty.string_of_uint (N.to_uint (fst ip)) <> EmptyString)
    by (apply string_of_uint_nonempty, to_uint_nonnil).
  pose proof (digits_of_uint (N.to_uint (fst ip))) as Hd.
  destruct l as [|ip' l].
  - cbn [map join]. unfold show_term_spaced, show_term.
    rewrite <- (append_empty_r (NilEmpty.string_of_uint _)) at 1.
    rewrite (strip_term_spaced b _ _ "" Hne Hd). simpl. now rewrite append_empty_r.
  - change (join (map show_term_spaced (ip :: ip' :: l)))
      with (show_term_spaced ip ++ String " "%char (join (map show_term_spaced (ip' :: l)))).
    change (join (map show_term (ip :: ip' :: l)))
      with (show_term ip ++ String " "%char (join (map show_term (ip' :: l)))).
    unfold show_term_spaced at 1. unfold show_term at 1. cbn [append].
    rewrite (strip_term_spaced b _ _ _ Hne Hd). cbn [strip]. change (is_ws " "%char) with true.
    change (is_letter " "%char) with false. cbn [andb]. now rewrite (IH false).
Qed.

Theorem parse_show_spaced l : NoDup (map fst l) -> parse (show_spaced l) = Some l.
Proof.
  intros Hnd. destruct l as [|ip l]; [reflexivity|].
  pose proof (parse_show (ip :: l) Hnd) as H. unfold parse, show in H. rewrite strip_join in H.
  unfold parse, show_spaced. rewrite strip_join_spaced. exact H.
Qed.

Example spaced_example : show_spaced [(0%N, SX); (1%N, SY); (12%N, SZ)] = "X 0 Y 1 Z 12".
Proof. reflexivity. Qed.
