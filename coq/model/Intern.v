(* Interning of Pauli labels (pauli.py: PauliLabel.__new__ with the module-level WeakValueDictionary _pauli_cache):
     key = str(instance); if key in cache: return cache[key]; else: cache[key] = instance; return instance
   A history is any sequence of constructions and of entries vanishing from the weak table (garbage collection of a label that
   is no longer referenced - modelled as the removal of an arbitrary key at an arbitrary time). *)
From Coq Require Import List Bool.
Import ListNotations.

Section Intern.
  Variables (L K : Type) (key : L -> K) (keqb : K -> K -> bool).
  Hypothesis keqb_spec : forall a b, keqb a b = true <-> a = b.

  Definition table := list (K * L).
  Fixpoint lookup (k : K) (t : table) : option L :=
    match t with [] => None | (k', l) :: r => if keqb k k' then Some l else lookup k r end.
  Definition construct (t : table) (l : L) : L * table :=
    match lookup (key l) t with Some l' => (l', t) | None => (l, (key l, l) :: t) end.
  Definition drop (k : K) (t : table) : table := filter (fun e => negb (keqb k (fst e))) t.

  Inductive op := Construct (l : L) | Vanish (k : K).
  (* the labels handed out, oldest first, and the final table *)
  Fixpoint run (t : table) (ops : list op) : list (L * L) * table :=
    match ops with
    | [] => ([], t)
    | Construct l :: r => let (got, t') := construct t l in let (outs, t'') := run t' r in ((l, got) :: outs, t'')
    | Vanish k :: r => run (drop k t) r
    end.

  Variable ok : L -> Prop.     (* well-formed labels: one factor per qubit *)
  (* whether each construction found a live entry (then the object handed out IS the earlier one) *)
  Fixpoint run_found (t : table) (ops : list op) : list bool :=
    match ops with
    | [] => []
    | Construct l :: r =>
        (match lookup (key l) t with Some _ => true | None => false end) :: run_found (snd (construct t l)) r
    | Vanish k :: r => run_found (drop k t) r
    end.

  Definition keyed (t : table) : Prop := forall k l, In (k, l) t -> key l = k /\ ok l.
  Definition op_ok (o : op) : Prop := match o with Construct l => ok l | Vanish _ => True end.

  Lemma lookup_in k t l : lookup k t = Some l -> exists k', keqb k k' = true /\ In (k', l) t.
  Proof.
    induction t as [|[k' l'] r IH]; simpl; [discriminate|]. destruct (keqb k k') eqn:E.
    - intros H; inversion H; subst. exists k'. auto.
    - intros H. destruct (IH H) as [k'' [H1 H2]]. exists k''. auto.
  Qed.

  Lemma keyed_construct t l : ok l -> keyed t -> keyed (snd (construct t l)).
  Proof.
    unfold construct. intros Hl Ht. destruct (lookup (key l) t); simpl; [exact Ht|].
    intros k l' [E | Hin]; [inversion E; subst; auto | now apply Ht].
  Qed.
  Lemma keyed_drop k t : keyed t -> keyed (drop k t).
  Proof. intros Ht k' l Hin. apply filter_In in Hin. now apply Ht. Qed.

  (* with an injective key every construction returns the label that was asked for *)
  Theorem injective_key_returns_the_requested_label :
    (forall a b, ok a -> ok b -> key a = key b -> a = b) ->
    forall ops t, Forall op_ok ops -> keyed t -> Forall (fun lg => snd lg = fst lg) (fst (run t ops)).
  Proof.
    intros Hinj. induction ops as [|[l | k] r IH]; intros t Hops Ht; cbn [run]; inversion Hops as [|? ? Ho Hr]; subst.
    - constructor.
    - destruct (construct t l) as [got t'] eqn:Ec. specialize (IH t').
      destruct (run t' r) as [outs t'']. cbn [fst] in *. constructor.
      + cbn [fst snd]. unfold construct in Ec. destruct (lookup (key l) t) as [l'|] eqn:El.
        * inversion Ec; subst. apply lookup_in in El. destruct El as [k' [Hk Hin]].
          apply keqb_spec in Hk. subst k'. destruct (Ht _ _ Hin) as [Hkey Hok]. now apply Hinj.
        * now inversion Ec.
      + apply IH; [exact Hr|]. replace t' with (snd (construct t l)) by now rewrite Ec. now apply keyed_construct.
    - apply IH; [exact Hr | now apply keyed_drop].
  Qed.

  (* and the same label asked for twice while the first is alive is the same object: the second construction finds the entry *)
  Theorem live_label_is_found_again t l :
    lookup (key l) (snd (construct t l)) = Some (fst (construct t l)).
  Proof.
    unfold construct. destruct (lookup (key l) t) eqn:E; simpl; [exact E|].
    destruct (keqb (key l) (key l)) eqn:Ek; [reflexivity|].
    assert (keqb (key l) (key l) = true) by now apply keqb_spec. congruence.
  Qed.

  (* a key that is not injective conflates two labels: the second construction hands out the first label *)
  Theorem colliding_key_conflates l1 l2 :
    key l1 = key l2 -> fst (run [] [Construct l1; Construct l2]) = [(l1, l1); (l2, l1)].
  Proof.
    intros E. assert (H : keqb (key l2) (key l1) = true) by (apply keqb_spec; now rewrite E).
    unfold run, construct. cbn [lookup]. cbn [lookup]. rewrite H. reflexivity.
  Qed.
End Intern.
