(* Exact comparison of two gate lists whose 1/sqrt2 exponents differ by an even number 2k:
   prod gs = z * 2^k * prod gs' entrywise  ==>  the placed lists act the same up to the factor z, exactly
   (e.g. H H versus the empty list: the integer matrix product is 2 I and (1/sqrt2)^2 * 2 = 1). *)
From Coq Require Import ZArith List Bool Arith Lia Reals Lra FunctionalExtensionality.
From QP Require Import Cx Zw Asum FMat Lpoly Apply Local.
Import ListNotations.
Local Open Scope C_scope.

Definition check_exact_scaled (R : list nat) (gs gs' : list egate) (z : Zw) (k : nat) : bool :=
  let n := length R in
  let P := prodL R gs in
  let P' := prodL R gs' in
  let all := allbits n in
  nodupb R && forallb (wfb R) gs && forallb (wfb R) gs' && Nat.eqb (sumS gs) (k + k + sumS gs') &&
  forallb (fun x => forallb (fun y => lp_eqb (P x y) (lp_mul (lp_const z) (lp_mul (pow2 k) (P' x y)))) all) all.

Lemma scaled_algebra1 (a c d e f : C) : a * a * d * (e * c * f) = a * a * c * (e * (d * f)).
Proof. ring. Qed.
Lemma scaled_algebra2 (e x : C) : C1 * (e * x) = e * x.
Proof. ring. Qed.

Section Sem.
Variable rho : nat -> C.
Hypothesis rho_unit : forall i, Cunit (rho i).
Variable pi : nat -> nat.
Hypothesis pi_inj : forall a b, pi a = pi b -> a = b.
Notation phi := (lp_eval rho).

Theorem local_exact_scaled R gs gs' z k : check_exact_scaled R gs gs' z k = true ->
  forall psi b, csem (map (sgate rho pi) gs) psi b = zw_eval z * csem (map (sgate rho pi) gs') psi b.
Proof.
  unfold check_exact_scaled; intros H psi b.
  repeat (apply andb_true_iff in H as [H ?]).
  match goal with H1 : nodupb R = true |- _ => pose proof (nodupb_NoDup R H1) as HR end.
  match goal with H1 : forallb (wfb R) gs = true |- _ => pose proof (forallb_wf rho pi pi_inj R gs H1) as Hwf end.
  match goal with H1 : forallb (wfb R) gs' = true |- _ => pose proof (forallb_wf rho pi pi_inj R gs' H1) as Hwf' end.
  match goal with H1 : Nat.eqb _ _ = true |- _ => apply Nat.eqb_eq in H1; rename H1 into HS end.
  match goal with H1 : forallb _ (allbits _) = true |- _ => rename H1 into Hall end.
  rewrite !(csem_sgates rho pi), HS.
  rewrite (csem_prod (map pi R) (map (ugate rho pi) gs)) by (auto using NoDup_map_pi).
  rewrite (csem_prod (map pi R) (map (ugate rho pi) gs')) by (auto using NoDup_map_pi).
  assert (HP : forall x y, lenn (length (map pi R)) x -> lenn (length (map pi R)) y ->
     prodK (map pi R) (map (ugate rho pi) gs) (cembed (map pi R) [] oneF) x y
     = (zw_eval z * RtoC (2 ^ k)%R) * prodK (map pi R) (map (ugate rho pi) gs') (cembed (map pi R) [] oneF) x y).
  { intros x y Hx Hy. rewrite map_length in Hx, Hy.
    assert (Hinit : forall x' y', lenn (length R) x' -> lenn (length R) y' ->
              phi (memo lp0 (length R) (lembed R [] loneF) x' y') = cembed (map pi R) [] oneF x' y').
    { intros x' y' Hx' Hy'. rewrite phi_memo by auto.
      rewrite (embedK_hom LP C lp0 C0 phi (lp_eval_0 rho)).
      pose proof (embedK_pi pi pi_inj C0 R [] oneF x' y') as E; simpl in E; rewrite E.
      unfold embedK. destruct (restb R [] x' y'); auto. unfold loneF, oneF. apply lp_eval_1. }
    rewrite <- (prod_hom rho rho_unit pi pi_inj R gs _ _ Hinit x y Hx Hy), <- (prod_hom rho rho_unit pi pi_inj R gs' _ _ Hinit x y Hx Hy).
    rewrite forallb_forall in Hall. specialize (Hall x (allbits_complete _ x Hx)).
    rewrite forallb_forall in Hall. specialize (Hall y (allbits_complete _ y Hy)).
    apply (lp_eqb_sound rho) in Hall. unfold prodL in Hall. rewrite Hall.
    rewrite !lp_eval_mul, lp_eval_const, (pow2_eval rho) by auto. ring. }
  rewrite (apply_ext _ _ _ psi b HP). rewrite apply_scale.
  rewrite !cpow_add, !cpow_rhC.
  transitivity (RtoC (rh ^ k * rh ^ k * 2 ^ k) * (zw_eval z * (RtoC (rh ^ sumS gs') *
     apply (prodK (map pi R) (map (ugate rho pi) gs') (cembed (map pi R) [] oneF)) (map pi R) psi b))).
  { rewrite <- !RtoC_mul.
    generalize (RtoC (rh ^ k)) (RtoC (2 ^ k)) (RtoC (rh ^ sumS gs')) (zw_eval z)
      (apply (prodK (map pi R) (map (ugate rho pi) gs') (cembed (map pi R) [] oneF)) (map pi R) psi b).
    intros a c d e f. apply scaled_algebra1. }
  rewrite rh_pow2. apply scaled_algebra2.
Qed.
End Sem.
