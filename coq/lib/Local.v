(* The bridge from exact computation to semantic theorems.
   An "exact gate" carries a matrix over the Laurent-polynomial ring LP, an exponent s of
   1/sqrt 2 and a role list.  [check_equiv R gs t] is a boolean, evaluated by vm_compute,
   that compares the product of the embedded matrices of the gate list gs with the
   target t (cross-multiplied proportionality + one row norm each).  [local_sound] turns
   it into: for every assignment of unit complex numbers to the formal variables, and
   every injective placement of the roles R on the qubits of a register of any size, the
   gate list acts as the target up to a global phase. *)
From Coq Require Import ZArith List Bool Arith Lia Reals Lra FunctionalExtensionality.
From QP Require Import Cx Zw Asum FMat Lpoly Apply.
Import ListNotations.
Local Open Scope C_scope.

(* ---------------------------------------------------------------- complex inverse *)
Definition Cinv (x : C) : C := ((fst x / Cnorm2 x)%R, (- snd x / Cnorm2 x)%R).
Lemma Ceq_dec (x y : C) : {x = y} + {x <> y}.
Proof. destruct x as [a b], y as [c d].
  destruct (Req_EM_T a c), (Req_EM_T b d); subst; auto; right; intros E; inversion E; auto. Qed.
Lemma Cmul_inv x : x <> C0 -> x * Cinv x = C1.
Proof.
  intros H. assert (Hn : Cnorm2 x <> 0%R).
  { intros E; apply H, Cnorm2_zero, E. }
  unfold Cinv, Cmul, C1, Cnorm2 in *; destruct x as [a b]; simpl in *.
  f_equal; field; auto.
Qed.
Lemma RtoC_mul a b : RtoC a * RtoC b = RtoC (a * b).
Proof. unfold RtoC; apply C_eq; simpl; ring. Qed.
Lemma RtoC_inj a b : RtoC a = RtoC b -> a = b.
Proof. unfold RtoC; intros H; inversion H; auto. Qed.

Lemma cbsum_scale n : forall c f, cbsum n (fun y => c * f y) = c * cbsum n f.
Proof. induction n as [|n IH]; intros; simpl; [reflexivity | rewrite !IH; ring]. Qed.

Lemma cbsum_nonzero n : forall f, cbsum n f <> C0 ->
  exists y, length y = n /\ f y <> C0.
Proof.
  induction n as [|n IH]; intros f H; simpl in H.
  - exists []; auto.
  - destruct (Ceq_dec (cbsum n (fun y => f (false :: y))) C0) as [E0|N0].
    + destruct (Ceq_dec (cbsum n (fun y => f (true :: y))) C0) as [E1|N1].
      * exfalso; apply H; rewrite E0, E1; ring.
      * destruct (IH _ N1) as [y [Hy Hf]]; exists (true :: y); simpl; auto.
    + destruct (IH _ N0) as [y [Hy Hf]]; exists (false :: y); simpl; auto.
Qed.

Definition lenn (n : nat) (x : list bool) : Prop := length x = n.

Lemma phase_from_mprop (P T : CM) n z nP nT :
  lenn n z ->
  (forall x y x' y', lenn n x -> lenn n y -> lenn n x' -> lenn n y' ->
     P x y * T x' y' = P x' y' * T x y) ->
  cbsum n (fun y => P z y * Cconj (P z y)) = RtoC nP ->
  cbsum n (fun y => T z y * Cconj (T z y)) = RtoC nT ->
  nT <> 0%R ->
  exists c0, (Cnorm2 c0 * nT = nP)%R /\
    forall x y, lenn n x -> lenn n y -> P x y = c0 * T x y.
Proof.
  intros Hz Hm HP HT HnT.
  assert (Hnz : cbsum n (fun y => T z y * Cconj (T z y)) <> C0).
  { rewrite HT. unfold RtoC, C0; intros E; inversion E; auto. }
  destruct (cbsum_nonzero n _ Hnz) as [y0 [Hy0 Hf]].
  assert (Ht0 : T z y0 <> C0). { intros E; apply Hf; rewrite E; ring. }
  exists (P z y0 * Cinv (T z y0)).
  assert (Hall : forall x y, lenn n x -> lenn n y -> P x y = P z y0 * Cinv (T z y0) * T x y).
  { intros x y Hx Hy. pose proof (Hm x y z y0 Hx Hy Hz Hy0) as E.
    transitivity (P x y * (T z y0 * Cinv (T z y0))); [rewrite Cmul_inv by auto; ring|].
    transitivity ((P x y * T z y0) * Cinv (T z y0)); [ring|]. rewrite E; ring. }
  split; auto.
  apply RtoC_inj. rewrite <- RtoC_mul, <- HT, <- HP, <- cbsum_scale.
  apply bsum_ext; intros y Hy. rewrite (Hall z y Hz Hy).
  rewrite Cconj_mul, <- Cnorm2_conj. ring.
Qed.

(* ---------------------------------------------------------------- exact gates *)
Record egate := mkE { eM : FM LP; es : nat; eqs : list nat }.

Notation lbsum := (bsum lp_add).
Notation lmmul := (fmmul lp_add lp_mul).
Notation lembed := (embedK lp0).
Definition loneF : FM LP := fun _ _ => lp1.

Definition stepL (n : nat) (Q : list nat) (acc : FM LP) (g : egate) : FM LP :=
  memo lp0 n (lmmul n (lembed Q (eqs g) (eM g)) acc).
Definition prodL (Q : list nat) (gs : list egate) : FM LP :=
  fold_left (stepL (length Q) Q) gs (memo lp0 (length Q) (lembed Q [] loneF)).
Definition sumS (gs : list egate) : nat := fold_right (fun g a => es g + a)%nat 0%nat gs.

Definition rownorm (n : nat) (M : FM LP) (z : list bool) : LP :=
  lbsum n (fun y => lp_mul (M z y) (lp_conj (M z y))).
Definition pow2 (s : nat) : LP := lp_const (zw_of_Z (2 ^ Z.of_nat s)).

Definition mpropb (n : nat) (P T : FM LP) : bool :=
  let all := allbits n in
  forallb (fun x => forallb (fun y => forallb (fun x' => forallb (fun y' =>
    lp_eqb (lp_mul (P x y) (T x' y')) (lp_mul (P x' y') (T x y))) all) all) all) all.

Definition wfb (Q : list nat) (g : egate) : bool :=
  forallb (fun q => existsb (Nat.eqb q) Q) (eqs g) &&
  (fix nd (l : list nat) := match l with [] => true | a :: l' => negb (existsb (Nat.eqb a) l') && nd l' end) (eqs g).
Fixpoint nodupb (l : list nat) : bool :=
  match l with [] => true | a :: l' => negb (existsb (Nat.eqb a) l') && nodupb l' end.

Definition check_equiv (R : list nat) (gs : list egate) (t : egate) : bool :=
  let n := length R in
  let P := prodL R gs in
  let T := memo lp0 n (lembed R (eqs t) (eM t)) in
  let z := repeat false n in
  nodupb R && forallb (wfb R) gs && wfb R t &&
  mpropb n P T &&
  lp_eqb (rownorm n P z) (pow2 (sumS gs)) &&
  lp_eqb (rownorm n T z) (pow2 (es t)).


(* exact (phase-free) comparison of two gate lists with the same 1/sqrt2 exponent:
   prod gs = z * prod gs' entrywise, z in Z[w] *)
Definition check_exact (R : list nat) (gs gs' : list egate) (z : Zw) : bool :=
  let n := length R in
  let P := prodL R gs in
  let P' := prodL R gs' in
  let all := allbits n in
  nodupb R && forallb (wfb R) gs && forallb (wfb R) gs' && Nat.eqb (sumS gs) (sumS gs') &&
  forallb (fun x => forallb (fun y => lp_eqb (P x y) (lp_mul (lp_const z) (P' x y))) all) all.


(* comparison of two gate lists up to a global phase *)
Definition check_equiv2 (R : list nat) (gs gs' : list egate) : bool :=
  let n := length R in
  let P := prodL R gs in
  let T := prodL R gs' in
  let z := repeat false n in
  nodupb R && forallb (wfb R) gs && forallb (wfb R) gs' &&
  mpropb n P T &&
  lp_eqb (rownorm n P z) (pow2 (sumS gs)) &&
  lp_eqb (rownorm n T z) (pow2 (sumS gs')).

(* ---------------------------------------------------------------- semantics *)
Definition rhC : C := RtoC rh.           (* 1 / sqrt 2 *)

Section Sem.
Variable rho : nat -> C.
Hypothesis rho_unit : forall i, Cunit (rho i).
Variable pi : nat -> nat.
Hypothesis pi_inj : forall a b, pi a = pi b -> a = b.

Notation phi := (lp_eval rho).

(* the gate placed on physical qubits, with and without its 1/sqrt2^s factor *)
Definition ugate (g : egate) : lgate := (fun x y => phi (eM g x y), map pi (eqs g)).
Definition sgate (g : egate) : lgate :=
  (fun x y => cpow rhC (es g) * phi (eM g x y), map pi (eqs g)).

Lemma lsem_sgate g psi b : lsem (sgate g) psi b = cpow rhC (es g) * lsem (ugate g) psi b.
Proof. unfold lsem, sgate, ugate; simpl. apply apply_scale. Qed.

Lemma csem_sgates gs : forall psi b,
  csem (map sgate gs) psi b = cpow rhC (sumS gs) * csem (map ugate gs) psi b.
Proof.
  induction gs as [|g gs IH]; intros psi b; simpl.
  - unfold csem; simpl; ring.
  - unfold csem in *; simpl.
    replace (lsem (sgate g) psi) with (fun x => cpow rhC (es g) * lsem (ugate g) psi x)
      by (apply functional_extensionality; intros; symmetry; apply lsem_sgate).
    rewrite IH.
    pose proof (csem_lin (map ugate gs)) as L. unfold csem, scal_lin in L. rewrite L.
    rewrite cpow_add. ring.
Qed.

Lemma nodupb_NoDup l : nodupb l = true -> NoDup l.
Proof. induction l as [|a l IH]; simpl; intros H; constructor.
  - apply andb_true_iff in H as [H _]. apply negb_true_iff in H.
    intros Hin; apply existsb_eqb_In in Hin; congruence.
  - apply IH. apply andb_true_iff in H as [_ H]; auto. Qed.

Lemma NoDup_map_pi l : NoDup l -> NoDup (map pi l).
Proof. induction 1 as [|a l Ha Hl IH]; simpl; constructor; auto.
  rewrite in_map_iff; intros [x [E Hx]]. apply pi_inj in E; subst; auto. Qed.

Lemma wfb_wf R g : wfb R g = true -> wf_on (map pi R) (ugate g).
Proof.
  unfold wfb, wf_on; intros H. apply andb_true_iff in H as [H1 H2]. simpl. split.
  - apply NoDup_map_pi, nodupb_NoDup, H2.
  - intros x Hx. apply in_map_iff in Hx as [q [<- Hq]]. apply in_map.
    rewrite forallb_forall in H1. apply existsb_eqb_In, H1, Hq.
Qed.

Lemma phi_memo n F x y : lenn n x -> lenn n y -> phi (memo lp0 n F x y) = phi (F x y).
Proof. intros; rewrite memo_eq; auto. Qed.

Lemma prod_hom R gs : forall accL (accC : CM),
  (forall x y, lenn (length R) x -> lenn (length R) y -> phi (accL x y) = accC x y) ->
  forall x y, lenn (length R) x -> lenn (length R) y ->
  phi (fold_left (stepL (length R) R) gs accL x y)
  = prodK (map pi R) (map ugate gs) accC x y.
Proof.
  induction gs as [|g gs IH]; intros accL accC Hacc x y Hx Hy; simpl; [auto|].
  apply IH; auto. clear x y Hx Hy. intros x y Hx Hy.
  unfold stepL. rewrite phi_memo by auto.
  rewrite (fmmul_hom LP C lp_add lp_mul Cadd Cmul phi
             (lp_eval_add rho) (lp_eval_mul rho rho_unit)).
  rewrite map_length. unfold fmmul. apply bsum_ext; intros w Hw.
  rewrite (embedK_hom LP C lp0 C0 phi (lp_eval_0 rho)).
  simpl. rewrite (embedK_pi pi pi_inj). rewrite Hacc by auto. reflexivity.
Qed.

Lemma forallb_wf R gs : forallb (wfb R) gs = true -> Forall (wf_on (map pi R)) (map ugate gs).
Proof. induction gs as [|g gs IH]; simpl; intros H; constructor.
  - apply wfb_wf. apply andb_true_iff in H as [H _]; auto.
  - apply IH. apply andb_true_iff in H as [_ H]; auto. Qed.

Lemma pow2_eval s : phi (pow2 s) = RtoC (2 ^ s)%R.
Proof. unfold pow2. rewrite lp_eval_const, zw_eval_of_Z. f_equal.
  rewrite <- pow_IZR. reflexivity. Qed.

Lemma rownorm_eval n M z :
  phi (rownorm n M z) = cbsum n (fun y => phi (M z y) * Cconj (phi (M z y))).
Proof. unfold rownorm.
  rewrite (bsum_hom LP C lp_add Cadd phi (lp_eval_add rho)).
  apply bsum_ext; intros y Hy. rewrite lp_eval_mul, lp_eval_conj by auto. reflexivity. Qed.

Lemma rh_pow2 s : (rh ^ s * rh ^ s * 2 ^ s = 1)%R.
Proof. induction s as [|s IH]; simpl; [ring|]. pose proof rh_sq. nra. Qed.

Lemma cpow_rhC s : cpow rhC s = RtoC (rh ^ s).
Proof. induction s as [|s IH]; simpl; [reflexivity|]. rewrite IH. unfold rhC. apply RtoC_mul. Qed.

Lemma mpropb_sound n P T : mpropb n P T = true ->
  forall x y x' y', lenn n x -> lenn n y -> lenn n x' -> lenn n y' ->
  phi (P x y) * phi (T x' y') = phi (P x' y') * phi (T x y).
Proof.
  unfold mpropb; intros H x y x' y' Hx Hy Hx' Hy'.
  rewrite forallb_forall in H. specialize (H x (allbits_complete n x Hx)).
  rewrite forallb_forall in H. specialize (H y (allbits_complete n y Hy)).
  rewrite forallb_forall in H. specialize (H x' (allbits_complete n x' Hx')).
  rewrite forallb_forall in H. specialize (H y' (allbits_complete n y' Hy')).
  apply (lp_eqb_sound rho) in H. rewrite !lp_eval_mul in H by auto. exact H.
Qed.

Theorem local_sound R gs t : check_equiv R gs t = true ->
  csem (map sgate gs) ≃ lsem (sgate t).
Proof.
  unfold check_equiv; intros H.
  repeat (apply andb_true_iff in H as [H ?]).
  match goal with H1 : nodupb R = true |- _ => pose proof (nodupb_NoDup R H1) as HR end.
  match goal with H1 : forallb (wfb R) gs = true |- _ => pose proof (forallb_wf R gs H1) as Hwf end.
  match goal with H1 : wfb R t = true |- _ => pose proof (wfb_wf R t H1) as [Ht1 Ht2] end.
  match goal with H1 : mpropb _ _ _ = true |- _ => pose proof (mpropb_sound _ _ _ H1) as Hm end.
  set (n := length R) in *.
  set (PL := prodL R gs) in *.
  set (TL := memo lp0 n (lembed R (eqs t) (eM t))) in *.
  set (z := repeat false n) in *.
  assert (Hz : lenn n z) by (apply repeat_length).
  match goal with H1 : lp_eqb (rownorm n PL z) _ = true |- _ =>
    apply (lp_eqb_sound rho) in H1; rewrite rownorm_eval, pow2_eval in H1; rename H1 into HnP end.
  match goal with H1 : lp_eqb (rownorm n TL z) _ = true |- _ =>
    apply (lp_eqb_sound rho) in H1; rewrite rownorm_eval, pow2_eval in H1; rename H1 into HnT end.
  destruct (phase_from_mprop (fun x y => phi (PL x y)) (fun x y => phi (TL x y)) n z
              (2 ^ sumS gs)%R (2 ^ es t)%R Hz Hm HnP HnT) as [c0 [Hc0 Hall]].
  { apply pow_nonzero; lra. }
  (* the phase *)
  exists (RtoC (rh ^ sumS gs * sqrt 2 ^ es t)%R * c0). split.
  { unfold Cunit. rewrite Cnorm2_mul.
    assert (E : Cnorm2 (RtoC (rh ^ sumS gs * sqrt 2 ^ es t)) =
                (rh ^ sumS gs * rh ^ sumS gs * (sqrt 2 ^ es t * sqrt 2 ^ es t))%R).
    { unfold Cnorm2, RtoC; simpl; ring. }
    rewrite E. rewrite <- (Rpow_mult_distr (sqrt 2) (sqrt 2)), sqrt_sqrt by lra.
    pose proof (rh_pow2 (sumS gs)) as E2.
    assert (E3 : (2 ^ es t <> 0)%R) by (apply pow_nonzero; lra).
    assert (E4 : (2 ^ sumS gs <> 0)%R) by (apply pow_nonzero; lra).
    assert (E5 : Cnorm2 c0 = (2 ^ sumS gs / 2 ^ es t)%R) by (rewrite <- Hc0; field; auto).
    rewrite E5. field_simplify_eq; auto. nra. }
  intros psi b.
  rewrite csem_sgates, lsem_sgate.
  rewrite (csem_prod (map pi R) (map ugate gs)) by (auto using NoDup_map_pi).
  unfold lsem at 1. simpl fst; simpl snd.
  rewrite (apply_embed _ (map pi R) (map pi (eqs t))) by (auto using NoDup_map_pi).
  (* both sides are apply _ (map pi R) *)
  assert (HP : forall x y, lenn (length (map pi R)) x -> lenn (length (map pi R)) y ->
     prodK (map pi R) (map ugate gs) (cembed (map pi R) [] oneF) x y
     = c0 * cembed (map pi R) (map pi (eqs t)) (fun x y => phi (eM t x y)) x y).
  { intros x y Hx Hy. rewrite map_length in Hx, Hy. fold n in Hx, Hy.
    rewrite <- (prod_hom R gs (memo lp0 n (lembed R [] loneF))); auto.
    - match goal with |- phi ?a = _ => change a with (PL x y) end. rewrite (Hall x y Hx Hy). f_equal.
      unfold TL. rewrite phi_memo by auto.
      rewrite (embedK_hom LP C lp0 C0 phi (lp_eval_0 rho)).
      rewrite (embedK_pi pi pi_inj). reflexivity.
    - intros x' y' Hx' Hy'. fold n. rewrite phi_memo by auto.
      rewrite (embedK_hom LP C lp0 C0 phi (lp_eval_0 rho)).
      pose proof (embedK_pi pi pi_inj C0 R [] oneF x' y') as E; simpl in E; rewrite E.
      unfold embedK. destruct (restb R [] x' y'); auto. unfold loneF, oneF. apply lp_eval_1. }
  rewrite (apply_ext _ _ _ psi b HP).
  rewrite apply_scale. rewrite !cpow_rhC.
  assert (Es : RtoC (rh ^ sumS gs) =
     RtoC (rh ^ sumS gs * sqrt 2 ^ es t) * RtoC (rh ^ es t)).
  { rewrite RtoC_mul. f_equal.
    assert (E : (sqrt 2 ^ es t * rh ^ es t = 1)%R).
    { rewrite <- Rpow_mult_distr. replace (sqrt 2 * rh)%R with 1%R; [apply pow1|].
      unfold rh. pose proof (sqrt_sqrt 2 ltac:(lra)). nra. }
    rewrite Rmult_assoc, E; ring. }
  rewrite Es. ring.
Qed.

Theorem local_exact R gs gs' z : check_exact R gs gs' z = true ->
  forall psi b, csem (map sgate gs) psi b = zw_eval z * csem (map sgate gs') psi b.
Proof.
  unfold check_exact; intros H psi b.
  repeat (apply andb_true_iff in H as [H ?]).
  match goal with H1 : nodupb R = true |- _ => pose proof (nodupb_NoDup R H1) as HR end.
  match goal with H1 : forallb (wfb R) gs = true |- _ => pose proof (forallb_wf R gs H1) as Hwf end.
  match goal with H1 : forallb (wfb R) gs' = true |- _ => pose proof (forallb_wf R gs' H1) as Hwf' end.
  match goal with H1 : Nat.eqb _ _ = true |- _ => apply Nat.eqb_eq in H1; rename H1 into HS end.
  match goal with H1 : forallb _ (allbits _) = true |- _ => rename H1 into Hall end.
  rewrite !csem_sgates, HS.
  rewrite (csem_prod (map pi R) (map ugate gs)) by (auto using NoDup_map_pi).
  rewrite (csem_prod (map pi R) (map ugate gs')) by (auto using NoDup_map_pi).
  assert (HP : forall x y, lenn (length (map pi R)) x -> lenn (length (map pi R)) y ->
     prodK (map pi R) (map ugate gs) (cembed (map pi R) [] oneF) x y
     = zw_eval z * prodK (map pi R) (map ugate gs') (cembed (map pi R) [] oneF) x y).
  { intros x y Hx Hy. rewrite map_length in Hx, Hy.
    assert (Hinit : forall x' y', lenn (length R) x' -> lenn (length R) y' ->
              phi (memo lp0 (length R) (lembed R [] loneF) x' y') = cembed (map pi R) [] oneF x' y').
    { intros x' y' Hx' Hy'. rewrite phi_memo by auto.
      rewrite (embedK_hom LP C lp0 C0 phi (lp_eval_0 rho)).
      pose proof (embedK_pi pi pi_inj C0 R [] oneF x' y') as E; simpl in E; rewrite E.
      unfold embedK. destruct (restb R [] x' y'); auto. unfold loneF, oneF. apply lp_eval_1. }
    rewrite <- (prod_hom R gs _ _ Hinit x y Hx Hy), <- (prod_hom R gs' _ _ Hinit x y Hx Hy).
    rewrite forallb_forall in Hall. specialize (Hall x (allbits_complete _ x Hx)).
    rewrite forallb_forall in Hall. specialize (Hall y (allbits_complete _ y Hy)).
    apply (lp_eqb_sound rho) in Hall. unfold prodL in Hall. rewrite Hall.
    rewrite lp_eval_mul, lp_eval_const by auto. reflexivity. }
  rewrite (apply_ext _ _ _ psi b HP). rewrite apply_scale. ring.
Qed.

Theorem local_sound2 R gs gs' : check_equiv2 R gs gs' = true ->
  csem (map sgate gs) ≃ csem (map sgate gs').
Proof.
  unfold check_equiv2; intros H.
  repeat (apply andb_true_iff in H as [H ?]).
  match goal with H1 : nodupb R = true |- _ => pose proof (nodupb_NoDup R H1) as HR end.
  match goal with H1 : forallb (wfb R) gs = true |- _ => pose proof (forallb_wf R gs H1) as Hwf end.
  match goal with H1 : forallb (wfb R) gs' = true |- _ => pose proof (forallb_wf R gs' H1) as Hwf' end.
  match goal with H1 : mpropb _ _ _ = true |- _ => pose proof (mpropb_sound _ _ _ H1) as Hm end.
  set (n := length R) in *.
  set (PL := prodL R gs) in *.
  set (TL := prodL R gs') in *.
  set (z := repeat false n) in *.
  assert (Hz : lenn n z) by (apply repeat_length).
  match goal with H1 : lp_eqb (rownorm n PL z) _ = true |- _ =>
    apply (lp_eqb_sound rho) in H1; rewrite rownorm_eval, pow2_eval in H1; rename H1 into HnP end.
  match goal with H1 : lp_eqb (rownorm n TL z) _ = true |- _ =>
    apply (lp_eqb_sound rho) in H1; rewrite rownorm_eval, pow2_eval in H1; rename H1 into HnT end.
  destruct (phase_from_mprop (fun x y => phi (PL x y)) (fun x y => phi (TL x y)) n z
              (2 ^ sumS gs)%R (2 ^ sumS gs')%R Hz Hm HnP HnT) as [c0 [Hc0 Hall]].
  { apply pow_nonzero; lra. }
  exists (RtoC (rh ^ sumS gs * sqrt 2 ^ sumS gs')%R * c0). split.
  { unfold Cunit. rewrite Cnorm2_mul.
    assert (E : Cnorm2 (RtoC (rh ^ sumS gs * sqrt 2 ^ sumS gs')) =
                (rh ^ sumS gs * rh ^ sumS gs * (sqrt 2 ^ sumS gs' * sqrt 2 ^ sumS gs'))%R).
    { unfold Cnorm2, RtoC; simpl; ring. }
    rewrite E. rewrite <- (Rpow_mult_distr (sqrt 2) (sqrt 2)), sqrt_sqrt by lra.
    pose proof (rh_pow2 (sumS gs)) as E2.
    assert (E3 : (2 ^ sumS gs' <> 0)%R) by (apply pow_nonzero; lra).
    assert (E4 : (2 ^ sumS gs <> 0)%R) by (apply pow_nonzero; lra).
    assert (E5 : Cnorm2 c0 = (2 ^ sumS gs / 2 ^ sumS gs')%R) by (rewrite <- Hc0; field; auto).
    rewrite E5. field_simplify_eq; auto. nra. }
  intros psi b.
  rewrite !csem_sgates.
  rewrite (csem_prod (map pi R) (map ugate gs)) by (auto using NoDup_map_pi).
  rewrite (csem_prod (map pi R) (map ugate gs')) by (auto using NoDup_map_pi).
  assert (Hinit : forall x' y', lenn (length R) x' -> lenn (length R) y' ->
            phi (memo lp0 (length R) (lembed R [] loneF) x' y') = cembed (map pi R) [] oneF x' y').
  { intros x' y' Hx' Hy'. rewrite phi_memo by auto.
    rewrite (embedK_hom LP C lp0 C0 phi (lp_eval_0 rho)).
    pose proof (embedK_pi pi pi_inj C0 R [] oneF x' y') as E; simpl in E; rewrite E.
    unfold embedK. destruct (restb R [] x' y'); auto. unfold loneF, oneF. apply lp_eval_1. }
  assert (HP : forall x y, lenn (length (map pi R)) x -> lenn (length (map pi R)) y ->
     prodK (map pi R) (map ugate gs) (cembed (map pi R) [] oneF) x y
     = c0 * prodK (map pi R) (map ugate gs') (cembed (map pi R) [] oneF) x y).
  { intros x y Hx Hy. rewrite map_length in Hx, Hy. fold n in Hx, Hy.
    rewrite <- (prod_hom R gs _ _ Hinit x y Hx Hy), <- (prod_hom R gs' _ _ Hinit x y Hx Hy).
    apply (Hall x y Hx Hy). }
  rewrite (apply_ext _ _ _ psi b HP).
  rewrite apply_scale. rewrite !cpow_rhC.
  assert (Es : RtoC (rh ^ sumS gs) =
     RtoC (rh ^ sumS gs * sqrt 2 ^ sumS gs') * RtoC (rh ^ sumS gs')).
  { rewrite RtoC_mul. f_equal.
    assert (E : (sqrt 2 ^ sumS gs' * rh ^ sumS gs' = 1)%R).
    { rewrite <- Rpow_mult_distr. replace (sqrt 2 * rh)%R with 1%R; [apply pow1|].
      unfold rh. pose proof (sqrt_sqrt 2 ltac:(lra)). nra. }
    rewrite Rmult_assoc, E; ring. }
  rewrite Es. ring.
Qed.
End Sem.
