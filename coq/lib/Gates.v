(* Gate vocabulary with exact matrices over LP.  A gate carries its kind, its qubits in
   the library's order (controls first, then targets) and its angles as affine forms
   k*pi/4 + sum c_i*theta_i.  Rotation gates are in "unit form": the matrix is written in
   u = e^{i angle} and the scalar e^{-i angle/2} is a global phase (see Rsem.v for the
   documented cos/sin matrices and the proof that they agree). *)
From Coq Require Import ZArith List Bool Arith Lia.
From QP Require Import Zw FMat Lpoly Local.
Import ListNotations.

Inductive gkind :=
| KI | KX | KY | KZ | KH | KS | KSdag | KSqrtX | KSqrtXdag | KSqrtY | KSqrtYdag | KT | KTdag
| KRX | KRY | KRZ | KU1 | KU2 | KU3 | KCNOT | KCZ | KSWAP | KTOFFOLI
(* native gates of quri_parts.quantinuum.circuit and quri_parts.ionq.circuit *)
| KU1q | KZZ | KRZZ | KXX | KGPi | KGPi2 | KMS.

Definition gkind_eqb (a b : gkind) : bool :=
  match a, b with
  | KI,KI | KX,KX | KY,KY | KZ,KZ | KH,KH | KS,KS | KSdag,KSdag | KSqrtX,KSqrtX
  | KSqrtXdag,KSqrtXdag | KSqrtY,KSqrtY | KSqrtYdag,KSqrtYdag | KT,KT | KTdag,KTdag
  | KRX,KRX | KRY,KRY | KRZ,KRZ | KU1,KU1 | KU2,KU2 | KU3,KU3 | KCNOT,KCNOT | KCZ,KCZ
  | KSWAP,KSWAP | KTOFFOLI,KTOFFOLI
  | KU1q,KU1q | KZZ,KZZ | KRZZ,KRZZ | KXX,KXX | KGPi,KGPi | KGPi2,KGPi2 | KMS,KMS => true
  | _, _ => false
  end.

(* angle = api4 * pi/4 + sum_i ath[i] * theta_i *)
Record ang := mkAng { api4 : Z; ath : list Z }.
Definition ang_pi4 (k : Z) : ang := mkAng k [].
Definition ang_var (i : nat) : ang := mkAng 0 (repeat 0%Z i ++ [1%Z]).
Fixpoint zipadd (a b : list Z) : list Z :=
  match a, b with [], _ => b | _, [] => a | x :: a', y :: b' => (x + y)%Z :: zipadd a' b' end.
Definition ang_add (a b : ang) : ang := mkAng (api4 a + api4 b) (zipadd (ath a) (ath b)).
Definition ang_neg (a : ang) : ang := mkAng (- api4 a) (map Z.opp (ath a)).
Definition ang_sub (a b : ang) : ang := ang_add a (ang_neg b).

Record gate := mkG { gk : gkind; gqs : list nat; gas : list ang }.

(* w^k for integer k (w^8 = 1) *)
Definition zw_wpow (k : Z) : Zw := zw_pow zww (Z.to_nat (k mod 8)).
(* e^{i a} : formal variable v_i is e^{i theta_i / 2}, so theta_i contributes v_i^(2 c_i) *)
Definition ang_exp (a : ang) : LP := lp_norm [(zw_wpow (api4 a), map (Z.mul 2) (ath a))].
(* e^{i a / 2}, available when api4 is even *)
Definition ang_exp_half (a : ang) : LP := lp_norm [(zw_wpow (api4 a / 2), ath a)].

Definition cz (z : Z) : LP := lp_const (zw_of_Z z).
Definition ci : LP := lp_const zwi.
Definition cw : LP := lp_const zww.
Definition cwbar : LP := lp_const (zw_conj zww).

Definition m2 (a b c d : LP) : FM LP := fun x y =>
  match x, y with
  | [false], [false] => a | [false], [true] => b
  | [true], [false] => c | [true], [true] => d
  | _, _ => lp0
  end.
Definition bits_eqb (x y : list bool) : bool :=
  (fix go x y := match x, y with
     | [], [] => true | a :: x', b :: y' => Bool.eqb a b && go x' y' | _, _ => false end) x y.
(* permutation-with-phase matrices: entry (x,y) = ph y if x = f y *)
Definition mperm (k : nat) (f : list bool -> list bool) (ph : list bool -> LP) : FM LP :=
  fun x y => if (Nat.eqb (length y) k && bits_eqb x (f y))%bool then ph y else lp0.

(* 4 x 4 matrices given entry-wise: row bits (a, b), column bits (c, d), first bit = first qubit of the gate *)
Definition m4 (f : bool -> bool -> bool -> bool -> LP) : FM LP := fun x y =>
  match x, y with
  | [a; b], [c; d] => f a b c d
  | _, _ => lp0
  end.

Definition one := cz 1.
Definition mone := cz (-1).
Definition ipl := lp_add one ci.          (* 1 + i *)
Definition imi := lp_sub one ci.          (* 1 - i *)

(* (matrix, exponent of 1/sqrt2) *)
Definition gmat (k : gkind) (as_ : list ang) : FM LP * nat :=
  match k, as_ with
  | KI, _ => (m2 one lp0 lp0 one, 0)
  | KX, _ => (m2 lp0 one one lp0, 0)
  | KY, _ => (m2 lp0 (lp_opp ci) ci lp0, 0)
  | KZ, _ => (m2 one lp0 lp0 mone, 0)
  | KH, _ => (m2 one one one mone, 1)
  | KS, _ => (m2 one lp0 lp0 ci, 0)
  | KSdag, _ => (m2 one lp0 lp0 (lp_opp ci), 0)
  | KSqrtX, _ => (m2 ipl imi imi ipl, 2)
  | KSqrtXdag, _ => (m2 imi ipl ipl imi, 2)
  | KSqrtY, _ => (m2 ipl (lp_opp ipl) ipl ipl, 2)
  | KSqrtYdag, _ => (m2 imi imi (lp_opp imi) imi, 2)
  | KT, _ => (m2 one lp0 lp0 cw, 0)
  | KTdag, _ => (m2 one lp0 lp0 cwbar, 0)
  | KRZ, [a] => let u := ang_exp a in (m2 one lp0 lp0 u, 0)
  | KU1, [a] => let u := ang_exp a in (m2 one lp0 lp0 u, 0)
  | KRX, [a] => let u := ang_exp a in
      (m2 (lp_add one u) (lp_sub one u) (lp_sub one u) (lp_add one u), 2)
  | KRY, [a] => let u := ang_exp a in
      (m2 (lp_add one u) (lp_mul ci (lp_sub u one))
          (lp_mul (lp_opp ci) (lp_sub u one)) (lp_add one u), 2)
  | KU2, [phi; lam] =>
      let p := ang_exp phi in let l := ang_exp lam in
      (m2 one (lp_opp l) p (lp_mul p l), 1)
  | KU3, [th; phi; lam] =>
      let t := ang_exp_half th in let tb := lp_conj t in
      let p := ang_exp phi in let l := ang_exp lam in
      let c2 := lp_add t tb in                      (* 2 cos(th/2) *)
      let s2 := lp_mul (lp_opp ci) (lp_sub t tb) in (* 2 sin(th/2) *)
      (m2 c2 (lp_opp (lp_mul l s2)) (lp_mul p s2) (lp_mul (lp_mul p l) c2), 2)
  | KCNOT, _ => (mperm 2 (fun y => match y with [c; t] => [c; xorb t c] | _ => y end) (fun _ => one), 0)
  | KCZ, _ => (mperm 2 (fun y => y) (fun y => match y with [true; true] => mone | _ => one end), 0)
  | KSWAP, _ => (mperm 2 (fun y => match y with [a; b] => [b; a] | _ => y end) (fun _ => one), 0)
  | KTOFFOLI, _ => (mperm 3 (fun y => match y with [c1; c2; t] => [c1; c2; xorb t (c1 && c2)] | _ => y end)
                      (fun _ => one), 0)
  (* U1q(th, phi) = cos(th/2) - i sin(th/2) (cos phi X + sin phi Y) *)
  | KU1q, [th; phi] =>
      let t := ang_exp_half th in let tb := lp_conj t in
      let p := ang_exp phi in let pb := lp_conj p in
      let c2 := lp_add t tb in                      (* 2 cos(th/2) *)
      let s2 := lp_mul (lp_opp ci) (lp_sub t tb) in (* 2 sin(th/2) *)
      (m2 c2 (lp_mul (lp_opp ci) (lp_mul pb s2)) (lp_mul (lp_opp ci) (lp_mul p s2)) c2, 2)
  (* ZZ = exp(-i pi/4 Z Z) ~ diag(1, i, i, 1);  RZZ(th) = exp(-i th/2 Z Z) ~ diag(1, u, u, 1) *)
  | KZZ, _ => (m4 (fun a b c d => if Bool.eqb a c && Bool.eqb b d then (if xorb a b then ci else one) else lp0), 0)
  | KRZZ, [a0] => let u := ang_exp a0 in
      (m4 (fun a b c d => if Bool.eqb a c && Bool.eqb b d then (if xorb a b then u else one) else lp0), 0)
  (* XX(phi) = cos phi - i sin phi X X *)
  | KXX, [a0] => let u := ang_exp a0 in let ub := lp_conj u in
      (m4 (fun a b c d => if Bool.eqb a c && Bool.eqb b d then lp_add u ub
                          else if Bool.eqb a (negb c) && Bool.eqb b (negb d) then lp_sub ub u else lp0), 2)
  (* IonQ (angles in radians): GPi(phi) = [[0, e^-i phi], [e^i phi, 0]], GPi2(phi) = (1 - i GPi(phi)) / sqrt 2,
     MS(phi0, phi1) = (1 - i GPi(phi0) x GPi(phi1)) / sqrt 2 *)
  | KGPi, [phi] => let p := ang_exp phi in (m2 lp0 (lp_conj p) p lp0, 0)
  | KGPi2, [phi] => let p := ang_exp phi in
      (m2 one (lp_mul (lp_opp ci) (lp_conj p)) (lp_mul (lp_opp ci) p) one, 1)
  | KMS, [phi0; phi1] =>
      let p0 := ang_exp phi0 in let p1 := ang_exp phi1 in
      (m4 (fun a b c d => if Bool.eqb a c && Bool.eqb b d then one
                          else if Bool.eqb a (negb c) && Bool.eqb b (negb d)
                               then lp_mul (lp_opp ci) (lp_mul (if a then p0 else lp_conj p0) (if b then p1 else lp_conj p1))
                               else lp0), 1)
  | _, _ => (fun _ _ => lp0, 0)
  end.

Definition eg (g : gate) : egate :=
  let '(M, s) := gmat (gk g) (gas g) in mkE M s (gqs g).

(* arity discipline of a gate: what the library's factory functions guarantee *)
Definition arity (k : gkind) : nat :=
  match k with KCNOT | KCZ | KSWAP | KZZ | KRZZ | KXX | KMS => 2 | KTOFFOLI => 3 | _ => 1 end.
Definition nparams (k : gkind) : nat :=
  match k with KRX | KRY | KRZ | KU1 | KRZZ | KXX | KGPi | KGPi2 => 1 | KU2 | KU1q | KMS => 2 | KU3 => 3 | _ => 0 end.
Definition gate_wfb (g : gate) : bool :=
  Nat.eqb (length (gqs g)) (arity (gk g)) && Nat.eqb (length (gas g)) (nparams (gk g)) && nodupb (gqs g).

Definition tmpl_check (R : list nat) (tmpl : list gate) (target : gate) : bool :=
  check_equiv R (map eg tmpl) (eg target).
