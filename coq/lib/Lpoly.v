(* Laurent polynomials over Z[w] in formal unit variables v_0, v_1, ... (v_i stands for
   e^{i theta_i / 2}).  The exact ring in which all template matrices are computed; the
   evaluation [lp_eval rho] into C is a ring homomorphism whenever every rho i is a unit. *)
From Coq Require Import ZArith List Bool Lia Reals.
From QP Require Import Cx Zw.
Import ListNotations.

Definition mono := list Z.
Definition LP := list (Zw * mono).

Definition mono_is1 (a : mono) : bool := forallb (Z.eqb 0) a.
Fixpoint mono_eqb (a b : mono) : bool :=
  match a, b with
  | [], _ => mono_is1 b
  | _, [] => mono_is1 a
  | x :: a', y :: b' => Z.eqb x y && mono_eqb a' b'
  end.
Fixpoint mono_mul (a b : mono) : mono :=
  match a, b with
  | [], _ => b
  | _, [] => a
  | x :: a', y :: b' => (x + y)%Z :: mono_mul a' b'
  end.

Fixpoint lp_insert (t : Zw * mono) (p : LP) : LP :=
  match p with
  | [] => [t]
  | s :: p' => if mono_eqb (snd t) (snd s) then (zw_add (fst t) (fst s), snd s) :: p'
               else s :: lp_insert t p'
  end.
Definition lp_nz (t : Zw * mono) : bool := negb (zw_eqb (fst t) zw0).
Definition lp_norm (p : LP) : LP := filter lp_nz (fold_right lp_insert [] p).
Definition lp_add (p q : LP) : LP := lp_norm (p ++ q).
Definition lp_tmul (t s : Zw * mono) : Zw * mono := (zw_mul (fst t) (fst s), mono_mul (snd t) (snd s)).
Definition lp_mul (p q : LP) : LP := lp_norm (flat_map (fun t => map (lp_tmul t) q) p).
Definition lp_opp (p : LP) : LP := map (fun t => (zw_opp (fst t), snd t)) p.
Definition lp_sub (p q : LP) : LP := lp_add p (lp_opp q).
Definition lp_conj (p : LP) : LP := map (fun t => (zw_conj (fst t), map Z.opp (snd t))) p.
Definition lp_eqb (p q : LP) : bool := match lp_sub p q with [] => true | _ => false end.
Definition lp0 : LP := [].
Definition lp_const (z : Zw) : LP := lp_norm [(z, [])].
Definition lp1 : LP := lp_const zw1.
Definition lp_var (i : nat) (k : Z) : LP := [(zw1, repeat 0%Z i ++ [k])].
Definition lp_scale (z : Zw) (p : LP) : LP := lp_mul (lp_const z) p.

(* ------------------------------------------------------------------ evaluation *)
Local Open Scope C_scope.
Fixpoint cpow (u : C) (n : nat) : C := match n with O => C1 | S n' => u * cpow u n' end.
Definition upow (u : C) (k : Z) : C := cpow u (Z.to_nat k) * cpow (Cconj u) (Z.to_nat (- k)).

Lemma cpow_add u n m : cpow u (n + m) = cpow u n * cpow u m.
Proof. induction n as [|n IH]; simpl; [ring | rewrite IH; ring]. Qed.
Lemma cpow_conj u n : Cconj (cpow u n) = cpow (Cconj u) n.
Proof. induction n as [|n IH]; simpl; [unfold Cconj, C1; simpl; f_equal; ring|].
  rewrite Cconj_mul, IH; reflexivity. Qed.
Lemma Cconj_invol u : Cconj (Cconj u) = u.
Proof. unfold Cconj; destruct u; simpl; f_equal; ring. Qed.

Lemma cpow_cancel u : Cunit u -> forall n m,
  cpow u n * cpow (Cconj u) m = cpow u (n - m) * cpow (Cconj u) (m - n).
Proof.
  intros Hu; induction n as [|n IH]; intros [|m]; simpl; try ring.
  rewrite <- IH. pose proof (Cunit_inv u Hu) as E.
  transitivity ((u * Cconj u) * (cpow u n * cpow (Cconj u) m)); [ring | rewrite E; ring].
Qed.

Lemma upow_add u : Cunit u -> forall a b : Z, upow u (a + b) = upow u a * upow u b.
Proof.
  intros Hu a b. unfold upow.
  transitivity (cpow u (Z.to_nat a + Z.to_nat b) * cpow (Cconj u) (Z.to_nat (- a) + Z.to_nat (- b))).
  - rewrite (cpow_cancel u Hu (Z.to_nat a + Z.to_nat b)). f_equal; f_equal; lia.
  - rewrite !cpow_add; ring.
Qed.
Lemma upow_0 u : upow u 0 = C1.
Proof. unfold upow; simpl; ring. Qed.
Lemma upow_1 u : upow u 1 = u.
Proof. unfold upow; simpl; ring. Qed.
Lemma upow_conj u k : Cconj (upow u k) = upow u (- k).
Proof. unfold upow. rewrite Cconj_mul, !cpow_conj, Cconj_invol, Z.opp_involutive. ring. Qed.
Lemma upow_unit u k : Cunit u -> Cunit (upow u k).
Proof. intros Hu. unfold upow. apply Cunit_mul.
  - induction (Z.to_nat k); simpl; [apply Cunit_1 | apply Cunit_mul; auto].
  - induction (Z.to_nat (- k)); simpl; [apply Cunit_1 | apply Cunit_mul; auto using Cunit_conj].
Qed.

Section Eval.
Variable rho : nat -> C.
Hypothesis rho_unit : forall i, Cunit (rho i).

Fixpoint meval (i : nat) (m : mono) : C :=
  match m with [] => C1 | k :: m' => upow (rho i) k * meval (S i) m' end.
Definition teval (t : Zw * mono) : C := zw_eval (fst t) * meval 0 (snd t).
Fixpoint lp_eval (p : LP) : C :=
  match p with [] => C0 | t :: p' => teval t + lp_eval p' end.

Lemma meval_is1 : forall m i, mono_is1 m = true -> meval i m = C1.
Proof. induction m as [|k m IH]; intros i H; simpl in *; auto.
  apply andb_true_iff in H as [Hk Hm]. destruct k; try discriminate.
  rewrite upow_0, IH by auto; ring. Qed.

Lemma meval_eqb : forall a b i, mono_eqb a b = true -> meval i a = meval i b.
Proof.
  induction a as [|x a IH]; intros b i H.
  - simpl in H. simpl. symmetry; apply meval_is1; auto.
  - destruct b as [|y b].
    + simpl in H. rewrite (meval_is1 (x :: a)); auto.
    + simpl in H. apply andb_true_iff in H as [Hx Hab]. apply Z.eqb_eq in Hx; subst y.
      simpl. rewrite (IH b); auto.
Qed.

Lemma meval_mul : forall a b i, meval i (mono_mul a b) = meval i a * meval i b.
Proof.
  induction a as [|x a IH]; intros b i; simpl; [ring|].
  destruct b as [|y b]; simpl; [ring|].
  rewrite upow_add, IH by auto; ring.
Qed.

Lemma meval_conj : forall m i, Cconj (meval i m) = meval i (map Z.opp m).
Proof. induction m as [|k m IH]; intros i; simpl.
  - unfold Cconj, C1; simpl; f_equal; ring.
  - rewrite Cconj_mul, upow_conj, IH; reflexivity. Qed.

Lemma lp_eval_app p q : lp_eval (p ++ q) = lp_eval p + lp_eval q.
Proof. induction p as [|t p IH]; simpl; [ring | rewrite IH; ring]. Qed.

Lemma lp_eval_insert t p : lp_eval (lp_insert t p) = teval t + lp_eval p.
Proof.
  induction p as [|s p IH]; simpl; [reflexivity|].
  destruct (mono_eqb (snd t) (snd s)) eqn:E; simpl.
  - unfold teval; simpl. rewrite zw_eval_add, (meval_eqb _ _ 0 E); ring.
  - rewrite IH; ring.
Qed.

Lemma lp_eval_filter p : lp_eval (filter lp_nz p) = lp_eval p.
Proof.
  induction p as [|t p IH]; simpl; [reflexivity|].
  unfold lp_nz at 1. destruct (zw_eqb (fst t) zw0) eqn:E; simpl.
  - apply zw_eqb_eq in E. unfold teval; rewrite E, zw_eval_0, IH; ring.
  - rewrite IH; reflexivity.
Qed.

Lemma lp_eval_norm p : lp_eval (lp_norm p) = lp_eval p.
Proof.
  unfold lp_norm. rewrite lp_eval_filter.
  induction p as [|t p IH]; simpl; [reflexivity|]. rewrite lp_eval_insert, IH; reflexivity.
Qed.

Lemma lp_eval_add p q : lp_eval (lp_add p q) = lp_eval p + lp_eval q.
Proof. unfold lp_add; rewrite lp_eval_norm; apply lp_eval_app. Qed.

Lemma lp_eval_tmul t s : teval (lp_tmul t s) = teval t * teval s.
Proof. unfold teval, lp_tmul; simpl. rewrite zw_eval_mul, meval_mul; ring. Qed.

Lemma lp_eval_map_tmul t q : lp_eval (map (lp_tmul t) q) = teval t * lp_eval q.
Proof. induction q as [|s q IH]; simpl; [ring|]. rewrite lp_eval_tmul, IH; ring. Qed.

Lemma lp_eval_mul p q : lp_eval (lp_mul p q) = lp_eval p * lp_eval q.
Proof.
  unfold lp_mul; rewrite lp_eval_norm.
  induction p as [|t p IH]; simpl; [ring|].
  rewrite lp_eval_app, lp_eval_map_tmul, IH; ring.
Qed.

Lemma lp_eval_opp p : lp_eval (lp_opp p) = - lp_eval p.
Proof. induction p as [|t p IH]; simpl; [ring|].
  unfold teval at 1; simpl. rewrite zw_eval_opp, IH. unfold teval; ring. Qed.

Lemma lp_eval_sub p q : lp_eval (lp_sub p q) = lp_eval p - lp_eval q.
Proof. unfold lp_sub; rewrite lp_eval_add, lp_eval_opp; ring. Qed.

Lemma lp_eval_conj p : lp_eval (lp_conj p) = Cconj (lp_eval p).
Proof. induction p as [|t p IH]; simpl.
  - unfold Cconj, C0; simpl; f_equal; ring.
  - rewrite Cconj_add, <- IH. f_equal. unfold teval; simpl.
    rewrite zw_eval_conj, Cconj_mul, meval_conj; reflexivity. Qed.

Lemma lp_eval_const z : lp_eval (lp_const z) = zw_eval z.
Proof. unfold lp_const; rewrite lp_eval_norm; simpl; unfold teval; simpl; ring. Qed.
Lemma lp_eval_0 : lp_eval lp0 = C0. Proof. reflexivity. Qed.
Lemma lp_eval_1 : lp_eval lp1 = C1.
Proof. unfold lp1; rewrite lp_eval_const; apply zw_eval_1. Qed.

Lemma meval_var : forall i j k, meval j (repeat 0%Z i ++ [k]) = upow (rho (j + i)) k.
Proof. induction i as [|i IH]; intros j k; simpl.
  - rewrite Nat.add_0_r; ring.
  - rewrite upow_0, IH. replace (S j + i)%nat with (j + S i)%nat by lia. ring. Qed.
Lemma lp_eval_var i k : lp_eval (lp_var i k) = upow (rho i) k.
Proof. unfold lp_var; simpl. unfold teval; simpl. rewrite zw_eval_1, meval_var; simpl; ring. Qed.

Lemma lp_eqb_sound p q : lp_eqb p q = true -> lp_eval p = lp_eval q.
Proof.
  unfold lp_eqb. intros H. destruct (lp_sub p q) eqn:E; [|discriminate].
  assert (H0 : lp_eval (lp_sub p q) = C0) by (rewrite E; reflexivity).
  rewrite lp_eval_sub in H0.
  transitivity ((lp_eval p - lp_eval q) + lp_eval q); [ring | rewrite H0; ring].
Qed.
End Eval.
