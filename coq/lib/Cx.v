(* Complex numbers as pairs of reals: the scalar field of all semantic theorems.
   Only Coq.Reals is imported (no Coquelicot), so the axioms are those of Reals. *)
From Coq Require Import Reals Lra Lia.
Local Open Scope R_scope.

Definition C : Type := (R * R)%type.
Definition RtoC (x : R) : C := (x, 0).
Definition C0 : C := (0, 0).
Definition C1 : C := (1, 0).
Definition Ci : C := (0, 1).
Definition Cadd (x y : C) : C := (fst x + fst y, snd x + snd y).
Definition Copp (x : C) : C := (- fst x, - snd x).
Definition Csub (x y : C) : C := Cadd x (Copp y).
Definition Cmul (x y : C) : C :=
  (fst x * fst y - snd x * snd y, fst x * snd y + snd x * fst y).
Definition Cconj (x : C) : C := (fst x, - snd x).
Definition Cnorm2 (x : C) : R := fst x * fst x + snd x * snd x.
(* e^{i t} *)
Definition Cexp (t : R) : C := (cos t, sin t).

Declare Scope C_scope.
Delimit Scope C_scope with C.
Bind Scope C_scope with C.
Infix "+" := Cadd : C_scope.
Infix "*" := Cmul : C_scope.
Infix "-" := Csub : C_scope.
Notation "- x" := (Copp x) : C_scope.

Lemma C_eq (x y : C) : fst x = fst y -> snd x = snd y -> x = y.
Proof. destruct x, y; simpl; intros; subst; reflexivity. Qed.

Ltac Csolve := intros; apply C_eq; simpl; try ring; try lra.

Lemma C_ring_theory : ring_theory C0 C1 Cadd Cmul Csub Copp eq.
Proof. constructor; unfold C0, C1, Cadd, Cmul, Csub, Copp; Csolve. Qed.
Add Ring C_ring : C_ring_theory.

Lemma Cmul_0_l x : (C0 * x)%C = C0. Proof. ring. Qed.
Lemma Cmul_0_r x : (x * C0)%C = C0. Proof. ring. Qed.
Lemma Cmul_1_l x : (C1 * x)%C = x. Proof. ring. Qed.
Lemma Cmul_1_r x : (x * C1)%C = x. Proof. ring. Qed.
Lemma Cadd_0_l x : (C0 + x)%C = x. Proof. ring. Qed.
Lemma Cadd_0_r x : (x + C0)%C = x. Proof. ring. Qed.

Lemma Ci_sq : (Ci * Ci)%C = (- C1)%C. Proof. unfold Ci, C1; Csolve. Qed.

Lemma Cnorm2_mul x y : Cnorm2 (x * y) = Cnorm2 x * Cnorm2 y.
Proof. unfold Cnorm2, Cmul; simpl; ring. Qed.
Lemma Cnorm2_conj x : (x * Cconj x)%C = RtoC (Cnorm2 x).
Proof. unfold Cnorm2, RtoC, Cconj; Csolve. Qed.
Lemma Cconj_mul x y : Cconj (x * y) = (Cconj x * Cconj y)%C.
Proof. unfold Cconj; Csolve. Qed.
Lemma Cconj_add x y : Cconj (x + y) = (Cconj x + Cconj y)%C.
Proof. unfold Cconj; Csolve. Qed.
Lemma Cnorm2_1 : Cnorm2 C1 = 1. Proof. unfold Cnorm2, C1; simpl; ring. Qed.
Lemma Cnorm2_nonneg x : 0 <= Cnorm2 x.
Proof. unfold Cnorm2; nra. Qed.
Lemma Cnorm2_zero x : Cnorm2 x = 0 -> x = C0.
Proof. unfold Cnorm2, C0; destruct x as [a b]; simpl; intros H;
  assert (a = 0) by nra; assert (b = 0) by nra; subst; reflexivity. Qed.

Lemma Cexp_norm t : Cnorm2 (Cexp t) = 1.
Proof. unfold Cnorm2, Cexp; simpl. pose proof (sin2_cos2 t) as H.
  unfold Rsqr in H. lra. Qed.
Lemma Cexp_add s t : Cexp (s + t) = (Cexp s * Cexp t)%C.
Proof. unfold Cexp; apply C_eq; simpl; [apply cos_plus | rewrite sin_plus; ring]. Qed.
Lemma Cexp_0 : Cexp 0 = C1.
Proof. unfold Cexp, C1; rewrite cos_0, sin_0; reflexivity. Qed.
Lemma Cexp_neg t : Cexp (- t) = Cconj (Cexp t).
Proof. unfold Cexp, Cconj; simpl; rewrite cos_neg, sin_neg; reflexivity. Qed.
Lemma Cexp_conj_inv t : (Cexp t * Cconj (Cexp t))%C = C1.
Proof. rewrite Cnorm2_conj, Cexp_norm; reflexivity. Qed.
Lemma Cexp_PI : Cexp PI = (- C1)%C.
Proof. unfold Cexp, C1, Copp; simpl; rewrite cos_PI, sin_PI; apply C_eq; simpl; ring. Qed.
Lemma Cexp_PI2 : Cexp (PI / 2) = Ci.
Proof. unfold Cexp, Ci; rewrite cos_PI2, sin_PI2; reflexivity. Qed.

(* unit-modulus scalars: the global phases *)
Definition Cunit (c : C) : Prop := Cnorm2 c = 1.
Lemma Cunit_1 : Cunit C1. Proof. apply Cnorm2_1. Qed.
Lemma Cunit_mul a b : Cunit a -> Cunit b -> Cunit (a * b).
Proof. unfold Cunit; intros Ha Hb; rewrite Cnorm2_mul, Ha, Hb; ring. Qed.
Lemma Cunit_exp t : Cunit (Cexp t). Proof. apply Cexp_norm. Qed.
Lemma Cunit_conj a : Cunit a -> Cunit (Cconj a).
Proof. unfold Cunit, Cnorm2, Cconj; simpl; intros; lra. Qed.
Lemma Cunit_inv a : Cunit a -> (a * Cconj a)%C = C1.
Proof. intros H; rewrite Cnorm2_conj, H; reflexivity. Qed.
Lemma Cunit_opp a : Cunit a -> Cunit (- a).
Proof. unfold Cunit, Cnorm2, Copp; simpl; intros; lra. Qed.
Lemma Cunit_i : Cunit Ci. Proof. unfold Cunit, Cnorm2, Ci; simpl; ring. Qed.
