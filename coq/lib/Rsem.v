(* Concrete gates with real parameters and their DOCUMENTED matrices (the docstrings of
   quri_parts/circuit/gates.py are the specification), and the proof that every
   instantiated symbolic gate acts as its exact unit-form matrix up to a global phase.
   Main theorem [tmpl_sound]: a template accepted by the boolean check implements its
   target for all real angles and all placements on distinct qubits. *)
From Coq Require Import ZArith List Bool Arith Lia Reals Lra Nsatz FunctionalExtensionality.
From QP Require Import Cx Zw Asum FMat Lpoly Apply Local Gates.
Import ListNotations.
Local Open Scope C_scope.

Record cgate := mkC { ck : gkind; cqs : list nat; cps : list R }.

Definition m2C (a b c d : C) : CM := fun x y =>
  match x, y with
  | cons x0 nil, cons y0 nil =>
      if x0 then (if y0 then d else c) else (if y0 then b else a)
  | _, _ => C0
  end.

Definition m4C (f : bool -> bool -> bool -> bool -> C) : CM := fun x y =>
  match x, y with
  | cons a (cons b nil), cons c (cons d nil) => f a b c d
  | _, _ => C0
  end.

Definition rho0 : nat -> C := fun _ => C1.
Definition constM (k : gkind) : CM :=
  let '(M, s) := gmat k [] in fun x y => cpow rhC s * lp_eval rho0 (M x y).

(* documented matrices *)
Definition rmat (k : gkind) (ps : list R) : CM :=
  match k, ps with
  | KRZ, a :: nil => m2C (Cexp (- a / 2)) C0 C0 (Cexp (a / 2))
  | KRX, a :: nil => m2C (RtoC (cos (a / 2))) (0, - sin (a / 2))%R (0, - sin (a / 2))%R (RtoC (cos (a / 2)))
  | KRY, a :: nil => m2C (RtoC (cos (a / 2))) (RtoC (- sin (a / 2))) (RtoC (sin (a / 2))) (RtoC (cos (a / 2)))
  | KU1, l :: nil => m2C C1 C0 C0 (Cexp l)
  | KU2, p :: l :: nil => m2C (RtoC rh) (- (RtoC rh * Cexp l)) (RtoC rh * Cexp p) (RtoC rh * Cexp (p + l))
  | KU3, t :: p :: l :: nil =>
      m2C (RtoC (cos (t / 2))) (- (Cexp l * RtoC (sin (t / 2))))
          (Cexp p * RtoC (sin (t / 2))) (Cexp (p + l) * RtoC (cos (t / 2)))
  (* native gates (docstrings of quri_parts.quantinuum.circuit.gates / quri_parts.ionq.circuit.gates; RZZ without its
     scalar prefactor; the IonQ phases in radians) *)
  | KU1q, t :: p :: nil =>
      m2C (RtoC (cos (t / 2))) (- Ci * Cexp (- p) * RtoC (sin (t / 2)))
          (- Ci * Cexp p * RtoC (sin (t / 2))) (RtoC (cos (t / 2)))
  | KRZZ, a :: nil =>
      m4C (fun x0 x1 y0 y1 => if Bool.eqb x0 y0 && Bool.eqb x1 y1 then (if xorb x0 x1 then Cexp a else C1) else C0)
  | KXX, a :: nil =>
      m4C (fun x0 x1 y0 y1 => if Bool.eqb x0 y0 && Bool.eqb x1 y1 then RtoC (cos a)
                              else if Bool.eqb x0 (negb y0) && Bool.eqb x1 (negb y1) then - Ci * RtoC (sin a) else C0)
  | KGPi, p :: nil => m2C C0 (Cexp (- p)) (Cexp p) C0
  | KGPi2, p :: nil => m2C (RtoC rh) (RtoC rh * (- Ci * Cexp (- p))) (RtoC rh * (- Ci * Cexp p)) (RtoC rh)
  | KMS, p0 :: p1 :: nil =>
      m4C (fun x0 x1 y0 y1 => if Bool.eqb x0 y0 && Bool.eqb x1 y1 then RtoC rh
                              else if Bool.eqb x0 (negb y0) && Bool.eqb x1 (negb y1)
                                   then RtoC rh * (- Ci * (Cexp (if x0 then p0 else - p0) * Cexp (if x1 then p1 else - p1)))
                                   else C0)
  | _, _ => constM k
  end.

Definition rsem (c : cgate) : lgate := (rmat (ck c) (cps c), cqs c).

(* ---------------------------------------------------------------- angles *)
Fixpoint angsum (theta : nat -> R) (i : nat) (cs : list Z) : R :=
  match cs with [] => 0%R | c :: cs' => (IZR c * theta i + angsum theta (S i) cs')%R end.
Definition ang_eval (theta : nat -> R) (a : ang) : R :=
  (IZR (api4 a) * (PI / 4) + angsum theta 0 (ath a))%R.

Definition inst (theta : nat -> R) (pi : nat -> nat) (g : gate) : cgate :=
  mkC (gk g) (map pi (gqs g)) (map (ang_eval theta) (gas g)).

Definition rho_of (theta : nat -> R) : nat -> C := fun i => Cexp (theta i / 2).
Lemma rho_of_unit theta i : Cunit (rho_of theta i).
Proof. apply Cunit_exp. Qed.

Lemma cpow_Cexp t n : cpow (Cexp t) n = Cexp (INR n * t).
Proof. induction n as [|n IH].
  - simpl. replace (0 * t)%R with 0%R by ring. symmetry; apply Cexp_0.
  - rewrite S_INR. simpl cpow. rewrite IH, <- Cexp_add. f_equal; ring. Qed.

Lemma upow_Cexp t k : upow (Cexp t) k = Cexp (IZR k * t).
Proof.
  unfold upow. rewrite <- Cexp_neg, !cpow_Cexp, <- Cexp_add. f_equal.
  destruct (Z_le_gt_dec 0 k) as [H|H].
  - rewrite INR_IZR_INZ, Z2Nat.id by lia. replace (Z.to_nat (- k)) with 0%nat by lia. simpl; ring.
  - replace (Z.to_nat k) with 0%nat by lia. rewrite (INR_IZR_INZ (Z.to_nat (- k))), Z2Nat.id by lia.
    rewrite opp_IZR. simpl; ring.
Qed.

Lemma Cexp_2PI_nat n : Cexp (INR n * (2 * PI)) = C1.
Proof. induction n as [|n IH].
  - simpl. replace (0 * (2 * PI))%R with 0%R by ring. apply Cexp_0.
  - rewrite S_INR. replace ((INR n + 1) * (2 * PI))%R with (INR n * (2 * PI) + 2 * PI)%R by ring.
    rewrite Cexp_add, IH. unfold Cexp. rewrite cos_2PI, sin_2PI. apply C_eq; simpl; ring. Qed.

Lemma Cexp_2PI_Z q : Cexp (IZR q * (2 * PI)) = C1.
Proof. destruct (Z_le_gt_dec 0 q) as [H|H].
  - rewrite <- (Z2Nat.id q) by lia. rewrite <- INR_IZR_INZ. apply Cexp_2PI_nat.
  - replace (IZR q * (2 * PI))%R with (- (IZR (- q) * (2 * PI)))%R by (rewrite opp_IZR; ring).
    rewrite Cexp_neg. rewrite <- (Z2Nat.id (- q)) by lia. rewrite <- INR_IZR_INZ, Cexp_2PI_nat.
    unfold Cconj, C1; simpl; f_equal; ring. Qed.

Lemma zw_pow_w n : zw_eval (zw_pow zww n) = Cexp (INR n * (PI / 4)).
Proof. induction n as [|n IH].
  - simpl. replace (0 * (PI / 4))%R with 0%R by ring. rewrite Cexp_0. apply zw_eval_1.
  - rewrite S_INR. simpl zw_pow. rewrite zw_eval_mul, IH, zw_eval_w, <- Cexp_add. f_equal; ring. Qed.

Lemma zw_wpow_eval k : zw_eval (zw_wpow k) = Cexp (IZR k * (PI / 4)).
Proof.
  unfold zw_wpow. rewrite zw_pow_w.
  rewrite INR_IZR_INZ, Z2Nat.id by (apply Z.mod_pos_bound; lia).
  pose proof (Z.div_mod k 8 ltac:(lia)) as E.
  assert (E' : IZR k = (8 * IZR (k / 8) + IZR (k mod 8))%R).
  { rewrite <- mult_IZR, <- plus_IZR. f_equal. exact E. }
  rewrite E'.
  replace ((8 * IZR (k / 8) + IZR (k mod 8)) * (PI / 4))%R
    with (IZR (k / 8) * (2 * PI) + IZR (k mod 8) * (PI / 4))%R by field.
  rewrite Cexp_add, Cexp_2PI_Z. ring.
Qed.

Section Unit.
Variable theta : nat -> R.
Notation rho := (rho_of theta).
Notation phi := (lp_eval rho).

Lemma meval_ang2 : forall cs i,
  meval rho i (map (Z.mul 2) cs) = Cexp (angsum theta i cs).
Proof. induction cs as [|c cs IH]; intros i; cbn [map meval angsum].
  - symmetry; apply Cexp_0.
  - rewrite IH. unfold rho_of. rewrite upow_Cexp, <- Cexp_add. f_equal. rewrite mult_IZR. field. Qed.

Lemma meval_ang1 : forall cs i,
  meval rho i cs = Cexp (angsum theta i cs / 2).
Proof. induction cs as [|c cs IH]; intros i; simpl.
  - replace (0 / 2)%R with 0%R by field. symmetry; apply Cexp_0.
  - rewrite IH. unfold rho_of. rewrite upow_Cexp, <- Cexp_add. f_equal. field. Qed.

Lemma ang_exp_eval a : phi (ang_exp a) = Cexp (ang_eval theta a).
Proof. unfold ang_exp, ang_eval. rewrite lp_eval_norm. simpl. unfold teval; simpl.
  rewrite zw_wpow_eval, meval_ang2, <- Cexp_add. apply Cadd_0_r. Qed.

Lemma ang_exp_half_eval a : Z.even (api4 a) = true ->
  phi (ang_exp_half a) = Cexp (ang_eval theta a / 2).
Proof. intros He. unfold ang_exp_half, ang_eval. rewrite lp_eval_norm. simpl. unfold teval; simpl.
  rewrite zw_wpow_eval, meval_ang1, <- Cexp_add. rewrite Cadd_0_r. f_equal.
  apply Zeven_bool_iff, Zeven_div2 in He. rewrite He at 2.
  rewrite Z.div2_div, mult_IZR. field. Qed.
End Unit.

(* ---------------------------------------------------------------- unit form *)
Fixpoint lp_closedb (p : LP) : bool :=
  match p with [] => true | t :: p' => mono_is1 (snd t) && lp_closedb p' end.
Lemma lp_closed_eval rho rho' p : lp_closedb p = true -> lp_eval rho p = lp_eval rho' p.
Proof. induction p as [|t p IH]; simpl; intros H; [reflexivity|].
  apply andb_true_iff in H as [H1 H2]. rewrite IH by auto. unfold teval.
  rewrite !meval_is1 by auto. reflexivity. Qed.

Definition is_const (k : gkind) : bool :=
  match k with KRX | KRY | KRZ | KU1 | KU2 | KU3 | KU1q | KRZZ | KXX | KGPi | KGPi2 | KMS => false | _ => true end.
Definition const_closedb (k : gkind) : bool :=
  let '(M, _) := gmat k [] in
  forallb (fun x => forallb (fun y => lp_closedb (M x y)) (allbits (arity k))) (allbits (arity k)).
Definition all_kinds : list gkind :=
  [KI; KX; KY; KZ; KH; KS; KSdag; KSqrtX; KSqrtXdag; KSqrtY; KSqrtYdag; KT; KTdag;
   KRX; KRY; KRZ; KU1; KU2; KU3; KCNOT; KCZ; KSWAP; KTOFFOLI].
Definition native_kinds : list gkind := [KU1q; KZZ; KRZZ; KXX; KGPi; KGPi2; KMS].
Lemma all_const_closed : forallb (fun k => implb (is_const k) (const_closedb k)) (all_kinds ++ native_kinds) = true.
Proof. vm_compute. reflexivity. Qed.

Lemma m2_phi rho a b c d x y :
  lp_eval rho (m2 a b c d x y)
  = m2C (lp_eval rho a) (lp_eval rho b) (lp_eval rho c) (lp_eval rho d) x y.
Proof. destruct x as [|[] [|? ?]], y as [|[] [|? ?]]; reflexivity. Qed.

Lemma m2C_scale (k : C) A B C' D A' B' C'' D' x y :
  A = k * A' -> B = k * B' -> C' = k * C'' -> D = k * D' ->
  m2C A B C' D x y = k * m2C A' B' C'' D' x y.
Proof. intros -> -> -> ->. unfold m2C.
  destruct x as [|[] [|? ?]], y as [|[] [|? ?]]; ring. Qed.

Lemma m4_phi rho f x y :
  lp_eval rho (m4 f x y) = m4C (fun a b c d => lp_eval rho (f a b c d)) x y.
Proof. destruct x as [|a [|b [|? ?]]], y as [|c [|d [|? ?]]]; reflexivity. Qed.

Lemma m4C_scale (k : C) F G x y :
  (forall a b c d, F a b c d = k * G a b c d) -> m4C F x y = k * m4C G x y.
Proof. intros H. unfold m4C.
  destruct x as [|a [|b [|? ?]]], y as [|c [|d [|? ?]]]; try ring. apply H. Qed.

Section Unit2.
Variable theta : nat -> R.
Notation rho := (rho_of theta).
Notation phi := (lp_eval rho).

Lemma phi_one : phi one = C1.
Proof. unfold one, cz. rewrite lp_eval_const, zw_eval_of_Z. reflexivity. Qed.
Lemma phi_mone : phi mone = - C1.
Proof. unfold mone, cz. rewrite lp_eval_const, zw_eval_of_Z. unfold RtoC, C1, Copp; simpl. f_equal; ring. Qed.
Lemma phi_ci : phi ci = Ci.
Proof. unfold ci. rewrite lp_eval_const. apply zw_eval_i. Qed.
Lemma phi_add p q : phi (lp_add p q) = phi p + phi q. Proof. apply lp_eval_add. Qed.
Lemma phi_sub p q : phi (lp_sub p q) = phi p - phi q. Proof. apply lp_eval_sub. Qed.
Lemma phi_opp p : phi (lp_opp p) = - phi p. Proof. apply lp_eval_opp. Qed.
Lemma phi_mul p q : phi (lp_mul p q) = phi p * phi q.
Proof. apply lp_eval_mul, rho_of_unit. Qed.
Lemma phi_conj p : phi (lp_conj p) = Cconj (phi p). Proof. apply lp_eval_conj. Qed.
Lemma phi_0 : phi lp0 = C0. Proof. reflexivity. Qed.

Lemma rhC2 : cpow rhC 2 * (C1 + C1) = C1.
Proof. simpl. unfold rhC, RtoC, C1, Cmul, Cadd. apply C_eq; simpl; pose proof rh_sq; nra. Qed.

Ltac trig h :=
  unfold Cexp, Cconj, RtoC, Cmul, Cadd, Csub, Copp, C1, C0, Ci, rhC; simpl;
  generalize (sin2_cos2 h); unfold Rsqr;
  generalize (cos h) (sin h); intros cc ss Hcs;
  pose proof rh_sq as Hrh; apply C_eq; simpl; nsatz.

Definition unit_form (k : gkind) (as_ : list ang) : Prop :=
  exists c, Cunit c /\ forall x y, length x = arity k -> length y = arity k ->
    rmat k (map (ang_eval theta) as_) x y
    = c * (cpow rhC (snd (gmat k as_)) * phi (fst (gmat k as_) x y)).

Lemma unit_form_const k : is_const k = true -> unit_form k [].
Proof.
  intros Hk. exists C1; split; [apply Cunit_1|]. intros x y Hx Hy.
  assert (Hc : const_closedb k = true).
  { pose proof all_const_closed as H. rewrite forallb_forall in H.
    assert (Hin : In k (all_kinds ++ native_kinds)) by (destruct k; simpl; tauto).
    specialize (H k Hin). rewrite Hk in H. exact H. }
  assert (E : rmat k (map (ang_eval theta) []) = constM k) by (destruct k; try discriminate; reflexivity).
  rewrite E. unfold constM, const_closedb in *. destruct (gmat k []) as [M s]. simpl.
  rewrite forallb_forall in Hc. specialize (Hc x (allbits_complete _ x Hx)).
  rewrite forallb_forall in Hc. specialize (Hc y (allbits_complete _ y Hy)).
  rewrite (lp_closed_eval rho0 rho _ Hc). ring.
Qed.

Lemma unit_form_RZ a : unit_form KRZ [a].
Proof.
  exists (Cexp (- ang_eval theta a / 2)); split; [apply Cunit_exp|]. intros x y _ _.
  cbn [map rmat gmat fst snd cpow]. rewrite m2_phi, phi_one, phi_0, ang_exp_eval.
  set (al := ang_eval theta a).
  transitivity (Cexp (- al / 2) * m2C C1 C0 C0 (Cexp al) x y).
  - apply m2C_scale; try ring.
    rewrite <- Cexp_add. f_equal. field.
  - ring.
Qed.

Lemma unit_form_U1 a : unit_form KU1 [a].
Proof.
  exists C1; split; [apply Cunit_1|]. intros x y _ _.
  cbn [map rmat gmat fst snd cpow]. rewrite m2_phi, phi_one, phi_0, ang_exp_eval. ring.
Qed.

Lemma unit_form_RX a : unit_form KRX [a].
Proof.
  exists (Cexp (- ang_eval theta a / 2)); split; [apply Cunit_exp|]. intros x y _ _.
  cbn [map rmat gmat fst snd]. rewrite m2_phi, !phi_add, !phi_sub, phi_one, ang_exp_eval.
  set (al := ang_eval theta a). set (h := (al / 2)%R).
  replace (- al / 2)%R with (- h)%R by (unfold h; field).
  replace al with (h + h)%R by (unfold h; field). fold h.
  replace ((h + h) / 2)%R with h by field.
  rewrite Cexp_add, Cexp_neg.
  transitivity ((Cconj (Cexp h) * cpow rhC 2) *
     m2C (C1 + Cexp h * Cexp h) (C1 - Cexp h * Cexp h) (C1 - Cexp h * Cexp h) (C1 + Cexp h * Cexp h) x y);
    [|ring].
  apply m2C_scale; trig h.
Qed.

Lemma unit_form_RY a : unit_form KRY [a].
Proof.
  exists (Cexp (- ang_eval theta a / 2)); split; [apply Cunit_exp|]. intros x y _ _.
  cbn [map rmat gmat fst snd].
  rewrite m2_phi, !phi_mul, !phi_opp, !phi_add, !phi_sub, phi_ci, phi_one, ang_exp_eval.
  set (al := ang_eval theta a). set (h := (al / 2)%R).
  replace (- al / 2)%R with (- h)%R by (unfold h; field).
  replace al with (h + h)%R by (unfold h; field). fold h.
  replace ((h + h) / 2)%R with h by field.
  rewrite Cexp_add, Cexp_neg.
  transitivity ((Cconj (Cexp h) * cpow rhC 2) *
     m2C (C1 + Cexp h * Cexp h) (Ci * (Cexp h * Cexp h - C1))
         (- Ci * (Cexp h * Cexp h - C1)) (C1 + Cexp h * Cexp h) x y);
    [|ring].
  apply m2C_scale; trig h.
Qed.

Lemma unit_form_U2 p l : unit_form KU2 [p; l].
Proof.
  exists C1; split; [apply Cunit_1|]. intros x y _ _.
  cbn [map rmat gmat fst snd].
  rewrite m2_phi, !phi_mul, !phi_opp, phi_one, !ang_exp_eval.
  rewrite Cexp_add.
  transitivity (cpow rhC 1 * m2C C1 (- Cexp (ang_eval theta l)) (Cexp (ang_eval theta p))
                  (Cexp (ang_eval theta p) * Cexp (ang_eval theta l)) x y); [|ring].
  apply m2C_scale; simpl; unfold rhC; ring.
Qed.

Lemma unit_form_U3 t p l : Z.even (api4 t) = true -> unit_form KU3 [t; p; l].
Proof.
  intros He. exists C1; split; [apply Cunit_1|]. intros x y _ _.
  cbn [map rmat gmat fst snd].
  rewrite m2_phi, !phi_mul, !phi_opp, !phi_add, !phi_mul, !phi_opp, !phi_sub, !phi_conj, phi_ci,
    !ang_exp_eval, (ang_exp_half_eval theta t He).
  set (h := (ang_eval theta t / 2)%R). rewrite Cexp_add.
  set (P := Cexp (ang_eval theta p)). set (L := Cexp (ang_eval theta l)).
  transitivity (cpow rhC 2 *
     m2C (Cexp h + Cconj (Cexp h)) (- (L * (- Ci * (Cexp h - Cconj (Cexp h)))))
         (P * (- Ci * (Cexp h - Cconj (Cexp h)))) (P * L * (Cexp h + Cconj (Cexp h))) x y); [|ring].
  destruct P as [pr pim], L as [lr lim].
  apply m2C_scale; trig h.
Qed.
Lemma unit_form_U1q t p : Z.even (api4 t) = true -> unit_form KU1q [t; p].
Proof.
  intros He. exists C1; split; [apply Cunit_1|]. intros x y _ _.
  cbn [map rmat gmat fst snd].
  rewrite m2_phi. repeat rewrite ?phi_mul, ?phi_opp, ?phi_add, ?phi_sub, ?phi_conj, ?phi_ci.
  rewrite !ang_exp_eval, (ang_exp_half_eval theta t He).
  set (h := (ang_eval theta t / 2)%R). rewrite Cexp_neg.
  set (P := Cexp (ang_eval theta p)).
  transitivity (cpow rhC 2 *
     m2C (Cexp h + Cconj (Cexp h)) (- Ci * (Cconj P * (- Ci * (Cexp h - Cconj (Cexp h)))))
         (- Ci * (P * (- Ci * (Cexp h - Cconj (Cexp h))))) (Cexp h + Cconj (Cexp h)) x y); [|ring].
  destruct P as [pr pim].
  apply m2C_scale; trig h.
Qed.

Lemma unit_form_RZZ a : unit_form KRZZ [a].
Proof.
  exists C1; split; [apply Cunit_1|]. intros x y _ _.
  cbn [map rmat gmat fst snd cpow]. rewrite m4_phi.
  transitivity (C1 * m4C (fun a0 b c d : bool =>
      phi (if Bool.eqb a0 c && Bool.eqb b d then if xorb a0 b then ang_exp a else one else lp0)) x y); [|ring].
  apply m4C_scale. intros x0 x1 y0 y1.
  destruct (Bool.eqb x0 y0 && Bool.eqb x1 y1); [|rewrite phi_0; ring].
  destruct (xorb x0 x1); [rewrite ang_exp_eval|rewrite phi_one]; ring.
Qed.

Lemma unit_form_XX a : unit_form KXX [a].
Proof.
  exists C1; split; [apply Cunit_1|]. intros x y _ _.
  cbn [map rmat gmat fst snd]. rewrite m4_phi.
  set (h := ang_eval theta a).
  transitivity (cpow rhC 2 * m4C (fun a0 b c d : bool =>
      phi (if Bool.eqb a0 c && Bool.eqb b d then lp_add (ang_exp a) (lp_conj (ang_exp a))
           else if Bool.eqb a0 (negb c) && Bool.eqb b (negb d) then lp_sub (lp_conj (ang_exp a)) (ang_exp a) else lp0)) x y); [|ring].
  apply m4C_scale. intros x0 x1 y0 y1.
  destruct (Bool.eqb x0 y0 && Bool.eqb x1 y1).
  - rewrite phi_add, phi_conj, ang_exp_eval. fold h. trig h.
  - destruct (Bool.eqb x0 (negb y0) && Bool.eqb x1 (negb y1)).
    + rewrite phi_sub, phi_conj, ang_exp_eval. fold h. trig h.
    + rewrite phi_0. ring.
Qed.

Lemma unit_form_GPi p : unit_form KGPi [p].
Proof.
  exists C1; split; [apply Cunit_1|]. intros x y _ _.
  cbn [map rmat gmat fst snd cpow].
  rewrite m2_phi, phi_conj, phi_0, ang_exp_eval, Cexp_neg.
  unfold m2C. destruct x as [|[] [|? ?]], y as [|[] [|? ?]]; ring.
Qed.

Lemma unit_form_GPi2 p : unit_form KGPi2 [p].
Proof.
  exists C1; split; [apply Cunit_1|]. intros x y _ _.
  cbn [map rmat gmat fst snd].
  rewrite m2_phi, !phi_mul, !phi_opp, phi_conj, phi_ci, phi_one, ang_exp_eval, Cexp_neg.
  transitivity (cpow rhC 1 * m2C C1 (- Ci * Cconj (Cexp (ang_eval theta p))) (- Ci * Cexp (ang_eval theta p)) C1 x y); [|ring].
  apply m2C_scale; simpl; unfold rhC; ring.
Qed.

Lemma unit_form_MS p0 p1 : unit_form KMS [p0; p1].
Proof.
  exists C1; split; [apply Cunit_1|]. intros x y _ _.
  cbn [map rmat gmat fst snd]. rewrite m4_phi.
  set (a0 := ang_eval theta p0). set (a1 := ang_eval theta p1).
  transitivity (cpow rhC 1 * m4C (fun a b c d : bool =>
      phi (if Bool.eqb a c && Bool.eqb b d then one
           else if Bool.eqb a (negb c) && Bool.eqb b (negb d)
                then lp_mul (lp_opp ci) (lp_mul (if a then ang_exp p0 else lp_conj (ang_exp p0))
                                                 (if b then ang_exp p1 else lp_conj (ang_exp p1)))
                else lp0)) x y); [|ring].
  apply m4C_scale. intros x0 x1 y0 y1.
  destruct (Bool.eqb x0 y0 && Bool.eqb x1 y1).
  - rewrite phi_one. simpl. unfold rhC. ring.
  - destruct (Bool.eqb x0 (negb y0) && Bool.eqb x1 (negb y1)).
    + rewrite !phi_mul, phi_opp, phi_ci.
      destruct x0, x1; rewrite ?phi_conj, !ang_exp_eval, ?Cexp_neg; fold a0 a1; simpl; unfold rhC; ring.
    + rewrite phi_0. ring.
Qed.
End Unit2.

(* ---------------------------------------------------------------- main theorems *)
Definition gate_ok (g : gate) : bool :=
  gate_wfb g && (if gkind_eqb (gk g) KU3 || gkind_eqb (gk g) KU1q
                 then match gas g with t :: _ => Z.even (api4 t) | [] => false end else true).

Lemma eg_eM g : eM (eg g) = fst (gmat (gk g) (gas g)).
Proof. unfold eg. destruct (gmat (gk g) (gas g)); reflexivity. Qed.
Lemma eg_es g : es (eg g) = snd (gmat (gk g) (gas g)).
Proof. unfold eg. destruct (gmat (gk g) (gas g)); reflexivity. Qed.
Lemma eg_eqs g : eqs (eg g) = gqs g.
Proof. unfold eg. destruct (gmat (gk g) (gas g)); reflexivity. Qed.

Lemma unit_form_all theta g : gate_ok g = true -> unit_form theta (gk g) (gas g).
Proof.
  unfold gate_ok, gate_wfb. intros H.
  apply andb_true_iff in H as [H Hu3]. apply andb_true_iff in H as [H _].
  apply andb_true_iff in H as [_ Hp]. apply Nat.eqb_eq in Hp.
  destruct g as [k qs as_]; simpl in *.
  destruct k; simpl in Hp;
    try (destruct as_ as [|? ?]; [|discriminate]; apply unit_form_const; reflexivity).
  - destruct as_ as [|a [|? ?]]; try discriminate. apply unit_form_RX.
  - destruct as_ as [|a [|? ?]]; try discriminate. apply unit_form_RY.
  - destruct as_ as [|a [|? ?]]; try discriminate. apply unit_form_RZ.
  - destruct as_ as [|a [|? ?]]; try discriminate. apply unit_form_U1.
  - destruct as_ as [|a [|a' [|? ?]]]; try discriminate. apply unit_form_U2.
  - destruct as_ as [|a [|a' [|a'' [|? ?]]]]; try discriminate. apply unit_form_U3. exact Hu3.
  - destruct as_ as [|a [|a' [|? ?]]]; try discriminate. apply unit_form_U1q. exact Hu3.
  - destruct as_ as [|a [|? ?]]; try discriminate. apply unit_form_RZZ.
  - destruct as_ as [|a [|? ?]]; try discriminate. apply unit_form_XX.
  - destruct as_ as [|a [|? ?]]; try discriminate. apply unit_form_GPi.
  - destruct as_ as [|a [|? ?]]; try discriminate. apply unit_form_GPi2.
  - destruct as_ as [|a [|a' [|? ?]]]; try discriminate. apply unit_form_MS.
Qed.

Section Main.
Variable theta : nat -> R.
Variable pi : nat -> nat.
Hypothesis pi_inj : forall a b, pi a = pi b -> a = b.
Notation rho := (rho_of theta).

Lemma rsem_unit g : gate_ok g = true ->
  lsem (rsem (inst theta pi g)) ≃ lsem (sgate rho pi (eg g)).
Proof.
  intros Hok. destruct (unit_form_all theta g Hok) as [c [Hc H]].
  exists c; split; auto. intros psi b.
  unfold lsem, rsem, inst, sgate; cbn [fst snd ck cqs cps].
  rewrite eg_eqs, eg_es, eg_eM.
  rewrite <- apply_scale. apply apply_ext. intros x y Hx Hy.
  unfold gate_ok, gate_wfb in Hok.
  apply andb_true_iff in Hok as [Hok _]. apply andb_true_iff in Hok as [Hok _].
  apply andb_true_iff in Hok as [Ha _]. apply Nat.eqb_eq in Ha.
  rewrite map_length in Hx, Hy. apply H; congruence.
Qed.

Lemma rsem_units gs : forallb gate_ok gs = true ->
  csem (map (fun g => rsem (inst theta pi g)) gs) ≃ csem (map (fun g => sgate rho pi (eg g)) gs).
Proof.
  induction gs as [|g gs IH]; simpl; intros H; [apply opequiv_refl|].
  apply andb_true_iff in H as [Hg Hgs].
  change (csem ([rsem (inst theta pi g)] ++ map (fun g => rsem (inst theta pi g)) gs)
          ≃ csem ([sgate rho pi (eg g)] ++ map (fun g => sgate rho pi (eg g)) gs)).
  apply csem_app_equiv; [|apply IH; auto].
  destruct (rsem_unit g Hg) as [c [Hc H]]. exists c; split; auto.
Qed.

(* A template accepted by the exact check implements its target, for all real angles
   and every injective placement of its roles on the qubits of a register of any size. *)
Theorem tmpl_sound R tmpl target :
  tmpl_check R tmpl target = true ->
  forallb gate_ok tmpl = true -> gate_ok target = true ->
  csem (map (fun g => rsem (inst theta pi g)) tmpl) ≃ lsem (rsem (inst theta pi target)).
Proof.
  intros Hc Hok Hokt.
  eapply opequiv_trans; [apply rsem_units; auto|].
  eapply opequiv_trans; [|apply opequiv_sym, rsem_unit; auto].
  rewrite <- map_map. apply (local_sound rho (rho_of_unit theta) pi pi_inj R). exact Hc.
Qed.

(* the same for two gate lists (used for adjacent-gate fusers: window vs replacement) *)
Theorem tmpl_sound2 R gs gs' :
  check_equiv2 R (map eg gs) (map eg gs') = true ->
  forallb gate_ok gs = true -> forallb gate_ok gs' = true ->
  csem (map (fun g => rsem (inst theta pi g)) gs) ≃ csem (map (fun g => rsem (inst theta pi g)) gs').
Proof.
  intros Hc Hok Hok'.
  eapply opequiv_trans; [apply rsem_units; auto|].
  eapply opequiv_trans; [|apply opequiv_sym, rsem_units; auto].
  rewrite <- !(map_map eg (sgate rho pi)).
  apply (local_sound2 rho (rho_of_unit theta) pi pi_inj R). exact Hc.
Qed.
End Main.
