(* Sums over reassignments of a set of qubits: the order-free core of the n-qubit
   operator semantics.  A basis state is a total assignment nat -> bool (registers of
   every size at once); [asum qs F b] sums F over all assignments obtained from b by
   overwriting the qubits in qs. *)
From Coq Require Import List Bool Arith Lia Reals FunctionalExtensionality Permutation.
From QP Require Import Cx.
Import ListNotations.
Local Open Scope C_scope.

Definition Basis := nat -> bool.

Definition bset (b : Basis) (q : nat) (v : bool) : Basis :=
  fun n => if Nat.eqb n q then v else b n.

Lemma bset_eq b q v : bset b q v q = v.
Proof. unfold bset; rewrite Nat.eqb_refl; reflexivity. Qed.
Lemma bset_neq b q v n : n <> q -> bset b q v n = b n.
Proof. unfold bset; intros H; apply Nat.eqb_neq in H; rewrite H; reflexivity. Qed.
Lemma bset_bset b q v w : bset (bset b q v) q w = bset b q w.
Proof. apply functional_extensionality; intros n; unfold bset;
  destruct (Nat.eqb n q); reflexivity. Qed.
Lemma bset_comm b q q' v w : q <> q' ->
  bset (bset b q v) q' w = bset (bset b q' w) q v.
Proof. intros H; apply functional_extensionality; intros n; unfold bset.
  destruct (Nat.eqb_spec n q'), (Nat.eqb_spec n q); subst; try reflexivity; contradiction. Qed.
Lemma bset_id b q : bset b q (b q) = b.
Proof. apply functional_extensionality; intros n; unfold bset.
  destruct (Nat.eqb_spec n q); subst; reflexivity. Qed.

Fixpoint asum (qs : list nat) (F : Basis -> C) (b : Basis) : C :=
  match qs with
  | [] => F b
  | q :: qs' => asum qs' F (bset b q false) + asum qs' F (bset b q true)
  end.

Definition agree_off (qs : list nat) (b b' : Basis) : Prop :=
  forall n, ~ In n qs -> b' n = b n.

Lemma agree_off_refl qs b : agree_off qs b b.
Proof. intros n _; reflexivity. Qed.

Lemma agree_off_step q qs b b' v :
  agree_off qs (bset b q v) b' -> agree_off (q :: qs) b b'.
Proof. intros H n Hn. simpl in Hn. rewrite (H n); [apply bset_neq; intros ->; tauto | tauto]. Qed.

(* the sum only visits assignments that agree with b outside qs *)
Lemma asum_ext_off qs : forall F G b,
  (forall b', agree_off qs b b' -> F b' = G b') -> asum qs F b = asum qs G b.
Proof.
  induction qs as [|q qs IH]; intros F G b H; simpl.
  - apply H, agree_off_refl.
  - f_equal; apply IH; intros b' Hb'; apply H; eapply agree_off_step; eassumption.
Qed.

Lemma asum_ext qs F G b : (forall b', F b' = G b') -> asum qs F b = asum qs G b.
Proof. intros H; apply asum_ext_off; auto. Qed.

Lemma asum_add qs : forall F G b,
  asum qs (fun x => F x + G x) b = asum qs F b + asum qs G b.
Proof. induction qs as [|q qs IH]; intros; simpl; [reflexivity|]. rewrite !IH; ring. Qed.

Lemma asum_scale qs : forall c F b,
  asum qs (fun x => c * F x) b = c * asum qs F b.
Proof. induction qs as [|q qs IH]; intros; simpl; [reflexivity|]. rewrite !IH; ring. Qed.

Lemma asum_zero qs : forall b, asum qs (fun _ => C0) b = C0.
Proof. induction qs as [|q qs IH]; intros; simpl; [reflexivity|]. rewrite !IH; ring. Qed.

Lemma asum_app qs qs' : forall F b,
  asum (qs ++ qs') F b = asum qs (asum qs' F) b.
Proof. induction qs as [|q qs IH]; intros; simpl; [reflexivity|]. rewrite !IH; reflexivity. Qed.

Lemma asum_perm qs qs' : Permutation qs qs' ->
  forall F b, asum qs F b = asum qs' F b.
Proof.
  induction 1 as [|x l l' _ IH|x y l|l l' l'' _ IH1 _ IH2]; intros F b; simpl.
  - reflexivity.
  - rewrite !IH; reflexivity.
  - destruct (Nat.eq_dec x y) as [->|Hxy].
    + rewrite !bset_bset; ring.
    + rewrite (bset_comm b y x false false), (bset_comm b y x false true),
        (bset_comm b y x true false), (bset_comm b y x true true) by auto. ring.
  - rewrite IH1; apply IH2.
Qed.

(* the starting values of the summed qubits are irrelevant *)
Lemma asum_start qs : forall F b b',
  agree_off qs b b' -> asum qs F b' = asum qs F b.
Proof.
  induction qs as [|q qs IH]; intros F b b' H; simpl.
  - f_equal. apply functional_extensionality; intros n; apply H; auto.
  - f_equal; apply IH; intros n Hn; unfold bset;
      destruct (Nat.eqb_spec n q); auto; apply H; simpl;
      intros [E|E]; try (symmetry in E); contradiction.
Qed.

Lemma asum_fubini qs qs' : forall (G : Basis -> Basis -> C) b c,
  asum qs (fun b1 => asum qs' (fun b2 => G b1 b2) c) b
  = asum qs' (fun b2 => asum qs (fun b1 => G b1 b2) b) c.
Proof.
  induction qs as [|q qs IH]; intros G b c; simpl.
  - reflexivity.
  - rewrite !IH, <- asum_add. reflexivity.
Qed.

(* overwrite the qubits qs of b by the values they have in b0 *)
Fixpoint over (b0 : Basis) (qs : list nat) (b : Basis) : Basis :=
  match qs with [] => b | q :: qs' => over b0 qs' (bset b q (b0 q)) end.

Definition agreeb (qs : list nat) (b b' : Basis) : bool :=
  forallb (fun q => Bool.eqb (b q) (b' q)) qs.

Lemma over_spec b0 qs : forall b n,
  over b0 qs b n = if existsb (Nat.eqb n) qs then b0 n else b n.
Proof.
  induction qs as [|q qs IH]; intros b n; simpl; [reflexivity|].
  rewrite IH. unfold bset. destruct (Nat.eqb_spec n q); subst; simpl.
  - destruct (existsb _ qs); reflexivity.
  - reflexivity.
Qed.

Lemma asum_delta qs : NoDup qs -> forall b0 G b,
  asum qs (fun b' => if agreeb qs b0 b' then G b' else C0) b = G (over b0 qs b).
Proof.
  induction 1 as [|q qs Hq Hnd IH]; intros b0 G b; simpl; [reflexivity|].
  assert (Hfix : forall v, asum qs
     (fun b' => if Bool.eqb (b0 q) (b' q) && agreeb qs b0 b' then G b' else C0) (bset b q v)
     = if Bool.eqb (b0 q) v then G (over b0 qs (bset b q v)) else C0).
  { intros v. rewrite <- IH.
    destruct (Bool.eqb (b0 q) v) eqn:E.
    - apply asum_ext_off; intros b' Hb'. rewrite (Hb' q Hq), bset_eq, E. reflexivity.
    - rewrite <- (asum_zero qs (bset b q v)) at 1.
      apply asum_ext_off; intros b' Hb'. rewrite (Hb' q Hq), bset_eq, E. reflexivity. }
  rewrite !Hfix. destruct (b0 q); simpl; ring.
Qed.
