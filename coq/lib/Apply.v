(* n-qubit operator semantics: [apply M qs] is the action of the 2^k x 2^k matrix M on
   the distinct qubits qs of a register of any size.  Main results:
     apply_mmul  : composition on the same qubits is the matrix product;
     apply_embed : a gate on a sub-list of roles acts as its embedded matrix;
     csem_prod   : a whole gate list on roles Q acts as the product of embedded matrices. *)
From Coq Require Import List Bool Arith Lia Reals FunctionalExtensionality Permutation.
From QP Require Import Cx Asum FMat.
Import ListNotations.
Local Open Scope C_scope.

Definition St := Basis -> C.
Definition Op := St -> St.
Definition CM := FM C.

Definition rd (b : Basis) (qs : list nat) : list bool := map b qs.

Definition apply (M : CM) (qs : list nat) : Op :=
  fun psi b => asum qs (fun b' => M (rd b qs) (rd b' qs) * psi b') b.

Notation cbsum := (bsum Cadd).
Notation cmmul := (fmmul Cadd Cmul).
Notation cembed := (embedK C0).

Lemma rd_length b qs : length (rd b qs) = length qs.
Proof. apply map_length. Qed.

Lemma rd_agree_off qs b b' : agree_off qs b b' ->
  forall rs, (forall r, In r rs -> ~ In r qs) -> rd b' rs = rd b rs.
Proof. intros H rs Hrs. apply map_ext_in; intros r Hr; apply H, Hrs, Hr. Qed.

Lemma asum_rd qs : NoDup qs -> forall (f : list bool -> C) b,
  asum qs (fun b1 => f (rd b1 qs)) b = cbsum (length qs) f.
Proof.
  induction 1 as [|q qs Hq Hnd IH]; intros f b; simpl; [reflexivity|].
  f_equal.
  - rewrite <- (IH (fun y => f (false :: y)) (bset b q false)).
    apply asum_ext_off; intros b' Hb'. rewrite (Hb' q Hq), bset_eq; reflexivity.
  - rewrite <- (IH (fun y => f (true :: y)) (bset b q true)).
    apply asum_ext_off; intros b' Hb'. rewrite (Hb' q Hq), bset_eq; reflexivity.
Qed.

Lemma apply_ext M M' qs psi b :
  (forall x y, length x = length qs -> length y = length qs -> M x y = M' x y) ->
  apply M qs psi b = apply M' qs psi b.
Proof. intros H; unfold apply; apply asum_ext; intros b'. rewrite H by apply rd_length. reflexivity. Qed.

Lemma apply_scale c M qs psi b :
  apply (fun x y => c * M x y) qs psi b = c * apply M qs psi b.
Proof. unfold apply. rewrite <- asum_scale. apply asum_ext; intros; ring. Qed.

Lemma apply_lin_scale M qs c psi b :
  apply M qs (fun b => c * psi b) b = c * apply M qs psi b.
Proof. unfold apply. rewrite <- asum_scale. apply asum_ext; intros; ring. Qed.

Lemma apply_mmul A B qs : NoDup qs -> forall psi b,
  apply A qs (apply B qs psi) b = apply (cmmul (length qs) A B) qs psi b.
Proof.
  intros Hnd psi b. unfold apply at 1 2.
  transitivity (asum qs (fun b1 => asum qs
     (fun b2 => A (rd b qs) (rd b1 qs) * (B (rd b1 qs) (rd b2 qs) * psi b2)) b) b).
  { apply asum_ext_off; intros b1 Hb1. rewrite <- asum_scale.
    apply asum_start. exact Hb1. }
  rewrite asum_fubini. unfold apply. apply asum_ext; intros b2.
  unfold fmmul.
  rewrite <- (asum_rd qs Hnd (fun y => A (rd b qs) y * B y (rd b2 qs)) b).
  replace (asum qs (fun b1 => A (rd b qs) (rd b1 qs) * B (rd b1 qs) (rd b2 qs)) b * psi b2)
    with (psi b2 * asum qs (fun b1 => A (rd b qs) (rd b1 qs) * B (rd b1 qs) (rd b2 qs)) b) by ring.
  rewrite <- asum_scale. apply asum_ext; intros b1. ring.
Qed.

(* ---------------------------------------------------------------- embedding *)
Definition notin (qs : list nat) (q : nat) : bool := negb (existsb (Nat.eqb q) qs).
Definition restof (Q qs : list nat) : list nat := filter (notin qs) Q.

Lemma existsb_eqb_In q qs : existsb (Nat.eqb q) qs = true <-> In q qs.
Proof. rewrite existsb_exists; split.
  - intros [x [Hx E]]; apply Nat.eqb_eq in E; subst; auto.
  - intros H; exists q; split; auto; apply Nat.eqb_refl. Qed.

Lemma notin_spec qs q : notin qs q = true <-> ~ In q qs.
Proof. unfold notin. rewrite negb_true_iff, <- existsb_eqb_In.
  destruct (existsb (Nat.eqb q) qs); split; intros; try discriminate; auto.
  exfalso; auto. Qed.

Lemma restof_In Q qs q : In q (restof Q qs) <-> In q Q /\ ~ In q qs.
Proof. unfold restof; rewrite filter_In, notin_spec; tauto. Qed.

Lemma NoDup_app_intro {A} (l l' : list A) :
  NoDup l -> NoDup l' -> (forall x, In x l -> In x l' -> False) -> NoDup (l ++ l').
Proof.
  induction 1 as [|a l Ha Hl IH]; intros Hl' Hd; simpl; auto.
  constructor.
  - rewrite in_app_iff; intros [H|H]; [auto | apply (Hd a); simpl; auto].
  - apply IH; auto. intros x Hx; apply Hd; simpl; auto.
Qed.

Lemma perm_split Q qs : NoDup Q -> NoDup qs -> incl qs Q ->
  Permutation Q (qs ++ restof Q qs).
Proof.
  intros HQ Hqs Hincl. apply NoDup_Permutation; auto.
  - apply NoDup_app_intro; auto.
    + apply NoDup_filter; auto.
    + intros x Hx Hx'. apply restof_In in Hx'. tauto.
  - intros x; rewrite in_app_iff, restof_In. split.
    + intros Hx. destruct (in_dec Nat.eq_dec x qs); [left|right]; auto.
    + intros [Hx|[Hx _]]; auto.
Qed.

Lemma lk_rd b Q : forall q, In q Q -> lk Q (rd b Q) q = b q.
Proof. induction Q as [|q0 Q IH]; intros q Hq; simpl in *; [tauto|].
  destruct (Nat.eqb_spec q q0) as [->|Hne]; auto. apply IH; destruct Hq; congruence. Qed.

Lemma sub_rd b Q qs : incl qs Q -> sub Q (rd b Q) qs = rd b qs.
Proof. intros H. unfold sub, rd. apply map_ext_in; intros q Hq; apply lk_rd, H, Hq. Qed.

Lemma restb_rd b b' qs : forall Q,
  restb Q qs (rd b Q) (rd b' Q) = agreeb (restof Q qs) b b'.
Proof.
  induction Q as [|q Q IH]; simpl; [reflexivity|].
  rewrite IH. unfold restof; simpl. unfold notin at 2.
  destruct (existsb (Nat.eqb q) qs); simpl; reflexivity.
Qed.

Lemma apply_embed A Q qs : NoDup Q -> NoDup qs -> incl qs Q -> forall psi b,
  apply A qs psi b = apply (cembed Q qs A) Q psi b.
Proof.
  intros HQ Hqs Hincl psi b. symmetry. unfold apply.
  rewrite (asum_perm _ _ (perm_split Q qs HQ Hqs Hincl)), asum_app.
  apply asum_ext_off; intros b1 Hb1.
  assert (Hrest : NoDup (restof Q qs)) by (apply NoDup_filter; auto).
  transitivity (asum (restof Q qs)
    (fun b' => if agreeb (restof Q qs) b b' then A (rd b qs) (rd b' qs) * psi b' else C0) b1).
  { apply asum_ext; intros b'. unfold embedK.
    rewrite restb_rd, !sub_rd by auto. destruct (agreeb _ b b'); ring. }
  rewrite asum_delta by auto.
  assert (E : over b (restof Q qs) b1 = b1).
  { apply functional_extensionality; intros n. rewrite over_spec.
    destruct (existsb (Nat.eqb n) (restof Q qs)) eqn:En; auto.
    apply existsb_eqb_In, restof_In in En. symmetry; apply Hb1; tauto. }
  rewrite E; reflexivity.
Qed.

(* ---------------------------------------------------------------- gate lists *)
Definition lgate : Type := (CM * list nat)%type.
Definition lsem (g : lgate) : Op := apply (fst g) (snd g).
Definition csem (gs : list lgate) : Op := fun psi => fold_left (fun p g => lsem g p) gs psi.

Definition wf_on (Q : list nat) (g : lgate) : Prop := NoDup (snd g) /\ incl (snd g) Q.

Definition prodK (Q : list nat) (gs : list lgate) (acc : CM) : CM :=
  fold_left (fun acc g => cmmul (length Q) (cembed Q (snd g) (fst g)) acc) gs acc.

Lemma csem_prod_acc Q : NoDup Q -> forall gs, Forall (wf_on Q) gs -> forall acc psi,
  csem gs (apply acc Q psi) = apply (prodK Q gs acc) Q psi.
Proof.
  intros HQ gs; induction gs as [|g gs IH]; intros Hwf acc psi; simpl; [reflexivity|].
  inversion Hwf as [|? ? [Hg1 Hg2] Hwf']; subst.
  unfold csem in *; simpl.
  replace (lsem g (apply acc Q psi)) with (apply (cmmul (length Q) (cembed Q (snd g) (fst g)) acc) Q psi).
  - apply IH; auto.
  - apply functional_extensionality; intros b. unfold lsem.
    rewrite (apply_embed (fst g) Q (snd g)) by auto.
    apply (eq_sym (apply_mmul _ _ Q HQ psi b)).
Qed.

Definition oneF : CM := fun _ _ => C1.

Lemma apply_one Q : NoDup Q -> forall psi, apply (cembed Q [] oneF) Q psi = psi.
Proof.
  intros HQ psi. apply functional_extensionality; intros b.
  rewrite <- (apply_embed oneF Q []); auto.
  - unfold apply, oneF; simpl; ring.
  - constructor.
  - intros x [].
Qed.

Theorem csem_prod Q gs : NoDup Q -> Forall (wf_on Q) gs -> forall psi,
  csem gs psi = apply (prodK Q gs (cembed Q [] oneF)) Q psi.
Proof.
  intros HQ Hwf psi. rewrite <- csem_prod_acc by auto. rewrite apply_one by auto. reflexivity.
Qed.

(* ---------------------------------------------------------------- equivalence up to phase *)
Definition opequiv (U V : Op) : Prop :=
  exists c, Cunit c /\ forall psi b, U psi b = c * V psi b.
Infix "≃" := opequiv (at level 70).

Lemma opequiv_refl U : U ≃ U.
Proof. exists C1; split; [apply Cunit_1|]; intros; ring. Qed.

Lemma opequiv_sym U V : U ≃ V -> V ≃ U.
Proof. intros [c [Hc H]]. exists (Cconj c); split; [apply Cunit_conj, Hc|].
  intros psi b; rewrite H. pose proof (Cunit_inv c Hc) as E.
  transitivity ((c * Cconj c) * V psi b); [rewrite E; ring | ring]. Qed.

Lemma opequiv_trans U V W : U ≃ V -> V ≃ W -> U ≃ W.
Proof. intros [c [Hc H]] [d [Hd H']]. exists (c * d); split; [apply Cunit_mul; auto|].
  intros; rewrite H, H'; ring. Qed.

(* operators that commute with scalars (all circuit semantics do) *)
Definition scal_lin (U : Op) : Prop :=
  forall c psi b, U (fun x => c * psi x) b = c * U psi b.

Lemma lsem_lin g : scal_lin (lsem g).
Proof. intros c psi b; apply apply_lin_scale. Qed.

Lemma csem_lin gs : scal_lin (csem gs).
Proof.
  induction gs as [|g gs IH]; intros c psi b; unfold csem; simpl; [reflexivity|].
  replace (lsem g (fun x => c * psi x)) with (fun x => c * lsem g psi x).
  - apply IH.
  - apply functional_extensionality; intros x; symmetry; apply lsem_lin.
Qed.

Lemma csem_app gs gs' psi : csem (gs ++ gs') psi = csem gs' (csem gs psi).
Proof. unfold csem; apply fold_left_app. Qed.

Lemma opequiv_compose (U U' V V' : Op) :
  scal_lin V -> U ≃ U' -> V ≃ V' ->
  (fun psi => V (U psi)) ≃ (fun psi => V' (U' psi)).
Proof.
  intros HV [c [Hc H]] [d [Hd H']]. exists (c * d); split; [apply Cunit_mul; auto|].
  intros psi b. replace (U psi) with (fun x => c * U' psi x)
    by (apply functional_extensionality; intros; symmetry; apply H).
  rewrite HV, H'. ring.
Qed.

(* concatenation respects equivalence: the lift from templates to whole circuits *)
Lemma csem_app_equiv gs1 gs1' gs2 gs2' :
  csem gs1 ≃ csem gs1' -> csem gs2 ≃ csem gs2' ->
  csem (gs1 ++ gs2) ≃ csem (gs1' ++ gs2').
Proof.
  intros H1 H2.
  destruct (opequiv_compose (csem gs1) (csem gs1') (csem gs2) (csem gs2') (csem_lin gs2) H1 H2)
    as [c [Hc H]].
  exists c; split; auto. intros psi b. rewrite !csem_app. apply H.
Qed.

Lemma csem_flat_map_equiv {A} (f : A -> list lgate) (g : A -> list lgate) (l : list A) :
  (forall a, In a l -> csem (f a) ≃ csem (g a)) ->
  csem (flat_map f l) ≃ csem (flat_map g l).
Proof.
  induction l as [|a l IH]; intros H; simpl; [apply opequiv_refl|].
  apply csem_app_equiv; [apply H; left; reflexivity | apply IH; intros; apply H; right; auto].
Qed.
